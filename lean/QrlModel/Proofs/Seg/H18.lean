import QrlModel.Proofs.Seg.H18Seg0
import QrlModel.Proofs.Seg.H18Seg4
import QrlModel.Proofs.Seg.H18Seg8
import QrlModel.Proofs.Seg.H18Seg12
import QrlModel.Proofs.Seg.H18Seg16
import QrlModel.Proofs.Seg.H18Seg20
import QrlModel.Proofs.Seg.H18Seg24
import QrlModel.Proofs.Seg.H18Seg28
import QrlModel.Proofs.Seg.H18Seg32
import QrlModel.Proofs.Seg.H18Seg36
import QrlModel.Proofs.Seg.H18Seg40
import QrlModel.Proofs.Seg.H18Seg44
import QrlModel.Proofs.Seg.H18Seg48
import QrlModel.Proofs.Seg.H18Seg52
import QrlModel.Proofs.Seg.H18Seg56
import QrlModel.Proofs.Seg.H18Seg60
import QrlModel.Proofs.Seg.H18Seg64
import QrlModel.Proofs.Seg.H18Seg68
import QrlModel.Proofs.Seg.H18Seg72
import QrlModel.Proofs.Seg.H18Seg76
import QrlModel.Proofs.Seg.H18Seg80
import QrlModel.Proofs.Seg.H18Seg84
import QrlModel.Proofs.Seg.H18Seg88
import QrlModel.Proofs.Seg.H18Seg92
import QrlModel.Proofs.Seg.H18Seg96
import QrlModel.Proofs.Seg.H18Seg100
import QrlModel.Proofs.Seg.H18Seg104
import QrlModel.Proofs.Seg.H18Seg108
import QrlModel.Proofs.Seg.H18Seg112
import QrlModel.Proofs.Seg.H18Seg116
import QrlModel.Proofs.Seg.H18Seg120
import QrlModel.Proofs.Seg.H18Seg124
import QrlModel.Proofs.Seg.H18Seg128
import QrlModel.Proofs.Seg.H18Seg132
import QrlModel.Proofs.Seg.H18Seg136
import QrlModel.Proofs.Seg.H18Seg140
import QrlModel.Proofs.Seg.H18Seg144
import QrlModel.Proofs.Seg.H18Seg148
import QrlModel.Proofs.Seg.H18Seg152
import QrlModel.Proofs.Seg.H18Seg156
import QrlModel.Proofs.Seg.H18Seg160
import QrlModel.Proofs.Seg.H18Seg164
import QrlModel.Proofs.Seg.H18Seg168
import QrlModel.Proofs.Seg.H18Seg172
import QrlModel.Proofs.Seg.H18Seg176
import QrlModel.Proofs.Seg.H18Seg180
import QrlModel.Proofs.Seg.H18Seg184
import QrlModel.Proofs.Seg.H18Seg188
import QrlModel.Proofs.Seg.H18Seg192
import QrlModel.Proofs.Seg.H18Seg196
import QrlModel.Proofs.Seg.H18Seg200
import QrlModel.Proofs.Seg.H18Seg204
import QrlModel.Proofs.Seg.H18Seg208
import QrlModel.Proofs.Seg.H18Seg212
import QrlModel.Proofs.Seg.H18Seg216
import QrlModel.Proofs.Seg.H18Seg220
import QrlModel.Proofs.Seg.H18Seg224
import QrlModel.Proofs.Seg.H18Seg228
import QrlModel.Proofs.Seg.H18Seg232
import QrlModel.Proofs.Seg.H18Seg236
import QrlModel.Proofs.Seg.H18Seg240
import QrlModel.Proofs.Seg.H18Seg244
import QrlModel.Proofs.Seg.H18Seg248
import QrlModel.Proofs.Seg.H18Seg252
import QrlModel.Proofs.Seg.H18Seg256
import QrlModel.Proofs.Seg.H18Seg260
import QrlModel.Proofs.Seg.H18Seg264
import QrlModel.Proofs.Seg.H18Seg268
import QrlModel.Proofs.Seg.H18Seg272
import QrlModel.Proofs.Seg.H18Seg276
import QrlModel.Proofs.Seg.H18Seg280
import QrlModel.Proofs.Seg.H18Seg284
import QrlModel.Proofs.Seg.H18Seg288
import QrlModel.Proofs.Seg.H18Seg292
import QrlModel.Proofs.Seg.H18Seg296
import QrlModel.Proofs.Seg.H18Seg300
import QrlModel.Proofs.Seg.H18Seg304
import QrlModel.Proofs.Seg.H18Seg308
import QrlModel.Proofs.Seg.H18Seg312
import QrlModel.Proofs.Seg.H18Seg316
import QrlModel.Proofs.Seg.H18Seg320
import QrlModel.Proofs.Seg.H18Seg324
import QrlModel.Proofs.Seg.H18Seg328
import QrlModel.Proofs.Seg.H18Seg332
import QrlModel.Proofs.Seg.H18Seg336
import QrlModel.Proofs.Seg.H18Seg340
import QrlModel.Proofs.Seg.H18Seg344
import QrlModel.Proofs.Seg.H18Seg348
import QrlModel.Proofs.Seg.H18Seg352
import QrlModel.Proofs.Seg.H18Seg356
import QrlModel.Proofs.Seg.H18Seg360
import QrlModel.Proofs.Seg.H18Seg364
import QrlModel.Proofs.Seg.H18Seg368
import QrlModel.Proofs.Seg.H18Seg372
import QrlModel.Proofs.Seg.H18Seg376
import QrlModel.Proofs.Seg.H18Seg380
import QrlModel.Proofs.Seg.H18Seg384
import QrlModel.Proofs.Seg.H18Seg388
import QrlModel.Proofs.Seg.H18Seg392
import QrlModel.Proofs.Seg.H18Seg396
import QrlModel.Proofs.Seg.H18Seg400
import QrlModel.Proofs.Seg.H18Seg404
import QrlModel.Proofs.Seg.H18Seg408
import QrlModel.Proofs.Seg.H18Seg412
import QrlModel.Proofs.Seg.H18Seg416
import QrlModel.Proofs.Seg.H18Seg420
import QrlModel.Proofs.Seg.H18Seg424
import QrlModel.Proofs.Seg.H18Seg428
import QrlModel.Proofs.Seg.H18Seg432
import QrlModel.Proofs.Seg.H18Seg436
import QrlModel.Proofs.Seg.H18Seg440
import QrlModel.Proofs.Seg.H18Seg444
import QrlModel.Proofs.Seg.H18Seg448
import QrlModel.Proofs.Seg.H18Seg452
import QrlModel.Proofs.Seg.H18Seg456
import QrlModel.Proofs.Seg.H18Seg460
import QrlModel.Proofs.Seg.H18Seg464
import QrlModel.Proofs.Seg.H18Seg468
import QrlModel.Proofs.Seg.H18Seg472
import QrlModel.Proofs.Seg.H18Seg476
import QrlModel.Proofs.Seg.H18Seg480
import QrlModel.Proofs.Seg.H18Seg484
import QrlModel.Proofs.Seg.H18Seg488
import QrlModel.Proofs.Seg.H18Seg492
import QrlModel.Proofs.Seg.H18Seg496
import QrlModel.Proofs.Seg.H18Seg500
import QrlModel.Proofs.Seg.H18Seg504
import QrlModel.Proofs.Seg.H18Seg508
import QrlModel.Proofs.Seg.H18Seg512
import QrlModel.Proofs.Seg.H18Seg516
import QrlModel.Proofs.Seg.H18Seg520
import QrlModel.Proofs.Seg.H18Seg524
import QrlModel.Proofs.Seg.H18Seg528
import QrlModel.Proofs.Seg.H18Seg532
import QrlModel.Proofs.Seg.H18Seg536
import QrlModel.Proofs.Seg.H18Seg540
import QrlModel.Proofs.Seg.H18Seg544
import QrlModel.Proofs.Seg.H18Seg548
import QrlModel.Proofs.Seg.H18Seg552
import QrlModel.Proofs.Seg.H18Seg556
import QrlModel.Proofs.Seg.H18Seg560
import QrlModel.Proofs.Seg.H18Seg564
import QrlModel.Proofs.Seg.H18Seg568
import QrlModel.Proofs.Seg.H18Seg572
import QrlModel.Proofs.Seg.H18Seg576
import QrlModel.Proofs.Seg.H18Seg580
import QrlModel.Proofs.Seg.H18Seg584
import QrlModel.Proofs.Seg.H18Seg588
import QrlModel.Proofs.Seg.H18Seg592
import QrlModel.Proofs.Seg.H18Seg596
import QrlModel.Proofs.Seg.H18Seg600
import QrlModel.Proofs.Seg.H18Seg604
import QrlModel.Proofs.Seg.H18Seg608
import QrlModel.Proofs.Seg.H18Seg612
import QrlModel.Proofs.Seg.H18Seg616
import QrlModel.Proofs.Seg.H18Seg620
import QrlModel.Proofs.Seg.H18Seg624
import QrlModel.Proofs.Seg.H18Seg628
import QrlModel.Proofs.Seg.H18Seg632
import QrlModel.Proofs.Seg.H18Seg636
import QrlModel.Proofs.Seg.H18Seg640
import QrlModel.Proofs.Seg.H18Seg644
import QrlModel.Proofs.Seg.H18Seg648
import QrlModel.Proofs.Seg.H18Seg652
import QrlModel.Proofs.Seg.H18Seg656
import QrlModel.Proofs.Seg.H18Seg660
import QrlModel.Proofs.Seg.H18Seg664
import QrlModel.Proofs.Seg.H18Seg668
import QrlModel.Proofs.Seg.H18Seg672
import QrlModel.Proofs.Seg.H18Seg676
import QrlModel.Proofs.Seg.H18Seg680
import QrlModel.Proofs.Seg.H18Seg684
import QrlModel.Proofs.Seg.H18Seg688
import QrlModel.Proofs.Seg.H18Seg692
import QrlModel.Proofs.Seg.H18Seg696
import QrlModel.Proofs.Seg.H18Seg700
import QrlModel.Proofs.Seg.H18Seg704
import QrlModel.Proofs.Seg.H18Seg708
import QrlModel.Proofs.Seg.H18Seg712
import QrlModel.Proofs.Seg.H18Seg716
import QrlModel.Proofs.Seg.H18Seg720
import QrlModel.Proofs.Seg.H18Seg724
import QrlModel.Proofs.Seg.H18Seg728
import QrlModel.Proofs.Seg.H18Seg732
import QrlModel.Proofs.Seg.H18Seg736
import QrlModel.Proofs.Seg.H18Seg740
import QrlModel.Proofs.Seg.H18Seg744
import QrlModel.Proofs.Seg.H18Seg748
import QrlModel.Proofs.Seg.H18Seg752
import QrlModel.Proofs.Seg.H18Seg756
import QrlModel.Proofs.Seg.H18Seg760
import QrlModel.Proofs.Seg.H18Seg764
import QrlModel.Proofs.Seg.H18Seg768
import QrlModel.Proofs.Seg.H18Seg772
import QrlModel.Proofs.Seg.H18Seg776
import QrlModel.Proofs.Seg.H18Seg780
import QrlModel.Proofs.Seg.H18Seg784
import QrlModel.Proofs.Seg.H18Seg788
import QrlModel.Proofs.Seg.H18Seg792
import QrlModel.Proofs.Seg.H18Seg796
import QrlModel.Proofs.Seg.H18Seg800
import QrlModel.Proofs.Seg.H18Seg804
import QrlModel.Proofs.Seg.H18Seg808
import QrlModel.Proofs.Seg.H18Seg812
import QrlModel.Proofs.Seg.H18Seg816
import QrlModel.Proofs.Seg.H18Seg820
import QrlModel.Proofs.Seg.H18Seg824
import QrlModel.Proofs.Seg.H18Seg828
import QrlModel.Proofs.Seg.H18Seg832
import QrlModel.Proofs.Seg.H18Seg836
import QrlModel.Proofs.Seg.H18Seg840
import QrlModel.Proofs.Seg.H18Seg844
import QrlModel.Proofs.Seg.H18Seg848
import QrlModel.Proofs.Seg.H18Seg852
import QrlModel.Proofs.Seg.H18Seg856
import QrlModel.Proofs.Seg.H18Seg860
import QrlModel.Proofs.Seg.H18Seg864
import QrlModel.Proofs.Seg.H18Seg868
import QrlModel.Proofs.Seg.H18Seg872
import QrlModel.Proofs.Seg.H18Seg876
import QrlModel.Proofs.Seg.H18Seg880
import QrlModel.Proofs.Seg.H18Seg884
import QrlModel.Proofs.Seg.H18Seg888
import QrlModel.Proofs.Seg.H18Seg892
import QrlModel.Proofs.Seg.H18Seg896
import QrlModel.Proofs.Seg.H18Seg900
import QrlModel.Proofs.Seg.H18Seg904
import QrlModel.Proofs.Seg.H18Seg908
import QrlModel.Proofs.Seg.H18Seg912
import QrlModel.Proofs.Seg.H18Seg916
import QrlModel.Proofs.Seg.H18Seg920
import QrlModel.Proofs.Seg.H18Seg924
import QrlModel.Proofs.Seg.H18Seg928
import QrlModel.Proofs.Seg.H18Seg932
import QrlModel.Proofs.Seg.H18Seg936
import QrlModel.Proofs.Seg.H18Seg940
import QrlModel.Proofs.Seg.H18Seg944
import QrlModel.Proofs.Seg.H18Seg948
import QrlModel.Proofs.Seg.H18Seg952
import QrlModel.Proofs.Seg.H18Seg956
import QrlModel.Proofs.Seg.H18Seg960
import QrlModel.Proofs.Seg.H18Seg964
import QrlModel.Proofs.Seg.H18Seg968
import QrlModel.Proofs.Seg.H18Seg972
import QrlModel.Proofs.Seg.H18Seg976
import QrlModel.Proofs.Seg.H18Seg980
import QrlModel.Proofs.Seg.H18Seg984
import QrlModel.Proofs.Seg.H18Seg988
import QrlModel.Proofs.Seg.H18Seg992
import QrlModel.Proofs.Seg.H18Seg996
import QrlModel.Proofs.Seg.H18Seg1000
import QrlModel.Proofs.Seg.H18Seg1004
import QrlModel.Proofs.Seg.H18Seg1008
import QrlModel.Proofs.Seg.H18Seg1012
import QrlModel.Proofs.Seg.H18Seg1016
import QrlModel.Proofs.Seg.H18Seg1020
import QrlModel.Proofs.Seg.H18Seg1024
import QrlModel.Proofs.Seg.H18Seg1028
import QrlModel.Proofs.Seg.H18Seg1032
import QrlModel.Proofs.Seg.H18Seg1036
import QrlModel.Proofs.Seg.H18Seg1040
import QrlModel.Proofs.Seg.H18Seg1044
import QrlModel.Proofs.Seg.H18Seg1048
import QrlModel.Proofs.Seg.H18Seg1052
import QrlModel.Proofs.Seg.H18Seg1056
import QrlModel.Proofs.Seg.H18Seg1060
import QrlModel.Proofs.Seg.H18Seg1064
import QrlModel.Proofs.Seg.H18Seg1068
import QrlModel.Proofs.Seg.H18Seg1072
import QrlModel.Proofs.Seg.H18Seg1076
import QrlModel.Proofs.Seg.H18Seg1080
import QrlModel.Proofs.Seg.H18Seg1084
import QrlModel.Proofs.Seg.H18Seg1088
import QrlModel.Proofs.Seg.H18Seg1092
import QrlModel.Proofs.Seg.H18Seg1096
import QrlModel.Proofs.Seg.H18Seg1100
import QrlModel.Proofs.Seg.H18Seg1104
import QrlModel.Proofs.Seg.H18Seg1108
import QrlModel.Proofs.Seg.H18Seg1112
import QrlModel.Proofs.Seg.H18Seg1116
import QrlModel.Proofs.Seg.H18Seg1120
import QrlModel.Proofs.Seg.H18Seg1124
import QrlModel.Proofs.Seg.H18Seg1128
import QrlModel.Proofs.Seg.H18Seg1132
import QrlModel.Proofs.Seg.H18Seg1136
import QrlModel.Proofs.Seg.H18Seg1140
import QrlModel.Proofs.Seg.H18Seg1144
import QrlModel.Proofs.Seg.H18Seg1148
import QrlModel.Proofs.Seg.H18Seg1152
import QrlModel.Proofs.Seg.H18Seg1156
import QrlModel.Proofs.Seg.H18Seg1160
import QrlModel.Proofs.Seg.H18Seg1164
import QrlModel.Proofs.Seg.H18Seg1168
import QrlModel.Proofs.Seg.H18Seg1172
import QrlModel.Proofs.Seg.H18Seg1176
import QrlModel.Proofs.Seg.H18Seg1180
import QrlModel.Proofs.Seg.H18Seg1184
import QrlModel.Proofs.Seg.H18Seg1188
import QrlModel.Proofs.Seg.H18Seg1192
import QrlModel.Proofs.Seg.H18Seg1196
import QrlModel.Proofs.Seg.H18Seg1200
import QrlModel.Proofs.Seg.H18Seg1204
import QrlModel.Proofs.Seg.H18Seg1208
import QrlModel.Proofs.Seg.H18Seg1212
import QrlModel.Proofs.Seg.H18Seg1216
import QrlModel.Proofs.Seg.H18Seg1220
import QrlModel.Proofs.Seg.H18Seg1224
import QrlModel.Proofs.Seg.H18Seg1228
import QrlModel.Proofs.Seg.H18Seg1232
import QrlModel.Proofs.Seg.H18Seg1236
import QrlModel.Proofs.Seg.H18Seg1240
import QrlModel.Proofs.Seg.H18Seg1244
import QrlModel.Proofs.Seg.H18Seg1248
import QrlModel.Proofs.Seg.H18Seg1252
import QrlModel.Proofs.Seg.H18Seg1256
import QrlModel.Proofs.Seg.H18Seg1260
import QrlModel.Proofs.Seg.H18Seg1264
import QrlModel.Proofs.Seg.H18Seg1268
import QrlModel.Proofs.Seg.H18Seg1272
import QrlModel.Proofs.Seg.H18Seg1276
import QrlModel.Proofs.Seg.H18Seg1280
import QrlModel.Proofs.Seg.H18Seg1284
import QrlModel.Proofs.Seg.H18Seg1288
import QrlModel.Proofs.Seg.H18Seg1292
import QrlModel.Proofs.Seg.H18Seg1296
import QrlModel.Proofs.Seg.H18Seg1300
import QrlModel.Proofs.Seg.H18Seg1304
import QrlModel.Proofs.Seg.H18Seg1308
import QrlModel.Proofs.Seg.H18Seg1312
import QrlModel.Proofs.Seg.H18Seg1316
import QrlModel.Proofs.Seg.H18Seg1320
import QrlModel.Proofs.Seg.H18Seg1324
import QrlModel.Proofs.Seg.H18Seg1328
import QrlModel.Proofs.Seg.H18Seg1332
import QrlModel.Proofs.Seg.H18Seg1336
import QrlModel.Proofs.Seg.H18Seg1340
import QrlModel.Proofs.Seg.H18Seg1344
import QrlModel.Proofs.Seg.H18Seg1348
import QrlModel.Proofs.Seg.H18Seg1352
import QrlModel.Proofs.Seg.H18Seg1356
import QrlModel.Proofs.Seg.H18Seg1360
import QrlModel.Proofs.Seg.H18Seg1364
import QrlModel.Proofs.Seg.H18Seg1368
import QrlModel.Proofs.Seg.H18Seg1372
import QrlModel.Proofs.Seg.H18Seg1376
import QrlModel.Proofs.Seg.H18Seg1380
import QrlModel.Proofs.Seg.H18Seg1384
import QrlModel.Proofs.Seg.H18Seg1388
import QrlModel.Proofs.Seg.H18Seg1392
import QrlModel.Proofs.Seg.H18Seg1396
import QrlModel.Proofs.Seg.H18Seg1400
import QrlModel.Proofs.Seg.H18Seg1404
import QrlModel.Proofs.Seg.H18Seg1408
import QrlModel.Proofs.Seg.H18Seg1412
import QrlModel.Proofs.Seg.H18Seg1416
import QrlModel.Proofs.Seg.H18Seg1420
import QrlModel.Proofs.Seg.H18Seg1424
import QrlModel.Proofs.Seg.H18Seg1428
import QrlModel.Proofs.Seg.H18Seg1432
import QrlModel.Proofs.Seg.H18Seg1436
import QrlModel.Proofs.Seg.H18Seg1440
import QrlModel.Proofs.Seg.H18Seg1444
import QrlModel.Proofs.Seg.H18Seg1448
import QrlModel.Proofs.Seg.H18Seg1452
import QrlModel.Proofs.Seg.H18Seg1456
import QrlModel.Proofs.Seg.H18Seg1460
import QrlModel.Proofs.Seg.H18Seg1464
import QrlModel.Proofs.Seg.H18Seg1468
import QrlModel.Proofs.Seg.H18Seg1472
import QrlModel.Proofs.Seg.H18Seg1476
import QrlModel.Proofs.Seg.H18Seg1480
import QrlModel.Proofs.Seg.H18Seg1484
import QrlModel.Proofs.Seg.H18Seg1488
import QrlModel.Proofs.Seg.H18Seg1492
import QrlModel.Proofs.Seg.H18Seg1496
import QrlModel.Proofs.Seg.H18Seg1500
import QrlModel.Proofs.Seg.H18Seg1504
import QrlModel.Proofs.Seg.H18Seg1508
import QrlModel.Proofs.Seg.H18Seg1512
import QrlModel.Proofs.Seg.H18Seg1516
import QrlModel.Proofs.Seg.H18Seg1520
import QrlModel.Proofs.Seg.H18Seg1524
import QrlModel.Proofs.Seg.H18Seg1528
import QrlModel.Proofs.Seg.H18Seg1532
import QrlModel.Proofs.Seg.H18Seg1536
import QrlModel.Proofs.Seg.H18Seg1540
import QrlModel.Proofs.Seg.H18Seg1544
import QrlModel.Proofs.Seg.H18Seg1548
import QrlModel.Proofs.Seg.H18Seg1552
import QrlModel.Proofs.Seg.H18Seg1556
import QrlModel.Proofs.Seg.H18Seg1560
import QrlModel.Proofs.Seg.H18Seg1564
import QrlModel.Proofs.Seg.H18Seg1568
import QrlModel.Proofs.Seg.H18Seg1572
import QrlModel.Proofs.Seg.H18Seg1576
import QrlModel.Proofs.Seg.H18Seg1580
import QrlModel.Proofs.Seg.H18Seg1584
import QrlModel.Proofs.Seg.H18Seg1588
import QrlModel.Proofs.Seg.H18Seg1592
import QrlModel.Proofs.Seg.H18Seg1596
import QrlModel.Proofs.Seg.H18Seg1600
import QrlModel.Proofs.Seg.H18Seg1604
import QrlModel.Proofs.Seg.H18Seg1608
import QrlModel.Proofs.Seg.H18Seg1612
import QrlModel.Proofs.Seg.H18Seg1616
import QrlModel.Proofs.Seg.H18Seg1620
import QrlModel.Proofs.Seg.H18Seg1624
import QrlModel.Proofs.Seg.H18Seg1628
import QrlModel.Proofs.Seg.H18Seg1632
import QrlModel.Proofs.Seg.H18Seg1636
import QrlModel.Proofs.Seg.H18Seg1640
import QrlModel.Proofs.Seg.H18Seg1644
import QrlModel.Proofs.Seg.H18Seg1648
import QrlModel.Proofs.Seg.H18Seg1652
import QrlModel.Proofs.Seg.H18Seg1656
import QrlModel.Proofs.Seg.H18Seg1660
import QrlModel.Proofs.Seg.H18Seg1664
import QrlModel.Proofs.Seg.H18Seg1668
import QrlModel.Proofs.Seg.H18Seg1672
import QrlModel.Proofs.Seg.H18Seg1676
import QrlModel.Proofs.Seg.H18Seg1680
import QrlModel.Proofs.Seg.H18Seg1684
import QrlModel.Proofs.Seg.H18Seg1688
import QrlModel.Proofs.Seg.H18Seg1692
import QrlModel.Proofs.Seg.H18Seg1696
import QrlModel.Proofs.Seg.H18Seg1700
import QrlModel.Proofs.Seg.H18Seg1704
import QrlModel.Proofs.Seg.H18Seg1708
import QrlModel.Proofs.Seg.H18Seg1712
import QrlModel.Proofs.Seg.H18Seg1716
import QrlModel.Proofs.Seg.H18Seg1720
import QrlModel.Proofs.Seg.H18Seg1724
import QrlModel.Proofs.Seg.H18Seg1728
import QrlModel.Proofs.Seg.H18Seg1732
import QrlModel.Proofs.Seg.H18Seg1736
import QrlModel.Proofs.Seg.H18Seg1740
import QrlModel.Proofs.Seg.H18Seg1744
import QrlModel.Proofs.Seg.H18Seg1748
import QrlModel.Proofs.Seg.H18Seg1752
import QrlModel.Proofs.Seg.H18Seg1756
import QrlModel.Proofs.Seg.H18Seg1760
import QrlModel.Proofs.Seg.H18Seg1764
import QrlModel.Proofs.Seg.H18Seg1768
import QrlModel.Proofs.Seg.H18Seg1772
import QrlModel.Proofs.Seg.H18Seg1776
import QrlModel.Proofs.Seg.H18Seg1780
import QrlModel.Proofs.Seg.H18Seg1784
import QrlModel.Proofs.Seg.H18Seg1788
import QrlModel.Proofs.Seg.H18Seg1792
import QrlModel.Proofs.Seg.H18Seg1796
import QrlModel.Proofs.Seg.H18Seg1800
import QrlModel.Proofs.Seg.H18Seg1804
import QrlModel.Proofs.Seg.H18Seg1808
import QrlModel.Proofs.Seg.H18Seg1812
import QrlModel.Proofs.Seg.H18Seg1816
import QrlModel.Proofs.Seg.H18Seg1820
import QrlModel.Proofs.Seg.H18Seg1824
import QrlModel.Proofs.Seg.H18Seg1828
import QrlModel.Proofs.Seg.H18Seg1832
import QrlModel.Proofs.Seg.H18Seg1836
import QrlModel.Proofs.Seg.H18Seg1840
import QrlModel.Proofs.Seg.H18Seg1844
import QrlModel.Proofs.Seg.H18Seg1848
import QrlModel.Proofs.Seg.H18Seg1852
import QrlModel.Proofs.Seg.H18Seg1856
import QrlModel.Proofs.Seg.H18Seg1860
import QrlModel.Proofs.Seg.H18Seg1864
import QrlModel.Proofs.Seg.H18Seg1868
import QrlModel.Proofs.Seg.H18Seg1872
import QrlModel.Proofs.Seg.H18Seg1876
import QrlModel.Proofs.Seg.H18Seg1880
import QrlModel.Proofs.Seg.H18Seg1884
import QrlModel.Proofs.Seg.H18Seg1888
import QrlModel.Proofs.Seg.H18Seg1892
import QrlModel.Proofs.Seg.H18Seg1896
import QrlModel.Proofs.Seg.H18Seg1900
import QrlModel.Proofs.Seg.H18Seg1904
import QrlModel.Proofs.Seg.H18Seg1908
import QrlModel.Proofs.Seg.H18Seg1912
import QrlModel.Proofs.Seg.H18Seg1916
import QrlModel.Proofs.Seg.H18Seg1920
import QrlModel.Proofs.Seg.H18Seg1924
import QrlModel.Proofs.Seg.H18Seg1928
import QrlModel.Proofs.Seg.H18Seg1932
import QrlModel.Proofs.Seg.H18Seg1936
import QrlModel.Proofs.Seg.H18Seg1940
import QrlModel.Proofs.Seg.H18Seg1944
import QrlModel.Proofs.Seg.H18Seg1948
import QrlModel.Proofs.Seg.H18Seg1952
import QrlModel.Proofs.Seg.H18Seg1956
import QrlModel.Proofs.Seg.H18Seg1960
import QrlModel.Proofs.Seg.H18Seg1964
import QrlModel.Proofs.Seg.H18Seg1968
import QrlModel.Proofs.Seg.H18Seg1972
import QrlModel.Proofs.Seg.H18Seg1976
import QrlModel.Proofs.Seg.H18Seg1980
import QrlModel.Proofs.Seg.H18Seg1984
import QrlModel.Proofs.Seg.H18Seg1988
import QrlModel.Proofs.Seg.H18Seg1992
import QrlModel.Proofs.Seg.H18Seg1996
import QrlModel.Proofs.Seg.H18Seg2000
import QrlModel.Proofs.Seg.H18Seg2004
import QrlModel.Proofs.Seg.H18Seg2008
import QrlModel.Proofs.Seg.H18Seg2012
import QrlModel.Proofs.Seg.H18Seg2016
import QrlModel.Proofs.Seg.H18Seg2020
import QrlModel.Proofs.Seg.H18Seg2024
import QrlModel.Proofs.Seg.H18Seg2028
import QrlModel.Proofs.Seg.H18Seg2032
import QrlModel.Proofs.Seg.H18Seg2036
import QrlModel.Proofs.Seg.H18Seg2040
import QrlModel.Proofs.Seg.H18Seg2044
import QrlModel.Proofs.Seg.H18Seg2048
import QrlModel.Proofs.Seg.H18Seg2052
import QrlModel.Proofs.Seg.H18Seg2056
import QrlModel.Proofs.Seg.H18Seg2060
import QrlModel.Proofs.Seg.H18Seg2064
import QrlModel.Proofs.Seg.H18Seg2068
import QrlModel.Proofs.Seg.H18Seg2072
import QrlModel.Proofs.Seg.H18Seg2076
import QrlModel.Proofs.Seg.H18Seg2080
import QrlModel.Proofs.Seg.H18Seg2084
import QrlModel.Proofs.Seg.H18Seg2088
import QrlModel.Proofs.Seg.H18Seg2092
import QrlModel.Proofs.Seg.H18Seg2096
import QrlModel.Proofs.Seg.H18Seg2100
import QrlModel.Proofs.Seg.H18Seg2104
import QrlModel.Proofs.Seg.H18Seg2108
import QrlModel.Proofs.Seg.H18Seg2112
import QrlModel.Proofs.Seg.H18Seg2116
import QrlModel.Proofs.Seg.H18Seg2120
import QrlModel.Proofs.Seg.H18Seg2124
import QrlModel.Proofs.Seg.H18Seg2128
import QrlModel.Proofs.Seg.H18Seg2132
import QrlModel.Proofs.Seg.H18Seg2136
import QrlModel.Proofs.Seg.H18Seg2140
import QrlModel.Proofs.Seg.H18Seg2144
import QrlModel.Proofs.Seg.H18Seg2148
import QrlModel.Proofs.Seg.H18Seg2152
import QrlModel.Proofs.Seg.H18Seg2156
import QrlModel.Proofs.Seg.H18Seg2160
import QrlModel.Proofs.Seg.H18Seg2164
import QrlModel.Proofs.Seg.H18Seg2168
import QrlModel.Proofs.Seg.H18Seg2172
import QrlModel.Proofs.Seg.H18Seg2176
import QrlModel.Proofs.Seg.H18Seg2180
import QrlModel.Proofs.Seg.H18Seg2184
import QrlModel.Proofs.Seg.H18Seg2188
import QrlModel.Proofs.Seg.H18Seg2192
import QrlModel.Proofs.Seg.H18Seg2196
import QrlModel.Proofs.Seg.H18Seg2200
import QrlModel.Proofs.Seg.H18Seg2204
import QrlModel.Proofs.Seg.H18Seg2208
import QrlModel.Proofs.Seg.H18Seg2212
import QrlModel.Proofs.Seg.H18Seg2216
import QrlModel.Proofs.Seg.H18Seg2220
import QrlModel.Proofs.Seg.H18Seg2224
import QrlModel.Proofs.Seg.H18Seg2228
import QrlModel.Proofs.Seg.H18Seg2232
import QrlModel.Proofs.Seg.H18Seg2236
import QrlModel.Proofs.Seg.H18Seg2240
import QrlModel.Proofs.Seg.H18Seg2244
import QrlModel.Proofs.Seg.H18Seg2248
import QrlModel.Proofs.Seg.H18Seg2252
import QrlModel.Proofs.Seg.H18Seg2256
import QrlModel.Proofs.Seg.H18Seg2260
import QrlModel.Proofs.Seg.H18Seg2264
import QrlModel.Proofs.Seg.H18Seg2268
import QrlModel.Proofs.Seg.H18Seg2272
import QrlModel.Proofs.Seg.H18Seg2276
import QrlModel.Proofs.Seg.H18Seg2280
import QrlModel.Proofs.Seg.H18Seg2284
import QrlModel.Proofs.Seg.H18Seg2288
import QrlModel.Proofs.Seg.H18Seg2292
import QrlModel.Proofs.Seg.H18Seg2296
import QrlModel.Proofs.Seg.H18Seg2300
import QrlModel.Proofs.Seg.H18Seg2304
import QrlModel.Proofs.Seg.H18Seg2308
import QrlModel.Proofs.Seg.H18Seg2312
import QrlModel.Proofs.Seg.H18Seg2316
import QrlModel.Proofs.Seg.H18Seg2320
import QrlModel.Proofs.Seg.H18Seg2324
import QrlModel.Proofs.Seg.H18Seg2328
import QrlModel.Proofs.Seg.H18Seg2332
import QrlModel.Proofs.Seg.H18Seg2336
import QrlModel.Proofs.Seg.H18Seg2340
import QrlModel.Proofs.Seg.H18Seg2344
import QrlModel.Proofs.Seg.H18Seg2348
import QrlModel.Proofs.Seg.H18Seg2352
import QrlModel.Proofs.Seg.H18Seg2356
import QrlModel.Proofs.Seg.H18Seg2360
import QrlModel.Proofs.Seg.H18Seg2364
import QrlModel.Proofs.Seg.H18Seg2368
import QrlModel.Proofs.Seg.H18Seg2372
import QrlModel.Proofs.Seg.H18Seg2376
import QrlModel.Proofs.Seg.H18Seg2380
import QrlModel.Proofs.Seg.H18Seg2384
import QrlModel.Proofs.Seg.H18Seg2388
import QrlModel.Proofs.Seg.H18Seg2392
import QrlModel.Proofs.Seg.H18Seg2396
import QrlModel.Proofs.Seg.H18Seg2400
import QrlModel.Proofs.Seg.H18Seg2404
import QrlModel.Proofs.Seg.H18Seg2408
import QrlModel.Proofs.Seg.H18Seg2412
import QrlModel.Proofs.Seg.H18Seg2416
import QrlModel.Proofs.Seg.H18Seg2420
import QrlModel.Proofs.Seg.H18Seg2424
import QrlModel.Proofs.Seg.H18Seg2428
import QrlModel.Proofs.Seg.H18Seg2432
import QrlModel.Proofs.Seg.H18Seg2436
import QrlModel.Proofs.Seg.H18Seg2440
import QrlModel.Proofs.Seg.H18Seg2444
import QrlModel.Proofs.Seg.H18Seg2448
import QrlModel.Proofs.Seg.H18Seg2452
import QrlModel.Proofs.Seg.H18Seg2456
import QrlModel.Proofs.Seg.H18Seg2460
import QrlModel.Proofs.Seg.H18Seg2464
import QrlModel.Proofs.Seg.H18Seg2468
import QrlModel.Proofs.Seg.H18Seg2472
import QrlModel.Proofs.Seg.H18Seg2476
import QrlModel.Proofs.Seg.H18Seg2480
import QrlModel.Proofs.Seg.H18Seg2484
import QrlModel.Proofs.Seg.H18Seg2488
import QrlModel.Proofs.Seg.H18Seg2492
import QrlModel.Proofs.Seg.H18Seg2496
import QrlModel.Proofs.Seg.H18Seg2500
import QrlModel.Proofs.Seg.H18Seg2504
import QrlModel.Proofs.Seg.H18Seg2508
import QrlModel.Proofs.Seg.H18Seg2512
import QrlModel.Proofs.Seg.H18Seg2516
import QrlModel.Proofs.Seg.H18Seg2520
import QrlModel.Proofs.Seg.H18Seg2524
import QrlModel.Proofs.Seg.H18Seg2528
import QrlModel.Proofs.Seg.H18Seg2532
import QrlModel.Proofs.Seg.H18Seg2536
import QrlModel.Proofs.Seg.H18Seg2540
import QrlModel.Proofs.Seg.H18Seg2544
import QrlModel.Proofs.Seg.H18Seg2548
import QrlModel.Proofs.Seg.H18Seg2552
import QrlModel.Proofs.Seg.H18Seg2556
import QrlModel.Proofs.Seg.H18Seg2560
import QrlModel.Proofs.Seg.H18Seg2564
import QrlModel.Proofs.Seg.H18Seg2568
import QrlModel.Proofs.Seg.H18Seg2572
import QrlModel.Proofs.Seg.H18Seg2576
import QrlModel.Proofs.Seg.H18Seg2580
import QrlModel.Proofs.Seg.H18Seg2584
import QrlModel.Proofs.Seg.H18Seg2588
import QrlModel.Proofs.Seg.H18Seg2592
import QrlModel.Proofs.Seg.H18Seg2596
import QrlModel.Proofs.Seg.H18Seg2600
import QrlModel.Proofs.Seg.H18Seg2604
import QrlModel.Proofs.Seg.H18Seg2608
import QrlModel.Proofs.Seg.H18Seg2612
import QrlModel.Proofs.Seg.H18Seg2616
import QrlModel.Proofs.Seg.H18Seg2620
import QrlModel.Proofs.Seg.H18Seg2624
import QrlModel.Proofs.Seg.H18Seg2628
import QrlModel.Proofs.Seg.H18Seg2632
import QrlModel.Proofs.Seg.H18Seg2636
import QrlModel.Proofs.Seg.H18Seg2640
import QrlModel.Proofs.Seg.H18Seg2644
import QrlModel.Proofs.Seg.H18Seg2648
import QrlModel.Proofs.Seg.H18Seg2652
import QrlModel.Proofs.Seg.H18Seg2656
import QrlModel.Proofs.Seg.H18Seg2660
import QrlModel.Proofs.Seg.H18Seg2664
import QrlModel.Proofs.Seg.H18Seg2668
import QrlModel.Proofs.Seg.H18Seg2672
import QrlModel.Proofs.Seg.H18Seg2676
import QrlModel.Proofs.Seg.H18Seg2680
import QrlModel.Proofs.Seg.H18Seg2684
import QrlModel.Proofs.Seg.H18Seg2688
import QrlModel.Proofs.Seg.H18Seg2692
import QrlModel.Proofs.Seg.H18Seg2696
import QrlModel.Proofs.Seg.H18Seg2700
import QrlModel.Proofs.Seg.H18Seg2704
import QrlModel.Proofs.Seg.H18Seg2708
import QrlModel.Proofs.Seg.H18Seg2712
import QrlModel.Proofs.Seg.H18Seg2716
import QrlModel.Proofs.Seg.H18Seg2720
import QrlModel.Proofs.Seg.H18Seg2724
import QrlModel.Proofs.Seg.H18Seg2728
import QrlModel.Proofs.Seg.H18Seg2732
import QrlModel.Proofs.Seg.H18Seg2736
import QrlModel.Proofs.Seg.H18Seg2740
import QrlModel.Proofs.Seg.H18Seg2744
import QrlModel.Proofs.Seg.H18Seg2748
import QrlModel.Proofs.Seg.H18Seg2752
import QrlModel.Proofs.Seg.H18Seg2756
import QrlModel.Proofs.Seg.H18Seg2760
import QrlModel.Proofs.Seg.H18Seg2764
import QrlModel.Proofs.Seg.H18Seg2768
import QrlModel.Proofs.Seg.H18Seg2772
import QrlModel.Proofs.Seg.H18Seg2776
import QrlModel.Proofs.Seg.H18Seg2780
import QrlModel.Proofs.Seg.H18Seg2784
import QrlModel.Proofs.Seg.H18Seg2788
import QrlModel.Proofs.Seg.H18Seg2792
import QrlModel.Proofs.Seg.H18Seg2796
import QrlModel.Proofs.Seg.H18Seg2800
import QrlModel.Proofs.Seg.H18Seg2804
import QrlModel.Proofs.Seg.H18Seg2808
import QrlModel.Proofs.Seg.H18Seg2812
import QrlModel.Proofs.Seg.H18Seg2816
import QrlModel.Proofs.Seg.H18Seg2820
import QrlModel.Proofs.Seg.H18Seg2824
import QrlModel.Proofs.Seg.H18Seg2828
import QrlModel.Proofs.Seg.H18Seg2832
import QrlModel.Proofs.Seg.H18Seg2836
import QrlModel.Proofs.Seg.H18Seg2840
import QrlModel.Proofs.Seg.H18Seg2844
import QrlModel.Proofs.Seg.H18Seg2848
import QrlModel.Proofs.Seg.H18Seg2852
import QrlModel.Proofs.Seg.H18Seg2856
import QrlModel.Proofs.Seg.H18Seg2860
import QrlModel.Proofs.Seg.H18Seg2864
import QrlModel.Proofs.Seg.H18Seg2868
import QrlModel.Proofs.Seg.H18Seg2872
import QrlModel.Proofs.Seg.H18Seg2876
import QrlModel.Proofs.Seg.H18Seg2880
import QrlModel.Proofs.Seg.H18Seg2884
import QrlModel.Proofs.Seg.H18Seg2888
import QrlModel.Proofs.Seg.H18Seg2892
import QrlModel.Proofs.Seg.H18Seg2896
import QrlModel.Proofs.Seg.H18Seg2900
import QrlModel.Proofs.Seg.H18Seg2904
import QrlModel.Proofs.Seg.H18Seg2908
import QrlModel.Proofs.Seg.H18Seg2912
import QrlModel.Proofs.Seg.H18Seg2916
import QrlModel.Proofs.Seg.H18Seg2920
import QrlModel.Proofs.Seg.H18Seg2924
import QrlModel.Proofs.Seg.H18Seg2928
import QrlModel.Proofs.Seg.H18Seg2932
import QrlModel.Proofs.Seg.H18Seg2936
import QrlModel.Proofs.Seg.H18Seg2940
import QrlModel.Proofs.Seg.H18Seg2944
import QrlModel.Proofs.Seg.H18Seg2948
import QrlModel.Proofs.Seg.H18Seg2952
import QrlModel.Proofs.Seg.H18Seg2956
import QrlModel.Proofs.Seg.H18Seg2960
import QrlModel.Proofs.Seg.H18Seg2964
import QrlModel.Proofs.Seg.H18Seg2968
import QrlModel.Proofs.Seg.H18Seg2972
import QrlModel.Proofs.Seg.H18Seg2976
import QrlModel.Proofs.Seg.H18Seg2980
import QrlModel.Proofs.Seg.H18Seg2984
import QrlModel.Proofs.Seg.H18Seg2988
import QrlModel.Proofs.Seg.H18Seg2992
import QrlModel.Proofs.Seg.H18Seg2996
import QrlModel.Proofs.Seg.H18Seg3000
import QrlModel.Proofs.Seg.H18Seg3004
import QrlModel.Proofs.Seg.H18Seg3008
import QrlModel.Proofs.Seg.H18Seg3012
import QrlModel.Proofs.Seg.H18Seg3016
import QrlModel.Proofs.Seg.H18Seg3020
import QrlModel.Proofs.Seg.H18Seg3024
import QrlModel.Proofs.Seg.H18Seg3028
import QrlModel.Proofs.Seg.H18Seg3032
import QrlModel.Proofs.Seg.H18Seg3036
import QrlModel.Proofs.Seg.H18Seg3040
import QrlModel.Proofs.Seg.H18Seg3044
import QrlModel.Proofs.Seg.H18Seg3048
import QrlModel.Proofs.Seg.H18Seg3052
import QrlModel.Proofs.Seg.H18Seg3056
import QrlModel.Proofs.Seg.H18Seg3060
import QrlModel.Proofs.Seg.H18Seg3064
import QrlModel.Proofs.Seg.H18Seg3068
import QrlModel.Proofs.Seg.H18Seg3072
import QrlModel.Proofs.Seg.H18Seg3076
import QrlModel.Proofs.Seg.H18Seg3080
import QrlModel.Proofs.Seg.H18Seg3084
import QrlModel.Proofs.Seg.H18Seg3088
import QrlModel.Proofs.Seg.H18Seg3092
import QrlModel.Proofs.Seg.H18Seg3096
import QrlModel.Proofs.Seg.H18Seg3100
import QrlModel.Proofs.Seg.H18Seg3104
import QrlModel.Proofs.Seg.H18Seg3108
import QrlModel.Proofs.Seg.H18Seg3112
import QrlModel.Proofs.Seg.H18Seg3116
import QrlModel.Proofs.Seg.H18Seg3120
import QrlModel.Proofs.Seg.H18Seg3124
import QrlModel.Proofs.Seg.H18Seg3128
import QrlModel.Proofs.Seg.H18Seg3132
import QrlModel.Proofs.Seg.H18Seg3136
import QrlModel.Proofs.Seg.H18Seg3140
import QrlModel.Proofs.Seg.H18Seg3144
import QrlModel.Proofs.Seg.H18Seg3148
import QrlModel.Proofs.Seg.H18Seg3152
import QrlModel.Proofs.Seg.H18Seg3156
import QrlModel.Proofs.Seg.H18Seg3160
import QrlModel.Proofs.Seg.H18Seg3164
import QrlModel.Proofs.Seg.H18Seg3168
import QrlModel.Proofs.Seg.H18Seg3172
import QrlModel.Proofs.Seg.H18Seg3176
import QrlModel.Proofs.Seg.H18Seg3180
import QrlModel.Proofs.Seg.H18Seg3184
import QrlModel.Proofs.Seg.H18Seg3188
import QrlModel.Proofs.Seg.H18Seg3192
import QrlModel.Proofs.Seg.H18Seg3196
import QrlModel.Proofs.Seg.H18Seg3200
import QrlModel.Proofs.Seg.H18Seg3204
import QrlModel.Proofs.Seg.H18Seg3208
import QrlModel.Proofs.Seg.H18Seg3212
import QrlModel.Proofs.Seg.H18Seg3216
import QrlModel.Proofs.Seg.H18Seg3220
import QrlModel.Proofs.Seg.H18Seg3224
import QrlModel.Proofs.Seg.H18Seg3228
import QrlModel.Proofs.Seg.H18Seg3232
import QrlModel.Proofs.Seg.H18Seg3236
import QrlModel.Proofs.Seg.H18Seg3240
import QrlModel.Proofs.Seg.H18Seg3244
import QrlModel.Proofs.Seg.H18Seg3248
import QrlModel.Proofs.Seg.H18Seg3252
import QrlModel.Proofs.Seg.H18Seg3256
import QrlModel.Proofs.Seg.H18Seg3260
import QrlModel.Proofs.Seg.H18Seg3264
import QrlModel.Proofs.Seg.H18Seg3268
import QrlModel.Proofs.Seg.H18Seg3272
import QrlModel.Proofs.Seg.H18Seg3276
import QrlModel.Proofs.Seg.H18Seg3280
import QrlModel.Proofs.Seg.H18Seg3284
import QrlModel.Proofs.Seg.H18Seg3288
import QrlModel.Proofs.Seg.H18Seg3292
import QrlModel.Proofs.Seg.H18Seg3296
import QrlModel.Proofs.Seg.H18Seg3300
import QrlModel.Proofs.Seg.H18Seg3304
import QrlModel.Proofs.Seg.H18Seg3308
import QrlModel.Proofs.Seg.H18Seg3312
import QrlModel.Proofs.Seg.H18Seg3316
import QrlModel.Proofs.Seg.H18Seg3320
import QrlModel.Proofs.Seg.H18Seg3324
import QrlModel.Proofs.Seg.H18Seg3328
import QrlModel.Proofs.Seg.H18Seg3332
import QrlModel.Proofs.Seg.H18Seg3336
import QrlModel.Proofs.Seg.H18Seg3340
import QrlModel.Proofs.Seg.H18Seg3344
import QrlModel.Proofs.Seg.H18Seg3348
import QrlModel.Proofs.Seg.H18Seg3352
import QrlModel.Proofs.Seg.H18Seg3356
import QrlModel.Proofs.Seg.H18Seg3360
import QrlModel.Proofs.Seg.H18Seg3364
import QrlModel.Proofs.Seg.H18Seg3368
import QrlModel.Proofs.Seg.H18Seg3372
import QrlModel.Proofs.Seg.H18Seg3376
import QrlModel.Proofs.Seg.H18Seg3380
import QrlModel.Proofs.Seg.H18Seg3384
import QrlModel.Proofs.Seg.H18Seg3388
import QrlModel.Proofs.Seg.H18Seg3392
import QrlModel.Proofs.Seg.H18Seg3396
import QrlModel.Proofs.Seg.H18Seg3400
import QrlModel.Proofs.Seg.H18Seg3404
import QrlModel.Proofs.Seg.H18Seg3408
import QrlModel.Proofs.Seg.H18Seg3412
import QrlModel.Proofs.Seg.H18Seg3416
import QrlModel.Proofs.Seg.H18Seg3420
import QrlModel.Proofs.Seg.H18Seg3424
import QrlModel.Proofs.Seg.H18Seg3428
import QrlModel.Proofs.Seg.H18Seg3432
import QrlModel.Proofs.Seg.H18Seg3436
import QrlModel.Proofs.Seg.H18Seg3440
import QrlModel.Proofs.Seg.H18Seg3444
import QrlModel.Proofs.Seg.H18Seg3448
import QrlModel.Proofs.Seg.H18Seg3452
import QrlModel.Proofs.Seg.H18Seg3456
import QrlModel.Proofs.Seg.H18Seg3460
import QrlModel.Proofs.Seg.H18Seg3464
import QrlModel.Proofs.Seg.H18Seg3468
import QrlModel.Proofs.Seg.H18Seg3472
import QrlModel.Proofs.Seg.H18Seg3476
import QrlModel.Proofs.Seg.H18Seg3480
import QrlModel.Proofs.Seg.H18Seg3484
import QrlModel.Proofs.Seg.H18Seg3488
import QrlModel.Proofs.Seg.H18Seg3492
import QrlModel.Proofs.Seg.H18Seg3496
import QrlModel.Proofs.Seg.H18Seg3500
import QrlModel.Proofs.Seg.H18Seg3504
import QrlModel.Proofs.Seg.H18Seg3508
import QrlModel.Proofs.Seg.H18Seg3512
import QrlModel.Proofs.Seg.H18Seg3516
import QrlModel.Proofs.Seg.H18Seg3520
import QrlModel.Proofs.Seg.H18Seg3524
import QrlModel.Proofs.Seg.H18Seg3528
import QrlModel.Proofs.Seg.H18Seg3532
import QrlModel.Proofs.Seg.H18Seg3536
import QrlModel.Proofs.Seg.H18Seg3540
import QrlModel.Proofs.Seg.H18Seg3544
import QrlModel.Proofs.Seg.H18Seg3548
import QrlModel.Proofs.Seg.H18Seg3552
import QrlModel.Proofs.Seg.H18Seg3556
import QrlModel.Proofs.Seg.H18Seg3560
import QrlModel.Proofs.Seg.H18Seg3564
import QrlModel.Proofs.Seg.H18Seg3568
import QrlModel.Proofs.Seg.H18Seg3572
import QrlModel.Proofs.Seg.H18Seg3576
import QrlModel.Proofs.Seg.H18Seg3580
import QrlModel.Proofs.Seg.H18Seg3584
import QrlModel.Proofs.Seg.H18Seg3588
import QrlModel.Proofs.Seg.H18Setup
-- GENERATED by tools/mk_segcert.py 18 73 3591 (committed; every equation below is re-checked by the kernel)
namespace Qrl.BdsLabel.Seg18
open Qrl.Bds
theorem run1 : runSeg 18 73 0 S0 = (S1, true) := seg0
theorem run2 : runSeg 18 146 0 S0 = (S2, true) := runSeg_comp 18 73 73 0 S0 S1 S2 run1 seg1
theorem run3 : runSeg 18 219 0 S0 = (S3, true) := runSeg_comp 18 146 73 0 S0 S2 S3 run2 seg2
theorem run4 : runSeg 18 292 0 S0 = (S4, true) := runSeg_comp 18 219 73 0 S0 S3 S4 run3 seg3
theorem run5 : runSeg 18 365 0 S0 = (S5, true) := runSeg_comp 18 292 73 0 S0 S4 S5 run4 seg4
theorem run6 : runSeg 18 438 0 S0 = (S6, true) := runSeg_comp 18 365 73 0 S0 S5 S6 run5 seg5
theorem run7 : runSeg 18 511 0 S0 = (S7, true) := runSeg_comp 18 438 73 0 S0 S6 S7 run6 seg6
theorem run8 : runSeg 18 584 0 S0 = (S8, true) := runSeg_comp 18 511 73 0 S0 S7 S8 run7 seg7
theorem run9 : runSeg 18 657 0 S0 = (S9, true) := runSeg_comp 18 584 73 0 S0 S8 S9 run8 seg8
theorem run10 : runSeg 18 730 0 S0 = (S10, true) := runSeg_comp 18 657 73 0 S0 S9 S10 run9 seg9
theorem run11 : runSeg 18 803 0 S0 = (S11, true) := runSeg_comp 18 730 73 0 S0 S10 S11 run10 seg10
theorem run12 : runSeg 18 876 0 S0 = (S12, true) := runSeg_comp 18 803 73 0 S0 S11 S12 run11 seg11
theorem run13 : runSeg 18 949 0 S0 = (S13, true) := runSeg_comp 18 876 73 0 S0 S12 S13 run12 seg12
theorem run14 : runSeg 18 1022 0 S0 = (S14, true) := runSeg_comp 18 949 73 0 S0 S13 S14 run13 seg13
theorem run15 : runSeg 18 1095 0 S0 = (S15, true) := runSeg_comp 18 1022 73 0 S0 S14 S15 run14 seg14
theorem run16 : runSeg 18 1168 0 S0 = (S16, true) := runSeg_comp 18 1095 73 0 S0 S15 S16 run15 seg15
theorem run17 : runSeg 18 1241 0 S0 = (S17, true) := runSeg_comp 18 1168 73 0 S0 S16 S17 run16 seg16
theorem run18 : runSeg 18 1314 0 S0 = (S18, true) := runSeg_comp 18 1241 73 0 S0 S17 S18 run17 seg17
theorem run19 : runSeg 18 1387 0 S0 = (S19, true) := runSeg_comp 18 1314 73 0 S0 S18 S19 run18 seg18
theorem run20 : runSeg 18 1460 0 S0 = (S20, true) := runSeg_comp 18 1387 73 0 S0 S19 S20 run19 seg19
theorem run21 : runSeg 18 1533 0 S0 = (S21, true) := runSeg_comp 18 1460 73 0 S0 S20 S21 run20 seg20
theorem run22 : runSeg 18 1606 0 S0 = (S22, true) := runSeg_comp 18 1533 73 0 S0 S21 S22 run21 seg21
theorem run23 : runSeg 18 1679 0 S0 = (S23, true) := runSeg_comp 18 1606 73 0 S0 S22 S23 run22 seg22
theorem run24 : runSeg 18 1752 0 S0 = (S24, true) := runSeg_comp 18 1679 73 0 S0 S23 S24 run23 seg23
theorem run25 : runSeg 18 1825 0 S0 = (S25, true) := runSeg_comp 18 1752 73 0 S0 S24 S25 run24 seg24
theorem run26 : runSeg 18 1898 0 S0 = (S26, true) := runSeg_comp 18 1825 73 0 S0 S25 S26 run25 seg25
theorem run27 : runSeg 18 1971 0 S0 = (S27, true) := runSeg_comp 18 1898 73 0 S0 S26 S27 run26 seg26
theorem run28 : runSeg 18 2044 0 S0 = (S28, true) := runSeg_comp 18 1971 73 0 S0 S27 S28 run27 seg27
theorem run29 : runSeg 18 2117 0 S0 = (S29, true) := runSeg_comp 18 2044 73 0 S0 S28 S29 run28 seg28
theorem run30 : runSeg 18 2190 0 S0 = (S30, true) := runSeg_comp 18 2117 73 0 S0 S29 S30 run29 seg29
theorem run31 : runSeg 18 2263 0 S0 = (S31, true) := runSeg_comp 18 2190 73 0 S0 S30 S31 run30 seg30
theorem run32 : runSeg 18 2336 0 S0 = (S32, true) := runSeg_comp 18 2263 73 0 S0 S31 S32 run31 seg31
theorem run33 : runSeg 18 2409 0 S0 = (S33, true) := runSeg_comp 18 2336 73 0 S0 S32 S33 run32 seg32
theorem run34 : runSeg 18 2482 0 S0 = (S34, true) := runSeg_comp 18 2409 73 0 S0 S33 S34 run33 seg33
theorem run35 : runSeg 18 2555 0 S0 = (S35, true) := runSeg_comp 18 2482 73 0 S0 S34 S35 run34 seg34
theorem run36 : runSeg 18 2628 0 S0 = (S36, true) := runSeg_comp 18 2555 73 0 S0 S35 S36 run35 seg35
theorem run37 : runSeg 18 2701 0 S0 = (S37, true) := runSeg_comp 18 2628 73 0 S0 S36 S37 run36 seg36
theorem run38 : runSeg 18 2774 0 S0 = (S38, true) := runSeg_comp 18 2701 73 0 S0 S37 S38 run37 seg37
theorem run39 : runSeg 18 2847 0 S0 = (S39, true) := runSeg_comp 18 2774 73 0 S0 S38 S39 run38 seg38
theorem run40 : runSeg 18 2920 0 S0 = (S40, true) := runSeg_comp 18 2847 73 0 S0 S39 S40 run39 seg39
theorem run41 : runSeg 18 2993 0 S0 = (S41, true) := runSeg_comp 18 2920 73 0 S0 S40 S41 run40 seg40
theorem run42 : runSeg 18 3066 0 S0 = (S42, true) := runSeg_comp 18 2993 73 0 S0 S41 S42 run41 seg41
theorem run43 : runSeg 18 3139 0 S0 = (S43, true) := runSeg_comp 18 3066 73 0 S0 S42 S43 run42 seg42
theorem run44 : runSeg 18 3212 0 S0 = (S44, true) := runSeg_comp 18 3139 73 0 S0 S43 S44 run43 seg43
theorem run45 : runSeg 18 3285 0 S0 = (S45, true) := runSeg_comp 18 3212 73 0 S0 S44 S45 run44 seg44
theorem run46 : runSeg 18 3358 0 S0 = (S46, true) := runSeg_comp 18 3285 73 0 S0 S45 S46 run45 seg45
theorem run47 : runSeg 18 3431 0 S0 = (S47, true) := runSeg_comp 18 3358 73 0 S0 S46 S47 run46 seg46
theorem run48 : runSeg 18 3504 0 S0 = (S48, true) := runSeg_comp 18 3431 73 0 S0 S47 S48 run47 seg47
theorem run49 : runSeg 18 3577 0 S0 = (S49, true) := runSeg_comp 18 3504 73 0 S0 S48 S49 run48 seg48
theorem run50 : runSeg 18 3650 0 S0 = (S50, true) := runSeg_comp 18 3577 73 0 S0 S49 S50 run49 seg49
theorem run51 : runSeg 18 3723 0 S0 = (S51, true) := runSeg_comp 18 3650 73 0 S0 S50 S51 run50 seg50
theorem run52 : runSeg 18 3796 0 S0 = (S52, true) := runSeg_comp 18 3723 73 0 S0 S51 S52 run51 seg51
theorem run53 : runSeg 18 3869 0 S0 = (S53, true) := runSeg_comp 18 3796 73 0 S0 S52 S53 run52 seg52
theorem run54 : runSeg 18 3942 0 S0 = (S54, true) := runSeg_comp 18 3869 73 0 S0 S53 S54 run53 seg53
theorem run55 : runSeg 18 4015 0 S0 = (S55, true) := runSeg_comp 18 3942 73 0 S0 S54 S55 run54 seg54
theorem run56 : runSeg 18 4088 0 S0 = (S56, true) := runSeg_comp 18 4015 73 0 S0 S55 S56 run55 seg55
theorem run57 : runSeg 18 4161 0 S0 = (S57, true) := runSeg_comp 18 4088 73 0 S0 S56 S57 run56 seg56
theorem run58 : runSeg 18 4234 0 S0 = (S58, true) := runSeg_comp 18 4161 73 0 S0 S57 S58 run57 seg57
theorem run59 : runSeg 18 4307 0 S0 = (S59, true) := runSeg_comp 18 4234 73 0 S0 S58 S59 run58 seg58
theorem run60 : runSeg 18 4380 0 S0 = (S60, true) := runSeg_comp 18 4307 73 0 S0 S59 S60 run59 seg59
theorem run61 : runSeg 18 4453 0 S0 = (S61, true) := runSeg_comp 18 4380 73 0 S0 S60 S61 run60 seg60
theorem run62 : runSeg 18 4526 0 S0 = (S62, true) := runSeg_comp 18 4453 73 0 S0 S61 S62 run61 seg61
theorem run63 : runSeg 18 4599 0 S0 = (S63, true) := runSeg_comp 18 4526 73 0 S0 S62 S63 run62 seg62
theorem run64 : runSeg 18 4672 0 S0 = (S64, true) := runSeg_comp 18 4599 73 0 S0 S63 S64 run63 seg63
theorem run65 : runSeg 18 4745 0 S0 = (S65, true) := runSeg_comp 18 4672 73 0 S0 S64 S65 run64 seg64
theorem run66 : runSeg 18 4818 0 S0 = (S66, true) := runSeg_comp 18 4745 73 0 S0 S65 S66 run65 seg65
theorem run67 : runSeg 18 4891 0 S0 = (S67, true) := runSeg_comp 18 4818 73 0 S0 S66 S67 run66 seg66
theorem run68 : runSeg 18 4964 0 S0 = (S68, true) := runSeg_comp 18 4891 73 0 S0 S67 S68 run67 seg67
theorem run69 : runSeg 18 5037 0 S0 = (S69, true) := runSeg_comp 18 4964 73 0 S0 S68 S69 run68 seg68
theorem run70 : runSeg 18 5110 0 S0 = (S70, true) := runSeg_comp 18 5037 73 0 S0 S69 S70 run69 seg69
theorem run71 : runSeg 18 5183 0 S0 = (S71, true) := runSeg_comp 18 5110 73 0 S0 S70 S71 run70 seg70
theorem run72 : runSeg 18 5256 0 S0 = (S72, true) := runSeg_comp 18 5183 73 0 S0 S71 S72 run71 seg71
theorem run73 : runSeg 18 5329 0 S0 = (S73, true) := runSeg_comp 18 5256 73 0 S0 S72 S73 run72 seg72
theorem run74 : runSeg 18 5402 0 S0 = (S74, true) := runSeg_comp 18 5329 73 0 S0 S73 S74 run73 seg73
theorem run75 : runSeg 18 5475 0 S0 = (S75, true) := runSeg_comp 18 5402 73 0 S0 S74 S75 run74 seg74
theorem run76 : runSeg 18 5548 0 S0 = (S76, true) := runSeg_comp 18 5475 73 0 S0 S75 S76 run75 seg75
theorem run77 : runSeg 18 5621 0 S0 = (S77, true) := runSeg_comp 18 5548 73 0 S0 S76 S77 run76 seg76
theorem run78 : runSeg 18 5694 0 S0 = (S78, true) := runSeg_comp 18 5621 73 0 S0 S77 S78 run77 seg77
theorem run79 : runSeg 18 5767 0 S0 = (S79, true) := runSeg_comp 18 5694 73 0 S0 S78 S79 run78 seg78
theorem run80 : runSeg 18 5840 0 S0 = (S80, true) := runSeg_comp 18 5767 73 0 S0 S79 S80 run79 seg79
theorem run81 : runSeg 18 5913 0 S0 = (S81, true) := runSeg_comp 18 5840 73 0 S0 S80 S81 run80 seg80
theorem run82 : runSeg 18 5986 0 S0 = (S82, true) := runSeg_comp 18 5913 73 0 S0 S81 S82 run81 seg81
theorem run83 : runSeg 18 6059 0 S0 = (S83, true) := runSeg_comp 18 5986 73 0 S0 S82 S83 run82 seg82
theorem run84 : runSeg 18 6132 0 S0 = (S84, true) := runSeg_comp 18 6059 73 0 S0 S83 S84 run83 seg83
theorem run85 : runSeg 18 6205 0 S0 = (S85, true) := runSeg_comp 18 6132 73 0 S0 S84 S85 run84 seg84
theorem run86 : runSeg 18 6278 0 S0 = (S86, true) := runSeg_comp 18 6205 73 0 S0 S85 S86 run85 seg85
theorem run87 : runSeg 18 6351 0 S0 = (S87, true) := runSeg_comp 18 6278 73 0 S0 S86 S87 run86 seg86
theorem run88 : runSeg 18 6424 0 S0 = (S88, true) := runSeg_comp 18 6351 73 0 S0 S87 S88 run87 seg87
theorem run89 : runSeg 18 6497 0 S0 = (S89, true) := runSeg_comp 18 6424 73 0 S0 S88 S89 run88 seg88
theorem run90 : runSeg 18 6570 0 S0 = (S90, true) := runSeg_comp 18 6497 73 0 S0 S89 S90 run89 seg89
theorem run91 : runSeg 18 6643 0 S0 = (S91, true) := runSeg_comp 18 6570 73 0 S0 S90 S91 run90 seg90
theorem run92 : runSeg 18 6716 0 S0 = (S92, true) := runSeg_comp 18 6643 73 0 S0 S91 S92 run91 seg91
theorem run93 : runSeg 18 6789 0 S0 = (S93, true) := runSeg_comp 18 6716 73 0 S0 S92 S93 run92 seg92
theorem run94 : runSeg 18 6862 0 S0 = (S94, true) := runSeg_comp 18 6789 73 0 S0 S93 S94 run93 seg93
theorem run95 : runSeg 18 6935 0 S0 = (S95, true) := runSeg_comp 18 6862 73 0 S0 S94 S95 run94 seg94
theorem run96 : runSeg 18 7008 0 S0 = (S96, true) := runSeg_comp 18 6935 73 0 S0 S95 S96 run95 seg95
theorem run97 : runSeg 18 7081 0 S0 = (S97, true) := runSeg_comp 18 7008 73 0 S0 S96 S97 run96 seg96
theorem run98 : runSeg 18 7154 0 S0 = (S98, true) := runSeg_comp 18 7081 73 0 S0 S97 S98 run97 seg97
theorem run99 : runSeg 18 7227 0 S0 = (S99, true) := runSeg_comp 18 7154 73 0 S0 S98 S99 run98 seg98
theorem run100 : runSeg 18 7300 0 S0 = (S100, true) := runSeg_comp 18 7227 73 0 S0 S99 S100 run99 seg99
theorem run101 : runSeg 18 7373 0 S0 = (S101, true) := runSeg_comp 18 7300 73 0 S0 S100 S101 run100 seg100
theorem run102 : runSeg 18 7446 0 S0 = (S102, true) := runSeg_comp 18 7373 73 0 S0 S101 S102 run101 seg101
theorem run103 : runSeg 18 7519 0 S0 = (S103, true) := runSeg_comp 18 7446 73 0 S0 S102 S103 run102 seg102
theorem run104 : runSeg 18 7592 0 S0 = (S104, true) := runSeg_comp 18 7519 73 0 S0 S103 S104 run103 seg103
theorem run105 : runSeg 18 7665 0 S0 = (S105, true) := runSeg_comp 18 7592 73 0 S0 S104 S105 run104 seg104
theorem run106 : runSeg 18 7738 0 S0 = (S106, true) := runSeg_comp 18 7665 73 0 S0 S105 S106 run105 seg105
theorem run107 : runSeg 18 7811 0 S0 = (S107, true) := runSeg_comp 18 7738 73 0 S0 S106 S107 run106 seg106
theorem run108 : runSeg 18 7884 0 S0 = (S108, true) := runSeg_comp 18 7811 73 0 S0 S107 S108 run107 seg107
theorem run109 : runSeg 18 7957 0 S0 = (S109, true) := runSeg_comp 18 7884 73 0 S0 S108 S109 run108 seg108
theorem run110 : runSeg 18 8030 0 S0 = (S110, true) := runSeg_comp 18 7957 73 0 S0 S109 S110 run109 seg109
theorem run111 : runSeg 18 8103 0 S0 = (S111, true) := runSeg_comp 18 8030 73 0 S0 S110 S111 run110 seg110
theorem run112 : runSeg 18 8176 0 S0 = (S112, true) := runSeg_comp 18 8103 73 0 S0 S111 S112 run111 seg111
theorem run113 : runSeg 18 8249 0 S0 = (S113, true) := runSeg_comp 18 8176 73 0 S0 S112 S113 run112 seg112
theorem run114 : runSeg 18 8322 0 S0 = (S114, true) := runSeg_comp 18 8249 73 0 S0 S113 S114 run113 seg113
theorem run115 : runSeg 18 8395 0 S0 = (S115, true) := runSeg_comp 18 8322 73 0 S0 S114 S115 run114 seg114
theorem run116 : runSeg 18 8468 0 S0 = (S116, true) := runSeg_comp 18 8395 73 0 S0 S115 S116 run115 seg115
theorem run117 : runSeg 18 8541 0 S0 = (S117, true) := runSeg_comp 18 8468 73 0 S0 S116 S117 run116 seg116
theorem run118 : runSeg 18 8614 0 S0 = (S118, true) := runSeg_comp 18 8541 73 0 S0 S117 S118 run117 seg117
theorem run119 : runSeg 18 8687 0 S0 = (S119, true) := runSeg_comp 18 8614 73 0 S0 S118 S119 run118 seg118
theorem run120 : runSeg 18 8760 0 S0 = (S120, true) := runSeg_comp 18 8687 73 0 S0 S119 S120 run119 seg119
theorem run121 : runSeg 18 8833 0 S0 = (S121, true) := runSeg_comp 18 8760 73 0 S0 S120 S121 run120 seg120
theorem run122 : runSeg 18 8906 0 S0 = (S122, true) := runSeg_comp 18 8833 73 0 S0 S121 S122 run121 seg121
theorem run123 : runSeg 18 8979 0 S0 = (S123, true) := runSeg_comp 18 8906 73 0 S0 S122 S123 run122 seg122
theorem run124 : runSeg 18 9052 0 S0 = (S124, true) := runSeg_comp 18 8979 73 0 S0 S123 S124 run123 seg123
theorem run125 : runSeg 18 9125 0 S0 = (S125, true) := runSeg_comp 18 9052 73 0 S0 S124 S125 run124 seg124
theorem run126 : runSeg 18 9198 0 S0 = (S126, true) := runSeg_comp 18 9125 73 0 S0 S125 S126 run125 seg125
theorem run127 : runSeg 18 9271 0 S0 = (S127, true) := runSeg_comp 18 9198 73 0 S0 S126 S127 run126 seg126
theorem run128 : runSeg 18 9344 0 S0 = (S128, true) := runSeg_comp 18 9271 73 0 S0 S127 S128 run127 seg127
theorem run129 : runSeg 18 9417 0 S0 = (S129, true) := runSeg_comp 18 9344 73 0 S0 S128 S129 run128 seg128
theorem run130 : runSeg 18 9490 0 S0 = (S130, true) := runSeg_comp 18 9417 73 0 S0 S129 S130 run129 seg129
theorem run131 : runSeg 18 9563 0 S0 = (S131, true) := runSeg_comp 18 9490 73 0 S0 S130 S131 run130 seg130
theorem run132 : runSeg 18 9636 0 S0 = (S132, true) := runSeg_comp 18 9563 73 0 S0 S131 S132 run131 seg131
theorem run133 : runSeg 18 9709 0 S0 = (S133, true) := runSeg_comp 18 9636 73 0 S0 S132 S133 run132 seg132
theorem run134 : runSeg 18 9782 0 S0 = (S134, true) := runSeg_comp 18 9709 73 0 S0 S133 S134 run133 seg133
theorem run135 : runSeg 18 9855 0 S0 = (S135, true) := runSeg_comp 18 9782 73 0 S0 S134 S135 run134 seg134
theorem run136 : runSeg 18 9928 0 S0 = (S136, true) := runSeg_comp 18 9855 73 0 S0 S135 S136 run135 seg135
theorem run137 : runSeg 18 10001 0 S0 = (S137, true) := runSeg_comp 18 9928 73 0 S0 S136 S137 run136 seg136
theorem run138 : runSeg 18 10074 0 S0 = (S138, true) := runSeg_comp 18 10001 73 0 S0 S137 S138 run137 seg137
theorem run139 : runSeg 18 10147 0 S0 = (S139, true) := runSeg_comp 18 10074 73 0 S0 S138 S139 run138 seg138
theorem run140 : runSeg 18 10220 0 S0 = (S140, true) := runSeg_comp 18 10147 73 0 S0 S139 S140 run139 seg139
theorem run141 : runSeg 18 10293 0 S0 = (S141, true) := runSeg_comp 18 10220 73 0 S0 S140 S141 run140 seg140
theorem run142 : runSeg 18 10366 0 S0 = (S142, true) := runSeg_comp 18 10293 73 0 S0 S141 S142 run141 seg141
theorem run143 : runSeg 18 10439 0 S0 = (S143, true) := runSeg_comp 18 10366 73 0 S0 S142 S143 run142 seg142
theorem run144 : runSeg 18 10512 0 S0 = (S144, true) := runSeg_comp 18 10439 73 0 S0 S143 S144 run143 seg143
theorem run145 : runSeg 18 10585 0 S0 = (S145, true) := runSeg_comp 18 10512 73 0 S0 S144 S145 run144 seg144
theorem run146 : runSeg 18 10658 0 S0 = (S146, true) := runSeg_comp 18 10585 73 0 S0 S145 S146 run145 seg145
theorem run147 : runSeg 18 10731 0 S0 = (S147, true) := runSeg_comp 18 10658 73 0 S0 S146 S147 run146 seg146
theorem run148 : runSeg 18 10804 0 S0 = (S148, true) := runSeg_comp 18 10731 73 0 S0 S147 S148 run147 seg147
theorem run149 : runSeg 18 10877 0 S0 = (S149, true) := runSeg_comp 18 10804 73 0 S0 S148 S149 run148 seg148
theorem run150 : runSeg 18 10950 0 S0 = (S150, true) := runSeg_comp 18 10877 73 0 S0 S149 S150 run149 seg149
theorem run151 : runSeg 18 11023 0 S0 = (S151, true) := runSeg_comp 18 10950 73 0 S0 S150 S151 run150 seg150
theorem run152 : runSeg 18 11096 0 S0 = (S152, true) := runSeg_comp 18 11023 73 0 S0 S151 S152 run151 seg151
theorem run153 : runSeg 18 11169 0 S0 = (S153, true) := runSeg_comp 18 11096 73 0 S0 S152 S153 run152 seg152
theorem run154 : runSeg 18 11242 0 S0 = (S154, true) := runSeg_comp 18 11169 73 0 S0 S153 S154 run153 seg153
theorem run155 : runSeg 18 11315 0 S0 = (S155, true) := runSeg_comp 18 11242 73 0 S0 S154 S155 run154 seg154
theorem run156 : runSeg 18 11388 0 S0 = (S156, true) := runSeg_comp 18 11315 73 0 S0 S155 S156 run155 seg155
theorem run157 : runSeg 18 11461 0 S0 = (S157, true) := runSeg_comp 18 11388 73 0 S0 S156 S157 run156 seg156
theorem run158 : runSeg 18 11534 0 S0 = (S158, true) := runSeg_comp 18 11461 73 0 S0 S157 S158 run157 seg157
theorem run159 : runSeg 18 11607 0 S0 = (S159, true) := runSeg_comp 18 11534 73 0 S0 S158 S159 run158 seg158
theorem run160 : runSeg 18 11680 0 S0 = (S160, true) := runSeg_comp 18 11607 73 0 S0 S159 S160 run159 seg159
theorem run161 : runSeg 18 11753 0 S0 = (S161, true) := runSeg_comp 18 11680 73 0 S0 S160 S161 run160 seg160
theorem run162 : runSeg 18 11826 0 S0 = (S162, true) := runSeg_comp 18 11753 73 0 S0 S161 S162 run161 seg161
theorem run163 : runSeg 18 11899 0 S0 = (S163, true) := runSeg_comp 18 11826 73 0 S0 S162 S163 run162 seg162
theorem run164 : runSeg 18 11972 0 S0 = (S164, true) := runSeg_comp 18 11899 73 0 S0 S163 S164 run163 seg163
theorem run165 : runSeg 18 12045 0 S0 = (S165, true) := runSeg_comp 18 11972 73 0 S0 S164 S165 run164 seg164
theorem run166 : runSeg 18 12118 0 S0 = (S166, true) := runSeg_comp 18 12045 73 0 S0 S165 S166 run165 seg165
theorem run167 : runSeg 18 12191 0 S0 = (S167, true) := runSeg_comp 18 12118 73 0 S0 S166 S167 run166 seg166
theorem run168 : runSeg 18 12264 0 S0 = (S168, true) := runSeg_comp 18 12191 73 0 S0 S167 S168 run167 seg167
theorem run169 : runSeg 18 12337 0 S0 = (S169, true) := runSeg_comp 18 12264 73 0 S0 S168 S169 run168 seg168
theorem run170 : runSeg 18 12410 0 S0 = (S170, true) := runSeg_comp 18 12337 73 0 S0 S169 S170 run169 seg169
theorem run171 : runSeg 18 12483 0 S0 = (S171, true) := runSeg_comp 18 12410 73 0 S0 S170 S171 run170 seg170
theorem run172 : runSeg 18 12556 0 S0 = (S172, true) := runSeg_comp 18 12483 73 0 S0 S171 S172 run171 seg171
theorem run173 : runSeg 18 12629 0 S0 = (S173, true) := runSeg_comp 18 12556 73 0 S0 S172 S173 run172 seg172
theorem run174 : runSeg 18 12702 0 S0 = (S174, true) := runSeg_comp 18 12629 73 0 S0 S173 S174 run173 seg173
theorem run175 : runSeg 18 12775 0 S0 = (S175, true) := runSeg_comp 18 12702 73 0 S0 S174 S175 run174 seg174
theorem run176 : runSeg 18 12848 0 S0 = (S176, true) := runSeg_comp 18 12775 73 0 S0 S175 S176 run175 seg175
theorem run177 : runSeg 18 12921 0 S0 = (S177, true) := runSeg_comp 18 12848 73 0 S0 S176 S177 run176 seg176
theorem run178 : runSeg 18 12994 0 S0 = (S178, true) := runSeg_comp 18 12921 73 0 S0 S177 S178 run177 seg177
theorem run179 : runSeg 18 13067 0 S0 = (S179, true) := runSeg_comp 18 12994 73 0 S0 S178 S179 run178 seg178
theorem run180 : runSeg 18 13140 0 S0 = (S180, true) := runSeg_comp 18 13067 73 0 S0 S179 S180 run179 seg179
theorem run181 : runSeg 18 13213 0 S0 = (S181, true) := runSeg_comp 18 13140 73 0 S0 S180 S181 run180 seg180
theorem run182 : runSeg 18 13286 0 S0 = (S182, true) := runSeg_comp 18 13213 73 0 S0 S181 S182 run181 seg181
theorem run183 : runSeg 18 13359 0 S0 = (S183, true) := runSeg_comp 18 13286 73 0 S0 S182 S183 run182 seg182
theorem run184 : runSeg 18 13432 0 S0 = (S184, true) := runSeg_comp 18 13359 73 0 S0 S183 S184 run183 seg183
theorem run185 : runSeg 18 13505 0 S0 = (S185, true) := runSeg_comp 18 13432 73 0 S0 S184 S185 run184 seg184
theorem run186 : runSeg 18 13578 0 S0 = (S186, true) := runSeg_comp 18 13505 73 0 S0 S185 S186 run185 seg185
theorem run187 : runSeg 18 13651 0 S0 = (S187, true) := runSeg_comp 18 13578 73 0 S0 S186 S187 run186 seg186
theorem run188 : runSeg 18 13724 0 S0 = (S188, true) := runSeg_comp 18 13651 73 0 S0 S187 S188 run187 seg187
theorem run189 : runSeg 18 13797 0 S0 = (S189, true) := runSeg_comp 18 13724 73 0 S0 S188 S189 run188 seg188
theorem run190 : runSeg 18 13870 0 S0 = (S190, true) := runSeg_comp 18 13797 73 0 S0 S189 S190 run189 seg189
theorem run191 : runSeg 18 13943 0 S0 = (S191, true) := runSeg_comp 18 13870 73 0 S0 S190 S191 run190 seg190
theorem run192 : runSeg 18 14016 0 S0 = (S192, true) := runSeg_comp 18 13943 73 0 S0 S191 S192 run191 seg191
theorem run193 : runSeg 18 14089 0 S0 = (S193, true) := runSeg_comp 18 14016 73 0 S0 S192 S193 run192 seg192
theorem run194 : runSeg 18 14162 0 S0 = (S194, true) := runSeg_comp 18 14089 73 0 S0 S193 S194 run193 seg193
theorem run195 : runSeg 18 14235 0 S0 = (S195, true) := runSeg_comp 18 14162 73 0 S0 S194 S195 run194 seg194
theorem run196 : runSeg 18 14308 0 S0 = (S196, true) := runSeg_comp 18 14235 73 0 S0 S195 S196 run195 seg195
theorem run197 : runSeg 18 14381 0 S0 = (S197, true) := runSeg_comp 18 14308 73 0 S0 S196 S197 run196 seg196
theorem run198 : runSeg 18 14454 0 S0 = (S198, true) := runSeg_comp 18 14381 73 0 S0 S197 S198 run197 seg197
theorem run199 : runSeg 18 14527 0 S0 = (S199, true) := runSeg_comp 18 14454 73 0 S0 S198 S199 run198 seg198
theorem run200 : runSeg 18 14600 0 S0 = (S200, true) := runSeg_comp 18 14527 73 0 S0 S199 S200 run199 seg199
theorem run201 : runSeg 18 14673 0 S0 = (S201, true) := runSeg_comp 18 14600 73 0 S0 S200 S201 run200 seg200
theorem run202 : runSeg 18 14746 0 S0 = (S202, true) := runSeg_comp 18 14673 73 0 S0 S201 S202 run201 seg201
theorem run203 : runSeg 18 14819 0 S0 = (S203, true) := runSeg_comp 18 14746 73 0 S0 S202 S203 run202 seg202
theorem run204 : runSeg 18 14892 0 S0 = (S204, true) := runSeg_comp 18 14819 73 0 S0 S203 S204 run203 seg203
theorem run205 : runSeg 18 14965 0 S0 = (S205, true) := runSeg_comp 18 14892 73 0 S0 S204 S205 run204 seg204
theorem run206 : runSeg 18 15038 0 S0 = (S206, true) := runSeg_comp 18 14965 73 0 S0 S205 S206 run205 seg205
theorem run207 : runSeg 18 15111 0 S0 = (S207, true) := runSeg_comp 18 15038 73 0 S0 S206 S207 run206 seg206
theorem run208 : runSeg 18 15184 0 S0 = (S208, true) := runSeg_comp 18 15111 73 0 S0 S207 S208 run207 seg207
theorem run209 : runSeg 18 15257 0 S0 = (S209, true) := runSeg_comp 18 15184 73 0 S0 S208 S209 run208 seg208
theorem run210 : runSeg 18 15330 0 S0 = (S210, true) := runSeg_comp 18 15257 73 0 S0 S209 S210 run209 seg209
theorem run211 : runSeg 18 15403 0 S0 = (S211, true) := runSeg_comp 18 15330 73 0 S0 S210 S211 run210 seg210
theorem run212 : runSeg 18 15476 0 S0 = (S212, true) := runSeg_comp 18 15403 73 0 S0 S211 S212 run211 seg211
theorem run213 : runSeg 18 15549 0 S0 = (S213, true) := runSeg_comp 18 15476 73 0 S0 S212 S213 run212 seg212
theorem run214 : runSeg 18 15622 0 S0 = (S214, true) := runSeg_comp 18 15549 73 0 S0 S213 S214 run213 seg213
theorem run215 : runSeg 18 15695 0 S0 = (S215, true) := runSeg_comp 18 15622 73 0 S0 S214 S215 run214 seg214
theorem run216 : runSeg 18 15768 0 S0 = (S216, true) := runSeg_comp 18 15695 73 0 S0 S215 S216 run215 seg215
theorem run217 : runSeg 18 15841 0 S0 = (S217, true) := runSeg_comp 18 15768 73 0 S0 S216 S217 run216 seg216
theorem run218 : runSeg 18 15914 0 S0 = (S218, true) := runSeg_comp 18 15841 73 0 S0 S217 S218 run217 seg217
theorem run219 : runSeg 18 15987 0 S0 = (S219, true) := runSeg_comp 18 15914 73 0 S0 S218 S219 run218 seg218
theorem run220 : runSeg 18 16060 0 S0 = (S220, true) := runSeg_comp 18 15987 73 0 S0 S219 S220 run219 seg219
theorem run221 : runSeg 18 16133 0 S0 = (S221, true) := runSeg_comp 18 16060 73 0 S0 S220 S221 run220 seg220
theorem run222 : runSeg 18 16206 0 S0 = (S222, true) := runSeg_comp 18 16133 73 0 S0 S221 S222 run221 seg221
theorem run223 : runSeg 18 16279 0 S0 = (S223, true) := runSeg_comp 18 16206 73 0 S0 S222 S223 run222 seg222
theorem run224 : runSeg 18 16352 0 S0 = (S224, true) := runSeg_comp 18 16279 73 0 S0 S223 S224 run223 seg223
theorem run225 : runSeg 18 16425 0 S0 = (S225, true) := runSeg_comp 18 16352 73 0 S0 S224 S225 run224 seg224
theorem run226 : runSeg 18 16498 0 S0 = (S226, true) := runSeg_comp 18 16425 73 0 S0 S225 S226 run225 seg225
theorem run227 : runSeg 18 16571 0 S0 = (S227, true) := runSeg_comp 18 16498 73 0 S0 S226 S227 run226 seg226
theorem run228 : runSeg 18 16644 0 S0 = (S228, true) := runSeg_comp 18 16571 73 0 S0 S227 S228 run227 seg227
theorem run229 : runSeg 18 16717 0 S0 = (S229, true) := runSeg_comp 18 16644 73 0 S0 S228 S229 run228 seg228
theorem run230 : runSeg 18 16790 0 S0 = (S230, true) := runSeg_comp 18 16717 73 0 S0 S229 S230 run229 seg229
theorem run231 : runSeg 18 16863 0 S0 = (S231, true) := runSeg_comp 18 16790 73 0 S0 S230 S231 run230 seg230
theorem run232 : runSeg 18 16936 0 S0 = (S232, true) := runSeg_comp 18 16863 73 0 S0 S231 S232 run231 seg231
theorem run233 : runSeg 18 17009 0 S0 = (S233, true) := runSeg_comp 18 16936 73 0 S0 S232 S233 run232 seg232
theorem run234 : runSeg 18 17082 0 S0 = (S234, true) := runSeg_comp 18 17009 73 0 S0 S233 S234 run233 seg233
theorem run235 : runSeg 18 17155 0 S0 = (S235, true) := runSeg_comp 18 17082 73 0 S0 S234 S235 run234 seg234
theorem run236 : runSeg 18 17228 0 S0 = (S236, true) := runSeg_comp 18 17155 73 0 S0 S235 S236 run235 seg235
theorem run237 : runSeg 18 17301 0 S0 = (S237, true) := runSeg_comp 18 17228 73 0 S0 S236 S237 run236 seg236
theorem run238 : runSeg 18 17374 0 S0 = (S238, true) := runSeg_comp 18 17301 73 0 S0 S237 S238 run237 seg237
theorem run239 : runSeg 18 17447 0 S0 = (S239, true) := runSeg_comp 18 17374 73 0 S0 S238 S239 run238 seg238
theorem run240 : runSeg 18 17520 0 S0 = (S240, true) := runSeg_comp 18 17447 73 0 S0 S239 S240 run239 seg239
theorem run241 : runSeg 18 17593 0 S0 = (S241, true) := runSeg_comp 18 17520 73 0 S0 S240 S241 run240 seg240
theorem run242 : runSeg 18 17666 0 S0 = (S242, true) := runSeg_comp 18 17593 73 0 S0 S241 S242 run241 seg241
theorem run243 : runSeg 18 17739 0 S0 = (S243, true) := runSeg_comp 18 17666 73 0 S0 S242 S243 run242 seg242
theorem run244 : runSeg 18 17812 0 S0 = (S244, true) := runSeg_comp 18 17739 73 0 S0 S243 S244 run243 seg243
theorem run245 : runSeg 18 17885 0 S0 = (S245, true) := runSeg_comp 18 17812 73 0 S0 S244 S245 run244 seg244
theorem run246 : runSeg 18 17958 0 S0 = (S246, true) := runSeg_comp 18 17885 73 0 S0 S245 S246 run245 seg245
theorem run247 : runSeg 18 18031 0 S0 = (S247, true) := runSeg_comp 18 17958 73 0 S0 S246 S247 run246 seg246
theorem run248 : runSeg 18 18104 0 S0 = (S248, true) := runSeg_comp 18 18031 73 0 S0 S247 S248 run247 seg247
theorem run249 : runSeg 18 18177 0 S0 = (S249, true) := runSeg_comp 18 18104 73 0 S0 S248 S249 run248 seg248
theorem run250 : runSeg 18 18250 0 S0 = (S250, true) := runSeg_comp 18 18177 73 0 S0 S249 S250 run249 seg249
theorem run251 : runSeg 18 18323 0 S0 = (S251, true) := runSeg_comp 18 18250 73 0 S0 S250 S251 run250 seg250
theorem run252 : runSeg 18 18396 0 S0 = (S252, true) := runSeg_comp 18 18323 73 0 S0 S251 S252 run251 seg251
theorem run253 : runSeg 18 18469 0 S0 = (S253, true) := runSeg_comp 18 18396 73 0 S0 S252 S253 run252 seg252
theorem run254 : runSeg 18 18542 0 S0 = (S254, true) := runSeg_comp 18 18469 73 0 S0 S253 S254 run253 seg253
theorem run255 : runSeg 18 18615 0 S0 = (S255, true) := runSeg_comp 18 18542 73 0 S0 S254 S255 run254 seg254
theorem run256 : runSeg 18 18688 0 S0 = (S256, true) := runSeg_comp 18 18615 73 0 S0 S255 S256 run255 seg255
theorem run257 : runSeg 18 18761 0 S0 = (S257, true) := runSeg_comp 18 18688 73 0 S0 S256 S257 run256 seg256
theorem run258 : runSeg 18 18834 0 S0 = (S258, true) := runSeg_comp 18 18761 73 0 S0 S257 S258 run257 seg257
theorem run259 : runSeg 18 18907 0 S0 = (S259, true) := runSeg_comp 18 18834 73 0 S0 S258 S259 run258 seg258
theorem run260 : runSeg 18 18980 0 S0 = (S260, true) := runSeg_comp 18 18907 73 0 S0 S259 S260 run259 seg259
theorem run261 : runSeg 18 19053 0 S0 = (S261, true) := runSeg_comp 18 18980 73 0 S0 S260 S261 run260 seg260
theorem run262 : runSeg 18 19126 0 S0 = (S262, true) := runSeg_comp 18 19053 73 0 S0 S261 S262 run261 seg261
theorem run263 : runSeg 18 19199 0 S0 = (S263, true) := runSeg_comp 18 19126 73 0 S0 S262 S263 run262 seg262
theorem run264 : runSeg 18 19272 0 S0 = (S264, true) := runSeg_comp 18 19199 73 0 S0 S263 S264 run263 seg263
theorem run265 : runSeg 18 19345 0 S0 = (S265, true) := runSeg_comp 18 19272 73 0 S0 S264 S265 run264 seg264
theorem run266 : runSeg 18 19418 0 S0 = (S266, true) := runSeg_comp 18 19345 73 0 S0 S265 S266 run265 seg265
theorem run267 : runSeg 18 19491 0 S0 = (S267, true) := runSeg_comp 18 19418 73 0 S0 S266 S267 run266 seg266
theorem run268 : runSeg 18 19564 0 S0 = (S268, true) := runSeg_comp 18 19491 73 0 S0 S267 S268 run267 seg267
theorem run269 : runSeg 18 19637 0 S0 = (S269, true) := runSeg_comp 18 19564 73 0 S0 S268 S269 run268 seg268
theorem run270 : runSeg 18 19710 0 S0 = (S270, true) := runSeg_comp 18 19637 73 0 S0 S269 S270 run269 seg269
theorem run271 : runSeg 18 19783 0 S0 = (S271, true) := runSeg_comp 18 19710 73 0 S0 S270 S271 run270 seg270
theorem run272 : runSeg 18 19856 0 S0 = (S272, true) := runSeg_comp 18 19783 73 0 S0 S271 S272 run271 seg271
theorem run273 : runSeg 18 19929 0 S0 = (S273, true) := runSeg_comp 18 19856 73 0 S0 S272 S273 run272 seg272
theorem run274 : runSeg 18 20002 0 S0 = (S274, true) := runSeg_comp 18 19929 73 0 S0 S273 S274 run273 seg273
theorem run275 : runSeg 18 20075 0 S0 = (S275, true) := runSeg_comp 18 20002 73 0 S0 S274 S275 run274 seg274
theorem run276 : runSeg 18 20148 0 S0 = (S276, true) := runSeg_comp 18 20075 73 0 S0 S275 S276 run275 seg275
theorem run277 : runSeg 18 20221 0 S0 = (S277, true) := runSeg_comp 18 20148 73 0 S0 S276 S277 run276 seg276
theorem run278 : runSeg 18 20294 0 S0 = (S278, true) := runSeg_comp 18 20221 73 0 S0 S277 S278 run277 seg277
theorem run279 : runSeg 18 20367 0 S0 = (S279, true) := runSeg_comp 18 20294 73 0 S0 S278 S279 run278 seg278
theorem run280 : runSeg 18 20440 0 S0 = (S280, true) := runSeg_comp 18 20367 73 0 S0 S279 S280 run279 seg279
theorem run281 : runSeg 18 20513 0 S0 = (S281, true) := runSeg_comp 18 20440 73 0 S0 S280 S281 run280 seg280
theorem run282 : runSeg 18 20586 0 S0 = (S282, true) := runSeg_comp 18 20513 73 0 S0 S281 S282 run281 seg281
theorem run283 : runSeg 18 20659 0 S0 = (S283, true) := runSeg_comp 18 20586 73 0 S0 S282 S283 run282 seg282
theorem run284 : runSeg 18 20732 0 S0 = (S284, true) := runSeg_comp 18 20659 73 0 S0 S283 S284 run283 seg283
theorem run285 : runSeg 18 20805 0 S0 = (S285, true) := runSeg_comp 18 20732 73 0 S0 S284 S285 run284 seg284
theorem run286 : runSeg 18 20878 0 S0 = (S286, true) := runSeg_comp 18 20805 73 0 S0 S285 S286 run285 seg285
theorem run287 : runSeg 18 20951 0 S0 = (S287, true) := runSeg_comp 18 20878 73 0 S0 S286 S287 run286 seg286
theorem run288 : runSeg 18 21024 0 S0 = (S288, true) := runSeg_comp 18 20951 73 0 S0 S287 S288 run287 seg287
theorem run289 : runSeg 18 21097 0 S0 = (S289, true) := runSeg_comp 18 21024 73 0 S0 S288 S289 run288 seg288
theorem run290 : runSeg 18 21170 0 S0 = (S290, true) := runSeg_comp 18 21097 73 0 S0 S289 S290 run289 seg289
theorem run291 : runSeg 18 21243 0 S0 = (S291, true) := runSeg_comp 18 21170 73 0 S0 S290 S291 run290 seg290
theorem run292 : runSeg 18 21316 0 S0 = (S292, true) := runSeg_comp 18 21243 73 0 S0 S291 S292 run291 seg291
theorem run293 : runSeg 18 21389 0 S0 = (S293, true) := runSeg_comp 18 21316 73 0 S0 S292 S293 run292 seg292
theorem run294 : runSeg 18 21462 0 S0 = (S294, true) := runSeg_comp 18 21389 73 0 S0 S293 S294 run293 seg293
theorem run295 : runSeg 18 21535 0 S0 = (S295, true) := runSeg_comp 18 21462 73 0 S0 S294 S295 run294 seg294
theorem run296 : runSeg 18 21608 0 S0 = (S296, true) := runSeg_comp 18 21535 73 0 S0 S295 S296 run295 seg295
theorem run297 : runSeg 18 21681 0 S0 = (S297, true) := runSeg_comp 18 21608 73 0 S0 S296 S297 run296 seg296
theorem run298 : runSeg 18 21754 0 S0 = (S298, true) := runSeg_comp 18 21681 73 0 S0 S297 S298 run297 seg297
theorem run299 : runSeg 18 21827 0 S0 = (S299, true) := runSeg_comp 18 21754 73 0 S0 S298 S299 run298 seg298
theorem run300 : runSeg 18 21900 0 S0 = (S300, true) := runSeg_comp 18 21827 73 0 S0 S299 S300 run299 seg299
theorem run301 : runSeg 18 21973 0 S0 = (S301, true) := runSeg_comp 18 21900 73 0 S0 S300 S301 run300 seg300
theorem run302 : runSeg 18 22046 0 S0 = (S302, true) := runSeg_comp 18 21973 73 0 S0 S301 S302 run301 seg301
theorem run303 : runSeg 18 22119 0 S0 = (S303, true) := runSeg_comp 18 22046 73 0 S0 S302 S303 run302 seg302
theorem run304 : runSeg 18 22192 0 S0 = (S304, true) := runSeg_comp 18 22119 73 0 S0 S303 S304 run303 seg303
theorem run305 : runSeg 18 22265 0 S0 = (S305, true) := runSeg_comp 18 22192 73 0 S0 S304 S305 run304 seg304
theorem run306 : runSeg 18 22338 0 S0 = (S306, true) := runSeg_comp 18 22265 73 0 S0 S305 S306 run305 seg305
theorem run307 : runSeg 18 22411 0 S0 = (S307, true) := runSeg_comp 18 22338 73 0 S0 S306 S307 run306 seg306
theorem run308 : runSeg 18 22484 0 S0 = (S308, true) := runSeg_comp 18 22411 73 0 S0 S307 S308 run307 seg307
theorem run309 : runSeg 18 22557 0 S0 = (S309, true) := runSeg_comp 18 22484 73 0 S0 S308 S309 run308 seg308
theorem run310 : runSeg 18 22630 0 S0 = (S310, true) := runSeg_comp 18 22557 73 0 S0 S309 S310 run309 seg309
theorem run311 : runSeg 18 22703 0 S0 = (S311, true) := runSeg_comp 18 22630 73 0 S0 S310 S311 run310 seg310
theorem run312 : runSeg 18 22776 0 S0 = (S312, true) := runSeg_comp 18 22703 73 0 S0 S311 S312 run311 seg311
theorem run313 : runSeg 18 22849 0 S0 = (S313, true) := runSeg_comp 18 22776 73 0 S0 S312 S313 run312 seg312
theorem run314 : runSeg 18 22922 0 S0 = (S314, true) := runSeg_comp 18 22849 73 0 S0 S313 S314 run313 seg313
theorem run315 : runSeg 18 22995 0 S0 = (S315, true) := runSeg_comp 18 22922 73 0 S0 S314 S315 run314 seg314
theorem run316 : runSeg 18 23068 0 S0 = (S316, true) := runSeg_comp 18 22995 73 0 S0 S315 S316 run315 seg315
theorem run317 : runSeg 18 23141 0 S0 = (S317, true) := runSeg_comp 18 23068 73 0 S0 S316 S317 run316 seg316
theorem run318 : runSeg 18 23214 0 S0 = (S318, true) := runSeg_comp 18 23141 73 0 S0 S317 S318 run317 seg317
theorem run319 : runSeg 18 23287 0 S0 = (S319, true) := runSeg_comp 18 23214 73 0 S0 S318 S319 run318 seg318
theorem run320 : runSeg 18 23360 0 S0 = (S320, true) := runSeg_comp 18 23287 73 0 S0 S319 S320 run319 seg319
theorem run321 : runSeg 18 23433 0 S0 = (S321, true) := runSeg_comp 18 23360 73 0 S0 S320 S321 run320 seg320
theorem run322 : runSeg 18 23506 0 S0 = (S322, true) := runSeg_comp 18 23433 73 0 S0 S321 S322 run321 seg321
theorem run323 : runSeg 18 23579 0 S0 = (S323, true) := runSeg_comp 18 23506 73 0 S0 S322 S323 run322 seg322
theorem run324 : runSeg 18 23652 0 S0 = (S324, true) := runSeg_comp 18 23579 73 0 S0 S323 S324 run323 seg323
theorem run325 : runSeg 18 23725 0 S0 = (S325, true) := runSeg_comp 18 23652 73 0 S0 S324 S325 run324 seg324
theorem run326 : runSeg 18 23798 0 S0 = (S326, true) := runSeg_comp 18 23725 73 0 S0 S325 S326 run325 seg325
theorem run327 : runSeg 18 23871 0 S0 = (S327, true) := runSeg_comp 18 23798 73 0 S0 S326 S327 run326 seg326
theorem run328 : runSeg 18 23944 0 S0 = (S328, true) := runSeg_comp 18 23871 73 0 S0 S327 S328 run327 seg327
theorem run329 : runSeg 18 24017 0 S0 = (S329, true) := runSeg_comp 18 23944 73 0 S0 S328 S329 run328 seg328
theorem run330 : runSeg 18 24090 0 S0 = (S330, true) := runSeg_comp 18 24017 73 0 S0 S329 S330 run329 seg329
theorem run331 : runSeg 18 24163 0 S0 = (S331, true) := runSeg_comp 18 24090 73 0 S0 S330 S331 run330 seg330
theorem run332 : runSeg 18 24236 0 S0 = (S332, true) := runSeg_comp 18 24163 73 0 S0 S331 S332 run331 seg331
theorem run333 : runSeg 18 24309 0 S0 = (S333, true) := runSeg_comp 18 24236 73 0 S0 S332 S333 run332 seg332
theorem run334 : runSeg 18 24382 0 S0 = (S334, true) := runSeg_comp 18 24309 73 0 S0 S333 S334 run333 seg333
theorem run335 : runSeg 18 24455 0 S0 = (S335, true) := runSeg_comp 18 24382 73 0 S0 S334 S335 run334 seg334
theorem run336 : runSeg 18 24528 0 S0 = (S336, true) := runSeg_comp 18 24455 73 0 S0 S335 S336 run335 seg335
theorem run337 : runSeg 18 24601 0 S0 = (S337, true) := runSeg_comp 18 24528 73 0 S0 S336 S337 run336 seg336
theorem run338 : runSeg 18 24674 0 S0 = (S338, true) := runSeg_comp 18 24601 73 0 S0 S337 S338 run337 seg337
theorem run339 : runSeg 18 24747 0 S0 = (S339, true) := runSeg_comp 18 24674 73 0 S0 S338 S339 run338 seg338
theorem run340 : runSeg 18 24820 0 S0 = (S340, true) := runSeg_comp 18 24747 73 0 S0 S339 S340 run339 seg339
theorem run341 : runSeg 18 24893 0 S0 = (S341, true) := runSeg_comp 18 24820 73 0 S0 S340 S341 run340 seg340
theorem run342 : runSeg 18 24966 0 S0 = (S342, true) := runSeg_comp 18 24893 73 0 S0 S341 S342 run341 seg341
theorem run343 : runSeg 18 25039 0 S0 = (S343, true) := runSeg_comp 18 24966 73 0 S0 S342 S343 run342 seg342
theorem run344 : runSeg 18 25112 0 S0 = (S344, true) := runSeg_comp 18 25039 73 0 S0 S343 S344 run343 seg343
theorem run345 : runSeg 18 25185 0 S0 = (S345, true) := runSeg_comp 18 25112 73 0 S0 S344 S345 run344 seg344
theorem run346 : runSeg 18 25258 0 S0 = (S346, true) := runSeg_comp 18 25185 73 0 S0 S345 S346 run345 seg345
theorem run347 : runSeg 18 25331 0 S0 = (S347, true) := runSeg_comp 18 25258 73 0 S0 S346 S347 run346 seg346
theorem run348 : runSeg 18 25404 0 S0 = (S348, true) := runSeg_comp 18 25331 73 0 S0 S347 S348 run347 seg347
theorem run349 : runSeg 18 25477 0 S0 = (S349, true) := runSeg_comp 18 25404 73 0 S0 S348 S349 run348 seg348
theorem run350 : runSeg 18 25550 0 S0 = (S350, true) := runSeg_comp 18 25477 73 0 S0 S349 S350 run349 seg349
theorem run351 : runSeg 18 25623 0 S0 = (S351, true) := runSeg_comp 18 25550 73 0 S0 S350 S351 run350 seg350
theorem run352 : runSeg 18 25696 0 S0 = (S352, true) := runSeg_comp 18 25623 73 0 S0 S351 S352 run351 seg351
theorem run353 : runSeg 18 25769 0 S0 = (S353, true) := runSeg_comp 18 25696 73 0 S0 S352 S353 run352 seg352
theorem run354 : runSeg 18 25842 0 S0 = (S354, true) := runSeg_comp 18 25769 73 0 S0 S353 S354 run353 seg353
theorem run355 : runSeg 18 25915 0 S0 = (S355, true) := runSeg_comp 18 25842 73 0 S0 S354 S355 run354 seg354
theorem run356 : runSeg 18 25988 0 S0 = (S356, true) := runSeg_comp 18 25915 73 0 S0 S355 S356 run355 seg355
theorem run357 : runSeg 18 26061 0 S0 = (S357, true) := runSeg_comp 18 25988 73 0 S0 S356 S357 run356 seg356
theorem run358 : runSeg 18 26134 0 S0 = (S358, true) := runSeg_comp 18 26061 73 0 S0 S357 S358 run357 seg357
theorem run359 : runSeg 18 26207 0 S0 = (S359, true) := runSeg_comp 18 26134 73 0 S0 S358 S359 run358 seg358
theorem run360 : runSeg 18 26280 0 S0 = (S360, true) := runSeg_comp 18 26207 73 0 S0 S359 S360 run359 seg359
theorem run361 : runSeg 18 26353 0 S0 = (S361, true) := runSeg_comp 18 26280 73 0 S0 S360 S361 run360 seg360
theorem run362 : runSeg 18 26426 0 S0 = (S362, true) := runSeg_comp 18 26353 73 0 S0 S361 S362 run361 seg361
theorem run363 : runSeg 18 26499 0 S0 = (S363, true) := runSeg_comp 18 26426 73 0 S0 S362 S363 run362 seg362
theorem run364 : runSeg 18 26572 0 S0 = (S364, true) := runSeg_comp 18 26499 73 0 S0 S363 S364 run363 seg363
theorem run365 : runSeg 18 26645 0 S0 = (S365, true) := runSeg_comp 18 26572 73 0 S0 S364 S365 run364 seg364
theorem run366 : runSeg 18 26718 0 S0 = (S366, true) := runSeg_comp 18 26645 73 0 S0 S365 S366 run365 seg365
theorem run367 : runSeg 18 26791 0 S0 = (S367, true) := runSeg_comp 18 26718 73 0 S0 S366 S367 run366 seg366
theorem run368 : runSeg 18 26864 0 S0 = (S368, true) := runSeg_comp 18 26791 73 0 S0 S367 S368 run367 seg367
theorem run369 : runSeg 18 26937 0 S0 = (S369, true) := runSeg_comp 18 26864 73 0 S0 S368 S369 run368 seg368
theorem run370 : runSeg 18 27010 0 S0 = (S370, true) := runSeg_comp 18 26937 73 0 S0 S369 S370 run369 seg369
theorem run371 : runSeg 18 27083 0 S0 = (S371, true) := runSeg_comp 18 27010 73 0 S0 S370 S371 run370 seg370
theorem run372 : runSeg 18 27156 0 S0 = (S372, true) := runSeg_comp 18 27083 73 0 S0 S371 S372 run371 seg371
theorem run373 : runSeg 18 27229 0 S0 = (S373, true) := runSeg_comp 18 27156 73 0 S0 S372 S373 run372 seg372
theorem run374 : runSeg 18 27302 0 S0 = (S374, true) := runSeg_comp 18 27229 73 0 S0 S373 S374 run373 seg373
theorem run375 : runSeg 18 27375 0 S0 = (S375, true) := runSeg_comp 18 27302 73 0 S0 S374 S375 run374 seg374
theorem run376 : runSeg 18 27448 0 S0 = (S376, true) := runSeg_comp 18 27375 73 0 S0 S375 S376 run375 seg375
theorem run377 : runSeg 18 27521 0 S0 = (S377, true) := runSeg_comp 18 27448 73 0 S0 S376 S377 run376 seg376
theorem run378 : runSeg 18 27594 0 S0 = (S378, true) := runSeg_comp 18 27521 73 0 S0 S377 S378 run377 seg377
theorem run379 : runSeg 18 27667 0 S0 = (S379, true) := runSeg_comp 18 27594 73 0 S0 S378 S379 run378 seg378
theorem run380 : runSeg 18 27740 0 S0 = (S380, true) := runSeg_comp 18 27667 73 0 S0 S379 S380 run379 seg379
theorem run381 : runSeg 18 27813 0 S0 = (S381, true) := runSeg_comp 18 27740 73 0 S0 S380 S381 run380 seg380
theorem run382 : runSeg 18 27886 0 S0 = (S382, true) := runSeg_comp 18 27813 73 0 S0 S381 S382 run381 seg381
theorem run383 : runSeg 18 27959 0 S0 = (S383, true) := runSeg_comp 18 27886 73 0 S0 S382 S383 run382 seg382
theorem run384 : runSeg 18 28032 0 S0 = (S384, true) := runSeg_comp 18 27959 73 0 S0 S383 S384 run383 seg383
theorem run385 : runSeg 18 28105 0 S0 = (S385, true) := runSeg_comp 18 28032 73 0 S0 S384 S385 run384 seg384
theorem run386 : runSeg 18 28178 0 S0 = (S386, true) := runSeg_comp 18 28105 73 0 S0 S385 S386 run385 seg385
theorem run387 : runSeg 18 28251 0 S0 = (S387, true) := runSeg_comp 18 28178 73 0 S0 S386 S387 run386 seg386
theorem run388 : runSeg 18 28324 0 S0 = (S388, true) := runSeg_comp 18 28251 73 0 S0 S387 S388 run387 seg387
theorem run389 : runSeg 18 28397 0 S0 = (S389, true) := runSeg_comp 18 28324 73 0 S0 S388 S389 run388 seg388
theorem run390 : runSeg 18 28470 0 S0 = (S390, true) := runSeg_comp 18 28397 73 0 S0 S389 S390 run389 seg389
theorem run391 : runSeg 18 28543 0 S0 = (S391, true) := runSeg_comp 18 28470 73 0 S0 S390 S391 run390 seg390
theorem run392 : runSeg 18 28616 0 S0 = (S392, true) := runSeg_comp 18 28543 73 0 S0 S391 S392 run391 seg391
theorem run393 : runSeg 18 28689 0 S0 = (S393, true) := runSeg_comp 18 28616 73 0 S0 S392 S393 run392 seg392
theorem run394 : runSeg 18 28762 0 S0 = (S394, true) := runSeg_comp 18 28689 73 0 S0 S393 S394 run393 seg393
theorem run395 : runSeg 18 28835 0 S0 = (S395, true) := runSeg_comp 18 28762 73 0 S0 S394 S395 run394 seg394
theorem run396 : runSeg 18 28908 0 S0 = (S396, true) := runSeg_comp 18 28835 73 0 S0 S395 S396 run395 seg395
theorem run397 : runSeg 18 28981 0 S0 = (S397, true) := runSeg_comp 18 28908 73 0 S0 S396 S397 run396 seg396
theorem run398 : runSeg 18 29054 0 S0 = (S398, true) := runSeg_comp 18 28981 73 0 S0 S397 S398 run397 seg397
theorem run399 : runSeg 18 29127 0 S0 = (S399, true) := runSeg_comp 18 29054 73 0 S0 S398 S399 run398 seg398
theorem run400 : runSeg 18 29200 0 S0 = (S400, true) := runSeg_comp 18 29127 73 0 S0 S399 S400 run399 seg399
theorem run401 : runSeg 18 29273 0 S0 = (S401, true) := runSeg_comp 18 29200 73 0 S0 S400 S401 run400 seg400
theorem run402 : runSeg 18 29346 0 S0 = (S402, true) := runSeg_comp 18 29273 73 0 S0 S401 S402 run401 seg401
theorem run403 : runSeg 18 29419 0 S0 = (S403, true) := runSeg_comp 18 29346 73 0 S0 S402 S403 run402 seg402
theorem run404 : runSeg 18 29492 0 S0 = (S404, true) := runSeg_comp 18 29419 73 0 S0 S403 S404 run403 seg403
theorem run405 : runSeg 18 29565 0 S0 = (S405, true) := runSeg_comp 18 29492 73 0 S0 S404 S405 run404 seg404
theorem run406 : runSeg 18 29638 0 S0 = (S406, true) := runSeg_comp 18 29565 73 0 S0 S405 S406 run405 seg405
theorem run407 : runSeg 18 29711 0 S0 = (S407, true) := runSeg_comp 18 29638 73 0 S0 S406 S407 run406 seg406
theorem run408 : runSeg 18 29784 0 S0 = (S408, true) := runSeg_comp 18 29711 73 0 S0 S407 S408 run407 seg407
theorem run409 : runSeg 18 29857 0 S0 = (S409, true) := runSeg_comp 18 29784 73 0 S0 S408 S409 run408 seg408
theorem run410 : runSeg 18 29930 0 S0 = (S410, true) := runSeg_comp 18 29857 73 0 S0 S409 S410 run409 seg409
theorem run411 : runSeg 18 30003 0 S0 = (S411, true) := runSeg_comp 18 29930 73 0 S0 S410 S411 run410 seg410
theorem run412 : runSeg 18 30076 0 S0 = (S412, true) := runSeg_comp 18 30003 73 0 S0 S411 S412 run411 seg411
theorem run413 : runSeg 18 30149 0 S0 = (S413, true) := runSeg_comp 18 30076 73 0 S0 S412 S413 run412 seg412
theorem run414 : runSeg 18 30222 0 S0 = (S414, true) := runSeg_comp 18 30149 73 0 S0 S413 S414 run413 seg413
theorem run415 : runSeg 18 30295 0 S0 = (S415, true) := runSeg_comp 18 30222 73 0 S0 S414 S415 run414 seg414
theorem run416 : runSeg 18 30368 0 S0 = (S416, true) := runSeg_comp 18 30295 73 0 S0 S415 S416 run415 seg415
theorem run417 : runSeg 18 30441 0 S0 = (S417, true) := runSeg_comp 18 30368 73 0 S0 S416 S417 run416 seg416
theorem run418 : runSeg 18 30514 0 S0 = (S418, true) := runSeg_comp 18 30441 73 0 S0 S417 S418 run417 seg417
theorem run419 : runSeg 18 30587 0 S0 = (S419, true) := runSeg_comp 18 30514 73 0 S0 S418 S419 run418 seg418
theorem run420 : runSeg 18 30660 0 S0 = (S420, true) := runSeg_comp 18 30587 73 0 S0 S419 S420 run419 seg419
theorem run421 : runSeg 18 30733 0 S0 = (S421, true) := runSeg_comp 18 30660 73 0 S0 S420 S421 run420 seg420
theorem run422 : runSeg 18 30806 0 S0 = (S422, true) := runSeg_comp 18 30733 73 0 S0 S421 S422 run421 seg421
theorem run423 : runSeg 18 30879 0 S0 = (S423, true) := runSeg_comp 18 30806 73 0 S0 S422 S423 run422 seg422
theorem run424 : runSeg 18 30952 0 S0 = (S424, true) := runSeg_comp 18 30879 73 0 S0 S423 S424 run423 seg423
theorem run425 : runSeg 18 31025 0 S0 = (S425, true) := runSeg_comp 18 30952 73 0 S0 S424 S425 run424 seg424
theorem run426 : runSeg 18 31098 0 S0 = (S426, true) := runSeg_comp 18 31025 73 0 S0 S425 S426 run425 seg425
theorem run427 : runSeg 18 31171 0 S0 = (S427, true) := runSeg_comp 18 31098 73 0 S0 S426 S427 run426 seg426
theorem run428 : runSeg 18 31244 0 S0 = (S428, true) := runSeg_comp 18 31171 73 0 S0 S427 S428 run427 seg427
theorem run429 : runSeg 18 31317 0 S0 = (S429, true) := runSeg_comp 18 31244 73 0 S0 S428 S429 run428 seg428
theorem run430 : runSeg 18 31390 0 S0 = (S430, true) := runSeg_comp 18 31317 73 0 S0 S429 S430 run429 seg429
theorem run431 : runSeg 18 31463 0 S0 = (S431, true) := runSeg_comp 18 31390 73 0 S0 S430 S431 run430 seg430
theorem run432 : runSeg 18 31536 0 S0 = (S432, true) := runSeg_comp 18 31463 73 0 S0 S431 S432 run431 seg431
theorem run433 : runSeg 18 31609 0 S0 = (S433, true) := runSeg_comp 18 31536 73 0 S0 S432 S433 run432 seg432
theorem run434 : runSeg 18 31682 0 S0 = (S434, true) := runSeg_comp 18 31609 73 0 S0 S433 S434 run433 seg433
theorem run435 : runSeg 18 31755 0 S0 = (S435, true) := runSeg_comp 18 31682 73 0 S0 S434 S435 run434 seg434
theorem run436 : runSeg 18 31828 0 S0 = (S436, true) := runSeg_comp 18 31755 73 0 S0 S435 S436 run435 seg435
theorem run437 : runSeg 18 31901 0 S0 = (S437, true) := runSeg_comp 18 31828 73 0 S0 S436 S437 run436 seg436
theorem run438 : runSeg 18 31974 0 S0 = (S438, true) := runSeg_comp 18 31901 73 0 S0 S437 S438 run437 seg437
theorem run439 : runSeg 18 32047 0 S0 = (S439, true) := runSeg_comp 18 31974 73 0 S0 S438 S439 run438 seg438
theorem run440 : runSeg 18 32120 0 S0 = (S440, true) := runSeg_comp 18 32047 73 0 S0 S439 S440 run439 seg439
theorem run441 : runSeg 18 32193 0 S0 = (S441, true) := runSeg_comp 18 32120 73 0 S0 S440 S441 run440 seg440
theorem run442 : runSeg 18 32266 0 S0 = (S442, true) := runSeg_comp 18 32193 73 0 S0 S441 S442 run441 seg441
theorem run443 : runSeg 18 32339 0 S0 = (S443, true) := runSeg_comp 18 32266 73 0 S0 S442 S443 run442 seg442
theorem run444 : runSeg 18 32412 0 S0 = (S444, true) := runSeg_comp 18 32339 73 0 S0 S443 S444 run443 seg443
theorem run445 : runSeg 18 32485 0 S0 = (S445, true) := runSeg_comp 18 32412 73 0 S0 S444 S445 run444 seg444
theorem run446 : runSeg 18 32558 0 S0 = (S446, true) := runSeg_comp 18 32485 73 0 S0 S445 S446 run445 seg445
theorem run447 : runSeg 18 32631 0 S0 = (S447, true) := runSeg_comp 18 32558 73 0 S0 S446 S447 run446 seg446
theorem run448 : runSeg 18 32704 0 S0 = (S448, true) := runSeg_comp 18 32631 73 0 S0 S447 S448 run447 seg447
theorem run449 : runSeg 18 32777 0 S0 = (S449, true) := runSeg_comp 18 32704 73 0 S0 S448 S449 run448 seg448
theorem run450 : runSeg 18 32850 0 S0 = (S450, true) := runSeg_comp 18 32777 73 0 S0 S449 S450 run449 seg449
theorem run451 : runSeg 18 32923 0 S0 = (S451, true) := runSeg_comp 18 32850 73 0 S0 S450 S451 run450 seg450
theorem run452 : runSeg 18 32996 0 S0 = (S452, true) := runSeg_comp 18 32923 73 0 S0 S451 S452 run451 seg451
theorem run453 : runSeg 18 33069 0 S0 = (S453, true) := runSeg_comp 18 32996 73 0 S0 S452 S453 run452 seg452
theorem run454 : runSeg 18 33142 0 S0 = (S454, true) := runSeg_comp 18 33069 73 0 S0 S453 S454 run453 seg453
theorem run455 : runSeg 18 33215 0 S0 = (S455, true) := runSeg_comp 18 33142 73 0 S0 S454 S455 run454 seg454
theorem run456 : runSeg 18 33288 0 S0 = (S456, true) := runSeg_comp 18 33215 73 0 S0 S455 S456 run455 seg455
theorem run457 : runSeg 18 33361 0 S0 = (S457, true) := runSeg_comp 18 33288 73 0 S0 S456 S457 run456 seg456
theorem run458 : runSeg 18 33434 0 S0 = (S458, true) := runSeg_comp 18 33361 73 0 S0 S457 S458 run457 seg457
theorem run459 : runSeg 18 33507 0 S0 = (S459, true) := runSeg_comp 18 33434 73 0 S0 S458 S459 run458 seg458
theorem run460 : runSeg 18 33580 0 S0 = (S460, true) := runSeg_comp 18 33507 73 0 S0 S459 S460 run459 seg459
theorem run461 : runSeg 18 33653 0 S0 = (S461, true) := runSeg_comp 18 33580 73 0 S0 S460 S461 run460 seg460
theorem run462 : runSeg 18 33726 0 S0 = (S462, true) := runSeg_comp 18 33653 73 0 S0 S461 S462 run461 seg461
theorem run463 : runSeg 18 33799 0 S0 = (S463, true) := runSeg_comp 18 33726 73 0 S0 S462 S463 run462 seg462
theorem run464 : runSeg 18 33872 0 S0 = (S464, true) := runSeg_comp 18 33799 73 0 S0 S463 S464 run463 seg463
theorem run465 : runSeg 18 33945 0 S0 = (S465, true) := runSeg_comp 18 33872 73 0 S0 S464 S465 run464 seg464
theorem run466 : runSeg 18 34018 0 S0 = (S466, true) := runSeg_comp 18 33945 73 0 S0 S465 S466 run465 seg465
theorem run467 : runSeg 18 34091 0 S0 = (S467, true) := runSeg_comp 18 34018 73 0 S0 S466 S467 run466 seg466
theorem run468 : runSeg 18 34164 0 S0 = (S468, true) := runSeg_comp 18 34091 73 0 S0 S467 S468 run467 seg467
theorem run469 : runSeg 18 34237 0 S0 = (S469, true) := runSeg_comp 18 34164 73 0 S0 S468 S469 run468 seg468
theorem run470 : runSeg 18 34310 0 S0 = (S470, true) := runSeg_comp 18 34237 73 0 S0 S469 S470 run469 seg469
theorem run471 : runSeg 18 34383 0 S0 = (S471, true) := runSeg_comp 18 34310 73 0 S0 S470 S471 run470 seg470
theorem run472 : runSeg 18 34456 0 S0 = (S472, true) := runSeg_comp 18 34383 73 0 S0 S471 S472 run471 seg471
theorem run473 : runSeg 18 34529 0 S0 = (S473, true) := runSeg_comp 18 34456 73 0 S0 S472 S473 run472 seg472
theorem run474 : runSeg 18 34602 0 S0 = (S474, true) := runSeg_comp 18 34529 73 0 S0 S473 S474 run473 seg473
theorem run475 : runSeg 18 34675 0 S0 = (S475, true) := runSeg_comp 18 34602 73 0 S0 S474 S475 run474 seg474
theorem run476 : runSeg 18 34748 0 S0 = (S476, true) := runSeg_comp 18 34675 73 0 S0 S475 S476 run475 seg475
theorem run477 : runSeg 18 34821 0 S0 = (S477, true) := runSeg_comp 18 34748 73 0 S0 S476 S477 run476 seg476
theorem run478 : runSeg 18 34894 0 S0 = (S478, true) := runSeg_comp 18 34821 73 0 S0 S477 S478 run477 seg477
theorem run479 : runSeg 18 34967 0 S0 = (S479, true) := runSeg_comp 18 34894 73 0 S0 S478 S479 run478 seg478
theorem run480 : runSeg 18 35040 0 S0 = (S480, true) := runSeg_comp 18 34967 73 0 S0 S479 S480 run479 seg479
theorem run481 : runSeg 18 35113 0 S0 = (S481, true) := runSeg_comp 18 35040 73 0 S0 S480 S481 run480 seg480
theorem run482 : runSeg 18 35186 0 S0 = (S482, true) := runSeg_comp 18 35113 73 0 S0 S481 S482 run481 seg481
theorem run483 : runSeg 18 35259 0 S0 = (S483, true) := runSeg_comp 18 35186 73 0 S0 S482 S483 run482 seg482
theorem run484 : runSeg 18 35332 0 S0 = (S484, true) := runSeg_comp 18 35259 73 0 S0 S483 S484 run483 seg483
theorem run485 : runSeg 18 35405 0 S0 = (S485, true) := runSeg_comp 18 35332 73 0 S0 S484 S485 run484 seg484
theorem run486 : runSeg 18 35478 0 S0 = (S486, true) := runSeg_comp 18 35405 73 0 S0 S485 S486 run485 seg485
theorem run487 : runSeg 18 35551 0 S0 = (S487, true) := runSeg_comp 18 35478 73 0 S0 S486 S487 run486 seg486
theorem run488 : runSeg 18 35624 0 S0 = (S488, true) := runSeg_comp 18 35551 73 0 S0 S487 S488 run487 seg487
theorem run489 : runSeg 18 35697 0 S0 = (S489, true) := runSeg_comp 18 35624 73 0 S0 S488 S489 run488 seg488
theorem run490 : runSeg 18 35770 0 S0 = (S490, true) := runSeg_comp 18 35697 73 0 S0 S489 S490 run489 seg489
theorem run491 : runSeg 18 35843 0 S0 = (S491, true) := runSeg_comp 18 35770 73 0 S0 S490 S491 run490 seg490
theorem run492 : runSeg 18 35916 0 S0 = (S492, true) := runSeg_comp 18 35843 73 0 S0 S491 S492 run491 seg491
theorem run493 : runSeg 18 35989 0 S0 = (S493, true) := runSeg_comp 18 35916 73 0 S0 S492 S493 run492 seg492
theorem run494 : runSeg 18 36062 0 S0 = (S494, true) := runSeg_comp 18 35989 73 0 S0 S493 S494 run493 seg493
theorem run495 : runSeg 18 36135 0 S0 = (S495, true) := runSeg_comp 18 36062 73 0 S0 S494 S495 run494 seg494
theorem run496 : runSeg 18 36208 0 S0 = (S496, true) := runSeg_comp 18 36135 73 0 S0 S495 S496 run495 seg495
theorem run497 : runSeg 18 36281 0 S0 = (S497, true) := runSeg_comp 18 36208 73 0 S0 S496 S497 run496 seg496
theorem run498 : runSeg 18 36354 0 S0 = (S498, true) := runSeg_comp 18 36281 73 0 S0 S497 S498 run497 seg497
theorem run499 : runSeg 18 36427 0 S0 = (S499, true) := runSeg_comp 18 36354 73 0 S0 S498 S499 run498 seg498
theorem run500 : runSeg 18 36500 0 S0 = (S500, true) := runSeg_comp 18 36427 73 0 S0 S499 S500 run499 seg499
theorem run501 : runSeg 18 36573 0 S0 = (S501, true) := runSeg_comp 18 36500 73 0 S0 S500 S501 run500 seg500
theorem run502 : runSeg 18 36646 0 S0 = (S502, true) := runSeg_comp 18 36573 73 0 S0 S501 S502 run501 seg501
theorem run503 : runSeg 18 36719 0 S0 = (S503, true) := runSeg_comp 18 36646 73 0 S0 S502 S503 run502 seg502
theorem run504 : runSeg 18 36792 0 S0 = (S504, true) := runSeg_comp 18 36719 73 0 S0 S503 S504 run503 seg503
theorem run505 : runSeg 18 36865 0 S0 = (S505, true) := runSeg_comp 18 36792 73 0 S0 S504 S505 run504 seg504
theorem run506 : runSeg 18 36938 0 S0 = (S506, true) := runSeg_comp 18 36865 73 0 S0 S505 S506 run505 seg505
theorem run507 : runSeg 18 37011 0 S0 = (S507, true) := runSeg_comp 18 36938 73 0 S0 S506 S507 run506 seg506
theorem run508 : runSeg 18 37084 0 S0 = (S508, true) := runSeg_comp 18 37011 73 0 S0 S507 S508 run507 seg507
theorem run509 : runSeg 18 37157 0 S0 = (S509, true) := runSeg_comp 18 37084 73 0 S0 S508 S509 run508 seg508
theorem run510 : runSeg 18 37230 0 S0 = (S510, true) := runSeg_comp 18 37157 73 0 S0 S509 S510 run509 seg509
theorem run511 : runSeg 18 37303 0 S0 = (S511, true) := runSeg_comp 18 37230 73 0 S0 S510 S511 run510 seg510
theorem run512 : runSeg 18 37376 0 S0 = (S512, true) := runSeg_comp 18 37303 73 0 S0 S511 S512 run511 seg511
theorem run513 : runSeg 18 37449 0 S0 = (S513, true) := runSeg_comp 18 37376 73 0 S0 S512 S513 run512 seg512
theorem run514 : runSeg 18 37522 0 S0 = (S514, true) := runSeg_comp 18 37449 73 0 S0 S513 S514 run513 seg513
theorem run515 : runSeg 18 37595 0 S0 = (S515, true) := runSeg_comp 18 37522 73 0 S0 S514 S515 run514 seg514
theorem run516 : runSeg 18 37668 0 S0 = (S516, true) := runSeg_comp 18 37595 73 0 S0 S515 S516 run515 seg515
theorem run517 : runSeg 18 37741 0 S0 = (S517, true) := runSeg_comp 18 37668 73 0 S0 S516 S517 run516 seg516
theorem run518 : runSeg 18 37814 0 S0 = (S518, true) := runSeg_comp 18 37741 73 0 S0 S517 S518 run517 seg517
theorem run519 : runSeg 18 37887 0 S0 = (S519, true) := runSeg_comp 18 37814 73 0 S0 S518 S519 run518 seg518
theorem run520 : runSeg 18 37960 0 S0 = (S520, true) := runSeg_comp 18 37887 73 0 S0 S519 S520 run519 seg519
theorem run521 : runSeg 18 38033 0 S0 = (S521, true) := runSeg_comp 18 37960 73 0 S0 S520 S521 run520 seg520
theorem run522 : runSeg 18 38106 0 S0 = (S522, true) := runSeg_comp 18 38033 73 0 S0 S521 S522 run521 seg521
theorem run523 : runSeg 18 38179 0 S0 = (S523, true) := runSeg_comp 18 38106 73 0 S0 S522 S523 run522 seg522
theorem run524 : runSeg 18 38252 0 S0 = (S524, true) := runSeg_comp 18 38179 73 0 S0 S523 S524 run523 seg523
theorem run525 : runSeg 18 38325 0 S0 = (S525, true) := runSeg_comp 18 38252 73 0 S0 S524 S525 run524 seg524
theorem run526 : runSeg 18 38398 0 S0 = (S526, true) := runSeg_comp 18 38325 73 0 S0 S525 S526 run525 seg525
theorem run527 : runSeg 18 38471 0 S0 = (S527, true) := runSeg_comp 18 38398 73 0 S0 S526 S527 run526 seg526
theorem run528 : runSeg 18 38544 0 S0 = (S528, true) := runSeg_comp 18 38471 73 0 S0 S527 S528 run527 seg527
theorem run529 : runSeg 18 38617 0 S0 = (S529, true) := runSeg_comp 18 38544 73 0 S0 S528 S529 run528 seg528
theorem run530 : runSeg 18 38690 0 S0 = (S530, true) := runSeg_comp 18 38617 73 0 S0 S529 S530 run529 seg529
theorem run531 : runSeg 18 38763 0 S0 = (S531, true) := runSeg_comp 18 38690 73 0 S0 S530 S531 run530 seg530
theorem run532 : runSeg 18 38836 0 S0 = (S532, true) := runSeg_comp 18 38763 73 0 S0 S531 S532 run531 seg531
theorem run533 : runSeg 18 38909 0 S0 = (S533, true) := runSeg_comp 18 38836 73 0 S0 S532 S533 run532 seg532
theorem run534 : runSeg 18 38982 0 S0 = (S534, true) := runSeg_comp 18 38909 73 0 S0 S533 S534 run533 seg533
theorem run535 : runSeg 18 39055 0 S0 = (S535, true) := runSeg_comp 18 38982 73 0 S0 S534 S535 run534 seg534
theorem run536 : runSeg 18 39128 0 S0 = (S536, true) := runSeg_comp 18 39055 73 0 S0 S535 S536 run535 seg535
theorem run537 : runSeg 18 39201 0 S0 = (S537, true) := runSeg_comp 18 39128 73 0 S0 S536 S537 run536 seg536
theorem run538 : runSeg 18 39274 0 S0 = (S538, true) := runSeg_comp 18 39201 73 0 S0 S537 S538 run537 seg537
theorem run539 : runSeg 18 39347 0 S0 = (S539, true) := runSeg_comp 18 39274 73 0 S0 S538 S539 run538 seg538
theorem run540 : runSeg 18 39420 0 S0 = (S540, true) := runSeg_comp 18 39347 73 0 S0 S539 S540 run539 seg539
theorem run541 : runSeg 18 39493 0 S0 = (S541, true) := runSeg_comp 18 39420 73 0 S0 S540 S541 run540 seg540
theorem run542 : runSeg 18 39566 0 S0 = (S542, true) := runSeg_comp 18 39493 73 0 S0 S541 S542 run541 seg541
theorem run543 : runSeg 18 39639 0 S0 = (S543, true) := runSeg_comp 18 39566 73 0 S0 S542 S543 run542 seg542
theorem run544 : runSeg 18 39712 0 S0 = (S544, true) := runSeg_comp 18 39639 73 0 S0 S543 S544 run543 seg543
theorem run545 : runSeg 18 39785 0 S0 = (S545, true) := runSeg_comp 18 39712 73 0 S0 S544 S545 run544 seg544
theorem run546 : runSeg 18 39858 0 S0 = (S546, true) := runSeg_comp 18 39785 73 0 S0 S545 S546 run545 seg545
theorem run547 : runSeg 18 39931 0 S0 = (S547, true) := runSeg_comp 18 39858 73 0 S0 S546 S547 run546 seg546
theorem run548 : runSeg 18 40004 0 S0 = (S548, true) := runSeg_comp 18 39931 73 0 S0 S547 S548 run547 seg547
theorem run549 : runSeg 18 40077 0 S0 = (S549, true) := runSeg_comp 18 40004 73 0 S0 S548 S549 run548 seg548
theorem run550 : runSeg 18 40150 0 S0 = (S550, true) := runSeg_comp 18 40077 73 0 S0 S549 S550 run549 seg549
theorem run551 : runSeg 18 40223 0 S0 = (S551, true) := runSeg_comp 18 40150 73 0 S0 S550 S551 run550 seg550
theorem run552 : runSeg 18 40296 0 S0 = (S552, true) := runSeg_comp 18 40223 73 0 S0 S551 S552 run551 seg551
theorem run553 : runSeg 18 40369 0 S0 = (S553, true) := runSeg_comp 18 40296 73 0 S0 S552 S553 run552 seg552
theorem run554 : runSeg 18 40442 0 S0 = (S554, true) := runSeg_comp 18 40369 73 0 S0 S553 S554 run553 seg553
theorem run555 : runSeg 18 40515 0 S0 = (S555, true) := runSeg_comp 18 40442 73 0 S0 S554 S555 run554 seg554
theorem run556 : runSeg 18 40588 0 S0 = (S556, true) := runSeg_comp 18 40515 73 0 S0 S555 S556 run555 seg555
theorem run557 : runSeg 18 40661 0 S0 = (S557, true) := runSeg_comp 18 40588 73 0 S0 S556 S557 run556 seg556
theorem run558 : runSeg 18 40734 0 S0 = (S558, true) := runSeg_comp 18 40661 73 0 S0 S557 S558 run557 seg557
theorem run559 : runSeg 18 40807 0 S0 = (S559, true) := runSeg_comp 18 40734 73 0 S0 S558 S559 run558 seg558
theorem run560 : runSeg 18 40880 0 S0 = (S560, true) := runSeg_comp 18 40807 73 0 S0 S559 S560 run559 seg559
theorem run561 : runSeg 18 40953 0 S0 = (S561, true) := runSeg_comp 18 40880 73 0 S0 S560 S561 run560 seg560
theorem run562 : runSeg 18 41026 0 S0 = (S562, true) := runSeg_comp 18 40953 73 0 S0 S561 S562 run561 seg561
theorem run563 : runSeg 18 41099 0 S0 = (S563, true) := runSeg_comp 18 41026 73 0 S0 S562 S563 run562 seg562
theorem run564 : runSeg 18 41172 0 S0 = (S564, true) := runSeg_comp 18 41099 73 0 S0 S563 S564 run563 seg563
theorem run565 : runSeg 18 41245 0 S0 = (S565, true) := runSeg_comp 18 41172 73 0 S0 S564 S565 run564 seg564
theorem run566 : runSeg 18 41318 0 S0 = (S566, true) := runSeg_comp 18 41245 73 0 S0 S565 S566 run565 seg565
theorem run567 : runSeg 18 41391 0 S0 = (S567, true) := runSeg_comp 18 41318 73 0 S0 S566 S567 run566 seg566
theorem run568 : runSeg 18 41464 0 S0 = (S568, true) := runSeg_comp 18 41391 73 0 S0 S567 S568 run567 seg567
theorem run569 : runSeg 18 41537 0 S0 = (S569, true) := runSeg_comp 18 41464 73 0 S0 S568 S569 run568 seg568
theorem run570 : runSeg 18 41610 0 S0 = (S570, true) := runSeg_comp 18 41537 73 0 S0 S569 S570 run569 seg569
theorem run571 : runSeg 18 41683 0 S0 = (S571, true) := runSeg_comp 18 41610 73 0 S0 S570 S571 run570 seg570
theorem run572 : runSeg 18 41756 0 S0 = (S572, true) := runSeg_comp 18 41683 73 0 S0 S571 S572 run571 seg571
theorem run573 : runSeg 18 41829 0 S0 = (S573, true) := runSeg_comp 18 41756 73 0 S0 S572 S573 run572 seg572
theorem run574 : runSeg 18 41902 0 S0 = (S574, true) := runSeg_comp 18 41829 73 0 S0 S573 S574 run573 seg573
theorem run575 : runSeg 18 41975 0 S0 = (S575, true) := runSeg_comp 18 41902 73 0 S0 S574 S575 run574 seg574
theorem run576 : runSeg 18 42048 0 S0 = (S576, true) := runSeg_comp 18 41975 73 0 S0 S575 S576 run575 seg575
theorem run577 : runSeg 18 42121 0 S0 = (S577, true) := runSeg_comp 18 42048 73 0 S0 S576 S577 run576 seg576
theorem run578 : runSeg 18 42194 0 S0 = (S578, true) := runSeg_comp 18 42121 73 0 S0 S577 S578 run577 seg577
theorem run579 : runSeg 18 42267 0 S0 = (S579, true) := runSeg_comp 18 42194 73 0 S0 S578 S579 run578 seg578
theorem run580 : runSeg 18 42340 0 S0 = (S580, true) := runSeg_comp 18 42267 73 0 S0 S579 S580 run579 seg579
theorem run581 : runSeg 18 42413 0 S0 = (S581, true) := runSeg_comp 18 42340 73 0 S0 S580 S581 run580 seg580
theorem run582 : runSeg 18 42486 0 S0 = (S582, true) := runSeg_comp 18 42413 73 0 S0 S581 S582 run581 seg581
theorem run583 : runSeg 18 42559 0 S0 = (S583, true) := runSeg_comp 18 42486 73 0 S0 S582 S583 run582 seg582
theorem run584 : runSeg 18 42632 0 S0 = (S584, true) := runSeg_comp 18 42559 73 0 S0 S583 S584 run583 seg583
theorem run585 : runSeg 18 42705 0 S0 = (S585, true) := runSeg_comp 18 42632 73 0 S0 S584 S585 run584 seg584
theorem run586 : runSeg 18 42778 0 S0 = (S586, true) := runSeg_comp 18 42705 73 0 S0 S585 S586 run585 seg585
theorem run587 : runSeg 18 42851 0 S0 = (S587, true) := runSeg_comp 18 42778 73 0 S0 S586 S587 run586 seg586
theorem run588 : runSeg 18 42924 0 S0 = (S588, true) := runSeg_comp 18 42851 73 0 S0 S587 S588 run587 seg587
theorem run589 : runSeg 18 42997 0 S0 = (S589, true) := runSeg_comp 18 42924 73 0 S0 S588 S589 run588 seg588
theorem run590 : runSeg 18 43070 0 S0 = (S590, true) := runSeg_comp 18 42997 73 0 S0 S589 S590 run589 seg589
theorem run591 : runSeg 18 43143 0 S0 = (S591, true) := runSeg_comp 18 43070 73 0 S0 S590 S591 run590 seg590
theorem run592 : runSeg 18 43216 0 S0 = (S592, true) := runSeg_comp 18 43143 73 0 S0 S591 S592 run591 seg591
theorem run593 : runSeg 18 43289 0 S0 = (S593, true) := runSeg_comp 18 43216 73 0 S0 S592 S593 run592 seg592
theorem run594 : runSeg 18 43362 0 S0 = (S594, true) := runSeg_comp 18 43289 73 0 S0 S593 S594 run593 seg593
theorem run595 : runSeg 18 43435 0 S0 = (S595, true) := runSeg_comp 18 43362 73 0 S0 S594 S595 run594 seg594
theorem run596 : runSeg 18 43508 0 S0 = (S596, true) := runSeg_comp 18 43435 73 0 S0 S595 S596 run595 seg595
theorem run597 : runSeg 18 43581 0 S0 = (S597, true) := runSeg_comp 18 43508 73 0 S0 S596 S597 run596 seg596
theorem run598 : runSeg 18 43654 0 S0 = (S598, true) := runSeg_comp 18 43581 73 0 S0 S597 S598 run597 seg597
theorem run599 : runSeg 18 43727 0 S0 = (S599, true) := runSeg_comp 18 43654 73 0 S0 S598 S599 run598 seg598
theorem run600 : runSeg 18 43800 0 S0 = (S600, true) := runSeg_comp 18 43727 73 0 S0 S599 S600 run599 seg599
theorem run601 : runSeg 18 43873 0 S0 = (S601, true) := runSeg_comp 18 43800 73 0 S0 S600 S601 run600 seg600
theorem run602 : runSeg 18 43946 0 S0 = (S602, true) := runSeg_comp 18 43873 73 0 S0 S601 S602 run601 seg601
theorem run603 : runSeg 18 44019 0 S0 = (S603, true) := runSeg_comp 18 43946 73 0 S0 S602 S603 run602 seg602
theorem run604 : runSeg 18 44092 0 S0 = (S604, true) := runSeg_comp 18 44019 73 0 S0 S603 S604 run603 seg603
theorem run605 : runSeg 18 44165 0 S0 = (S605, true) := runSeg_comp 18 44092 73 0 S0 S604 S605 run604 seg604
theorem run606 : runSeg 18 44238 0 S0 = (S606, true) := runSeg_comp 18 44165 73 0 S0 S605 S606 run605 seg605
theorem run607 : runSeg 18 44311 0 S0 = (S607, true) := runSeg_comp 18 44238 73 0 S0 S606 S607 run606 seg606
theorem run608 : runSeg 18 44384 0 S0 = (S608, true) := runSeg_comp 18 44311 73 0 S0 S607 S608 run607 seg607
theorem run609 : runSeg 18 44457 0 S0 = (S609, true) := runSeg_comp 18 44384 73 0 S0 S608 S609 run608 seg608
theorem run610 : runSeg 18 44530 0 S0 = (S610, true) := runSeg_comp 18 44457 73 0 S0 S609 S610 run609 seg609
theorem run611 : runSeg 18 44603 0 S0 = (S611, true) := runSeg_comp 18 44530 73 0 S0 S610 S611 run610 seg610
theorem run612 : runSeg 18 44676 0 S0 = (S612, true) := runSeg_comp 18 44603 73 0 S0 S611 S612 run611 seg611
theorem run613 : runSeg 18 44749 0 S0 = (S613, true) := runSeg_comp 18 44676 73 0 S0 S612 S613 run612 seg612
theorem run614 : runSeg 18 44822 0 S0 = (S614, true) := runSeg_comp 18 44749 73 0 S0 S613 S614 run613 seg613
theorem run615 : runSeg 18 44895 0 S0 = (S615, true) := runSeg_comp 18 44822 73 0 S0 S614 S615 run614 seg614
theorem run616 : runSeg 18 44968 0 S0 = (S616, true) := runSeg_comp 18 44895 73 0 S0 S615 S616 run615 seg615
theorem run617 : runSeg 18 45041 0 S0 = (S617, true) := runSeg_comp 18 44968 73 0 S0 S616 S617 run616 seg616
theorem run618 : runSeg 18 45114 0 S0 = (S618, true) := runSeg_comp 18 45041 73 0 S0 S617 S618 run617 seg617
theorem run619 : runSeg 18 45187 0 S0 = (S619, true) := runSeg_comp 18 45114 73 0 S0 S618 S619 run618 seg618
theorem run620 : runSeg 18 45260 0 S0 = (S620, true) := runSeg_comp 18 45187 73 0 S0 S619 S620 run619 seg619
theorem run621 : runSeg 18 45333 0 S0 = (S621, true) := runSeg_comp 18 45260 73 0 S0 S620 S621 run620 seg620
theorem run622 : runSeg 18 45406 0 S0 = (S622, true) := runSeg_comp 18 45333 73 0 S0 S621 S622 run621 seg621
theorem run623 : runSeg 18 45479 0 S0 = (S623, true) := runSeg_comp 18 45406 73 0 S0 S622 S623 run622 seg622
theorem run624 : runSeg 18 45552 0 S0 = (S624, true) := runSeg_comp 18 45479 73 0 S0 S623 S624 run623 seg623
theorem run625 : runSeg 18 45625 0 S0 = (S625, true) := runSeg_comp 18 45552 73 0 S0 S624 S625 run624 seg624
theorem run626 : runSeg 18 45698 0 S0 = (S626, true) := runSeg_comp 18 45625 73 0 S0 S625 S626 run625 seg625
theorem run627 : runSeg 18 45771 0 S0 = (S627, true) := runSeg_comp 18 45698 73 0 S0 S626 S627 run626 seg626
theorem run628 : runSeg 18 45844 0 S0 = (S628, true) := runSeg_comp 18 45771 73 0 S0 S627 S628 run627 seg627
theorem run629 : runSeg 18 45917 0 S0 = (S629, true) := runSeg_comp 18 45844 73 0 S0 S628 S629 run628 seg628
theorem run630 : runSeg 18 45990 0 S0 = (S630, true) := runSeg_comp 18 45917 73 0 S0 S629 S630 run629 seg629
theorem run631 : runSeg 18 46063 0 S0 = (S631, true) := runSeg_comp 18 45990 73 0 S0 S630 S631 run630 seg630
theorem run632 : runSeg 18 46136 0 S0 = (S632, true) := runSeg_comp 18 46063 73 0 S0 S631 S632 run631 seg631
theorem run633 : runSeg 18 46209 0 S0 = (S633, true) := runSeg_comp 18 46136 73 0 S0 S632 S633 run632 seg632
theorem run634 : runSeg 18 46282 0 S0 = (S634, true) := runSeg_comp 18 46209 73 0 S0 S633 S634 run633 seg633
theorem run635 : runSeg 18 46355 0 S0 = (S635, true) := runSeg_comp 18 46282 73 0 S0 S634 S635 run634 seg634
theorem run636 : runSeg 18 46428 0 S0 = (S636, true) := runSeg_comp 18 46355 73 0 S0 S635 S636 run635 seg635
theorem run637 : runSeg 18 46501 0 S0 = (S637, true) := runSeg_comp 18 46428 73 0 S0 S636 S637 run636 seg636
theorem run638 : runSeg 18 46574 0 S0 = (S638, true) := runSeg_comp 18 46501 73 0 S0 S637 S638 run637 seg637
theorem run639 : runSeg 18 46647 0 S0 = (S639, true) := runSeg_comp 18 46574 73 0 S0 S638 S639 run638 seg638
theorem run640 : runSeg 18 46720 0 S0 = (S640, true) := runSeg_comp 18 46647 73 0 S0 S639 S640 run639 seg639
theorem run641 : runSeg 18 46793 0 S0 = (S641, true) := runSeg_comp 18 46720 73 0 S0 S640 S641 run640 seg640
theorem run642 : runSeg 18 46866 0 S0 = (S642, true) := runSeg_comp 18 46793 73 0 S0 S641 S642 run641 seg641
theorem run643 : runSeg 18 46939 0 S0 = (S643, true) := runSeg_comp 18 46866 73 0 S0 S642 S643 run642 seg642
theorem run644 : runSeg 18 47012 0 S0 = (S644, true) := runSeg_comp 18 46939 73 0 S0 S643 S644 run643 seg643
theorem run645 : runSeg 18 47085 0 S0 = (S645, true) := runSeg_comp 18 47012 73 0 S0 S644 S645 run644 seg644
theorem run646 : runSeg 18 47158 0 S0 = (S646, true) := runSeg_comp 18 47085 73 0 S0 S645 S646 run645 seg645
theorem run647 : runSeg 18 47231 0 S0 = (S647, true) := runSeg_comp 18 47158 73 0 S0 S646 S647 run646 seg646
theorem run648 : runSeg 18 47304 0 S0 = (S648, true) := runSeg_comp 18 47231 73 0 S0 S647 S648 run647 seg647
theorem run649 : runSeg 18 47377 0 S0 = (S649, true) := runSeg_comp 18 47304 73 0 S0 S648 S649 run648 seg648
theorem run650 : runSeg 18 47450 0 S0 = (S650, true) := runSeg_comp 18 47377 73 0 S0 S649 S650 run649 seg649
theorem run651 : runSeg 18 47523 0 S0 = (S651, true) := runSeg_comp 18 47450 73 0 S0 S650 S651 run650 seg650
theorem run652 : runSeg 18 47596 0 S0 = (S652, true) := runSeg_comp 18 47523 73 0 S0 S651 S652 run651 seg651
theorem run653 : runSeg 18 47669 0 S0 = (S653, true) := runSeg_comp 18 47596 73 0 S0 S652 S653 run652 seg652
theorem run654 : runSeg 18 47742 0 S0 = (S654, true) := runSeg_comp 18 47669 73 0 S0 S653 S654 run653 seg653
theorem run655 : runSeg 18 47815 0 S0 = (S655, true) := runSeg_comp 18 47742 73 0 S0 S654 S655 run654 seg654
theorem run656 : runSeg 18 47888 0 S0 = (S656, true) := runSeg_comp 18 47815 73 0 S0 S655 S656 run655 seg655
theorem run657 : runSeg 18 47961 0 S0 = (S657, true) := runSeg_comp 18 47888 73 0 S0 S656 S657 run656 seg656
theorem run658 : runSeg 18 48034 0 S0 = (S658, true) := runSeg_comp 18 47961 73 0 S0 S657 S658 run657 seg657
theorem run659 : runSeg 18 48107 0 S0 = (S659, true) := runSeg_comp 18 48034 73 0 S0 S658 S659 run658 seg658
theorem run660 : runSeg 18 48180 0 S0 = (S660, true) := runSeg_comp 18 48107 73 0 S0 S659 S660 run659 seg659
theorem run661 : runSeg 18 48253 0 S0 = (S661, true) := runSeg_comp 18 48180 73 0 S0 S660 S661 run660 seg660
theorem run662 : runSeg 18 48326 0 S0 = (S662, true) := runSeg_comp 18 48253 73 0 S0 S661 S662 run661 seg661
theorem run663 : runSeg 18 48399 0 S0 = (S663, true) := runSeg_comp 18 48326 73 0 S0 S662 S663 run662 seg662
theorem run664 : runSeg 18 48472 0 S0 = (S664, true) := runSeg_comp 18 48399 73 0 S0 S663 S664 run663 seg663
theorem run665 : runSeg 18 48545 0 S0 = (S665, true) := runSeg_comp 18 48472 73 0 S0 S664 S665 run664 seg664
theorem run666 : runSeg 18 48618 0 S0 = (S666, true) := runSeg_comp 18 48545 73 0 S0 S665 S666 run665 seg665
theorem run667 : runSeg 18 48691 0 S0 = (S667, true) := runSeg_comp 18 48618 73 0 S0 S666 S667 run666 seg666
theorem run668 : runSeg 18 48764 0 S0 = (S668, true) := runSeg_comp 18 48691 73 0 S0 S667 S668 run667 seg667
theorem run669 : runSeg 18 48837 0 S0 = (S669, true) := runSeg_comp 18 48764 73 0 S0 S668 S669 run668 seg668
theorem run670 : runSeg 18 48910 0 S0 = (S670, true) := runSeg_comp 18 48837 73 0 S0 S669 S670 run669 seg669
theorem run671 : runSeg 18 48983 0 S0 = (S671, true) := runSeg_comp 18 48910 73 0 S0 S670 S671 run670 seg670
theorem run672 : runSeg 18 49056 0 S0 = (S672, true) := runSeg_comp 18 48983 73 0 S0 S671 S672 run671 seg671
theorem run673 : runSeg 18 49129 0 S0 = (S673, true) := runSeg_comp 18 49056 73 0 S0 S672 S673 run672 seg672
theorem run674 : runSeg 18 49202 0 S0 = (S674, true) := runSeg_comp 18 49129 73 0 S0 S673 S674 run673 seg673
theorem run675 : runSeg 18 49275 0 S0 = (S675, true) := runSeg_comp 18 49202 73 0 S0 S674 S675 run674 seg674
theorem run676 : runSeg 18 49348 0 S0 = (S676, true) := runSeg_comp 18 49275 73 0 S0 S675 S676 run675 seg675
theorem run677 : runSeg 18 49421 0 S0 = (S677, true) := runSeg_comp 18 49348 73 0 S0 S676 S677 run676 seg676
theorem run678 : runSeg 18 49494 0 S0 = (S678, true) := runSeg_comp 18 49421 73 0 S0 S677 S678 run677 seg677
theorem run679 : runSeg 18 49567 0 S0 = (S679, true) := runSeg_comp 18 49494 73 0 S0 S678 S679 run678 seg678
theorem run680 : runSeg 18 49640 0 S0 = (S680, true) := runSeg_comp 18 49567 73 0 S0 S679 S680 run679 seg679
theorem run681 : runSeg 18 49713 0 S0 = (S681, true) := runSeg_comp 18 49640 73 0 S0 S680 S681 run680 seg680
theorem run682 : runSeg 18 49786 0 S0 = (S682, true) := runSeg_comp 18 49713 73 0 S0 S681 S682 run681 seg681
theorem run683 : runSeg 18 49859 0 S0 = (S683, true) := runSeg_comp 18 49786 73 0 S0 S682 S683 run682 seg682
theorem run684 : runSeg 18 49932 0 S0 = (S684, true) := runSeg_comp 18 49859 73 0 S0 S683 S684 run683 seg683
theorem run685 : runSeg 18 50005 0 S0 = (S685, true) := runSeg_comp 18 49932 73 0 S0 S684 S685 run684 seg684
theorem run686 : runSeg 18 50078 0 S0 = (S686, true) := runSeg_comp 18 50005 73 0 S0 S685 S686 run685 seg685
theorem run687 : runSeg 18 50151 0 S0 = (S687, true) := runSeg_comp 18 50078 73 0 S0 S686 S687 run686 seg686
theorem run688 : runSeg 18 50224 0 S0 = (S688, true) := runSeg_comp 18 50151 73 0 S0 S687 S688 run687 seg687
theorem run689 : runSeg 18 50297 0 S0 = (S689, true) := runSeg_comp 18 50224 73 0 S0 S688 S689 run688 seg688
theorem run690 : runSeg 18 50370 0 S0 = (S690, true) := runSeg_comp 18 50297 73 0 S0 S689 S690 run689 seg689
theorem run691 : runSeg 18 50443 0 S0 = (S691, true) := runSeg_comp 18 50370 73 0 S0 S690 S691 run690 seg690
theorem run692 : runSeg 18 50516 0 S0 = (S692, true) := runSeg_comp 18 50443 73 0 S0 S691 S692 run691 seg691
theorem run693 : runSeg 18 50589 0 S0 = (S693, true) := runSeg_comp 18 50516 73 0 S0 S692 S693 run692 seg692
theorem run694 : runSeg 18 50662 0 S0 = (S694, true) := runSeg_comp 18 50589 73 0 S0 S693 S694 run693 seg693
theorem run695 : runSeg 18 50735 0 S0 = (S695, true) := runSeg_comp 18 50662 73 0 S0 S694 S695 run694 seg694
theorem run696 : runSeg 18 50808 0 S0 = (S696, true) := runSeg_comp 18 50735 73 0 S0 S695 S696 run695 seg695
theorem run697 : runSeg 18 50881 0 S0 = (S697, true) := runSeg_comp 18 50808 73 0 S0 S696 S697 run696 seg696
theorem run698 : runSeg 18 50954 0 S0 = (S698, true) := runSeg_comp 18 50881 73 0 S0 S697 S698 run697 seg697
theorem run699 : runSeg 18 51027 0 S0 = (S699, true) := runSeg_comp 18 50954 73 0 S0 S698 S699 run698 seg698
theorem run700 : runSeg 18 51100 0 S0 = (S700, true) := runSeg_comp 18 51027 73 0 S0 S699 S700 run699 seg699
theorem run701 : runSeg 18 51173 0 S0 = (S701, true) := runSeg_comp 18 51100 73 0 S0 S700 S701 run700 seg700
theorem run702 : runSeg 18 51246 0 S0 = (S702, true) := runSeg_comp 18 51173 73 0 S0 S701 S702 run701 seg701
theorem run703 : runSeg 18 51319 0 S0 = (S703, true) := runSeg_comp 18 51246 73 0 S0 S702 S703 run702 seg702
theorem run704 : runSeg 18 51392 0 S0 = (S704, true) := runSeg_comp 18 51319 73 0 S0 S703 S704 run703 seg703
theorem run705 : runSeg 18 51465 0 S0 = (S705, true) := runSeg_comp 18 51392 73 0 S0 S704 S705 run704 seg704
theorem run706 : runSeg 18 51538 0 S0 = (S706, true) := runSeg_comp 18 51465 73 0 S0 S705 S706 run705 seg705
theorem run707 : runSeg 18 51611 0 S0 = (S707, true) := runSeg_comp 18 51538 73 0 S0 S706 S707 run706 seg706
theorem run708 : runSeg 18 51684 0 S0 = (S708, true) := runSeg_comp 18 51611 73 0 S0 S707 S708 run707 seg707
theorem run709 : runSeg 18 51757 0 S0 = (S709, true) := runSeg_comp 18 51684 73 0 S0 S708 S709 run708 seg708
theorem run710 : runSeg 18 51830 0 S0 = (S710, true) := runSeg_comp 18 51757 73 0 S0 S709 S710 run709 seg709
theorem run711 : runSeg 18 51903 0 S0 = (S711, true) := runSeg_comp 18 51830 73 0 S0 S710 S711 run710 seg710
theorem run712 : runSeg 18 51976 0 S0 = (S712, true) := runSeg_comp 18 51903 73 0 S0 S711 S712 run711 seg711
theorem run713 : runSeg 18 52049 0 S0 = (S713, true) := runSeg_comp 18 51976 73 0 S0 S712 S713 run712 seg712
theorem run714 : runSeg 18 52122 0 S0 = (S714, true) := runSeg_comp 18 52049 73 0 S0 S713 S714 run713 seg713
theorem run715 : runSeg 18 52195 0 S0 = (S715, true) := runSeg_comp 18 52122 73 0 S0 S714 S715 run714 seg714
theorem run716 : runSeg 18 52268 0 S0 = (S716, true) := runSeg_comp 18 52195 73 0 S0 S715 S716 run715 seg715
theorem run717 : runSeg 18 52341 0 S0 = (S717, true) := runSeg_comp 18 52268 73 0 S0 S716 S717 run716 seg716
theorem run718 : runSeg 18 52414 0 S0 = (S718, true) := runSeg_comp 18 52341 73 0 S0 S717 S718 run717 seg717
theorem run719 : runSeg 18 52487 0 S0 = (S719, true) := runSeg_comp 18 52414 73 0 S0 S718 S719 run718 seg718
theorem run720 : runSeg 18 52560 0 S0 = (S720, true) := runSeg_comp 18 52487 73 0 S0 S719 S720 run719 seg719
theorem run721 : runSeg 18 52633 0 S0 = (S721, true) := runSeg_comp 18 52560 73 0 S0 S720 S721 run720 seg720
theorem run722 : runSeg 18 52706 0 S0 = (S722, true) := runSeg_comp 18 52633 73 0 S0 S721 S722 run721 seg721
theorem run723 : runSeg 18 52779 0 S0 = (S723, true) := runSeg_comp 18 52706 73 0 S0 S722 S723 run722 seg722
theorem run724 : runSeg 18 52852 0 S0 = (S724, true) := runSeg_comp 18 52779 73 0 S0 S723 S724 run723 seg723
theorem run725 : runSeg 18 52925 0 S0 = (S725, true) := runSeg_comp 18 52852 73 0 S0 S724 S725 run724 seg724
theorem run726 : runSeg 18 52998 0 S0 = (S726, true) := runSeg_comp 18 52925 73 0 S0 S725 S726 run725 seg725
theorem run727 : runSeg 18 53071 0 S0 = (S727, true) := runSeg_comp 18 52998 73 0 S0 S726 S727 run726 seg726
theorem run728 : runSeg 18 53144 0 S0 = (S728, true) := runSeg_comp 18 53071 73 0 S0 S727 S728 run727 seg727
theorem run729 : runSeg 18 53217 0 S0 = (S729, true) := runSeg_comp 18 53144 73 0 S0 S728 S729 run728 seg728
theorem run730 : runSeg 18 53290 0 S0 = (S730, true) := runSeg_comp 18 53217 73 0 S0 S729 S730 run729 seg729
theorem run731 : runSeg 18 53363 0 S0 = (S731, true) := runSeg_comp 18 53290 73 0 S0 S730 S731 run730 seg730
theorem run732 : runSeg 18 53436 0 S0 = (S732, true) := runSeg_comp 18 53363 73 0 S0 S731 S732 run731 seg731
theorem run733 : runSeg 18 53509 0 S0 = (S733, true) := runSeg_comp 18 53436 73 0 S0 S732 S733 run732 seg732
theorem run734 : runSeg 18 53582 0 S0 = (S734, true) := runSeg_comp 18 53509 73 0 S0 S733 S734 run733 seg733
theorem run735 : runSeg 18 53655 0 S0 = (S735, true) := runSeg_comp 18 53582 73 0 S0 S734 S735 run734 seg734
theorem run736 : runSeg 18 53728 0 S0 = (S736, true) := runSeg_comp 18 53655 73 0 S0 S735 S736 run735 seg735
theorem run737 : runSeg 18 53801 0 S0 = (S737, true) := runSeg_comp 18 53728 73 0 S0 S736 S737 run736 seg736
theorem run738 : runSeg 18 53874 0 S0 = (S738, true) := runSeg_comp 18 53801 73 0 S0 S737 S738 run737 seg737
theorem run739 : runSeg 18 53947 0 S0 = (S739, true) := runSeg_comp 18 53874 73 0 S0 S738 S739 run738 seg738
theorem run740 : runSeg 18 54020 0 S0 = (S740, true) := runSeg_comp 18 53947 73 0 S0 S739 S740 run739 seg739
theorem run741 : runSeg 18 54093 0 S0 = (S741, true) := runSeg_comp 18 54020 73 0 S0 S740 S741 run740 seg740
theorem run742 : runSeg 18 54166 0 S0 = (S742, true) := runSeg_comp 18 54093 73 0 S0 S741 S742 run741 seg741
theorem run743 : runSeg 18 54239 0 S0 = (S743, true) := runSeg_comp 18 54166 73 0 S0 S742 S743 run742 seg742
theorem run744 : runSeg 18 54312 0 S0 = (S744, true) := runSeg_comp 18 54239 73 0 S0 S743 S744 run743 seg743
theorem run745 : runSeg 18 54385 0 S0 = (S745, true) := runSeg_comp 18 54312 73 0 S0 S744 S745 run744 seg744
theorem run746 : runSeg 18 54458 0 S0 = (S746, true) := runSeg_comp 18 54385 73 0 S0 S745 S746 run745 seg745
theorem run747 : runSeg 18 54531 0 S0 = (S747, true) := runSeg_comp 18 54458 73 0 S0 S746 S747 run746 seg746
theorem run748 : runSeg 18 54604 0 S0 = (S748, true) := runSeg_comp 18 54531 73 0 S0 S747 S748 run747 seg747
theorem run749 : runSeg 18 54677 0 S0 = (S749, true) := runSeg_comp 18 54604 73 0 S0 S748 S749 run748 seg748
theorem run750 : runSeg 18 54750 0 S0 = (S750, true) := runSeg_comp 18 54677 73 0 S0 S749 S750 run749 seg749
theorem run751 : runSeg 18 54823 0 S0 = (S751, true) := runSeg_comp 18 54750 73 0 S0 S750 S751 run750 seg750
theorem run752 : runSeg 18 54896 0 S0 = (S752, true) := runSeg_comp 18 54823 73 0 S0 S751 S752 run751 seg751
theorem run753 : runSeg 18 54969 0 S0 = (S753, true) := runSeg_comp 18 54896 73 0 S0 S752 S753 run752 seg752
theorem run754 : runSeg 18 55042 0 S0 = (S754, true) := runSeg_comp 18 54969 73 0 S0 S753 S754 run753 seg753
theorem run755 : runSeg 18 55115 0 S0 = (S755, true) := runSeg_comp 18 55042 73 0 S0 S754 S755 run754 seg754
theorem run756 : runSeg 18 55188 0 S0 = (S756, true) := runSeg_comp 18 55115 73 0 S0 S755 S756 run755 seg755
theorem run757 : runSeg 18 55261 0 S0 = (S757, true) := runSeg_comp 18 55188 73 0 S0 S756 S757 run756 seg756
theorem run758 : runSeg 18 55334 0 S0 = (S758, true) := runSeg_comp 18 55261 73 0 S0 S757 S758 run757 seg757
theorem run759 : runSeg 18 55407 0 S0 = (S759, true) := runSeg_comp 18 55334 73 0 S0 S758 S759 run758 seg758
theorem run760 : runSeg 18 55480 0 S0 = (S760, true) := runSeg_comp 18 55407 73 0 S0 S759 S760 run759 seg759
theorem run761 : runSeg 18 55553 0 S0 = (S761, true) := runSeg_comp 18 55480 73 0 S0 S760 S761 run760 seg760
theorem run762 : runSeg 18 55626 0 S0 = (S762, true) := runSeg_comp 18 55553 73 0 S0 S761 S762 run761 seg761
theorem run763 : runSeg 18 55699 0 S0 = (S763, true) := runSeg_comp 18 55626 73 0 S0 S762 S763 run762 seg762
theorem run764 : runSeg 18 55772 0 S0 = (S764, true) := runSeg_comp 18 55699 73 0 S0 S763 S764 run763 seg763
theorem run765 : runSeg 18 55845 0 S0 = (S765, true) := runSeg_comp 18 55772 73 0 S0 S764 S765 run764 seg764
theorem run766 : runSeg 18 55918 0 S0 = (S766, true) := runSeg_comp 18 55845 73 0 S0 S765 S766 run765 seg765
theorem run767 : runSeg 18 55991 0 S0 = (S767, true) := runSeg_comp 18 55918 73 0 S0 S766 S767 run766 seg766
theorem run768 : runSeg 18 56064 0 S0 = (S768, true) := runSeg_comp 18 55991 73 0 S0 S767 S768 run767 seg767
theorem run769 : runSeg 18 56137 0 S0 = (S769, true) := runSeg_comp 18 56064 73 0 S0 S768 S769 run768 seg768
theorem run770 : runSeg 18 56210 0 S0 = (S770, true) := runSeg_comp 18 56137 73 0 S0 S769 S770 run769 seg769
theorem run771 : runSeg 18 56283 0 S0 = (S771, true) := runSeg_comp 18 56210 73 0 S0 S770 S771 run770 seg770
theorem run772 : runSeg 18 56356 0 S0 = (S772, true) := runSeg_comp 18 56283 73 0 S0 S771 S772 run771 seg771
theorem run773 : runSeg 18 56429 0 S0 = (S773, true) := runSeg_comp 18 56356 73 0 S0 S772 S773 run772 seg772
theorem run774 : runSeg 18 56502 0 S0 = (S774, true) := runSeg_comp 18 56429 73 0 S0 S773 S774 run773 seg773
theorem run775 : runSeg 18 56575 0 S0 = (S775, true) := runSeg_comp 18 56502 73 0 S0 S774 S775 run774 seg774
theorem run776 : runSeg 18 56648 0 S0 = (S776, true) := runSeg_comp 18 56575 73 0 S0 S775 S776 run775 seg775
theorem run777 : runSeg 18 56721 0 S0 = (S777, true) := runSeg_comp 18 56648 73 0 S0 S776 S777 run776 seg776
theorem run778 : runSeg 18 56794 0 S0 = (S778, true) := runSeg_comp 18 56721 73 0 S0 S777 S778 run777 seg777
theorem run779 : runSeg 18 56867 0 S0 = (S779, true) := runSeg_comp 18 56794 73 0 S0 S778 S779 run778 seg778
theorem run780 : runSeg 18 56940 0 S0 = (S780, true) := runSeg_comp 18 56867 73 0 S0 S779 S780 run779 seg779
theorem run781 : runSeg 18 57013 0 S0 = (S781, true) := runSeg_comp 18 56940 73 0 S0 S780 S781 run780 seg780
theorem run782 : runSeg 18 57086 0 S0 = (S782, true) := runSeg_comp 18 57013 73 0 S0 S781 S782 run781 seg781
theorem run783 : runSeg 18 57159 0 S0 = (S783, true) := runSeg_comp 18 57086 73 0 S0 S782 S783 run782 seg782
theorem run784 : runSeg 18 57232 0 S0 = (S784, true) := runSeg_comp 18 57159 73 0 S0 S783 S784 run783 seg783
theorem run785 : runSeg 18 57305 0 S0 = (S785, true) := runSeg_comp 18 57232 73 0 S0 S784 S785 run784 seg784
theorem run786 : runSeg 18 57378 0 S0 = (S786, true) := runSeg_comp 18 57305 73 0 S0 S785 S786 run785 seg785
theorem run787 : runSeg 18 57451 0 S0 = (S787, true) := runSeg_comp 18 57378 73 0 S0 S786 S787 run786 seg786
theorem run788 : runSeg 18 57524 0 S0 = (S788, true) := runSeg_comp 18 57451 73 0 S0 S787 S788 run787 seg787
theorem run789 : runSeg 18 57597 0 S0 = (S789, true) := runSeg_comp 18 57524 73 0 S0 S788 S789 run788 seg788
theorem run790 : runSeg 18 57670 0 S0 = (S790, true) := runSeg_comp 18 57597 73 0 S0 S789 S790 run789 seg789
theorem run791 : runSeg 18 57743 0 S0 = (S791, true) := runSeg_comp 18 57670 73 0 S0 S790 S791 run790 seg790
theorem run792 : runSeg 18 57816 0 S0 = (S792, true) := runSeg_comp 18 57743 73 0 S0 S791 S792 run791 seg791
theorem run793 : runSeg 18 57889 0 S0 = (S793, true) := runSeg_comp 18 57816 73 0 S0 S792 S793 run792 seg792
theorem run794 : runSeg 18 57962 0 S0 = (S794, true) := runSeg_comp 18 57889 73 0 S0 S793 S794 run793 seg793
theorem run795 : runSeg 18 58035 0 S0 = (S795, true) := runSeg_comp 18 57962 73 0 S0 S794 S795 run794 seg794
theorem run796 : runSeg 18 58108 0 S0 = (S796, true) := runSeg_comp 18 58035 73 0 S0 S795 S796 run795 seg795
theorem run797 : runSeg 18 58181 0 S0 = (S797, true) := runSeg_comp 18 58108 73 0 S0 S796 S797 run796 seg796
theorem run798 : runSeg 18 58254 0 S0 = (S798, true) := runSeg_comp 18 58181 73 0 S0 S797 S798 run797 seg797
theorem run799 : runSeg 18 58327 0 S0 = (S799, true) := runSeg_comp 18 58254 73 0 S0 S798 S799 run798 seg798
theorem run800 : runSeg 18 58400 0 S0 = (S800, true) := runSeg_comp 18 58327 73 0 S0 S799 S800 run799 seg799
theorem run801 : runSeg 18 58473 0 S0 = (S801, true) := runSeg_comp 18 58400 73 0 S0 S800 S801 run800 seg800
theorem run802 : runSeg 18 58546 0 S0 = (S802, true) := runSeg_comp 18 58473 73 0 S0 S801 S802 run801 seg801
theorem run803 : runSeg 18 58619 0 S0 = (S803, true) := runSeg_comp 18 58546 73 0 S0 S802 S803 run802 seg802
theorem run804 : runSeg 18 58692 0 S0 = (S804, true) := runSeg_comp 18 58619 73 0 S0 S803 S804 run803 seg803
theorem run805 : runSeg 18 58765 0 S0 = (S805, true) := runSeg_comp 18 58692 73 0 S0 S804 S805 run804 seg804
theorem run806 : runSeg 18 58838 0 S0 = (S806, true) := runSeg_comp 18 58765 73 0 S0 S805 S806 run805 seg805
theorem run807 : runSeg 18 58911 0 S0 = (S807, true) := runSeg_comp 18 58838 73 0 S0 S806 S807 run806 seg806
theorem run808 : runSeg 18 58984 0 S0 = (S808, true) := runSeg_comp 18 58911 73 0 S0 S807 S808 run807 seg807
theorem run809 : runSeg 18 59057 0 S0 = (S809, true) := runSeg_comp 18 58984 73 0 S0 S808 S809 run808 seg808
theorem run810 : runSeg 18 59130 0 S0 = (S810, true) := runSeg_comp 18 59057 73 0 S0 S809 S810 run809 seg809
theorem run811 : runSeg 18 59203 0 S0 = (S811, true) := runSeg_comp 18 59130 73 0 S0 S810 S811 run810 seg810
theorem run812 : runSeg 18 59276 0 S0 = (S812, true) := runSeg_comp 18 59203 73 0 S0 S811 S812 run811 seg811
theorem run813 : runSeg 18 59349 0 S0 = (S813, true) := runSeg_comp 18 59276 73 0 S0 S812 S813 run812 seg812
theorem run814 : runSeg 18 59422 0 S0 = (S814, true) := runSeg_comp 18 59349 73 0 S0 S813 S814 run813 seg813
theorem run815 : runSeg 18 59495 0 S0 = (S815, true) := runSeg_comp 18 59422 73 0 S0 S814 S815 run814 seg814
theorem run816 : runSeg 18 59568 0 S0 = (S816, true) := runSeg_comp 18 59495 73 0 S0 S815 S816 run815 seg815
theorem run817 : runSeg 18 59641 0 S0 = (S817, true) := runSeg_comp 18 59568 73 0 S0 S816 S817 run816 seg816
theorem run818 : runSeg 18 59714 0 S0 = (S818, true) := runSeg_comp 18 59641 73 0 S0 S817 S818 run817 seg817
theorem run819 : runSeg 18 59787 0 S0 = (S819, true) := runSeg_comp 18 59714 73 0 S0 S818 S819 run818 seg818
theorem run820 : runSeg 18 59860 0 S0 = (S820, true) := runSeg_comp 18 59787 73 0 S0 S819 S820 run819 seg819
theorem run821 : runSeg 18 59933 0 S0 = (S821, true) := runSeg_comp 18 59860 73 0 S0 S820 S821 run820 seg820
theorem run822 : runSeg 18 60006 0 S0 = (S822, true) := runSeg_comp 18 59933 73 0 S0 S821 S822 run821 seg821
theorem run823 : runSeg 18 60079 0 S0 = (S823, true) := runSeg_comp 18 60006 73 0 S0 S822 S823 run822 seg822
theorem run824 : runSeg 18 60152 0 S0 = (S824, true) := runSeg_comp 18 60079 73 0 S0 S823 S824 run823 seg823
theorem run825 : runSeg 18 60225 0 S0 = (S825, true) := runSeg_comp 18 60152 73 0 S0 S824 S825 run824 seg824
theorem run826 : runSeg 18 60298 0 S0 = (S826, true) := runSeg_comp 18 60225 73 0 S0 S825 S826 run825 seg825
theorem run827 : runSeg 18 60371 0 S0 = (S827, true) := runSeg_comp 18 60298 73 0 S0 S826 S827 run826 seg826
theorem run828 : runSeg 18 60444 0 S0 = (S828, true) := runSeg_comp 18 60371 73 0 S0 S827 S828 run827 seg827
theorem run829 : runSeg 18 60517 0 S0 = (S829, true) := runSeg_comp 18 60444 73 0 S0 S828 S829 run828 seg828
theorem run830 : runSeg 18 60590 0 S0 = (S830, true) := runSeg_comp 18 60517 73 0 S0 S829 S830 run829 seg829
theorem run831 : runSeg 18 60663 0 S0 = (S831, true) := runSeg_comp 18 60590 73 0 S0 S830 S831 run830 seg830
theorem run832 : runSeg 18 60736 0 S0 = (S832, true) := runSeg_comp 18 60663 73 0 S0 S831 S832 run831 seg831
theorem run833 : runSeg 18 60809 0 S0 = (S833, true) := runSeg_comp 18 60736 73 0 S0 S832 S833 run832 seg832
theorem run834 : runSeg 18 60882 0 S0 = (S834, true) := runSeg_comp 18 60809 73 0 S0 S833 S834 run833 seg833
theorem run835 : runSeg 18 60955 0 S0 = (S835, true) := runSeg_comp 18 60882 73 0 S0 S834 S835 run834 seg834
theorem run836 : runSeg 18 61028 0 S0 = (S836, true) := runSeg_comp 18 60955 73 0 S0 S835 S836 run835 seg835
theorem run837 : runSeg 18 61101 0 S0 = (S837, true) := runSeg_comp 18 61028 73 0 S0 S836 S837 run836 seg836
theorem run838 : runSeg 18 61174 0 S0 = (S838, true) := runSeg_comp 18 61101 73 0 S0 S837 S838 run837 seg837
theorem run839 : runSeg 18 61247 0 S0 = (S839, true) := runSeg_comp 18 61174 73 0 S0 S838 S839 run838 seg838
theorem run840 : runSeg 18 61320 0 S0 = (S840, true) := runSeg_comp 18 61247 73 0 S0 S839 S840 run839 seg839
theorem run841 : runSeg 18 61393 0 S0 = (S841, true) := runSeg_comp 18 61320 73 0 S0 S840 S841 run840 seg840
theorem run842 : runSeg 18 61466 0 S0 = (S842, true) := runSeg_comp 18 61393 73 0 S0 S841 S842 run841 seg841
theorem run843 : runSeg 18 61539 0 S0 = (S843, true) := runSeg_comp 18 61466 73 0 S0 S842 S843 run842 seg842
theorem run844 : runSeg 18 61612 0 S0 = (S844, true) := runSeg_comp 18 61539 73 0 S0 S843 S844 run843 seg843
theorem run845 : runSeg 18 61685 0 S0 = (S845, true) := runSeg_comp 18 61612 73 0 S0 S844 S845 run844 seg844
theorem run846 : runSeg 18 61758 0 S0 = (S846, true) := runSeg_comp 18 61685 73 0 S0 S845 S846 run845 seg845
theorem run847 : runSeg 18 61831 0 S0 = (S847, true) := runSeg_comp 18 61758 73 0 S0 S846 S847 run846 seg846
theorem run848 : runSeg 18 61904 0 S0 = (S848, true) := runSeg_comp 18 61831 73 0 S0 S847 S848 run847 seg847
theorem run849 : runSeg 18 61977 0 S0 = (S849, true) := runSeg_comp 18 61904 73 0 S0 S848 S849 run848 seg848
theorem run850 : runSeg 18 62050 0 S0 = (S850, true) := runSeg_comp 18 61977 73 0 S0 S849 S850 run849 seg849
theorem run851 : runSeg 18 62123 0 S0 = (S851, true) := runSeg_comp 18 62050 73 0 S0 S850 S851 run850 seg850
theorem run852 : runSeg 18 62196 0 S0 = (S852, true) := runSeg_comp 18 62123 73 0 S0 S851 S852 run851 seg851
theorem run853 : runSeg 18 62269 0 S0 = (S853, true) := runSeg_comp 18 62196 73 0 S0 S852 S853 run852 seg852
theorem run854 : runSeg 18 62342 0 S0 = (S854, true) := runSeg_comp 18 62269 73 0 S0 S853 S854 run853 seg853
theorem run855 : runSeg 18 62415 0 S0 = (S855, true) := runSeg_comp 18 62342 73 0 S0 S854 S855 run854 seg854
theorem run856 : runSeg 18 62488 0 S0 = (S856, true) := runSeg_comp 18 62415 73 0 S0 S855 S856 run855 seg855
theorem run857 : runSeg 18 62561 0 S0 = (S857, true) := runSeg_comp 18 62488 73 0 S0 S856 S857 run856 seg856
theorem run858 : runSeg 18 62634 0 S0 = (S858, true) := runSeg_comp 18 62561 73 0 S0 S857 S858 run857 seg857
theorem run859 : runSeg 18 62707 0 S0 = (S859, true) := runSeg_comp 18 62634 73 0 S0 S858 S859 run858 seg858
theorem run860 : runSeg 18 62780 0 S0 = (S860, true) := runSeg_comp 18 62707 73 0 S0 S859 S860 run859 seg859
theorem run861 : runSeg 18 62853 0 S0 = (S861, true) := runSeg_comp 18 62780 73 0 S0 S860 S861 run860 seg860
theorem run862 : runSeg 18 62926 0 S0 = (S862, true) := runSeg_comp 18 62853 73 0 S0 S861 S862 run861 seg861
theorem run863 : runSeg 18 62999 0 S0 = (S863, true) := runSeg_comp 18 62926 73 0 S0 S862 S863 run862 seg862
theorem run864 : runSeg 18 63072 0 S0 = (S864, true) := runSeg_comp 18 62999 73 0 S0 S863 S864 run863 seg863
theorem run865 : runSeg 18 63145 0 S0 = (S865, true) := runSeg_comp 18 63072 73 0 S0 S864 S865 run864 seg864
theorem run866 : runSeg 18 63218 0 S0 = (S866, true) := runSeg_comp 18 63145 73 0 S0 S865 S866 run865 seg865
theorem run867 : runSeg 18 63291 0 S0 = (S867, true) := runSeg_comp 18 63218 73 0 S0 S866 S867 run866 seg866
theorem run868 : runSeg 18 63364 0 S0 = (S868, true) := runSeg_comp 18 63291 73 0 S0 S867 S868 run867 seg867
theorem run869 : runSeg 18 63437 0 S0 = (S869, true) := runSeg_comp 18 63364 73 0 S0 S868 S869 run868 seg868
theorem run870 : runSeg 18 63510 0 S0 = (S870, true) := runSeg_comp 18 63437 73 0 S0 S869 S870 run869 seg869
theorem run871 : runSeg 18 63583 0 S0 = (S871, true) := runSeg_comp 18 63510 73 0 S0 S870 S871 run870 seg870
theorem run872 : runSeg 18 63656 0 S0 = (S872, true) := runSeg_comp 18 63583 73 0 S0 S871 S872 run871 seg871
theorem run873 : runSeg 18 63729 0 S0 = (S873, true) := runSeg_comp 18 63656 73 0 S0 S872 S873 run872 seg872
theorem run874 : runSeg 18 63802 0 S0 = (S874, true) := runSeg_comp 18 63729 73 0 S0 S873 S874 run873 seg873
theorem run875 : runSeg 18 63875 0 S0 = (S875, true) := runSeg_comp 18 63802 73 0 S0 S874 S875 run874 seg874
theorem run876 : runSeg 18 63948 0 S0 = (S876, true) := runSeg_comp 18 63875 73 0 S0 S875 S876 run875 seg875
theorem run877 : runSeg 18 64021 0 S0 = (S877, true) := runSeg_comp 18 63948 73 0 S0 S876 S877 run876 seg876
theorem run878 : runSeg 18 64094 0 S0 = (S878, true) := runSeg_comp 18 64021 73 0 S0 S877 S878 run877 seg877
theorem run879 : runSeg 18 64167 0 S0 = (S879, true) := runSeg_comp 18 64094 73 0 S0 S878 S879 run878 seg878
theorem run880 : runSeg 18 64240 0 S0 = (S880, true) := runSeg_comp 18 64167 73 0 S0 S879 S880 run879 seg879
theorem run881 : runSeg 18 64313 0 S0 = (S881, true) := runSeg_comp 18 64240 73 0 S0 S880 S881 run880 seg880
theorem run882 : runSeg 18 64386 0 S0 = (S882, true) := runSeg_comp 18 64313 73 0 S0 S881 S882 run881 seg881
theorem run883 : runSeg 18 64459 0 S0 = (S883, true) := runSeg_comp 18 64386 73 0 S0 S882 S883 run882 seg882
theorem run884 : runSeg 18 64532 0 S0 = (S884, true) := runSeg_comp 18 64459 73 0 S0 S883 S884 run883 seg883
theorem run885 : runSeg 18 64605 0 S0 = (S885, true) := runSeg_comp 18 64532 73 0 S0 S884 S885 run884 seg884
theorem run886 : runSeg 18 64678 0 S0 = (S886, true) := runSeg_comp 18 64605 73 0 S0 S885 S886 run885 seg885
theorem run887 : runSeg 18 64751 0 S0 = (S887, true) := runSeg_comp 18 64678 73 0 S0 S886 S887 run886 seg886
theorem run888 : runSeg 18 64824 0 S0 = (S888, true) := runSeg_comp 18 64751 73 0 S0 S887 S888 run887 seg887
theorem run889 : runSeg 18 64897 0 S0 = (S889, true) := runSeg_comp 18 64824 73 0 S0 S888 S889 run888 seg888
theorem run890 : runSeg 18 64970 0 S0 = (S890, true) := runSeg_comp 18 64897 73 0 S0 S889 S890 run889 seg889
theorem run891 : runSeg 18 65043 0 S0 = (S891, true) := runSeg_comp 18 64970 73 0 S0 S890 S891 run890 seg890
theorem run892 : runSeg 18 65116 0 S0 = (S892, true) := runSeg_comp 18 65043 73 0 S0 S891 S892 run891 seg891
theorem run893 : runSeg 18 65189 0 S0 = (S893, true) := runSeg_comp 18 65116 73 0 S0 S892 S893 run892 seg892
theorem run894 : runSeg 18 65262 0 S0 = (S894, true) := runSeg_comp 18 65189 73 0 S0 S893 S894 run893 seg893
theorem run895 : runSeg 18 65335 0 S0 = (S895, true) := runSeg_comp 18 65262 73 0 S0 S894 S895 run894 seg894
theorem run896 : runSeg 18 65408 0 S0 = (S896, true) := runSeg_comp 18 65335 73 0 S0 S895 S896 run895 seg895
theorem run897 : runSeg 18 65481 0 S0 = (S897, true) := runSeg_comp 18 65408 73 0 S0 S896 S897 run896 seg896
theorem run898 : runSeg 18 65554 0 S0 = (S898, true) := runSeg_comp 18 65481 73 0 S0 S897 S898 run897 seg897
theorem run899 : runSeg 18 65627 0 S0 = (S899, true) := runSeg_comp 18 65554 73 0 S0 S898 S899 run898 seg898
theorem run900 : runSeg 18 65700 0 S0 = (S900, true) := runSeg_comp 18 65627 73 0 S0 S899 S900 run899 seg899
theorem run901 : runSeg 18 65773 0 S0 = (S901, true) := runSeg_comp 18 65700 73 0 S0 S900 S901 run900 seg900
theorem run902 : runSeg 18 65846 0 S0 = (S902, true) := runSeg_comp 18 65773 73 0 S0 S901 S902 run901 seg901
theorem run903 : runSeg 18 65919 0 S0 = (S903, true) := runSeg_comp 18 65846 73 0 S0 S902 S903 run902 seg902
theorem run904 : runSeg 18 65992 0 S0 = (S904, true) := runSeg_comp 18 65919 73 0 S0 S903 S904 run903 seg903
theorem run905 : runSeg 18 66065 0 S0 = (S905, true) := runSeg_comp 18 65992 73 0 S0 S904 S905 run904 seg904
theorem run906 : runSeg 18 66138 0 S0 = (S906, true) := runSeg_comp 18 66065 73 0 S0 S905 S906 run905 seg905
theorem run907 : runSeg 18 66211 0 S0 = (S907, true) := runSeg_comp 18 66138 73 0 S0 S906 S907 run906 seg906
theorem run908 : runSeg 18 66284 0 S0 = (S908, true) := runSeg_comp 18 66211 73 0 S0 S907 S908 run907 seg907
theorem run909 : runSeg 18 66357 0 S0 = (S909, true) := runSeg_comp 18 66284 73 0 S0 S908 S909 run908 seg908
theorem run910 : runSeg 18 66430 0 S0 = (S910, true) := runSeg_comp 18 66357 73 0 S0 S909 S910 run909 seg909
theorem run911 : runSeg 18 66503 0 S0 = (S911, true) := runSeg_comp 18 66430 73 0 S0 S910 S911 run910 seg910
theorem run912 : runSeg 18 66576 0 S0 = (S912, true) := runSeg_comp 18 66503 73 0 S0 S911 S912 run911 seg911
theorem run913 : runSeg 18 66649 0 S0 = (S913, true) := runSeg_comp 18 66576 73 0 S0 S912 S913 run912 seg912
theorem run914 : runSeg 18 66722 0 S0 = (S914, true) := runSeg_comp 18 66649 73 0 S0 S913 S914 run913 seg913
theorem run915 : runSeg 18 66795 0 S0 = (S915, true) := runSeg_comp 18 66722 73 0 S0 S914 S915 run914 seg914
theorem run916 : runSeg 18 66868 0 S0 = (S916, true) := runSeg_comp 18 66795 73 0 S0 S915 S916 run915 seg915
theorem run917 : runSeg 18 66941 0 S0 = (S917, true) := runSeg_comp 18 66868 73 0 S0 S916 S917 run916 seg916
theorem run918 : runSeg 18 67014 0 S0 = (S918, true) := runSeg_comp 18 66941 73 0 S0 S917 S918 run917 seg917
theorem run919 : runSeg 18 67087 0 S0 = (S919, true) := runSeg_comp 18 67014 73 0 S0 S918 S919 run918 seg918
theorem run920 : runSeg 18 67160 0 S0 = (S920, true) := runSeg_comp 18 67087 73 0 S0 S919 S920 run919 seg919
theorem run921 : runSeg 18 67233 0 S0 = (S921, true) := runSeg_comp 18 67160 73 0 S0 S920 S921 run920 seg920
theorem run922 : runSeg 18 67306 0 S0 = (S922, true) := runSeg_comp 18 67233 73 0 S0 S921 S922 run921 seg921
theorem run923 : runSeg 18 67379 0 S0 = (S923, true) := runSeg_comp 18 67306 73 0 S0 S922 S923 run922 seg922
theorem run924 : runSeg 18 67452 0 S0 = (S924, true) := runSeg_comp 18 67379 73 0 S0 S923 S924 run923 seg923
theorem run925 : runSeg 18 67525 0 S0 = (S925, true) := runSeg_comp 18 67452 73 0 S0 S924 S925 run924 seg924
theorem run926 : runSeg 18 67598 0 S0 = (S926, true) := runSeg_comp 18 67525 73 0 S0 S925 S926 run925 seg925
theorem run927 : runSeg 18 67671 0 S0 = (S927, true) := runSeg_comp 18 67598 73 0 S0 S926 S927 run926 seg926
theorem run928 : runSeg 18 67744 0 S0 = (S928, true) := runSeg_comp 18 67671 73 0 S0 S927 S928 run927 seg927
theorem run929 : runSeg 18 67817 0 S0 = (S929, true) := runSeg_comp 18 67744 73 0 S0 S928 S929 run928 seg928
theorem run930 : runSeg 18 67890 0 S0 = (S930, true) := runSeg_comp 18 67817 73 0 S0 S929 S930 run929 seg929
theorem run931 : runSeg 18 67963 0 S0 = (S931, true) := runSeg_comp 18 67890 73 0 S0 S930 S931 run930 seg930
theorem run932 : runSeg 18 68036 0 S0 = (S932, true) := runSeg_comp 18 67963 73 0 S0 S931 S932 run931 seg931
theorem run933 : runSeg 18 68109 0 S0 = (S933, true) := runSeg_comp 18 68036 73 0 S0 S932 S933 run932 seg932
theorem run934 : runSeg 18 68182 0 S0 = (S934, true) := runSeg_comp 18 68109 73 0 S0 S933 S934 run933 seg933
theorem run935 : runSeg 18 68255 0 S0 = (S935, true) := runSeg_comp 18 68182 73 0 S0 S934 S935 run934 seg934
theorem run936 : runSeg 18 68328 0 S0 = (S936, true) := runSeg_comp 18 68255 73 0 S0 S935 S936 run935 seg935
theorem run937 : runSeg 18 68401 0 S0 = (S937, true) := runSeg_comp 18 68328 73 0 S0 S936 S937 run936 seg936
theorem run938 : runSeg 18 68474 0 S0 = (S938, true) := runSeg_comp 18 68401 73 0 S0 S937 S938 run937 seg937
theorem run939 : runSeg 18 68547 0 S0 = (S939, true) := runSeg_comp 18 68474 73 0 S0 S938 S939 run938 seg938
theorem run940 : runSeg 18 68620 0 S0 = (S940, true) := runSeg_comp 18 68547 73 0 S0 S939 S940 run939 seg939
theorem run941 : runSeg 18 68693 0 S0 = (S941, true) := runSeg_comp 18 68620 73 0 S0 S940 S941 run940 seg940
theorem run942 : runSeg 18 68766 0 S0 = (S942, true) := runSeg_comp 18 68693 73 0 S0 S941 S942 run941 seg941
theorem run943 : runSeg 18 68839 0 S0 = (S943, true) := runSeg_comp 18 68766 73 0 S0 S942 S943 run942 seg942
theorem run944 : runSeg 18 68912 0 S0 = (S944, true) := runSeg_comp 18 68839 73 0 S0 S943 S944 run943 seg943
theorem run945 : runSeg 18 68985 0 S0 = (S945, true) := runSeg_comp 18 68912 73 0 S0 S944 S945 run944 seg944
theorem run946 : runSeg 18 69058 0 S0 = (S946, true) := runSeg_comp 18 68985 73 0 S0 S945 S946 run945 seg945
theorem run947 : runSeg 18 69131 0 S0 = (S947, true) := runSeg_comp 18 69058 73 0 S0 S946 S947 run946 seg946
theorem run948 : runSeg 18 69204 0 S0 = (S948, true) := runSeg_comp 18 69131 73 0 S0 S947 S948 run947 seg947
theorem run949 : runSeg 18 69277 0 S0 = (S949, true) := runSeg_comp 18 69204 73 0 S0 S948 S949 run948 seg948
theorem run950 : runSeg 18 69350 0 S0 = (S950, true) := runSeg_comp 18 69277 73 0 S0 S949 S950 run949 seg949
theorem run951 : runSeg 18 69423 0 S0 = (S951, true) := runSeg_comp 18 69350 73 0 S0 S950 S951 run950 seg950
theorem run952 : runSeg 18 69496 0 S0 = (S952, true) := runSeg_comp 18 69423 73 0 S0 S951 S952 run951 seg951
theorem run953 : runSeg 18 69569 0 S0 = (S953, true) := runSeg_comp 18 69496 73 0 S0 S952 S953 run952 seg952
theorem run954 : runSeg 18 69642 0 S0 = (S954, true) := runSeg_comp 18 69569 73 0 S0 S953 S954 run953 seg953
theorem run955 : runSeg 18 69715 0 S0 = (S955, true) := runSeg_comp 18 69642 73 0 S0 S954 S955 run954 seg954
theorem run956 : runSeg 18 69788 0 S0 = (S956, true) := runSeg_comp 18 69715 73 0 S0 S955 S956 run955 seg955
theorem run957 : runSeg 18 69861 0 S0 = (S957, true) := runSeg_comp 18 69788 73 0 S0 S956 S957 run956 seg956
theorem run958 : runSeg 18 69934 0 S0 = (S958, true) := runSeg_comp 18 69861 73 0 S0 S957 S958 run957 seg957
theorem run959 : runSeg 18 70007 0 S0 = (S959, true) := runSeg_comp 18 69934 73 0 S0 S958 S959 run958 seg958
theorem run960 : runSeg 18 70080 0 S0 = (S960, true) := runSeg_comp 18 70007 73 0 S0 S959 S960 run959 seg959
theorem run961 : runSeg 18 70153 0 S0 = (S961, true) := runSeg_comp 18 70080 73 0 S0 S960 S961 run960 seg960
theorem run962 : runSeg 18 70226 0 S0 = (S962, true) := runSeg_comp 18 70153 73 0 S0 S961 S962 run961 seg961
theorem run963 : runSeg 18 70299 0 S0 = (S963, true) := runSeg_comp 18 70226 73 0 S0 S962 S963 run962 seg962
theorem run964 : runSeg 18 70372 0 S0 = (S964, true) := runSeg_comp 18 70299 73 0 S0 S963 S964 run963 seg963
theorem run965 : runSeg 18 70445 0 S0 = (S965, true) := runSeg_comp 18 70372 73 0 S0 S964 S965 run964 seg964
theorem run966 : runSeg 18 70518 0 S0 = (S966, true) := runSeg_comp 18 70445 73 0 S0 S965 S966 run965 seg965
theorem run967 : runSeg 18 70591 0 S0 = (S967, true) := runSeg_comp 18 70518 73 0 S0 S966 S967 run966 seg966
theorem run968 : runSeg 18 70664 0 S0 = (S968, true) := runSeg_comp 18 70591 73 0 S0 S967 S968 run967 seg967
theorem run969 : runSeg 18 70737 0 S0 = (S969, true) := runSeg_comp 18 70664 73 0 S0 S968 S969 run968 seg968
theorem run970 : runSeg 18 70810 0 S0 = (S970, true) := runSeg_comp 18 70737 73 0 S0 S969 S970 run969 seg969
theorem run971 : runSeg 18 70883 0 S0 = (S971, true) := runSeg_comp 18 70810 73 0 S0 S970 S971 run970 seg970
theorem run972 : runSeg 18 70956 0 S0 = (S972, true) := runSeg_comp 18 70883 73 0 S0 S971 S972 run971 seg971
theorem run973 : runSeg 18 71029 0 S0 = (S973, true) := runSeg_comp 18 70956 73 0 S0 S972 S973 run972 seg972
theorem run974 : runSeg 18 71102 0 S0 = (S974, true) := runSeg_comp 18 71029 73 0 S0 S973 S974 run973 seg973
theorem run975 : runSeg 18 71175 0 S0 = (S975, true) := runSeg_comp 18 71102 73 0 S0 S974 S975 run974 seg974
theorem run976 : runSeg 18 71248 0 S0 = (S976, true) := runSeg_comp 18 71175 73 0 S0 S975 S976 run975 seg975
theorem run977 : runSeg 18 71321 0 S0 = (S977, true) := runSeg_comp 18 71248 73 0 S0 S976 S977 run976 seg976
theorem run978 : runSeg 18 71394 0 S0 = (S978, true) := runSeg_comp 18 71321 73 0 S0 S977 S978 run977 seg977
theorem run979 : runSeg 18 71467 0 S0 = (S979, true) := runSeg_comp 18 71394 73 0 S0 S978 S979 run978 seg978
theorem run980 : runSeg 18 71540 0 S0 = (S980, true) := runSeg_comp 18 71467 73 0 S0 S979 S980 run979 seg979
theorem run981 : runSeg 18 71613 0 S0 = (S981, true) := runSeg_comp 18 71540 73 0 S0 S980 S981 run980 seg980
theorem run982 : runSeg 18 71686 0 S0 = (S982, true) := runSeg_comp 18 71613 73 0 S0 S981 S982 run981 seg981
theorem run983 : runSeg 18 71759 0 S0 = (S983, true) := runSeg_comp 18 71686 73 0 S0 S982 S983 run982 seg982
theorem run984 : runSeg 18 71832 0 S0 = (S984, true) := runSeg_comp 18 71759 73 0 S0 S983 S984 run983 seg983
theorem run985 : runSeg 18 71905 0 S0 = (S985, true) := runSeg_comp 18 71832 73 0 S0 S984 S985 run984 seg984
theorem run986 : runSeg 18 71978 0 S0 = (S986, true) := runSeg_comp 18 71905 73 0 S0 S985 S986 run985 seg985
theorem run987 : runSeg 18 72051 0 S0 = (S987, true) := runSeg_comp 18 71978 73 0 S0 S986 S987 run986 seg986
theorem run988 : runSeg 18 72124 0 S0 = (S988, true) := runSeg_comp 18 72051 73 0 S0 S987 S988 run987 seg987
theorem run989 : runSeg 18 72197 0 S0 = (S989, true) := runSeg_comp 18 72124 73 0 S0 S988 S989 run988 seg988
theorem run990 : runSeg 18 72270 0 S0 = (S990, true) := runSeg_comp 18 72197 73 0 S0 S989 S990 run989 seg989
theorem run991 : runSeg 18 72343 0 S0 = (S991, true) := runSeg_comp 18 72270 73 0 S0 S990 S991 run990 seg990
theorem run992 : runSeg 18 72416 0 S0 = (S992, true) := runSeg_comp 18 72343 73 0 S0 S991 S992 run991 seg991
theorem run993 : runSeg 18 72489 0 S0 = (S993, true) := runSeg_comp 18 72416 73 0 S0 S992 S993 run992 seg992
theorem run994 : runSeg 18 72562 0 S0 = (S994, true) := runSeg_comp 18 72489 73 0 S0 S993 S994 run993 seg993
theorem run995 : runSeg 18 72635 0 S0 = (S995, true) := runSeg_comp 18 72562 73 0 S0 S994 S995 run994 seg994
theorem run996 : runSeg 18 72708 0 S0 = (S996, true) := runSeg_comp 18 72635 73 0 S0 S995 S996 run995 seg995
theorem run997 : runSeg 18 72781 0 S0 = (S997, true) := runSeg_comp 18 72708 73 0 S0 S996 S997 run996 seg996
theorem run998 : runSeg 18 72854 0 S0 = (S998, true) := runSeg_comp 18 72781 73 0 S0 S997 S998 run997 seg997
theorem run999 : runSeg 18 72927 0 S0 = (S999, true) := runSeg_comp 18 72854 73 0 S0 S998 S999 run998 seg998
theorem run1000 : runSeg 18 73000 0 S0 = (S1000, true) := runSeg_comp 18 72927 73 0 S0 S999 S1000 run999 seg999
theorem run1001 : runSeg 18 73073 0 S0 = (S1001, true) := runSeg_comp 18 73000 73 0 S0 S1000 S1001 run1000 seg1000
theorem run1002 : runSeg 18 73146 0 S0 = (S1002, true) := runSeg_comp 18 73073 73 0 S0 S1001 S1002 run1001 seg1001
theorem run1003 : runSeg 18 73219 0 S0 = (S1003, true) := runSeg_comp 18 73146 73 0 S0 S1002 S1003 run1002 seg1002
theorem run1004 : runSeg 18 73292 0 S0 = (S1004, true) := runSeg_comp 18 73219 73 0 S0 S1003 S1004 run1003 seg1003
theorem run1005 : runSeg 18 73365 0 S0 = (S1005, true) := runSeg_comp 18 73292 73 0 S0 S1004 S1005 run1004 seg1004
theorem run1006 : runSeg 18 73438 0 S0 = (S1006, true) := runSeg_comp 18 73365 73 0 S0 S1005 S1006 run1005 seg1005
theorem run1007 : runSeg 18 73511 0 S0 = (S1007, true) := runSeg_comp 18 73438 73 0 S0 S1006 S1007 run1006 seg1006
theorem run1008 : runSeg 18 73584 0 S0 = (S1008, true) := runSeg_comp 18 73511 73 0 S0 S1007 S1008 run1007 seg1007
theorem run1009 : runSeg 18 73657 0 S0 = (S1009, true) := runSeg_comp 18 73584 73 0 S0 S1008 S1009 run1008 seg1008
theorem run1010 : runSeg 18 73730 0 S0 = (S1010, true) := runSeg_comp 18 73657 73 0 S0 S1009 S1010 run1009 seg1009
theorem run1011 : runSeg 18 73803 0 S0 = (S1011, true) := runSeg_comp 18 73730 73 0 S0 S1010 S1011 run1010 seg1010
theorem run1012 : runSeg 18 73876 0 S0 = (S1012, true) := runSeg_comp 18 73803 73 0 S0 S1011 S1012 run1011 seg1011
theorem run1013 : runSeg 18 73949 0 S0 = (S1013, true) := runSeg_comp 18 73876 73 0 S0 S1012 S1013 run1012 seg1012
theorem run1014 : runSeg 18 74022 0 S0 = (S1014, true) := runSeg_comp 18 73949 73 0 S0 S1013 S1014 run1013 seg1013
theorem run1015 : runSeg 18 74095 0 S0 = (S1015, true) := runSeg_comp 18 74022 73 0 S0 S1014 S1015 run1014 seg1014
theorem run1016 : runSeg 18 74168 0 S0 = (S1016, true) := runSeg_comp 18 74095 73 0 S0 S1015 S1016 run1015 seg1015
theorem run1017 : runSeg 18 74241 0 S0 = (S1017, true) := runSeg_comp 18 74168 73 0 S0 S1016 S1017 run1016 seg1016
theorem run1018 : runSeg 18 74314 0 S0 = (S1018, true) := runSeg_comp 18 74241 73 0 S0 S1017 S1018 run1017 seg1017
theorem run1019 : runSeg 18 74387 0 S0 = (S1019, true) := runSeg_comp 18 74314 73 0 S0 S1018 S1019 run1018 seg1018
theorem run1020 : runSeg 18 74460 0 S0 = (S1020, true) := runSeg_comp 18 74387 73 0 S0 S1019 S1020 run1019 seg1019
theorem run1021 : runSeg 18 74533 0 S0 = (S1021, true) := runSeg_comp 18 74460 73 0 S0 S1020 S1021 run1020 seg1020
theorem run1022 : runSeg 18 74606 0 S0 = (S1022, true) := runSeg_comp 18 74533 73 0 S0 S1021 S1022 run1021 seg1021
theorem run1023 : runSeg 18 74679 0 S0 = (S1023, true) := runSeg_comp 18 74606 73 0 S0 S1022 S1023 run1022 seg1022
theorem run1024 : runSeg 18 74752 0 S0 = (S1024, true) := runSeg_comp 18 74679 73 0 S0 S1023 S1024 run1023 seg1023
theorem run1025 : runSeg 18 74825 0 S0 = (S1025, true) := runSeg_comp 18 74752 73 0 S0 S1024 S1025 run1024 seg1024
theorem run1026 : runSeg 18 74898 0 S0 = (S1026, true) := runSeg_comp 18 74825 73 0 S0 S1025 S1026 run1025 seg1025
theorem run1027 : runSeg 18 74971 0 S0 = (S1027, true) := runSeg_comp 18 74898 73 0 S0 S1026 S1027 run1026 seg1026
theorem run1028 : runSeg 18 75044 0 S0 = (S1028, true) := runSeg_comp 18 74971 73 0 S0 S1027 S1028 run1027 seg1027
theorem run1029 : runSeg 18 75117 0 S0 = (S1029, true) := runSeg_comp 18 75044 73 0 S0 S1028 S1029 run1028 seg1028
theorem run1030 : runSeg 18 75190 0 S0 = (S1030, true) := runSeg_comp 18 75117 73 0 S0 S1029 S1030 run1029 seg1029
theorem run1031 : runSeg 18 75263 0 S0 = (S1031, true) := runSeg_comp 18 75190 73 0 S0 S1030 S1031 run1030 seg1030
theorem run1032 : runSeg 18 75336 0 S0 = (S1032, true) := runSeg_comp 18 75263 73 0 S0 S1031 S1032 run1031 seg1031
theorem run1033 : runSeg 18 75409 0 S0 = (S1033, true) := runSeg_comp 18 75336 73 0 S0 S1032 S1033 run1032 seg1032
theorem run1034 : runSeg 18 75482 0 S0 = (S1034, true) := runSeg_comp 18 75409 73 0 S0 S1033 S1034 run1033 seg1033
theorem run1035 : runSeg 18 75555 0 S0 = (S1035, true) := runSeg_comp 18 75482 73 0 S0 S1034 S1035 run1034 seg1034
theorem run1036 : runSeg 18 75628 0 S0 = (S1036, true) := runSeg_comp 18 75555 73 0 S0 S1035 S1036 run1035 seg1035
theorem run1037 : runSeg 18 75701 0 S0 = (S1037, true) := runSeg_comp 18 75628 73 0 S0 S1036 S1037 run1036 seg1036
theorem run1038 : runSeg 18 75774 0 S0 = (S1038, true) := runSeg_comp 18 75701 73 0 S0 S1037 S1038 run1037 seg1037
theorem run1039 : runSeg 18 75847 0 S0 = (S1039, true) := runSeg_comp 18 75774 73 0 S0 S1038 S1039 run1038 seg1038
theorem run1040 : runSeg 18 75920 0 S0 = (S1040, true) := runSeg_comp 18 75847 73 0 S0 S1039 S1040 run1039 seg1039
theorem run1041 : runSeg 18 75993 0 S0 = (S1041, true) := runSeg_comp 18 75920 73 0 S0 S1040 S1041 run1040 seg1040
theorem run1042 : runSeg 18 76066 0 S0 = (S1042, true) := runSeg_comp 18 75993 73 0 S0 S1041 S1042 run1041 seg1041
theorem run1043 : runSeg 18 76139 0 S0 = (S1043, true) := runSeg_comp 18 76066 73 0 S0 S1042 S1043 run1042 seg1042
theorem run1044 : runSeg 18 76212 0 S0 = (S1044, true) := runSeg_comp 18 76139 73 0 S0 S1043 S1044 run1043 seg1043
theorem run1045 : runSeg 18 76285 0 S0 = (S1045, true) := runSeg_comp 18 76212 73 0 S0 S1044 S1045 run1044 seg1044
theorem run1046 : runSeg 18 76358 0 S0 = (S1046, true) := runSeg_comp 18 76285 73 0 S0 S1045 S1046 run1045 seg1045
theorem run1047 : runSeg 18 76431 0 S0 = (S1047, true) := runSeg_comp 18 76358 73 0 S0 S1046 S1047 run1046 seg1046
theorem run1048 : runSeg 18 76504 0 S0 = (S1048, true) := runSeg_comp 18 76431 73 0 S0 S1047 S1048 run1047 seg1047
theorem run1049 : runSeg 18 76577 0 S0 = (S1049, true) := runSeg_comp 18 76504 73 0 S0 S1048 S1049 run1048 seg1048
theorem run1050 : runSeg 18 76650 0 S0 = (S1050, true) := runSeg_comp 18 76577 73 0 S0 S1049 S1050 run1049 seg1049
theorem run1051 : runSeg 18 76723 0 S0 = (S1051, true) := runSeg_comp 18 76650 73 0 S0 S1050 S1051 run1050 seg1050
theorem run1052 : runSeg 18 76796 0 S0 = (S1052, true) := runSeg_comp 18 76723 73 0 S0 S1051 S1052 run1051 seg1051
theorem run1053 : runSeg 18 76869 0 S0 = (S1053, true) := runSeg_comp 18 76796 73 0 S0 S1052 S1053 run1052 seg1052
theorem run1054 : runSeg 18 76942 0 S0 = (S1054, true) := runSeg_comp 18 76869 73 0 S0 S1053 S1054 run1053 seg1053
theorem run1055 : runSeg 18 77015 0 S0 = (S1055, true) := runSeg_comp 18 76942 73 0 S0 S1054 S1055 run1054 seg1054
theorem run1056 : runSeg 18 77088 0 S0 = (S1056, true) := runSeg_comp 18 77015 73 0 S0 S1055 S1056 run1055 seg1055
theorem run1057 : runSeg 18 77161 0 S0 = (S1057, true) := runSeg_comp 18 77088 73 0 S0 S1056 S1057 run1056 seg1056
theorem run1058 : runSeg 18 77234 0 S0 = (S1058, true) := runSeg_comp 18 77161 73 0 S0 S1057 S1058 run1057 seg1057
theorem run1059 : runSeg 18 77307 0 S0 = (S1059, true) := runSeg_comp 18 77234 73 0 S0 S1058 S1059 run1058 seg1058
theorem run1060 : runSeg 18 77380 0 S0 = (S1060, true) := runSeg_comp 18 77307 73 0 S0 S1059 S1060 run1059 seg1059
theorem run1061 : runSeg 18 77453 0 S0 = (S1061, true) := runSeg_comp 18 77380 73 0 S0 S1060 S1061 run1060 seg1060
theorem run1062 : runSeg 18 77526 0 S0 = (S1062, true) := runSeg_comp 18 77453 73 0 S0 S1061 S1062 run1061 seg1061
theorem run1063 : runSeg 18 77599 0 S0 = (S1063, true) := runSeg_comp 18 77526 73 0 S0 S1062 S1063 run1062 seg1062
theorem run1064 : runSeg 18 77672 0 S0 = (S1064, true) := runSeg_comp 18 77599 73 0 S0 S1063 S1064 run1063 seg1063
theorem run1065 : runSeg 18 77745 0 S0 = (S1065, true) := runSeg_comp 18 77672 73 0 S0 S1064 S1065 run1064 seg1064
theorem run1066 : runSeg 18 77818 0 S0 = (S1066, true) := runSeg_comp 18 77745 73 0 S0 S1065 S1066 run1065 seg1065
theorem run1067 : runSeg 18 77891 0 S0 = (S1067, true) := runSeg_comp 18 77818 73 0 S0 S1066 S1067 run1066 seg1066
theorem run1068 : runSeg 18 77964 0 S0 = (S1068, true) := runSeg_comp 18 77891 73 0 S0 S1067 S1068 run1067 seg1067
theorem run1069 : runSeg 18 78037 0 S0 = (S1069, true) := runSeg_comp 18 77964 73 0 S0 S1068 S1069 run1068 seg1068
theorem run1070 : runSeg 18 78110 0 S0 = (S1070, true) := runSeg_comp 18 78037 73 0 S0 S1069 S1070 run1069 seg1069
theorem run1071 : runSeg 18 78183 0 S0 = (S1071, true) := runSeg_comp 18 78110 73 0 S0 S1070 S1071 run1070 seg1070
theorem run1072 : runSeg 18 78256 0 S0 = (S1072, true) := runSeg_comp 18 78183 73 0 S0 S1071 S1072 run1071 seg1071
theorem run1073 : runSeg 18 78329 0 S0 = (S1073, true) := runSeg_comp 18 78256 73 0 S0 S1072 S1073 run1072 seg1072
theorem run1074 : runSeg 18 78402 0 S0 = (S1074, true) := runSeg_comp 18 78329 73 0 S0 S1073 S1074 run1073 seg1073
theorem run1075 : runSeg 18 78475 0 S0 = (S1075, true) := runSeg_comp 18 78402 73 0 S0 S1074 S1075 run1074 seg1074
theorem run1076 : runSeg 18 78548 0 S0 = (S1076, true) := runSeg_comp 18 78475 73 0 S0 S1075 S1076 run1075 seg1075
theorem run1077 : runSeg 18 78621 0 S0 = (S1077, true) := runSeg_comp 18 78548 73 0 S0 S1076 S1077 run1076 seg1076
theorem run1078 : runSeg 18 78694 0 S0 = (S1078, true) := runSeg_comp 18 78621 73 0 S0 S1077 S1078 run1077 seg1077
theorem run1079 : runSeg 18 78767 0 S0 = (S1079, true) := runSeg_comp 18 78694 73 0 S0 S1078 S1079 run1078 seg1078
theorem run1080 : runSeg 18 78840 0 S0 = (S1080, true) := runSeg_comp 18 78767 73 0 S0 S1079 S1080 run1079 seg1079
theorem run1081 : runSeg 18 78913 0 S0 = (S1081, true) := runSeg_comp 18 78840 73 0 S0 S1080 S1081 run1080 seg1080
theorem run1082 : runSeg 18 78986 0 S0 = (S1082, true) := runSeg_comp 18 78913 73 0 S0 S1081 S1082 run1081 seg1081
theorem run1083 : runSeg 18 79059 0 S0 = (S1083, true) := runSeg_comp 18 78986 73 0 S0 S1082 S1083 run1082 seg1082
theorem run1084 : runSeg 18 79132 0 S0 = (S1084, true) := runSeg_comp 18 79059 73 0 S0 S1083 S1084 run1083 seg1083
theorem run1085 : runSeg 18 79205 0 S0 = (S1085, true) := runSeg_comp 18 79132 73 0 S0 S1084 S1085 run1084 seg1084
theorem run1086 : runSeg 18 79278 0 S0 = (S1086, true) := runSeg_comp 18 79205 73 0 S0 S1085 S1086 run1085 seg1085
theorem run1087 : runSeg 18 79351 0 S0 = (S1087, true) := runSeg_comp 18 79278 73 0 S0 S1086 S1087 run1086 seg1086
theorem run1088 : runSeg 18 79424 0 S0 = (S1088, true) := runSeg_comp 18 79351 73 0 S0 S1087 S1088 run1087 seg1087
theorem run1089 : runSeg 18 79497 0 S0 = (S1089, true) := runSeg_comp 18 79424 73 0 S0 S1088 S1089 run1088 seg1088
theorem run1090 : runSeg 18 79570 0 S0 = (S1090, true) := runSeg_comp 18 79497 73 0 S0 S1089 S1090 run1089 seg1089
theorem run1091 : runSeg 18 79643 0 S0 = (S1091, true) := runSeg_comp 18 79570 73 0 S0 S1090 S1091 run1090 seg1090
theorem run1092 : runSeg 18 79716 0 S0 = (S1092, true) := runSeg_comp 18 79643 73 0 S0 S1091 S1092 run1091 seg1091
theorem run1093 : runSeg 18 79789 0 S0 = (S1093, true) := runSeg_comp 18 79716 73 0 S0 S1092 S1093 run1092 seg1092
theorem run1094 : runSeg 18 79862 0 S0 = (S1094, true) := runSeg_comp 18 79789 73 0 S0 S1093 S1094 run1093 seg1093
theorem run1095 : runSeg 18 79935 0 S0 = (S1095, true) := runSeg_comp 18 79862 73 0 S0 S1094 S1095 run1094 seg1094
theorem run1096 : runSeg 18 80008 0 S0 = (S1096, true) := runSeg_comp 18 79935 73 0 S0 S1095 S1096 run1095 seg1095
theorem run1097 : runSeg 18 80081 0 S0 = (S1097, true) := runSeg_comp 18 80008 73 0 S0 S1096 S1097 run1096 seg1096
theorem run1098 : runSeg 18 80154 0 S0 = (S1098, true) := runSeg_comp 18 80081 73 0 S0 S1097 S1098 run1097 seg1097
theorem run1099 : runSeg 18 80227 0 S0 = (S1099, true) := runSeg_comp 18 80154 73 0 S0 S1098 S1099 run1098 seg1098
theorem run1100 : runSeg 18 80300 0 S0 = (S1100, true) := runSeg_comp 18 80227 73 0 S0 S1099 S1100 run1099 seg1099
theorem run1101 : runSeg 18 80373 0 S0 = (S1101, true) := runSeg_comp 18 80300 73 0 S0 S1100 S1101 run1100 seg1100
theorem run1102 : runSeg 18 80446 0 S0 = (S1102, true) := runSeg_comp 18 80373 73 0 S0 S1101 S1102 run1101 seg1101
theorem run1103 : runSeg 18 80519 0 S0 = (S1103, true) := runSeg_comp 18 80446 73 0 S0 S1102 S1103 run1102 seg1102
theorem run1104 : runSeg 18 80592 0 S0 = (S1104, true) := runSeg_comp 18 80519 73 0 S0 S1103 S1104 run1103 seg1103
theorem run1105 : runSeg 18 80665 0 S0 = (S1105, true) := runSeg_comp 18 80592 73 0 S0 S1104 S1105 run1104 seg1104
theorem run1106 : runSeg 18 80738 0 S0 = (S1106, true) := runSeg_comp 18 80665 73 0 S0 S1105 S1106 run1105 seg1105
theorem run1107 : runSeg 18 80811 0 S0 = (S1107, true) := runSeg_comp 18 80738 73 0 S0 S1106 S1107 run1106 seg1106
theorem run1108 : runSeg 18 80884 0 S0 = (S1108, true) := runSeg_comp 18 80811 73 0 S0 S1107 S1108 run1107 seg1107
theorem run1109 : runSeg 18 80957 0 S0 = (S1109, true) := runSeg_comp 18 80884 73 0 S0 S1108 S1109 run1108 seg1108
theorem run1110 : runSeg 18 81030 0 S0 = (S1110, true) := runSeg_comp 18 80957 73 0 S0 S1109 S1110 run1109 seg1109
theorem run1111 : runSeg 18 81103 0 S0 = (S1111, true) := runSeg_comp 18 81030 73 0 S0 S1110 S1111 run1110 seg1110
theorem run1112 : runSeg 18 81176 0 S0 = (S1112, true) := runSeg_comp 18 81103 73 0 S0 S1111 S1112 run1111 seg1111
theorem run1113 : runSeg 18 81249 0 S0 = (S1113, true) := runSeg_comp 18 81176 73 0 S0 S1112 S1113 run1112 seg1112
theorem run1114 : runSeg 18 81322 0 S0 = (S1114, true) := runSeg_comp 18 81249 73 0 S0 S1113 S1114 run1113 seg1113
theorem run1115 : runSeg 18 81395 0 S0 = (S1115, true) := runSeg_comp 18 81322 73 0 S0 S1114 S1115 run1114 seg1114
theorem run1116 : runSeg 18 81468 0 S0 = (S1116, true) := runSeg_comp 18 81395 73 0 S0 S1115 S1116 run1115 seg1115
theorem run1117 : runSeg 18 81541 0 S0 = (S1117, true) := runSeg_comp 18 81468 73 0 S0 S1116 S1117 run1116 seg1116
theorem run1118 : runSeg 18 81614 0 S0 = (S1118, true) := runSeg_comp 18 81541 73 0 S0 S1117 S1118 run1117 seg1117
theorem run1119 : runSeg 18 81687 0 S0 = (S1119, true) := runSeg_comp 18 81614 73 0 S0 S1118 S1119 run1118 seg1118
theorem run1120 : runSeg 18 81760 0 S0 = (S1120, true) := runSeg_comp 18 81687 73 0 S0 S1119 S1120 run1119 seg1119
theorem run1121 : runSeg 18 81833 0 S0 = (S1121, true) := runSeg_comp 18 81760 73 0 S0 S1120 S1121 run1120 seg1120
theorem run1122 : runSeg 18 81906 0 S0 = (S1122, true) := runSeg_comp 18 81833 73 0 S0 S1121 S1122 run1121 seg1121
theorem run1123 : runSeg 18 81979 0 S0 = (S1123, true) := runSeg_comp 18 81906 73 0 S0 S1122 S1123 run1122 seg1122
theorem run1124 : runSeg 18 82052 0 S0 = (S1124, true) := runSeg_comp 18 81979 73 0 S0 S1123 S1124 run1123 seg1123
theorem run1125 : runSeg 18 82125 0 S0 = (S1125, true) := runSeg_comp 18 82052 73 0 S0 S1124 S1125 run1124 seg1124
theorem run1126 : runSeg 18 82198 0 S0 = (S1126, true) := runSeg_comp 18 82125 73 0 S0 S1125 S1126 run1125 seg1125
theorem run1127 : runSeg 18 82271 0 S0 = (S1127, true) := runSeg_comp 18 82198 73 0 S0 S1126 S1127 run1126 seg1126
theorem run1128 : runSeg 18 82344 0 S0 = (S1128, true) := runSeg_comp 18 82271 73 0 S0 S1127 S1128 run1127 seg1127
theorem run1129 : runSeg 18 82417 0 S0 = (S1129, true) := runSeg_comp 18 82344 73 0 S0 S1128 S1129 run1128 seg1128
theorem run1130 : runSeg 18 82490 0 S0 = (S1130, true) := runSeg_comp 18 82417 73 0 S0 S1129 S1130 run1129 seg1129
theorem run1131 : runSeg 18 82563 0 S0 = (S1131, true) := runSeg_comp 18 82490 73 0 S0 S1130 S1131 run1130 seg1130
theorem run1132 : runSeg 18 82636 0 S0 = (S1132, true) := runSeg_comp 18 82563 73 0 S0 S1131 S1132 run1131 seg1131
theorem run1133 : runSeg 18 82709 0 S0 = (S1133, true) := runSeg_comp 18 82636 73 0 S0 S1132 S1133 run1132 seg1132
theorem run1134 : runSeg 18 82782 0 S0 = (S1134, true) := runSeg_comp 18 82709 73 0 S0 S1133 S1134 run1133 seg1133
theorem run1135 : runSeg 18 82855 0 S0 = (S1135, true) := runSeg_comp 18 82782 73 0 S0 S1134 S1135 run1134 seg1134
theorem run1136 : runSeg 18 82928 0 S0 = (S1136, true) := runSeg_comp 18 82855 73 0 S0 S1135 S1136 run1135 seg1135
theorem run1137 : runSeg 18 83001 0 S0 = (S1137, true) := runSeg_comp 18 82928 73 0 S0 S1136 S1137 run1136 seg1136
theorem run1138 : runSeg 18 83074 0 S0 = (S1138, true) := runSeg_comp 18 83001 73 0 S0 S1137 S1138 run1137 seg1137
theorem run1139 : runSeg 18 83147 0 S0 = (S1139, true) := runSeg_comp 18 83074 73 0 S0 S1138 S1139 run1138 seg1138
theorem run1140 : runSeg 18 83220 0 S0 = (S1140, true) := runSeg_comp 18 83147 73 0 S0 S1139 S1140 run1139 seg1139
theorem run1141 : runSeg 18 83293 0 S0 = (S1141, true) := runSeg_comp 18 83220 73 0 S0 S1140 S1141 run1140 seg1140
theorem run1142 : runSeg 18 83366 0 S0 = (S1142, true) := runSeg_comp 18 83293 73 0 S0 S1141 S1142 run1141 seg1141
theorem run1143 : runSeg 18 83439 0 S0 = (S1143, true) := runSeg_comp 18 83366 73 0 S0 S1142 S1143 run1142 seg1142
theorem run1144 : runSeg 18 83512 0 S0 = (S1144, true) := runSeg_comp 18 83439 73 0 S0 S1143 S1144 run1143 seg1143
theorem run1145 : runSeg 18 83585 0 S0 = (S1145, true) := runSeg_comp 18 83512 73 0 S0 S1144 S1145 run1144 seg1144
theorem run1146 : runSeg 18 83658 0 S0 = (S1146, true) := runSeg_comp 18 83585 73 0 S0 S1145 S1146 run1145 seg1145
theorem run1147 : runSeg 18 83731 0 S0 = (S1147, true) := runSeg_comp 18 83658 73 0 S0 S1146 S1147 run1146 seg1146
theorem run1148 : runSeg 18 83804 0 S0 = (S1148, true) := runSeg_comp 18 83731 73 0 S0 S1147 S1148 run1147 seg1147
theorem run1149 : runSeg 18 83877 0 S0 = (S1149, true) := runSeg_comp 18 83804 73 0 S0 S1148 S1149 run1148 seg1148
theorem run1150 : runSeg 18 83950 0 S0 = (S1150, true) := runSeg_comp 18 83877 73 0 S0 S1149 S1150 run1149 seg1149
theorem run1151 : runSeg 18 84023 0 S0 = (S1151, true) := runSeg_comp 18 83950 73 0 S0 S1150 S1151 run1150 seg1150
theorem run1152 : runSeg 18 84096 0 S0 = (S1152, true) := runSeg_comp 18 84023 73 0 S0 S1151 S1152 run1151 seg1151
theorem run1153 : runSeg 18 84169 0 S0 = (S1153, true) := runSeg_comp 18 84096 73 0 S0 S1152 S1153 run1152 seg1152
theorem run1154 : runSeg 18 84242 0 S0 = (S1154, true) := runSeg_comp 18 84169 73 0 S0 S1153 S1154 run1153 seg1153
theorem run1155 : runSeg 18 84315 0 S0 = (S1155, true) := runSeg_comp 18 84242 73 0 S0 S1154 S1155 run1154 seg1154
theorem run1156 : runSeg 18 84388 0 S0 = (S1156, true) := runSeg_comp 18 84315 73 0 S0 S1155 S1156 run1155 seg1155
theorem run1157 : runSeg 18 84461 0 S0 = (S1157, true) := runSeg_comp 18 84388 73 0 S0 S1156 S1157 run1156 seg1156
theorem run1158 : runSeg 18 84534 0 S0 = (S1158, true) := runSeg_comp 18 84461 73 0 S0 S1157 S1158 run1157 seg1157
theorem run1159 : runSeg 18 84607 0 S0 = (S1159, true) := runSeg_comp 18 84534 73 0 S0 S1158 S1159 run1158 seg1158
theorem run1160 : runSeg 18 84680 0 S0 = (S1160, true) := runSeg_comp 18 84607 73 0 S0 S1159 S1160 run1159 seg1159
theorem run1161 : runSeg 18 84753 0 S0 = (S1161, true) := runSeg_comp 18 84680 73 0 S0 S1160 S1161 run1160 seg1160
theorem run1162 : runSeg 18 84826 0 S0 = (S1162, true) := runSeg_comp 18 84753 73 0 S0 S1161 S1162 run1161 seg1161
theorem run1163 : runSeg 18 84899 0 S0 = (S1163, true) := runSeg_comp 18 84826 73 0 S0 S1162 S1163 run1162 seg1162
theorem run1164 : runSeg 18 84972 0 S0 = (S1164, true) := runSeg_comp 18 84899 73 0 S0 S1163 S1164 run1163 seg1163
theorem run1165 : runSeg 18 85045 0 S0 = (S1165, true) := runSeg_comp 18 84972 73 0 S0 S1164 S1165 run1164 seg1164
theorem run1166 : runSeg 18 85118 0 S0 = (S1166, true) := runSeg_comp 18 85045 73 0 S0 S1165 S1166 run1165 seg1165
theorem run1167 : runSeg 18 85191 0 S0 = (S1167, true) := runSeg_comp 18 85118 73 0 S0 S1166 S1167 run1166 seg1166
theorem run1168 : runSeg 18 85264 0 S0 = (S1168, true) := runSeg_comp 18 85191 73 0 S0 S1167 S1168 run1167 seg1167
theorem run1169 : runSeg 18 85337 0 S0 = (S1169, true) := runSeg_comp 18 85264 73 0 S0 S1168 S1169 run1168 seg1168
theorem run1170 : runSeg 18 85410 0 S0 = (S1170, true) := runSeg_comp 18 85337 73 0 S0 S1169 S1170 run1169 seg1169
theorem run1171 : runSeg 18 85483 0 S0 = (S1171, true) := runSeg_comp 18 85410 73 0 S0 S1170 S1171 run1170 seg1170
theorem run1172 : runSeg 18 85556 0 S0 = (S1172, true) := runSeg_comp 18 85483 73 0 S0 S1171 S1172 run1171 seg1171
theorem run1173 : runSeg 18 85629 0 S0 = (S1173, true) := runSeg_comp 18 85556 73 0 S0 S1172 S1173 run1172 seg1172
theorem run1174 : runSeg 18 85702 0 S0 = (S1174, true) := runSeg_comp 18 85629 73 0 S0 S1173 S1174 run1173 seg1173
theorem run1175 : runSeg 18 85775 0 S0 = (S1175, true) := runSeg_comp 18 85702 73 0 S0 S1174 S1175 run1174 seg1174
theorem run1176 : runSeg 18 85848 0 S0 = (S1176, true) := runSeg_comp 18 85775 73 0 S0 S1175 S1176 run1175 seg1175
theorem run1177 : runSeg 18 85921 0 S0 = (S1177, true) := runSeg_comp 18 85848 73 0 S0 S1176 S1177 run1176 seg1176
theorem run1178 : runSeg 18 85994 0 S0 = (S1178, true) := runSeg_comp 18 85921 73 0 S0 S1177 S1178 run1177 seg1177
theorem run1179 : runSeg 18 86067 0 S0 = (S1179, true) := runSeg_comp 18 85994 73 0 S0 S1178 S1179 run1178 seg1178
theorem run1180 : runSeg 18 86140 0 S0 = (S1180, true) := runSeg_comp 18 86067 73 0 S0 S1179 S1180 run1179 seg1179
theorem run1181 : runSeg 18 86213 0 S0 = (S1181, true) := runSeg_comp 18 86140 73 0 S0 S1180 S1181 run1180 seg1180
theorem run1182 : runSeg 18 86286 0 S0 = (S1182, true) := runSeg_comp 18 86213 73 0 S0 S1181 S1182 run1181 seg1181
theorem run1183 : runSeg 18 86359 0 S0 = (S1183, true) := runSeg_comp 18 86286 73 0 S0 S1182 S1183 run1182 seg1182
theorem run1184 : runSeg 18 86432 0 S0 = (S1184, true) := runSeg_comp 18 86359 73 0 S0 S1183 S1184 run1183 seg1183
theorem run1185 : runSeg 18 86505 0 S0 = (S1185, true) := runSeg_comp 18 86432 73 0 S0 S1184 S1185 run1184 seg1184
theorem run1186 : runSeg 18 86578 0 S0 = (S1186, true) := runSeg_comp 18 86505 73 0 S0 S1185 S1186 run1185 seg1185
theorem run1187 : runSeg 18 86651 0 S0 = (S1187, true) := runSeg_comp 18 86578 73 0 S0 S1186 S1187 run1186 seg1186
theorem run1188 : runSeg 18 86724 0 S0 = (S1188, true) := runSeg_comp 18 86651 73 0 S0 S1187 S1188 run1187 seg1187
theorem run1189 : runSeg 18 86797 0 S0 = (S1189, true) := runSeg_comp 18 86724 73 0 S0 S1188 S1189 run1188 seg1188
theorem run1190 : runSeg 18 86870 0 S0 = (S1190, true) := runSeg_comp 18 86797 73 0 S0 S1189 S1190 run1189 seg1189
theorem run1191 : runSeg 18 86943 0 S0 = (S1191, true) := runSeg_comp 18 86870 73 0 S0 S1190 S1191 run1190 seg1190
theorem run1192 : runSeg 18 87016 0 S0 = (S1192, true) := runSeg_comp 18 86943 73 0 S0 S1191 S1192 run1191 seg1191
theorem run1193 : runSeg 18 87089 0 S0 = (S1193, true) := runSeg_comp 18 87016 73 0 S0 S1192 S1193 run1192 seg1192
theorem run1194 : runSeg 18 87162 0 S0 = (S1194, true) := runSeg_comp 18 87089 73 0 S0 S1193 S1194 run1193 seg1193
theorem run1195 : runSeg 18 87235 0 S0 = (S1195, true) := runSeg_comp 18 87162 73 0 S0 S1194 S1195 run1194 seg1194
theorem run1196 : runSeg 18 87308 0 S0 = (S1196, true) := runSeg_comp 18 87235 73 0 S0 S1195 S1196 run1195 seg1195
theorem run1197 : runSeg 18 87381 0 S0 = (S1197, true) := runSeg_comp 18 87308 73 0 S0 S1196 S1197 run1196 seg1196
theorem run1198 : runSeg 18 87454 0 S0 = (S1198, true) := runSeg_comp 18 87381 73 0 S0 S1197 S1198 run1197 seg1197
theorem run1199 : runSeg 18 87527 0 S0 = (S1199, true) := runSeg_comp 18 87454 73 0 S0 S1198 S1199 run1198 seg1198
theorem run1200 : runSeg 18 87600 0 S0 = (S1200, true) := runSeg_comp 18 87527 73 0 S0 S1199 S1200 run1199 seg1199
theorem run1201 : runSeg 18 87673 0 S0 = (S1201, true) := runSeg_comp 18 87600 73 0 S0 S1200 S1201 run1200 seg1200
theorem run1202 : runSeg 18 87746 0 S0 = (S1202, true) := runSeg_comp 18 87673 73 0 S0 S1201 S1202 run1201 seg1201
theorem run1203 : runSeg 18 87819 0 S0 = (S1203, true) := runSeg_comp 18 87746 73 0 S0 S1202 S1203 run1202 seg1202
theorem run1204 : runSeg 18 87892 0 S0 = (S1204, true) := runSeg_comp 18 87819 73 0 S0 S1203 S1204 run1203 seg1203
theorem run1205 : runSeg 18 87965 0 S0 = (S1205, true) := runSeg_comp 18 87892 73 0 S0 S1204 S1205 run1204 seg1204
theorem run1206 : runSeg 18 88038 0 S0 = (S1206, true) := runSeg_comp 18 87965 73 0 S0 S1205 S1206 run1205 seg1205
theorem run1207 : runSeg 18 88111 0 S0 = (S1207, true) := runSeg_comp 18 88038 73 0 S0 S1206 S1207 run1206 seg1206
theorem run1208 : runSeg 18 88184 0 S0 = (S1208, true) := runSeg_comp 18 88111 73 0 S0 S1207 S1208 run1207 seg1207
theorem run1209 : runSeg 18 88257 0 S0 = (S1209, true) := runSeg_comp 18 88184 73 0 S0 S1208 S1209 run1208 seg1208
theorem run1210 : runSeg 18 88330 0 S0 = (S1210, true) := runSeg_comp 18 88257 73 0 S0 S1209 S1210 run1209 seg1209
theorem run1211 : runSeg 18 88403 0 S0 = (S1211, true) := runSeg_comp 18 88330 73 0 S0 S1210 S1211 run1210 seg1210
theorem run1212 : runSeg 18 88476 0 S0 = (S1212, true) := runSeg_comp 18 88403 73 0 S0 S1211 S1212 run1211 seg1211
theorem run1213 : runSeg 18 88549 0 S0 = (S1213, true) := runSeg_comp 18 88476 73 0 S0 S1212 S1213 run1212 seg1212
theorem run1214 : runSeg 18 88622 0 S0 = (S1214, true) := runSeg_comp 18 88549 73 0 S0 S1213 S1214 run1213 seg1213
theorem run1215 : runSeg 18 88695 0 S0 = (S1215, true) := runSeg_comp 18 88622 73 0 S0 S1214 S1215 run1214 seg1214
theorem run1216 : runSeg 18 88768 0 S0 = (S1216, true) := runSeg_comp 18 88695 73 0 S0 S1215 S1216 run1215 seg1215
theorem run1217 : runSeg 18 88841 0 S0 = (S1217, true) := runSeg_comp 18 88768 73 0 S0 S1216 S1217 run1216 seg1216
theorem run1218 : runSeg 18 88914 0 S0 = (S1218, true) := runSeg_comp 18 88841 73 0 S0 S1217 S1218 run1217 seg1217
theorem run1219 : runSeg 18 88987 0 S0 = (S1219, true) := runSeg_comp 18 88914 73 0 S0 S1218 S1219 run1218 seg1218
theorem run1220 : runSeg 18 89060 0 S0 = (S1220, true) := runSeg_comp 18 88987 73 0 S0 S1219 S1220 run1219 seg1219
theorem run1221 : runSeg 18 89133 0 S0 = (S1221, true) := runSeg_comp 18 89060 73 0 S0 S1220 S1221 run1220 seg1220
theorem run1222 : runSeg 18 89206 0 S0 = (S1222, true) := runSeg_comp 18 89133 73 0 S0 S1221 S1222 run1221 seg1221
theorem run1223 : runSeg 18 89279 0 S0 = (S1223, true) := runSeg_comp 18 89206 73 0 S0 S1222 S1223 run1222 seg1222
theorem run1224 : runSeg 18 89352 0 S0 = (S1224, true) := runSeg_comp 18 89279 73 0 S0 S1223 S1224 run1223 seg1223
theorem run1225 : runSeg 18 89425 0 S0 = (S1225, true) := runSeg_comp 18 89352 73 0 S0 S1224 S1225 run1224 seg1224
theorem run1226 : runSeg 18 89498 0 S0 = (S1226, true) := runSeg_comp 18 89425 73 0 S0 S1225 S1226 run1225 seg1225
theorem run1227 : runSeg 18 89571 0 S0 = (S1227, true) := runSeg_comp 18 89498 73 0 S0 S1226 S1227 run1226 seg1226
theorem run1228 : runSeg 18 89644 0 S0 = (S1228, true) := runSeg_comp 18 89571 73 0 S0 S1227 S1228 run1227 seg1227
theorem run1229 : runSeg 18 89717 0 S0 = (S1229, true) := runSeg_comp 18 89644 73 0 S0 S1228 S1229 run1228 seg1228
theorem run1230 : runSeg 18 89790 0 S0 = (S1230, true) := runSeg_comp 18 89717 73 0 S0 S1229 S1230 run1229 seg1229
theorem run1231 : runSeg 18 89863 0 S0 = (S1231, true) := runSeg_comp 18 89790 73 0 S0 S1230 S1231 run1230 seg1230
theorem run1232 : runSeg 18 89936 0 S0 = (S1232, true) := runSeg_comp 18 89863 73 0 S0 S1231 S1232 run1231 seg1231
theorem run1233 : runSeg 18 90009 0 S0 = (S1233, true) := runSeg_comp 18 89936 73 0 S0 S1232 S1233 run1232 seg1232
theorem run1234 : runSeg 18 90082 0 S0 = (S1234, true) := runSeg_comp 18 90009 73 0 S0 S1233 S1234 run1233 seg1233
theorem run1235 : runSeg 18 90155 0 S0 = (S1235, true) := runSeg_comp 18 90082 73 0 S0 S1234 S1235 run1234 seg1234
theorem run1236 : runSeg 18 90228 0 S0 = (S1236, true) := runSeg_comp 18 90155 73 0 S0 S1235 S1236 run1235 seg1235
theorem run1237 : runSeg 18 90301 0 S0 = (S1237, true) := runSeg_comp 18 90228 73 0 S0 S1236 S1237 run1236 seg1236
theorem run1238 : runSeg 18 90374 0 S0 = (S1238, true) := runSeg_comp 18 90301 73 0 S0 S1237 S1238 run1237 seg1237
theorem run1239 : runSeg 18 90447 0 S0 = (S1239, true) := runSeg_comp 18 90374 73 0 S0 S1238 S1239 run1238 seg1238
theorem run1240 : runSeg 18 90520 0 S0 = (S1240, true) := runSeg_comp 18 90447 73 0 S0 S1239 S1240 run1239 seg1239
theorem run1241 : runSeg 18 90593 0 S0 = (S1241, true) := runSeg_comp 18 90520 73 0 S0 S1240 S1241 run1240 seg1240
theorem run1242 : runSeg 18 90666 0 S0 = (S1242, true) := runSeg_comp 18 90593 73 0 S0 S1241 S1242 run1241 seg1241
theorem run1243 : runSeg 18 90739 0 S0 = (S1243, true) := runSeg_comp 18 90666 73 0 S0 S1242 S1243 run1242 seg1242
theorem run1244 : runSeg 18 90812 0 S0 = (S1244, true) := runSeg_comp 18 90739 73 0 S0 S1243 S1244 run1243 seg1243
theorem run1245 : runSeg 18 90885 0 S0 = (S1245, true) := runSeg_comp 18 90812 73 0 S0 S1244 S1245 run1244 seg1244
theorem run1246 : runSeg 18 90958 0 S0 = (S1246, true) := runSeg_comp 18 90885 73 0 S0 S1245 S1246 run1245 seg1245
theorem run1247 : runSeg 18 91031 0 S0 = (S1247, true) := runSeg_comp 18 90958 73 0 S0 S1246 S1247 run1246 seg1246
theorem run1248 : runSeg 18 91104 0 S0 = (S1248, true) := runSeg_comp 18 91031 73 0 S0 S1247 S1248 run1247 seg1247
theorem run1249 : runSeg 18 91177 0 S0 = (S1249, true) := runSeg_comp 18 91104 73 0 S0 S1248 S1249 run1248 seg1248
theorem run1250 : runSeg 18 91250 0 S0 = (S1250, true) := runSeg_comp 18 91177 73 0 S0 S1249 S1250 run1249 seg1249
theorem run1251 : runSeg 18 91323 0 S0 = (S1251, true) := runSeg_comp 18 91250 73 0 S0 S1250 S1251 run1250 seg1250
theorem run1252 : runSeg 18 91396 0 S0 = (S1252, true) := runSeg_comp 18 91323 73 0 S0 S1251 S1252 run1251 seg1251
theorem run1253 : runSeg 18 91469 0 S0 = (S1253, true) := runSeg_comp 18 91396 73 0 S0 S1252 S1253 run1252 seg1252
theorem run1254 : runSeg 18 91542 0 S0 = (S1254, true) := runSeg_comp 18 91469 73 0 S0 S1253 S1254 run1253 seg1253
theorem run1255 : runSeg 18 91615 0 S0 = (S1255, true) := runSeg_comp 18 91542 73 0 S0 S1254 S1255 run1254 seg1254
theorem run1256 : runSeg 18 91688 0 S0 = (S1256, true) := runSeg_comp 18 91615 73 0 S0 S1255 S1256 run1255 seg1255
theorem run1257 : runSeg 18 91761 0 S0 = (S1257, true) := runSeg_comp 18 91688 73 0 S0 S1256 S1257 run1256 seg1256
theorem run1258 : runSeg 18 91834 0 S0 = (S1258, true) := runSeg_comp 18 91761 73 0 S0 S1257 S1258 run1257 seg1257
theorem run1259 : runSeg 18 91907 0 S0 = (S1259, true) := runSeg_comp 18 91834 73 0 S0 S1258 S1259 run1258 seg1258
theorem run1260 : runSeg 18 91980 0 S0 = (S1260, true) := runSeg_comp 18 91907 73 0 S0 S1259 S1260 run1259 seg1259
theorem run1261 : runSeg 18 92053 0 S0 = (S1261, true) := runSeg_comp 18 91980 73 0 S0 S1260 S1261 run1260 seg1260
theorem run1262 : runSeg 18 92126 0 S0 = (S1262, true) := runSeg_comp 18 92053 73 0 S0 S1261 S1262 run1261 seg1261
theorem run1263 : runSeg 18 92199 0 S0 = (S1263, true) := runSeg_comp 18 92126 73 0 S0 S1262 S1263 run1262 seg1262
theorem run1264 : runSeg 18 92272 0 S0 = (S1264, true) := runSeg_comp 18 92199 73 0 S0 S1263 S1264 run1263 seg1263
theorem run1265 : runSeg 18 92345 0 S0 = (S1265, true) := runSeg_comp 18 92272 73 0 S0 S1264 S1265 run1264 seg1264
theorem run1266 : runSeg 18 92418 0 S0 = (S1266, true) := runSeg_comp 18 92345 73 0 S0 S1265 S1266 run1265 seg1265
theorem run1267 : runSeg 18 92491 0 S0 = (S1267, true) := runSeg_comp 18 92418 73 0 S0 S1266 S1267 run1266 seg1266
theorem run1268 : runSeg 18 92564 0 S0 = (S1268, true) := runSeg_comp 18 92491 73 0 S0 S1267 S1268 run1267 seg1267
theorem run1269 : runSeg 18 92637 0 S0 = (S1269, true) := runSeg_comp 18 92564 73 0 S0 S1268 S1269 run1268 seg1268
theorem run1270 : runSeg 18 92710 0 S0 = (S1270, true) := runSeg_comp 18 92637 73 0 S0 S1269 S1270 run1269 seg1269
theorem run1271 : runSeg 18 92783 0 S0 = (S1271, true) := runSeg_comp 18 92710 73 0 S0 S1270 S1271 run1270 seg1270
theorem run1272 : runSeg 18 92856 0 S0 = (S1272, true) := runSeg_comp 18 92783 73 0 S0 S1271 S1272 run1271 seg1271
theorem run1273 : runSeg 18 92929 0 S0 = (S1273, true) := runSeg_comp 18 92856 73 0 S0 S1272 S1273 run1272 seg1272
theorem run1274 : runSeg 18 93002 0 S0 = (S1274, true) := runSeg_comp 18 92929 73 0 S0 S1273 S1274 run1273 seg1273
theorem run1275 : runSeg 18 93075 0 S0 = (S1275, true) := runSeg_comp 18 93002 73 0 S0 S1274 S1275 run1274 seg1274
theorem run1276 : runSeg 18 93148 0 S0 = (S1276, true) := runSeg_comp 18 93075 73 0 S0 S1275 S1276 run1275 seg1275
theorem run1277 : runSeg 18 93221 0 S0 = (S1277, true) := runSeg_comp 18 93148 73 0 S0 S1276 S1277 run1276 seg1276
theorem run1278 : runSeg 18 93294 0 S0 = (S1278, true) := runSeg_comp 18 93221 73 0 S0 S1277 S1278 run1277 seg1277
theorem run1279 : runSeg 18 93367 0 S0 = (S1279, true) := runSeg_comp 18 93294 73 0 S0 S1278 S1279 run1278 seg1278
theorem run1280 : runSeg 18 93440 0 S0 = (S1280, true) := runSeg_comp 18 93367 73 0 S0 S1279 S1280 run1279 seg1279
theorem run1281 : runSeg 18 93513 0 S0 = (S1281, true) := runSeg_comp 18 93440 73 0 S0 S1280 S1281 run1280 seg1280
theorem run1282 : runSeg 18 93586 0 S0 = (S1282, true) := runSeg_comp 18 93513 73 0 S0 S1281 S1282 run1281 seg1281
theorem run1283 : runSeg 18 93659 0 S0 = (S1283, true) := runSeg_comp 18 93586 73 0 S0 S1282 S1283 run1282 seg1282
theorem run1284 : runSeg 18 93732 0 S0 = (S1284, true) := runSeg_comp 18 93659 73 0 S0 S1283 S1284 run1283 seg1283
theorem run1285 : runSeg 18 93805 0 S0 = (S1285, true) := runSeg_comp 18 93732 73 0 S0 S1284 S1285 run1284 seg1284
theorem run1286 : runSeg 18 93878 0 S0 = (S1286, true) := runSeg_comp 18 93805 73 0 S0 S1285 S1286 run1285 seg1285
theorem run1287 : runSeg 18 93951 0 S0 = (S1287, true) := runSeg_comp 18 93878 73 0 S0 S1286 S1287 run1286 seg1286
theorem run1288 : runSeg 18 94024 0 S0 = (S1288, true) := runSeg_comp 18 93951 73 0 S0 S1287 S1288 run1287 seg1287
theorem run1289 : runSeg 18 94097 0 S0 = (S1289, true) := runSeg_comp 18 94024 73 0 S0 S1288 S1289 run1288 seg1288
theorem run1290 : runSeg 18 94170 0 S0 = (S1290, true) := runSeg_comp 18 94097 73 0 S0 S1289 S1290 run1289 seg1289
theorem run1291 : runSeg 18 94243 0 S0 = (S1291, true) := runSeg_comp 18 94170 73 0 S0 S1290 S1291 run1290 seg1290
theorem run1292 : runSeg 18 94316 0 S0 = (S1292, true) := runSeg_comp 18 94243 73 0 S0 S1291 S1292 run1291 seg1291
theorem run1293 : runSeg 18 94389 0 S0 = (S1293, true) := runSeg_comp 18 94316 73 0 S0 S1292 S1293 run1292 seg1292
theorem run1294 : runSeg 18 94462 0 S0 = (S1294, true) := runSeg_comp 18 94389 73 0 S0 S1293 S1294 run1293 seg1293
theorem run1295 : runSeg 18 94535 0 S0 = (S1295, true) := runSeg_comp 18 94462 73 0 S0 S1294 S1295 run1294 seg1294
theorem run1296 : runSeg 18 94608 0 S0 = (S1296, true) := runSeg_comp 18 94535 73 0 S0 S1295 S1296 run1295 seg1295
theorem run1297 : runSeg 18 94681 0 S0 = (S1297, true) := runSeg_comp 18 94608 73 0 S0 S1296 S1297 run1296 seg1296
theorem run1298 : runSeg 18 94754 0 S0 = (S1298, true) := runSeg_comp 18 94681 73 0 S0 S1297 S1298 run1297 seg1297
theorem run1299 : runSeg 18 94827 0 S0 = (S1299, true) := runSeg_comp 18 94754 73 0 S0 S1298 S1299 run1298 seg1298
theorem run1300 : runSeg 18 94900 0 S0 = (S1300, true) := runSeg_comp 18 94827 73 0 S0 S1299 S1300 run1299 seg1299
theorem run1301 : runSeg 18 94973 0 S0 = (S1301, true) := runSeg_comp 18 94900 73 0 S0 S1300 S1301 run1300 seg1300
theorem run1302 : runSeg 18 95046 0 S0 = (S1302, true) := runSeg_comp 18 94973 73 0 S0 S1301 S1302 run1301 seg1301
theorem run1303 : runSeg 18 95119 0 S0 = (S1303, true) := runSeg_comp 18 95046 73 0 S0 S1302 S1303 run1302 seg1302
theorem run1304 : runSeg 18 95192 0 S0 = (S1304, true) := runSeg_comp 18 95119 73 0 S0 S1303 S1304 run1303 seg1303
theorem run1305 : runSeg 18 95265 0 S0 = (S1305, true) := runSeg_comp 18 95192 73 0 S0 S1304 S1305 run1304 seg1304
theorem run1306 : runSeg 18 95338 0 S0 = (S1306, true) := runSeg_comp 18 95265 73 0 S0 S1305 S1306 run1305 seg1305
theorem run1307 : runSeg 18 95411 0 S0 = (S1307, true) := runSeg_comp 18 95338 73 0 S0 S1306 S1307 run1306 seg1306
theorem run1308 : runSeg 18 95484 0 S0 = (S1308, true) := runSeg_comp 18 95411 73 0 S0 S1307 S1308 run1307 seg1307
theorem run1309 : runSeg 18 95557 0 S0 = (S1309, true) := runSeg_comp 18 95484 73 0 S0 S1308 S1309 run1308 seg1308
theorem run1310 : runSeg 18 95630 0 S0 = (S1310, true) := runSeg_comp 18 95557 73 0 S0 S1309 S1310 run1309 seg1309
theorem run1311 : runSeg 18 95703 0 S0 = (S1311, true) := runSeg_comp 18 95630 73 0 S0 S1310 S1311 run1310 seg1310
theorem run1312 : runSeg 18 95776 0 S0 = (S1312, true) := runSeg_comp 18 95703 73 0 S0 S1311 S1312 run1311 seg1311
theorem run1313 : runSeg 18 95849 0 S0 = (S1313, true) := runSeg_comp 18 95776 73 0 S0 S1312 S1313 run1312 seg1312
theorem run1314 : runSeg 18 95922 0 S0 = (S1314, true) := runSeg_comp 18 95849 73 0 S0 S1313 S1314 run1313 seg1313
theorem run1315 : runSeg 18 95995 0 S0 = (S1315, true) := runSeg_comp 18 95922 73 0 S0 S1314 S1315 run1314 seg1314
theorem run1316 : runSeg 18 96068 0 S0 = (S1316, true) := runSeg_comp 18 95995 73 0 S0 S1315 S1316 run1315 seg1315
theorem run1317 : runSeg 18 96141 0 S0 = (S1317, true) := runSeg_comp 18 96068 73 0 S0 S1316 S1317 run1316 seg1316
theorem run1318 : runSeg 18 96214 0 S0 = (S1318, true) := runSeg_comp 18 96141 73 0 S0 S1317 S1318 run1317 seg1317
theorem run1319 : runSeg 18 96287 0 S0 = (S1319, true) := runSeg_comp 18 96214 73 0 S0 S1318 S1319 run1318 seg1318
theorem run1320 : runSeg 18 96360 0 S0 = (S1320, true) := runSeg_comp 18 96287 73 0 S0 S1319 S1320 run1319 seg1319
theorem run1321 : runSeg 18 96433 0 S0 = (S1321, true) := runSeg_comp 18 96360 73 0 S0 S1320 S1321 run1320 seg1320
theorem run1322 : runSeg 18 96506 0 S0 = (S1322, true) := runSeg_comp 18 96433 73 0 S0 S1321 S1322 run1321 seg1321
theorem run1323 : runSeg 18 96579 0 S0 = (S1323, true) := runSeg_comp 18 96506 73 0 S0 S1322 S1323 run1322 seg1322
theorem run1324 : runSeg 18 96652 0 S0 = (S1324, true) := runSeg_comp 18 96579 73 0 S0 S1323 S1324 run1323 seg1323
theorem run1325 : runSeg 18 96725 0 S0 = (S1325, true) := runSeg_comp 18 96652 73 0 S0 S1324 S1325 run1324 seg1324
theorem run1326 : runSeg 18 96798 0 S0 = (S1326, true) := runSeg_comp 18 96725 73 0 S0 S1325 S1326 run1325 seg1325
theorem run1327 : runSeg 18 96871 0 S0 = (S1327, true) := runSeg_comp 18 96798 73 0 S0 S1326 S1327 run1326 seg1326
theorem run1328 : runSeg 18 96944 0 S0 = (S1328, true) := runSeg_comp 18 96871 73 0 S0 S1327 S1328 run1327 seg1327
theorem run1329 : runSeg 18 97017 0 S0 = (S1329, true) := runSeg_comp 18 96944 73 0 S0 S1328 S1329 run1328 seg1328
theorem run1330 : runSeg 18 97090 0 S0 = (S1330, true) := runSeg_comp 18 97017 73 0 S0 S1329 S1330 run1329 seg1329
theorem run1331 : runSeg 18 97163 0 S0 = (S1331, true) := runSeg_comp 18 97090 73 0 S0 S1330 S1331 run1330 seg1330
theorem run1332 : runSeg 18 97236 0 S0 = (S1332, true) := runSeg_comp 18 97163 73 0 S0 S1331 S1332 run1331 seg1331
theorem run1333 : runSeg 18 97309 0 S0 = (S1333, true) := runSeg_comp 18 97236 73 0 S0 S1332 S1333 run1332 seg1332
theorem run1334 : runSeg 18 97382 0 S0 = (S1334, true) := runSeg_comp 18 97309 73 0 S0 S1333 S1334 run1333 seg1333
theorem run1335 : runSeg 18 97455 0 S0 = (S1335, true) := runSeg_comp 18 97382 73 0 S0 S1334 S1335 run1334 seg1334
theorem run1336 : runSeg 18 97528 0 S0 = (S1336, true) := runSeg_comp 18 97455 73 0 S0 S1335 S1336 run1335 seg1335
theorem run1337 : runSeg 18 97601 0 S0 = (S1337, true) := runSeg_comp 18 97528 73 0 S0 S1336 S1337 run1336 seg1336
theorem run1338 : runSeg 18 97674 0 S0 = (S1338, true) := runSeg_comp 18 97601 73 0 S0 S1337 S1338 run1337 seg1337
theorem run1339 : runSeg 18 97747 0 S0 = (S1339, true) := runSeg_comp 18 97674 73 0 S0 S1338 S1339 run1338 seg1338
theorem run1340 : runSeg 18 97820 0 S0 = (S1340, true) := runSeg_comp 18 97747 73 0 S0 S1339 S1340 run1339 seg1339
theorem run1341 : runSeg 18 97893 0 S0 = (S1341, true) := runSeg_comp 18 97820 73 0 S0 S1340 S1341 run1340 seg1340
theorem run1342 : runSeg 18 97966 0 S0 = (S1342, true) := runSeg_comp 18 97893 73 0 S0 S1341 S1342 run1341 seg1341
theorem run1343 : runSeg 18 98039 0 S0 = (S1343, true) := runSeg_comp 18 97966 73 0 S0 S1342 S1343 run1342 seg1342
theorem run1344 : runSeg 18 98112 0 S0 = (S1344, true) := runSeg_comp 18 98039 73 0 S0 S1343 S1344 run1343 seg1343
theorem run1345 : runSeg 18 98185 0 S0 = (S1345, true) := runSeg_comp 18 98112 73 0 S0 S1344 S1345 run1344 seg1344
theorem run1346 : runSeg 18 98258 0 S0 = (S1346, true) := runSeg_comp 18 98185 73 0 S0 S1345 S1346 run1345 seg1345
theorem run1347 : runSeg 18 98331 0 S0 = (S1347, true) := runSeg_comp 18 98258 73 0 S0 S1346 S1347 run1346 seg1346
theorem run1348 : runSeg 18 98404 0 S0 = (S1348, true) := runSeg_comp 18 98331 73 0 S0 S1347 S1348 run1347 seg1347
theorem run1349 : runSeg 18 98477 0 S0 = (S1349, true) := runSeg_comp 18 98404 73 0 S0 S1348 S1349 run1348 seg1348
theorem run1350 : runSeg 18 98550 0 S0 = (S1350, true) := runSeg_comp 18 98477 73 0 S0 S1349 S1350 run1349 seg1349
theorem run1351 : runSeg 18 98623 0 S0 = (S1351, true) := runSeg_comp 18 98550 73 0 S0 S1350 S1351 run1350 seg1350
theorem run1352 : runSeg 18 98696 0 S0 = (S1352, true) := runSeg_comp 18 98623 73 0 S0 S1351 S1352 run1351 seg1351
theorem run1353 : runSeg 18 98769 0 S0 = (S1353, true) := runSeg_comp 18 98696 73 0 S0 S1352 S1353 run1352 seg1352
theorem run1354 : runSeg 18 98842 0 S0 = (S1354, true) := runSeg_comp 18 98769 73 0 S0 S1353 S1354 run1353 seg1353
theorem run1355 : runSeg 18 98915 0 S0 = (S1355, true) := runSeg_comp 18 98842 73 0 S0 S1354 S1355 run1354 seg1354
theorem run1356 : runSeg 18 98988 0 S0 = (S1356, true) := runSeg_comp 18 98915 73 0 S0 S1355 S1356 run1355 seg1355
theorem run1357 : runSeg 18 99061 0 S0 = (S1357, true) := runSeg_comp 18 98988 73 0 S0 S1356 S1357 run1356 seg1356
theorem run1358 : runSeg 18 99134 0 S0 = (S1358, true) := runSeg_comp 18 99061 73 0 S0 S1357 S1358 run1357 seg1357
theorem run1359 : runSeg 18 99207 0 S0 = (S1359, true) := runSeg_comp 18 99134 73 0 S0 S1358 S1359 run1358 seg1358
theorem run1360 : runSeg 18 99280 0 S0 = (S1360, true) := runSeg_comp 18 99207 73 0 S0 S1359 S1360 run1359 seg1359
theorem run1361 : runSeg 18 99353 0 S0 = (S1361, true) := runSeg_comp 18 99280 73 0 S0 S1360 S1361 run1360 seg1360
theorem run1362 : runSeg 18 99426 0 S0 = (S1362, true) := runSeg_comp 18 99353 73 0 S0 S1361 S1362 run1361 seg1361
theorem run1363 : runSeg 18 99499 0 S0 = (S1363, true) := runSeg_comp 18 99426 73 0 S0 S1362 S1363 run1362 seg1362
theorem run1364 : runSeg 18 99572 0 S0 = (S1364, true) := runSeg_comp 18 99499 73 0 S0 S1363 S1364 run1363 seg1363
theorem run1365 : runSeg 18 99645 0 S0 = (S1365, true) := runSeg_comp 18 99572 73 0 S0 S1364 S1365 run1364 seg1364
theorem run1366 : runSeg 18 99718 0 S0 = (S1366, true) := runSeg_comp 18 99645 73 0 S0 S1365 S1366 run1365 seg1365
theorem run1367 : runSeg 18 99791 0 S0 = (S1367, true) := runSeg_comp 18 99718 73 0 S0 S1366 S1367 run1366 seg1366
theorem run1368 : runSeg 18 99864 0 S0 = (S1368, true) := runSeg_comp 18 99791 73 0 S0 S1367 S1368 run1367 seg1367
theorem run1369 : runSeg 18 99937 0 S0 = (S1369, true) := runSeg_comp 18 99864 73 0 S0 S1368 S1369 run1368 seg1368
theorem run1370 : runSeg 18 100010 0 S0 = (S1370, true) := runSeg_comp 18 99937 73 0 S0 S1369 S1370 run1369 seg1369
theorem run1371 : runSeg 18 100083 0 S0 = (S1371, true) := runSeg_comp 18 100010 73 0 S0 S1370 S1371 run1370 seg1370
theorem run1372 : runSeg 18 100156 0 S0 = (S1372, true) := runSeg_comp 18 100083 73 0 S0 S1371 S1372 run1371 seg1371
theorem run1373 : runSeg 18 100229 0 S0 = (S1373, true) := runSeg_comp 18 100156 73 0 S0 S1372 S1373 run1372 seg1372
theorem run1374 : runSeg 18 100302 0 S0 = (S1374, true) := runSeg_comp 18 100229 73 0 S0 S1373 S1374 run1373 seg1373
theorem run1375 : runSeg 18 100375 0 S0 = (S1375, true) := runSeg_comp 18 100302 73 0 S0 S1374 S1375 run1374 seg1374
theorem run1376 : runSeg 18 100448 0 S0 = (S1376, true) := runSeg_comp 18 100375 73 0 S0 S1375 S1376 run1375 seg1375
theorem run1377 : runSeg 18 100521 0 S0 = (S1377, true) := runSeg_comp 18 100448 73 0 S0 S1376 S1377 run1376 seg1376
theorem run1378 : runSeg 18 100594 0 S0 = (S1378, true) := runSeg_comp 18 100521 73 0 S0 S1377 S1378 run1377 seg1377
theorem run1379 : runSeg 18 100667 0 S0 = (S1379, true) := runSeg_comp 18 100594 73 0 S0 S1378 S1379 run1378 seg1378
theorem run1380 : runSeg 18 100740 0 S0 = (S1380, true) := runSeg_comp 18 100667 73 0 S0 S1379 S1380 run1379 seg1379
theorem run1381 : runSeg 18 100813 0 S0 = (S1381, true) := runSeg_comp 18 100740 73 0 S0 S1380 S1381 run1380 seg1380
theorem run1382 : runSeg 18 100886 0 S0 = (S1382, true) := runSeg_comp 18 100813 73 0 S0 S1381 S1382 run1381 seg1381
theorem run1383 : runSeg 18 100959 0 S0 = (S1383, true) := runSeg_comp 18 100886 73 0 S0 S1382 S1383 run1382 seg1382
theorem run1384 : runSeg 18 101032 0 S0 = (S1384, true) := runSeg_comp 18 100959 73 0 S0 S1383 S1384 run1383 seg1383
theorem run1385 : runSeg 18 101105 0 S0 = (S1385, true) := runSeg_comp 18 101032 73 0 S0 S1384 S1385 run1384 seg1384
theorem run1386 : runSeg 18 101178 0 S0 = (S1386, true) := runSeg_comp 18 101105 73 0 S0 S1385 S1386 run1385 seg1385
theorem run1387 : runSeg 18 101251 0 S0 = (S1387, true) := runSeg_comp 18 101178 73 0 S0 S1386 S1387 run1386 seg1386
theorem run1388 : runSeg 18 101324 0 S0 = (S1388, true) := runSeg_comp 18 101251 73 0 S0 S1387 S1388 run1387 seg1387
theorem run1389 : runSeg 18 101397 0 S0 = (S1389, true) := runSeg_comp 18 101324 73 0 S0 S1388 S1389 run1388 seg1388
theorem run1390 : runSeg 18 101470 0 S0 = (S1390, true) := runSeg_comp 18 101397 73 0 S0 S1389 S1390 run1389 seg1389
theorem run1391 : runSeg 18 101543 0 S0 = (S1391, true) := runSeg_comp 18 101470 73 0 S0 S1390 S1391 run1390 seg1390
theorem run1392 : runSeg 18 101616 0 S0 = (S1392, true) := runSeg_comp 18 101543 73 0 S0 S1391 S1392 run1391 seg1391
theorem run1393 : runSeg 18 101689 0 S0 = (S1393, true) := runSeg_comp 18 101616 73 0 S0 S1392 S1393 run1392 seg1392
theorem run1394 : runSeg 18 101762 0 S0 = (S1394, true) := runSeg_comp 18 101689 73 0 S0 S1393 S1394 run1393 seg1393
theorem run1395 : runSeg 18 101835 0 S0 = (S1395, true) := runSeg_comp 18 101762 73 0 S0 S1394 S1395 run1394 seg1394
theorem run1396 : runSeg 18 101908 0 S0 = (S1396, true) := runSeg_comp 18 101835 73 0 S0 S1395 S1396 run1395 seg1395
theorem run1397 : runSeg 18 101981 0 S0 = (S1397, true) := runSeg_comp 18 101908 73 0 S0 S1396 S1397 run1396 seg1396
theorem run1398 : runSeg 18 102054 0 S0 = (S1398, true) := runSeg_comp 18 101981 73 0 S0 S1397 S1398 run1397 seg1397
theorem run1399 : runSeg 18 102127 0 S0 = (S1399, true) := runSeg_comp 18 102054 73 0 S0 S1398 S1399 run1398 seg1398
theorem run1400 : runSeg 18 102200 0 S0 = (S1400, true) := runSeg_comp 18 102127 73 0 S0 S1399 S1400 run1399 seg1399
theorem run1401 : runSeg 18 102273 0 S0 = (S1401, true) := runSeg_comp 18 102200 73 0 S0 S1400 S1401 run1400 seg1400
theorem run1402 : runSeg 18 102346 0 S0 = (S1402, true) := runSeg_comp 18 102273 73 0 S0 S1401 S1402 run1401 seg1401
theorem run1403 : runSeg 18 102419 0 S0 = (S1403, true) := runSeg_comp 18 102346 73 0 S0 S1402 S1403 run1402 seg1402
theorem run1404 : runSeg 18 102492 0 S0 = (S1404, true) := runSeg_comp 18 102419 73 0 S0 S1403 S1404 run1403 seg1403
theorem run1405 : runSeg 18 102565 0 S0 = (S1405, true) := runSeg_comp 18 102492 73 0 S0 S1404 S1405 run1404 seg1404
theorem run1406 : runSeg 18 102638 0 S0 = (S1406, true) := runSeg_comp 18 102565 73 0 S0 S1405 S1406 run1405 seg1405
theorem run1407 : runSeg 18 102711 0 S0 = (S1407, true) := runSeg_comp 18 102638 73 0 S0 S1406 S1407 run1406 seg1406
theorem run1408 : runSeg 18 102784 0 S0 = (S1408, true) := runSeg_comp 18 102711 73 0 S0 S1407 S1408 run1407 seg1407
theorem run1409 : runSeg 18 102857 0 S0 = (S1409, true) := runSeg_comp 18 102784 73 0 S0 S1408 S1409 run1408 seg1408
theorem run1410 : runSeg 18 102930 0 S0 = (S1410, true) := runSeg_comp 18 102857 73 0 S0 S1409 S1410 run1409 seg1409
theorem run1411 : runSeg 18 103003 0 S0 = (S1411, true) := runSeg_comp 18 102930 73 0 S0 S1410 S1411 run1410 seg1410
theorem run1412 : runSeg 18 103076 0 S0 = (S1412, true) := runSeg_comp 18 103003 73 0 S0 S1411 S1412 run1411 seg1411
theorem run1413 : runSeg 18 103149 0 S0 = (S1413, true) := runSeg_comp 18 103076 73 0 S0 S1412 S1413 run1412 seg1412
theorem run1414 : runSeg 18 103222 0 S0 = (S1414, true) := runSeg_comp 18 103149 73 0 S0 S1413 S1414 run1413 seg1413
theorem run1415 : runSeg 18 103295 0 S0 = (S1415, true) := runSeg_comp 18 103222 73 0 S0 S1414 S1415 run1414 seg1414
theorem run1416 : runSeg 18 103368 0 S0 = (S1416, true) := runSeg_comp 18 103295 73 0 S0 S1415 S1416 run1415 seg1415
theorem run1417 : runSeg 18 103441 0 S0 = (S1417, true) := runSeg_comp 18 103368 73 0 S0 S1416 S1417 run1416 seg1416
theorem run1418 : runSeg 18 103514 0 S0 = (S1418, true) := runSeg_comp 18 103441 73 0 S0 S1417 S1418 run1417 seg1417
theorem run1419 : runSeg 18 103587 0 S0 = (S1419, true) := runSeg_comp 18 103514 73 0 S0 S1418 S1419 run1418 seg1418
theorem run1420 : runSeg 18 103660 0 S0 = (S1420, true) := runSeg_comp 18 103587 73 0 S0 S1419 S1420 run1419 seg1419
theorem run1421 : runSeg 18 103733 0 S0 = (S1421, true) := runSeg_comp 18 103660 73 0 S0 S1420 S1421 run1420 seg1420
theorem run1422 : runSeg 18 103806 0 S0 = (S1422, true) := runSeg_comp 18 103733 73 0 S0 S1421 S1422 run1421 seg1421
theorem run1423 : runSeg 18 103879 0 S0 = (S1423, true) := runSeg_comp 18 103806 73 0 S0 S1422 S1423 run1422 seg1422
theorem run1424 : runSeg 18 103952 0 S0 = (S1424, true) := runSeg_comp 18 103879 73 0 S0 S1423 S1424 run1423 seg1423
theorem run1425 : runSeg 18 104025 0 S0 = (S1425, true) := runSeg_comp 18 103952 73 0 S0 S1424 S1425 run1424 seg1424
theorem run1426 : runSeg 18 104098 0 S0 = (S1426, true) := runSeg_comp 18 104025 73 0 S0 S1425 S1426 run1425 seg1425
theorem run1427 : runSeg 18 104171 0 S0 = (S1427, true) := runSeg_comp 18 104098 73 0 S0 S1426 S1427 run1426 seg1426
theorem run1428 : runSeg 18 104244 0 S0 = (S1428, true) := runSeg_comp 18 104171 73 0 S0 S1427 S1428 run1427 seg1427
theorem run1429 : runSeg 18 104317 0 S0 = (S1429, true) := runSeg_comp 18 104244 73 0 S0 S1428 S1429 run1428 seg1428
theorem run1430 : runSeg 18 104390 0 S0 = (S1430, true) := runSeg_comp 18 104317 73 0 S0 S1429 S1430 run1429 seg1429
theorem run1431 : runSeg 18 104463 0 S0 = (S1431, true) := runSeg_comp 18 104390 73 0 S0 S1430 S1431 run1430 seg1430
theorem run1432 : runSeg 18 104536 0 S0 = (S1432, true) := runSeg_comp 18 104463 73 0 S0 S1431 S1432 run1431 seg1431
theorem run1433 : runSeg 18 104609 0 S0 = (S1433, true) := runSeg_comp 18 104536 73 0 S0 S1432 S1433 run1432 seg1432
theorem run1434 : runSeg 18 104682 0 S0 = (S1434, true) := runSeg_comp 18 104609 73 0 S0 S1433 S1434 run1433 seg1433
theorem run1435 : runSeg 18 104755 0 S0 = (S1435, true) := runSeg_comp 18 104682 73 0 S0 S1434 S1435 run1434 seg1434
theorem run1436 : runSeg 18 104828 0 S0 = (S1436, true) := runSeg_comp 18 104755 73 0 S0 S1435 S1436 run1435 seg1435
theorem run1437 : runSeg 18 104901 0 S0 = (S1437, true) := runSeg_comp 18 104828 73 0 S0 S1436 S1437 run1436 seg1436
theorem run1438 : runSeg 18 104974 0 S0 = (S1438, true) := runSeg_comp 18 104901 73 0 S0 S1437 S1438 run1437 seg1437
theorem run1439 : runSeg 18 105047 0 S0 = (S1439, true) := runSeg_comp 18 104974 73 0 S0 S1438 S1439 run1438 seg1438
theorem run1440 : runSeg 18 105120 0 S0 = (S1440, true) := runSeg_comp 18 105047 73 0 S0 S1439 S1440 run1439 seg1439
theorem run1441 : runSeg 18 105193 0 S0 = (S1441, true) := runSeg_comp 18 105120 73 0 S0 S1440 S1441 run1440 seg1440
theorem run1442 : runSeg 18 105266 0 S0 = (S1442, true) := runSeg_comp 18 105193 73 0 S0 S1441 S1442 run1441 seg1441
theorem run1443 : runSeg 18 105339 0 S0 = (S1443, true) := runSeg_comp 18 105266 73 0 S0 S1442 S1443 run1442 seg1442
theorem run1444 : runSeg 18 105412 0 S0 = (S1444, true) := runSeg_comp 18 105339 73 0 S0 S1443 S1444 run1443 seg1443
theorem run1445 : runSeg 18 105485 0 S0 = (S1445, true) := runSeg_comp 18 105412 73 0 S0 S1444 S1445 run1444 seg1444
theorem run1446 : runSeg 18 105558 0 S0 = (S1446, true) := runSeg_comp 18 105485 73 0 S0 S1445 S1446 run1445 seg1445
theorem run1447 : runSeg 18 105631 0 S0 = (S1447, true) := runSeg_comp 18 105558 73 0 S0 S1446 S1447 run1446 seg1446
theorem run1448 : runSeg 18 105704 0 S0 = (S1448, true) := runSeg_comp 18 105631 73 0 S0 S1447 S1448 run1447 seg1447
theorem run1449 : runSeg 18 105777 0 S0 = (S1449, true) := runSeg_comp 18 105704 73 0 S0 S1448 S1449 run1448 seg1448
theorem run1450 : runSeg 18 105850 0 S0 = (S1450, true) := runSeg_comp 18 105777 73 0 S0 S1449 S1450 run1449 seg1449
theorem run1451 : runSeg 18 105923 0 S0 = (S1451, true) := runSeg_comp 18 105850 73 0 S0 S1450 S1451 run1450 seg1450
theorem run1452 : runSeg 18 105996 0 S0 = (S1452, true) := runSeg_comp 18 105923 73 0 S0 S1451 S1452 run1451 seg1451
theorem run1453 : runSeg 18 106069 0 S0 = (S1453, true) := runSeg_comp 18 105996 73 0 S0 S1452 S1453 run1452 seg1452
theorem run1454 : runSeg 18 106142 0 S0 = (S1454, true) := runSeg_comp 18 106069 73 0 S0 S1453 S1454 run1453 seg1453
theorem run1455 : runSeg 18 106215 0 S0 = (S1455, true) := runSeg_comp 18 106142 73 0 S0 S1454 S1455 run1454 seg1454
theorem run1456 : runSeg 18 106288 0 S0 = (S1456, true) := runSeg_comp 18 106215 73 0 S0 S1455 S1456 run1455 seg1455
theorem run1457 : runSeg 18 106361 0 S0 = (S1457, true) := runSeg_comp 18 106288 73 0 S0 S1456 S1457 run1456 seg1456
theorem run1458 : runSeg 18 106434 0 S0 = (S1458, true) := runSeg_comp 18 106361 73 0 S0 S1457 S1458 run1457 seg1457
theorem run1459 : runSeg 18 106507 0 S0 = (S1459, true) := runSeg_comp 18 106434 73 0 S0 S1458 S1459 run1458 seg1458
theorem run1460 : runSeg 18 106580 0 S0 = (S1460, true) := runSeg_comp 18 106507 73 0 S0 S1459 S1460 run1459 seg1459
theorem run1461 : runSeg 18 106653 0 S0 = (S1461, true) := runSeg_comp 18 106580 73 0 S0 S1460 S1461 run1460 seg1460
theorem run1462 : runSeg 18 106726 0 S0 = (S1462, true) := runSeg_comp 18 106653 73 0 S0 S1461 S1462 run1461 seg1461
theorem run1463 : runSeg 18 106799 0 S0 = (S1463, true) := runSeg_comp 18 106726 73 0 S0 S1462 S1463 run1462 seg1462
theorem run1464 : runSeg 18 106872 0 S0 = (S1464, true) := runSeg_comp 18 106799 73 0 S0 S1463 S1464 run1463 seg1463
theorem run1465 : runSeg 18 106945 0 S0 = (S1465, true) := runSeg_comp 18 106872 73 0 S0 S1464 S1465 run1464 seg1464
theorem run1466 : runSeg 18 107018 0 S0 = (S1466, true) := runSeg_comp 18 106945 73 0 S0 S1465 S1466 run1465 seg1465
theorem run1467 : runSeg 18 107091 0 S0 = (S1467, true) := runSeg_comp 18 107018 73 0 S0 S1466 S1467 run1466 seg1466
theorem run1468 : runSeg 18 107164 0 S0 = (S1468, true) := runSeg_comp 18 107091 73 0 S0 S1467 S1468 run1467 seg1467
theorem run1469 : runSeg 18 107237 0 S0 = (S1469, true) := runSeg_comp 18 107164 73 0 S0 S1468 S1469 run1468 seg1468
theorem run1470 : runSeg 18 107310 0 S0 = (S1470, true) := runSeg_comp 18 107237 73 0 S0 S1469 S1470 run1469 seg1469
theorem run1471 : runSeg 18 107383 0 S0 = (S1471, true) := runSeg_comp 18 107310 73 0 S0 S1470 S1471 run1470 seg1470
theorem run1472 : runSeg 18 107456 0 S0 = (S1472, true) := runSeg_comp 18 107383 73 0 S0 S1471 S1472 run1471 seg1471
theorem run1473 : runSeg 18 107529 0 S0 = (S1473, true) := runSeg_comp 18 107456 73 0 S0 S1472 S1473 run1472 seg1472
theorem run1474 : runSeg 18 107602 0 S0 = (S1474, true) := runSeg_comp 18 107529 73 0 S0 S1473 S1474 run1473 seg1473
theorem run1475 : runSeg 18 107675 0 S0 = (S1475, true) := runSeg_comp 18 107602 73 0 S0 S1474 S1475 run1474 seg1474
theorem run1476 : runSeg 18 107748 0 S0 = (S1476, true) := runSeg_comp 18 107675 73 0 S0 S1475 S1476 run1475 seg1475
theorem run1477 : runSeg 18 107821 0 S0 = (S1477, true) := runSeg_comp 18 107748 73 0 S0 S1476 S1477 run1476 seg1476
theorem run1478 : runSeg 18 107894 0 S0 = (S1478, true) := runSeg_comp 18 107821 73 0 S0 S1477 S1478 run1477 seg1477
theorem run1479 : runSeg 18 107967 0 S0 = (S1479, true) := runSeg_comp 18 107894 73 0 S0 S1478 S1479 run1478 seg1478
theorem run1480 : runSeg 18 108040 0 S0 = (S1480, true) := runSeg_comp 18 107967 73 0 S0 S1479 S1480 run1479 seg1479
theorem run1481 : runSeg 18 108113 0 S0 = (S1481, true) := runSeg_comp 18 108040 73 0 S0 S1480 S1481 run1480 seg1480
theorem run1482 : runSeg 18 108186 0 S0 = (S1482, true) := runSeg_comp 18 108113 73 0 S0 S1481 S1482 run1481 seg1481
theorem run1483 : runSeg 18 108259 0 S0 = (S1483, true) := runSeg_comp 18 108186 73 0 S0 S1482 S1483 run1482 seg1482
theorem run1484 : runSeg 18 108332 0 S0 = (S1484, true) := runSeg_comp 18 108259 73 0 S0 S1483 S1484 run1483 seg1483
theorem run1485 : runSeg 18 108405 0 S0 = (S1485, true) := runSeg_comp 18 108332 73 0 S0 S1484 S1485 run1484 seg1484
theorem run1486 : runSeg 18 108478 0 S0 = (S1486, true) := runSeg_comp 18 108405 73 0 S0 S1485 S1486 run1485 seg1485
theorem run1487 : runSeg 18 108551 0 S0 = (S1487, true) := runSeg_comp 18 108478 73 0 S0 S1486 S1487 run1486 seg1486
theorem run1488 : runSeg 18 108624 0 S0 = (S1488, true) := runSeg_comp 18 108551 73 0 S0 S1487 S1488 run1487 seg1487
theorem run1489 : runSeg 18 108697 0 S0 = (S1489, true) := runSeg_comp 18 108624 73 0 S0 S1488 S1489 run1488 seg1488
theorem run1490 : runSeg 18 108770 0 S0 = (S1490, true) := runSeg_comp 18 108697 73 0 S0 S1489 S1490 run1489 seg1489
theorem run1491 : runSeg 18 108843 0 S0 = (S1491, true) := runSeg_comp 18 108770 73 0 S0 S1490 S1491 run1490 seg1490
theorem run1492 : runSeg 18 108916 0 S0 = (S1492, true) := runSeg_comp 18 108843 73 0 S0 S1491 S1492 run1491 seg1491
theorem run1493 : runSeg 18 108989 0 S0 = (S1493, true) := runSeg_comp 18 108916 73 0 S0 S1492 S1493 run1492 seg1492
theorem run1494 : runSeg 18 109062 0 S0 = (S1494, true) := runSeg_comp 18 108989 73 0 S0 S1493 S1494 run1493 seg1493
theorem run1495 : runSeg 18 109135 0 S0 = (S1495, true) := runSeg_comp 18 109062 73 0 S0 S1494 S1495 run1494 seg1494
theorem run1496 : runSeg 18 109208 0 S0 = (S1496, true) := runSeg_comp 18 109135 73 0 S0 S1495 S1496 run1495 seg1495
theorem run1497 : runSeg 18 109281 0 S0 = (S1497, true) := runSeg_comp 18 109208 73 0 S0 S1496 S1497 run1496 seg1496
theorem run1498 : runSeg 18 109354 0 S0 = (S1498, true) := runSeg_comp 18 109281 73 0 S0 S1497 S1498 run1497 seg1497
theorem run1499 : runSeg 18 109427 0 S0 = (S1499, true) := runSeg_comp 18 109354 73 0 S0 S1498 S1499 run1498 seg1498
theorem run1500 : runSeg 18 109500 0 S0 = (S1500, true) := runSeg_comp 18 109427 73 0 S0 S1499 S1500 run1499 seg1499
theorem run1501 : runSeg 18 109573 0 S0 = (S1501, true) := runSeg_comp 18 109500 73 0 S0 S1500 S1501 run1500 seg1500
theorem run1502 : runSeg 18 109646 0 S0 = (S1502, true) := runSeg_comp 18 109573 73 0 S0 S1501 S1502 run1501 seg1501
theorem run1503 : runSeg 18 109719 0 S0 = (S1503, true) := runSeg_comp 18 109646 73 0 S0 S1502 S1503 run1502 seg1502
theorem run1504 : runSeg 18 109792 0 S0 = (S1504, true) := runSeg_comp 18 109719 73 0 S0 S1503 S1504 run1503 seg1503
theorem run1505 : runSeg 18 109865 0 S0 = (S1505, true) := runSeg_comp 18 109792 73 0 S0 S1504 S1505 run1504 seg1504
theorem run1506 : runSeg 18 109938 0 S0 = (S1506, true) := runSeg_comp 18 109865 73 0 S0 S1505 S1506 run1505 seg1505
theorem run1507 : runSeg 18 110011 0 S0 = (S1507, true) := runSeg_comp 18 109938 73 0 S0 S1506 S1507 run1506 seg1506
theorem run1508 : runSeg 18 110084 0 S0 = (S1508, true) := runSeg_comp 18 110011 73 0 S0 S1507 S1508 run1507 seg1507
theorem run1509 : runSeg 18 110157 0 S0 = (S1509, true) := runSeg_comp 18 110084 73 0 S0 S1508 S1509 run1508 seg1508
theorem run1510 : runSeg 18 110230 0 S0 = (S1510, true) := runSeg_comp 18 110157 73 0 S0 S1509 S1510 run1509 seg1509
theorem run1511 : runSeg 18 110303 0 S0 = (S1511, true) := runSeg_comp 18 110230 73 0 S0 S1510 S1511 run1510 seg1510
theorem run1512 : runSeg 18 110376 0 S0 = (S1512, true) := runSeg_comp 18 110303 73 0 S0 S1511 S1512 run1511 seg1511
theorem run1513 : runSeg 18 110449 0 S0 = (S1513, true) := runSeg_comp 18 110376 73 0 S0 S1512 S1513 run1512 seg1512
theorem run1514 : runSeg 18 110522 0 S0 = (S1514, true) := runSeg_comp 18 110449 73 0 S0 S1513 S1514 run1513 seg1513
theorem run1515 : runSeg 18 110595 0 S0 = (S1515, true) := runSeg_comp 18 110522 73 0 S0 S1514 S1515 run1514 seg1514
theorem run1516 : runSeg 18 110668 0 S0 = (S1516, true) := runSeg_comp 18 110595 73 0 S0 S1515 S1516 run1515 seg1515
theorem run1517 : runSeg 18 110741 0 S0 = (S1517, true) := runSeg_comp 18 110668 73 0 S0 S1516 S1517 run1516 seg1516
theorem run1518 : runSeg 18 110814 0 S0 = (S1518, true) := runSeg_comp 18 110741 73 0 S0 S1517 S1518 run1517 seg1517
theorem run1519 : runSeg 18 110887 0 S0 = (S1519, true) := runSeg_comp 18 110814 73 0 S0 S1518 S1519 run1518 seg1518
theorem run1520 : runSeg 18 110960 0 S0 = (S1520, true) := runSeg_comp 18 110887 73 0 S0 S1519 S1520 run1519 seg1519
theorem run1521 : runSeg 18 111033 0 S0 = (S1521, true) := runSeg_comp 18 110960 73 0 S0 S1520 S1521 run1520 seg1520
theorem run1522 : runSeg 18 111106 0 S0 = (S1522, true) := runSeg_comp 18 111033 73 0 S0 S1521 S1522 run1521 seg1521
theorem run1523 : runSeg 18 111179 0 S0 = (S1523, true) := runSeg_comp 18 111106 73 0 S0 S1522 S1523 run1522 seg1522
theorem run1524 : runSeg 18 111252 0 S0 = (S1524, true) := runSeg_comp 18 111179 73 0 S0 S1523 S1524 run1523 seg1523
theorem run1525 : runSeg 18 111325 0 S0 = (S1525, true) := runSeg_comp 18 111252 73 0 S0 S1524 S1525 run1524 seg1524
theorem run1526 : runSeg 18 111398 0 S0 = (S1526, true) := runSeg_comp 18 111325 73 0 S0 S1525 S1526 run1525 seg1525
theorem run1527 : runSeg 18 111471 0 S0 = (S1527, true) := runSeg_comp 18 111398 73 0 S0 S1526 S1527 run1526 seg1526
theorem run1528 : runSeg 18 111544 0 S0 = (S1528, true) := runSeg_comp 18 111471 73 0 S0 S1527 S1528 run1527 seg1527
theorem run1529 : runSeg 18 111617 0 S0 = (S1529, true) := runSeg_comp 18 111544 73 0 S0 S1528 S1529 run1528 seg1528
theorem run1530 : runSeg 18 111690 0 S0 = (S1530, true) := runSeg_comp 18 111617 73 0 S0 S1529 S1530 run1529 seg1529
theorem run1531 : runSeg 18 111763 0 S0 = (S1531, true) := runSeg_comp 18 111690 73 0 S0 S1530 S1531 run1530 seg1530
theorem run1532 : runSeg 18 111836 0 S0 = (S1532, true) := runSeg_comp 18 111763 73 0 S0 S1531 S1532 run1531 seg1531
theorem run1533 : runSeg 18 111909 0 S0 = (S1533, true) := runSeg_comp 18 111836 73 0 S0 S1532 S1533 run1532 seg1532
theorem run1534 : runSeg 18 111982 0 S0 = (S1534, true) := runSeg_comp 18 111909 73 0 S0 S1533 S1534 run1533 seg1533
theorem run1535 : runSeg 18 112055 0 S0 = (S1535, true) := runSeg_comp 18 111982 73 0 S0 S1534 S1535 run1534 seg1534
theorem run1536 : runSeg 18 112128 0 S0 = (S1536, true) := runSeg_comp 18 112055 73 0 S0 S1535 S1536 run1535 seg1535
theorem run1537 : runSeg 18 112201 0 S0 = (S1537, true) := runSeg_comp 18 112128 73 0 S0 S1536 S1537 run1536 seg1536
theorem run1538 : runSeg 18 112274 0 S0 = (S1538, true) := runSeg_comp 18 112201 73 0 S0 S1537 S1538 run1537 seg1537
theorem run1539 : runSeg 18 112347 0 S0 = (S1539, true) := runSeg_comp 18 112274 73 0 S0 S1538 S1539 run1538 seg1538
theorem run1540 : runSeg 18 112420 0 S0 = (S1540, true) := runSeg_comp 18 112347 73 0 S0 S1539 S1540 run1539 seg1539
theorem run1541 : runSeg 18 112493 0 S0 = (S1541, true) := runSeg_comp 18 112420 73 0 S0 S1540 S1541 run1540 seg1540
theorem run1542 : runSeg 18 112566 0 S0 = (S1542, true) := runSeg_comp 18 112493 73 0 S0 S1541 S1542 run1541 seg1541
theorem run1543 : runSeg 18 112639 0 S0 = (S1543, true) := runSeg_comp 18 112566 73 0 S0 S1542 S1543 run1542 seg1542
theorem run1544 : runSeg 18 112712 0 S0 = (S1544, true) := runSeg_comp 18 112639 73 0 S0 S1543 S1544 run1543 seg1543
theorem run1545 : runSeg 18 112785 0 S0 = (S1545, true) := runSeg_comp 18 112712 73 0 S0 S1544 S1545 run1544 seg1544
theorem run1546 : runSeg 18 112858 0 S0 = (S1546, true) := runSeg_comp 18 112785 73 0 S0 S1545 S1546 run1545 seg1545
theorem run1547 : runSeg 18 112931 0 S0 = (S1547, true) := runSeg_comp 18 112858 73 0 S0 S1546 S1547 run1546 seg1546
theorem run1548 : runSeg 18 113004 0 S0 = (S1548, true) := runSeg_comp 18 112931 73 0 S0 S1547 S1548 run1547 seg1547
theorem run1549 : runSeg 18 113077 0 S0 = (S1549, true) := runSeg_comp 18 113004 73 0 S0 S1548 S1549 run1548 seg1548
theorem run1550 : runSeg 18 113150 0 S0 = (S1550, true) := runSeg_comp 18 113077 73 0 S0 S1549 S1550 run1549 seg1549
theorem run1551 : runSeg 18 113223 0 S0 = (S1551, true) := runSeg_comp 18 113150 73 0 S0 S1550 S1551 run1550 seg1550
theorem run1552 : runSeg 18 113296 0 S0 = (S1552, true) := runSeg_comp 18 113223 73 0 S0 S1551 S1552 run1551 seg1551
theorem run1553 : runSeg 18 113369 0 S0 = (S1553, true) := runSeg_comp 18 113296 73 0 S0 S1552 S1553 run1552 seg1552
theorem run1554 : runSeg 18 113442 0 S0 = (S1554, true) := runSeg_comp 18 113369 73 0 S0 S1553 S1554 run1553 seg1553
theorem run1555 : runSeg 18 113515 0 S0 = (S1555, true) := runSeg_comp 18 113442 73 0 S0 S1554 S1555 run1554 seg1554
theorem run1556 : runSeg 18 113588 0 S0 = (S1556, true) := runSeg_comp 18 113515 73 0 S0 S1555 S1556 run1555 seg1555
theorem run1557 : runSeg 18 113661 0 S0 = (S1557, true) := runSeg_comp 18 113588 73 0 S0 S1556 S1557 run1556 seg1556
theorem run1558 : runSeg 18 113734 0 S0 = (S1558, true) := runSeg_comp 18 113661 73 0 S0 S1557 S1558 run1557 seg1557
theorem run1559 : runSeg 18 113807 0 S0 = (S1559, true) := runSeg_comp 18 113734 73 0 S0 S1558 S1559 run1558 seg1558
theorem run1560 : runSeg 18 113880 0 S0 = (S1560, true) := runSeg_comp 18 113807 73 0 S0 S1559 S1560 run1559 seg1559
theorem run1561 : runSeg 18 113953 0 S0 = (S1561, true) := runSeg_comp 18 113880 73 0 S0 S1560 S1561 run1560 seg1560
theorem run1562 : runSeg 18 114026 0 S0 = (S1562, true) := runSeg_comp 18 113953 73 0 S0 S1561 S1562 run1561 seg1561
theorem run1563 : runSeg 18 114099 0 S0 = (S1563, true) := runSeg_comp 18 114026 73 0 S0 S1562 S1563 run1562 seg1562
theorem run1564 : runSeg 18 114172 0 S0 = (S1564, true) := runSeg_comp 18 114099 73 0 S0 S1563 S1564 run1563 seg1563
theorem run1565 : runSeg 18 114245 0 S0 = (S1565, true) := runSeg_comp 18 114172 73 0 S0 S1564 S1565 run1564 seg1564
theorem run1566 : runSeg 18 114318 0 S0 = (S1566, true) := runSeg_comp 18 114245 73 0 S0 S1565 S1566 run1565 seg1565
theorem run1567 : runSeg 18 114391 0 S0 = (S1567, true) := runSeg_comp 18 114318 73 0 S0 S1566 S1567 run1566 seg1566
theorem run1568 : runSeg 18 114464 0 S0 = (S1568, true) := runSeg_comp 18 114391 73 0 S0 S1567 S1568 run1567 seg1567
theorem run1569 : runSeg 18 114537 0 S0 = (S1569, true) := runSeg_comp 18 114464 73 0 S0 S1568 S1569 run1568 seg1568
theorem run1570 : runSeg 18 114610 0 S0 = (S1570, true) := runSeg_comp 18 114537 73 0 S0 S1569 S1570 run1569 seg1569
theorem run1571 : runSeg 18 114683 0 S0 = (S1571, true) := runSeg_comp 18 114610 73 0 S0 S1570 S1571 run1570 seg1570
theorem run1572 : runSeg 18 114756 0 S0 = (S1572, true) := runSeg_comp 18 114683 73 0 S0 S1571 S1572 run1571 seg1571
theorem run1573 : runSeg 18 114829 0 S0 = (S1573, true) := runSeg_comp 18 114756 73 0 S0 S1572 S1573 run1572 seg1572
theorem run1574 : runSeg 18 114902 0 S0 = (S1574, true) := runSeg_comp 18 114829 73 0 S0 S1573 S1574 run1573 seg1573
theorem run1575 : runSeg 18 114975 0 S0 = (S1575, true) := runSeg_comp 18 114902 73 0 S0 S1574 S1575 run1574 seg1574
theorem run1576 : runSeg 18 115048 0 S0 = (S1576, true) := runSeg_comp 18 114975 73 0 S0 S1575 S1576 run1575 seg1575
theorem run1577 : runSeg 18 115121 0 S0 = (S1577, true) := runSeg_comp 18 115048 73 0 S0 S1576 S1577 run1576 seg1576
theorem run1578 : runSeg 18 115194 0 S0 = (S1578, true) := runSeg_comp 18 115121 73 0 S0 S1577 S1578 run1577 seg1577
theorem run1579 : runSeg 18 115267 0 S0 = (S1579, true) := runSeg_comp 18 115194 73 0 S0 S1578 S1579 run1578 seg1578
theorem run1580 : runSeg 18 115340 0 S0 = (S1580, true) := runSeg_comp 18 115267 73 0 S0 S1579 S1580 run1579 seg1579
theorem run1581 : runSeg 18 115413 0 S0 = (S1581, true) := runSeg_comp 18 115340 73 0 S0 S1580 S1581 run1580 seg1580
theorem run1582 : runSeg 18 115486 0 S0 = (S1582, true) := runSeg_comp 18 115413 73 0 S0 S1581 S1582 run1581 seg1581
theorem run1583 : runSeg 18 115559 0 S0 = (S1583, true) := runSeg_comp 18 115486 73 0 S0 S1582 S1583 run1582 seg1582
theorem run1584 : runSeg 18 115632 0 S0 = (S1584, true) := runSeg_comp 18 115559 73 0 S0 S1583 S1584 run1583 seg1583
theorem run1585 : runSeg 18 115705 0 S0 = (S1585, true) := runSeg_comp 18 115632 73 0 S0 S1584 S1585 run1584 seg1584
theorem run1586 : runSeg 18 115778 0 S0 = (S1586, true) := runSeg_comp 18 115705 73 0 S0 S1585 S1586 run1585 seg1585
theorem run1587 : runSeg 18 115851 0 S0 = (S1587, true) := runSeg_comp 18 115778 73 0 S0 S1586 S1587 run1586 seg1586
theorem run1588 : runSeg 18 115924 0 S0 = (S1588, true) := runSeg_comp 18 115851 73 0 S0 S1587 S1588 run1587 seg1587
theorem run1589 : runSeg 18 115997 0 S0 = (S1589, true) := runSeg_comp 18 115924 73 0 S0 S1588 S1589 run1588 seg1588
theorem run1590 : runSeg 18 116070 0 S0 = (S1590, true) := runSeg_comp 18 115997 73 0 S0 S1589 S1590 run1589 seg1589
theorem run1591 : runSeg 18 116143 0 S0 = (S1591, true) := runSeg_comp 18 116070 73 0 S0 S1590 S1591 run1590 seg1590
theorem run1592 : runSeg 18 116216 0 S0 = (S1592, true) := runSeg_comp 18 116143 73 0 S0 S1591 S1592 run1591 seg1591
theorem run1593 : runSeg 18 116289 0 S0 = (S1593, true) := runSeg_comp 18 116216 73 0 S0 S1592 S1593 run1592 seg1592
theorem run1594 : runSeg 18 116362 0 S0 = (S1594, true) := runSeg_comp 18 116289 73 0 S0 S1593 S1594 run1593 seg1593
theorem run1595 : runSeg 18 116435 0 S0 = (S1595, true) := runSeg_comp 18 116362 73 0 S0 S1594 S1595 run1594 seg1594
theorem run1596 : runSeg 18 116508 0 S0 = (S1596, true) := runSeg_comp 18 116435 73 0 S0 S1595 S1596 run1595 seg1595
theorem run1597 : runSeg 18 116581 0 S0 = (S1597, true) := runSeg_comp 18 116508 73 0 S0 S1596 S1597 run1596 seg1596
theorem run1598 : runSeg 18 116654 0 S0 = (S1598, true) := runSeg_comp 18 116581 73 0 S0 S1597 S1598 run1597 seg1597
theorem run1599 : runSeg 18 116727 0 S0 = (S1599, true) := runSeg_comp 18 116654 73 0 S0 S1598 S1599 run1598 seg1598
theorem run1600 : runSeg 18 116800 0 S0 = (S1600, true) := runSeg_comp 18 116727 73 0 S0 S1599 S1600 run1599 seg1599
theorem run1601 : runSeg 18 116873 0 S0 = (S1601, true) := runSeg_comp 18 116800 73 0 S0 S1600 S1601 run1600 seg1600
theorem run1602 : runSeg 18 116946 0 S0 = (S1602, true) := runSeg_comp 18 116873 73 0 S0 S1601 S1602 run1601 seg1601
theorem run1603 : runSeg 18 117019 0 S0 = (S1603, true) := runSeg_comp 18 116946 73 0 S0 S1602 S1603 run1602 seg1602
theorem run1604 : runSeg 18 117092 0 S0 = (S1604, true) := runSeg_comp 18 117019 73 0 S0 S1603 S1604 run1603 seg1603
theorem run1605 : runSeg 18 117165 0 S0 = (S1605, true) := runSeg_comp 18 117092 73 0 S0 S1604 S1605 run1604 seg1604
theorem run1606 : runSeg 18 117238 0 S0 = (S1606, true) := runSeg_comp 18 117165 73 0 S0 S1605 S1606 run1605 seg1605
theorem run1607 : runSeg 18 117311 0 S0 = (S1607, true) := runSeg_comp 18 117238 73 0 S0 S1606 S1607 run1606 seg1606
theorem run1608 : runSeg 18 117384 0 S0 = (S1608, true) := runSeg_comp 18 117311 73 0 S0 S1607 S1608 run1607 seg1607
theorem run1609 : runSeg 18 117457 0 S0 = (S1609, true) := runSeg_comp 18 117384 73 0 S0 S1608 S1609 run1608 seg1608
theorem run1610 : runSeg 18 117530 0 S0 = (S1610, true) := runSeg_comp 18 117457 73 0 S0 S1609 S1610 run1609 seg1609
theorem run1611 : runSeg 18 117603 0 S0 = (S1611, true) := runSeg_comp 18 117530 73 0 S0 S1610 S1611 run1610 seg1610
theorem run1612 : runSeg 18 117676 0 S0 = (S1612, true) := runSeg_comp 18 117603 73 0 S0 S1611 S1612 run1611 seg1611
theorem run1613 : runSeg 18 117749 0 S0 = (S1613, true) := runSeg_comp 18 117676 73 0 S0 S1612 S1613 run1612 seg1612
theorem run1614 : runSeg 18 117822 0 S0 = (S1614, true) := runSeg_comp 18 117749 73 0 S0 S1613 S1614 run1613 seg1613
theorem run1615 : runSeg 18 117895 0 S0 = (S1615, true) := runSeg_comp 18 117822 73 0 S0 S1614 S1615 run1614 seg1614
theorem run1616 : runSeg 18 117968 0 S0 = (S1616, true) := runSeg_comp 18 117895 73 0 S0 S1615 S1616 run1615 seg1615
theorem run1617 : runSeg 18 118041 0 S0 = (S1617, true) := runSeg_comp 18 117968 73 0 S0 S1616 S1617 run1616 seg1616
theorem run1618 : runSeg 18 118114 0 S0 = (S1618, true) := runSeg_comp 18 118041 73 0 S0 S1617 S1618 run1617 seg1617
theorem run1619 : runSeg 18 118187 0 S0 = (S1619, true) := runSeg_comp 18 118114 73 0 S0 S1618 S1619 run1618 seg1618
theorem run1620 : runSeg 18 118260 0 S0 = (S1620, true) := runSeg_comp 18 118187 73 0 S0 S1619 S1620 run1619 seg1619
theorem run1621 : runSeg 18 118333 0 S0 = (S1621, true) := runSeg_comp 18 118260 73 0 S0 S1620 S1621 run1620 seg1620
theorem run1622 : runSeg 18 118406 0 S0 = (S1622, true) := runSeg_comp 18 118333 73 0 S0 S1621 S1622 run1621 seg1621
theorem run1623 : runSeg 18 118479 0 S0 = (S1623, true) := runSeg_comp 18 118406 73 0 S0 S1622 S1623 run1622 seg1622
theorem run1624 : runSeg 18 118552 0 S0 = (S1624, true) := runSeg_comp 18 118479 73 0 S0 S1623 S1624 run1623 seg1623
theorem run1625 : runSeg 18 118625 0 S0 = (S1625, true) := runSeg_comp 18 118552 73 0 S0 S1624 S1625 run1624 seg1624
theorem run1626 : runSeg 18 118698 0 S0 = (S1626, true) := runSeg_comp 18 118625 73 0 S0 S1625 S1626 run1625 seg1625
theorem run1627 : runSeg 18 118771 0 S0 = (S1627, true) := runSeg_comp 18 118698 73 0 S0 S1626 S1627 run1626 seg1626
theorem run1628 : runSeg 18 118844 0 S0 = (S1628, true) := runSeg_comp 18 118771 73 0 S0 S1627 S1628 run1627 seg1627
theorem run1629 : runSeg 18 118917 0 S0 = (S1629, true) := runSeg_comp 18 118844 73 0 S0 S1628 S1629 run1628 seg1628
theorem run1630 : runSeg 18 118990 0 S0 = (S1630, true) := runSeg_comp 18 118917 73 0 S0 S1629 S1630 run1629 seg1629
theorem run1631 : runSeg 18 119063 0 S0 = (S1631, true) := runSeg_comp 18 118990 73 0 S0 S1630 S1631 run1630 seg1630
theorem run1632 : runSeg 18 119136 0 S0 = (S1632, true) := runSeg_comp 18 119063 73 0 S0 S1631 S1632 run1631 seg1631
theorem run1633 : runSeg 18 119209 0 S0 = (S1633, true) := runSeg_comp 18 119136 73 0 S0 S1632 S1633 run1632 seg1632
theorem run1634 : runSeg 18 119282 0 S0 = (S1634, true) := runSeg_comp 18 119209 73 0 S0 S1633 S1634 run1633 seg1633
theorem run1635 : runSeg 18 119355 0 S0 = (S1635, true) := runSeg_comp 18 119282 73 0 S0 S1634 S1635 run1634 seg1634
theorem run1636 : runSeg 18 119428 0 S0 = (S1636, true) := runSeg_comp 18 119355 73 0 S0 S1635 S1636 run1635 seg1635
theorem run1637 : runSeg 18 119501 0 S0 = (S1637, true) := runSeg_comp 18 119428 73 0 S0 S1636 S1637 run1636 seg1636
theorem run1638 : runSeg 18 119574 0 S0 = (S1638, true) := runSeg_comp 18 119501 73 0 S0 S1637 S1638 run1637 seg1637
theorem run1639 : runSeg 18 119647 0 S0 = (S1639, true) := runSeg_comp 18 119574 73 0 S0 S1638 S1639 run1638 seg1638
theorem run1640 : runSeg 18 119720 0 S0 = (S1640, true) := runSeg_comp 18 119647 73 0 S0 S1639 S1640 run1639 seg1639
theorem run1641 : runSeg 18 119793 0 S0 = (S1641, true) := runSeg_comp 18 119720 73 0 S0 S1640 S1641 run1640 seg1640
theorem run1642 : runSeg 18 119866 0 S0 = (S1642, true) := runSeg_comp 18 119793 73 0 S0 S1641 S1642 run1641 seg1641
theorem run1643 : runSeg 18 119939 0 S0 = (S1643, true) := runSeg_comp 18 119866 73 0 S0 S1642 S1643 run1642 seg1642
theorem run1644 : runSeg 18 120012 0 S0 = (S1644, true) := runSeg_comp 18 119939 73 0 S0 S1643 S1644 run1643 seg1643
theorem run1645 : runSeg 18 120085 0 S0 = (S1645, true) := runSeg_comp 18 120012 73 0 S0 S1644 S1645 run1644 seg1644
theorem run1646 : runSeg 18 120158 0 S0 = (S1646, true) := runSeg_comp 18 120085 73 0 S0 S1645 S1646 run1645 seg1645
theorem run1647 : runSeg 18 120231 0 S0 = (S1647, true) := runSeg_comp 18 120158 73 0 S0 S1646 S1647 run1646 seg1646
theorem run1648 : runSeg 18 120304 0 S0 = (S1648, true) := runSeg_comp 18 120231 73 0 S0 S1647 S1648 run1647 seg1647
theorem run1649 : runSeg 18 120377 0 S0 = (S1649, true) := runSeg_comp 18 120304 73 0 S0 S1648 S1649 run1648 seg1648
theorem run1650 : runSeg 18 120450 0 S0 = (S1650, true) := runSeg_comp 18 120377 73 0 S0 S1649 S1650 run1649 seg1649
theorem run1651 : runSeg 18 120523 0 S0 = (S1651, true) := runSeg_comp 18 120450 73 0 S0 S1650 S1651 run1650 seg1650
theorem run1652 : runSeg 18 120596 0 S0 = (S1652, true) := runSeg_comp 18 120523 73 0 S0 S1651 S1652 run1651 seg1651
theorem run1653 : runSeg 18 120669 0 S0 = (S1653, true) := runSeg_comp 18 120596 73 0 S0 S1652 S1653 run1652 seg1652
theorem run1654 : runSeg 18 120742 0 S0 = (S1654, true) := runSeg_comp 18 120669 73 0 S0 S1653 S1654 run1653 seg1653
theorem run1655 : runSeg 18 120815 0 S0 = (S1655, true) := runSeg_comp 18 120742 73 0 S0 S1654 S1655 run1654 seg1654
theorem run1656 : runSeg 18 120888 0 S0 = (S1656, true) := runSeg_comp 18 120815 73 0 S0 S1655 S1656 run1655 seg1655
theorem run1657 : runSeg 18 120961 0 S0 = (S1657, true) := runSeg_comp 18 120888 73 0 S0 S1656 S1657 run1656 seg1656
theorem run1658 : runSeg 18 121034 0 S0 = (S1658, true) := runSeg_comp 18 120961 73 0 S0 S1657 S1658 run1657 seg1657
theorem run1659 : runSeg 18 121107 0 S0 = (S1659, true) := runSeg_comp 18 121034 73 0 S0 S1658 S1659 run1658 seg1658
theorem run1660 : runSeg 18 121180 0 S0 = (S1660, true) := runSeg_comp 18 121107 73 0 S0 S1659 S1660 run1659 seg1659
theorem run1661 : runSeg 18 121253 0 S0 = (S1661, true) := runSeg_comp 18 121180 73 0 S0 S1660 S1661 run1660 seg1660
theorem run1662 : runSeg 18 121326 0 S0 = (S1662, true) := runSeg_comp 18 121253 73 0 S0 S1661 S1662 run1661 seg1661
theorem run1663 : runSeg 18 121399 0 S0 = (S1663, true) := runSeg_comp 18 121326 73 0 S0 S1662 S1663 run1662 seg1662
theorem run1664 : runSeg 18 121472 0 S0 = (S1664, true) := runSeg_comp 18 121399 73 0 S0 S1663 S1664 run1663 seg1663
theorem run1665 : runSeg 18 121545 0 S0 = (S1665, true) := runSeg_comp 18 121472 73 0 S0 S1664 S1665 run1664 seg1664
theorem run1666 : runSeg 18 121618 0 S0 = (S1666, true) := runSeg_comp 18 121545 73 0 S0 S1665 S1666 run1665 seg1665
theorem run1667 : runSeg 18 121691 0 S0 = (S1667, true) := runSeg_comp 18 121618 73 0 S0 S1666 S1667 run1666 seg1666
theorem run1668 : runSeg 18 121764 0 S0 = (S1668, true) := runSeg_comp 18 121691 73 0 S0 S1667 S1668 run1667 seg1667
theorem run1669 : runSeg 18 121837 0 S0 = (S1669, true) := runSeg_comp 18 121764 73 0 S0 S1668 S1669 run1668 seg1668
theorem run1670 : runSeg 18 121910 0 S0 = (S1670, true) := runSeg_comp 18 121837 73 0 S0 S1669 S1670 run1669 seg1669
theorem run1671 : runSeg 18 121983 0 S0 = (S1671, true) := runSeg_comp 18 121910 73 0 S0 S1670 S1671 run1670 seg1670
theorem run1672 : runSeg 18 122056 0 S0 = (S1672, true) := runSeg_comp 18 121983 73 0 S0 S1671 S1672 run1671 seg1671
theorem run1673 : runSeg 18 122129 0 S0 = (S1673, true) := runSeg_comp 18 122056 73 0 S0 S1672 S1673 run1672 seg1672
theorem run1674 : runSeg 18 122202 0 S0 = (S1674, true) := runSeg_comp 18 122129 73 0 S0 S1673 S1674 run1673 seg1673
theorem run1675 : runSeg 18 122275 0 S0 = (S1675, true) := runSeg_comp 18 122202 73 0 S0 S1674 S1675 run1674 seg1674
theorem run1676 : runSeg 18 122348 0 S0 = (S1676, true) := runSeg_comp 18 122275 73 0 S0 S1675 S1676 run1675 seg1675
theorem run1677 : runSeg 18 122421 0 S0 = (S1677, true) := runSeg_comp 18 122348 73 0 S0 S1676 S1677 run1676 seg1676
theorem run1678 : runSeg 18 122494 0 S0 = (S1678, true) := runSeg_comp 18 122421 73 0 S0 S1677 S1678 run1677 seg1677
theorem run1679 : runSeg 18 122567 0 S0 = (S1679, true) := runSeg_comp 18 122494 73 0 S0 S1678 S1679 run1678 seg1678
theorem run1680 : runSeg 18 122640 0 S0 = (S1680, true) := runSeg_comp 18 122567 73 0 S0 S1679 S1680 run1679 seg1679
theorem run1681 : runSeg 18 122713 0 S0 = (S1681, true) := runSeg_comp 18 122640 73 0 S0 S1680 S1681 run1680 seg1680
theorem run1682 : runSeg 18 122786 0 S0 = (S1682, true) := runSeg_comp 18 122713 73 0 S0 S1681 S1682 run1681 seg1681
theorem run1683 : runSeg 18 122859 0 S0 = (S1683, true) := runSeg_comp 18 122786 73 0 S0 S1682 S1683 run1682 seg1682
theorem run1684 : runSeg 18 122932 0 S0 = (S1684, true) := runSeg_comp 18 122859 73 0 S0 S1683 S1684 run1683 seg1683
theorem run1685 : runSeg 18 123005 0 S0 = (S1685, true) := runSeg_comp 18 122932 73 0 S0 S1684 S1685 run1684 seg1684
theorem run1686 : runSeg 18 123078 0 S0 = (S1686, true) := runSeg_comp 18 123005 73 0 S0 S1685 S1686 run1685 seg1685
theorem run1687 : runSeg 18 123151 0 S0 = (S1687, true) := runSeg_comp 18 123078 73 0 S0 S1686 S1687 run1686 seg1686
theorem run1688 : runSeg 18 123224 0 S0 = (S1688, true) := runSeg_comp 18 123151 73 0 S0 S1687 S1688 run1687 seg1687
theorem run1689 : runSeg 18 123297 0 S0 = (S1689, true) := runSeg_comp 18 123224 73 0 S0 S1688 S1689 run1688 seg1688
theorem run1690 : runSeg 18 123370 0 S0 = (S1690, true) := runSeg_comp 18 123297 73 0 S0 S1689 S1690 run1689 seg1689
theorem run1691 : runSeg 18 123443 0 S0 = (S1691, true) := runSeg_comp 18 123370 73 0 S0 S1690 S1691 run1690 seg1690
theorem run1692 : runSeg 18 123516 0 S0 = (S1692, true) := runSeg_comp 18 123443 73 0 S0 S1691 S1692 run1691 seg1691
theorem run1693 : runSeg 18 123589 0 S0 = (S1693, true) := runSeg_comp 18 123516 73 0 S0 S1692 S1693 run1692 seg1692
theorem run1694 : runSeg 18 123662 0 S0 = (S1694, true) := runSeg_comp 18 123589 73 0 S0 S1693 S1694 run1693 seg1693
theorem run1695 : runSeg 18 123735 0 S0 = (S1695, true) := runSeg_comp 18 123662 73 0 S0 S1694 S1695 run1694 seg1694
theorem run1696 : runSeg 18 123808 0 S0 = (S1696, true) := runSeg_comp 18 123735 73 0 S0 S1695 S1696 run1695 seg1695
theorem run1697 : runSeg 18 123881 0 S0 = (S1697, true) := runSeg_comp 18 123808 73 0 S0 S1696 S1697 run1696 seg1696
theorem run1698 : runSeg 18 123954 0 S0 = (S1698, true) := runSeg_comp 18 123881 73 0 S0 S1697 S1698 run1697 seg1697
theorem run1699 : runSeg 18 124027 0 S0 = (S1699, true) := runSeg_comp 18 123954 73 0 S0 S1698 S1699 run1698 seg1698
theorem run1700 : runSeg 18 124100 0 S0 = (S1700, true) := runSeg_comp 18 124027 73 0 S0 S1699 S1700 run1699 seg1699
theorem run1701 : runSeg 18 124173 0 S0 = (S1701, true) := runSeg_comp 18 124100 73 0 S0 S1700 S1701 run1700 seg1700
theorem run1702 : runSeg 18 124246 0 S0 = (S1702, true) := runSeg_comp 18 124173 73 0 S0 S1701 S1702 run1701 seg1701
theorem run1703 : runSeg 18 124319 0 S0 = (S1703, true) := runSeg_comp 18 124246 73 0 S0 S1702 S1703 run1702 seg1702
theorem run1704 : runSeg 18 124392 0 S0 = (S1704, true) := runSeg_comp 18 124319 73 0 S0 S1703 S1704 run1703 seg1703
theorem run1705 : runSeg 18 124465 0 S0 = (S1705, true) := runSeg_comp 18 124392 73 0 S0 S1704 S1705 run1704 seg1704
theorem run1706 : runSeg 18 124538 0 S0 = (S1706, true) := runSeg_comp 18 124465 73 0 S0 S1705 S1706 run1705 seg1705
theorem run1707 : runSeg 18 124611 0 S0 = (S1707, true) := runSeg_comp 18 124538 73 0 S0 S1706 S1707 run1706 seg1706
theorem run1708 : runSeg 18 124684 0 S0 = (S1708, true) := runSeg_comp 18 124611 73 0 S0 S1707 S1708 run1707 seg1707
theorem run1709 : runSeg 18 124757 0 S0 = (S1709, true) := runSeg_comp 18 124684 73 0 S0 S1708 S1709 run1708 seg1708
theorem run1710 : runSeg 18 124830 0 S0 = (S1710, true) := runSeg_comp 18 124757 73 0 S0 S1709 S1710 run1709 seg1709
theorem run1711 : runSeg 18 124903 0 S0 = (S1711, true) := runSeg_comp 18 124830 73 0 S0 S1710 S1711 run1710 seg1710
theorem run1712 : runSeg 18 124976 0 S0 = (S1712, true) := runSeg_comp 18 124903 73 0 S0 S1711 S1712 run1711 seg1711
theorem run1713 : runSeg 18 125049 0 S0 = (S1713, true) := runSeg_comp 18 124976 73 0 S0 S1712 S1713 run1712 seg1712
theorem run1714 : runSeg 18 125122 0 S0 = (S1714, true) := runSeg_comp 18 125049 73 0 S0 S1713 S1714 run1713 seg1713
theorem run1715 : runSeg 18 125195 0 S0 = (S1715, true) := runSeg_comp 18 125122 73 0 S0 S1714 S1715 run1714 seg1714
theorem run1716 : runSeg 18 125268 0 S0 = (S1716, true) := runSeg_comp 18 125195 73 0 S0 S1715 S1716 run1715 seg1715
theorem run1717 : runSeg 18 125341 0 S0 = (S1717, true) := runSeg_comp 18 125268 73 0 S0 S1716 S1717 run1716 seg1716
theorem run1718 : runSeg 18 125414 0 S0 = (S1718, true) := runSeg_comp 18 125341 73 0 S0 S1717 S1718 run1717 seg1717
theorem run1719 : runSeg 18 125487 0 S0 = (S1719, true) := runSeg_comp 18 125414 73 0 S0 S1718 S1719 run1718 seg1718
theorem run1720 : runSeg 18 125560 0 S0 = (S1720, true) := runSeg_comp 18 125487 73 0 S0 S1719 S1720 run1719 seg1719
theorem run1721 : runSeg 18 125633 0 S0 = (S1721, true) := runSeg_comp 18 125560 73 0 S0 S1720 S1721 run1720 seg1720
theorem run1722 : runSeg 18 125706 0 S0 = (S1722, true) := runSeg_comp 18 125633 73 0 S0 S1721 S1722 run1721 seg1721
theorem run1723 : runSeg 18 125779 0 S0 = (S1723, true) := runSeg_comp 18 125706 73 0 S0 S1722 S1723 run1722 seg1722
theorem run1724 : runSeg 18 125852 0 S0 = (S1724, true) := runSeg_comp 18 125779 73 0 S0 S1723 S1724 run1723 seg1723
theorem run1725 : runSeg 18 125925 0 S0 = (S1725, true) := runSeg_comp 18 125852 73 0 S0 S1724 S1725 run1724 seg1724
theorem run1726 : runSeg 18 125998 0 S0 = (S1726, true) := runSeg_comp 18 125925 73 0 S0 S1725 S1726 run1725 seg1725
theorem run1727 : runSeg 18 126071 0 S0 = (S1727, true) := runSeg_comp 18 125998 73 0 S0 S1726 S1727 run1726 seg1726
theorem run1728 : runSeg 18 126144 0 S0 = (S1728, true) := runSeg_comp 18 126071 73 0 S0 S1727 S1728 run1727 seg1727
theorem run1729 : runSeg 18 126217 0 S0 = (S1729, true) := runSeg_comp 18 126144 73 0 S0 S1728 S1729 run1728 seg1728
theorem run1730 : runSeg 18 126290 0 S0 = (S1730, true) := runSeg_comp 18 126217 73 0 S0 S1729 S1730 run1729 seg1729
theorem run1731 : runSeg 18 126363 0 S0 = (S1731, true) := runSeg_comp 18 126290 73 0 S0 S1730 S1731 run1730 seg1730
theorem run1732 : runSeg 18 126436 0 S0 = (S1732, true) := runSeg_comp 18 126363 73 0 S0 S1731 S1732 run1731 seg1731
theorem run1733 : runSeg 18 126509 0 S0 = (S1733, true) := runSeg_comp 18 126436 73 0 S0 S1732 S1733 run1732 seg1732
theorem run1734 : runSeg 18 126582 0 S0 = (S1734, true) := runSeg_comp 18 126509 73 0 S0 S1733 S1734 run1733 seg1733
theorem run1735 : runSeg 18 126655 0 S0 = (S1735, true) := runSeg_comp 18 126582 73 0 S0 S1734 S1735 run1734 seg1734
theorem run1736 : runSeg 18 126728 0 S0 = (S1736, true) := runSeg_comp 18 126655 73 0 S0 S1735 S1736 run1735 seg1735
theorem run1737 : runSeg 18 126801 0 S0 = (S1737, true) := runSeg_comp 18 126728 73 0 S0 S1736 S1737 run1736 seg1736
theorem run1738 : runSeg 18 126874 0 S0 = (S1738, true) := runSeg_comp 18 126801 73 0 S0 S1737 S1738 run1737 seg1737
theorem run1739 : runSeg 18 126947 0 S0 = (S1739, true) := runSeg_comp 18 126874 73 0 S0 S1738 S1739 run1738 seg1738
theorem run1740 : runSeg 18 127020 0 S0 = (S1740, true) := runSeg_comp 18 126947 73 0 S0 S1739 S1740 run1739 seg1739
theorem run1741 : runSeg 18 127093 0 S0 = (S1741, true) := runSeg_comp 18 127020 73 0 S0 S1740 S1741 run1740 seg1740
theorem run1742 : runSeg 18 127166 0 S0 = (S1742, true) := runSeg_comp 18 127093 73 0 S0 S1741 S1742 run1741 seg1741
theorem run1743 : runSeg 18 127239 0 S0 = (S1743, true) := runSeg_comp 18 127166 73 0 S0 S1742 S1743 run1742 seg1742
theorem run1744 : runSeg 18 127312 0 S0 = (S1744, true) := runSeg_comp 18 127239 73 0 S0 S1743 S1744 run1743 seg1743
theorem run1745 : runSeg 18 127385 0 S0 = (S1745, true) := runSeg_comp 18 127312 73 0 S0 S1744 S1745 run1744 seg1744
theorem run1746 : runSeg 18 127458 0 S0 = (S1746, true) := runSeg_comp 18 127385 73 0 S0 S1745 S1746 run1745 seg1745
theorem run1747 : runSeg 18 127531 0 S0 = (S1747, true) := runSeg_comp 18 127458 73 0 S0 S1746 S1747 run1746 seg1746
theorem run1748 : runSeg 18 127604 0 S0 = (S1748, true) := runSeg_comp 18 127531 73 0 S0 S1747 S1748 run1747 seg1747
theorem run1749 : runSeg 18 127677 0 S0 = (S1749, true) := runSeg_comp 18 127604 73 0 S0 S1748 S1749 run1748 seg1748
theorem run1750 : runSeg 18 127750 0 S0 = (S1750, true) := runSeg_comp 18 127677 73 0 S0 S1749 S1750 run1749 seg1749
theorem run1751 : runSeg 18 127823 0 S0 = (S1751, true) := runSeg_comp 18 127750 73 0 S0 S1750 S1751 run1750 seg1750
theorem run1752 : runSeg 18 127896 0 S0 = (S1752, true) := runSeg_comp 18 127823 73 0 S0 S1751 S1752 run1751 seg1751
theorem run1753 : runSeg 18 127969 0 S0 = (S1753, true) := runSeg_comp 18 127896 73 0 S0 S1752 S1753 run1752 seg1752
theorem run1754 : runSeg 18 128042 0 S0 = (S1754, true) := runSeg_comp 18 127969 73 0 S0 S1753 S1754 run1753 seg1753
theorem run1755 : runSeg 18 128115 0 S0 = (S1755, true) := runSeg_comp 18 128042 73 0 S0 S1754 S1755 run1754 seg1754
theorem run1756 : runSeg 18 128188 0 S0 = (S1756, true) := runSeg_comp 18 128115 73 0 S0 S1755 S1756 run1755 seg1755
theorem run1757 : runSeg 18 128261 0 S0 = (S1757, true) := runSeg_comp 18 128188 73 0 S0 S1756 S1757 run1756 seg1756
theorem run1758 : runSeg 18 128334 0 S0 = (S1758, true) := runSeg_comp 18 128261 73 0 S0 S1757 S1758 run1757 seg1757
theorem run1759 : runSeg 18 128407 0 S0 = (S1759, true) := runSeg_comp 18 128334 73 0 S0 S1758 S1759 run1758 seg1758
theorem run1760 : runSeg 18 128480 0 S0 = (S1760, true) := runSeg_comp 18 128407 73 0 S0 S1759 S1760 run1759 seg1759
theorem run1761 : runSeg 18 128553 0 S0 = (S1761, true) := runSeg_comp 18 128480 73 0 S0 S1760 S1761 run1760 seg1760
theorem run1762 : runSeg 18 128626 0 S0 = (S1762, true) := runSeg_comp 18 128553 73 0 S0 S1761 S1762 run1761 seg1761
theorem run1763 : runSeg 18 128699 0 S0 = (S1763, true) := runSeg_comp 18 128626 73 0 S0 S1762 S1763 run1762 seg1762
theorem run1764 : runSeg 18 128772 0 S0 = (S1764, true) := runSeg_comp 18 128699 73 0 S0 S1763 S1764 run1763 seg1763
theorem run1765 : runSeg 18 128845 0 S0 = (S1765, true) := runSeg_comp 18 128772 73 0 S0 S1764 S1765 run1764 seg1764
theorem run1766 : runSeg 18 128918 0 S0 = (S1766, true) := runSeg_comp 18 128845 73 0 S0 S1765 S1766 run1765 seg1765
theorem run1767 : runSeg 18 128991 0 S0 = (S1767, true) := runSeg_comp 18 128918 73 0 S0 S1766 S1767 run1766 seg1766
theorem run1768 : runSeg 18 129064 0 S0 = (S1768, true) := runSeg_comp 18 128991 73 0 S0 S1767 S1768 run1767 seg1767
theorem run1769 : runSeg 18 129137 0 S0 = (S1769, true) := runSeg_comp 18 129064 73 0 S0 S1768 S1769 run1768 seg1768
theorem run1770 : runSeg 18 129210 0 S0 = (S1770, true) := runSeg_comp 18 129137 73 0 S0 S1769 S1770 run1769 seg1769
theorem run1771 : runSeg 18 129283 0 S0 = (S1771, true) := runSeg_comp 18 129210 73 0 S0 S1770 S1771 run1770 seg1770
theorem run1772 : runSeg 18 129356 0 S0 = (S1772, true) := runSeg_comp 18 129283 73 0 S0 S1771 S1772 run1771 seg1771
theorem run1773 : runSeg 18 129429 0 S0 = (S1773, true) := runSeg_comp 18 129356 73 0 S0 S1772 S1773 run1772 seg1772
theorem run1774 : runSeg 18 129502 0 S0 = (S1774, true) := runSeg_comp 18 129429 73 0 S0 S1773 S1774 run1773 seg1773
theorem run1775 : runSeg 18 129575 0 S0 = (S1775, true) := runSeg_comp 18 129502 73 0 S0 S1774 S1775 run1774 seg1774
theorem run1776 : runSeg 18 129648 0 S0 = (S1776, true) := runSeg_comp 18 129575 73 0 S0 S1775 S1776 run1775 seg1775
theorem run1777 : runSeg 18 129721 0 S0 = (S1777, true) := runSeg_comp 18 129648 73 0 S0 S1776 S1777 run1776 seg1776
theorem run1778 : runSeg 18 129794 0 S0 = (S1778, true) := runSeg_comp 18 129721 73 0 S0 S1777 S1778 run1777 seg1777
theorem run1779 : runSeg 18 129867 0 S0 = (S1779, true) := runSeg_comp 18 129794 73 0 S0 S1778 S1779 run1778 seg1778
theorem run1780 : runSeg 18 129940 0 S0 = (S1780, true) := runSeg_comp 18 129867 73 0 S0 S1779 S1780 run1779 seg1779
theorem run1781 : runSeg 18 130013 0 S0 = (S1781, true) := runSeg_comp 18 129940 73 0 S0 S1780 S1781 run1780 seg1780
theorem run1782 : runSeg 18 130086 0 S0 = (S1782, true) := runSeg_comp 18 130013 73 0 S0 S1781 S1782 run1781 seg1781
theorem run1783 : runSeg 18 130159 0 S0 = (S1783, true) := runSeg_comp 18 130086 73 0 S0 S1782 S1783 run1782 seg1782
theorem run1784 : runSeg 18 130232 0 S0 = (S1784, true) := runSeg_comp 18 130159 73 0 S0 S1783 S1784 run1783 seg1783
theorem run1785 : runSeg 18 130305 0 S0 = (S1785, true) := runSeg_comp 18 130232 73 0 S0 S1784 S1785 run1784 seg1784
theorem run1786 : runSeg 18 130378 0 S0 = (S1786, true) := runSeg_comp 18 130305 73 0 S0 S1785 S1786 run1785 seg1785
theorem run1787 : runSeg 18 130451 0 S0 = (S1787, true) := runSeg_comp 18 130378 73 0 S0 S1786 S1787 run1786 seg1786
theorem run1788 : runSeg 18 130524 0 S0 = (S1788, true) := runSeg_comp 18 130451 73 0 S0 S1787 S1788 run1787 seg1787
theorem run1789 : runSeg 18 130597 0 S0 = (S1789, true) := runSeg_comp 18 130524 73 0 S0 S1788 S1789 run1788 seg1788
theorem run1790 : runSeg 18 130670 0 S0 = (S1790, true) := runSeg_comp 18 130597 73 0 S0 S1789 S1790 run1789 seg1789
theorem run1791 : runSeg 18 130743 0 S0 = (S1791, true) := runSeg_comp 18 130670 73 0 S0 S1790 S1791 run1790 seg1790
theorem run1792 : runSeg 18 130816 0 S0 = (S1792, true) := runSeg_comp 18 130743 73 0 S0 S1791 S1792 run1791 seg1791
theorem run1793 : runSeg 18 130889 0 S0 = (S1793, true) := runSeg_comp 18 130816 73 0 S0 S1792 S1793 run1792 seg1792
theorem run1794 : runSeg 18 130962 0 S0 = (S1794, true) := runSeg_comp 18 130889 73 0 S0 S1793 S1794 run1793 seg1793
theorem run1795 : runSeg 18 131035 0 S0 = (S1795, true) := runSeg_comp 18 130962 73 0 S0 S1794 S1795 run1794 seg1794
theorem run1796 : runSeg 18 131108 0 S0 = (S1796, true) := runSeg_comp 18 131035 73 0 S0 S1795 S1796 run1795 seg1795
theorem run1797 : runSeg 18 131181 0 S0 = (S1797, true) := runSeg_comp 18 131108 73 0 S0 S1796 S1797 run1796 seg1796
theorem run1798 : runSeg 18 131254 0 S0 = (S1798, true) := runSeg_comp 18 131181 73 0 S0 S1797 S1798 run1797 seg1797
theorem run1799 : runSeg 18 131327 0 S0 = (S1799, true) := runSeg_comp 18 131254 73 0 S0 S1798 S1799 run1798 seg1798
theorem run1800 : runSeg 18 131400 0 S0 = (S1800, true) := runSeg_comp 18 131327 73 0 S0 S1799 S1800 run1799 seg1799
theorem run1801 : runSeg 18 131473 0 S0 = (S1801, true) := runSeg_comp 18 131400 73 0 S0 S1800 S1801 run1800 seg1800
theorem run1802 : runSeg 18 131546 0 S0 = (S1802, true) := runSeg_comp 18 131473 73 0 S0 S1801 S1802 run1801 seg1801
theorem run1803 : runSeg 18 131619 0 S0 = (S1803, true) := runSeg_comp 18 131546 73 0 S0 S1802 S1803 run1802 seg1802
theorem run1804 : runSeg 18 131692 0 S0 = (S1804, true) := runSeg_comp 18 131619 73 0 S0 S1803 S1804 run1803 seg1803
theorem run1805 : runSeg 18 131765 0 S0 = (S1805, true) := runSeg_comp 18 131692 73 0 S0 S1804 S1805 run1804 seg1804
theorem run1806 : runSeg 18 131838 0 S0 = (S1806, true) := runSeg_comp 18 131765 73 0 S0 S1805 S1806 run1805 seg1805
theorem run1807 : runSeg 18 131911 0 S0 = (S1807, true) := runSeg_comp 18 131838 73 0 S0 S1806 S1807 run1806 seg1806
theorem run1808 : runSeg 18 131984 0 S0 = (S1808, true) := runSeg_comp 18 131911 73 0 S0 S1807 S1808 run1807 seg1807
theorem run1809 : runSeg 18 132057 0 S0 = (S1809, true) := runSeg_comp 18 131984 73 0 S0 S1808 S1809 run1808 seg1808
theorem run1810 : runSeg 18 132130 0 S0 = (S1810, true) := runSeg_comp 18 132057 73 0 S0 S1809 S1810 run1809 seg1809
theorem run1811 : runSeg 18 132203 0 S0 = (S1811, true) := runSeg_comp 18 132130 73 0 S0 S1810 S1811 run1810 seg1810
theorem run1812 : runSeg 18 132276 0 S0 = (S1812, true) := runSeg_comp 18 132203 73 0 S0 S1811 S1812 run1811 seg1811
theorem run1813 : runSeg 18 132349 0 S0 = (S1813, true) := runSeg_comp 18 132276 73 0 S0 S1812 S1813 run1812 seg1812
theorem run1814 : runSeg 18 132422 0 S0 = (S1814, true) := runSeg_comp 18 132349 73 0 S0 S1813 S1814 run1813 seg1813
theorem run1815 : runSeg 18 132495 0 S0 = (S1815, true) := runSeg_comp 18 132422 73 0 S0 S1814 S1815 run1814 seg1814
theorem run1816 : runSeg 18 132568 0 S0 = (S1816, true) := runSeg_comp 18 132495 73 0 S0 S1815 S1816 run1815 seg1815
theorem run1817 : runSeg 18 132641 0 S0 = (S1817, true) := runSeg_comp 18 132568 73 0 S0 S1816 S1817 run1816 seg1816
theorem run1818 : runSeg 18 132714 0 S0 = (S1818, true) := runSeg_comp 18 132641 73 0 S0 S1817 S1818 run1817 seg1817
theorem run1819 : runSeg 18 132787 0 S0 = (S1819, true) := runSeg_comp 18 132714 73 0 S0 S1818 S1819 run1818 seg1818
theorem run1820 : runSeg 18 132860 0 S0 = (S1820, true) := runSeg_comp 18 132787 73 0 S0 S1819 S1820 run1819 seg1819
theorem run1821 : runSeg 18 132933 0 S0 = (S1821, true) := runSeg_comp 18 132860 73 0 S0 S1820 S1821 run1820 seg1820
theorem run1822 : runSeg 18 133006 0 S0 = (S1822, true) := runSeg_comp 18 132933 73 0 S0 S1821 S1822 run1821 seg1821
theorem run1823 : runSeg 18 133079 0 S0 = (S1823, true) := runSeg_comp 18 133006 73 0 S0 S1822 S1823 run1822 seg1822
theorem run1824 : runSeg 18 133152 0 S0 = (S1824, true) := runSeg_comp 18 133079 73 0 S0 S1823 S1824 run1823 seg1823
theorem run1825 : runSeg 18 133225 0 S0 = (S1825, true) := runSeg_comp 18 133152 73 0 S0 S1824 S1825 run1824 seg1824
theorem run1826 : runSeg 18 133298 0 S0 = (S1826, true) := runSeg_comp 18 133225 73 0 S0 S1825 S1826 run1825 seg1825
theorem run1827 : runSeg 18 133371 0 S0 = (S1827, true) := runSeg_comp 18 133298 73 0 S0 S1826 S1827 run1826 seg1826
theorem run1828 : runSeg 18 133444 0 S0 = (S1828, true) := runSeg_comp 18 133371 73 0 S0 S1827 S1828 run1827 seg1827
theorem run1829 : runSeg 18 133517 0 S0 = (S1829, true) := runSeg_comp 18 133444 73 0 S0 S1828 S1829 run1828 seg1828
theorem run1830 : runSeg 18 133590 0 S0 = (S1830, true) := runSeg_comp 18 133517 73 0 S0 S1829 S1830 run1829 seg1829
theorem run1831 : runSeg 18 133663 0 S0 = (S1831, true) := runSeg_comp 18 133590 73 0 S0 S1830 S1831 run1830 seg1830
theorem run1832 : runSeg 18 133736 0 S0 = (S1832, true) := runSeg_comp 18 133663 73 0 S0 S1831 S1832 run1831 seg1831
theorem run1833 : runSeg 18 133809 0 S0 = (S1833, true) := runSeg_comp 18 133736 73 0 S0 S1832 S1833 run1832 seg1832
theorem run1834 : runSeg 18 133882 0 S0 = (S1834, true) := runSeg_comp 18 133809 73 0 S0 S1833 S1834 run1833 seg1833
theorem run1835 : runSeg 18 133955 0 S0 = (S1835, true) := runSeg_comp 18 133882 73 0 S0 S1834 S1835 run1834 seg1834
theorem run1836 : runSeg 18 134028 0 S0 = (S1836, true) := runSeg_comp 18 133955 73 0 S0 S1835 S1836 run1835 seg1835
theorem run1837 : runSeg 18 134101 0 S0 = (S1837, true) := runSeg_comp 18 134028 73 0 S0 S1836 S1837 run1836 seg1836
theorem run1838 : runSeg 18 134174 0 S0 = (S1838, true) := runSeg_comp 18 134101 73 0 S0 S1837 S1838 run1837 seg1837
theorem run1839 : runSeg 18 134247 0 S0 = (S1839, true) := runSeg_comp 18 134174 73 0 S0 S1838 S1839 run1838 seg1838
theorem run1840 : runSeg 18 134320 0 S0 = (S1840, true) := runSeg_comp 18 134247 73 0 S0 S1839 S1840 run1839 seg1839
theorem run1841 : runSeg 18 134393 0 S0 = (S1841, true) := runSeg_comp 18 134320 73 0 S0 S1840 S1841 run1840 seg1840
theorem run1842 : runSeg 18 134466 0 S0 = (S1842, true) := runSeg_comp 18 134393 73 0 S0 S1841 S1842 run1841 seg1841
theorem run1843 : runSeg 18 134539 0 S0 = (S1843, true) := runSeg_comp 18 134466 73 0 S0 S1842 S1843 run1842 seg1842
theorem run1844 : runSeg 18 134612 0 S0 = (S1844, true) := runSeg_comp 18 134539 73 0 S0 S1843 S1844 run1843 seg1843
theorem run1845 : runSeg 18 134685 0 S0 = (S1845, true) := runSeg_comp 18 134612 73 0 S0 S1844 S1845 run1844 seg1844
theorem run1846 : runSeg 18 134758 0 S0 = (S1846, true) := runSeg_comp 18 134685 73 0 S0 S1845 S1846 run1845 seg1845
theorem run1847 : runSeg 18 134831 0 S0 = (S1847, true) := runSeg_comp 18 134758 73 0 S0 S1846 S1847 run1846 seg1846
theorem run1848 : runSeg 18 134904 0 S0 = (S1848, true) := runSeg_comp 18 134831 73 0 S0 S1847 S1848 run1847 seg1847
theorem run1849 : runSeg 18 134977 0 S0 = (S1849, true) := runSeg_comp 18 134904 73 0 S0 S1848 S1849 run1848 seg1848
theorem run1850 : runSeg 18 135050 0 S0 = (S1850, true) := runSeg_comp 18 134977 73 0 S0 S1849 S1850 run1849 seg1849
theorem run1851 : runSeg 18 135123 0 S0 = (S1851, true) := runSeg_comp 18 135050 73 0 S0 S1850 S1851 run1850 seg1850
theorem run1852 : runSeg 18 135196 0 S0 = (S1852, true) := runSeg_comp 18 135123 73 0 S0 S1851 S1852 run1851 seg1851
theorem run1853 : runSeg 18 135269 0 S0 = (S1853, true) := runSeg_comp 18 135196 73 0 S0 S1852 S1853 run1852 seg1852
theorem run1854 : runSeg 18 135342 0 S0 = (S1854, true) := runSeg_comp 18 135269 73 0 S0 S1853 S1854 run1853 seg1853
theorem run1855 : runSeg 18 135415 0 S0 = (S1855, true) := runSeg_comp 18 135342 73 0 S0 S1854 S1855 run1854 seg1854
theorem run1856 : runSeg 18 135488 0 S0 = (S1856, true) := runSeg_comp 18 135415 73 0 S0 S1855 S1856 run1855 seg1855
theorem run1857 : runSeg 18 135561 0 S0 = (S1857, true) := runSeg_comp 18 135488 73 0 S0 S1856 S1857 run1856 seg1856
theorem run1858 : runSeg 18 135634 0 S0 = (S1858, true) := runSeg_comp 18 135561 73 0 S0 S1857 S1858 run1857 seg1857
theorem run1859 : runSeg 18 135707 0 S0 = (S1859, true) := runSeg_comp 18 135634 73 0 S0 S1858 S1859 run1858 seg1858
theorem run1860 : runSeg 18 135780 0 S0 = (S1860, true) := runSeg_comp 18 135707 73 0 S0 S1859 S1860 run1859 seg1859
theorem run1861 : runSeg 18 135853 0 S0 = (S1861, true) := runSeg_comp 18 135780 73 0 S0 S1860 S1861 run1860 seg1860
theorem run1862 : runSeg 18 135926 0 S0 = (S1862, true) := runSeg_comp 18 135853 73 0 S0 S1861 S1862 run1861 seg1861
theorem run1863 : runSeg 18 135999 0 S0 = (S1863, true) := runSeg_comp 18 135926 73 0 S0 S1862 S1863 run1862 seg1862
theorem run1864 : runSeg 18 136072 0 S0 = (S1864, true) := runSeg_comp 18 135999 73 0 S0 S1863 S1864 run1863 seg1863
theorem run1865 : runSeg 18 136145 0 S0 = (S1865, true) := runSeg_comp 18 136072 73 0 S0 S1864 S1865 run1864 seg1864
theorem run1866 : runSeg 18 136218 0 S0 = (S1866, true) := runSeg_comp 18 136145 73 0 S0 S1865 S1866 run1865 seg1865
theorem run1867 : runSeg 18 136291 0 S0 = (S1867, true) := runSeg_comp 18 136218 73 0 S0 S1866 S1867 run1866 seg1866
theorem run1868 : runSeg 18 136364 0 S0 = (S1868, true) := runSeg_comp 18 136291 73 0 S0 S1867 S1868 run1867 seg1867
theorem run1869 : runSeg 18 136437 0 S0 = (S1869, true) := runSeg_comp 18 136364 73 0 S0 S1868 S1869 run1868 seg1868
theorem run1870 : runSeg 18 136510 0 S0 = (S1870, true) := runSeg_comp 18 136437 73 0 S0 S1869 S1870 run1869 seg1869
theorem run1871 : runSeg 18 136583 0 S0 = (S1871, true) := runSeg_comp 18 136510 73 0 S0 S1870 S1871 run1870 seg1870
theorem run1872 : runSeg 18 136656 0 S0 = (S1872, true) := runSeg_comp 18 136583 73 0 S0 S1871 S1872 run1871 seg1871
theorem run1873 : runSeg 18 136729 0 S0 = (S1873, true) := runSeg_comp 18 136656 73 0 S0 S1872 S1873 run1872 seg1872
theorem run1874 : runSeg 18 136802 0 S0 = (S1874, true) := runSeg_comp 18 136729 73 0 S0 S1873 S1874 run1873 seg1873
theorem run1875 : runSeg 18 136875 0 S0 = (S1875, true) := runSeg_comp 18 136802 73 0 S0 S1874 S1875 run1874 seg1874
theorem run1876 : runSeg 18 136948 0 S0 = (S1876, true) := runSeg_comp 18 136875 73 0 S0 S1875 S1876 run1875 seg1875
theorem run1877 : runSeg 18 137021 0 S0 = (S1877, true) := runSeg_comp 18 136948 73 0 S0 S1876 S1877 run1876 seg1876
theorem run1878 : runSeg 18 137094 0 S0 = (S1878, true) := runSeg_comp 18 137021 73 0 S0 S1877 S1878 run1877 seg1877
theorem run1879 : runSeg 18 137167 0 S0 = (S1879, true) := runSeg_comp 18 137094 73 0 S0 S1878 S1879 run1878 seg1878
theorem run1880 : runSeg 18 137240 0 S0 = (S1880, true) := runSeg_comp 18 137167 73 0 S0 S1879 S1880 run1879 seg1879
theorem run1881 : runSeg 18 137313 0 S0 = (S1881, true) := runSeg_comp 18 137240 73 0 S0 S1880 S1881 run1880 seg1880
theorem run1882 : runSeg 18 137386 0 S0 = (S1882, true) := runSeg_comp 18 137313 73 0 S0 S1881 S1882 run1881 seg1881
theorem run1883 : runSeg 18 137459 0 S0 = (S1883, true) := runSeg_comp 18 137386 73 0 S0 S1882 S1883 run1882 seg1882
theorem run1884 : runSeg 18 137532 0 S0 = (S1884, true) := runSeg_comp 18 137459 73 0 S0 S1883 S1884 run1883 seg1883
theorem run1885 : runSeg 18 137605 0 S0 = (S1885, true) := runSeg_comp 18 137532 73 0 S0 S1884 S1885 run1884 seg1884
theorem run1886 : runSeg 18 137678 0 S0 = (S1886, true) := runSeg_comp 18 137605 73 0 S0 S1885 S1886 run1885 seg1885
theorem run1887 : runSeg 18 137751 0 S0 = (S1887, true) := runSeg_comp 18 137678 73 0 S0 S1886 S1887 run1886 seg1886
theorem run1888 : runSeg 18 137824 0 S0 = (S1888, true) := runSeg_comp 18 137751 73 0 S0 S1887 S1888 run1887 seg1887
theorem run1889 : runSeg 18 137897 0 S0 = (S1889, true) := runSeg_comp 18 137824 73 0 S0 S1888 S1889 run1888 seg1888
theorem run1890 : runSeg 18 137970 0 S0 = (S1890, true) := runSeg_comp 18 137897 73 0 S0 S1889 S1890 run1889 seg1889
theorem run1891 : runSeg 18 138043 0 S0 = (S1891, true) := runSeg_comp 18 137970 73 0 S0 S1890 S1891 run1890 seg1890
theorem run1892 : runSeg 18 138116 0 S0 = (S1892, true) := runSeg_comp 18 138043 73 0 S0 S1891 S1892 run1891 seg1891
theorem run1893 : runSeg 18 138189 0 S0 = (S1893, true) := runSeg_comp 18 138116 73 0 S0 S1892 S1893 run1892 seg1892
theorem run1894 : runSeg 18 138262 0 S0 = (S1894, true) := runSeg_comp 18 138189 73 0 S0 S1893 S1894 run1893 seg1893
theorem run1895 : runSeg 18 138335 0 S0 = (S1895, true) := runSeg_comp 18 138262 73 0 S0 S1894 S1895 run1894 seg1894
theorem run1896 : runSeg 18 138408 0 S0 = (S1896, true) := runSeg_comp 18 138335 73 0 S0 S1895 S1896 run1895 seg1895
theorem run1897 : runSeg 18 138481 0 S0 = (S1897, true) := runSeg_comp 18 138408 73 0 S0 S1896 S1897 run1896 seg1896
theorem run1898 : runSeg 18 138554 0 S0 = (S1898, true) := runSeg_comp 18 138481 73 0 S0 S1897 S1898 run1897 seg1897
theorem run1899 : runSeg 18 138627 0 S0 = (S1899, true) := runSeg_comp 18 138554 73 0 S0 S1898 S1899 run1898 seg1898
theorem run1900 : runSeg 18 138700 0 S0 = (S1900, true) := runSeg_comp 18 138627 73 0 S0 S1899 S1900 run1899 seg1899
theorem run1901 : runSeg 18 138773 0 S0 = (S1901, true) := runSeg_comp 18 138700 73 0 S0 S1900 S1901 run1900 seg1900
theorem run1902 : runSeg 18 138846 0 S0 = (S1902, true) := runSeg_comp 18 138773 73 0 S0 S1901 S1902 run1901 seg1901
theorem run1903 : runSeg 18 138919 0 S0 = (S1903, true) := runSeg_comp 18 138846 73 0 S0 S1902 S1903 run1902 seg1902
theorem run1904 : runSeg 18 138992 0 S0 = (S1904, true) := runSeg_comp 18 138919 73 0 S0 S1903 S1904 run1903 seg1903
theorem run1905 : runSeg 18 139065 0 S0 = (S1905, true) := runSeg_comp 18 138992 73 0 S0 S1904 S1905 run1904 seg1904
theorem run1906 : runSeg 18 139138 0 S0 = (S1906, true) := runSeg_comp 18 139065 73 0 S0 S1905 S1906 run1905 seg1905
theorem run1907 : runSeg 18 139211 0 S0 = (S1907, true) := runSeg_comp 18 139138 73 0 S0 S1906 S1907 run1906 seg1906
theorem run1908 : runSeg 18 139284 0 S0 = (S1908, true) := runSeg_comp 18 139211 73 0 S0 S1907 S1908 run1907 seg1907
theorem run1909 : runSeg 18 139357 0 S0 = (S1909, true) := runSeg_comp 18 139284 73 0 S0 S1908 S1909 run1908 seg1908
theorem run1910 : runSeg 18 139430 0 S0 = (S1910, true) := runSeg_comp 18 139357 73 0 S0 S1909 S1910 run1909 seg1909
theorem run1911 : runSeg 18 139503 0 S0 = (S1911, true) := runSeg_comp 18 139430 73 0 S0 S1910 S1911 run1910 seg1910
theorem run1912 : runSeg 18 139576 0 S0 = (S1912, true) := runSeg_comp 18 139503 73 0 S0 S1911 S1912 run1911 seg1911
theorem run1913 : runSeg 18 139649 0 S0 = (S1913, true) := runSeg_comp 18 139576 73 0 S0 S1912 S1913 run1912 seg1912
theorem run1914 : runSeg 18 139722 0 S0 = (S1914, true) := runSeg_comp 18 139649 73 0 S0 S1913 S1914 run1913 seg1913
theorem run1915 : runSeg 18 139795 0 S0 = (S1915, true) := runSeg_comp 18 139722 73 0 S0 S1914 S1915 run1914 seg1914
theorem run1916 : runSeg 18 139868 0 S0 = (S1916, true) := runSeg_comp 18 139795 73 0 S0 S1915 S1916 run1915 seg1915
theorem run1917 : runSeg 18 139941 0 S0 = (S1917, true) := runSeg_comp 18 139868 73 0 S0 S1916 S1917 run1916 seg1916
theorem run1918 : runSeg 18 140014 0 S0 = (S1918, true) := runSeg_comp 18 139941 73 0 S0 S1917 S1918 run1917 seg1917
theorem run1919 : runSeg 18 140087 0 S0 = (S1919, true) := runSeg_comp 18 140014 73 0 S0 S1918 S1919 run1918 seg1918
theorem run1920 : runSeg 18 140160 0 S0 = (S1920, true) := runSeg_comp 18 140087 73 0 S0 S1919 S1920 run1919 seg1919
theorem run1921 : runSeg 18 140233 0 S0 = (S1921, true) := runSeg_comp 18 140160 73 0 S0 S1920 S1921 run1920 seg1920
theorem run1922 : runSeg 18 140306 0 S0 = (S1922, true) := runSeg_comp 18 140233 73 0 S0 S1921 S1922 run1921 seg1921
theorem run1923 : runSeg 18 140379 0 S0 = (S1923, true) := runSeg_comp 18 140306 73 0 S0 S1922 S1923 run1922 seg1922
theorem run1924 : runSeg 18 140452 0 S0 = (S1924, true) := runSeg_comp 18 140379 73 0 S0 S1923 S1924 run1923 seg1923
theorem run1925 : runSeg 18 140525 0 S0 = (S1925, true) := runSeg_comp 18 140452 73 0 S0 S1924 S1925 run1924 seg1924
theorem run1926 : runSeg 18 140598 0 S0 = (S1926, true) := runSeg_comp 18 140525 73 0 S0 S1925 S1926 run1925 seg1925
theorem run1927 : runSeg 18 140671 0 S0 = (S1927, true) := runSeg_comp 18 140598 73 0 S0 S1926 S1927 run1926 seg1926
theorem run1928 : runSeg 18 140744 0 S0 = (S1928, true) := runSeg_comp 18 140671 73 0 S0 S1927 S1928 run1927 seg1927
theorem run1929 : runSeg 18 140817 0 S0 = (S1929, true) := runSeg_comp 18 140744 73 0 S0 S1928 S1929 run1928 seg1928
theorem run1930 : runSeg 18 140890 0 S0 = (S1930, true) := runSeg_comp 18 140817 73 0 S0 S1929 S1930 run1929 seg1929
theorem run1931 : runSeg 18 140963 0 S0 = (S1931, true) := runSeg_comp 18 140890 73 0 S0 S1930 S1931 run1930 seg1930
theorem run1932 : runSeg 18 141036 0 S0 = (S1932, true) := runSeg_comp 18 140963 73 0 S0 S1931 S1932 run1931 seg1931
theorem run1933 : runSeg 18 141109 0 S0 = (S1933, true) := runSeg_comp 18 141036 73 0 S0 S1932 S1933 run1932 seg1932
theorem run1934 : runSeg 18 141182 0 S0 = (S1934, true) := runSeg_comp 18 141109 73 0 S0 S1933 S1934 run1933 seg1933
theorem run1935 : runSeg 18 141255 0 S0 = (S1935, true) := runSeg_comp 18 141182 73 0 S0 S1934 S1935 run1934 seg1934
theorem run1936 : runSeg 18 141328 0 S0 = (S1936, true) := runSeg_comp 18 141255 73 0 S0 S1935 S1936 run1935 seg1935
theorem run1937 : runSeg 18 141401 0 S0 = (S1937, true) := runSeg_comp 18 141328 73 0 S0 S1936 S1937 run1936 seg1936
theorem run1938 : runSeg 18 141474 0 S0 = (S1938, true) := runSeg_comp 18 141401 73 0 S0 S1937 S1938 run1937 seg1937
theorem run1939 : runSeg 18 141547 0 S0 = (S1939, true) := runSeg_comp 18 141474 73 0 S0 S1938 S1939 run1938 seg1938
theorem run1940 : runSeg 18 141620 0 S0 = (S1940, true) := runSeg_comp 18 141547 73 0 S0 S1939 S1940 run1939 seg1939
theorem run1941 : runSeg 18 141693 0 S0 = (S1941, true) := runSeg_comp 18 141620 73 0 S0 S1940 S1941 run1940 seg1940
theorem run1942 : runSeg 18 141766 0 S0 = (S1942, true) := runSeg_comp 18 141693 73 0 S0 S1941 S1942 run1941 seg1941
theorem run1943 : runSeg 18 141839 0 S0 = (S1943, true) := runSeg_comp 18 141766 73 0 S0 S1942 S1943 run1942 seg1942
theorem run1944 : runSeg 18 141912 0 S0 = (S1944, true) := runSeg_comp 18 141839 73 0 S0 S1943 S1944 run1943 seg1943
theorem run1945 : runSeg 18 141985 0 S0 = (S1945, true) := runSeg_comp 18 141912 73 0 S0 S1944 S1945 run1944 seg1944
theorem run1946 : runSeg 18 142058 0 S0 = (S1946, true) := runSeg_comp 18 141985 73 0 S0 S1945 S1946 run1945 seg1945
theorem run1947 : runSeg 18 142131 0 S0 = (S1947, true) := runSeg_comp 18 142058 73 0 S0 S1946 S1947 run1946 seg1946
theorem run1948 : runSeg 18 142204 0 S0 = (S1948, true) := runSeg_comp 18 142131 73 0 S0 S1947 S1948 run1947 seg1947
theorem run1949 : runSeg 18 142277 0 S0 = (S1949, true) := runSeg_comp 18 142204 73 0 S0 S1948 S1949 run1948 seg1948
theorem run1950 : runSeg 18 142350 0 S0 = (S1950, true) := runSeg_comp 18 142277 73 0 S0 S1949 S1950 run1949 seg1949
theorem run1951 : runSeg 18 142423 0 S0 = (S1951, true) := runSeg_comp 18 142350 73 0 S0 S1950 S1951 run1950 seg1950
theorem run1952 : runSeg 18 142496 0 S0 = (S1952, true) := runSeg_comp 18 142423 73 0 S0 S1951 S1952 run1951 seg1951
theorem run1953 : runSeg 18 142569 0 S0 = (S1953, true) := runSeg_comp 18 142496 73 0 S0 S1952 S1953 run1952 seg1952
theorem run1954 : runSeg 18 142642 0 S0 = (S1954, true) := runSeg_comp 18 142569 73 0 S0 S1953 S1954 run1953 seg1953
theorem run1955 : runSeg 18 142715 0 S0 = (S1955, true) := runSeg_comp 18 142642 73 0 S0 S1954 S1955 run1954 seg1954
theorem run1956 : runSeg 18 142788 0 S0 = (S1956, true) := runSeg_comp 18 142715 73 0 S0 S1955 S1956 run1955 seg1955
theorem run1957 : runSeg 18 142861 0 S0 = (S1957, true) := runSeg_comp 18 142788 73 0 S0 S1956 S1957 run1956 seg1956
theorem run1958 : runSeg 18 142934 0 S0 = (S1958, true) := runSeg_comp 18 142861 73 0 S0 S1957 S1958 run1957 seg1957
theorem run1959 : runSeg 18 143007 0 S0 = (S1959, true) := runSeg_comp 18 142934 73 0 S0 S1958 S1959 run1958 seg1958
theorem run1960 : runSeg 18 143080 0 S0 = (S1960, true) := runSeg_comp 18 143007 73 0 S0 S1959 S1960 run1959 seg1959
theorem run1961 : runSeg 18 143153 0 S0 = (S1961, true) := runSeg_comp 18 143080 73 0 S0 S1960 S1961 run1960 seg1960
theorem run1962 : runSeg 18 143226 0 S0 = (S1962, true) := runSeg_comp 18 143153 73 0 S0 S1961 S1962 run1961 seg1961
theorem run1963 : runSeg 18 143299 0 S0 = (S1963, true) := runSeg_comp 18 143226 73 0 S0 S1962 S1963 run1962 seg1962
theorem run1964 : runSeg 18 143372 0 S0 = (S1964, true) := runSeg_comp 18 143299 73 0 S0 S1963 S1964 run1963 seg1963
theorem run1965 : runSeg 18 143445 0 S0 = (S1965, true) := runSeg_comp 18 143372 73 0 S0 S1964 S1965 run1964 seg1964
theorem run1966 : runSeg 18 143518 0 S0 = (S1966, true) := runSeg_comp 18 143445 73 0 S0 S1965 S1966 run1965 seg1965
theorem run1967 : runSeg 18 143591 0 S0 = (S1967, true) := runSeg_comp 18 143518 73 0 S0 S1966 S1967 run1966 seg1966
theorem run1968 : runSeg 18 143664 0 S0 = (S1968, true) := runSeg_comp 18 143591 73 0 S0 S1967 S1968 run1967 seg1967
theorem run1969 : runSeg 18 143737 0 S0 = (S1969, true) := runSeg_comp 18 143664 73 0 S0 S1968 S1969 run1968 seg1968
theorem run1970 : runSeg 18 143810 0 S0 = (S1970, true) := runSeg_comp 18 143737 73 0 S0 S1969 S1970 run1969 seg1969
theorem run1971 : runSeg 18 143883 0 S0 = (S1971, true) := runSeg_comp 18 143810 73 0 S0 S1970 S1971 run1970 seg1970
theorem run1972 : runSeg 18 143956 0 S0 = (S1972, true) := runSeg_comp 18 143883 73 0 S0 S1971 S1972 run1971 seg1971
theorem run1973 : runSeg 18 144029 0 S0 = (S1973, true) := runSeg_comp 18 143956 73 0 S0 S1972 S1973 run1972 seg1972
theorem run1974 : runSeg 18 144102 0 S0 = (S1974, true) := runSeg_comp 18 144029 73 0 S0 S1973 S1974 run1973 seg1973
theorem run1975 : runSeg 18 144175 0 S0 = (S1975, true) := runSeg_comp 18 144102 73 0 S0 S1974 S1975 run1974 seg1974
theorem run1976 : runSeg 18 144248 0 S0 = (S1976, true) := runSeg_comp 18 144175 73 0 S0 S1975 S1976 run1975 seg1975
theorem run1977 : runSeg 18 144321 0 S0 = (S1977, true) := runSeg_comp 18 144248 73 0 S0 S1976 S1977 run1976 seg1976
theorem run1978 : runSeg 18 144394 0 S0 = (S1978, true) := runSeg_comp 18 144321 73 0 S0 S1977 S1978 run1977 seg1977
theorem run1979 : runSeg 18 144467 0 S0 = (S1979, true) := runSeg_comp 18 144394 73 0 S0 S1978 S1979 run1978 seg1978
theorem run1980 : runSeg 18 144540 0 S0 = (S1980, true) := runSeg_comp 18 144467 73 0 S0 S1979 S1980 run1979 seg1979
theorem run1981 : runSeg 18 144613 0 S0 = (S1981, true) := runSeg_comp 18 144540 73 0 S0 S1980 S1981 run1980 seg1980
theorem run1982 : runSeg 18 144686 0 S0 = (S1982, true) := runSeg_comp 18 144613 73 0 S0 S1981 S1982 run1981 seg1981
theorem run1983 : runSeg 18 144759 0 S0 = (S1983, true) := runSeg_comp 18 144686 73 0 S0 S1982 S1983 run1982 seg1982
theorem run1984 : runSeg 18 144832 0 S0 = (S1984, true) := runSeg_comp 18 144759 73 0 S0 S1983 S1984 run1983 seg1983
theorem run1985 : runSeg 18 144905 0 S0 = (S1985, true) := runSeg_comp 18 144832 73 0 S0 S1984 S1985 run1984 seg1984
theorem run1986 : runSeg 18 144978 0 S0 = (S1986, true) := runSeg_comp 18 144905 73 0 S0 S1985 S1986 run1985 seg1985
theorem run1987 : runSeg 18 145051 0 S0 = (S1987, true) := runSeg_comp 18 144978 73 0 S0 S1986 S1987 run1986 seg1986
theorem run1988 : runSeg 18 145124 0 S0 = (S1988, true) := runSeg_comp 18 145051 73 0 S0 S1987 S1988 run1987 seg1987
theorem run1989 : runSeg 18 145197 0 S0 = (S1989, true) := runSeg_comp 18 145124 73 0 S0 S1988 S1989 run1988 seg1988
theorem run1990 : runSeg 18 145270 0 S0 = (S1990, true) := runSeg_comp 18 145197 73 0 S0 S1989 S1990 run1989 seg1989
theorem run1991 : runSeg 18 145343 0 S0 = (S1991, true) := runSeg_comp 18 145270 73 0 S0 S1990 S1991 run1990 seg1990
theorem run1992 : runSeg 18 145416 0 S0 = (S1992, true) := runSeg_comp 18 145343 73 0 S0 S1991 S1992 run1991 seg1991
theorem run1993 : runSeg 18 145489 0 S0 = (S1993, true) := runSeg_comp 18 145416 73 0 S0 S1992 S1993 run1992 seg1992
theorem run1994 : runSeg 18 145562 0 S0 = (S1994, true) := runSeg_comp 18 145489 73 0 S0 S1993 S1994 run1993 seg1993
theorem run1995 : runSeg 18 145635 0 S0 = (S1995, true) := runSeg_comp 18 145562 73 0 S0 S1994 S1995 run1994 seg1994
theorem run1996 : runSeg 18 145708 0 S0 = (S1996, true) := runSeg_comp 18 145635 73 0 S0 S1995 S1996 run1995 seg1995
theorem run1997 : runSeg 18 145781 0 S0 = (S1997, true) := runSeg_comp 18 145708 73 0 S0 S1996 S1997 run1996 seg1996
theorem run1998 : runSeg 18 145854 0 S0 = (S1998, true) := runSeg_comp 18 145781 73 0 S0 S1997 S1998 run1997 seg1997
theorem run1999 : runSeg 18 145927 0 S0 = (S1999, true) := runSeg_comp 18 145854 73 0 S0 S1998 S1999 run1998 seg1998
theorem run2000 : runSeg 18 146000 0 S0 = (S2000, true) := runSeg_comp 18 145927 73 0 S0 S1999 S2000 run1999 seg1999
theorem run2001 : runSeg 18 146073 0 S0 = (S2001, true) := runSeg_comp 18 146000 73 0 S0 S2000 S2001 run2000 seg2000
theorem run2002 : runSeg 18 146146 0 S0 = (S2002, true) := runSeg_comp 18 146073 73 0 S0 S2001 S2002 run2001 seg2001
theorem run2003 : runSeg 18 146219 0 S0 = (S2003, true) := runSeg_comp 18 146146 73 0 S0 S2002 S2003 run2002 seg2002
theorem run2004 : runSeg 18 146292 0 S0 = (S2004, true) := runSeg_comp 18 146219 73 0 S0 S2003 S2004 run2003 seg2003
theorem run2005 : runSeg 18 146365 0 S0 = (S2005, true) := runSeg_comp 18 146292 73 0 S0 S2004 S2005 run2004 seg2004
theorem run2006 : runSeg 18 146438 0 S0 = (S2006, true) := runSeg_comp 18 146365 73 0 S0 S2005 S2006 run2005 seg2005
theorem run2007 : runSeg 18 146511 0 S0 = (S2007, true) := runSeg_comp 18 146438 73 0 S0 S2006 S2007 run2006 seg2006
theorem run2008 : runSeg 18 146584 0 S0 = (S2008, true) := runSeg_comp 18 146511 73 0 S0 S2007 S2008 run2007 seg2007
theorem run2009 : runSeg 18 146657 0 S0 = (S2009, true) := runSeg_comp 18 146584 73 0 S0 S2008 S2009 run2008 seg2008
theorem run2010 : runSeg 18 146730 0 S0 = (S2010, true) := runSeg_comp 18 146657 73 0 S0 S2009 S2010 run2009 seg2009
theorem run2011 : runSeg 18 146803 0 S0 = (S2011, true) := runSeg_comp 18 146730 73 0 S0 S2010 S2011 run2010 seg2010
theorem run2012 : runSeg 18 146876 0 S0 = (S2012, true) := runSeg_comp 18 146803 73 0 S0 S2011 S2012 run2011 seg2011
theorem run2013 : runSeg 18 146949 0 S0 = (S2013, true) := runSeg_comp 18 146876 73 0 S0 S2012 S2013 run2012 seg2012
theorem run2014 : runSeg 18 147022 0 S0 = (S2014, true) := runSeg_comp 18 146949 73 0 S0 S2013 S2014 run2013 seg2013
theorem run2015 : runSeg 18 147095 0 S0 = (S2015, true) := runSeg_comp 18 147022 73 0 S0 S2014 S2015 run2014 seg2014
theorem run2016 : runSeg 18 147168 0 S0 = (S2016, true) := runSeg_comp 18 147095 73 0 S0 S2015 S2016 run2015 seg2015
theorem run2017 : runSeg 18 147241 0 S0 = (S2017, true) := runSeg_comp 18 147168 73 0 S0 S2016 S2017 run2016 seg2016
theorem run2018 : runSeg 18 147314 0 S0 = (S2018, true) := runSeg_comp 18 147241 73 0 S0 S2017 S2018 run2017 seg2017
theorem run2019 : runSeg 18 147387 0 S0 = (S2019, true) := runSeg_comp 18 147314 73 0 S0 S2018 S2019 run2018 seg2018
theorem run2020 : runSeg 18 147460 0 S0 = (S2020, true) := runSeg_comp 18 147387 73 0 S0 S2019 S2020 run2019 seg2019
theorem run2021 : runSeg 18 147533 0 S0 = (S2021, true) := runSeg_comp 18 147460 73 0 S0 S2020 S2021 run2020 seg2020
theorem run2022 : runSeg 18 147606 0 S0 = (S2022, true) := runSeg_comp 18 147533 73 0 S0 S2021 S2022 run2021 seg2021
theorem run2023 : runSeg 18 147679 0 S0 = (S2023, true) := runSeg_comp 18 147606 73 0 S0 S2022 S2023 run2022 seg2022
theorem run2024 : runSeg 18 147752 0 S0 = (S2024, true) := runSeg_comp 18 147679 73 0 S0 S2023 S2024 run2023 seg2023
theorem run2025 : runSeg 18 147825 0 S0 = (S2025, true) := runSeg_comp 18 147752 73 0 S0 S2024 S2025 run2024 seg2024
theorem run2026 : runSeg 18 147898 0 S0 = (S2026, true) := runSeg_comp 18 147825 73 0 S0 S2025 S2026 run2025 seg2025
theorem run2027 : runSeg 18 147971 0 S0 = (S2027, true) := runSeg_comp 18 147898 73 0 S0 S2026 S2027 run2026 seg2026
theorem run2028 : runSeg 18 148044 0 S0 = (S2028, true) := runSeg_comp 18 147971 73 0 S0 S2027 S2028 run2027 seg2027
theorem run2029 : runSeg 18 148117 0 S0 = (S2029, true) := runSeg_comp 18 148044 73 0 S0 S2028 S2029 run2028 seg2028
theorem run2030 : runSeg 18 148190 0 S0 = (S2030, true) := runSeg_comp 18 148117 73 0 S0 S2029 S2030 run2029 seg2029
theorem run2031 : runSeg 18 148263 0 S0 = (S2031, true) := runSeg_comp 18 148190 73 0 S0 S2030 S2031 run2030 seg2030
theorem run2032 : runSeg 18 148336 0 S0 = (S2032, true) := runSeg_comp 18 148263 73 0 S0 S2031 S2032 run2031 seg2031
theorem run2033 : runSeg 18 148409 0 S0 = (S2033, true) := runSeg_comp 18 148336 73 0 S0 S2032 S2033 run2032 seg2032
theorem run2034 : runSeg 18 148482 0 S0 = (S2034, true) := runSeg_comp 18 148409 73 0 S0 S2033 S2034 run2033 seg2033
theorem run2035 : runSeg 18 148555 0 S0 = (S2035, true) := runSeg_comp 18 148482 73 0 S0 S2034 S2035 run2034 seg2034
theorem run2036 : runSeg 18 148628 0 S0 = (S2036, true) := runSeg_comp 18 148555 73 0 S0 S2035 S2036 run2035 seg2035
theorem run2037 : runSeg 18 148701 0 S0 = (S2037, true) := runSeg_comp 18 148628 73 0 S0 S2036 S2037 run2036 seg2036
theorem run2038 : runSeg 18 148774 0 S0 = (S2038, true) := runSeg_comp 18 148701 73 0 S0 S2037 S2038 run2037 seg2037
theorem run2039 : runSeg 18 148847 0 S0 = (S2039, true) := runSeg_comp 18 148774 73 0 S0 S2038 S2039 run2038 seg2038
theorem run2040 : runSeg 18 148920 0 S0 = (S2040, true) := runSeg_comp 18 148847 73 0 S0 S2039 S2040 run2039 seg2039
theorem run2041 : runSeg 18 148993 0 S0 = (S2041, true) := runSeg_comp 18 148920 73 0 S0 S2040 S2041 run2040 seg2040
theorem run2042 : runSeg 18 149066 0 S0 = (S2042, true) := runSeg_comp 18 148993 73 0 S0 S2041 S2042 run2041 seg2041
theorem run2043 : runSeg 18 149139 0 S0 = (S2043, true) := runSeg_comp 18 149066 73 0 S0 S2042 S2043 run2042 seg2042
theorem run2044 : runSeg 18 149212 0 S0 = (S2044, true) := runSeg_comp 18 149139 73 0 S0 S2043 S2044 run2043 seg2043
theorem run2045 : runSeg 18 149285 0 S0 = (S2045, true) := runSeg_comp 18 149212 73 0 S0 S2044 S2045 run2044 seg2044
theorem run2046 : runSeg 18 149358 0 S0 = (S2046, true) := runSeg_comp 18 149285 73 0 S0 S2045 S2046 run2045 seg2045
theorem run2047 : runSeg 18 149431 0 S0 = (S2047, true) := runSeg_comp 18 149358 73 0 S0 S2046 S2047 run2046 seg2046
theorem run2048 : runSeg 18 149504 0 S0 = (S2048, true) := runSeg_comp 18 149431 73 0 S0 S2047 S2048 run2047 seg2047
theorem run2049 : runSeg 18 149577 0 S0 = (S2049, true) := runSeg_comp 18 149504 73 0 S0 S2048 S2049 run2048 seg2048
theorem run2050 : runSeg 18 149650 0 S0 = (S2050, true) := runSeg_comp 18 149577 73 0 S0 S2049 S2050 run2049 seg2049
theorem run2051 : runSeg 18 149723 0 S0 = (S2051, true) := runSeg_comp 18 149650 73 0 S0 S2050 S2051 run2050 seg2050
theorem run2052 : runSeg 18 149796 0 S0 = (S2052, true) := runSeg_comp 18 149723 73 0 S0 S2051 S2052 run2051 seg2051
theorem run2053 : runSeg 18 149869 0 S0 = (S2053, true) := runSeg_comp 18 149796 73 0 S0 S2052 S2053 run2052 seg2052
theorem run2054 : runSeg 18 149942 0 S0 = (S2054, true) := runSeg_comp 18 149869 73 0 S0 S2053 S2054 run2053 seg2053
theorem run2055 : runSeg 18 150015 0 S0 = (S2055, true) := runSeg_comp 18 149942 73 0 S0 S2054 S2055 run2054 seg2054
theorem run2056 : runSeg 18 150088 0 S0 = (S2056, true) := runSeg_comp 18 150015 73 0 S0 S2055 S2056 run2055 seg2055
theorem run2057 : runSeg 18 150161 0 S0 = (S2057, true) := runSeg_comp 18 150088 73 0 S0 S2056 S2057 run2056 seg2056
theorem run2058 : runSeg 18 150234 0 S0 = (S2058, true) := runSeg_comp 18 150161 73 0 S0 S2057 S2058 run2057 seg2057
theorem run2059 : runSeg 18 150307 0 S0 = (S2059, true) := runSeg_comp 18 150234 73 0 S0 S2058 S2059 run2058 seg2058
theorem run2060 : runSeg 18 150380 0 S0 = (S2060, true) := runSeg_comp 18 150307 73 0 S0 S2059 S2060 run2059 seg2059
theorem run2061 : runSeg 18 150453 0 S0 = (S2061, true) := runSeg_comp 18 150380 73 0 S0 S2060 S2061 run2060 seg2060
theorem run2062 : runSeg 18 150526 0 S0 = (S2062, true) := runSeg_comp 18 150453 73 0 S0 S2061 S2062 run2061 seg2061
theorem run2063 : runSeg 18 150599 0 S0 = (S2063, true) := runSeg_comp 18 150526 73 0 S0 S2062 S2063 run2062 seg2062
theorem run2064 : runSeg 18 150672 0 S0 = (S2064, true) := runSeg_comp 18 150599 73 0 S0 S2063 S2064 run2063 seg2063
theorem run2065 : runSeg 18 150745 0 S0 = (S2065, true) := runSeg_comp 18 150672 73 0 S0 S2064 S2065 run2064 seg2064
theorem run2066 : runSeg 18 150818 0 S0 = (S2066, true) := runSeg_comp 18 150745 73 0 S0 S2065 S2066 run2065 seg2065
theorem run2067 : runSeg 18 150891 0 S0 = (S2067, true) := runSeg_comp 18 150818 73 0 S0 S2066 S2067 run2066 seg2066
theorem run2068 : runSeg 18 150964 0 S0 = (S2068, true) := runSeg_comp 18 150891 73 0 S0 S2067 S2068 run2067 seg2067
theorem run2069 : runSeg 18 151037 0 S0 = (S2069, true) := runSeg_comp 18 150964 73 0 S0 S2068 S2069 run2068 seg2068
theorem run2070 : runSeg 18 151110 0 S0 = (S2070, true) := runSeg_comp 18 151037 73 0 S0 S2069 S2070 run2069 seg2069
theorem run2071 : runSeg 18 151183 0 S0 = (S2071, true) := runSeg_comp 18 151110 73 0 S0 S2070 S2071 run2070 seg2070
theorem run2072 : runSeg 18 151256 0 S0 = (S2072, true) := runSeg_comp 18 151183 73 0 S0 S2071 S2072 run2071 seg2071
theorem run2073 : runSeg 18 151329 0 S0 = (S2073, true) := runSeg_comp 18 151256 73 0 S0 S2072 S2073 run2072 seg2072
theorem run2074 : runSeg 18 151402 0 S0 = (S2074, true) := runSeg_comp 18 151329 73 0 S0 S2073 S2074 run2073 seg2073
theorem run2075 : runSeg 18 151475 0 S0 = (S2075, true) := runSeg_comp 18 151402 73 0 S0 S2074 S2075 run2074 seg2074
theorem run2076 : runSeg 18 151548 0 S0 = (S2076, true) := runSeg_comp 18 151475 73 0 S0 S2075 S2076 run2075 seg2075
theorem run2077 : runSeg 18 151621 0 S0 = (S2077, true) := runSeg_comp 18 151548 73 0 S0 S2076 S2077 run2076 seg2076
theorem run2078 : runSeg 18 151694 0 S0 = (S2078, true) := runSeg_comp 18 151621 73 0 S0 S2077 S2078 run2077 seg2077
theorem run2079 : runSeg 18 151767 0 S0 = (S2079, true) := runSeg_comp 18 151694 73 0 S0 S2078 S2079 run2078 seg2078
theorem run2080 : runSeg 18 151840 0 S0 = (S2080, true) := runSeg_comp 18 151767 73 0 S0 S2079 S2080 run2079 seg2079
theorem run2081 : runSeg 18 151913 0 S0 = (S2081, true) := runSeg_comp 18 151840 73 0 S0 S2080 S2081 run2080 seg2080
theorem run2082 : runSeg 18 151986 0 S0 = (S2082, true) := runSeg_comp 18 151913 73 0 S0 S2081 S2082 run2081 seg2081
theorem run2083 : runSeg 18 152059 0 S0 = (S2083, true) := runSeg_comp 18 151986 73 0 S0 S2082 S2083 run2082 seg2082
theorem run2084 : runSeg 18 152132 0 S0 = (S2084, true) := runSeg_comp 18 152059 73 0 S0 S2083 S2084 run2083 seg2083
theorem run2085 : runSeg 18 152205 0 S0 = (S2085, true) := runSeg_comp 18 152132 73 0 S0 S2084 S2085 run2084 seg2084
theorem run2086 : runSeg 18 152278 0 S0 = (S2086, true) := runSeg_comp 18 152205 73 0 S0 S2085 S2086 run2085 seg2085
theorem run2087 : runSeg 18 152351 0 S0 = (S2087, true) := runSeg_comp 18 152278 73 0 S0 S2086 S2087 run2086 seg2086
theorem run2088 : runSeg 18 152424 0 S0 = (S2088, true) := runSeg_comp 18 152351 73 0 S0 S2087 S2088 run2087 seg2087
theorem run2089 : runSeg 18 152497 0 S0 = (S2089, true) := runSeg_comp 18 152424 73 0 S0 S2088 S2089 run2088 seg2088
theorem run2090 : runSeg 18 152570 0 S0 = (S2090, true) := runSeg_comp 18 152497 73 0 S0 S2089 S2090 run2089 seg2089
theorem run2091 : runSeg 18 152643 0 S0 = (S2091, true) := runSeg_comp 18 152570 73 0 S0 S2090 S2091 run2090 seg2090
theorem run2092 : runSeg 18 152716 0 S0 = (S2092, true) := runSeg_comp 18 152643 73 0 S0 S2091 S2092 run2091 seg2091
theorem run2093 : runSeg 18 152789 0 S0 = (S2093, true) := runSeg_comp 18 152716 73 0 S0 S2092 S2093 run2092 seg2092
theorem run2094 : runSeg 18 152862 0 S0 = (S2094, true) := runSeg_comp 18 152789 73 0 S0 S2093 S2094 run2093 seg2093
theorem run2095 : runSeg 18 152935 0 S0 = (S2095, true) := runSeg_comp 18 152862 73 0 S0 S2094 S2095 run2094 seg2094
theorem run2096 : runSeg 18 153008 0 S0 = (S2096, true) := runSeg_comp 18 152935 73 0 S0 S2095 S2096 run2095 seg2095
theorem run2097 : runSeg 18 153081 0 S0 = (S2097, true) := runSeg_comp 18 153008 73 0 S0 S2096 S2097 run2096 seg2096
theorem run2098 : runSeg 18 153154 0 S0 = (S2098, true) := runSeg_comp 18 153081 73 0 S0 S2097 S2098 run2097 seg2097
theorem run2099 : runSeg 18 153227 0 S0 = (S2099, true) := runSeg_comp 18 153154 73 0 S0 S2098 S2099 run2098 seg2098
theorem run2100 : runSeg 18 153300 0 S0 = (S2100, true) := runSeg_comp 18 153227 73 0 S0 S2099 S2100 run2099 seg2099
theorem run2101 : runSeg 18 153373 0 S0 = (S2101, true) := runSeg_comp 18 153300 73 0 S0 S2100 S2101 run2100 seg2100
theorem run2102 : runSeg 18 153446 0 S0 = (S2102, true) := runSeg_comp 18 153373 73 0 S0 S2101 S2102 run2101 seg2101
theorem run2103 : runSeg 18 153519 0 S0 = (S2103, true) := runSeg_comp 18 153446 73 0 S0 S2102 S2103 run2102 seg2102
theorem run2104 : runSeg 18 153592 0 S0 = (S2104, true) := runSeg_comp 18 153519 73 0 S0 S2103 S2104 run2103 seg2103
theorem run2105 : runSeg 18 153665 0 S0 = (S2105, true) := runSeg_comp 18 153592 73 0 S0 S2104 S2105 run2104 seg2104
theorem run2106 : runSeg 18 153738 0 S0 = (S2106, true) := runSeg_comp 18 153665 73 0 S0 S2105 S2106 run2105 seg2105
theorem run2107 : runSeg 18 153811 0 S0 = (S2107, true) := runSeg_comp 18 153738 73 0 S0 S2106 S2107 run2106 seg2106
theorem run2108 : runSeg 18 153884 0 S0 = (S2108, true) := runSeg_comp 18 153811 73 0 S0 S2107 S2108 run2107 seg2107
theorem run2109 : runSeg 18 153957 0 S0 = (S2109, true) := runSeg_comp 18 153884 73 0 S0 S2108 S2109 run2108 seg2108
theorem run2110 : runSeg 18 154030 0 S0 = (S2110, true) := runSeg_comp 18 153957 73 0 S0 S2109 S2110 run2109 seg2109
theorem run2111 : runSeg 18 154103 0 S0 = (S2111, true) := runSeg_comp 18 154030 73 0 S0 S2110 S2111 run2110 seg2110
theorem run2112 : runSeg 18 154176 0 S0 = (S2112, true) := runSeg_comp 18 154103 73 0 S0 S2111 S2112 run2111 seg2111
theorem run2113 : runSeg 18 154249 0 S0 = (S2113, true) := runSeg_comp 18 154176 73 0 S0 S2112 S2113 run2112 seg2112
theorem run2114 : runSeg 18 154322 0 S0 = (S2114, true) := runSeg_comp 18 154249 73 0 S0 S2113 S2114 run2113 seg2113
theorem run2115 : runSeg 18 154395 0 S0 = (S2115, true) := runSeg_comp 18 154322 73 0 S0 S2114 S2115 run2114 seg2114
theorem run2116 : runSeg 18 154468 0 S0 = (S2116, true) := runSeg_comp 18 154395 73 0 S0 S2115 S2116 run2115 seg2115
theorem run2117 : runSeg 18 154541 0 S0 = (S2117, true) := runSeg_comp 18 154468 73 0 S0 S2116 S2117 run2116 seg2116
theorem run2118 : runSeg 18 154614 0 S0 = (S2118, true) := runSeg_comp 18 154541 73 0 S0 S2117 S2118 run2117 seg2117
theorem run2119 : runSeg 18 154687 0 S0 = (S2119, true) := runSeg_comp 18 154614 73 0 S0 S2118 S2119 run2118 seg2118
theorem run2120 : runSeg 18 154760 0 S0 = (S2120, true) := runSeg_comp 18 154687 73 0 S0 S2119 S2120 run2119 seg2119
theorem run2121 : runSeg 18 154833 0 S0 = (S2121, true) := runSeg_comp 18 154760 73 0 S0 S2120 S2121 run2120 seg2120
theorem run2122 : runSeg 18 154906 0 S0 = (S2122, true) := runSeg_comp 18 154833 73 0 S0 S2121 S2122 run2121 seg2121
theorem run2123 : runSeg 18 154979 0 S0 = (S2123, true) := runSeg_comp 18 154906 73 0 S0 S2122 S2123 run2122 seg2122
theorem run2124 : runSeg 18 155052 0 S0 = (S2124, true) := runSeg_comp 18 154979 73 0 S0 S2123 S2124 run2123 seg2123
theorem run2125 : runSeg 18 155125 0 S0 = (S2125, true) := runSeg_comp 18 155052 73 0 S0 S2124 S2125 run2124 seg2124
theorem run2126 : runSeg 18 155198 0 S0 = (S2126, true) := runSeg_comp 18 155125 73 0 S0 S2125 S2126 run2125 seg2125
theorem run2127 : runSeg 18 155271 0 S0 = (S2127, true) := runSeg_comp 18 155198 73 0 S0 S2126 S2127 run2126 seg2126
theorem run2128 : runSeg 18 155344 0 S0 = (S2128, true) := runSeg_comp 18 155271 73 0 S0 S2127 S2128 run2127 seg2127
theorem run2129 : runSeg 18 155417 0 S0 = (S2129, true) := runSeg_comp 18 155344 73 0 S0 S2128 S2129 run2128 seg2128
theorem run2130 : runSeg 18 155490 0 S0 = (S2130, true) := runSeg_comp 18 155417 73 0 S0 S2129 S2130 run2129 seg2129
theorem run2131 : runSeg 18 155563 0 S0 = (S2131, true) := runSeg_comp 18 155490 73 0 S0 S2130 S2131 run2130 seg2130
theorem run2132 : runSeg 18 155636 0 S0 = (S2132, true) := runSeg_comp 18 155563 73 0 S0 S2131 S2132 run2131 seg2131
theorem run2133 : runSeg 18 155709 0 S0 = (S2133, true) := runSeg_comp 18 155636 73 0 S0 S2132 S2133 run2132 seg2132
theorem run2134 : runSeg 18 155782 0 S0 = (S2134, true) := runSeg_comp 18 155709 73 0 S0 S2133 S2134 run2133 seg2133
theorem run2135 : runSeg 18 155855 0 S0 = (S2135, true) := runSeg_comp 18 155782 73 0 S0 S2134 S2135 run2134 seg2134
theorem run2136 : runSeg 18 155928 0 S0 = (S2136, true) := runSeg_comp 18 155855 73 0 S0 S2135 S2136 run2135 seg2135
theorem run2137 : runSeg 18 156001 0 S0 = (S2137, true) := runSeg_comp 18 155928 73 0 S0 S2136 S2137 run2136 seg2136
theorem run2138 : runSeg 18 156074 0 S0 = (S2138, true) := runSeg_comp 18 156001 73 0 S0 S2137 S2138 run2137 seg2137
theorem run2139 : runSeg 18 156147 0 S0 = (S2139, true) := runSeg_comp 18 156074 73 0 S0 S2138 S2139 run2138 seg2138
theorem run2140 : runSeg 18 156220 0 S0 = (S2140, true) := runSeg_comp 18 156147 73 0 S0 S2139 S2140 run2139 seg2139
theorem run2141 : runSeg 18 156293 0 S0 = (S2141, true) := runSeg_comp 18 156220 73 0 S0 S2140 S2141 run2140 seg2140
theorem run2142 : runSeg 18 156366 0 S0 = (S2142, true) := runSeg_comp 18 156293 73 0 S0 S2141 S2142 run2141 seg2141
theorem run2143 : runSeg 18 156439 0 S0 = (S2143, true) := runSeg_comp 18 156366 73 0 S0 S2142 S2143 run2142 seg2142
theorem run2144 : runSeg 18 156512 0 S0 = (S2144, true) := runSeg_comp 18 156439 73 0 S0 S2143 S2144 run2143 seg2143
theorem run2145 : runSeg 18 156585 0 S0 = (S2145, true) := runSeg_comp 18 156512 73 0 S0 S2144 S2145 run2144 seg2144
theorem run2146 : runSeg 18 156658 0 S0 = (S2146, true) := runSeg_comp 18 156585 73 0 S0 S2145 S2146 run2145 seg2145
theorem run2147 : runSeg 18 156731 0 S0 = (S2147, true) := runSeg_comp 18 156658 73 0 S0 S2146 S2147 run2146 seg2146
theorem run2148 : runSeg 18 156804 0 S0 = (S2148, true) := runSeg_comp 18 156731 73 0 S0 S2147 S2148 run2147 seg2147
theorem run2149 : runSeg 18 156877 0 S0 = (S2149, true) := runSeg_comp 18 156804 73 0 S0 S2148 S2149 run2148 seg2148
theorem run2150 : runSeg 18 156950 0 S0 = (S2150, true) := runSeg_comp 18 156877 73 0 S0 S2149 S2150 run2149 seg2149
theorem run2151 : runSeg 18 157023 0 S0 = (S2151, true) := runSeg_comp 18 156950 73 0 S0 S2150 S2151 run2150 seg2150
theorem run2152 : runSeg 18 157096 0 S0 = (S2152, true) := runSeg_comp 18 157023 73 0 S0 S2151 S2152 run2151 seg2151
theorem run2153 : runSeg 18 157169 0 S0 = (S2153, true) := runSeg_comp 18 157096 73 0 S0 S2152 S2153 run2152 seg2152
theorem run2154 : runSeg 18 157242 0 S0 = (S2154, true) := runSeg_comp 18 157169 73 0 S0 S2153 S2154 run2153 seg2153
theorem run2155 : runSeg 18 157315 0 S0 = (S2155, true) := runSeg_comp 18 157242 73 0 S0 S2154 S2155 run2154 seg2154
theorem run2156 : runSeg 18 157388 0 S0 = (S2156, true) := runSeg_comp 18 157315 73 0 S0 S2155 S2156 run2155 seg2155
theorem run2157 : runSeg 18 157461 0 S0 = (S2157, true) := runSeg_comp 18 157388 73 0 S0 S2156 S2157 run2156 seg2156
theorem run2158 : runSeg 18 157534 0 S0 = (S2158, true) := runSeg_comp 18 157461 73 0 S0 S2157 S2158 run2157 seg2157
theorem run2159 : runSeg 18 157607 0 S0 = (S2159, true) := runSeg_comp 18 157534 73 0 S0 S2158 S2159 run2158 seg2158
theorem run2160 : runSeg 18 157680 0 S0 = (S2160, true) := runSeg_comp 18 157607 73 0 S0 S2159 S2160 run2159 seg2159
theorem run2161 : runSeg 18 157753 0 S0 = (S2161, true) := runSeg_comp 18 157680 73 0 S0 S2160 S2161 run2160 seg2160
theorem run2162 : runSeg 18 157826 0 S0 = (S2162, true) := runSeg_comp 18 157753 73 0 S0 S2161 S2162 run2161 seg2161
theorem run2163 : runSeg 18 157899 0 S0 = (S2163, true) := runSeg_comp 18 157826 73 0 S0 S2162 S2163 run2162 seg2162
theorem run2164 : runSeg 18 157972 0 S0 = (S2164, true) := runSeg_comp 18 157899 73 0 S0 S2163 S2164 run2163 seg2163
theorem run2165 : runSeg 18 158045 0 S0 = (S2165, true) := runSeg_comp 18 157972 73 0 S0 S2164 S2165 run2164 seg2164
theorem run2166 : runSeg 18 158118 0 S0 = (S2166, true) := runSeg_comp 18 158045 73 0 S0 S2165 S2166 run2165 seg2165
theorem run2167 : runSeg 18 158191 0 S0 = (S2167, true) := runSeg_comp 18 158118 73 0 S0 S2166 S2167 run2166 seg2166
theorem run2168 : runSeg 18 158264 0 S0 = (S2168, true) := runSeg_comp 18 158191 73 0 S0 S2167 S2168 run2167 seg2167
theorem run2169 : runSeg 18 158337 0 S0 = (S2169, true) := runSeg_comp 18 158264 73 0 S0 S2168 S2169 run2168 seg2168
theorem run2170 : runSeg 18 158410 0 S0 = (S2170, true) := runSeg_comp 18 158337 73 0 S0 S2169 S2170 run2169 seg2169
theorem run2171 : runSeg 18 158483 0 S0 = (S2171, true) := runSeg_comp 18 158410 73 0 S0 S2170 S2171 run2170 seg2170
theorem run2172 : runSeg 18 158556 0 S0 = (S2172, true) := runSeg_comp 18 158483 73 0 S0 S2171 S2172 run2171 seg2171
theorem run2173 : runSeg 18 158629 0 S0 = (S2173, true) := runSeg_comp 18 158556 73 0 S0 S2172 S2173 run2172 seg2172
theorem run2174 : runSeg 18 158702 0 S0 = (S2174, true) := runSeg_comp 18 158629 73 0 S0 S2173 S2174 run2173 seg2173
theorem run2175 : runSeg 18 158775 0 S0 = (S2175, true) := runSeg_comp 18 158702 73 0 S0 S2174 S2175 run2174 seg2174
theorem run2176 : runSeg 18 158848 0 S0 = (S2176, true) := runSeg_comp 18 158775 73 0 S0 S2175 S2176 run2175 seg2175
theorem run2177 : runSeg 18 158921 0 S0 = (S2177, true) := runSeg_comp 18 158848 73 0 S0 S2176 S2177 run2176 seg2176
theorem run2178 : runSeg 18 158994 0 S0 = (S2178, true) := runSeg_comp 18 158921 73 0 S0 S2177 S2178 run2177 seg2177
theorem run2179 : runSeg 18 159067 0 S0 = (S2179, true) := runSeg_comp 18 158994 73 0 S0 S2178 S2179 run2178 seg2178
theorem run2180 : runSeg 18 159140 0 S0 = (S2180, true) := runSeg_comp 18 159067 73 0 S0 S2179 S2180 run2179 seg2179
theorem run2181 : runSeg 18 159213 0 S0 = (S2181, true) := runSeg_comp 18 159140 73 0 S0 S2180 S2181 run2180 seg2180
theorem run2182 : runSeg 18 159286 0 S0 = (S2182, true) := runSeg_comp 18 159213 73 0 S0 S2181 S2182 run2181 seg2181
theorem run2183 : runSeg 18 159359 0 S0 = (S2183, true) := runSeg_comp 18 159286 73 0 S0 S2182 S2183 run2182 seg2182
theorem run2184 : runSeg 18 159432 0 S0 = (S2184, true) := runSeg_comp 18 159359 73 0 S0 S2183 S2184 run2183 seg2183
theorem run2185 : runSeg 18 159505 0 S0 = (S2185, true) := runSeg_comp 18 159432 73 0 S0 S2184 S2185 run2184 seg2184
theorem run2186 : runSeg 18 159578 0 S0 = (S2186, true) := runSeg_comp 18 159505 73 0 S0 S2185 S2186 run2185 seg2185
theorem run2187 : runSeg 18 159651 0 S0 = (S2187, true) := runSeg_comp 18 159578 73 0 S0 S2186 S2187 run2186 seg2186
theorem run2188 : runSeg 18 159724 0 S0 = (S2188, true) := runSeg_comp 18 159651 73 0 S0 S2187 S2188 run2187 seg2187
theorem run2189 : runSeg 18 159797 0 S0 = (S2189, true) := runSeg_comp 18 159724 73 0 S0 S2188 S2189 run2188 seg2188
theorem run2190 : runSeg 18 159870 0 S0 = (S2190, true) := runSeg_comp 18 159797 73 0 S0 S2189 S2190 run2189 seg2189
theorem run2191 : runSeg 18 159943 0 S0 = (S2191, true) := runSeg_comp 18 159870 73 0 S0 S2190 S2191 run2190 seg2190
theorem run2192 : runSeg 18 160016 0 S0 = (S2192, true) := runSeg_comp 18 159943 73 0 S0 S2191 S2192 run2191 seg2191
theorem run2193 : runSeg 18 160089 0 S0 = (S2193, true) := runSeg_comp 18 160016 73 0 S0 S2192 S2193 run2192 seg2192
theorem run2194 : runSeg 18 160162 0 S0 = (S2194, true) := runSeg_comp 18 160089 73 0 S0 S2193 S2194 run2193 seg2193
theorem run2195 : runSeg 18 160235 0 S0 = (S2195, true) := runSeg_comp 18 160162 73 0 S0 S2194 S2195 run2194 seg2194
theorem run2196 : runSeg 18 160308 0 S0 = (S2196, true) := runSeg_comp 18 160235 73 0 S0 S2195 S2196 run2195 seg2195
theorem run2197 : runSeg 18 160381 0 S0 = (S2197, true) := runSeg_comp 18 160308 73 0 S0 S2196 S2197 run2196 seg2196
theorem run2198 : runSeg 18 160454 0 S0 = (S2198, true) := runSeg_comp 18 160381 73 0 S0 S2197 S2198 run2197 seg2197
theorem run2199 : runSeg 18 160527 0 S0 = (S2199, true) := runSeg_comp 18 160454 73 0 S0 S2198 S2199 run2198 seg2198
theorem run2200 : runSeg 18 160600 0 S0 = (S2200, true) := runSeg_comp 18 160527 73 0 S0 S2199 S2200 run2199 seg2199
theorem run2201 : runSeg 18 160673 0 S0 = (S2201, true) := runSeg_comp 18 160600 73 0 S0 S2200 S2201 run2200 seg2200
theorem run2202 : runSeg 18 160746 0 S0 = (S2202, true) := runSeg_comp 18 160673 73 0 S0 S2201 S2202 run2201 seg2201
theorem run2203 : runSeg 18 160819 0 S0 = (S2203, true) := runSeg_comp 18 160746 73 0 S0 S2202 S2203 run2202 seg2202
theorem run2204 : runSeg 18 160892 0 S0 = (S2204, true) := runSeg_comp 18 160819 73 0 S0 S2203 S2204 run2203 seg2203
theorem run2205 : runSeg 18 160965 0 S0 = (S2205, true) := runSeg_comp 18 160892 73 0 S0 S2204 S2205 run2204 seg2204
theorem run2206 : runSeg 18 161038 0 S0 = (S2206, true) := runSeg_comp 18 160965 73 0 S0 S2205 S2206 run2205 seg2205
theorem run2207 : runSeg 18 161111 0 S0 = (S2207, true) := runSeg_comp 18 161038 73 0 S0 S2206 S2207 run2206 seg2206
theorem run2208 : runSeg 18 161184 0 S0 = (S2208, true) := runSeg_comp 18 161111 73 0 S0 S2207 S2208 run2207 seg2207
theorem run2209 : runSeg 18 161257 0 S0 = (S2209, true) := runSeg_comp 18 161184 73 0 S0 S2208 S2209 run2208 seg2208
theorem run2210 : runSeg 18 161330 0 S0 = (S2210, true) := runSeg_comp 18 161257 73 0 S0 S2209 S2210 run2209 seg2209
theorem run2211 : runSeg 18 161403 0 S0 = (S2211, true) := runSeg_comp 18 161330 73 0 S0 S2210 S2211 run2210 seg2210
theorem run2212 : runSeg 18 161476 0 S0 = (S2212, true) := runSeg_comp 18 161403 73 0 S0 S2211 S2212 run2211 seg2211
theorem run2213 : runSeg 18 161549 0 S0 = (S2213, true) := runSeg_comp 18 161476 73 0 S0 S2212 S2213 run2212 seg2212
theorem run2214 : runSeg 18 161622 0 S0 = (S2214, true) := runSeg_comp 18 161549 73 0 S0 S2213 S2214 run2213 seg2213
theorem run2215 : runSeg 18 161695 0 S0 = (S2215, true) := runSeg_comp 18 161622 73 0 S0 S2214 S2215 run2214 seg2214
theorem run2216 : runSeg 18 161768 0 S0 = (S2216, true) := runSeg_comp 18 161695 73 0 S0 S2215 S2216 run2215 seg2215
theorem run2217 : runSeg 18 161841 0 S0 = (S2217, true) := runSeg_comp 18 161768 73 0 S0 S2216 S2217 run2216 seg2216
theorem run2218 : runSeg 18 161914 0 S0 = (S2218, true) := runSeg_comp 18 161841 73 0 S0 S2217 S2218 run2217 seg2217
theorem run2219 : runSeg 18 161987 0 S0 = (S2219, true) := runSeg_comp 18 161914 73 0 S0 S2218 S2219 run2218 seg2218
theorem run2220 : runSeg 18 162060 0 S0 = (S2220, true) := runSeg_comp 18 161987 73 0 S0 S2219 S2220 run2219 seg2219
theorem run2221 : runSeg 18 162133 0 S0 = (S2221, true) := runSeg_comp 18 162060 73 0 S0 S2220 S2221 run2220 seg2220
theorem run2222 : runSeg 18 162206 0 S0 = (S2222, true) := runSeg_comp 18 162133 73 0 S0 S2221 S2222 run2221 seg2221
theorem run2223 : runSeg 18 162279 0 S0 = (S2223, true) := runSeg_comp 18 162206 73 0 S0 S2222 S2223 run2222 seg2222
theorem run2224 : runSeg 18 162352 0 S0 = (S2224, true) := runSeg_comp 18 162279 73 0 S0 S2223 S2224 run2223 seg2223
theorem run2225 : runSeg 18 162425 0 S0 = (S2225, true) := runSeg_comp 18 162352 73 0 S0 S2224 S2225 run2224 seg2224
theorem run2226 : runSeg 18 162498 0 S0 = (S2226, true) := runSeg_comp 18 162425 73 0 S0 S2225 S2226 run2225 seg2225
theorem run2227 : runSeg 18 162571 0 S0 = (S2227, true) := runSeg_comp 18 162498 73 0 S0 S2226 S2227 run2226 seg2226
theorem run2228 : runSeg 18 162644 0 S0 = (S2228, true) := runSeg_comp 18 162571 73 0 S0 S2227 S2228 run2227 seg2227
theorem run2229 : runSeg 18 162717 0 S0 = (S2229, true) := runSeg_comp 18 162644 73 0 S0 S2228 S2229 run2228 seg2228
theorem run2230 : runSeg 18 162790 0 S0 = (S2230, true) := runSeg_comp 18 162717 73 0 S0 S2229 S2230 run2229 seg2229
theorem run2231 : runSeg 18 162863 0 S0 = (S2231, true) := runSeg_comp 18 162790 73 0 S0 S2230 S2231 run2230 seg2230
theorem run2232 : runSeg 18 162936 0 S0 = (S2232, true) := runSeg_comp 18 162863 73 0 S0 S2231 S2232 run2231 seg2231
theorem run2233 : runSeg 18 163009 0 S0 = (S2233, true) := runSeg_comp 18 162936 73 0 S0 S2232 S2233 run2232 seg2232
theorem run2234 : runSeg 18 163082 0 S0 = (S2234, true) := runSeg_comp 18 163009 73 0 S0 S2233 S2234 run2233 seg2233
theorem run2235 : runSeg 18 163155 0 S0 = (S2235, true) := runSeg_comp 18 163082 73 0 S0 S2234 S2235 run2234 seg2234
theorem run2236 : runSeg 18 163228 0 S0 = (S2236, true) := runSeg_comp 18 163155 73 0 S0 S2235 S2236 run2235 seg2235
theorem run2237 : runSeg 18 163301 0 S0 = (S2237, true) := runSeg_comp 18 163228 73 0 S0 S2236 S2237 run2236 seg2236
theorem run2238 : runSeg 18 163374 0 S0 = (S2238, true) := runSeg_comp 18 163301 73 0 S0 S2237 S2238 run2237 seg2237
theorem run2239 : runSeg 18 163447 0 S0 = (S2239, true) := runSeg_comp 18 163374 73 0 S0 S2238 S2239 run2238 seg2238
theorem run2240 : runSeg 18 163520 0 S0 = (S2240, true) := runSeg_comp 18 163447 73 0 S0 S2239 S2240 run2239 seg2239
theorem run2241 : runSeg 18 163593 0 S0 = (S2241, true) := runSeg_comp 18 163520 73 0 S0 S2240 S2241 run2240 seg2240
theorem run2242 : runSeg 18 163666 0 S0 = (S2242, true) := runSeg_comp 18 163593 73 0 S0 S2241 S2242 run2241 seg2241
theorem run2243 : runSeg 18 163739 0 S0 = (S2243, true) := runSeg_comp 18 163666 73 0 S0 S2242 S2243 run2242 seg2242
theorem run2244 : runSeg 18 163812 0 S0 = (S2244, true) := runSeg_comp 18 163739 73 0 S0 S2243 S2244 run2243 seg2243
theorem run2245 : runSeg 18 163885 0 S0 = (S2245, true) := runSeg_comp 18 163812 73 0 S0 S2244 S2245 run2244 seg2244
theorem run2246 : runSeg 18 163958 0 S0 = (S2246, true) := runSeg_comp 18 163885 73 0 S0 S2245 S2246 run2245 seg2245
theorem run2247 : runSeg 18 164031 0 S0 = (S2247, true) := runSeg_comp 18 163958 73 0 S0 S2246 S2247 run2246 seg2246
theorem run2248 : runSeg 18 164104 0 S0 = (S2248, true) := runSeg_comp 18 164031 73 0 S0 S2247 S2248 run2247 seg2247
theorem run2249 : runSeg 18 164177 0 S0 = (S2249, true) := runSeg_comp 18 164104 73 0 S0 S2248 S2249 run2248 seg2248
theorem run2250 : runSeg 18 164250 0 S0 = (S2250, true) := runSeg_comp 18 164177 73 0 S0 S2249 S2250 run2249 seg2249
theorem run2251 : runSeg 18 164323 0 S0 = (S2251, true) := runSeg_comp 18 164250 73 0 S0 S2250 S2251 run2250 seg2250
theorem run2252 : runSeg 18 164396 0 S0 = (S2252, true) := runSeg_comp 18 164323 73 0 S0 S2251 S2252 run2251 seg2251
theorem run2253 : runSeg 18 164469 0 S0 = (S2253, true) := runSeg_comp 18 164396 73 0 S0 S2252 S2253 run2252 seg2252
theorem run2254 : runSeg 18 164542 0 S0 = (S2254, true) := runSeg_comp 18 164469 73 0 S0 S2253 S2254 run2253 seg2253
theorem run2255 : runSeg 18 164615 0 S0 = (S2255, true) := runSeg_comp 18 164542 73 0 S0 S2254 S2255 run2254 seg2254
theorem run2256 : runSeg 18 164688 0 S0 = (S2256, true) := runSeg_comp 18 164615 73 0 S0 S2255 S2256 run2255 seg2255
theorem run2257 : runSeg 18 164761 0 S0 = (S2257, true) := runSeg_comp 18 164688 73 0 S0 S2256 S2257 run2256 seg2256
theorem run2258 : runSeg 18 164834 0 S0 = (S2258, true) := runSeg_comp 18 164761 73 0 S0 S2257 S2258 run2257 seg2257
theorem run2259 : runSeg 18 164907 0 S0 = (S2259, true) := runSeg_comp 18 164834 73 0 S0 S2258 S2259 run2258 seg2258
theorem run2260 : runSeg 18 164980 0 S0 = (S2260, true) := runSeg_comp 18 164907 73 0 S0 S2259 S2260 run2259 seg2259
theorem run2261 : runSeg 18 165053 0 S0 = (S2261, true) := runSeg_comp 18 164980 73 0 S0 S2260 S2261 run2260 seg2260
theorem run2262 : runSeg 18 165126 0 S0 = (S2262, true) := runSeg_comp 18 165053 73 0 S0 S2261 S2262 run2261 seg2261
theorem run2263 : runSeg 18 165199 0 S0 = (S2263, true) := runSeg_comp 18 165126 73 0 S0 S2262 S2263 run2262 seg2262
theorem run2264 : runSeg 18 165272 0 S0 = (S2264, true) := runSeg_comp 18 165199 73 0 S0 S2263 S2264 run2263 seg2263
theorem run2265 : runSeg 18 165345 0 S0 = (S2265, true) := runSeg_comp 18 165272 73 0 S0 S2264 S2265 run2264 seg2264
theorem run2266 : runSeg 18 165418 0 S0 = (S2266, true) := runSeg_comp 18 165345 73 0 S0 S2265 S2266 run2265 seg2265
theorem run2267 : runSeg 18 165491 0 S0 = (S2267, true) := runSeg_comp 18 165418 73 0 S0 S2266 S2267 run2266 seg2266
theorem run2268 : runSeg 18 165564 0 S0 = (S2268, true) := runSeg_comp 18 165491 73 0 S0 S2267 S2268 run2267 seg2267
theorem run2269 : runSeg 18 165637 0 S0 = (S2269, true) := runSeg_comp 18 165564 73 0 S0 S2268 S2269 run2268 seg2268
theorem run2270 : runSeg 18 165710 0 S0 = (S2270, true) := runSeg_comp 18 165637 73 0 S0 S2269 S2270 run2269 seg2269
theorem run2271 : runSeg 18 165783 0 S0 = (S2271, true) := runSeg_comp 18 165710 73 0 S0 S2270 S2271 run2270 seg2270
theorem run2272 : runSeg 18 165856 0 S0 = (S2272, true) := runSeg_comp 18 165783 73 0 S0 S2271 S2272 run2271 seg2271
theorem run2273 : runSeg 18 165929 0 S0 = (S2273, true) := runSeg_comp 18 165856 73 0 S0 S2272 S2273 run2272 seg2272
theorem run2274 : runSeg 18 166002 0 S0 = (S2274, true) := runSeg_comp 18 165929 73 0 S0 S2273 S2274 run2273 seg2273
theorem run2275 : runSeg 18 166075 0 S0 = (S2275, true) := runSeg_comp 18 166002 73 0 S0 S2274 S2275 run2274 seg2274
theorem run2276 : runSeg 18 166148 0 S0 = (S2276, true) := runSeg_comp 18 166075 73 0 S0 S2275 S2276 run2275 seg2275
theorem run2277 : runSeg 18 166221 0 S0 = (S2277, true) := runSeg_comp 18 166148 73 0 S0 S2276 S2277 run2276 seg2276
theorem run2278 : runSeg 18 166294 0 S0 = (S2278, true) := runSeg_comp 18 166221 73 0 S0 S2277 S2278 run2277 seg2277
theorem run2279 : runSeg 18 166367 0 S0 = (S2279, true) := runSeg_comp 18 166294 73 0 S0 S2278 S2279 run2278 seg2278
theorem run2280 : runSeg 18 166440 0 S0 = (S2280, true) := runSeg_comp 18 166367 73 0 S0 S2279 S2280 run2279 seg2279
theorem run2281 : runSeg 18 166513 0 S0 = (S2281, true) := runSeg_comp 18 166440 73 0 S0 S2280 S2281 run2280 seg2280
theorem run2282 : runSeg 18 166586 0 S0 = (S2282, true) := runSeg_comp 18 166513 73 0 S0 S2281 S2282 run2281 seg2281
theorem run2283 : runSeg 18 166659 0 S0 = (S2283, true) := runSeg_comp 18 166586 73 0 S0 S2282 S2283 run2282 seg2282
theorem run2284 : runSeg 18 166732 0 S0 = (S2284, true) := runSeg_comp 18 166659 73 0 S0 S2283 S2284 run2283 seg2283
theorem run2285 : runSeg 18 166805 0 S0 = (S2285, true) := runSeg_comp 18 166732 73 0 S0 S2284 S2285 run2284 seg2284
theorem run2286 : runSeg 18 166878 0 S0 = (S2286, true) := runSeg_comp 18 166805 73 0 S0 S2285 S2286 run2285 seg2285
theorem run2287 : runSeg 18 166951 0 S0 = (S2287, true) := runSeg_comp 18 166878 73 0 S0 S2286 S2287 run2286 seg2286
theorem run2288 : runSeg 18 167024 0 S0 = (S2288, true) := runSeg_comp 18 166951 73 0 S0 S2287 S2288 run2287 seg2287
theorem run2289 : runSeg 18 167097 0 S0 = (S2289, true) := runSeg_comp 18 167024 73 0 S0 S2288 S2289 run2288 seg2288
theorem run2290 : runSeg 18 167170 0 S0 = (S2290, true) := runSeg_comp 18 167097 73 0 S0 S2289 S2290 run2289 seg2289
theorem run2291 : runSeg 18 167243 0 S0 = (S2291, true) := runSeg_comp 18 167170 73 0 S0 S2290 S2291 run2290 seg2290
theorem run2292 : runSeg 18 167316 0 S0 = (S2292, true) := runSeg_comp 18 167243 73 0 S0 S2291 S2292 run2291 seg2291
theorem run2293 : runSeg 18 167389 0 S0 = (S2293, true) := runSeg_comp 18 167316 73 0 S0 S2292 S2293 run2292 seg2292
theorem run2294 : runSeg 18 167462 0 S0 = (S2294, true) := runSeg_comp 18 167389 73 0 S0 S2293 S2294 run2293 seg2293
theorem run2295 : runSeg 18 167535 0 S0 = (S2295, true) := runSeg_comp 18 167462 73 0 S0 S2294 S2295 run2294 seg2294
theorem run2296 : runSeg 18 167608 0 S0 = (S2296, true) := runSeg_comp 18 167535 73 0 S0 S2295 S2296 run2295 seg2295
theorem run2297 : runSeg 18 167681 0 S0 = (S2297, true) := runSeg_comp 18 167608 73 0 S0 S2296 S2297 run2296 seg2296
theorem run2298 : runSeg 18 167754 0 S0 = (S2298, true) := runSeg_comp 18 167681 73 0 S0 S2297 S2298 run2297 seg2297
theorem run2299 : runSeg 18 167827 0 S0 = (S2299, true) := runSeg_comp 18 167754 73 0 S0 S2298 S2299 run2298 seg2298
theorem run2300 : runSeg 18 167900 0 S0 = (S2300, true) := runSeg_comp 18 167827 73 0 S0 S2299 S2300 run2299 seg2299
theorem run2301 : runSeg 18 167973 0 S0 = (S2301, true) := runSeg_comp 18 167900 73 0 S0 S2300 S2301 run2300 seg2300
theorem run2302 : runSeg 18 168046 0 S0 = (S2302, true) := runSeg_comp 18 167973 73 0 S0 S2301 S2302 run2301 seg2301
theorem run2303 : runSeg 18 168119 0 S0 = (S2303, true) := runSeg_comp 18 168046 73 0 S0 S2302 S2303 run2302 seg2302
theorem run2304 : runSeg 18 168192 0 S0 = (S2304, true) := runSeg_comp 18 168119 73 0 S0 S2303 S2304 run2303 seg2303
theorem run2305 : runSeg 18 168265 0 S0 = (S2305, true) := runSeg_comp 18 168192 73 0 S0 S2304 S2305 run2304 seg2304
theorem run2306 : runSeg 18 168338 0 S0 = (S2306, true) := runSeg_comp 18 168265 73 0 S0 S2305 S2306 run2305 seg2305
theorem run2307 : runSeg 18 168411 0 S0 = (S2307, true) := runSeg_comp 18 168338 73 0 S0 S2306 S2307 run2306 seg2306
theorem run2308 : runSeg 18 168484 0 S0 = (S2308, true) := runSeg_comp 18 168411 73 0 S0 S2307 S2308 run2307 seg2307
theorem run2309 : runSeg 18 168557 0 S0 = (S2309, true) := runSeg_comp 18 168484 73 0 S0 S2308 S2309 run2308 seg2308
theorem run2310 : runSeg 18 168630 0 S0 = (S2310, true) := runSeg_comp 18 168557 73 0 S0 S2309 S2310 run2309 seg2309
theorem run2311 : runSeg 18 168703 0 S0 = (S2311, true) := runSeg_comp 18 168630 73 0 S0 S2310 S2311 run2310 seg2310
theorem run2312 : runSeg 18 168776 0 S0 = (S2312, true) := runSeg_comp 18 168703 73 0 S0 S2311 S2312 run2311 seg2311
theorem run2313 : runSeg 18 168849 0 S0 = (S2313, true) := runSeg_comp 18 168776 73 0 S0 S2312 S2313 run2312 seg2312
theorem run2314 : runSeg 18 168922 0 S0 = (S2314, true) := runSeg_comp 18 168849 73 0 S0 S2313 S2314 run2313 seg2313
theorem run2315 : runSeg 18 168995 0 S0 = (S2315, true) := runSeg_comp 18 168922 73 0 S0 S2314 S2315 run2314 seg2314
theorem run2316 : runSeg 18 169068 0 S0 = (S2316, true) := runSeg_comp 18 168995 73 0 S0 S2315 S2316 run2315 seg2315
theorem run2317 : runSeg 18 169141 0 S0 = (S2317, true) := runSeg_comp 18 169068 73 0 S0 S2316 S2317 run2316 seg2316
theorem run2318 : runSeg 18 169214 0 S0 = (S2318, true) := runSeg_comp 18 169141 73 0 S0 S2317 S2318 run2317 seg2317
theorem run2319 : runSeg 18 169287 0 S0 = (S2319, true) := runSeg_comp 18 169214 73 0 S0 S2318 S2319 run2318 seg2318
theorem run2320 : runSeg 18 169360 0 S0 = (S2320, true) := runSeg_comp 18 169287 73 0 S0 S2319 S2320 run2319 seg2319
theorem run2321 : runSeg 18 169433 0 S0 = (S2321, true) := runSeg_comp 18 169360 73 0 S0 S2320 S2321 run2320 seg2320
theorem run2322 : runSeg 18 169506 0 S0 = (S2322, true) := runSeg_comp 18 169433 73 0 S0 S2321 S2322 run2321 seg2321
theorem run2323 : runSeg 18 169579 0 S0 = (S2323, true) := runSeg_comp 18 169506 73 0 S0 S2322 S2323 run2322 seg2322
theorem run2324 : runSeg 18 169652 0 S0 = (S2324, true) := runSeg_comp 18 169579 73 0 S0 S2323 S2324 run2323 seg2323
theorem run2325 : runSeg 18 169725 0 S0 = (S2325, true) := runSeg_comp 18 169652 73 0 S0 S2324 S2325 run2324 seg2324
theorem run2326 : runSeg 18 169798 0 S0 = (S2326, true) := runSeg_comp 18 169725 73 0 S0 S2325 S2326 run2325 seg2325
theorem run2327 : runSeg 18 169871 0 S0 = (S2327, true) := runSeg_comp 18 169798 73 0 S0 S2326 S2327 run2326 seg2326
theorem run2328 : runSeg 18 169944 0 S0 = (S2328, true) := runSeg_comp 18 169871 73 0 S0 S2327 S2328 run2327 seg2327
theorem run2329 : runSeg 18 170017 0 S0 = (S2329, true) := runSeg_comp 18 169944 73 0 S0 S2328 S2329 run2328 seg2328
theorem run2330 : runSeg 18 170090 0 S0 = (S2330, true) := runSeg_comp 18 170017 73 0 S0 S2329 S2330 run2329 seg2329
theorem run2331 : runSeg 18 170163 0 S0 = (S2331, true) := runSeg_comp 18 170090 73 0 S0 S2330 S2331 run2330 seg2330
theorem run2332 : runSeg 18 170236 0 S0 = (S2332, true) := runSeg_comp 18 170163 73 0 S0 S2331 S2332 run2331 seg2331
theorem run2333 : runSeg 18 170309 0 S0 = (S2333, true) := runSeg_comp 18 170236 73 0 S0 S2332 S2333 run2332 seg2332
theorem run2334 : runSeg 18 170382 0 S0 = (S2334, true) := runSeg_comp 18 170309 73 0 S0 S2333 S2334 run2333 seg2333
theorem run2335 : runSeg 18 170455 0 S0 = (S2335, true) := runSeg_comp 18 170382 73 0 S0 S2334 S2335 run2334 seg2334
theorem run2336 : runSeg 18 170528 0 S0 = (S2336, true) := runSeg_comp 18 170455 73 0 S0 S2335 S2336 run2335 seg2335
theorem run2337 : runSeg 18 170601 0 S0 = (S2337, true) := runSeg_comp 18 170528 73 0 S0 S2336 S2337 run2336 seg2336
theorem run2338 : runSeg 18 170674 0 S0 = (S2338, true) := runSeg_comp 18 170601 73 0 S0 S2337 S2338 run2337 seg2337
theorem run2339 : runSeg 18 170747 0 S0 = (S2339, true) := runSeg_comp 18 170674 73 0 S0 S2338 S2339 run2338 seg2338
theorem run2340 : runSeg 18 170820 0 S0 = (S2340, true) := runSeg_comp 18 170747 73 0 S0 S2339 S2340 run2339 seg2339
theorem run2341 : runSeg 18 170893 0 S0 = (S2341, true) := runSeg_comp 18 170820 73 0 S0 S2340 S2341 run2340 seg2340
theorem run2342 : runSeg 18 170966 0 S0 = (S2342, true) := runSeg_comp 18 170893 73 0 S0 S2341 S2342 run2341 seg2341
theorem run2343 : runSeg 18 171039 0 S0 = (S2343, true) := runSeg_comp 18 170966 73 0 S0 S2342 S2343 run2342 seg2342
theorem run2344 : runSeg 18 171112 0 S0 = (S2344, true) := runSeg_comp 18 171039 73 0 S0 S2343 S2344 run2343 seg2343
theorem run2345 : runSeg 18 171185 0 S0 = (S2345, true) := runSeg_comp 18 171112 73 0 S0 S2344 S2345 run2344 seg2344
theorem run2346 : runSeg 18 171258 0 S0 = (S2346, true) := runSeg_comp 18 171185 73 0 S0 S2345 S2346 run2345 seg2345
theorem run2347 : runSeg 18 171331 0 S0 = (S2347, true) := runSeg_comp 18 171258 73 0 S0 S2346 S2347 run2346 seg2346
theorem run2348 : runSeg 18 171404 0 S0 = (S2348, true) := runSeg_comp 18 171331 73 0 S0 S2347 S2348 run2347 seg2347
theorem run2349 : runSeg 18 171477 0 S0 = (S2349, true) := runSeg_comp 18 171404 73 0 S0 S2348 S2349 run2348 seg2348
theorem run2350 : runSeg 18 171550 0 S0 = (S2350, true) := runSeg_comp 18 171477 73 0 S0 S2349 S2350 run2349 seg2349
theorem run2351 : runSeg 18 171623 0 S0 = (S2351, true) := runSeg_comp 18 171550 73 0 S0 S2350 S2351 run2350 seg2350
theorem run2352 : runSeg 18 171696 0 S0 = (S2352, true) := runSeg_comp 18 171623 73 0 S0 S2351 S2352 run2351 seg2351
theorem run2353 : runSeg 18 171769 0 S0 = (S2353, true) := runSeg_comp 18 171696 73 0 S0 S2352 S2353 run2352 seg2352
theorem run2354 : runSeg 18 171842 0 S0 = (S2354, true) := runSeg_comp 18 171769 73 0 S0 S2353 S2354 run2353 seg2353
theorem run2355 : runSeg 18 171915 0 S0 = (S2355, true) := runSeg_comp 18 171842 73 0 S0 S2354 S2355 run2354 seg2354
theorem run2356 : runSeg 18 171988 0 S0 = (S2356, true) := runSeg_comp 18 171915 73 0 S0 S2355 S2356 run2355 seg2355
theorem run2357 : runSeg 18 172061 0 S0 = (S2357, true) := runSeg_comp 18 171988 73 0 S0 S2356 S2357 run2356 seg2356
theorem run2358 : runSeg 18 172134 0 S0 = (S2358, true) := runSeg_comp 18 172061 73 0 S0 S2357 S2358 run2357 seg2357
theorem run2359 : runSeg 18 172207 0 S0 = (S2359, true) := runSeg_comp 18 172134 73 0 S0 S2358 S2359 run2358 seg2358
theorem run2360 : runSeg 18 172280 0 S0 = (S2360, true) := runSeg_comp 18 172207 73 0 S0 S2359 S2360 run2359 seg2359
theorem run2361 : runSeg 18 172353 0 S0 = (S2361, true) := runSeg_comp 18 172280 73 0 S0 S2360 S2361 run2360 seg2360
theorem run2362 : runSeg 18 172426 0 S0 = (S2362, true) := runSeg_comp 18 172353 73 0 S0 S2361 S2362 run2361 seg2361
theorem run2363 : runSeg 18 172499 0 S0 = (S2363, true) := runSeg_comp 18 172426 73 0 S0 S2362 S2363 run2362 seg2362
theorem run2364 : runSeg 18 172572 0 S0 = (S2364, true) := runSeg_comp 18 172499 73 0 S0 S2363 S2364 run2363 seg2363
theorem run2365 : runSeg 18 172645 0 S0 = (S2365, true) := runSeg_comp 18 172572 73 0 S0 S2364 S2365 run2364 seg2364
theorem run2366 : runSeg 18 172718 0 S0 = (S2366, true) := runSeg_comp 18 172645 73 0 S0 S2365 S2366 run2365 seg2365
theorem run2367 : runSeg 18 172791 0 S0 = (S2367, true) := runSeg_comp 18 172718 73 0 S0 S2366 S2367 run2366 seg2366
theorem run2368 : runSeg 18 172864 0 S0 = (S2368, true) := runSeg_comp 18 172791 73 0 S0 S2367 S2368 run2367 seg2367
theorem run2369 : runSeg 18 172937 0 S0 = (S2369, true) := runSeg_comp 18 172864 73 0 S0 S2368 S2369 run2368 seg2368
theorem run2370 : runSeg 18 173010 0 S0 = (S2370, true) := runSeg_comp 18 172937 73 0 S0 S2369 S2370 run2369 seg2369
theorem run2371 : runSeg 18 173083 0 S0 = (S2371, true) := runSeg_comp 18 173010 73 0 S0 S2370 S2371 run2370 seg2370
theorem run2372 : runSeg 18 173156 0 S0 = (S2372, true) := runSeg_comp 18 173083 73 0 S0 S2371 S2372 run2371 seg2371
theorem run2373 : runSeg 18 173229 0 S0 = (S2373, true) := runSeg_comp 18 173156 73 0 S0 S2372 S2373 run2372 seg2372
theorem run2374 : runSeg 18 173302 0 S0 = (S2374, true) := runSeg_comp 18 173229 73 0 S0 S2373 S2374 run2373 seg2373
theorem run2375 : runSeg 18 173375 0 S0 = (S2375, true) := runSeg_comp 18 173302 73 0 S0 S2374 S2375 run2374 seg2374
theorem run2376 : runSeg 18 173448 0 S0 = (S2376, true) := runSeg_comp 18 173375 73 0 S0 S2375 S2376 run2375 seg2375
theorem run2377 : runSeg 18 173521 0 S0 = (S2377, true) := runSeg_comp 18 173448 73 0 S0 S2376 S2377 run2376 seg2376
theorem run2378 : runSeg 18 173594 0 S0 = (S2378, true) := runSeg_comp 18 173521 73 0 S0 S2377 S2378 run2377 seg2377
theorem run2379 : runSeg 18 173667 0 S0 = (S2379, true) := runSeg_comp 18 173594 73 0 S0 S2378 S2379 run2378 seg2378
theorem run2380 : runSeg 18 173740 0 S0 = (S2380, true) := runSeg_comp 18 173667 73 0 S0 S2379 S2380 run2379 seg2379
theorem run2381 : runSeg 18 173813 0 S0 = (S2381, true) := runSeg_comp 18 173740 73 0 S0 S2380 S2381 run2380 seg2380
theorem run2382 : runSeg 18 173886 0 S0 = (S2382, true) := runSeg_comp 18 173813 73 0 S0 S2381 S2382 run2381 seg2381
theorem run2383 : runSeg 18 173959 0 S0 = (S2383, true) := runSeg_comp 18 173886 73 0 S0 S2382 S2383 run2382 seg2382
theorem run2384 : runSeg 18 174032 0 S0 = (S2384, true) := runSeg_comp 18 173959 73 0 S0 S2383 S2384 run2383 seg2383
theorem run2385 : runSeg 18 174105 0 S0 = (S2385, true) := runSeg_comp 18 174032 73 0 S0 S2384 S2385 run2384 seg2384
theorem run2386 : runSeg 18 174178 0 S0 = (S2386, true) := runSeg_comp 18 174105 73 0 S0 S2385 S2386 run2385 seg2385
theorem run2387 : runSeg 18 174251 0 S0 = (S2387, true) := runSeg_comp 18 174178 73 0 S0 S2386 S2387 run2386 seg2386
theorem run2388 : runSeg 18 174324 0 S0 = (S2388, true) := runSeg_comp 18 174251 73 0 S0 S2387 S2388 run2387 seg2387
theorem run2389 : runSeg 18 174397 0 S0 = (S2389, true) := runSeg_comp 18 174324 73 0 S0 S2388 S2389 run2388 seg2388
theorem run2390 : runSeg 18 174470 0 S0 = (S2390, true) := runSeg_comp 18 174397 73 0 S0 S2389 S2390 run2389 seg2389
theorem run2391 : runSeg 18 174543 0 S0 = (S2391, true) := runSeg_comp 18 174470 73 0 S0 S2390 S2391 run2390 seg2390
theorem run2392 : runSeg 18 174616 0 S0 = (S2392, true) := runSeg_comp 18 174543 73 0 S0 S2391 S2392 run2391 seg2391
theorem run2393 : runSeg 18 174689 0 S0 = (S2393, true) := runSeg_comp 18 174616 73 0 S0 S2392 S2393 run2392 seg2392
theorem run2394 : runSeg 18 174762 0 S0 = (S2394, true) := runSeg_comp 18 174689 73 0 S0 S2393 S2394 run2393 seg2393
theorem run2395 : runSeg 18 174835 0 S0 = (S2395, true) := runSeg_comp 18 174762 73 0 S0 S2394 S2395 run2394 seg2394
theorem run2396 : runSeg 18 174908 0 S0 = (S2396, true) := runSeg_comp 18 174835 73 0 S0 S2395 S2396 run2395 seg2395
theorem run2397 : runSeg 18 174981 0 S0 = (S2397, true) := runSeg_comp 18 174908 73 0 S0 S2396 S2397 run2396 seg2396
theorem run2398 : runSeg 18 175054 0 S0 = (S2398, true) := runSeg_comp 18 174981 73 0 S0 S2397 S2398 run2397 seg2397
theorem run2399 : runSeg 18 175127 0 S0 = (S2399, true) := runSeg_comp 18 175054 73 0 S0 S2398 S2399 run2398 seg2398
theorem run2400 : runSeg 18 175200 0 S0 = (S2400, true) := runSeg_comp 18 175127 73 0 S0 S2399 S2400 run2399 seg2399
theorem run2401 : runSeg 18 175273 0 S0 = (S2401, true) := runSeg_comp 18 175200 73 0 S0 S2400 S2401 run2400 seg2400
theorem run2402 : runSeg 18 175346 0 S0 = (S2402, true) := runSeg_comp 18 175273 73 0 S0 S2401 S2402 run2401 seg2401
theorem run2403 : runSeg 18 175419 0 S0 = (S2403, true) := runSeg_comp 18 175346 73 0 S0 S2402 S2403 run2402 seg2402
theorem run2404 : runSeg 18 175492 0 S0 = (S2404, true) := runSeg_comp 18 175419 73 0 S0 S2403 S2404 run2403 seg2403
theorem run2405 : runSeg 18 175565 0 S0 = (S2405, true) := runSeg_comp 18 175492 73 0 S0 S2404 S2405 run2404 seg2404
theorem run2406 : runSeg 18 175638 0 S0 = (S2406, true) := runSeg_comp 18 175565 73 0 S0 S2405 S2406 run2405 seg2405
theorem run2407 : runSeg 18 175711 0 S0 = (S2407, true) := runSeg_comp 18 175638 73 0 S0 S2406 S2407 run2406 seg2406
theorem run2408 : runSeg 18 175784 0 S0 = (S2408, true) := runSeg_comp 18 175711 73 0 S0 S2407 S2408 run2407 seg2407
theorem run2409 : runSeg 18 175857 0 S0 = (S2409, true) := runSeg_comp 18 175784 73 0 S0 S2408 S2409 run2408 seg2408
theorem run2410 : runSeg 18 175930 0 S0 = (S2410, true) := runSeg_comp 18 175857 73 0 S0 S2409 S2410 run2409 seg2409
theorem run2411 : runSeg 18 176003 0 S0 = (S2411, true) := runSeg_comp 18 175930 73 0 S0 S2410 S2411 run2410 seg2410
theorem run2412 : runSeg 18 176076 0 S0 = (S2412, true) := runSeg_comp 18 176003 73 0 S0 S2411 S2412 run2411 seg2411
theorem run2413 : runSeg 18 176149 0 S0 = (S2413, true) := runSeg_comp 18 176076 73 0 S0 S2412 S2413 run2412 seg2412
theorem run2414 : runSeg 18 176222 0 S0 = (S2414, true) := runSeg_comp 18 176149 73 0 S0 S2413 S2414 run2413 seg2413
theorem run2415 : runSeg 18 176295 0 S0 = (S2415, true) := runSeg_comp 18 176222 73 0 S0 S2414 S2415 run2414 seg2414
theorem run2416 : runSeg 18 176368 0 S0 = (S2416, true) := runSeg_comp 18 176295 73 0 S0 S2415 S2416 run2415 seg2415
theorem run2417 : runSeg 18 176441 0 S0 = (S2417, true) := runSeg_comp 18 176368 73 0 S0 S2416 S2417 run2416 seg2416
theorem run2418 : runSeg 18 176514 0 S0 = (S2418, true) := runSeg_comp 18 176441 73 0 S0 S2417 S2418 run2417 seg2417
theorem run2419 : runSeg 18 176587 0 S0 = (S2419, true) := runSeg_comp 18 176514 73 0 S0 S2418 S2419 run2418 seg2418
theorem run2420 : runSeg 18 176660 0 S0 = (S2420, true) := runSeg_comp 18 176587 73 0 S0 S2419 S2420 run2419 seg2419
theorem run2421 : runSeg 18 176733 0 S0 = (S2421, true) := runSeg_comp 18 176660 73 0 S0 S2420 S2421 run2420 seg2420
theorem run2422 : runSeg 18 176806 0 S0 = (S2422, true) := runSeg_comp 18 176733 73 0 S0 S2421 S2422 run2421 seg2421
theorem run2423 : runSeg 18 176879 0 S0 = (S2423, true) := runSeg_comp 18 176806 73 0 S0 S2422 S2423 run2422 seg2422
theorem run2424 : runSeg 18 176952 0 S0 = (S2424, true) := runSeg_comp 18 176879 73 0 S0 S2423 S2424 run2423 seg2423
theorem run2425 : runSeg 18 177025 0 S0 = (S2425, true) := runSeg_comp 18 176952 73 0 S0 S2424 S2425 run2424 seg2424
theorem run2426 : runSeg 18 177098 0 S0 = (S2426, true) := runSeg_comp 18 177025 73 0 S0 S2425 S2426 run2425 seg2425
theorem run2427 : runSeg 18 177171 0 S0 = (S2427, true) := runSeg_comp 18 177098 73 0 S0 S2426 S2427 run2426 seg2426
theorem run2428 : runSeg 18 177244 0 S0 = (S2428, true) := runSeg_comp 18 177171 73 0 S0 S2427 S2428 run2427 seg2427
theorem run2429 : runSeg 18 177317 0 S0 = (S2429, true) := runSeg_comp 18 177244 73 0 S0 S2428 S2429 run2428 seg2428
theorem run2430 : runSeg 18 177390 0 S0 = (S2430, true) := runSeg_comp 18 177317 73 0 S0 S2429 S2430 run2429 seg2429
theorem run2431 : runSeg 18 177463 0 S0 = (S2431, true) := runSeg_comp 18 177390 73 0 S0 S2430 S2431 run2430 seg2430
theorem run2432 : runSeg 18 177536 0 S0 = (S2432, true) := runSeg_comp 18 177463 73 0 S0 S2431 S2432 run2431 seg2431
theorem run2433 : runSeg 18 177609 0 S0 = (S2433, true) := runSeg_comp 18 177536 73 0 S0 S2432 S2433 run2432 seg2432
theorem run2434 : runSeg 18 177682 0 S0 = (S2434, true) := runSeg_comp 18 177609 73 0 S0 S2433 S2434 run2433 seg2433
theorem run2435 : runSeg 18 177755 0 S0 = (S2435, true) := runSeg_comp 18 177682 73 0 S0 S2434 S2435 run2434 seg2434
theorem run2436 : runSeg 18 177828 0 S0 = (S2436, true) := runSeg_comp 18 177755 73 0 S0 S2435 S2436 run2435 seg2435
theorem run2437 : runSeg 18 177901 0 S0 = (S2437, true) := runSeg_comp 18 177828 73 0 S0 S2436 S2437 run2436 seg2436
theorem run2438 : runSeg 18 177974 0 S0 = (S2438, true) := runSeg_comp 18 177901 73 0 S0 S2437 S2438 run2437 seg2437
theorem run2439 : runSeg 18 178047 0 S0 = (S2439, true) := runSeg_comp 18 177974 73 0 S0 S2438 S2439 run2438 seg2438
theorem run2440 : runSeg 18 178120 0 S0 = (S2440, true) := runSeg_comp 18 178047 73 0 S0 S2439 S2440 run2439 seg2439
theorem run2441 : runSeg 18 178193 0 S0 = (S2441, true) := runSeg_comp 18 178120 73 0 S0 S2440 S2441 run2440 seg2440
theorem run2442 : runSeg 18 178266 0 S0 = (S2442, true) := runSeg_comp 18 178193 73 0 S0 S2441 S2442 run2441 seg2441
theorem run2443 : runSeg 18 178339 0 S0 = (S2443, true) := runSeg_comp 18 178266 73 0 S0 S2442 S2443 run2442 seg2442
theorem run2444 : runSeg 18 178412 0 S0 = (S2444, true) := runSeg_comp 18 178339 73 0 S0 S2443 S2444 run2443 seg2443
theorem run2445 : runSeg 18 178485 0 S0 = (S2445, true) := runSeg_comp 18 178412 73 0 S0 S2444 S2445 run2444 seg2444
theorem run2446 : runSeg 18 178558 0 S0 = (S2446, true) := runSeg_comp 18 178485 73 0 S0 S2445 S2446 run2445 seg2445
theorem run2447 : runSeg 18 178631 0 S0 = (S2447, true) := runSeg_comp 18 178558 73 0 S0 S2446 S2447 run2446 seg2446
theorem run2448 : runSeg 18 178704 0 S0 = (S2448, true) := runSeg_comp 18 178631 73 0 S0 S2447 S2448 run2447 seg2447
theorem run2449 : runSeg 18 178777 0 S0 = (S2449, true) := runSeg_comp 18 178704 73 0 S0 S2448 S2449 run2448 seg2448
theorem run2450 : runSeg 18 178850 0 S0 = (S2450, true) := runSeg_comp 18 178777 73 0 S0 S2449 S2450 run2449 seg2449
theorem run2451 : runSeg 18 178923 0 S0 = (S2451, true) := runSeg_comp 18 178850 73 0 S0 S2450 S2451 run2450 seg2450
theorem run2452 : runSeg 18 178996 0 S0 = (S2452, true) := runSeg_comp 18 178923 73 0 S0 S2451 S2452 run2451 seg2451
theorem run2453 : runSeg 18 179069 0 S0 = (S2453, true) := runSeg_comp 18 178996 73 0 S0 S2452 S2453 run2452 seg2452
theorem run2454 : runSeg 18 179142 0 S0 = (S2454, true) := runSeg_comp 18 179069 73 0 S0 S2453 S2454 run2453 seg2453
theorem run2455 : runSeg 18 179215 0 S0 = (S2455, true) := runSeg_comp 18 179142 73 0 S0 S2454 S2455 run2454 seg2454
theorem run2456 : runSeg 18 179288 0 S0 = (S2456, true) := runSeg_comp 18 179215 73 0 S0 S2455 S2456 run2455 seg2455
theorem run2457 : runSeg 18 179361 0 S0 = (S2457, true) := runSeg_comp 18 179288 73 0 S0 S2456 S2457 run2456 seg2456
theorem run2458 : runSeg 18 179434 0 S0 = (S2458, true) := runSeg_comp 18 179361 73 0 S0 S2457 S2458 run2457 seg2457
theorem run2459 : runSeg 18 179507 0 S0 = (S2459, true) := runSeg_comp 18 179434 73 0 S0 S2458 S2459 run2458 seg2458
theorem run2460 : runSeg 18 179580 0 S0 = (S2460, true) := runSeg_comp 18 179507 73 0 S0 S2459 S2460 run2459 seg2459
theorem run2461 : runSeg 18 179653 0 S0 = (S2461, true) := runSeg_comp 18 179580 73 0 S0 S2460 S2461 run2460 seg2460
theorem run2462 : runSeg 18 179726 0 S0 = (S2462, true) := runSeg_comp 18 179653 73 0 S0 S2461 S2462 run2461 seg2461
theorem run2463 : runSeg 18 179799 0 S0 = (S2463, true) := runSeg_comp 18 179726 73 0 S0 S2462 S2463 run2462 seg2462
theorem run2464 : runSeg 18 179872 0 S0 = (S2464, true) := runSeg_comp 18 179799 73 0 S0 S2463 S2464 run2463 seg2463
theorem run2465 : runSeg 18 179945 0 S0 = (S2465, true) := runSeg_comp 18 179872 73 0 S0 S2464 S2465 run2464 seg2464
theorem run2466 : runSeg 18 180018 0 S0 = (S2466, true) := runSeg_comp 18 179945 73 0 S0 S2465 S2466 run2465 seg2465
theorem run2467 : runSeg 18 180091 0 S0 = (S2467, true) := runSeg_comp 18 180018 73 0 S0 S2466 S2467 run2466 seg2466
theorem run2468 : runSeg 18 180164 0 S0 = (S2468, true) := runSeg_comp 18 180091 73 0 S0 S2467 S2468 run2467 seg2467
theorem run2469 : runSeg 18 180237 0 S0 = (S2469, true) := runSeg_comp 18 180164 73 0 S0 S2468 S2469 run2468 seg2468
theorem run2470 : runSeg 18 180310 0 S0 = (S2470, true) := runSeg_comp 18 180237 73 0 S0 S2469 S2470 run2469 seg2469
theorem run2471 : runSeg 18 180383 0 S0 = (S2471, true) := runSeg_comp 18 180310 73 0 S0 S2470 S2471 run2470 seg2470
theorem run2472 : runSeg 18 180456 0 S0 = (S2472, true) := runSeg_comp 18 180383 73 0 S0 S2471 S2472 run2471 seg2471
theorem run2473 : runSeg 18 180529 0 S0 = (S2473, true) := runSeg_comp 18 180456 73 0 S0 S2472 S2473 run2472 seg2472
theorem run2474 : runSeg 18 180602 0 S0 = (S2474, true) := runSeg_comp 18 180529 73 0 S0 S2473 S2474 run2473 seg2473
theorem run2475 : runSeg 18 180675 0 S0 = (S2475, true) := runSeg_comp 18 180602 73 0 S0 S2474 S2475 run2474 seg2474
theorem run2476 : runSeg 18 180748 0 S0 = (S2476, true) := runSeg_comp 18 180675 73 0 S0 S2475 S2476 run2475 seg2475
theorem run2477 : runSeg 18 180821 0 S0 = (S2477, true) := runSeg_comp 18 180748 73 0 S0 S2476 S2477 run2476 seg2476
theorem run2478 : runSeg 18 180894 0 S0 = (S2478, true) := runSeg_comp 18 180821 73 0 S0 S2477 S2478 run2477 seg2477
theorem run2479 : runSeg 18 180967 0 S0 = (S2479, true) := runSeg_comp 18 180894 73 0 S0 S2478 S2479 run2478 seg2478
theorem run2480 : runSeg 18 181040 0 S0 = (S2480, true) := runSeg_comp 18 180967 73 0 S0 S2479 S2480 run2479 seg2479
theorem run2481 : runSeg 18 181113 0 S0 = (S2481, true) := runSeg_comp 18 181040 73 0 S0 S2480 S2481 run2480 seg2480
theorem run2482 : runSeg 18 181186 0 S0 = (S2482, true) := runSeg_comp 18 181113 73 0 S0 S2481 S2482 run2481 seg2481
theorem run2483 : runSeg 18 181259 0 S0 = (S2483, true) := runSeg_comp 18 181186 73 0 S0 S2482 S2483 run2482 seg2482
theorem run2484 : runSeg 18 181332 0 S0 = (S2484, true) := runSeg_comp 18 181259 73 0 S0 S2483 S2484 run2483 seg2483
theorem run2485 : runSeg 18 181405 0 S0 = (S2485, true) := runSeg_comp 18 181332 73 0 S0 S2484 S2485 run2484 seg2484
theorem run2486 : runSeg 18 181478 0 S0 = (S2486, true) := runSeg_comp 18 181405 73 0 S0 S2485 S2486 run2485 seg2485
theorem run2487 : runSeg 18 181551 0 S0 = (S2487, true) := runSeg_comp 18 181478 73 0 S0 S2486 S2487 run2486 seg2486
theorem run2488 : runSeg 18 181624 0 S0 = (S2488, true) := runSeg_comp 18 181551 73 0 S0 S2487 S2488 run2487 seg2487
theorem run2489 : runSeg 18 181697 0 S0 = (S2489, true) := runSeg_comp 18 181624 73 0 S0 S2488 S2489 run2488 seg2488
theorem run2490 : runSeg 18 181770 0 S0 = (S2490, true) := runSeg_comp 18 181697 73 0 S0 S2489 S2490 run2489 seg2489
theorem run2491 : runSeg 18 181843 0 S0 = (S2491, true) := runSeg_comp 18 181770 73 0 S0 S2490 S2491 run2490 seg2490
theorem run2492 : runSeg 18 181916 0 S0 = (S2492, true) := runSeg_comp 18 181843 73 0 S0 S2491 S2492 run2491 seg2491
theorem run2493 : runSeg 18 181989 0 S0 = (S2493, true) := runSeg_comp 18 181916 73 0 S0 S2492 S2493 run2492 seg2492
theorem run2494 : runSeg 18 182062 0 S0 = (S2494, true) := runSeg_comp 18 181989 73 0 S0 S2493 S2494 run2493 seg2493
theorem run2495 : runSeg 18 182135 0 S0 = (S2495, true) := runSeg_comp 18 182062 73 0 S0 S2494 S2495 run2494 seg2494
theorem run2496 : runSeg 18 182208 0 S0 = (S2496, true) := runSeg_comp 18 182135 73 0 S0 S2495 S2496 run2495 seg2495
theorem run2497 : runSeg 18 182281 0 S0 = (S2497, true) := runSeg_comp 18 182208 73 0 S0 S2496 S2497 run2496 seg2496
theorem run2498 : runSeg 18 182354 0 S0 = (S2498, true) := runSeg_comp 18 182281 73 0 S0 S2497 S2498 run2497 seg2497
theorem run2499 : runSeg 18 182427 0 S0 = (S2499, true) := runSeg_comp 18 182354 73 0 S0 S2498 S2499 run2498 seg2498
theorem run2500 : runSeg 18 182500 0 S0 = (S2500, true) := runSeg_comp 18 182427 73 0 S0 S2499 S2500 run2499 seg2499
theorem run2501 : runSeg 18 182573 0 S0 = (S2501, true) := runSeg_comp 18 182500 73 0 S0 S2500 S2501 run2500 seg2500
theorem run2502 : runSeg 18 182646 0 S0 = (S2502, true) := runSeg_comp 18 182573 73 0 S0 S2501 S2502 run2501 seg2501
theorem run2503 : runSeg 18 182719 0 S0 = (S2503, true) := runSeg_comp 18 182646 73 0 S0 S2502 S2503 run2502 seg2502
theorem run2504 : runSeg 18 182792 0 S0 = (S2504, true) := runSeg_comp 18 182719 73 0 S0 S2503 S2504 run2503 seg2503
theorem run2505 : runSeg 18 182865 0 S0 = (S2505, true) := runSeg_comp 18 182792 73 0 S0 S2504 S2505 run2504 seg2504
theorem run2506 : runSeg 18 182938 0 S0 = (S2506, true) := runSeg_comp 18 182865 73 0 S0 S2505 S2506 run2505 seg2505
theorem run2507 : runSeg 18 183011 0 S0 = (S2507, true) := runSeg_comp 18 182938 73 0 S0 S2506 S2507 run2506 seg2506
theorem run2508 : runSeg 18 183084 0 S0 = (S2508, true) := runSeg_comp 18 183011 73 0 S0 S2507 S2508 run2507 seg2507
theorem run2509 : runSeg 18 183157 0 S0 = (S2509, true) := runSeg_comp 18 183084 73 0 S0 S2508 S2509 run2508 seg2508
theorem run2510 : runSeg 18 183230 0 S0 = (S2510, true) := runSeg_comp 18 183157 73 0 S0 S2509 S2510 run2509 seg2509
theorem run2511 : runSeg 18 183303 0 S0 = (S2511, true) := runSeg_comp 18 183230 73 0 S0 S2510 S2511 run2510 seg2510
theorem run2512 : runSeg 18 183376 0 S0 = (S2512, true) := runSeg_comp 18 183303 73 0 S0 S2511 S2512 run2511 seg2511
theorem run2513 : runSeg 18 183449 0 S0 = (S2513, true) := runSeg_comp 18 183376 73 0 S0 S2512 S2513 run2512 seg2512
theorem run2514 : runSeg 18 183522 0 S0 = (S2514, true) := runSeg_comp 18 183449 73 0 S0 S2513 S2514 run2513 seg2513
theorem run2515 : runSeg 18 183595 0 S0 = (S2515, true) := runSeg_comp 18 183522 73 0 S0 S2514 S2515 run2514 seg2514
theorem run2516 : runSeg 18 183668 0 S0 = (S2516, true) := runSeg_comp 18 183595 73 0 S0 S2515 S2516 run2515 seg2515
theorem run2517 : runSeg 18 183741 0 S0 = (S2517, true) := runSeg_comp 18 183668 73 0 S0 S2516 S2517 run2516 seg2516
theorem run2518 : runSeg 18 183814 0 S0 = (S2518, true) := runSeg_comp 18 183741 73 0 S0 S2517 S2518 run2517 seg2517
theorem run2519 : runSeg 18 183887 0 S0 = (S2519, true) := runSeg_comp 18 183814 73 0 S0 S2518 S2519 run2518 seg2518
theorem run2520 : runSeg 18 183960 0 S0 = (S2520, true) := runSeg_comp 18 183887 73 0 S0 S2519 S2520 run2519 seg2519
theorem run2521 : runSeg 18 184033 0 S0 = (S2521, true) := runSeg_comp 18 183960 73 0 S0 S2520 S2521 run2520 seg2520
theorem run2522 : runSeg 18 184106 0 S0 = (S2522, true) := runSeg_comp 18 184033 73 0 S0 S2521 S2522 run2521 seg2521
theorem run2523 : runSeg 18 184179 0 S0 = (S2523, true) := runSeg_comp 18 184106 73 0 S0 S2522 S2523 run2522 seg2522
theorem run2524 : runSeg 18 184252 0 S0 = (S2524, true) := runSeg_comp 18 184179 73 0 S0 S2523 S2524 run2523 seg2523
theorem run2525 : runSeg 18 184325 0 S0 = (S2525, true) := runSeg_comp 18 184252 73 0 S0 S2524 S2525 run2524 seg2524
theorem run2526 : runSeg 18 184398 0 S0 = (S2526, true) := runSeg_comp 18 184325 73 0 S0 S2525 S2526 run2525 seg2525
theorem run2527 : runSeg 18 184471 0 S0 = (S2527, true) := runSeg_comp 18 184398 73 0 S0 S2526 S2527 run2526 seg2526
theorem run2528 : runSeg 18 184544 0 S0 = (S2528, true) := runSeg_comp 18 184471 73 0 S0 S2527 S2528 run2527 seg2527
theorem run2529 : runSeg 18 184617 0 S0 = (S2529, true) := runSeg_comp 18 184544 73 0 S0 S2528 S2529 run2528 seg2528
theorem run2530 : runSeg 18 184690 0 S0 = (S2530, true) := runSeg_comp 18 184617 73 0 S0 S2529 S2530 run2529 seg2529
theorem run2531 : runSeg 18 184763 0 S0 = (S2531, true) := runSeg_comp 18 184690 73 0 S0 S2530 S2531 run2530 seg2530
theorem run2532 : runSeg 18 184836 0 S0 = (S2532, true) := runSeg_comp 18 184763 73 0 S0 S2531 S2532 run2531 seg2531
theorem run2533 : runSeg 18 184909 0 S0 = (S2533, true) := runSeg_comp 18 184836 73 0 S0 S2532 S2533 run2532 seg2532
theorem run2534 : runSeg 18 184982 0 S0 = (S2534, true) := runSeg_comp 18 184909 73 0 S0 S2533 S2534 run2533 seg2533
theorem run2535 : runSeg 18 185055 0 S0 = (S2535, true) := runSeg_comp 18 184982 73 0 S0 S2534 S2535 run2534 seg2534
theorem run2536 : runSeg 18 185128 0 S0 = (S2536, true) := runSeg_comp 18 185055 73 0 S0 S2535 S2536 run2535 seg2535
theorem run2537 : runSeg 18 185201 0 S0 = (S2537, true) := runSeg_comp 18 185128 73 0 S0 S2536 S2537 run2536 seg2536
theorem run2538 : runSeg 18 185274 0 S0 = (S2538, true) := runSeg_comp 18 185201 73 0 S0 S2537 S2538 run2537 seg2537
theorem run2539 : runSeg 18 185347 0 S0 = (S2539, true) := runSeg_comp 18 185274 73 0 S0 S2538 S2539 run2538 seg2538
theorem run2540 : runSeg 18 185420 0 S0 = (S2540, true) := runSeg_comp 18 185347 73 0 S0 S2539 S2540 run2539 seg2539
theorem run2541 : runSeg 18 185493 0 S0 = (S2541, true) := runSeg_comp 18 185420 73 0 S0 S2540 S2541 run2540 seg2540
theorem run2542 : runSeg 18 185566 0 S0 = (S2542, true) := runSeg_comp 18 185493 73 0 S0 S2541 S2542 run2541 seg2541
theorem run2543 : runSeg 18 185639 0 S0 = (S2543, true) := runSeg_comp 18 185566 73 0 S0 S2542 S2543 run2542 seg2542
theorem run2544 : runSeg 18 185712 0 S0 = (S2544, true) := runSeg_comp 18 185639 73 0 S0 S2543 S2544 run2543 seg2543
theorem run2545 : runSeg 18 185785 0 S0 = (S2545, true) := runSeg_comp 18 185712 73 0 S0 S2544 S2545 run2544 seg2544
theorem run2546 : runSeg 18 185858 0 S0 = (S2546, true) := runSeg_comp 18 185785 73 0 S0 S2545 S2546 run2545 seg2545
theorem run2547 : runSeg 18 185931 0 S0 = (S2547, true) := runSeg_comp 18 185858 73 0 S0 S2546 S2547 run2546 seg2546
theorem run2548 : runSeg 18 186004 0 S0 = (S2548, true) := runSeg_comp 18 185931 73 0 S0 S2547 S2548 run2547 seg2547
theorem run2549 : runSeg 18 186077 0 S0 = (S2549, true) := runSeg_comp 18 186004 73 0 S0 S2548 S2549 run2548 seg2548
theorem run2550 : runSeg 18 186150 0 S0 = (S2550, true) := runSeg_comp 18 186077 73 0 S0 S2549 S2550 run2549 seg2549
theorem run2551 : runSeg 18 186223 0 S0 = (S2551, true) := runSeg_comp 18 186150 73 0 S0 S2550 S2551 run2550 seg2550
theorem run2552 : runSeg 18 186296 0 S0 = (S2552, true) := runSeg_comp 18 186223 73 0 S0 S2551 S2552 run2551 seg2551
theorem run2553 : runSeg 18 186369 0 S0 = (S2553, true) := runSeg_comp 18 186296 73 0 S0 S2552 S2553 run2552 seg2552
theorem run2554 : runSeg 18 186442 0 S0 = (S2554, true) := runSeg_comp 18 186369 73 0 S0 S2553 S2554 run2553 seg2553
theorem run2555 : runSeg 18 186515 0 S0 = (S2555, true) := runSeg_comp 18 186442 73 0 S0 S2554 S2555 run2554 seg2554
theorem run2556 : runSeg 18 186588 0 S0 = (S2556, true) := runSeg_comp 18 186515 73 0 S0 S2555 S2556 run2555 seg2555
theorem run2557 : runSeg 18 186661 0 S0 = (S2557, true) := runSeg_comp 18 186588 73 0 S0 S2556 S2557 run2556 seg2556
theorem run2558 : runSeg 18 186734 0 S0 = (S2558, true) := runSeg_comp 18 186661 73 0 S0 S2557 S2558 run2557 seg2557
theorem run2559 : runSeg 18 186807 0 S0 = (S2559, true) := runSeg_comp 18 186734 73 0 S0 S2558 S2559 run2558 seg2558
theorem run2560 : runSeg 18 186880 0 S0 = (S2560, true) := runSeg_comp 18 186807 73 0 S0 S2559 S2560 run2559 seg2559
theorem run2561 : runSeg 18 186953 0 S0 = (S2561, true) := runSeg_comp 18 186880 73 0 S0 S2560 S2561 run2560 seg2560
theorem run2562 : runSeg 18 187026 0 S0 = (S2562, true) := runSeg_comp 18 186953 73 0 S0 S2561 S2562 run2561 seg2561
theorem run2563 : runSeg 18 187099 0 S0 = (S2563, true) := runSeg_comp 18 187026 73 0 S0 S2562 S2563 run2562 seg2562
theorem run2564 : runSeg 18 187172 0 S0 = (S2564, true) := runSeg_comp 18 187099 73 0 S0 S2563 S2564 run2563 seg2563
theorem run2565 : runSeg 18 187245 0 S0 = (S2565, true) := runSeg_comp 18 187172 73 0 S0 S2564 S2565 run2564 seg2564
theorem run2566 : runSeg 18 187318 0 S0 = (S2566, true) := runSeg_comp 18 187245 73 0 S0 S2565 S2566 run2565 seg2565
theorem run2567 : runSeg 18 187391 0 S0 = (S2567, true) := runSeg_comp 18 187318 73 0 S0 S2566 S2567 run2566 seg2566
theorem run2568 : runSeg 18 187464 0 S0 = (S2568, true) := runSeg_comp 18 187391 73 0 S0 S2567 S2568 run2567 seg2567
theorem run2569 : runSeg 18 187537 0 S0 = (S2569, true) := runSeg_comp 18 187464 73 0 S0 S2568 S2569 run2568 seg2568
theorem run2570 : runSeg 18 187610 0 S0 = (S2570, true) := runSeg_comp 18 187537 73 0 S0 S2569 S2570 run2569 seg2569
theorem run2571 : runSeg 18 187683 0 S0 = (S2571, true) := runSeg_comp 18 187610 73 0 S0 S2570 S2571 run2570 seg2570
theorem run2572 : runSeg 18 187756 0 S0 = (S2572, true) := runSeg_comp 18 187683 73 0 S0 S2571 S2572 run2571 seg2571
theorem run2573 : runSeg 18 187829 0 S0 = (S2573, true) := runSeg_comp 18 187756 73 0 S0 S2572 S2573 run2572 seg2572
theorem run2574 : runSeg 18 187902 0 S0 = (S2574, true) := runSeg_comp 18 187829 73 0 S0 S2573 S2574 run2573 seg2573
theorem run2575 : runSeg 18 187975 0 S0 = (S2575, true) := runSeg_comp 18 187902 73 0 S0 S2574 S2575 run2574 seg2574
theorem run2576 : runSeg 18 188048 0 S0 = (S2576, true) := runSeg_comp 18 187975 73 0 S0 S2575 S2576 run2575 seg2575
theorem run2577 : runSeg 18 188121 0 S0 = (S2577, true) := runSeg_comp 18 188048 73 0 S0 S2576 S2577 run2576 seg2576
theorem run2578 : runSeg 18 188194 0 S0 = (S2578, true) := runSeg_comp 18 188121 73 0 S0 S2577 S2578 run2577 seg2577
theorem run2579 : runSeg 18 188267 0 S0 = (S2579, true) := runSeg_comp 18 188194 73 0 S0 S2578 S2579 run2578 seg2578
theorem run2580 : runSeg 18 188340 0 S0 = (S2580, true) := runSeg_comp 18 188267 73 0 S0 S2579 S2580 run2579 seg2579
theorem run2581 : runSeg 18 188413 0 S0 = (S2581, true) := runSeg_comp 18 188340 73 0 S0 S2580 S2581 run2580 seg2580
theorem run2582 : runSeg 18 188486 0 S0 = (S2582, true) := runSeg_comp 18 188413 73 0 S0 S2581 S2582 run2581 seg2581
theorem run2583 : runSeg 18 188559 0 S0 = (S2583, true) := runSeg_comp 18 188486 73 0 S0 S2582 S2583 run2582 seg2582
theorem run2584 : runSeg 18 188632 0 S0 = (S2584, true) := runSeg_comp 18 188559 73 0 S0 S2583 S2584 run2583 seg2583
theorem run2585 : runSeg 18 188705 0 S0 = (S2585, true) := runSeg_comp 18 188632 73 0 S0 S2584 S2585 run2584 seg2584
theorem run2586 : runSeg 18 188778 0 S0 = (S2586, true) := runSeg_comp 18 188705 73 0 S0 S2585 S2586 run2585 seg2585
theorem run2587 : runSeg 18 188851 0 S0 = (S2587, true) := runSeg_comp 18 188778 73 0 S0 S2586 S2587 run2586 seg2586
theorem run2588 : runSeg 18 188924 0 S0 = (S2588, true) := runSeg_comp 18 188851 73 0 S0 S2587 S2588 run2587 seg2587
theorem run2589 : runSeg 18 188997 0 S0 = (S2589, true) := runSeg_comp 18 188924 73 0 S0 S2588 S2589 run2588 seg2588
theorem run2590 : runSeg 18 189070 0 S0 = (S2590, true) := runSeg_comp 18 188997 73 0 S0 S2589 S2590 run2589 seg2589
theorem run2591 : runSeg 18 189143 0 S0 = (S2591, true) := runSeg_comp 18 189070 73 0 S0 S2590 S2591 run2590 seg2590
theorem run2592 : runSeg 18 189216 0 S0 = (S2592, true) := runSeg_comp 18 189143 73 0 S0 S2591 S2592 run2591 seg2591
theorem run2593 : runSeg 18 189289 0 S0 = (S2593, true) := runSeg_comp 18 189216 73 0 S0 S2592 S2593 run2592 seg2592
theorem run2594 : runSeg 18 189362 0 S0 = (S2594, true) := runSeg_comp 18 189289 73 0 S0 S2593 S2594 run2593 seg2593
theorem run2595 : runSeg 18 189435 0 S0 = (S2595, true) := runSeg_comp 18 189362 73 0 S0 S2594 S2595 run2594 seg2594
theorem run2596 : runSeg 18 189508 0 S0 = (S2596, true) := runSeg_comp 18 189435 73 0 S0 S2595 S2596 run2595 seg2595
theorem run2597 : runSeg 18 189581 0 S0 = (S2597, true) := runSeg_comp 18 189508 73 0 S0 S2596 S2597 run2596 seg2596
theorem run2598 : runSeg 18 189654 0 S0 = (S2598, true) := runSeg_comp 18 189581 73 0 S0 S2597 S2598 run2597 seg2597
theorem run2599 : runSeg 18 189727 0 S0 = (S2599, true) := runSeg_comp 18 189654 73 0 S0 S2598 S2599 run2598 seg2598
theorem run2600 : runSeg 18 189800 0 S0 = (S2600, true) := runSeg_comp 18 189727 73 0 S0 S2599 S2600 run2599 seg2599
theorem run2601 : runSeg 18 189873 0 S0 = (S2601, true) := runSeg_comp 18 189800 73 0 S0 S2600 S2601 run2600 seg2600
theorem run2602 : runSeg 18 189946 0 S0 = (S2602, true) := runSeg_comp 18 189873 73 0 S0 S2601 S2602 run2601 seg2601
theorem run2603 : runSeg 18 190019 0 S0 = (S2603, true) := runSeg_comp 18 189946 73 0 S0 S2602 S2603 run2602 seg2602
theorem run2604 : runSeg 18 190092 0 S0 = (S2604, true) := runSeg_comp 18 190019 73 0 S0 S2603 S2604 run2603 seg2603
theorem run2605 : runSeg 18 190165 0 S0 = (S2605, true) := runSeg_comp 18 190092 73 0 S0 S2604 S2605 run2604 seg2604
theorem run2606 : runSeg 18 190238 0 S0 = (S2606, true) := runSeg_comp 18 190165 73 0 S0 S2605 S2606 run2605 seg2605
theorem run2607 : runSeg 18 190311 0 S0 = (S2607, true) := runSeg_comp 18 190238 73 0 S0 S2606 S2607 run2606 seg2606
theorem run2608 : runSeg 18 190384 0 S0 = (S2608, true) := runSeg_comp 18 190311 73 0 S0 S2607 S2608 run2607 seg2607
theorem run2609 : runSeg 18 190457 0 S0 = (S2609, true) := runSeg_comp 18 190384 73 0 S0 S2608 S2609 run2608 seg2608
theorem run2610 : runSeg 18 190530 0 S0 = (S2610, true) := runSeg_comp 18 190457 73 0 S0 S2609 S2610 run2609 seg2609
theorem run2611 : runSeg 18 190603 0 S0 = (S2611, true) := runSeg_comp 18 190530 73 0 S0 S2610 S2611 run2610 seg2610
theorem run2612 : runSeg 18 190676 0 S0 = (S2612, true) := runSeg_comp 18 190603 73 0 S0 S2611 S2612 run2611 seg2611
theorem run2613 : runSeg 18 190749 0 S0 = (S2613, true) := runSeg_comp 18 190676 73 0 S0 S2612 S2613 run2612 seg2612
theorem run2614 : runSeg 18 190822 0 S0 = (S2614, true) := runSeg_comp 18 190749 73 0 S0 S2613 S2614 run2613 seg2613
theorem run2615 : runSeg 18 190895 0 S0 = (S2615, true) := runSeg_comp 18 190822 73 0 S0 S2614 S2615 run2614 seg2614
theorem run2616 : runSeg 18 190968 0 S0 = (S2616, true) := runSeg_comp 18 190895 73 0 S0 S2615 S2616 run2615 seg2615
theorem run2617 : runSeg 18 191041 0 S0 = (S2617, true) := runSeg_comp 18 190968 73 0 S0 S2616 S2617 run2616 seg2616
theorem run2618 : runSeg 18 191114 0 S0 = (S2618, true) := runSeg_comp 18 191041 73 0 S0 S2617 S2618 run2617 seg2617
theorem run2619 : runSeg 18 191187 0 S0 = (S2619, true) := runSeg_comp 18 191114 73 0 S0 S2618 S2619 run2618 seg2618
theorem run2620 : runSeg 18 191260 0 S0 = (S2620, true) := runSeg_comp 18 191187 73 0 S0 S2619 S2620 run2619 seg2619
theorem run2621 : runSeg 18 191333 0 S0 = (S2621, true) := runSeg_comp 18 191260 73 0 S0 S2620 S2621 run2620 seg2620
theorem run2622 : runSeg 18 191406 0 S0 = (S2622, true) := runSeg_comp 18 191333 73 0 S0 S2621 S2622 run2621 seg2621
theorem run2623 : runSeg 18 191479 0 S0 = (S2623, true) := runSeg_comp 18 191406 73 0 S0 S2622 S2623 run2622 seg2622
theorem run2624 : runSeg 18 191552 0 S0 = (S2624, true) := runSeg_comp 18 191479 73 0 S0 S2623 S2624 run2623 seg2623
theorem run2625 : runSeg 18 191625 0 S0 = (S2625, true) := runSeg_comp 18 191552 73 0 S0 S2624 S2625 run2624 seg2624
theorem run2626 : runSeg 18 191698 0 S0 = (S2626, true) := runSeg_comp 18 191625 73 0 S0 S2625 S2626 run2625 seg2625
theorem run2627 : runSeg 18 191771 0 S0 = (S2627, true) := runSeg_comp 18 191698 73 0 S0 S2626 S2627 run2626 seg2626
theorem run2628 : runSeg 18 191844 0 S0 = (S2628, true) := runSeg_comp 18 191771 73 0 S0 S2627 S2628 run2627 seg2627
theorem run2629 : runSeg 18 191917 0 S0 = (S2629, true) := runSeg_comp 18 191844 73 0 S0 S2628 S2629 run2628 seg2628
theorem run2630 : runSeg 18 191990 0 S0 = (S2630, true) := runSeg_comp 18 191917 73 0 S0 S2629 S2630 run2629 seg2629
theorem run2631 : runSeg 18 192063 0 S0 = (S2631, true) := runSeg_comp 18 191990 73 0 S0 S2630 S2631 run2630 seg2630
theorem run2632 : runSeg 18 192136 0 S0 = (S2632, true) := runSeg_comp 18 192063 73 0 S0 S2631 S2632 run2631 seg2631
theorem run2633 : runSeg 18 192209 0 S0 = (S2633, true) := runSeg_comp 18 192136 73 0 S0 S2632 S2633 run2632 seg2632
theorem run2634 : runSeg 18 192282 0 S0 = (S2634, true) := runSeg_comp 18 192209 73 0 S0 S2633 S2634 run2633 seg2633
theorem run2635 : runSeg 18 192355 0 S0 = (S2635, true) := runSeg_comp 18 192282 73 0 S0 S2634 S2635 run2634 seg2634
theorem run2636 : runSeg 18 192428 0 S0 = (S2636, true) := runSeg_comp 18 192355 73 0 S0 S2635 S2636 run2635 seg2635
theorem run2637 : runSeg 18 192501 0 S0 = (S2637, true) := runSeg_comp 18 192428 73 0 S0 S2636 S2637 run2636 seg2636
theorem run2638 : runSeg 18 192574 0 S0 = (S2638, true) := runSeg_comp 18 192501 73 0 S0 S2637 S2638 run2637 seg2637
theorem run2639 : runSeg 18 192647 0 S0 = (S2639, true) := runSeg_comp 18 192574 73 0 S0 S2638 S2639 run2638 seg2638
theorem run2640 : runSeg 18 192720 0 S0 = (S2640, true) := runSeg_comp 18 192647 73 0 S0 S2639 S2640 run2639 seg2639
theorem run2641 : runSeg 18 192793 0 S0 = (S2641, true) := runSeg_comp 18 192720 73 0 S0 S2640 S2641 run2640 seg2640
theorem run2642 : runSeg 18 192866 0 S0 = (S2642, true) := runSeg_comp 18 192793 73 0 S0 S2641 S2642 run2641 seg2641
theorem run2643 : runSeg 18 192939 0 S0 = (S2643, true) := runSeg_comp 18 192866 73 0 S0 S2642 S2643 run2642 seg2642
theorem run2644 : runSeg 18 193012 0 S0 = (S2644, true) := runSeg_comp 18 192939 73 0 S0 S2643 S2644 run2643 seg2643
theorem run2645 : runSeg 18 193085 0 S0 = (S2645, true) := runSeg_comp 18 193012 73 0 S0 S2644 S2645 run2644 seg2644
theorem run2646 : runSeg 18 193158 0 S0 = (S2646, true) := runSeg_comp 18 193085 73 0 S0 S2645 S2646 run2645 seg2645
theorem run2647 : runSeg 18 193231 0 S0 = (S2647, true) := runSeg_comp 18 193158 73 0 S0 S2646 S2647 run2646 seg2646
theorem run2648 : runSeg 18 193304 0 S0 = (S2648, true) := runSeg_comp 18 193231 73 0 S0 S2647 S2648 run2647 seg2647
theorem run2649 : runSeg 18 193377 0 S0 = (S2649, true) := runSeg_comp 18 193304 73 0 S0 S2648 S2649 run2648 seg2648
theorem run2650 : runSeg 18 193450 0 S0 = (S2650, true) := runSeg_comp 18 193377 73 0 S0 S2649 S2650 run2649 seg2649
theorem run2651 : runSeg 18 193523 0 S0 = (S2651, true) := runSeg_comp 18 193450 73 0 S0 S2650 S2651 run2650 seg2650
theorem run2652 : runSeg 18 193596 0 S0 = (S2652, true) := runSeg_comp 18 193523 73 0 S0 S2651 S2652 run2651 seg2651
theorem run2653 : runSeg 18 193669 0 S0 = (S2653, true) := runSeg_comp 18 193596 73 0 S0 S2652 S2653 run2652 seg2652
theorem run2654 : runSeg 18 193742 0 S0 = (S2654, true) := runSeg_comp 18 193669 73 0 S0 S2653 S2654 run2653 seg2653
theorem run2655 : runSeg 18 193815 0 S0 = (S2655, true) := runSeg_comp 18 193742 73 0 S0 S2654 S2655 run2654 seg2654
theorem run2656 : runSeg 18 193888 0 S0 = (S2656, true) := runSeg_comp 18 193815 73 0 S0 S2655 S2656 run2655 seg2655
theorem run2657 : runSeg 18 193961 0 S0 = (S2657, true) := runSeg_comp 18 193888 73 0 S0 S2656 S2657 run2656 seg2656
theorem run2658 : runSeg 18 194034 0 S0 = (S2658, true) := runSeg_comp 18 193961 73 0 S0 S2657 S2658 run2657 seg2657
theorem run2659 : runSeg 18 194107 0 S0 = (S2659, true) := runSeg_comp 18 194034 73 0 S0 S2658 S2659 run2658 seg2658
theorem run2660 : runSeg 18 194180 0 S0 = (S2660, true) := runSeg_comp 18 194107 73 0 S0 S2659 S2660 run2659 seg2659
theorem run2661 : runSeg 18 194253 0 S0 = (S2661, true) := runSeg_comp 18 194180 73 0 S0 S2660 S2661 run2660 seg2660
theorem run2662 : runSeg 18 194326 0 S0 = (S2662, true) := runSeg_comp 18 194253 73 0 S0 S2661 S2662 run2661 seg2661
theorem run2663 : runSeg 18 194399 0 S0 = (S2663, true) := runSeg_comp 18 194326 73 0 S0 S2662 S2663 run2662 seg2662
theorem run2664 : runSeg 18 194472 0 S0 = (S2664, true) := runSeg_comp 18 194399 73 0 S0 S2663 S2664 run2663 seg2663
theorem run2665 : runSeg 18 194545 0 S0 = (S2665, true) := runSeg_comp 18 194472 73 0 S0 S2664 S2665 run2664 seg2664
theorem run2666 : runSeg 18 194618 0 S0 = (S2666, true) := runSeg_comp 18 194545 73 0 S0 S2665 S2666 run2665 seg2665
theorem run2667 : runSeg 18 194691 0 S0 = (S2667, true) := runSeg_comp 18 194618 73 0 S0 S2666 S2667 run2666 seg2666
theorem run2668 : runSeg 18 194764 0 S0 = (S2668, true) := runSeg_comp 18 194691 73 0 S0 S2667 S2668 run2667 seg2667
theorem run2669 : runSeg 18 194837 0 S0 = (S2669, true) := runSeg_comp 18 194764 73 0 S0 S2668 S2669 run2668 seg2668
theorem run2670 : runSeg 18 194910 0 S0 = (S2670, true) := runSeg_comp 18 194837 73 0 S0 S2669 S2670 run2669 seg2669
theorem run2671 : runSeg 18 194983 0 S0 = (S2671, true) := runSeg_comp 18 194910 73 0 S0 S2670 S2671 run2670 seg2670
theorem run2672 : runSeg 18 195056 0 S0 = (S2672, true) := runSeg_comp 18 194983 73 0 S0 S2671 S2672 run2671 seg2671
theorem run2673 : runSeg 18 195129 0 S0 = (S2673, true) := runSeg_comp 18 195056 73 0 S0 S2672 S2673 run2672 seg2672
theorem run2674 : runSeg 18 195202 0 S0 = (S2674, true) := runSeg_comp 18 195129 73 0 S0 S2673 S2674 run2673 seg2673
theorem run2675 : runSeg 18 195275 0 S0 = (S2675, true) := runSeg_comp 18 195202 73 0 S0 S2674 S2675 run2674 seg2674
theorem run2676 : runSeg 18 195348 0 S0 = (S2676, true) := runSeg_comp 18 195275 73 0 S0 S2675 S2676 run2675 seg2675
theorem run2677 : runSeg 18 195421 0 S0 = (S2677, true) := runSeg_comp 18 195348 73 0 S0 S2676 S2677 run2676 seg2676
theorem run2678 : runSeg 18 195494 0 S0 = (S2678, true) := runSeg_comp 18 195421 73 0 S0 S2677 S2678 run2677 seg2677
theorem run2679 : runSeg 18 195567 0 S0 = (S2679, true) := runSeg_comp 18 195494 73 0 S0 S2678 S2679 run2678 seg2678
theorem run2680 : runSeg 18 195640 0 S0 = (S2680, true) := runSeg_comp 18 195567 73 0 S0 S2679 S2680 run2679 seg2679
theorem run2681 : runSeg 18 195713 0 S0 = (S2681, true) := runSeg_comp 18 195640 73 0 S0 S2680 S2681 run2680 seg2680
theorem run2682 : runSeg 18 195786 0 S0 = (S2682, true) := runSeg_comp 18 195713 73 0 S0 S2681 S2682 run2681 seg2681
theorem run2683 : runSeg 18 195859 0 S0 = (S2683, true) := runSeg_comp 18 195786 73 0 S0 S2682 S2683 run2682 seg2682
theorem run2684 : runSeg 18 195932 0 S0 = (S2684, true) := runSeg_comp 18 195859 73 0 S0 S2683 S2684 run2683 seg2683
theorem run2685 : runSeg 18 196005 0 S0 = (S2685, true) := runSeg_comp 18 195932 73 0 S0 S2684 S2685 run2684 seg2684
theorem run2686 : runSeg 18 196078 0 S0 = (S2686, true) := runSeg_comp 18 196005 73 0 S0 S2685 S2686 run2685 seg2685
theorem run2687 : runSeg 18 196151 0 S0 = (S2687, true) := runSeg_comp 18 196078 73 0 S0 S2686 S2687 run2686 seg2686
theorem run2688 : runSeg 18 196224 0 S0 = (S2688, true) := runSeg_comp 18 196151 73 0 S0 S2687 S2688 run2687 seg2687
theorem run2689 : runSeg 18 196297 0 S0 = (S2689, true) := runSeg_comp 18 196224 73 0 S0 S2688 S2689 run2688 seg2688
theorem run2690 : runSeg 18 196370 0 S0 = (S2690, true) := runSeg_comp 18 196297 73 0 S0 S2689 S2690 run2689 seg2689
theorem run2691 : runSeg 18 196443 0 S0 = (S2691, true) := runSeg_comp 18 196370 73 0 S0 S2690 S2691 run2690 seg2690
theorem run2692 : runSeg 18 196516 0 S0 = (S2692, true) := runSeg_comp 18 196443 73 0 S0 S2691 S2692 run2691 seg2691
theorem run2693 : runSeg 18 196589 0 S0 = (S2693, true) := runSeg_comp 18 196516 73 0 S0 S2692 S2693 run2692 seg2692
theorem run2694 : runSeg 18 196662 0 S0 = (S2694, true) := runSeg_comp 18 196589 73 0 S0 S2693 S2694 run2693 seg2693
theorem run2695 : runSeg 18 196735 0 S0 = (S2695, true) := runSeg_comp 18 196662 73 0 S0 S2694 S2695 run2694 seg2694
theorem run2696 : runSeg 18 196808 0 S0 = (S2696, true) := runSeg_comp 18 196735 73 0 S0 S2695 S2696 run2695 seg2695
theorem run2697 : runSeg 18 196881 0 S0 = (S2697, true) := runSeg_comp 18 196808 73 0 S0 S2696 S2697 run2696 seg2696
theorem run2698 : runSeg 18 196954 0 S0 = (S2698, true) := runSeg_comp 18 196881 73 0 S0 S2697 S2698 run2697 seg2697
theorem run2699 : runSeg 18 197027 0 S0 = (S2699, true) := runSeg_comp 18 196954 73 0 S0 S2698 S2699 run2698 seg2698
theorem run2700 : runSeg 18 197100 0 S0 = (S2700, true) := runSeg_comp 18 197027 73 0 S0 S2699 S2700 run2699 seg2699
theorem run2701 : runSeg 18 197173 0 S0 = (S2701, true) := runSeg_comp 18 197100 73 0 S0 S2700 S2701 run2700 seg2700
theorem run2702 : runSeg 18 197246 0 S0 = (S2702, true) := runSeg_comp 18 197173 73 0 S0 S2701 S2702 run2701 seg2701
theorem run2703 : runSeg 18 197319 0 S0 = (S2703, true) := runSeg_comp 18 197246 73 0 S0 S2702 S2703 run2702 seg2702
theorem run2704 : runSeg 18 197392 0 S0 = (S2704, true) := runSeg_comp 18 197319 73 0 S0 S2703 S2704 run2703 seg2703
theorem run2705 : runSeg 18 197465 0 S0 = (S2705, true) := runSeg_comp 18 197392 73 0 S0 S2704 S2705 run2704 seg2704
theorem run2706 : runSeg 18 197538 0 S0 = (S2706, true) := runSeg_comp 18 197465 73 0 S0 S2705 S2706 run2705 seg2705
theorem run2707 : runSeg 18 197611 0 S0 = (S2707, true) := runSeg_comp 18 197538 73 0 S0 S2706 S2707 run2706 seg2706
theorem run2708 : runSeg 18 197684 0 S0 = (S2708, true) := runSeg_comp 18 197611 73 0 S0 S2707 S2708 run2707 seg2707
theorem run2709 : runSeg 18 197757 0 S0 = (S2709, true) := runSeg_comp 18 197684 73 0 S0 S2708 S2709 run2708 seg2708
theorem run2710 : runSeg 18 197830 0 S0 = (S2710, true) := runSeg_comp 18 197757 73 0 S0 S2709 S2710 run2709 seg2709
theorem run2711 : runSeg 18 197903 0 S0 = (S2711, true) := runSeg_comp 18 197830 73 0 S0 S2710 S2711 run2710 seg2710
theorem run2712 : runSeg 18 197976 0 S0 = (S2712, true) := runSeg_comp 18 197903 73 0 S0 S2711 S2712 run2711 seg2711
theorem run2713 : runSeg 18 198049 0 S0 = (S2713, true) := runSeg_comp 18 197976 73 0 S0 S2712 S2713 run2712 seg2712
theorem run2714 : runSeg 18 198122 0 S0 = (S2714, true) := runSeg_comp 18 198049 73 0 S0 S2713 S2714 run2713 seg2713
theorem run2715 : runSeg 18 198195 0 S0 = (S2715, true) := runSeg_comp 18 198122 73 0 S0 S2714 S2715 run2714 seg2714
theorem run2716 : runSeg 18 198268 0 S0 = (S2716, true) := runSeg_comp 18 198195 73 0 S0 S2715 S2716 run2715 seg2715
theorem run2717 : runSeg 18 198341 0 S0 = (S2717, true) := runSeg_comp 18 198268 73 0 S0 S2716 S2717 run2716 seg2716
theorem run2718 : runSeg 18 198414 0 S0 = (S2718, true) := runSeg_comp 18 198341 73 0 S0 S2717 S2718 run2717 seg2717
theorem run2719 : runSeg 18 198487 0 S0 = (S2719, true) := runSeg_comp 18 198414 73 0 S0 S2718 S2719 run2718 seg2718
theorem run2720 : runSeg 18 198560 0 S0 = (S2720, true) := runSeg_comp 18 198487 73 0 S0 S2719 S2720 run2719 seg2719
theorem run2721 : runSeg 18 198633 0 S0 = (S2721, true) := runSeg_comp 18 198560 73 0 S0 S2720 S2721 run2720 seg2720
theorem run2722 : runSeg 18 198706 0 S0 = (S2722, true) := runSeg_comp 18 198633 73 0 S0 S2721 S2722 run2721 seg2721
theorem run2723 : runSeg 18 198779 0 S0 = (S2723, true) := runSeg_comp 18 198706 73 0 S0 S2722 S2723 run2722 seg2722
theorem run2724 : runSeg 18 198852 0 S0 = (S2724, true) := runSeg_comp 18 198779 73 0 S0 S2723 S2724 run2723 seg2723
theorem run2725 : runSeg 18 198925 0 S0 = (S2725, true) := runSeg_comp 18 198852 73 0 S0 S2724 S2725 run2724 seg2724
theorem run2726 : runSeg 18 198998 0 S0 = (S2726, true) := runSeg_comp 18 198925 73 0 S0 S2725 S2726 run2725 seg2725
theorem run2727 : runSeg 18 199071 0 S0 = (S2727, true) := runSeg_comp 18 198998 73 0 S0 S2726 S2727 run2726 seg2726
theorem run2728 : runSeg 18 199144 0 S0 = (S2728, true) := runSeg_comp 18 199071 73 0 S0 S2727 S2728 run2727 seg2727
theorem run2729 : runSeg 18 199217 0 S0 = (S2729, true) := runSeg_comp 18 199144 73 0 S0 S2728 S2729 run2728 seg2728
theorem run2730 : runSeg 18 199290 0 S0 = (S2730, true) := runSeg_comp 18 199217 73 0 S0 S2729 S2730 run2729 seg2729
theorem run2731 : runSeg 18 199363 0 S0 = (S2731, true) := runSeg_comp 18 199290 73 0 S0 S2730 S2731 run2730 seg2730
theorem run2732 : runSeg 18 199436 0 S0 = (S2732, true) := runSeg_comp 18 199363 73 0 S0 S2731 S2732 run2731 seg2731
theorem run2733 : runSeg 18 199509 0 S0 = (S2733, true) := runSeg_comp 18 199436 73 0 S0 S2732 S2733 run2732 seg2732
theorem run2734 : runSeg 18 199582 0 S0 = (S2734, true) := runSeg_comp 18 199509 73 0 S0 S2733 S2734 run2733 seg2733
theorem run2735 : runSeg 18 199655 0 S0 = (S2735, true) := runSeg_comp 18 199582 73 0 S0 S2734 S2735 run2734 seg2734
theorem run2736 : runSeg 18 199728 0 S0 = (S2736, true) := runSeg_comp 18 199655 73 0 S0 S2735 S2736 run2735 seg2735
theorem run2737 : runSeg 18 199801 0 S0 = (S2737, true) := runSeg_comp 18 199728 73 0 S0 S2736 S2737 run2736 seg2736
theorem run2738 : runSeg 18 199874 0 S0 = (S2738, true) := runSeg_comp 18 199801 73 0 S0 S2737 S2738 run2737 seg2737
theorem run2739 : runSeg 18 199947 0 S0 = (S2739, true) := runSeg_comp 18 199874 73 0 S0 S2738 S2739 run2738 seg2738
theorem run2740 : runSeg 18 200020 0 S0 = (S2740, true) := runSeg_comp 18 199947 73 0 S0 S2739 S2740 run2739 seg2739
theorem run2741 : runSeg 18 200093 0 S0 = (S2741, true) := runSeg_comp 18 200020 73 0 S0 S2740 S2741 run2740 seg2740
theorem run2742 : runSeg 18 200166 0 S0 = (S2742, true) := runSeg_comp 18 200093 73 0 S0 S2741 S2742 run2741 seg2741
theorem run2743 : runSeg 18 200239 0 S0 = (S2743, true) := runSeg_comp 18 200166 73 0 S0 S2742 S2743 run2742 seg2742
theorem run2744 : runSeg 18 200312 0 S0 = (S2744, true) := runSeg_comp 18 200239 73 0 S0 S2743 S2744 run2743 seg2743
theorem run2745 : runSeg 18 200385 0 S0 = (S2745, true) := runSeg_comp 18 200312 73 0 S0 S2744 S2745 run2744 seg2744
theorem run2746 : runSeg 18 200458 0 S0 = (S2746, true) := runSeg_comp 18 200385 73 0 S0 S2745 S2746 run2745 seg2745
theorem run2747 : runSeg 18 200531 0 S0 = (S2747, true) := runSeg_comp 18 200458 73 0 S0 S2746 S2747 run2746 seg2746
theorem run2748 : runSeg 18 200604 0 S0 = (S2748, true) := runSeg_comp 18 200531 73 0 S0 S2747 S2748 run2747 seg2747
theorem run2749 : runSeg 18 200677 0 S0 = (S2749, true) := runSeg_comp 18 200604 73 0 S0 S2748 S2749 run2748 seg2748
theorem run2750 : runSeg 18 200750 0 S0 = (S2750, true) := runSeg_comp 18 200677 73 0 S0 S2749 S2750 run2749 seg2749
theorem run2751 : runSeg 18 200823 0 S0 = (S2751, true) := runSeg_comp 18 200750 73 0 S0 S2750 S2751 run2750 seg2750
theorem run2752 : runSeg 18 200896 0 S0 = (S2752, true) := runSeg_comp 18 200823 73 0 S0 S2751 S2752 run2751 seg2751
theorem run2753 : runSeg 18 200969 0 S0 = (S2753, true) := runSeg_comp 18 200896 73 0 S0 S2752 S2753 run2752 seg2752
theorem run2754 : runSeg 18 201042 0 S0 = (S2754, true) := runSeg_comp 18 200969 73 0 S0 S2753 S2754 run2753 seg2753
theorem run2755 : runSeg 18 201115 0 S0 = (S2755, true) := runSeg_comp 18 201042 73 0 S0 S2754 S2755 run2754 seg2754
theorem run2756 : runSeg 18 201188 0 S0 = (S2756, true) := runSeg_comp 18 201115 73 0 S0 S2755 S2756 run2755 seg2755
theorem run2757 : runSeg 18 201261 0 S0 = (S2757, true) := runSeg_comp 18 201188 73 0 S0 S2756 S2757 run2756 seg2756
theorem run2758 : runSeg 18 201334 0 S0 = (S2758, true) := runSeg_comp 18 201261 73 0 S0 S2757 S2758 run2757 seg2757
theorem run2759 : runSeg 18 201407 0 S0 = (S2759, true) := runSeg_comp 18 201334 73 0 S0 S2758 S2759 run2758 seg2758
theorem run2760 : runSeg 18 201480 0 S0 = (S2760, true) := runSeg_comp 18 201407 73 0 S0 S2759 S2760 run2759 seg2759
theorem run2761 : runSeg 18 201553 0 S0 = (S2761, true) := runSeg_comp 18 201480 73 0 S0 S2760 S2761 run2760 seg2760
theorem run2762 : runSeg 18 201626 0 S0 = (S2762, true) := runSeg_comp 18 201553 73 0 S0 S2761 S2762 run2761 seg2761
theorem run2763 : runSeg 18 201699 0 S0 = (S2763, true) := runSeg_comp 18 201626 73 0 S0 S2762 S2763 run2762 seg2762
theorem run2764 : runSeg 18 201772 0 S0 = (S2764, true) := runSeg_comp 18 201699 73 0 S0 S2763 S2764 run2763 seg2763
theorem run2765 : runSeg 18 201845 0 S0 = (S2765, true) := runSeg_comp 18 201772 73 0 S0 S2764 S2765 run2764 seg2764
theorem run2766 : runSeg 18 201918 0 S0 = (S2766, true) := runSeg_comp 18 201845 73 0 S0 S2765 S2766 run2765 seg2765
theorem run2767 : runSeg 18 201991 0 S0 = (S2767, true) := runSeg_comp 18 201918 73 0 S0 S2766 S2767 run2766 seg2766
theorem run2768 : runSeg 18 202064 0 S0 = (S2768, true) := runSeg_comp 18 201991 73 0 S0 S2767 S2768 run2767 seg2767
theorem run2769 : runSeg 18 202137 0 S0 = (S2769, true) := runSeg_comp 18 202064 73 0 S0 S2768 S2769 run2768 seg2768
theorem run2770 : runSeg 18 202210 0 S0 = (S2770, true) := runSeg_comp 18 202137 73 0 S0 S2769 S2770 run2769 seg2769
theorem run2771 : runSeg 18 202283 0 S0 = (S2771, true) := runSeg_comp 18 202210 73 0 S0 S2770 S2771 run2770 seg2770
theorem run2772 : runSeg 18 202356 0 S0 = (S2772, true) := runSeg_comp 18 202283 73 0 S0 S2771 S2772 run2771 seg2771
theorem run2773 : runSeg 18 202429 0 S0 = (S2773, true) := runSeg_comp 18 202356 73 0 S0 S2772 S2773 run2772 seg2772
theorem run2774 : runSeg 18 202502 0 S0 = (S2774, true) := runSeg_comp 18 202429 73 0 S0 S2773 S2774 run2773 seg2773
theorem run2775 : runSeg 18 202575 0 S0 = (S2775, true) := runSeg_comp 18 202502 73 0 S0 S2774 S2775 run2774 seg2774
theorem run2776 : runSeg 18 202648 0 S0 = (S2776, true) := runSeg_comp 18 202575 73 0 S0 S2775 S2776 run2775 seg2775
theorem run2777 : runSeg 18 202721 0 S0 = (S2777, true) := runSeg_comp 18 202648 73 0 S0 S2776 S2777 run2776 seg2776
theorem run2778 : runSeg 18 202794 0 S0 = (S2778, true) := runSeg_comp 18 202721 73 0 S0 S2777 S2778 run2777 seg2777
theorem run2779 : runSeg 18 202867 0 S0 = (S2779, true) := runSeg_comp 18 202794 73 0 S0 S2778 S2779 run2778 seg2778
theorem run2780 : runSeg 18 202940 0 S0 = (S2780, true) := runSeg_comp 18 202867 73 0 S0 S2779 S2780 run2779 seg2779
theorem run2781 : runSeg 18 203013 0 S0 = (S2781, true) := runSeg_comp 18 202940 73 0 S0 S2780 S2781 run2780 seg2780
theorem run2782 : runSeg 18 203086 0 S0 = (S2782, true) := runSeg_comp 18 203013 73 0 S0 S2781 S2782 run2781 seg2781
theorem run2783 : runSeg 18 203159 0 S0 = (S2783, true) := runSeg_comp 18 203086 73 0 S0 S2782 S2783 run2782 seg2782
theorem run2784 : runSeg 18 203232 0 S0 = (S2784, true) := runSeg_comp 18 203159 73 0 S0 S2783 S2784 run2783 seg2783
theorem run2785 : runSeg 18 203305 0 S0 = (S2785, true) := runSeg_comp 18 203232 73 0 S0 S2784 S2785 run2784 seg2784
theorem run2786 : runSeg 18 203378 0 S0 = (S2786, true) := runSeg_comp 18 203305 73 0 S0 S2785 S2786 run2785 seg2785
theorem run2787 : runSeg 18 203451 0 S0 = (S2787, true) := runSeg_comp 18 203378 73 0 S0 S2786 S2787 run2786 seg2786
theorem run2788 : runSeg 18 203524 0 S0 = (S2788, true) := runSeg_comp 18 203451 73 0 S0 S2787 S2788 run2787 seg2787
theorem run2789 : runSeg 18 203597 0 S0 = (S2789, true) := runSeg_comp 18 203524 73 0 S0 S2788 S2789 run2788 seg2788
theorem run2790 : runSeg 18 203670 0 S0 = (S2790, true) := runSeg_comp 18 203597 73 0 S0 S2789 S2790 run2789 seg2789
theorem run2791 : runSeg 18 203743 0 S0 = (S2791, true) := runSeg_comp 18 203670 73 0 S0 S2790 S2791 run2790 seg2790
theorem run2792 : runSeg 18 203816 0 S0 = (S2792, true) := runSeg_comp 18 203743 73 0 S0 S2791 S2792 run2791 seg2791
theorem run2793 : runSeg 18 203889 0 S0 = (S2793, true) := runSeg_comp 18 203816 73 0 S0 S2792 S2793 run2792 seg2792
theorem run2794 : runSeg 18 203962 0 S0 = (S2794, true) := runSeg_comp 18 203889 73 0 S0 S2793 S2794 run2793 seg2793
theorem run2795 : runSeg 18 204035 0 S0 = (S2795, true) := runSeg_comp 18 203962 73 0 S0 S2794 S2795 run2794 seg2794
theorem run2796 : runSeg 18 204108 0 S0 = (S2796, true) := runSeg_comp 18 204035 73 0 S0 S2795 S2796 run2795 seg2795
theorem run2797 : runSeg 18 204181 0 S0 = (S2797, true) := runSeg_comp 18 204108 73 0 S0 S2796 S2797 run2796 seg2796
theorem run2798 : runSeg 18 204254 0 S0 = (S2798, true) := runSeg_comp 18 204181 73 0 S0 S2797 S2798 run2797 seg2797
theorem run2799 : runSeg 18 204327 0 S0 = (S2799, true) := runSeg_comp 18 204254 73 0 S0 S2798 S2799 run2798 seg2798
theorem run2800 : runSeg 18 204400 0 S0 = (S2800, true) := runSeg_comp 18 204327 73 0 S0 S2799 S2800 run2799 seg2799
theorem run2801 : runSeg 18 204473 0 S0 = (S2801, true) := runSeg_comp 18 204400 73 0 S0 S2800 S2801 run2800 seg2800
theorem run2802 : runSeg 18 204546 0 S0 = (S2802, true) := runSeg_comp 18 204473 73 0 S0 S2801 S2802 run2801 seg2801
theorem run2803 : runSeg 18 204619 0 S0 = (S2803, true) := runSeg_comp 18 204546 73 0 S0 S2802 S2803 run2802 seg2802
theorem run2804 : runSeg 18 204692 0 S0 = (S2804, true) := runSeg_comp 18 204619 73 0 S0 S2803 S2804 run2803 seg2803
theorem run2805 : runSeg 18 204765 0 S0 = (S2805, true) := runSeg_comp 18 204692 73 0 S0 S2804 S2805 run2804 seg2804
theorem run2806 : runSeg 18 204838 0 S0 = (S2806, true) := runSeg_comp 18 204765 73 0 S0 S2805 S2806 run2805 seg2805
theorem run2807 : runSeg 18 204911 0 S0 = (S2807, true) := runSeg_comp 18 204838 73 0 S0 S2806 S2807 run2806 seg2806
theorem run2808 : runSeg 18 204984 0 S0 = (S2808, true) := runSeg_comp 18 204911 73 0 S0 S2807 S2808 run2807 seg2807
theorem run2809 : runSeg 18 205057 0 S0 = (S2809, true) := runSeg_comp 18 204984 73 0 S0 S2808 S2809 run2808 seg2808
theorem run2810 : runSeg 18 205130 0 S0 = (S2810, true) := runSeg_comp 18 205057 73 0 S0 S2809 S2810 run2809 seg2809
theorem run2811 : runSeg 18 205203 0 S0 = (S2811, true) := runSeg_comp 18 205130 73 0 S0 S2810 S2811 run2810 seg2810
theorem run2812 : runSeg 18 205276 0 S0 = (S2812, true) := runSeg_comp 18 205203 73 0 S0 S2811 S2812 run2811 seg2811
theorem run2813 : runSeg 18 205349 0 S0 = (S2813, true) := runSeg_comp 18 205276 73 0 S0 S2812 S2813 run2812 seg2812
theorem run2814 : runSeg 18 205422 0 S0 = (S2814, true) := runSeg_comp 18 205349 73 0 S0 S2813 S2814 run2813 seg2813
theorem run2815 : runSeg 18 205495 0 S0 = (S2815, true) := runSeg_comp 18 205422 73 0 S0 S2814 S2815 run2814 seg2814
theorem run2816 : runSeg 18 205568 0 S0 = (S2816, true) := runSeg_comp 18 205495 73 0 S0 S2815 S2816 run2815 seg2815
theorem run2817 : runSeg 18 205641 0 S0 = (S2817, true) := runSeg_comp 18 205568 73 0 S0 S2816 S2817 run2816 seg2816
theorem run2818 : runSeg 18 205714 0 S0 = (S2818, true) := runSeg_comp 18 205641 73 0 S0 S2817 S2818 run2817 seg2817
theorem run2819 : runSeg 18 205787 0 S0 = (S2819, true) := runSeg_comp 18 205714 73 0 S0 S2818 S2819 run2818 seg2818
theorem run2820 : runSeg 18 205860 0 S0 = (S2820, true) := runSeg_comp 18 205787 73 0 S0 S2819 S2820 run2819 seg2819
theorem run2821 : runSeg 18 205933 0 S0 = (S2821, true) := runSeg_comp 18 205860 73 0 S0 S2820 S2821 run2820 seg2820
theorem run2822 : runSeg 18 206006 0 S0 = (S2822, true) := runSeg_comp 18 205933 73 0 S0 S2821 S2822 run2821 seg2821
theorem run2823 : runSeg 18 206079 0 S0 = (S2823, true) := runSeg_comp 18 206006 73 0 S0 S2822 S2823 run2822 seg2822
theorem run2824 : runSeg 18 206152 0 S0 = (S2824, true) := runSeg_comp 18 206079 73 0 S0 S2823 S2824 run2823 seg2823
theorem run2825 : runSeg 18 206225 0 S0 = (S2825, true) := runSeg_comp 18 206152 73 0 S0 S2824 S2825 run2824 seg2824
theorem run2826 : runSeg 18 206298 0 S0 = (S2826, true) := runSeg_comp 18 206225 73 0 S0 S2825 S2826 run2825 seg2825
theorem run2827 : runSeg 18 206371 0 S0 = (S2827, true) := runSeg_comp 18 206298 73 0 S0 S2826 S2827 run2826 seg2826
theorem run2828 : runSeg 18 206444 0 S0 = (S2828, true) := runSeg_comp 18 206371 73 0 S0 S2827 S2828 run2827 seg2827
theorem run2829 : runSeg 18 206517 0 S0 = (S2829, true) := runSeg_comp 18 206444 73 0 S0 S2828 S2829 run2828 seg2828
theorem run2830 : runSeg 18 206590 0 S0 = (S2830, true) := runSeg_comp 18 206517 73 0 S0 S2829 S2830 run2829 seg2829
theorem run2831 : runSeg 18 206663 0 S0 = (S2831, true) := runSeg_comp 18 206590 73 0 S0 S2830 S2831 run2830 seg2830
theorem run2832 : runSeg 18 206736 0 S0 = (S2832, true) := runSeg_comp 18 206663 73 0 S0 S2831 S2832 run2831 seg2831
theorem run2833 : runSeg 18 206809 0 S0 = (S2833, true) := runSeg_comp 18 206736 73 0 S0 S2832 S2833 run2832 seg2832
theorem run2834 : runSeg 18 206882 0 S0 = (S2834, true) := runSeg_comp 18 206809 73 0 S0 S2833 S2834 run2833 seg2833
theorem run2835 : runSeg 18 206955 0 S0 = (S2835, true) := runSeg_comp 18 206882 73 0 S0 S2834 S2835 run2834 seg2834
theorem run2836 : runSeg 18 207028 0 S0 = (S2836, true) := runSeg_comp 18 206955 73 0 S0 S2835 S2836 run2835 seg2835
theorem run2837 : runSeg 18 207101 0 S0 = (S2837, true) := runSeg_comp 18 207028 73 0 S0 S2836 S2837 run2836 seg2836
theorem run2838 : runSeg 18 207174 0 S0 = (S2838, true) := runSeg_comp 18 207101 73 0 S0 S2837 S2838 run2837 seg2837
theorem run2839 : runSeg 18 207247 0 S0 = (S2839, true) := runSeg_comp 18 207174 73 0 S0 S2838 S2839 run2838 seg2838
theorem run2840 : runSeg 18 207320 0 S0 = (S2840, true) := runSeg_comp 18 207247 73 0 S0 S2839 S2840 run2839 seg2839
theorem run2841 : runSeg 18 207393 0 S0 = (S2841, true) := runSeg_comp 18 207320 73 0 S0 S2840 S2841 run2840 seg2840
theorem run2842 : runSeg 18 207466 0 S0 = (S2842, true) := runSeg_comp 18 207393 73 0 S0 S2841 S2842 run2841 seg2841
theorem run2843 : runSeg 18 207539 0 S0 = (S2843, true) := runSeg_comp 18 207466 73 0 S0 S2842 S2843 run2842 seg2842
theorem run2844 : runSeg 18 207612 0 S0 = (S2844, true) := runSeg_comp 18 207539 73 0 S0 S2843 S2844 run2843 seg2843
theorem run2845 : runSeg 18 207685 0 S0 = (S2845, true) := runSeg_comp 18 207612 73 0 S0 S2844 S2845 run2844 seg2844
theorem run2846 : runSeg 18 207758 0 S0 = (S2846, true) := runSeg_comp 18 207685 73 0 S0 S2845 S2846 run2845 seg2845
theorem run2847 : runSeg 18 207831 0 S0 = (S2847, true) := runSeg_comp 18 207758 73 0 S0 S2846 S2847 run2846 seg2846
theorem run2848 : runSeg 18 207904 0 S0 = (S2848, true) := runSeg_comp 18 207831 73 0 S0 S2847 S2848 run2847 seg2847
theorem run2849 : runSeg 18 207977 0 S0 = (S2849, true) := runSeg_comp 18 207904 73 0 S0 S2848 S2849 run2848 seg2848
theorem run2850 : runSeg 18 208050 0 S0 = (S2850, true) := runSeg_comp 18 207977 73 0 S0 S2849 S2850 run2849 seg2849
theorem run2851 : runSeg 18 208123 0 S0 = (S2851, true) := runSeg_comp 18 208050 73 0 S0 S2850 S2851 run2850 seg2850
theorem run2852 : runSeg 18 208196 0 S0 = (S2852, true) := runSeg_comp 18 208123 73 0 S0 S2851 S2852 run2851 seg2851
theorem run2853 : runSeg 18 208269 0 S0 = (S2853, true) := runSeg_comp 18 208196 73 0 S0 S2852 S2853 run2852 seg2852
theorem run2854 : runSeg 18 208342 0 S0 = (S2854, true) := runSeg_comp 18 208269 73 0 S0 S2853 S2854 run2853 seg2853
theorem run2855 : runSeg 18 208415 0 S0 = (S2855, true) := runSeg_comp 18 208342 73 0 S0 S2854 S2855 run2854 seg2854
theorem run2856 : runSeg 18 208488 0 S0 = (S2856, true) := runSeg_comp 18 208415 73 0 S0 S2855 S2856 run2855 seg2855
theorem run2857 : runSeg 18 208561 0 S0 = (S2857, true) := runSeg_comp 18 208488 73 0 S0 S2856 S2857 run2856 seg2856
theorem run2858 : runSeg 18 208634 0 S0 = (S2858, true) := runSeg_comp 18 208561 73 0 S0 S2857 S2858 run2857 seg2857
theorem run2859 : runSeg 18 208707 0 S0 = (S2859, true) := runSeg_comp 18 208634 73 0 S0 S2858 S2859 run2858 seg2858
theorem run2860 : runSeg 18 208780 0 S0 = (S2860, true) := runSeg_comp 18 208707 73 0 S0 S2859 S2860 run2859 seg2859
theorem run2861 : runSeg 18 208853 0 S0 = (S2861, true) := runSeg_comp 18 208780 73 0 S0 S2860 S2861 run2860 seg2860
theorem run2862 : runSeg 18 208926 0 S0 = (S2862, true) := runSeg_comp 18 208853 73 0 S0 S2861 S2862 run2861 seg2861
theorem run2863 : runSeg 18 208999 0 S0 = (S2863, true) := runSeg_comp 18 208926 73 0 S0 S2862 S2863 run2862 seg2862
theorem run2864 : runSeg 18 209072 0 S0 = (S2864, true) := runSeg_comp 18 208999 73 0 S0 S2863 S2864 run2863 seg2863
theorem run2865 : runSeg 18 209145 0 S0 = (S2865, true) := runSeg_comp 18 209072 73 0 S0 S2864 S2865 run2864 seg2864
theorem run2866 : runSeg 18 209218 0 S0 = (S2866, true) := runSeg_comp 18 209145 73 0 S0 S2865 S2866 run2865 seg2865
theorem run2867 : runSeg 18 209291 0 S0 = (S2867, true) := runSeg_comp 18 209218 73 0 S0 S2866 S2867 run2866 seg2866
theorem run2868 : runSeg 18 209364 0 S0 = (S2868, true) := runSeg_comp 18 209291 73 0 S0 S2867 S2868 run2867 seg2867
theorem run2869 : runSeg 18 209437 0 S0 = (S2869, true) := runSeg_comp 18 209364 73 0 S0 S2868 S2869 run2868 seg2868
theorem run2870 : runSeg 18 209510 0 S0 = (S2870, true) := runSeg_comp 18 209437 73 0 S0 S2869 S2870 run2869 seg2869
theorem run2871 : runSeg 18 209583 0 S0 = (S2871, true) := runSeg_comp 18 209510 73 0 S0 S2870 S2871 run2870 seg2870
theorem run2872 : runSeg 18 209656 0 S0 = (S2872, true) := runSeg_comp 18 209583 73 0 S0 S2871 S2872 run2871 seg2871
theorem run2873 : runSeg 18 209729 0 S0 = (S2873, true) := runSeg_comp 18 209656 73 0 S0 S2872 S2873 run2872 seg2872
theorem run2874 : runSeg 18 209802 0 S0 = (S2874, true) := runSeg_comp 18 209729 73 0 S0 S2873 S2874 run2873 seg2873
theorem run2875 : runSeg 18 209875 0 S0 = (S2875, true) := runSeg_comp 18 209802 73 0 S0 S2874 S2875 run2874 seg2874
theorem run2876 : runSeg 18 209948 0 S0 = (S2876, true) := runSeg_comp 18 209875 73 0 S0 S2875 S2876 run2875 seg2875
theorem run2877 : runSeg 18 210021 0 S0 = (S2877, true) := runSeg_comp 18 209948 73 0 S0 S2876 S2877 run2876 seg2876
theorem run2878 : runSeg 18 210094 0 S0 = (S2878, true) := runSeg_comp 18 210021 73 0 S0 S2877 S2878 run2877 seg2877
theorem run2879 : runSeg 18 210167 0 S0 = (S2879, true) := runSeg_comp 18 210094 73 0 S0 S2878 S2879 run2878 seg2878
theorem run2880 : runSeg 18 210240 0 S0 = (S2880, true) := runSeg_comp 18 210167 73 0 S0 S2879 S2880 run2879 seg2879
theorem run2881 : runSeg 18 210313 0 S0 = (S2881, true) := runSeg_comp 18 210240 73 0 S0 S2880 S2881 run2880 seg2880
theorem run2882 : runSeg 18 210386 0 S0 = (S2882, true) := runSeg_comp 18 210313 73 0 S0 S2881 S2882 run2881 seg2881
theorem run2883 : runSeg 18 210459 0 S0 = (S2883, true) := runSeg_comp 18 210386 73 0 S0 S2882 S2883 run2882 seg2882
theorem run2884 : runSeg 18 210532 0 S0 = (S2884, true) := runSeg_comp 18 210459 73 0 S0 S2883 S2884 run2883 seg2883
theorem run2885 : runSeg 18 210605 0 S0 = (S2885, true) := runSeg_comp 18 210532 73 0 S0 S2884 S2885 run2884 seg2884
theorem run2886 : runSeg 18 210678 0 S0 = (S2886, true) := runSeg_comp 18 210605 73 0 S0 S2885 S2886 run2885 seg2885
theorem run2887 : runSeg 18 210751 0 S0 = (S2887, true) := runSeg_comp 18 210678 73 0 S0 S2886 S2887 run2886 seg2886
theorem run2888 : runSeg 18 210824 0 S0 = (S2888, true) := runSeg_comp 18 210751 73 0 S0 S2887 S2888 run2887 seg2887
theorem run2889 : runSeg 18 210897 0 S0 = (S2889, true) := runSeg_comp 18 210824 73 0 S0 S2888 S2889 run2888 seg2888
theorem run2890 : runSeg 18 210970 0 S0 = (S2890, true) := runSeg_comp 18 210897 73 0 S0 S2889 S2890 run2889 seg2889
theorem run2891 : runSeg 18 211043 0 S0 = (S2891, true) := runSeg_comp 18 210970 73 0 S0 S2890 S2891 run2890 seg2890
theorem run2892 : runSeg 18 211116 0 S0 = (S2892, true) := runSeg_comp 18 211043 73 0 S0 S2891 S2892 run2891 seg2891
theorem run2893 : runSeg 18 211189 0 S0 = (S2893, true) := runSeg_comp 18 211116 73 0 S0 S2892 S2893 run2892 seg2892
theorem run2894 : runSeg 18 211262 0 S0 = (S2894, true) := runSeg_comp 18 211189 73 0 S0 S2893 S2894 run2893 seg2893
theorem run2895 : runSeg 18 211335 0 S0 = (S2895, true) := runSeg_comp 18 211262 73 0 S0 S2894 S2895 run2894 seg2894
theorem run2896 : runSeg 18 211408 0 S0 = (S2896, true) := runSeg_comp 18 211335 73 0 S0 S2895 S2896 run2895 seg2895
theorem run2897 : runSeg 18 211481 0 S0 = (S2897, true) := runSeg_comp 18 211408 73 0 S0 S2896 S2897 run2896 seg2896
theorem run2898 : runSeg 18 211554 0 S0 = (S2898, true) := runSeg_comp 18 211481 73 0 S0 S2897 S2898 run2897 seg2897
theorem run2899 : runSeg 18 211627 0 S0 = (S2899, true) := runSeg_comp 18 211554 73 0 S0 S2898 S2899 run2898 seg2898
theorem run2900 : runSeg 18 211700 0 S0 = (S2900, true) := runSeg_comp 18 211627 73 0 S0 S2899 S2900 run2899 seg2899
theorem run2901 : runSeg 18 211773 0 S0 = (S2901, true) := runSeg_comp 18 211700 73 0 S0 S2900 S2901 run2900 seg2900
theorem run2902 : runSeg 18 211846 0 S0 = (S2902, true) := runSeg_comp 18 211773 73 0 S0 S2901 S2902 run2901 seg2901
theorem run2903 : runSeg 18 211919 0 S0 = (S2903, true) := runSeg_comp 18 211846 73 0 S0 S2902 S2903 run2902 seg2902
theorem run2904 : runSeg 18 211992 0 S0 = (S2904, true) := runSeg_comp 18 211919 73 0 S0 S2903 S2904 run2903 seg2903
theorem run2905 : runSeg 18 212065 0 S0 = (S2905, true) := runSeg_comp 18 211992 73 0 S0 S2904 S2905 run2904 seg2904
theorem run2906 : runSeg 18 212138 0 S0 = (S2906, true) := runSeg_comp 18 212065 73 0 S0 S2905 S2906 run2905 seg2905
theorem run2907 : runSeg 18 212211 0 S0 = (S2907, true) := runSeg_comp 18 212138 73 0 S0 S2906 S2907 run2906 seg2906
theorem run2908 : runSeg 18 212284 0 S0 = (S2908, true) := runSeg_comp 18 212211 73 0 S0 S2907 S2908 run2907 seg2907
theorem run2909 : runSeg 18 212357 0 S0 = (S2909, true) := runSeg_comp 18 212284 73 0 S0 S2908 S2909 run2908 seg2908
theorem run2910 : runSeg 18 212430 0 S0 = (S2910, true) := runSeg_comp 18 212357 73 0 S0 S2909 S2910 run2909 seg2909
theorem run2911 : runSeg 18 212503 0 S0 = (S2911, true) := runSeg_comp 18 212430 73 0 S0 S2910 S2911 run2910 seg2910
theorem run2912 : runSeg 18 212576 0 S0 = (S2912, true) := runSeg_comp 18 212503 73 0 S0 S2911 S2912 run2911 seg2911
theorem run2913 : runSeg 18 212649 0 S0 = (S2913, true) := runSeg_comp 18 212576 73 0 S0 S2912 S2913 run2912 seg2912
theorem run2914 : runSeg 18 212722 0 S0 = (S2914, true) := runSeg_comp 18 212649 73 0 S0 S2913 S2914 run2913 seg2913
theorem run2915 : runSeg 18 212795 0 S0 = (S2915, true) := runSeg_comp 18 212722 73 0 S0 S2914 S2915 run2914 seg2914
theorem run2916 : runSeg 18 212868 0 S0 = (S2916, true) := runSeg_comp 18 212795 73 0 S0 S2915 S2916 run2915 seg2915
theorem run2917 : runSeg 18 212941 0 S0 = (S2917, true) := runSeg_comp 18 212868 73 0 S0 S2916 S2917 run2916 seg2916
theorem run2918 : runSeg 18 213014 0 S0 = (S2918, true) := runSeg_comp 18 212941 73 0 S0 S2917 S2918 run2917 seg2917
theorem run2919 : runSeg 18 213087 0 S0 = (S2919, true) := runSeg_comp 18 213014 73 0 S0 S2918 S2919 run2918 seg2918
theorem run2920 : runSeg 18 213160 0 S0 = (S2920, true) := runSeg_comp 18 213087 73 0 S0 S2919 S2920 run2919 seg2919
theorem run2921 : runSeg 18 213233 0 S0 = (S2921, true) := runSeg_comp 18 213160 73 0 S0 S2920 S2921 run2920 seg2920
theorem run2922 : runSeg 18 213306 0 S0 = (S2922, true) := runSeg_comp 18 213233 73 0 S0 S2921 S2922 run2921 seg2921
theorem run2923 : runSeg 18 213379 0 S0 = (S2923, true) := runSeg_comp 18 213306 73 0 S0 S2922 S2923 run2922 seg2922
theorem run2924 : runSeg 18 213452 0 S0 = (S2924, true) := runSeg_comp 18 213379 73 0 S0 S2923 S2924 run2923 seg2923
theorem run2925 : runSeg 18 213525 0 S0 = (S2925, true) := runSeg_comp 18 213452 73 0 S0 S2924 S2925 run2924 seg2924
theorem run2926 : runSeg 18 213598 0 S0 = (S2926, true) := runSeg_comp 18 213525 73 0 S0 S2925 S2926 run2925 seg2925
theorem run2927 : runSeg 18 213671 0 S0 = (S2927, true) := runSeg_comp 18 213598 73 0 S0 S2926 S2927 run2926 seg2926
theorem run2928 : runSeg 18 213744 0 S0 = (S2928, true) := runSeg_comp 18 213671 73 0 S0 S2927 S2928 run2927 seg2927
theorem run2929 : runSeg 18 213817 0 S0 = (S2929, true) := runSeg_comp 18 213744 73 0 S0 S2928 S2929 run2928 seg2928
theorem run2930 : runSeg 18 213890 0 S0 = (S2930, true) := runSeg_comp 18 213817 73 0 S0 S2929 S2930 run2929 seg2929
theorem run2931 : runSeg 18 213963 0 S0 = (S2931, true) := runSeg_comp 18 213890 73 0 S0 S2930 S2931 run2930 seg2930
theorem run2932 : runSeg 18 214036 0 S0 = (S2932, true) := runSeg_comp 18 213963 73 0 S0 S2931 S2932 run2931 seg2931
theorem run2933 : runSeg 18 214109 0 S0 = (S2933, true) := runSeg_comp 18 214036 73 0 S0 S2932 S2933 run2932 seg2932
theorem run2934 : runSeg 18 214182 0 S0 = (S2934, true) := runSeg_comp 18 214109 73 0 S0 S2933 S2934 run2933 seg2933
theorem run2935 : runSeg 18 214255 0 S0 = (S2935, true) := runSeg_comp 18 214182 73 0 S0 S2934 S2935 run2934 seg2934
theorem run2936 : runSeg 18 214328 0 S0 = (S2936, true) := runSeg_comp 18 214255 73 0 S0 S2935 S2936 run2935 seg2935
theorem run2937 : runSeg 18 214401 0 S0 = (S2937, true) := runSeg_comp 18 214328 73 0 S0 S2936 S2937 run2936 seg2936
theorem run2938 : runSeg 18 214474 0 S0 = (S2938, true) := runSeg_comp 18 214401 73 0 S0 S2937 S2938 run2937 seg2937
theorem run2939 : runSeg 18 214547 0 S0 = (S2939, true) := runSeg_comp 18 214474 73 0 S0 S2938 S2939 run2938 seg2938
theorem run2940 : runSeg 18 214620 0 S0 = (S2940, true) := runSeg_comp 18 214547 73 0 S0 S2939 S2940 run2939 seg2939
theorem run2941 : runSeg 18 214693 0 S0 = (S2941, true) := runSeg_comp 18 214620 73 0 S0 S2940 S2941 run2940 seg2940
theorem run2942 : runSeg 18 214766 0 S0 = (S2942, true) := runSeg_comp 18 214693 73 0 S0 S2941 S2942 run2941 seg2941
theorem run2943 : runSeg 18 214839 0 S0 = (S2943, true) := runSeg_comp 18 214766 73 0 S0 S2942 S2943 run2942 seg2942
theorem run2944 : runSeg 18 214912 0 S0 = (S2944, true) := runSeg_comp 18 214839 73 0 S0 S2943 S2944 run2943 seg2943
theorem run2945 : runSeg 18 214985 0 S0 = (S2945, true) := runSeg_comp 18 214912 73 0 S0 S2944 S2945 run2944 seg2944
theorem run2946 : runSeg 18 215058 0 S0 = (S2946, true) := runSeg_comp 18 214985 73 0 S0 S2945 S2946 run2945 seg2945
theorem run2947 : runSeg 18 215131 0 S0 = (S2947, true) := runSeg_comp 18 215058 73 0 S0 S2946 S2947 run2946 seg2946
theorem run2948 : runSeg 18 215204 0 S0 = (S2948, true) := runSeg_comp 18 215131 73 0 S0 S2947 S2948 run2947 seg2947
theorem run2949 : runSeg 18 215277 0 S0 = (S2949, true) := runSeg_comp 18 215204 73 0 S0 S2948 S2949 run2948 seg2948
theorem run2950 : runSeg 18 215350 0 S0 = (S2950, true) := runSeg_comp 18 215277 73 0 S0 S2949 S2950 run2949 seg2949
theorem run2951 : runSeg 18 215423 0 S0 = (S2951, true) := runSeg_comp 18 215350 73 0 S0 S2950 S2951 run2950 seg2950
theorem run2952 : runSeg 18 215496 0 S0 = (S2952, true) := runSeg_comp 18 215423 73 0 S0 S2951 S2952 run2951 seg2951
theorem run2953 : runSeg 18 215569 0 S0 = (S2953, true) := runSeg_comp 18 215496 73 0 S0 S2952 S2953 run2952 seg2952
theorem run2954 : runSeg 18 215642 0 S0 = (S2954, true) := runSeg_comp 18 215569 73 0 S0 S2953 S2954 run2953 seg2953
theorem run2955 : runSeg 18 215715 0 S0 = (S2955, true) := runSeg_comp 18 215642 73 0 S0 S2954 S2955 run2954 seg2954
theorem run2956 : runSeg 18 215788 0 S0 = (S2956, true) := runSeg_comp 18 215715 73 0 S0 S2955 S2956 run2955 seg2955
theorem run2957 : runSeg 18 215861 0 S0 = (S2957, true) := runSeg_comp 18 215788 73 0 S0 S2956 S2957 run2956 seg2956
theorem run2958 : runSeg 18 215934 0 S0 = (S2958, true) := runSeg_comp 18 215861 73 0 S0 S2957 S2958 run2957 seg2957
theorem run2959 : runSeg 18 216007 0 S0 = (S2959, true) := runSeg_comp 18 215934 73 0 S0 S2958 S2959 run2958 seg2958
theorem run2960 : runSeg 18 216080 0 S0 = (S2960, true) := runSeg_comp 18 216007 73 0 S0 S2959 S2960 run2959 seg2959
theorem run2961 : runSeg 18 216153 0 S0 = (S2961, true) := runSeg_comp 18 216080 73 0 S0 S2960 S2961 run2960 seg2960
theorem run2962 : runSeg 18 216226 0 S0 = (S2962, true) := runSeg_comp 18 216153 73 0 S0 S2961 S2962 run2961 seg2961
theorem run2963 : runSeg 18 216299 0 S0 = (S2963, true) := runSeg_comp 18 216226 73 0 S0 S2962 S2963 run2962 seg2962
theorem run2964 : runSeg 18 216372 0 S0 = (S2964, true) := runSeg_comp 18 216299 73 0 S0 S2963 S2964 run2963 seg2963
theorem run2965 : runSeg 18 216445 0 S0 = (S2965, true) := runSeg_comp 18 216372 73 0 S0 S2964 S2965 run2964 seg2964
theorem run2966 : runSeg 18 216518 0 S0 = (S2966, true) := runSeg_comp 18 216445 73 0 S0 S2965 S2966 run2965 seg2965
theorem run2967 : runSeg 18 216591 0 S0 = (S2967, true) := runSeg_comp 18 216518 73 0 S0 S2966 S2967 run2966 seg2966
theorem run2968 : runSeg 18 216664 0 S0 = (S2968, true) := runSeg_comp 18 216591 73 0 S0 S2967 S2968 run2967 seg2967
theorem run2969 : runSeg 18 216737 0 S0 = (S2969, true) := runSeg_comp 18 216664 73 0 S0 S2968 S2969 run2968 seg2968
theorem run2970 : runSeg 18 216810 0 S0 = (S2970, true) := runSeg_comp 18 216737 73 0 S0 S2969 S2970 run2969 seg2969
theorem run2971 : runSeg 18 216883 0 S0 = (S2971, true) := runSeg_comp 18 216810 73 0 S0 S2970 S2971 run2970 seg2970
theorem run2972 : runSeg 18 216956 0 S0 = (S2972, true) := runSeg_comp 18 216883 73 0 S0 S2971 S2972 run2971 seg2971
theorem run2973 : runSeg 18 217029 0 S0 = (S2973, true) := runSeg_comp 18 216956 73 0 S0 S2972 S2973 run2972 seg2972
theorem run2974 : runSeg 18 217102 0 S0 = (S2974, true) := runSeg_comp 18 217029 73 0 S0 S2973 S2974 run2973 seg2973
theorem run2975 : runSeg 18 217175 0 S0 = (S2975, true) := runSeg_comp 18 217102 73 0 S0 S2974 S2975 run2974 seg2974
theorem run2976 : runSeg 18 217248 0 S0 = (S2976, true) := runSeg_comp 18 217175 73 0 S0 S2975 S2976 run2975 seg2975
theorem run2977 : runSeg 18 217321 0 S0 = (S2977, true) := runSeg_comp 18 217248 73 0 S0 S2976 S2977 run2976 seg2976
theorem run2978 : runSeg 18 217394 0 S0 = (S2978, true) := runSeg_comp 18 217321 73 0 S0 S2977 S2978 run2977 seg2977
theorem run2979 : runSeg 18 217467 0 S0 = (S2979, true) := runSeg_comp 18 217394 73 0 S0 S2978 S2979 run2978 seg2978
theorem run2980 : runSeg 18 217540 0 S0 = (S2980, true) := runSeg_comp 18 217467 73 0 S0 S2979 S2980 run2979 seg2979
theorem run2981 : runSeg 18 217613 0 S0 = (S2981, true) := runSeg_comp 18 217540 73 0 S0 S2980 S2981 run2980 seg2980
theorem run2982 : runSeg 18 217686 0 S0 = (S2982, true) := runSeg_comp 18 217613 73 0 S0 S2981 S2982 run2981 seg2981
theorem run2983 : runSeg 18 217759 0 S0 = (S2983, true) := runSeg_comp 18 217686 73 0 S0 S2982 S2983 run2982 seg2982
theorem run2984 : runSeg 18 217832 0 S0 = (S2984, true) := runSeg_comp 18 217759 73 0 S0 S2983 S2984 run2983 seg2983
theorem run2985 : runSeg 18 217905 0 S0 = (S2985, true) := runSeg_comp 18 217832 73 0 S0 S2984 S2985 run2984 seg2984
theorem run2986 : runSeg 18 217978 0 S0 = (S2986, true) := runSeg_comp 18 217905 73 0 S0 S2985 S2986 run2985 seg2985
theorem run2987 : runSeg 18 218051 0 S0 = (S2987, true) := runSeg_comp 18 217978 73 0 S0 S2986 S2987 run2986 seg2986
theorem run2988 : runSeg 18 218124 0 S0 = (S2988, true) := runSeg_comp 18 218051 73 0 S0 S2987 S2988 run2987 seg2987
theorem run2989 : runSeg 18 218197 0 S0 = (S2989, true) := runSeg_comp 18 218124 73 0 S0 S2988 S2989 run2988 seg2988
theorem run2990 : runSeg 18 218270 0 S0 = (S2990, true) := runSeg_comp 18 218197 73 0 S0 S2989 S2990 run2989 seg2989
theorem run2991 : runSeg 18 218343 0 S0 = (S2991, true) := runSeg_comp 18 218270 73 0 S0 S2990 S2991 run2990 seg2990
theorem run2992 : runSeg 18 218416 0 S0 = (S2992, true) := runSeg_comp 18 218343 73 0 S0 S2991 S2992 run2991 seg2991
theorem run2993 : runSeg 18 218489 0 S0 = (S2993, true) := runSeg_comp 18 218416 73 0 S0 S2992 S2993 run2992 seg2992
theorem run2994 : runSeg 18 218562 0 S0 = (S2994, true) := runSeg_comp 18 218489 73 0 S0 S2993 S2994 run2993 seg2993
theorem run2995 : runSeg 18 218635 0 S0 = (S2995, true) := runSeg_comp 18 218562 73 0 S0 S2994 S2995 run2994 seg2994
theorem run2996 : runSeg 18 218708 0 S0 = (S2996, true) := runSeg_comp 18 218635 73 0 S0 S2995 S2996 run2995 seg2995
theorem run2997 : runSeg 18 218781 0 S0 = (S2997, true) := runSeg_comp 18 218708 73 0 S0 S2996 S2997 run2996 seg2996
theorem run2998 : runSeg 18 218854 0 S0 = (S2998, true) := runSeg_comp 18 218781 73 0 S0 S2997 S2998 run2997 seg2997
theorem run2999 : runSeg 18 218927 0 S0 = (S2999, true) := runSeg_comp 18 218854 73 0 S0 S2998 S2999 run2998 seg2998
theorem run3000 : runSeg 18 219000 0 S0 = (S3000, true) := runSeg_comp 18 218927 73 0 S0 S2999 S3000 run2999 seg2999
theorem run3001 : runSeg 18 219073 0 S0 = (S3001, true) := runSeg_comp 18 219000 73 0 S0 S3000 S3001 run3000 seg3000
theorem run3002 : runSeg 18 219146 0 S0 = (S3002, true) := runSeg_comp 18 219073 73 0 S0 S3001 S3002 run3001 seg3001
theorem run3003 : runSeg 18 219219 0 S0 = (S3003, true) := runSeg_comp 18 219146 73 0 S0 S3002 S3003 run3002 seg3002
theorem run3004 : runSeg 18 219292 0 S0 = (S3004, true) := runSeg_comp 18 219219 73 0 S0 S3003 S3004 run3003 seg3003
theorem run3005 : runSeg 18 219365 0 S0 = (S3005, true) := runSeg_comp 18 219292 73 0 S0 S3004 S3005 run3004 seg3004
theorem run3006 : runSeg 18 219438 0 S0 = (S3006, true) := runSeg_comp 18 219365 73 0 S0 S3005 S3006 run3005 seg3005
theorem run3007 : runSeg 18 219511 0 S0 = (S3007, true) := runSeg_comp 18 219438 73 0 S0 S3006 S3007 run3006 seg3006
theorem run3008 : runSeg 18 219584 0 S0 = (S3008, true) := runSeg_comp 18 219511 73 0 S0 S3007 S3008 run3007 seg3007
theorem run3009 : runSeg 18 219657 0 S0 = (S3009, true) := runSeg_comp 18 219584 73 0 S0 S3008 S3009 run3008 seg3008
theorem run3010 : runSeg 18 219730 0 S0 = (S3010, true) := runSeg_comp 18 219657 73 0 S0 S3009 S3010 run3009 seg3009
theorem run3011 : runSeg 18 219803 0 S0 = (S3011, true) := runSeg_comp 18 219730 73 0 S0 S3010 S3011 run3010 seg3010
theorem run3012 : runSeg 18 219876 0 S0 = (S3012, true) := runSeg_comp 18 219803 73 0 S0 S3011 S3012 run3011 seg3011
theorem run3013 : runSeg 18 219949 0 S0 = (S3013, true) := runSeg_comp 18 219876 73 0 S0 S3012 S3013 run3012 seg3012
theorem run3014 : runSeg 18 220022 0 S0 = (S3014, true) := runSeg_comp 18 219949 73 0 S0 S3013 S3014 run3013 seg3013
theorem run3015 : runSeg 18 220095 0 S0 = (S3015, true) := runSeg_comp 18 220022 73 0 S0 S3014 S3015 run3014 seg3014
theorem run3016 : runSeg 18 220168 0 S0 = (S3016, true) := runSeg_comp 18 220095 73 0 S0 S3015 S3016 run3015 seg3015
theorem run3017 : runSeg 18 220241 0 S0 = (S3017, true) := runSeg_comp 18 220168 73 0 S0 S3016 S3017 run3016 seg3016
theorem run3018 : runSeg 18 220314 0 S0 = (S3018, true) := runSeg_comp 18 220241 73 0 S0 S3017 S3018 run3017 seg3017
theorem run3019 : runSeg 18 220387 0 S0 = (S3019, true) := runSeg_comp 18 220314 73 0 S0 S3018 S3019 run3018 seg3018
theorem run3020 : runSeg 18 220460 0 S0 = (S3020, true) := runSeg_comp 18 220387 73 0 S0 S3019 S3020 run3019 seg3019
theorem run3021 : runSeg 18 220533 0 S0 = (S3021, true) := runSeg_comp 18 220460 73 0 S0 S3020 S3021 run3020 seg3020
theorem run3022 : runSeg 18 220606 0 S0 = (S3022, true) := runSeg_comp 18 220533 73 0 S0 S3021 S3022 run3021 seg3021
theorem run3023 : runSeg 18 220679 0 S0 = (S3023, true) := runSeg_comp 18 220606 73 0 S0 S3022 S3023 run3022 seg3022
theorem run3024 : runSeg 18 220752 0 S0 = (S3024, true) := runSeg_comp 18 220679 73 0 S0 S3023 S3024 run3023 seg3023
theorem run3025 : runSeg 18 220825 0 S0 = (S3025, true) := runSeg_comp 18 220752 73 0 S0 S3024 S3025 run3024 seg3024
theorem run3026 : runSeg 18 220898 0 S0 = (S3026, true) := runSeg_comp 18 220825 73 0 S0 S3025 S3026 run3025 seg3025
theorem run3027 : runSeg 18 220971 0 S0 = (S3027, true) := runSeg_comp 18 220898 73 0 S0 S3026 S3027 run3026 seg3026
theorem run3028 : runSeg 18 221044 0 S0 = (S3028, true) := runSeg_comp 18 220971 73 0 S0 S3027 S3028 run3027 seg3027
theorem run3029 : runSeg 18 221117 0 S0 = (S3029, true) := runSeg_comp 18 221044 73 0 S0 S3028 S3029 run3028 seg3028
theorem run3030 : runSeg 18 221190 0 S0 = (S3030, true) := runSeg_comp 18 221117 73 0 S0 S3029 S3030 run3029 seg3029
theorem run3031 : runSeg 18 221263 0 S0 = (S3031, true) := runSeg_comp 18 221190 73 0 S0 S3030 S3031 run3030 seg3030
theorem run3032 : runSeg 18 221336 0 S0 = (S3032, true) := runSeg_comp 18 221263 73 0 S0 S3031 S3032 run3031 seg3031
theorem run3033 : runSeg 18 221409 0 S0 = (S3033, true) := runSeg_comp 18 221336 73 0 S0 S3032 S3033 run3032 seg3032
theorem run3034 : runSeg 18 221482 0 S0 = (S3034, true) := runSeg_comp 18 221409 73 0 S0 S3033 S3034 run3033 seg3033
theorem run3035 : runSeg 18 221555 0 S0 = (S3035, true) := runSeg_comp 18 221482 73 0 S0 S3034 S3035 run3034 seg3034
theorem run3036 : runSeg 18 221628 0 S0 = (S3036, true) := runSeg_comp 18 221555 73 0 S0 S3035 S3036 run3035 seg3035
theorem run3037 : runSeg 18 221701 0 S0 = (S3037, true) := runSeg_comp 18 221628 73 0 S0 S3036 S3037 run3036 seg3036
theorem run3038 : runSeg 18 221774 0 S0 = (S3038, true) := runSeg_comp 18 221701 73 0 S0 S3037 S3038 run3037 seg3037
theorem run3039 : runSeg 18 221847 0 S0 = (S3039, true) := runSeg_comp 18 221774 73 0 S0 S3038 S3039 run3038 seg3038
theorem run3040 : runSeg 18 221920 0 S0 = (S3040, true) := runSeg_comp 18 221847 73 0 S0 S3039 S3040 run3039 seg3039
theorem run3041 : runSeg 18 221993 0 S0 = (S3041, true) := runSeg_comp 18 221920 73 0 S0 S3040 S3041 run3040 seg3040
theorem run3042 : runSeg 18 222066 0 S0 = (S3042, true) := runSeg_comp 18 221993 73 0 S0 S3041 S3042 run3041 seg3041
theorem run3043 : runSeg 18 222139 0 S0 = (S3043, true) := runSeg_comp 18 222066 73 0 S0 S3042 S3043 run3042 seg3042
theorem run3044 : runSeg 18 222212 0 S0 = (S3044, true) := runSeg_comp 18 222139 73 0 S0 S3043 S3044 run3043 seg3043
theorem run3045 : runSeg 18 222285 0 S0 = (S3045, true) := runSeg_comp 18 222212 73 0 S0 S3044 S3045 run3044 seg3044
theorem run3046 : runSeg 18 222358 0 S0 = (S3046, true) := runSeg_comp 18 222285 73 0 S0 S3045 S3046 run3045 seg3045
theorem run3047 : runSeg 18 222431 0 S0 = (S3047, true) := runSeg_comp 18 222358 73 0 S0 S3046 S3047 run3046 seg3046
theorem run3048 : runSeg 18 222504 0 S0 = (S3048, true) := runSeg_comp 18 222431 73 0 S0 S3047 S3048 run3047 seg3047
theorem run3049 : runSeg 18 222577 0 S0 = (S3049, true) := runSeg_comp 18 222504 73 0 S0 S3048 S3049 run3048 seg3048
theorem run3050 : runSeg 18 222650 0 S0 = (S3050, true) := runSeg_comp 18 222577 73 0 S0 S3049 S3050 run3049 seg3049
theorem run3051 : runSeg 18 222723 0 S0 = (S3051, true) := runSeg_comp 18 222650 73 0 S0 S3050 S3051 run3050 seg3050
theorem run3052 : runSeg 18 222796 0 S0 = (S3052, true) := runSeg_comp 18 222723 73 0 S0 S3051 S3052 run3051 seg3051
theorem run3053 : runSeg 18 222869 0 S0 = (S3053, true) := runSeg_comp 18 222796 73 0 S0 S3052 S3053 run3052 seg3052
theorem run3054 : runSeg 18 222942 0 S0 = (S3054, true) := runSeg_comp 18 222869 73 0 S0 S3053 S3054 run3053 seg3053
theorem run3055 : runSeg 18 223015 0 S0 = (S3055, true) := runSeg_comp 18 222942 73 0 S0 S3054 S3055 run3054 seg3054
theorem run3056 : runSeg 18 223088 0 S0 = (S3056, true) := runSeg_comp 18 223015 73 0 S0 S3055 S3056 run3055 seg3055
theorem run3057 : runSeg 18 223161 0 S0 = (S3057, true) := runSeg_comp 18 223088 73 0 S0 S3056 S3057 run3056 seg3056
theorem run3058 : runSeg 18 223234 0 S0 = (S3058, true) := runSeg_comp 18 223161 73 0 S0 S3057 S3058 run3057 seg3057
theorem run3059 : runSeg 18 223307 0 S0 = (S3059, true) := runSeg_comp 18 223234 73 0 S0 S3058 S3059 run3058 seg3058
theorem run3060 : runSeg 18 223380 0 S0 = (S3060, true) := runSeg_comp 18 223307 73 0 S0 S3059 S3060 run3059 seg3059
theorem run3061 : runSeg 18 223453 0 S0 = (S3061, true) := runSeg_comp 18 223380 73 0 S0 S3060 S3061 run3060 seg3060
theorem run3062 : runSeg 18 223526 0 S0 = (S3062, true) := runSeg_comp 18 223453 73 0 S0 S3061 S3062 run3061 seg3061
theorem run3063 : runSeg 18 223599 0 S0 = (S3063, true) := runSeg_comp 18 223526 73 0 S0 S3062 S3063 run3062 seg3062
theorem run3064 : runSeg 18 223672 0 S0 = (S3064, true) := runSeg_comp 18 223599 73 0 S0 S3063 S3064 run3063 seg3063
theorem run3065 : runSeg 18 223745 0 S0 = (S3065, true) := runSeg_comp 18 223672 73 0 S0 S3064 S3065 run3064 seg3064
theorem run3066 : runSeg 18 223818 0 S0 = (S3066, true) := runSeg_comp 18 223745 73 0 S0 S3065 S3066 run3065 seg3065
theorem run3067 : runSeg 18 223891 0 S0 = (S3067, true) := runSeg_comp 18 223818 73 0 S0 S3066 S3067 run3066 seg3066
theorem run3068 : runSeg 18 223964 0 S0 = (S3068, true) := runSeg_comp 18 223891 73 0 S0 S3067 S3068 run3067 seg3067
theorem run3069 : runSeg 18 224037 0 S0 = (S3069, true) := runSeg_comp 18 223964 73 0 S0 S3068 S3069 run3068 seg3068
theorem run3070 : runSeg 18 224110 0 S0 = (S3070, true) := runSeg_comp 18 224037 73 0 S0 S3069 S3070 run3069 seg3069
theorem run3071 : runSeg 18 224183 0 S0 = (S3071, true) := runSeg_comp 18 224110 73 0 S0 S3070 S3071 run3070 seg3070
theorem run3072 : runSeg 18 224256 0 S0 = (S3072, true) := runSeg_comp 18 224183 73 0 S0 S3071 S3072 run3071 seg3071
theorem run3073 : runSeg 18 224329 0 S0 = (S3073, true) := runSeg_comp 18 224256 73 0 S0 S3072 S3073 run3072 seg3072
theorem run3074 : runSeg 18 224402 0 S0 = (S3074, true) := runSeg_comp 18 224329 73 0 S0 S3073 S3074 run3073 seg3073
theorem run3075 : runSeg 18 224475 0 S0 = (S3075, true) := runSeg_comp 18 224402 73 0 S0 S3074 S3075 run3074 seg3074
theorem run3076 : runSeg 18 224548 0 S0 = (S3076, true) := runSeg_comp 18 224475 73 0 S0 S3075 S3076 run3075 seg3075
theorem run3077 : runSeg 18 224621 0 S0 = (S3077, true) := runSeg_comp 18 224548 73 0 S0 S3076 S3077 run3076 seg3076
theorem run3078 : runSeg 18 224694 0 S0 = (S3078, true) := runSeg_comp 18 224621 73 0 S0 S3077 S3078 run3077 seg3077
theorem run3079 : runSeg 18 224767 0 S0 = (S3079, true) := runSeg_comp 18 224694 73 0 S0 S3078 S3079 run3078 seg3078
theorem run3080 : runSeg 18 224840 0 S0 = (S3080, true) := runSeg_comp 18 224767 73 0 S0 S3079 S3080 run3079 seg3079
theorem run3081 : runSeg 18 224913 0 S0 = (S3081, true) := runSeg_comp 18 224840 73 0 S0 S3080 S3081 run3080 seg3080
theorem run3082 : runSeg 18 224986 0 S0 = (S3082, true) := runSeg_comp 18 224913 73 0 S0 S3081 S3082 run3081 seg3081
theorem run3083 : runSeg 18 225059 0 S0 = (S3083, true) := runSeg_comp 18 224986 73 0 S0 S3082 S3083 run3082 seg3082
theorem run3084 : runSeg 18 225132 0 S0 = (S3084, true) := runSeg_comp 18 225059 73 0 S0 S3083 S3084 run3083 seg3083
theorem run3085 : runSeg 18 225205 0 S0 = (S3085, true) := runSeg_comp 18 225132 73 0 S0 S3084 S3085 run3084 seg3084
theorem run3086 : runSeg 18 225278 0 S0 = (S3086, true) := runSeg_comp 18 225205 73 0 S0 S3085 S3086 run3085 seg3085
theorem run3087 : runSeg 18 225351 0 S0 = (S3087, true) := runSeg_comp 18 225278 73 0 S0 S3086 S3087 run3086 seg3086
theorem run3088 : runSeg 18 225424 0 S0 = (S3088, true) := runSeg_comp 18 225351 73 0 S0 S3087 S3088 run3087 seg3087
theorem run3089 : runSeg 18 225497 0 S0 = (S3089, true) := runSeg_comp 18 225424 73 0 S0 S3088 S3089 run3088 seg3088
theorem run3090 : runSeg 18 225570 0 S0 = (S3090, true) := runSeg_comp 18 225497 73 0 S0 S3089 S3090 run3089 seg3089
theorem run3091 : runSeg 18 225643 0 S0 = (S3091, true) := runSeg_comp 18 225570 73 0 S0 S3090 S3091 run3090 seg3090
theorem run3092 : runSeg 18 225716 0 S0 = (S3092, true) := runSeg_comp 18 225643 73 0 S0 S3091 S3092 run3091 seg3091
theorem run3093 : runSeg 18 225789 0 S0 = (S3093, true) := runSeg_comp 18 225716 73 0 S0 S3092 S3093 run3092 seg3092
theorem run3094 : runSeg 18 225862 0 S0 = (S3094, true) := runSeg_comp 18 225789 73 0 S0 S3093 S3094 run3093 seg3093
theorem run3095 : runSeg 18 225935 0 S0 = (S3095, true) := runSeg_comp 18 225862 73 0 S0 S3094 S3095 run3094 seg3094
theorem run3096 : runSeg 18 226008 0 S0 = (S3096, true) := runSeg_comp 18 225935 73 0 S0 S3095 S3096 run3095 seg3095
theorem run3097 : runSeg 18 226081 0 S0 = (S3097, true) := runSeg_comp 18 226008 73 0 S0 S3096 S3097 run3096 seg3096
theorem run3098 : runSeg 18 226154 0 S0 = (S3098, true) := runSeg_comp 18 226081 73 0 S0 S3097 S3098 run3097 seg3097
theorem run3099 : runSeg 18 226227 0 S0 = (S3099, true) := runSeg_comp 18 226154 73 0 S0 S3098 S3099 run3098 seg3098
theorem run3100 : runSeg 18 226300 0 S0 = (S3100, true) := runSeg_comp 18 226227 73 0 S0 S3099 S3100 run3099 seg3099
theorem run3101 : runSeg 18 226373 0 S0 = (S3101, true) := runSeg_comp 18 226300 73 0 S0 S3100 S3101 run3100 seg3100
theorem run3102 : runSeg 18 226446 0 S0 = (S3102, true) := runSeg_comp 18 226373 73 0 S0 S3101 S3102 run3101 seg3101
theorem run3103 : runSeg 18 226519 0 S0 = (S3103, true) := runSeg_comp 18 226446 73 0 S0 S3102 S3103 run3102 seg3102
theorem run3104 : runSeg 18 226592 0 S0 = (S3104, true) := runSeg_comp 18 226519 73 0 S0 S3103 S3104 run3103 seg3103
theorem run3105 : runSeg 18 226665 0 S0 = (S3105, true) := runSeg_comp 18 226592 73 0 S0 S3104 S3105 run3104 seg3104
theorem run3106 : runSeg 18 226738 0 S0 = (S3106, true) := runSeg_comp 18 226665 73 0 S0 S3105 S3106 run3105 seg3105
theorem run3107 : runSeg 18 226811 0 S0 = (S3107, true) := runSeg_comp 18 226738 73 0 S0 S3106 S3107 run3106 seg3106
theorem run3108 : runSeg 18 226884 0 S0 = (S3108, true) := runSeg_comp 18 226811 73 0 S0 S3107 S3108 run3107 seg3107
theorem run3109 : runSeg 18 226957 0 S0 = (S3109, true) := runSeg_comp 18 226884 73 0 S0 S3108 S3109 run3108 seg3108
theorem run3110 : runSeg 18 227030 0 S0 = (S3110, true) := runSeg_comp 18 226957 73 0 S0 S3109 S3110 run3109 seg3109
theorem run3111 : runSeg 18 227103 0 S0 = (S3111, true) := runSeg_comp 18 227030 73 0 S0 S3110 S3111 run3110 seg3110
theorem run3112 : runSeg 18 227176 0 S0 = (S3112, true) := runSeg_comp 18 227103 73 0 S0 S3111 S3112 run3111 seg3111
theorem run3113 : runSeg 18 227249 0 S0 = (S3113, true) := runSeg_comp 18 227176 73 0 S0 S3112 S3113 run3112 seg3112
theorem run3114 : runSeg 18 227322 0 S0 = (S3114, true) := runSeg_comp 18 227249 73 0 S0 S3113 S3114 run3113 seg3113
theorem run3115 : runSeg 18 227395 0 S0 = (S3115, true) := runSeg_comp 18 227322 73 0 S0 S3114 S3115 run3114 seg3114
theorem run3116 : runSeg 18 227468 0 S0 = (S3116, true) := runSeg_comp 18 227395 73 0 S0 S3115 S3116 run3115 seg3115
theorem run3117 : runSeg 18 227541 0 S0 = (S3117, true) := runSeg_comp 18 227468 73 0 S0 S3116 S3117 run3116 seg3116
theorem run3118 : runSeg 18 227614 0 S0 = (S3118, true) := runSeg_comp 18 227541 73 0 S0 S3117 S3118 run3117 seg3117
theorem run3119 : runSeg 18 227687 0 S0 = (S3119, true) := runSeg_comp 18 227614 73 0 S0 S3118 S3119 run3118 seg3118
theorem run3120 : runSeg 18 227760 0 S0 = (S3120, true) := runSeg_comp 18 227687 73 0 S0 S3119 S3120 run3119 seg3119
theorem run3121 : runSeg 18 227833 0 S0 = (S3121, true) := runSeg_comp 18 227760 73 0 S0 S3120 S3121 run3120 seg3120
theorem run3122 : runSeg 18 227906 0 S0 = (S3122, true) := runSeg_comp 18 227833 73 0 S0 S3121 S3122 run3121 seg3121
theorem run3123 : runSeg 18 227979 0 S0 = (S3123, true) := runSeg_comp 18 227906 73 0 S0 S3122 S3123 run3122 seg3122
theorem run3124 : runSeg 18 228052 0 S0 = (S3124, true) := runSeg_comp 18 227979 73 0 S0 S3123 S3124 run3123 seg3123
theorem run3125 : runSeg 18 228125 0 S0 = (S3125, true) := runSeg_comp 18 228052 73 0 S0 S3124 S3125 run3124 seg3124
theorem run3126 : runSeg 18 228198 0 S0 = (S3126, true) := runSeg_comp 18 228125 73 0 S0 S3125 S3126 run3125 seg3125
theorem run3127 : runSeg 18 228271 0 S0 = (S3127, true) := runSeg_comp 18 228198 73 0 S0 S3126 S3127 run3126 seg3126
theorem run3128 : runSeg 18 228344 0 S0 = (S3128, true) := runSeg_comp 18 228271 73 0 S0 S3127 S3128 run3127 seg3127
theorem run3129 : runSeg 18 228417 0 S0 = (S3129, true) := runSeg_comp 18 228344 73 0 S0 S3128 S3129 run3128 seg3128
theorem run3130 : runSeg 18 228490 0 S0 = (S3130, true) := runSeg_comp 18 228417 73 0 S0 S3129 S3130 run3129 seg3129
theorem run3131 : runSeg 18 228563 0 S0 = (S3131, true) := runSeg_comp 18 228490 73 0 S0 S3130 S3131 run3130 seg3130
theorem run3132 : runSeg 18 228636 0 S0 = (S3132, true) := runSeg_comp 18 228563 73 0 S0 S3131 S3132 run3131 seg3131
theorem run3133 : runSeg 18 228709 0 S0 = (S3133, true) := runSeg_comp 18 228636 73 0 S0 S3132 S3133 run3132 seg3132
theorem run3134 : runSeg 18 228782 0 S0 = (S3134, true) := runSeg_comp 18 228709 73 0 S0 S3133 S3134 run3133 seg3133
theorem run3135 : runSeg 18 228855 0 S0 = (S3135, true) := runSeg_comp 18 228782 73 0 S0 S3134 S3135 run3134 seg3134
theorem run3136 : runSeg 18 228928 0 S0 = (S3136, true) := runSeg_comp 18 228855 73 0 S0 S3135 S3136 run3135 seg3135
theorem run3137 : runSeg 18 229001 0 S0 = (S3137, true) := runSeg_comp 18 228928 73 0 S0 S3136 S3137 run3136 seg3136
theorem run3138 : runSeg 18 229074 0 S0 = (S3138, true) := runSeg_comp 18 229001 73 0 S0 S3137 S3138 run3137 seg3137
theorem run3139 : runSeg 18 229147 0 S0 = (S3139, true) := runSeg_comp 18 229074 73 0 S0 S3138 S3139 run3138 seg3138
theorem run3140 : runSeg 18 229220 0 S0 = (S3140, true) := runSeg_comp 18 229147 73 0 S0 S3139 S3140 run3139 seg3139
theorem run3141 : runSeg 18 229293 0 S0 = (S3141, true) := runSeg_comp 18 229220 73 0 S0 S3140 S3141 run3140 seg3140
theorem run3142 : runSeg 18 229366 0 S0 = (S3142, true) := runSeg_comp 18 229293 73 0 S0 S3141 S3142 run3141 seg3141
theorem run3143 : runSeg 18 229439 0 S0 = (S3143, true) := runSeg_comp 18 229366 73 0 S0 S3142 S3143 run3142 seg3142
theorem run3144 : runSeg 18 229512 0 S0 = (S3144, true) := runSeg_comp 18 229439 73 0 S0 S3143 S3144 run3143 seg3143
theorem run3145 : runSeg 18 229585 0 S0 = (S3145, true) := runSeg_comp 18 229512 73 0 S0 S3144 S3145 run3144 seg3144
theorem run3146 : runSeg 18 229658 0 S0 = (S3146, true) := runSeg_comp 18 229585 73 0 S0 S3145 S3146 run3145 seg3145
theorem run3147 : runSeg 18 229731 0 S0 = (S3147, true) := runSeg_comp 18 229658 73 0 S0 S3146 S3147 run3146 seg3146
theorem run3148 : runSeg 18 229804 0 S0 = (S3148, true) := runSeg_comp 18 229731 73 0 S0 S3147 S3148 run3147 seg3147
theorem run3149 : runSeg 18 229877 0 S0 = (S3149, true) := runSeg_comp 18 229804 73 0 S0 S3148 S3149 run3148 seg3148
theorem run3150 : runSeg 18 229950 0 S0 = (S3150, true) := runSeg_comp 18 229877 73 0 S0 S3149 S3150 run3149 seg3149
theorem run3151 : runSeg 18 230023 0 S0 = (S3151, true) := runSeg_comp 18 229950 73 0 S0 S3150 S3151 run3150 seg3150
theorem run3152 : runSeg 18 230096 0 S0 = (S3152, true) := runSeg_comp 18 230023 73 0 S0 S3151 S3152 run3151 seg3151
theorem run3153 : runSeg 18 230169 0 S0 = (S3153, true) := runSeg_comp 18 230096 73 0 S0 S3152 S3153 run3152 seg3152
theorem run3154 : runSeg 18 230242 0 S0 = (S3154, true) := runSeg_comp 18 230169 73 0 S0 S3153 S3154 run3153 seg3153
theorem run3155 : runSeg 18 230315 0 S0 = (S3155, true) := runSeg_comp 18 230242 73 0 S0 S3154 S3155 run3154 seg3154
theorem run3156 : runSeg 18 230388 0 S0 = (S3156, true) := runSeg_comp 18 230315 73 0 S0 S3155 S3156 run3155 seg3155
theorem run3157 : runSeg 18 230461 0 S0 = (S3157, true) := runSeg_comp 18 230388 73 0 S0 S3156 S3157 run3156 seg3156
theorem run3158 : runSeg 18 230534 0 S0 = (S3158, true) := runSeg_comp 18 230461 73 0 S0 S3157 S3158 run3157 seg3157
theorem run3159 : runSeg 18 230607 0 S0 = (S3159, true) := runSeg_comp 18 230534 73 0 S0 S3158 S3159 run3158 seg3158
theorem run3160 : runSeg 18 230680 0 S0 = (S3160, true) := runSeg_comp 18 230607 73 0 S0 S3159 S3160 run3159 seg3159
theorem run3161 : runSeg 18 230753 0 S0 = (S3161, true) := runSeg_comp 18 230680 73 0 S0 S3160 S3161 run3160 seg3160
theorem run3162 : runSeg 18 230826 0 S0 = (S3162, true) := runSeg_comp 18 230753 73 0 S0 S3161 S3162 run3161 seg3161
theorem run3163 : runSeg 18 230899 0 S0 = (S3163, true) := runSeg_comp 18 230826 73 0 S0 S3162 S3163 run3162 seg3162
theorem run3164 : runSeg 18 230972 0 S0 = (S3164, true) := runSeg_comp 18 230899 73 0 S0 S3163 S3164 run3163 seg3163
theorem run3165 : runSeg 18 231045 0 S0 = (S3165, true) := runSeg_comp 18 230972 73 0 S0 S3164 S3165 run3164 seg3164
theorem run3166 : runSeg 18 231118 0 S0 = (S3166, true) := runSeg_comp 18 231045 73 0 S0 S3165 S3166 run3165 seg3165
theorem run3167 : runSeg 18 231191 0 S0 = (S3167, true) := runSeg_comp 18 231118 73 0 S0 S3166 S3167 run3166 seg3166
theorem run3168 : runSeg 18 231264 0 S0 = (S3168, true) := runSeg_comp 18 231191 73 0 S0 S3167 S3168 run3167 seg3167
theorem run3169 : runSeg 18 231337 0 S0 = (S3169, true) := runSeg_comp 18 231264 73 0 S0 S3168 S3169 run3168 seg3168
theorem run3170 : runSeg 18 231410 0 S0 = (S3170, true) := runSeg_comp 18 231337 73 0 S0 S3169 S3170 run3169 seg3169
theorem run3171 : runSeg 18 231483 0 S0 = (S3171, true) := runSeg_comp 18 231410 73 0 S0 S3170 S3171 run3170 seg3170
theorem run3172 : runSeg 18 231556 0 S0 = (S3172, true) := runSeg_comp 18 231483 73 0 S0 S3171 S3172 run3171 seg3171
theorem run3173 : runSeg 18 231629 0 S0 = (S3173, true) := runSeg_comp 18 231556 73 0 S0 S3172 S3173 run3172 seg3172
theorem run3174 : runSeg 18 231702 0 S0 = (S3174, true) := runSeg_comp 18 231629 73 0 S0 S3173 S3174 run3173 seg3173
theorem run3175 : runSeg 18 231775 0 S0 = (S3175, true) := runSeg_comp 18 231702 73 0 S0 S3174 S3175 run3174 seg3174
theorem run3176 : runSeg 18 231848 0 S0 = (S3176, true) := runSeg_comp 18 231775 73 0 S0 S3175 S3176 run3175 seg3175
theorem run3177 : runSeg 18 231921 0 S0 = (S3177, true) := runSeg_comp 18 231848 73 0 S0 S3176 S3177 run3176 seg3176
theorem run3178 : runSeg 18 231994 0 S0 = (S3178, true) := runSeg_comp 18 231921 73 0 S0 S3177 S3178 run3177 seg3177
theorem run3179 : runSeg 18 232067 0 S0 = (S3179, true) := runSeg_comp 18 231994 73 0 S0 S3178 S3179 run3178 seg3178
theorem run3180 : runSeg 18 232140 0 S0 = (S3180, true) := runSeg_comp 18 232067 73 0 S0 S3179 S3180 run3179 seg3179
theorem run3181 : runSeg 18 232213 0 S0 = (S3181, true) := runSeg_comp 18 232140 73 0 S0 S3180 S3181 run3180 seg3180
theorem run3182 : runSeg 18 232286 0 S0 = (S3182, true) := runSeg_comp 18 232213 73 0 S0 S3181 S3182 run3181 seg3181
theorem run3183 : runSeg 18 232359 0 S0 = (S3183, true) := runSeg_comp 18 232286 73 0 S0 S3182 S3183 run3182 seg3182
theorem run3184 : runSeg 18 232432 0 S0 = (S3184, true) := runSeg_comp 18 232359 73 0 S0 S3183 S3184 run3183 seg3183
theorem run3185 : runSeg 18 232505 0 S0 = (S3185, true) := runSeg_comp 18 232432 73 0 S0 S3184 S3185 run3184 seg3184
theorem run3186 : runSeg 18 232578 0 S0 = (S3186, true) := runSeg_comp 18 232505 73 0 S0 S3185 S3186 run3185 seg3185
theorem run3187 : runSeg 18 232651 0 S0 = (S3187, true) := runSeg_comp 18 232578 73 0 S0 S3186 S3187 run3186 seg3186
theorem run3188 : runSeg 18 232724 0 S0 = (S3188, true) := runSeg_comp 18 232651 73 0 S0 S3187 S3188 run3187 seg3187
theorem run3189 : runSeg 18 232797 0 S0 = (S3189, true) := runSeg_comp 18 232724 73 0 S0 S3188 S3189 run3188 seg3188
theorem run3190 : runSeg 18 232870 0 S0 = (S3190, true) := runSeg_comp 18 232797 73 0 S0 S3189 S3190 run3189 seg3189
theorem run3191 : runSeg 18 232943 0 S0 = (S3191, true) := runSeg_comp 18 232870 73 0 S0 S3190 S3191 run3190 seg3190
theorem run3192 : runSeg 18 233016 0 S0 = (S3192, true) := runSeg_comp 18 232943 73 0 S0 S3191 S3192 run3191 seg3191
theorem run3193 : runSeg 18 233089 0 S0 = (S3193, true) := runSeg_comp 18 233016 73 0 S0 S3192 S3193 run3192 seg3192
theorem run3194 : runSeg 18 233162 0 S0 = (S3194, true) := runSeg_comp 18 233089 73 0 S0 S3193 S3194 run3193 seg3193
theorem run3195 : runSeg 18 233235 0 S0 = (S3195, true) := runSeg_comp 18 233162 73 0 S0 S3194 S3195 run3194 seg3194
theorem run3196 : runSeg 18 233308 0 S0 = (S3196, true) := runSeg_comp 18 233235 73 0 S0 S3195 S3196 run3195 seg3195
theorem run3197 : runSeg 18 233381 0 S0 = (S3197, true) := runSeg_comp 18 233308 73 0 S0 S3196 S3197 run3196 seg3196
theorem run3198 : runSeg 18 233454 0 S0 = (S3198, true) := runSeg_comp 18 233381 73 0 S0 S3197 S3198 run3197 seg3197
theorem run3199 : runSeg 18 233527 0 S0 = (S3199, true) := runSeg_comp 18 233454 73 0 S0 S3198 S3199 run3198 seg3198
theorem run3200 : runSeg 18 233600 0 S0 = (S3200, true) := runSeg_comp 18 233527 73 0 S0 S3199 S3200 run3199 seg3199
theorem run3201 : runSeg 18 233673 0 S0 = (S3201, true) := runSeg_comp 18 233600 73 0 S0 S3200 S3201 run3200 seg3200
theorem run3202 : runSeg 18 233746 0 S0 = (S3202, true) := runSeg_comp 18 233673 73 0 S0 S3201 S3202 run3201 seg3201
theorem run3203 : runSeg 18 233819 0 S0 = (S3203, true) := runSeg_comp 18 233746 73 0 S0 S3202 S3203 run3202 seg3202
theorem run3204 : runSeg 18 233892 0 S0 = (S3204, true) := runSeg_comp 18 233819 73 0 S0 S3203 S3204 run3203 seg3203
theorem run3205 : runSeg 18 233965 0 S0 = (S3205, true) := runSeg_comp 18 233892 73 0 S0 S3204 S3205 run3204 seg3204
theorem run3206 : runSeg 18 234038 0 S0 = (S3206, true) := runSeg_comp 18 233965 73 0 S0 S3205 S3206 run3205 seg3205
theorem run3207 : runSeg 18 234111 0 S0 = (S3207, true) := runSeg_comp 18 234038 73 0 S0 S3206 S3207 run3206 seg3206
theorem run3208 : runSeg 18 234184 0 S0 = (S3208, true) := runSeg_comp 18 234111 73 0 S0 S3207 S3208 run3207 seg3207
theorem run3209 : runSeg 18 234257 0 S0 = (S3209, true) := runSeg_comp 18 234184 73 0 S0 S3208 S3209 run3208 seg3208
theorem run3210 : runSeg 18 234330 0 S0 = (S3210, true) := runSeg_comp 18 234257 73 0 S0 S3209 S3210 run3209 seg3209
theorem run3211 : runSeg 18 234403 0 S0 = (S3211, true) := runSeg_comp 18 234330 73 0 S0 S3210 S3211 run3210 seg3210
theorem run3212 : runSeg 18 234476 0 S0 = (S3212, true) := runSeg_comp 18 234403 73 0 S0 S3211 S3212 run3211 seg3211
theorem run3213 : runSeg 18 234549 0 S0 = (S3213, true) := runSeg_comp 18 234476 73 0 S0 S3212 S3213 run3212 seg3212
theorem run3214 : runSeg 18 234622 0 S0 = (S3214, true) := runSeg_comp 18 234549 73 0 S0 S3213 S3214 run3213 seg3213
theorem run3215 : runSeg 18 234695 0 S0 = (S3215, true) := runSeg_comp 18 234622 73 0 S0 S3214 S3215 run3214 seg3214
theorem run3216 : runSeg 18 234768 0 S0 = (S3216, true) := runSeg_comp 18 234695 73 0 S0 S3215 S3216 run3215 seg3215
theorem run3217 : runSeg 18 234841 0 S0 = (S3217, true) := runSeg_comp 18 234768 73 0 S0 S3216 S3217 run3216 seg3216
theorem run3218 : runSeg 18 234914 0 S0 = (S3218, true) := runSeg_comp 18 234841 73 0 S0 S3217 S3218 run3217 seg3217
theorem run3219 : runSeg 18 234987 0 S0 = (S3219, true) := runSeg_comp 18 234914 73 0 S0 S3218 S3219 run3218 seg3218
theorem run3220 : runSeg 18 235060 0 S0 = (S3220, true) := runSeg_comp 18 234987 73 0 S0 S3219 S3220 run3219 seg3219
theorem run3221 : runSeg 18 235133 0 S0 = (S3221, true) := runSeg_comp 18 235060 73 0 S0 S3220 S3221 run3220 seg3220
theorem run3222 : runSeg 18 235206 0 S0 = (S3222, true) := runSeg_comp 18 235133 73 0 S0 S3221 S3222 run3221 seg3221
theorem run3223 : runSeg 18 235279 0 S0 = (S3223, true) := runSeg_comp 18 235206 73 0 S0 S3222 S3223 run3222 seg3222
theorem run3224 : runSeg 18 235352 0 S0 = (S3224, true) := runSeg_comp 18 235279 73 0 S0 S3223 S3224 run3223 seg3223
theorem run3225 : runSeg 18 235425 0 S0 = (S3225, true) := runSeg_comp 18 235352 73 0 S0 S3224 S3225 run3224 seg3224
theorem run3226 : runSeg 18 235498 0 S0 = (S3226, true) := runSeg_comp 18 235425 73 0 S0 S3225 S3226 run3225 seg3225
theorem run3227 : runSeg 18 235571 0 S0 = (S3227, true) := runSeg_comp 18 235498 73 0 S0 S3226 S3227 run3226 seg3226
theorem run3228 : runSeg 18 235644 0 S0 = (S3228, true) := runSeg_comp 18 235571 73 0 S0 S3227 S3228 run3227 seg3227
theorem run3229 : runSeg 18 235717 0 S0 = (S3229, true) := runSeg_comp 18 235644 73 0 S0 S3228 S3229 run3228 seg3228
theorem run3230 : runSeg 18 235790 0 S0 = (S3230, true) := runSeg_comp 18 235717 73 0 S0 S3229 S3230 run3229 seg3229
theorem run3231 : runSeg 18 235863 0 S0 = (S3231, true) := runSeg_comp 18 235790 73 0 S0 S3230 S3231 run3230 seg3230
theorem run3232 : runSeg 18 235936 0 S0 = (S3232, true) := runSeg_comp 18 235863 73 0 S0 S3231 S3232 run3231 seg3231
theorem run3233 : runSeg 18 236009 0 S0 = (S3233, true) := runSeg_comp 18 235936 73 0 S0 S3232 S3233 run3232 seg3232
theorem run3234 : runSeg 18 236082 0 S0 = (S3234, true) := runSeg_comp 18 236009 73 0 S0 S3233 S3234 run3233 seg3233
theorem run3235 : runSeg 18 236155 0 S0 = (S3235, true) := runSeg_comp 18 236082 73 0 S0 S3234 S3235 run3234 seg3234
theorem run3236 : runSeg 18 236228 0 S0 = (S3236, true) := runSeg_comp 18 236155 73 0 S0 S3235 S3236 run3235 seg3235
theorem run3237 : runSeg 18 236301 0 S0 = (S3237, true) := runSeg_comp 18 236228 73 0 S0 S3236 S3237 run3236 seg3236
theorem run3238 : runSeg 18 236374 0 S0 = (S3238, true) := runSeg_comp 18 236301 73 0 S0 S3237 S3238 run3237 seg3237
theorem run3239 : runSeg 18 236447 0 S0 = (S3239, true) := runSeg_comp 18 236374 73 0 S0 S3238 S3239 run3238 seg3238
theorem run3240 : runSeg 18 236520 0 S0 = (S3240, true) := runSeg_comp 18 236447 73 0 S0 S3239 S3240 run3239 seg3239
theorem run3241 : runSeg 18 236593 0 S0 = (S3241, true) := runSeg_comp 18 236520 73 0 S0 S3240 S3241 run3240 seg3240
theorem run3242 : runSeg 18 236666 0 S0 = (S3242, true) := runSeg_comp 18 236593 73 0 S0 S3241 S3242 run3241 seg3241
theorem run3243 : runSeg 18 236739 0 S0 = (S3243, true) := runSeg_comp 18 236666 73 0 S0 S3242 S3243 run3242 seg3242
theorem run3244 : runSeg 18 236812 0 S0 = (S3244, true) := runSeg_comp 18 236739 73 0 S0 S3243 S3244 run3243 seg3243
theorem run3245 : runSeg 18 236885 0 S0 = (S3245, true) := runSeg_comp 18 236812 73 0 S0 S3244 S3245 run3244 seg3244
theorem run3246 : runSeg 18 236958 0 S0 = (S3246, true) := runSeg_comp 18 236885 73 0 S0 S3245 S3246 run3245 seg3245
theorem run3247 : runSeg 18 237031 0 S0 = (S3247, true) := runSeg_comp 18 236958 73 0 S0 S3246 S3247 run3246 seg3246
theorem run3248 : runSeg 18 237104 0 S0 = (S3248, true) := runSeg_comp 18 237031 73 0 S0 S3247 S3248 run3247 seg3247
theorem run3249 : runSeg 18 237177 0 S0 = (S3249, true) := runSeg_comp 18 237104 73 0 S0 S3248 S3249 run3248 seg3248
theorem run3250 : runSeg 18 237250 0 S0 = (S3250, true) := runSeg_comp 18 237177 73 0 S0 S3249 S3250 run3249 seg3249
theorem run3251 : runSeg 18 237323 0 S0 = (S3251, true) := runSeg_comp 18 237250 73 0 S0 S3250 S3251 run3250 seg3250
theorem run3252 : runSeg 18 237396 0 S0 = (S3252, true) := runSeg_comp 18 237323 73 0 S0 S3251 S3252 run3251 seg3251
theorem run3253 : runSeg 18 237469 0 S0 = (S3253, true) := runSeg_comp 18 237396 73 0 S0 S3252 S3253 run3252 seg3252
theorem run3254 : runSeg 18 237542 0 S0 = (S3254, true) := runSeg_comp 18 237469 73 0 S0 S3253 S3254 run3253 seg3253
theorem run3255 : runSeg 18 237615 0 S0 = (S3255, true) := runSeg_comp 18 237542 73 0 S0 S3254 S3255 run3254 seg3254
theorem run3256 : runSeg 18 237688 0 S0 = (S3256, true) := runSeg_comp 18 237615 73 0 S0 S3255 S3256 run3255 seg3255
theorem run3257 : runSeg 18 237761 0 S0 = (S3257, true) := runSeg_comp 18 237688 73 0 S0 S3256 S3257 run3256 seg3256
theorem run3258 : runSeg 18 237834 0 S0 = (S3258, true) := runSeg_comp 18 237761 73 0 S0 S3257 S3258 run3257 seg3257
theorem run3259 : runSeg 18 237907 0 S0 = (S3259, true) := runSeg_comp 18 237834 73 0 S0 S3258 S3259 run3258 seg3258
theorem run3260 : runSeg 18 237980 0 S0 = (S3260, true) := runSeg_comp 18 237907 73 0 S0 S3259 S3260 run3259 seg3259
theorem run3261 : runSeg 18 238053 0 S0 = (S3261, true) := runSeg_comp 18 237980 73 0 S0 S3260 S3261 run3260 seg3260
theorem run3262 : runSeg 18 238126 0 S0 = (S3262, true) := runSeg_comp 18 238053 73 0 S0 S3261 S3262 run3261 seg3261
theorem run3263 : runSeg 18 238199 0 S0 = (S3263, true) := runSeg_comp 18 238126 73 0 S0 S3262 S3263 run3262 seg3262
theorem run3264 : runSeg 18 238272 0 S0 = (S3264, true) := runSeg_comp 18 238199 73 0 S0 S3263 S3264 run3263 seg3263
theorem run3265 : runSeg 18 238345 0 S0 = (S3265, true) := runSeg_comp 18 238272 73 0 S0 S3264 S3265 run3264 seg3264
theorem run3266 : runSeg 18 238418 0 S0 = (S3266, true) := runSeg_comp 18 238345 73 0 S0 S3265 S3266 run3265 seg3265
theorem run3267 : runSeg 18 238491 0 S0 = (S3267, true) := runSeg_comp 18 238418 73 0 S0 S3266 S3267 run3266 seg3266
theorem run3268 : runSeg 18 238564 0 S0 = (S3268, true) := runSeg_comp 18 238491 73 0 S0 S3267 S3268 run3267 seg3267
theorem run3269 : runSeg 18 238637 0 S0 = (S3269, true) := runSeg_comp 18 238564 73 0 S0 S3268 S3269 run3268 seg3268
theorem run3270 : runSeg 18 238710 0 S0 = (S3270, true) := runSeg_comp 18 238637 73 0 S0 S3269 S3270 run3269 seg3269
theorem run3271 : runSeg 18 238783 0 S0 = (S3271, true) := runSeg_comp 18 238710 73 0 S0 S3270 S3271 run3270 seg3270
theorem run3272 : runSeg 18 238856 0 S0 = (S3272, true) := runSeg_comp 18 238783 73 0 S0 S3271 S3272 run3271 seg3271
theorem run3273 : runSeg 18 238929 0 S0 = (S3273, true) := runSeg_comp 18 238856 73 0 S0 S3272 S3273 run3272 seg3272
theorem run3274 : runSeg 18 239002 0 S0 = (S3274, true) := runSeg_comp 18 238929 73 0 S0 S3273 S3274 run3273 seg3273
theorem run3275 : runSeg 18 239075 0 S0 = (S3275, true) := runSeg_comp 18 239002 73 0 S0 S3274 S3275 run3274 seg3274
theorem run3276 : runSeg 18 239148 0 S0 = (S3276, true) := runSeg_comp 18 239075 73 0 S0 S3275 S3276 run3275 seg3275
theorem run3277 : runSeg 18 239221 0 S0 = (S3277, true) := runSeg_comp 18 239148 73 0 S0 S3276 S3277 run3276 seg3276
theorem run3278 : runSeg 18 239294 0 S0 = (S3278, true) := runSeg_comp 18 239221 73 0 S0 S3277 S3278 run3277 seg3277
theorem run3279 : runSeg 18 239367 0 S0 = (S3279, true) := runSeg_comp 18 239294 73 0 S0 S3278 S3279 run3278 seg3278
theorem run3280 : runSeg 18 239440 0 S0 = (S3280, true) := runSeg_comp 18 239367 73 0 S0 S3279 S3280 run3279 seg3279
theorem run3281 : runSeg 18 239513 0 S0 = (S3281, true) := runSeg_comp 18 239440 73 0 S0 S3280 S3281 run3280 seg3280
theorem run3282 : runSeg 18 239586 0 S0 = (S3282, true) := runSeg_comp 18 239513 73 0 S0 S3281 S3282 run3281 seg3281
theorem run3283 : runSeg 18 239659 0 S0 = (S3283, true) := runSeg_comp 18 239586 73 0 S0 S3282 S3283 run3282 seg3282
theorem run3284 : runSeg 18 239732 0 S0 = (S3284, true) := runSeg_comp 18 239659 73 0 S0 S3283 S3284 run3283 seg3283
theorem run3285 : runSeg 18 239805 0 S0 = (S3285, true) := runSeg_comp 18 239732 73 0 S0 S3284 S3285 run3284 seg3284
theorem run3286 : runSeg 18 239878 0 S0 = (S3286, true) := runSeg_comp 18 239805 73 0 S0 S3285 S3286 run3285 seg3285
theorem run3287 : runSeg 18 239951 0 S0 = (S3287, true) := runSeg_comp 18 239878 73 0 S0 S3286 S3287 run3286 seg3286
theorem run3288 : runSeg 18 240024 0 S0 = (S3288, true) := runSeg_comp 18 239951 73 0 S0 S3287 S3288 run3287 seg3287
theorem run3289 : runSeg 18 240097 0 S0 = (S3289, true) := runSeg_comp 18 240024 73 0 S0 S3288 S3289 run3288 seg3288
theorem run3290 : runSeg 18 240170 0 S0 = (S3290, true) := runSeg_comp 18 240097 73 0 S0 S3289 S3290 run3289 seg3289
theorem run3291 : runSeg 18 240243 0 S0 = (S3291, true) := runSeg_comp 18 240170 73 0 S0 S3290 S3291 run3290 seg3290
theorem run3292 : runSeg 18 240316 0 S0 = (S3292, true) := runSeg_comp 18 240243 73 0 S0 S3291 S3292 run3291 seg3291
theorem run3293 : runSeg 18 240389 0 S0 = (S3293, true) := runSeg_comp 18 240316 73 0 S0 S3292 S3293 run3292 seg3292
theorem run3294 : runSeg 18 240462 0 S0 = (S3294, true) := runSeg_comp 18 240389 73 0 S0 S3293 S3294 run3293 seg3293
theorem run3295 : runSeg 18 240535 0 S0 = (S3295, true) := runSeg_comp 18 240462 73 0 S0 S3294 S3295 run3294 seg3294
theorem run3296 : runSeg 18 240608 0 S0 = (S3296, true) := runSeg_comp 18 240535 73 0 S0 S3295 S3296 run3295 seg3295
theorem run3297 : runSeg 18 240681 0 S0 = (S3297, true) := runSeg_comp 18 240608 73 0 S0 S3296 S3297 run3296 seg3296
theorem run3298 : runSeg 18 240754 0 S0 = (S3298, true) := runSeg_comp 18 240681 73 0 S0 S3297 S3298 run3297 seg3297
theorem run3299 : runSeg 18 240827 0 S0 = (S3299, true) := runSeg_comp 18 240754 73 0 S0 S3298 S3299 run3298 seg3298
theorem run3300 : runSeg 18 240900 0 S0 = (S3300, true) := runSeg_comp 18 240827 73 0 S0 S3299 S3300 run3299 seg3299
theorem run3301 : runSeg 18 240973 0 S0 = (S3301, true) := runSeg_comp 18 240900 73 0 S0 S3300 S3301 run3300 seg3300
theorem run3302 : runSeg 18 241046 0 S0 = (S3302, true) := runSeg_comp 18 240973 73 0 S0 S3301 S3302 run3301 seg3301
theorem run3303 : runSeg 18 241119 0 S0 = (S3303, true) := runSeg_comp 18 241046 73 0 S0 S3302 S3303 run3302 seg3302
theorem run3304 : runSeg 18 241192 0 S0 = (S3304, true) := runSeg_comp 18 241119 73 0 S0 S3303 S3304 run3303 seg3303
theorem run3305 : runSeg 18 241265 0 S0 = (S3305, true) := runSeg_comp 18 241192 73 0 S0 S3304 S3305 run3304 seg3304
theorem run3306 : runSeg 18 241338 0 S0 = (S3306, true) := runSeg_comp 18 241265 73 0 S0 S3305 S3306 run3305 seg3305
theorem run3307 : runSeg 18 241411 0 S0 = (S3307, true) := runSeg_comp 18 241338 73 0 S0 S3306 S3307 run3306 seg3306
theorem run3308 : runSeg 18 241484 0 S0 = (S3308, true) := runSeg_comp 18 241411 73 0 S0 S3307 S3308 run3307 seg3307
theorem run3309 : runSeg 18 241557 0 S0 = (S3309, true) := runSeg_comp 18 241484 73 0 S0 S3308 S3309 run3308 seg3308
theorem run3310 : runSeg 18 241630 0 S0 = (S3310, true) := runSeg_comp 18 241557 73 0 S0 S3309 S3310 run3309 seg3309
theorem run3311 : runSeg 18 241703 0 S0 = (S3311, true) := runSeg_comp 18 241630 73 0 S0 S3310 S3311 run3310 seg3310
theorem run3312 : runSeg 18 241776 0 S0 = (S3312, true) := runSeg_comp 18 241703 73 0 S0 S3311 S3312 run3311 seg3311
theorem run3313 : runSeg 18 241849 0 S0 = (S3313, true) := runSeg_comp 18 241776 73 0 S0 S3312 S3313 run3312 seg3312
theorem run3314 : runSeg 18 241922 0 S0 = (S3314, true) := runSeg_comp 18 241849 73 0 S0 S3313 S3314 run3313 seg3313
theorem run3315 : runSeg 18 241995 0 S0 = (S3315, true) := runSeg_comp 18 241922 73 0 S0 S3314 S3315 run3314 seg3314
theorem run3316 : runSeg 18 242068 0 S0 = (S3316, true) := runSeg_comp 18 241995 73 0 S0 S3315 S3316 run3315 seg3315
theorem run3317 : runSeg 18 242141 0 S0 = (S3317, true) := runSeg_comp 18 242068 73 0 S0 S3316 S3317 run3316 seg3316
theorem run3318 : runSeg 18 242214 0 S0 = (S3318, true) := runSeg_comp 18 242141 73 0 S0 S3317 S3318 run3317 seg3317
theorem run3319 : runSeg 18 242287 0 S0 = (S3319, true) := runSeg_comp 18 242214 73 0 S0 S3318 S3319 run3318 seg3318
theorem run3320 : runSeg 18 242360 0 S0 = (S3320, true) := runSeg_comp 18 242287 73 0 S0 S3319 S3320 run3319 seg3319
theorem run3321 : runSeg 18 242433 0 S0 = (S3321, true) := runSeg_comp 18 242360 73 0 S0 S3320 S3321 run3320 seg3320
theorem run3322 : runSeg 18 242506 0 S0 = (S3322, true) := runSeg_comp 18 242433 73 0 S0 S3321 S3322 run3321 seg3321
theorem run3323 : runSeg 18 242579 0 S0 = (S3323, true) := runSeg_comp 18 242506 73 0 S0 S3322 S3323 run3322 seg3322
theorem run3324 : runSeg 18 242652 0 S0 = (S3324, true) := runSeg_comp 18 242579 73 0 S0 S3323 S3324 run3323 seg3323
theorem run3325 : runSeg 18 242725 0 S0 = (S3325, true) := runSeg_comp 18 242652 73 0 S0 S3324 S3325 run3324 seg3324
theorem run3326 : runSeg 18 242798 0 S0 = (S3326, true) := runSeg_comp 18 242725 73 0 S0 S3325 S3326 run3325 seg3325
theorem run3327 : runSeg 18 242871 0 S0 = (S3327, true) := runSeg_comp 18 242798 73 0 S0 S3326 S3327 run3326 seg3326
theorem run3328 : runSeg 18 242944 0 S0 = (S3328, true) := runSeg_comp 18 242871 73 0 S0 S3327 S3328 run3327 seg3327
theorem run3329 : runSeg 18 243017 0 S0 = (S3329, true) := runSeg_comp 18 242944 73 0 S0 S3328 S3329 run3328 seg3328
theorem run3330 : runSeg 18 243090 0 S0 = (S3330, true) := runSeg_comp 18 243017 73 0 S0 S3329 S3330 run3329 seg3329
theorem run3331 : runSeg 18 243163 0 S0 = (S3331, true) := runSeg_comp 18 243090 73 0 S0 S3330 S3331 run3330 seg3330
theorem run3332 : runSeg 18 243236 0 S0 = (S3332, true) := runSeg_comp 18 243163 73 0 S0 S3331 S3332 run3331 seg3331
theorem run3333 : runSeg 18 243309 0 S0 = (S3333, true) := runSeg_comp 18 243236 73 0 S0 S3332 S3333 run3332 seg3332
theorem run3334 : runSeg 18 243382 0 S0 = (S3334, true) := runSeg_comp 18 243309 73 0 S0 S3333 S3334 run3333 seg3333
theorem run3335 : runSeg 18 243455 0 S0 = (S3335, true) := runSeg_comp 18 243382 73 0 S0 S3334 S3335 run3334 seg3334
theorem run3336 : runSeg 18 243528 0 S0 = (S3336, true) := runSeg_comp 18 243455 73 0 S0 S3335 S3336 run3335 seg3335
theorem run3337 : runSeg 18 243601 0 S0 = (S3337, true) := runSeg_comp 18 243528 73 0 S0 S3336 S3337 run3336 seg3336
theorem run3338 : runSeg 18 243674 0 S0 = (S3338, true) := runSeg_comp 18 243601 73 0 S0 S3337 S3338 run3337 seg3337
theorem run3339 : runSeg 18 243747 0 S0 = (S3339, true) := runSeg_comp 18 243674 73 0 S0 S3338 S3339 run3338 seg3338
theorem run3340 : runSeg 18 243820 0 S0 = (S3340, true) := runSeg_comp 18 243747 73 0 S0 S3339 S3340 run3339 seg3339
theorem run3341 : runSeg 18 243893 0 S0 = (S3341, true) := runSeg_comp 18 243820 73 0 S0 S3340 S3341 run3340 seg3340
theorem run3342 : runSeg 18 243966 0 S0 = (S3342, true) := runSeg_comp 18 243893 73 0 S0 S3341 S3342 run3341 seg3341
theorem run3343 : runSeg 18 244039 0 S0 = (S3343, true) := runSeg_comp 18 243966 73 0 S0 S3342 S3343 run3342 seg3342
theorem run3344 : runSeg 18 244112 0 S0 = (S3344, true) := runSeg_comp 18 244039 73 0 S0 S3343 S3344 run3343 seg3343
theorem run3345 : runSeg 18 244185 0 S0 = (S3345, true) := runSeg_comp 18 244112 73 0 S0 S3344 S3345 run3344 seg3344
theorem run3346 : runSeg 18 244258 0 S0 = (S3346, true) := runSeg_comp 18 244185 73 0 S0 S3345 S3346 run3345 seg3345
theorem run3347 : runSeg 18 244331 0 S0 = (S3347, true) := runSeg_comp 18 244258 73 0 S0 S3346 S3347 run3346 seg3346
theorem run3348 : runSeg 18 244404 0 S0 = (S3348, true) := runSeg_comp 18 244331 73 0 S0 S3347 S3348 run3347 seg3347
theorem run3349 : runSeg 18 244477 0 S0 = (S3349, true) := runSeg_comp 18 244404 73 0 S0 S3348 S3349 run3348 seg3348
theorem run3350 : runSeg 18 244550 0 S0 = (S3350, true) := runSeg_comp 18 244477 73 0 S0 S3349 S3350 run3349 seg3349
theorem run3351 : runSeg 18 244623 0 S0 = (S3351, true) := runSeg_comp 18 244550 73 0 S0 S3350 S3351 run3350 seg3350
theorem run3352 : runSeg 18 244696 0 S0 = (S3352, true) := runSeg_comp 18 244623 73 0 S0 S3351 S3352 run3351 seg3351
theorem run3353 : runSeg 18 244769 0 S0 = (S3353, true) := runSeg_comp 18 244696 73 0 S0 S3352 S3353 run3352 seg3352
theorem run3354 : runSeg 18 244842 0 S0 = (S3354, true) := runSeg_comp 18 244769 73 0 S0 S3353 S3354 run3353 seg3353
theorem run3355 : runSeg 18 244915 0 S0 = (S3355, true) := runSeg_comp 18 244842 73 0 S0 S3354 S3355 run3354 seg3354
theorem run3356 : runSeg 18 244988 0 S0 = (S3356, true) := runSeg_comp 18 244915 73 0 S0 S3355 S3356 run3355 seg3355
theorem run3357 : runSeg 18 245061 0 S0 = (S3357, true) := runSeg_comp 18 244988 73 0 S0 S3356 S3357 run3356 seg3356
theorem run3358 : runSeg 18 245134 0 S0 = (S3358, true) := runSeg_comp 18 245061 73 0 S0 S3357 S3358 run3357 seg3357
theorem run3359 : runSeg 18 245207 0 S0 = (S3359, true) := runSeg_comp 18 245134 73 0 S0 S3358 S3359 run3358 seg3358
theorem run3360 : runSeg 18 245280 0 S0 = (S3360, true) := runSeg_comp 18 245207 73 0 S0 S3359 S3360 run3359 seg3359
theorem run3361 : runSeg 18 245353 0 S0 = (S3361, true) := runSeg_comp 18 245280 73 0 S0 S3360 S3361 run3360 seg3360
theorem run3362 : runSeg 18 245426 0 S0 = (S3362, true) := runSeg_comp 18 245353 73 0 S0 S3361 S3362 run3361 seg3361
theorem run3363 : runSeg 18 245499 0 S0 = (S3363, true) := runSeg_comp 18 245426 73 0 S0 S3362 S3363 run3362 seg3362
theorem run3364 : runSeg 18 245572 0 S0 = (S3364, true) := runSeg_comp 18 245499 73 0 S0 S3363 S3364 run3363 seg3363
theorem run3365 : runSeg 18 245645 0 S0 = (S3365, true) := runSeg_comp 18 245572 73 0 S0 S3364 S3365 run3364 seg3364
theorem run3366 : runSeg 18 245718 0 S0 = (S3366, true) := runSeg_comp 18 245645 73 0 S0 S3365 S3366 run3365 seg3365
theorem run3367 : runSeg 18 245791 0 S0 = (S3367, true) := runSeg_comp 18 245718 73 0 S0 S3366 S3367 run3366 seg3366
theorem run3368 : runSeg 18 245864 0 S0 = (S3368, true) := runSeg_comp 18 245791 73 0 S0 S3367 S3368 run3367 seg3367
theorem run3369 : runSeg 18 245937 0 S0 = (S3369, true) := runSeg_comp 18 245864 73 0 S0 S3368 S3369 run3368 seg3368
theorem run3370 : runSeg 18 246010 0 S0 = (S3370, true) := runSeg_comp 18 245937 73 0 S0 S3369 S3370 run3369 seg3369
theorem run3371 : runSeg 18 246083 0 S0 = (S3371, true) := runSeg_comp 18 246010 73 0 S0 S3370 S3371 run3370 seg3370
theorem run3372 : runSeg 18 246156 0 S0 = (S3372, true) := runSeg_comp 18 246083 73 0 S0 S3371 S3372 run3371 seg3371
theorem run3373 : runSeg 18 246229 0 S0 = (S3373, true) := runSeg_comp 18 246156 73 0 S0 S3372 S3373 run3372 seg3372
theorem run3374 : runSeg 18 246302 0 S0 = (S3374, true) := runSeg_comp 18 246229 73 0 S0 S3373 S3374 run3373 seg3373
theorem run3375 : runSeg 18 246375 0 S0 = (S3375, true) := runSeg_comp 18 246302 73 0 S0 S3374 S3375 run3374 seg3374
theorem run3376 : runSeg 18 246448 0 S0 = (S3376, true) := runSeg_comp 18 246375 73 0 S0 S3375 S3376 run3375 seg3375
theorem run3377 : runSeg 18 246521 0 S0 = (S3377, true) := runSeg_comp 18 246448 73 0 S0 S3376 S3377 run3376 seg3376
theorem run3378 : runSeg 18 246594 0 S0 = (S3378, true) := runSeg_comp 18 246521 73 0 S0 S3377 S3378 run3377 seg3377
theorem run3379 : runSeg 18 246667 0 S0 = (S3379, true) := runSeg_comp 18 246594 73 0 S0 S3378 S3379 run3378 seg3378
theorem run3380 : runSeg 18 246740 0 S0 = (S3380, true) := runSeg_comp 18 246667 73 0 S0 S3379 S3380 run3379 seg3379
theorem run3381 : runSeg 18 246813 0 S0 = (S3381, true) := runSeg_comp 18 246740 73 0 S0 S3380 S3381 run3380 seg3380
theorem run3382 : runSeg 18 246886 0 S0 = (S3382, true) := runSeg_comp 18 246813 73 0 S0 S3381 S3382 run3381 seg3381
theorem run3383 : runSeg 18 246959 0 S0 = (S3383, true) := runSeg_comp 18 246886 73 0 S0 S3382 S3383 run3382 seg3382
theorem run3384 : runSeg 18 247032 0 S0 = (S3384, true) := runSeg_comp 18 246959 73 0 S0 S3383 S3384 run3383 seg3383
theorem run3385 : runSeg 18 247105 0 S0 = (S3385, true) := runSeg_comp 18 247032 73 0 S0 S3384 S3385 run3384 seg3384
theorem run3386 : runSeg 18 247178 0 S0 = (S3386, true) := runSeg_comp 18 247105 73 0 S0 S3385 S3386 run3385 seg3385
theorem run3387 : runSeg 18 247251 0 S0 = (S3387, true) := runSeg_comp 18 247178 73 0 S0 S3386 S3387 run3386 seg3386
theorem run3388 : runSeg 18 247324 0 S0 = (S3388, true) := runSeg_comp 18 247251 73 0 S0 S3387 S3388 run3387 seg3387
theorem run3389 : runSeg 18 247397 0 S0 = (S3389, true) := runSeg_comp 18 247324 73 0 S0 S3388 S3389 run3388 seg3388
theorem run3390 : runSeg 18 247470 0 S0 = (S3390, true) := runSeg_comp 18 247397 73 0 S0 S3389 S3390 run3389 seg3389
theorem run3391 : runSeg 18 247543 0 S0 = (S3391, true) := runSeg_comp 18 247470 73 0 S0 S3390 S3391 run3390 seg3390
theorem run3392 : runSeg 18 247616 0 S0 = (S3392, true) := runSeg_comp 18 247543 73 0 S0 S3391 S3392 run3391 seg3391
theorem run3393 : runSeg 18 247689 0 S0 = (S3393, true) := runSeg_comp 18 247616 73 0 S0 S3392 S3393 run3392 seg3392
theorem run3394 : runSeg 18 247762 0 S0 = (S3394, true) := runSeg_comp 18 247689 73 0 S0 S3393 S3394 run3393 seg3393
theorem run3395 : runSeg 18 247835 0 S0 = (S3395, true) := runSeg_comp 18 247762 73 0 S0 S3394 S3395 run3394 seg3394
theorem run3396 : runSeg 18 247908 0 S0 = (S3396, true) := runSeg_comp 18 247835 73 0 S0 S3395 S3396 run3395 seg3395
theorem run3397 : runSeg 18 247981 0 S0 = (S3397, true) := runSeg_comp 18 247908 73 0 S0 S3396 S3397 run3396 seg3396
theorem run3398 : runSeg 18 248054 0 S0 = (S3398, true) := runSeg_comp 18 247981 73 0 S0 S3397 S3398 run3397 seg3397
theorem run3399 : runSeg 18 248127 0 S0 = (S3399, true) := runSeg_comp 18 248054 73 0 S0 S3398 S3399 run3398 seg3398
theorem run3400 : runSeg 18 248200 0 S0 = (S3400, true) := runSeg_comp 18 248127 73 0 S0 S3399 S3400 run3399 seg3399
theorem run3401 : runSeg 18 248273 0 S0 = (S3401, true) := runSeg_comp 18 248200 73 0 S0 S3400 S3401 run3400 seg3400
theorem run3402 : runSeg 18 248346 0 S0 = (S3402, true) := runSeg_comp 18 248273 73 0 S0 S3401 S3402 run3401 seg3401
theorem run3403 : runSeg 18 248419 0 S0 = (S3403, true) := runSeg_comp 18 248346 73 0 S0 S3402 S3403 run3402 seg3402
theorem run3404 : runSeg 18 248492 0 S0 = (S3404, true) := runSeg_comp 18 248419 73 0 S0 S3403 S3404 run3403 seg3403
theorem run3405 : runSeg 18 248565 0 S0 = (S3405, true) := runSeg_comp 18 248492 73 0 S0 S3404 S3405 run3404 seg3404
theorem run3406 : runSeg 18 248638 0 S0 = (S3406, true) := runSeg_comp 18 248565 73 0 S0 S3405 S3406 run3405 seg3405
theorem run3407 : runSeg 18 248711 0 S0 = (S3407, true) := runSeg_comp 18 248638 73 0 S0 S3406 S3407 run3406 seg3406
theorem run3408 : runSeg 18 248784 0 S0 = (S3408, true) := runSeg_comp 18 248711 73 0 S0 S3407 S3408 run3407 seg3407
theorem run3409 : runSeg 18 248857 0 S0 = (S3409, true) := runSeg_comp 18 248784 73 0 S0 S3408 S3409 run3408 seg3408
theorem run3410 : runSeg 18 248930 0 S0 = (S3410, true) := runSeg_comp 18 248857 73 0 S0 S3409 S3410 run3409 seg3409
theorem run3411 : runSeg 18 249003 0 S0 = (S3411, true) := runSeg_comp 18 248930 73 0 S0 S3410 S3411 run3410 seg3410
theorem run3412 : runSeg 18 249076 0 S0 = (S3412, true) := runSeg_comp 18 249003 73 0 S0 S3411 S3412 run3411 seg3411
theorem run3413 : runSeg 18 249149 0 S0 = (S3413, true) := runSeg_comp 18 249076 73 0 S0 S3412 S3413 run3412 seg3412
theorem run3414 : runSeg 18 249222 0 S0 = (S3414, true) := runSeg_comp 18 249149 73 0 S0 S3413 S3414 run3413 seg3413
theorem run3415 : runSeg 18 249295 0 S0 = (S3415, true) := runSeg_comp 18 249222 73 0 S0 S3414 S3415 run3414 seg3414
theorem run3416 : runSeg 18 249368 0 S0 = (S3416, true) := runSeg_comp 18 249295 73 0 S0 S3415 S3416 run3415 seg3415
theorem run3417 : runSeg 18 249441 0 S0 = (S3417, true) := runSeg_comp 18 249368 73 0 S0 S3416 S3417 run3416 seg3416
theorem run3418 : runSeg 18 249514 0 S0 = (S3418, true) := runSeg_comp 18 249441 73 0 S0 S3417 S3418 run3417 seg3417
theorem run3419 : runSeg 18 249587 0 S0 = (S3419, true) := runSeg_comp 18 249514 73 0 S0 S3418 S3419 run3418 seg3418
theorem run3420 : runSeg 18 249660 0 S0 = (S3420, true) := runSeg_comp 18 249587 73 0 S0 S3419 S3420 run3419 seg3419
theorem run3421 : runSeg 18 249733 0 S0 = (S3421, true) := runSeg_comp 18 249660 73 0 S0 S3420 S3421 run3420 seg3420
theorem run3422 : runSeg 18 249806 0 S0 = (S3422, true) := runSeg_comp 18 249733 73 0 S0 S3421 S3422 run3421 seg3421
theorem run3423 : runSeg 18 249879 0 S0 = (S3423, true) := runSeg_comp 18 249806 73 0 S0 S3422 S3423 run3422 seg3422
theorem run3424 : runSeg 18 249952 0 S0 = (S3424, true) := runSeg_comp 18 249879 73 0 S0 S3423 S3424 run3423 seg3423
theorem run3425 : runSeg 18 250025 0 S0 = (S3425, true) := runSeg_comp 18 249952 73 0 S0 S3424 S3425 run3424 seg3424
theorem run3426 : runSeg 18 250098 0 S0 = (S3426, true) := runSeg_comp 18 250025 73 0 S0 S3425 S3426 run3425 seg3425
theorem run3427 : runSeg 18 250171 0 S0 = (S3427, true) := runSeg_comp 18 250098 73 0 S0 S3426 S3427 run3426 seg3426
theorem run3428 : runSeg 18 250244 0 S0 = (S3428, true) := runSeg_comp 18 250171 73 0 S0 S3427 S3428 run3427 seg3427
theorem run3429 : runSeg 18 250317 0 S0 = (S3429, true) := runSeg_comp 18 250244 73 0 S0 S3428 S3429 run3428 seg3428
theorem run3430 : runSeg 18 250390 0 S0 = (S3430, true) := runSeg_comp 18 250317 73 0 S0 S3429 S3430 run3429 seg3429
theorem run3431 : runSeg 18 250463 0 S0 = (S3431, true) := runSeg_comp 18 250390 73 0 S0 S3430 S3431 run3430 seg3430
theorem run3432 : runSeg 18 250536 0 S0 = (S3432, true) := runSeg_comp 18 250463 73 0 S0 S3431 S3432 run3431 seg3431
theorem run3433 : runSeg 18 250609 0 S0 = (S3433, true) := runSeg_comp 18 250536 73 0 S0 S3432 S3433 run3432 seg3432
theorem run3434 : runSeg 18 250682 0 S0 = (S3434, true) := runSeg_comp 18 250609 73 0 S0 S3433 S3434 run3433 seg3433
theorem run3435 : runSeg 18 250755 0 S0 = (S3435, true) := runSeg_comp 18 250682 73 0 S0 S3434 S3435 run3434 seg3434
theorem run3436 : runSeg 18 250828 0 S0 = (S3436, true) := runSeg_comp 18 250755 73 0 S0 S3435 S3436 run3435 seg3435
theorem run3437 : runSeg 18 250901 0 S0 = (S3437, true) := runSeg_comp 18 250828 73 0 S0 S3436 S3437 run3436 seg3436
theorem run3438 : runSeg 18 250974 0 S0 = (S3438, true) := runSeg_comp 18 250901 73 0 S0 S3437 S3438 run3437 seg3437
theorem run3439 : runSeg 18 251047 0 S0 = (S3439, true) := runSeg_comp 18 250974 73 0 S0 S3438 S3439 run3438 seg3438
theorem run3440 : runSeg 18 251120 0 S0 = (S3440, true) := runSeg_comp 18 251047 73 0 S0 S3439 S3440 run3439 seg3439
theorem run3441 : runSeg 18 251193 0 S0 = (S3441, true) := runSeg_comp 18 251120 73 0 S0 S3440 S3441 run3440 seg3440
theorem run3442 : runSeg 18 251266 0 S0 = (S3442, true) := runSeg_comp 18 251193 73 0 S0 S3441 S3442 run3441 seg3441
theorem run3443 : runSeg 18 251339 0 S0 = (S3443, true) := runSeg_comp 18 251266 73 0 S0 S3442 S3443 run3442 seg3442
theorem run3444 : runSeg 18 251412 0 S0 = (S3444, true) := runSeg_comp 18 251339 73 0 S0 S3443 S3444 run3443 seg3443
theorem run3445 : runSeg 18 251485 0 S0 = (S3445, true) := runSeg_comp 18 251412 73 0 S0 S3444 S3445 run3444 seg3444
theorem run3446 : runSeg 18 251558 0 S0 = (S3446, true) := runSeg_comp 18 251485 73 0 S0 S3445 S3446 run3445 seg3445
theorem run3447 : runSeg 18 251631 0 S0 = (S3447, true) := runSeg_comp 18 251558 73 0 S0 S3446 S3447 run3446 seg3446
theorem run3448 : runSeg 18 251704 0 S0 = (S3448, true) := runSeg_comp 18 251631 73 0 S0 S3447 S3448 run3447 seg3447
theorem run3449 : runSeg 18 251777 0 S0 = (S3449, true) := runSeg_comp 18 251704 73 0 S0 S3448 S3449 run3448 seg3448
theorem run3450 : runSeg 18 251850 0 S0 = (S3450, true) := runSeg_comp 18 251777 73 0 S0 S3449 S3450 run3449 seg3449
theorem run3451 : runSeg 18 251923 0 S0 = (S3451, true) := runSeg_comp 18 251850 73 0 S0 S3450 S3451 run3450 seg3450
theorem run3452 : runSeg 18 251996 0 S0 = (S3452, true) := runSeg_comp 18 251923 73 0 S0 S3451 S3452 run3451 seg3451
theorem run3453 : runSeg 18 252069 0 S0 = (S3453, true) := runSeg_comp 18 251996 73 0 S0 S3452 S3453 run3452 seg3452
theorem run3454 : runSeg 18 252142 0 S0 = (S3454, true) := runSeg_comp 18 252069 73 0 S0 S3453 S3454 run3453 seg3453
theorem run3455 : runSeg 18 252215 0 S0 = (S3455, true) := runSeg_comp 18 252142 73 0 S0 S3454 S3455 run3454 seg3454
theorem run3456 : runSeg 18 252288 0 S0 = (S3456, true) := runSeg_comp 18 252215 73 0 S0 S3455 S3456 run3455 seg3455
theorem run3457 : runSeg 18 252361 0 S0 = (S3457, true) := runSeg_comp 18 252288 73 0 S0 S3456 S3457 run3456 seg3456
theorem run3458 : runSeg 18 252434 0 S0 = (S3458, true) := runSeg_comp 18 252361 73 0 S0 S3457 S3458 run3457 seg3457
theorem run3459 : runSeg 18 252507 0 S0 = (S3459, true) := runSeg_comp 18 252434 73 0 S0 S3458 S3459 run3458 seg3458
theorem run3460 : runSeg 18 252580 0 S0 = (S3460, true) := runSeg_comp 18 252507 73 0 S0 S3459 S3460 run3459 seg3459
theorem run3461 : runSeg 18 252653 0 S0 = (S3461, true) := runSeg_comp 18 252580 73 0 S0 S3460 S3461 run3460 seg3460
theorem run3462 : runSeg 18 252726 0 S0 = (S3462, true) := runSeg_comp 18 252653 73 0 S0 S3461 S3462 run3461 seg3461
theorem run3463 : runSeg 18 252799 0 S0 = (S3463, true) := runSeg_comp 18 252726 73 0 S0 S3462 S3463 run3462 seg3462
theorem run3464 : runSeg 18 252872 0 S0 = (S3464, true) := runSeg_comp 18 252799 73 0 S0 S3463 S3464 run3463 seg3463
theorem run3465 : runSeg 18 252945 0 S0 = (S3465, true) := runSeg_comp 18 252872 73 0 S0 S3464 S3465 run3464 seg3464
theorem run3466 : runSeg 18 253018 0 S0 = (S3466, true) := runSeg_comp 18 252945 73 0 S0 S3465 S3466 run3465 seg3465
theorem run3467 : runSeg 18 253091 0 S0 = (S3467, true) := runSeg_comp 18 253018 73 0 S0 S3466 S3467 run3466 seg3466
theorem run3468 : runSeg 18 253164 0 S0 = (S3468, true) := runSeg_comp 18 253091 73 0 S0 S3467 S3468 run3467 seg3467
theorem run3469 : runSeg 18 253237 0 S0 = (S3469, true) := runSeg_comp 18 253164 73 0 S0 S3468 S3469 run3468 seg3468
theorem run3470 : runSeg 18 253310 0 S0 = (S3470, true) := runSeg_comp 18 253237 73 0 S0 S3469 S3470 run3469 seg3469
theorem run3471 : runSeg 18 253383 0 S0 = (S3471, true) := runSeg_comp 18 253310 73 0 S0 S3470 S3471 run3470 seg3470
theorem run3472 : runSeg 18 253456 0 S0 = (S3472, true) := runSeg_comp 18 253383 73 0 S0 S3471 S3472 run3471 seg3471
theorem run3473 : runSeg 18 253529 0 S0 = (S3473, true) := runSeg_comp 18 253456 73 0 S0 S3472 S3473 run3472 seg3472
theorem run3474 : runSeg 18 253602 0 S0 = (S3474, true) := runSeg_comp 18 253529 73 0 S0 S3473 S3474 run3473 seg3473
theorem run3475 : runSeg 18 253675 0 S0 = (S3475, true) := runSeg_comp 18 253602 73 0 S0 S3474 S3475 run3474 seg3474
theorem run3476 : runSeg 18 253748 0 S0 = (S3476, true) := runSeg_comp 18 253675 73 0 S0 S3475 S3476 run3475 seg3475
theorem run3477 : runSeg 18 253821 0 S0 = (S3477, true) := runSeg_comp 18 253748 73 0 S0 S3476 S3477 run3476 seg3476
theorem run3478 : runSeg 18 253894 0 S0 = (S3478, true) := runSeg_comp 18 253821 73 0 S0 S3477 S3478 run3477 seg3477
theorem run3479 : runSeg 18 253967 0 S0 = (S3479, true) := runSeg_comp 18 253894 73 0 S0 S3478 S3479 run3478 seg3478
theorem run3480 : runSeg 18 254040 0 S0 = (S3480, true) := runSeg_comp 18 253967 73 0 S0 S3479 S3480 run3479 seg3479
theorem run3481 : runSeg 18 254113 0 S0 = (S3481, true) := runSeg_comp 18 254040 73 0 S0 S3480 S3481 run3480 seg3480
theorem run3482 : runSeg 18 254186 0 S0 = (S3482, true) := runSeg_comp 18 254113 73 0 S0 S3481 S3482 run3481 seg3481
theorem run3483 : runSeg 18 254259 0 S0 = (S3483, true) := runSeg_comp 18 254186 73 0 S0 S3482 S3483 run3482 seg3482
theorem run3484 : runSeg 18 254332 0 S0 = (S3484, true) := runSeg_comp 18 254259 73 0 S0 S3483 S3484 run3483 seg3483
theorem run3485 : runSeg 18 254405 0 S0 = (S3485, true) := runSeg_comp 18 254332 73 0 S0 S3484 S3485 run3484 seg3484
theorem run3486 : runSeg 18 254478 0 S0 = (S3486, true) := runSeg_comp 18 254405 73 0 S0 S3485 S3486 run3485 seg3485
theorem run3487 : runSeg 18 254551 0 S0 = (S3487, true) := runSeg_comp 18 254478 73 0 S0 S3486 S3487 run3486 seg3486
theorem run3488 : runSeg 18 254624 0 S0 = (S3488, true) := runSeg_comp 18 254551 73 0 S0 S3487 S3488 run3487 seg3487
theorem run3489 : runSeg 18 254697 0 S0 = (S3489, true) := runSeg_comp 18 254624 73 0 S0 S3488 S3489 run3488 seg3488
theorem run3490 : runSeg 18 254770 0 S0 = (S3490, true) := runSeg_comp 18 254697 73 0 S0 S3489 S3490 run3489 seg3489
theorem run3491 : runSeg 18 254843 0 S0 = (S3491, true) := runSeg_comp 18 254770 73 0 S0 S3490 S3491 run3490 seg3490
theorem run3492 : runSeg 18 254916 0 S0 = (S3492, true) := runSeg_comp 18 254843 73 0 S0 S3491 S3492 run3491 seg3491
theorem run3493 : runSeg 18 254989 0 S0 = (S3493, true) := runSeg_comp 18 254916 73 0 S0 S3492 S3493 run3492 seg3492
theorem run3494 : runSeg 18 255062 0 S0 = (S3494, true) := runSeg_comp 18 254989 73 0 S0 S3493 S3494 run3493 seg3493
theorem run3495 : runSeg 18 255135 0 S0 = (S3495, true) := runSeg_comp 18 255062 73 0 S0 S3494 S3495 run3494 seg3494
theorem run3496 : runSeg 18 255208 0 S0 = (S3496, true) := runSeg_comp 18 255135 73 0 S0 S3495 S3496 run3495 seg3495
theorem run3497 : runSeg 18 255281 0 S0 = (S3497, true) := runSeg_comp 18 255208 73 0 S0 S3496 S3497 run3496 seg3496
theorem run3498 : runSeg 18 255354 0 S0 = (S3498, true) := runSeg_comp 18 255281 73 0 S0 S3497 S3498 run3497 seg3497
theorem run3499 : runSeg 18 255427 0 S0 = (S3499, true) := runSeg_comp 18 255354 73 0 S0 S3498 S3499 run3498 seg3498
theorem run3500 : runSeg 18 255500 0 S0 = (S3500, true) := runSeg_comp 18 255427 73 0 S0 S3499 S3500 run3499 seg3499
theorem run3501 : runSeg 18 255573 0 S0 = (S3501, true) := runSeg_comp 18 255500 73 0 S0 S3500 S3501 run3500 seg3500
theorem run3502 : runSeg 18 255646 0 S0 = (S3502, true) := runSeg_comp 18 255573 73 0 S0 S3501 S3502 run3501 seg3501
theorem run3503 : runSeg 18 255719 0 S0 = (S3503, true) := runSeg_comp 18 255646 73 0 S0 S3502 S3503 run3502 seg3502
theorem run3504 : runSeg 18 255792 0 S0 = (S3504, true) := runSeg_comp 18 255719 73 0 S0 S3503 S3504 run3503 seg3503
theorem run3505 : runSeg 18 255865 0 S0 = (S3505, true) := runSeg_comp 18 255792 73 0 S0 S3504 S3505 run3504 seg3504
theorem run3506 : runSeg 18 255938 0 S0 = (S3506, true) := runSeg_comp 18 255865 73 0 S0 S3505 S3506 run3505 seg3505
theorem run3507 : runSeg 18 256011 0 S0 = (S3507, true) := runSeg_comp 18 255938 73 0 S0 S3506 S3507 run3506 seg3506
theorem run3508 : runSeg 18 256084 0 S0 = (S3508, true) := runSeg_comp 18 256011 73 0 S0 S3507 S3508 run3507 seg3507
theorem run3509 : runSeg 18 256157 0 S0 = (S3509, true) := runSeg_comp 18 256084 73 0 S0 S3508 S3509 run3508 seg3508
theorem run3510 : runSeg 18 256230 0 S0 = (S3510, true) := runSeg_comp 18 256157 73 0 S0 S3509 S3510 run3509 seg3509
theorem run3511 : runSeg 18 256303 0 S0 = (S3511, true) := runSeg_comp 18 256230 73 0 S0 S3510 S3511 run3510 seg3510
theorem run3512 : runSeg 18 256376 0 S0 = (S3512, true) := runSeg_comp 18 256303 73 0 S0 S3511 S3512 run3511 seg3511
theorem run3513 : runSeg 18 256449 0 S0 = (S3513, true) := runSeg_comp 18 256376 73 0 S0 S3512 S3513 run3512 seg3512
theorem run3514 : runSeg 18 256522 0 S0 = (S3514, true) := runSeg_comp 18 256449 73 0 S0 S3513 S3514 run3513 seg3513
theorem run3515 : runSeg 18 256595 0 S0 = (S3515, true) := runSeg_comp 18 256522 73 0 S0 S3514 S3515 run3514 seg3514
theorem run3516 : runSeg 18 256668 0 S0 = (S3516, true) := runSeg_comp 18 256595 73 0 S0 S3515 S3516 run3515 seg3515
theorem run3517 : runSeg 18 256741 0 S0 = (S3517, true) := runSeg_comp 18 256668 73 0 S0 S3516 S3517 run3516 seg3516
theorem run3518 : runSeg 18 256814 0 S0 = (S3518, true) := runSeg_comp 18 256741 73 0 S0 S3517 S3518 run3517 seg3517
theorem run3519 : runSeg 18 256887 0 S0 = (S3519, true) := runSeg_comp 18 256814 73 0 S0 S3518 S3519 run3518 seg3518
theorem run3520 : runSeg 18 256960 0 S0 = (S3520, true) := runSeg_comp 18 256887 73 0 S0 S3519 S3520 run3519 seg3519
theorem run3521 : runSeg 18 257033 0 S0 = (S3521, true) := runSeg_comp 18 256960 73 0 S0 S3520 S3521 run3520 seg3520
theorem run3522 : runSeg 18 257106 0 S0 = (S3522, true) := runSeg_comp 18 257033 73 0 S0 S3521 S3522 run3521 seg3521
theorem run3523 : runSeg 18 257179 0 S0 = (S3523, true) := runSeg_comp 18 257106 73 0 S0 S3522 S3523 run3522 seg3522
theorem run3524 : runSeg 18 257252 0 S0 = (S3524, true) := runSeg_comp 18 257179 73 0 S0 S3523 S3524 run3523 seg3523
theorem run3525 : runSeg 18 257325 0 S0 = (S3525, true) := runSeg_comp 18 257252 73 0 S0 S3524 S3525 run3524 seg3524
theorem run3526 : runSeg 18 257398 0 S0 = (S3526, true) := runSeg_comp 18 257325 73 0 S0 S3525 S3526 run3525 seg3525
theorem run3527 : runSeg 18 257471 0 S0 = (S3527, true) := runSeg_comp 18 257398 73 0 S0 S3526 S3527 run3526 seg3526
theorem run3528 : runSeg 18 257544 0 S0 = (S3528, true) := runSeg_comp 18 257471 73 0 S0 S3527 S3528 run3527 seg3527
theorem run3529 : runSeg 18 257617 0 S0 = (S3529, true) := runSeg_comp 18 257544 73 0 S0 S3528 S3529 run3528 seg3528
theorem run3530 : runSeg 18 257690 0 S0 = (S3530, true) := runSeg_comp 18 257617 73 0 S0 S3529 S3530 run3529 seg3529
theorem run3531 : runSeg 18 257763 0 S0 = (S3531, true) := runSeg_comp 18 257690 73 0 S0 S3530 S3531 run3530 seg3530
theorem run3532 : runSeg 18 257836 0 S0 = (S3532, true) := runSeg_comp 18 257763 73 0 S0 S3531 S3532 run3531 seg3531
theorem run3533 : runSeg 18 257909 0 S0 = (S3533, true) := runSeg_comp 18 257836 73 0 S0 S3532 S3533 run3532 seg3532
theorem run3534 : runSeg 18 257982 0 S0 = (S3534, true) := runSeg_comp 18 257909 73 0 S0 S3533 S3534 run3533 seg3533
theorem run3535 : runSeg 18 258055 0 S0 = (S3535, true) := runSeg_comp 18 257982 73 0 S0 S3534 S3535 run3534 seg3534
theorem run3536 : runSeg 18 258128 0 S0 = (S3536, true) := runSeg_comp 18 258055 73 0 S0 S3535 S3536 run3535 seg3535
theorem run3537 : runSeg 18 258201 0 S0 = (S3537, true) := runSeg_comp 18 258128 73 0 S0 S3536 S3537 run3536 seg3536
theorem run3538 : runSeg 18 258274 0 S0 = (S3538, true) := runSeg_comp 18 258201 73 0 S0 S3537 S3538 run3537 seg3537
theorem run3539 : runSeg 18 258347 0 S0 = (S3539, true) := runSeg_comp 18 258274 73 0 S0 S3538 S3539 run3538 seg3538
theorem run3540 : runSeg 18 258420 0 S0 = (S3540, true) := runSeg_comp 18 258347 73 0 S0 S3539 S3540 run3539 seg3539
theorem run3541 : runSeg 18 258493 0 S0 = (S3541, true) := runSeg_comp 18 258420 73 0 S0 S3540 S3541 run3540 seg3540
theorem run3542 : runSeg 18 258566 0 S0 = (S3542, true) := runSeg_comp 18 258493 73 0 S0 S3541 S3542 run3541 seg3541
theorem run3543 : runSeg 18 258639 0 S0 = (S3543, true) := runSeg_comp 18 258566 73 0 S0 S3542 S3543 run3542 seg3542
theorem run3544 : runSeg 18 258712 0 S0 = (S3544, true) := runSeg_comp 18 258639 73 0 S0 S3543 S3544 run3543 seg3543
theorem run3545 : runSeg 18 258785 0 S0 = (S3545, true) := runSeg_comp 18 258712 73 0 S0 S3544 S3545 run3544 seg3544
theorem run3546 : runSeg 18 258858 0 S0 = (S3546, true) := runSeg_comp 18 258785 73 0 S0 S3545 S3546 run3545 seg3545
theorem run3547 : runSeg 18 258931 0 S0 = (S3547, true) := runSeg_comp 18 258858 73 0 S0 S3546 S3547 run3546 seg3546
theorem run3548 : runSeg 18 259004 0 S0 = (S3548, true) := runSeg_comp 18 258931 73 0 S0 S3547 S3548 run3547 seg3547
theorem run3549 : runSeg 18 259077 0 S0 = (S3549, true) := runSeg_comp 18 259004 73 0 S0 S3548 S3549 run3548 seg3548
theorem run3550 : runSeg 18 259150 0 S0 = (S3550, true) := runSeg_comp 18 259077 73 0 S0 S3549 S3550 run3549 seg3549
theorem run3551 : runSeg 18 259223 0 S0 = (S3551, true) := runSeg_comp 18 259150 73 0 S0 S3550 S3551 run3550 seg3550
theorem run3552 : runSeg 18 259296 0 S0 = (S3552, true) := runSeg_comp 18 259223 73 0 S0 S3551 S3552 run3551 seg3551
theorem run3553 : runSeg 18 259369 0 S0 = (S3553, true) := runSeg_comp 18 259296 73 0 S0 S3552 S3553 run3552 seg3552
theorem run3554 : runSeg 18 259442 0 S0 = (S3554, true) := runSeg_comp 18 259369 73 0 S0 S3553 S3554 run3553 seg3553
theorem run3555 : runSeg 18 259515 0 S0 = (S3555, true) := runSeg_comp 18 259442 73 0 S0 S3554 S3555 run3554 seg3554
theorem run3556 : runSeg 18 259588 0 S0 = (S3556, true) := runSeg_comp 18 259515 73 0 S0 S3555 S3556 run3555 seg3555
theorem run3557 : runSeg 18 259661 0 S0 = (S3557, true) := runSeg_comp 18 259588 73 0 S0 S3556 S3557 run3556 seg3556
theorem run3558 : runSeg 18 259734 0 S0 = (S3558, true) := runSeg_comp 18 259661 73 0 S0 S3557 S3558 run3557 seg3557
theorem run3559 : runSeg 18 259807 0 S0 = (S3559, true) := runSeg_comp 18 259734 73 0 S0 S3558 S3559 run3558 seg3558
theorem run3560 : runSeg 18 259880 0 S0 = (S3560, true) := runSeg_comp 18 259807 73 0 S0 S3559 S3560 run3559 seg3559
theorem run3561 : runSeg 18 259953 0 S0 = (S3561, true) := runSeg_comp 18 259880 73 0 S0 S3560 S3561 run3560 seg3560
theorem run3562 : runSeg 18 260026 0 S0 = (S3562, true) := runSeg_comp 18 259953 73 0 S0 S3561 S3562 run3561 seg3561
theorem run3563 : runSeg 18 260099 0 S0 = (S3563, true) := runSeg_comp 18 260026 73 0 S0 S3562 S3563 run3562 seg3562
theorem run3564 : runSeg 18 260172 0 S0 = (S3564, true) := runSeg_comp 18 260099 73 0 S0 S3563 S3564 run3563 seg3563
theorem run3565 : runSeg 18 260245 0 S0 = (S3565, true) := runSeg_comp 18 260172 73 0 S0 S3564 S3565 run3564 seg3564
theorem run3566 : runSeg 18 260318 0 S0 = (S3566, true) := runSeg_comp 18 260245 73 0 S0 S3565 S3566 run3565 seg3565
theorem run3567 : runSeg 18 260391 0 S0 = (S3567, true) := runSeg_comp 18 260318 73 0 S0 S3566 S3567 run3566 seg3566
theorem run3568 : runSeg 18 260464 0 S0 = (S3568, true) := runSeg_comp 18 260391 73 0 S0 S3567 S3568 run3567 seg3567
theorem run3569 : runSeg 18 260537 0 S0 = (S3569, true) := runSeg_comp 18 260464 73 0 S0 S3568 S3569 run3568 seg3568
theorem run3570 : runSeg 18 260610 0 S0 = (S3570, true) := runSeg_comp 18 260537 73 0 S0 S3569 S3570 run3569 seg3569
theorem run3571 : runSeg 18 260683 0 S0 = (S3571, true) := runSeg_comp 18 260610 73 0 S0 S3570 S3571 run3570 seg3570
theorem run3572 : runSeg 18 260756 0 S0 = (S3572, true) := runSeg_comp 18 260683 73 0 S0 S3571 S3572 run3571 seg3571
theorem run3573 : runSeg 18 260829 0 S0 = (S3573, true) := runSeg_comp 18 260756 73 0 S0 S3572 S3573 run3572 seg3572
theorem run3574 : runSeg 18 260902 0 S0 = (S3574, true) := runSeg_comp 18 260829 73 0 S0 S3573 S3574 run3573 seg3573
theorem run3575 : runSeg 18 260975 0 S0 = (S3575, true) := runSeg_comp 18 260902 73 0 S0 S3574 S3575 run3574 seg3574
theorem run3576 : runSeg 18 261048 0 S0 = (S3576, true) := runSeg_comp 18 260975 73 0 S0 S3575 S3576 run3575 seg3575
theorem run3577 : runSeg 18 261121 0 S0 = (S3577, true) := runSeg_comp 18 261048 73 0 S0 S3576 S3577 run3576 seg3576
theorem run3578 : runSeg 18 261194 0 S0 = (S3578, true) := runSeg_comp 18 261121 73 0 S0 S3577 S3578 run3577 seg3577
theorem run3579 : runSeg 18 261267 0 S0 = (S3579, true) := runSeg_comp 18 261194 73 0 S0 S3578 S3579 run3578 seg3578
theorem run3580 : runSeg 18 261340 0 S0 = (S3580, true) := runSeg_comp 18 261267 73 0 S0 S3579 S3580 run3579 seg3579
theorem run3581 : runSeg 18 261413 0 S0 = (S3581, true) := runSeg_comp 18 261340 73 0 S0 S3580 S3581 run3580 seg3580
theorem run3582 : runSeg 18 261486 0 S0 = (S3582, true) := runSeg_comp 18 261413 73 0 S0 S3581 S3582 run3581 seg3581
theorem run3583 : runSeg 18 261559 0 S0 = (S3583, true) := runSeg_comp 18 261486 73 0 S0 S3582 S3583 run3582 seg3582
theorem run3584 : runSeg 18 261632 0 S0 = (S3584, true) := runSeg_comp 18 261559 73 0 S0 S3583 S3584 run3583 seg3583
theorem run3585 : runSeg 18 261705 0 S0 = (S3585, true) := runSeg_comp 18 261632 73 0 S0 S3584 S3585 run3584 seg3584
theorem run3586 : runSeg 18 261778 0 S0 = (S3586, true) := runSeg_comp 18 261705 73 0 S0 S3585 S3586 run3585 seg3585
theorem run3587 : runSeg 18 261851 0 S0 = (S3587, true) := runSeg_comp 18 261778 73 0 S0 S3586 S3587 run3586 seg3586
theorem run3588 : runSeg 18 261924 0 S0 = (S3588, true) := runSeg_comp 18 261851 73 0 S0 S3587 S3588 run3587 seg3587
theorem run3589 : runSeg 18 261997 0 S0 = (S3589, true) := runSeg_comp 18 261924 73 0 S0 S3588 S3589 run3588 seg3588
theorem run3590 : runSeg 18 262070 0 S0 = (S3590, true) := runSeg_comp 18 261997 73 0 S0 S3589 S3590 run3589 seg3589
theorem run3591 : runSeg 18 262143 0 S0 = (S3591, true) := runSeg_comp 18 262070 73 0 S0 S3590 S3591 run3590 seg3590

/-- the traversal of height 18 keeps the true authentication path at all 262144 indices -/
theorem traversal : TraversalCorrect 18 :=
  traversal_of_run 18 262143 S0 S3591 (by decide) setup run3591 last
end Qrl.BdsLabel.Seg18
