import QrlModel.Proofs.Seg.H18Setup0
import QrlModel.Proofs.Seg.H18Setup8
import QrlModel.Proofs.Seg.H18Setup16
import QrlModel.Proofs.Seg.H18Setup24
import QrlModel.Proofs.Seg.H18Setup32
import QrlModel.Proofs.Seg.H18Setup40
import QrlModel.Proofs.Seg.H18Setup48
import QrlModel.Proofs.Seg.H18Setup56
import QrlModel.Proofs.Seg.H18Setup64
import QrlModel.Proofs.Seg.H18Setup72
import QrlModel.Proofs.Seg.H18Setup80
import QrlModel.Proofs.Seg.H18Setup88
import QrlModel.Proofs.Seg.H18Setup96
import QrlModel.Proofs.Seg.H18Setup104
import QrlModel.Proofs.Seg.H18Setup112
import QrlModel.Proofs.Seg.H18Setup120
import QrlModel.Proofs.Seg.H18Setup128
import QrlModel.Proofs.Seg.H18Setup136
import QrlModel.Proofs.Seg.H18Setup144
import QrlModel.Proofs.Seg.H18Setup152
import QrlModel.Proofs.Seg.H18Setup160
import QrlModel.Proofs.Seg.H18Setup168
import QrlModel.Proofs.Seg.H18Setup176
import QrlModel.Proofs.Seg.H18Setup184
import QrlModel.Proofs.Seg.H18Setup192
import QrlModel.Proofs.Seg.H18Setup200
import QrlModel.Proofs.Seg.H18Setup208
import QrlModel.Proofs.Seg.H18Setup216
import QrlModel.Proofs.Seg.H18Setup224
import QrlModel.Proofs.Seg.H18Setup232
import QrlModel.Proofs.Seg.H18Setup240
import QrlModel.Proofs.Seg.H18Setup248
import QrlModel.Proofs.Seg.H18Setup256
import QrlModel.Proofs.Seg.H18Setup264
import QrlModel.Proofs.Seg.H18Setup272
import QrlModel.Proofs.Seg.H18Setup280
import QrlModel.Proofs.Seg.H18Setup288
import QrlModel.Proofs.Seg.H18Setup296
import QrlModel.Proofs.Seg.H18Setup304
import QrlModel.Proofs.Seg.H18Setup312
import QrlModel.Proofs.Seg.H18Setup320
import QrlModel.Proofs.Seg.H18Setup328
import QrlModel.Proofs.Seg.H18Setup336
import QrlModel.Proofs.Seg.H18Setup344
import QrlModel.Proofs.Seg.H18Setup352
import QrlModel.Proofs.Seg.H18Setup360
import QrlModel.Proofs.Seg.H18Setup368
import QrlModel.Proofs.Seg.H18Setup376
import QrlModel.Proofs.Seg.H18Setup384
import QrlModel.Proofs.Seg.H18Setup392
import QrlModel.Proofs.Seg.H18Setup400
import QrlModel.Proofs.Seg.H18Setup408
import QrlModel.Proofs.Seg.H18Setup416
import QrlModel.Proofs.Seg.H18Setup424
import QrlModel.Proofs.Seg.H18Setup432
import QrlModel.Proofs.Seg.H18Setup440
import QrlModel.Proofs.Seg.H18Setup448
import QrlModel.Proofs.Seg.H18Setup456
import QrlModel.Proofs.Seg.H18Setup464
import QrlModel.Proofs.Seg.H18Setup472
import QrlModel.Proofs.Seg.H18Setup480
import QrlModel.Proofs.Seg.H18Setup488
import QrlModel.Proofs.Seg.H18Setup496
import QrlModel.Proofs.Seg.H18Setup504
import QrlModel.Proofs.Seg.H18Setup512
import QrlModel.Proofs.Seg.H18Setup520
import QrlModel.Proofs.Seg.H18Setup528
import QrlModel.Proofs.Seg.H18Setup536
import QrlModel.Proofs.Seg.H18Setup544
import QrlModel.Proofs.Seg.H18Setup552
import QrlModel.Proofs.Seg.H18Setup560
import QrlModel.Proofs.Seg.H18Setup568
import QrlModel.Proofs.Seg.H18Setup576
import QrlModel.Proofs.Seg.H18Setup584
import QrlModel.Proofs.Seg.H18Setup592
import QrlModel.Proofs.Seg.H18Setup600
import QrlModel.Proofs.Seg.H18Setup608
import QrlModel.Proofs.Seg.H18Setup616
import QrlModel.Proofs.Seg.H18Setup624
import QrlModel.Proofs.Seg.H18Setup632
import QrlModel.Proofs.Seg.H18Setup640
import QrlModel.Proofs.Seg.H18Setup648
import QrlModel.Proofs.Seg.H18Setup656
import QrlModel.Proofs.Seg.H18Setup664
import QrlModel.Proofs.Seg.H18Setup672
import QrlModel.Proofs.Seg.H18Setup680
import QrlModel.Proofs.Seg.H18Setup688
import QrlModel.Proofs.Seg.H18Setup696
import QrlModel.Proofs.Seg.H18Setup704
import QrlModel.Proofs.Seg.H18Setup712
import QrlModel.Proofs.Seg.H18Setup720
import QrlModel.Proofs.Seg.H18Setup728
import QrlModel.Proofs.Seg.H18Setup736
import QrlModel.Proofs.Seg.H18Setup744
import QrlModel.Proofs.Seg.H18Setup752
import QrlModel.Proofs.Seg.H18Setup760
import QrlModel.Proofs.Seg.H18Setup768
import QrlModel.Proofs.Seg.H18Setup776
import QrlModel.Proofs.Seg.H18Setup784
import QrlModel.Proofs.Seg.H18Setup792
import QrlModel.Proofs.Seg.H18Setup800
import QrlModel.Proofs.Seg.H18Setup808
import QrlModel.Proofs.Seg.H18Setup816
import QrlModel.Proofs.Seg.H18Setup824
import QrlModel.Proofs.Seg.H18Setup832
import QrlModel.Proofs.Seg.H18Setup840
import QrlModel.Proofs.Seg.H18Setup848
import QrlModel.Proofs.Seg.H18Setup856
import QrlModel.Proofs.Seg.H18Setup864
import QrlModel.Proofs.Seg.H18Setup872
import QrlModel.Proofs.Seg.H18Setup880
import QrlModel.Proofs.Seg.H18Setup888
import QrlModel.Proofs.Seg.H18Setup896
import QrlModel.Proofs.Seg.H18Setup904
import QrlModel.Proofs.Seg.H18Setup912
import QrlModel.Proofs.Seg.H18Setup920
import QrlModel.Proofs.Seg.H18Setup928
import QrlModel.Proofs.Seg.H18Setup936
import QrlModel.Proofs.Seg.H18Setup944
import QrlModel.Proofs.Seg.H18Setup952
import QrlModel.Proofs.Seg.H18Setup960
import QrlModel.Proofs.Seg.H18Setup968
import QrlModel.Proofs.Seg.H18Setup976
import QrlModel.Proofs.Seg.H18Setup984
import QrlModel.Proofs.Seg.H18Setup992
import QrlModel.Proofs.Seg.H18Setup1000
import QrlModel.Proofs.Seg.H18Setup1008
import QrlModel.Proofs.Seg.H18Setup1016
import QrlModel.Proofs.Seg.H18States
-- GENERATED by tools/mk_segcert.py 18 73 3591 (committed; every equation below is re-checked by the kernel)
namespace Qrl.BdsLabel.Seg18
open Qrl.Bds
theorem srun1 : setupLoop ops 18 256 0 T0 = T1 := sseg0
theorem srun2 : setupLoop ops 18 512 0 T0 = T2 := setupLoop_comp 18 256 256 0 T0 T1 T2 srun1 sseg1
theorem srun3 : setupLoop ops 18 768 0 T0 = T3 := setupLoop_comp 18 512 256 0 T0 T2 T3 srun2 sseg2
theorem srun4 : setupLoop ops 18 1024 0 T0 = T4 := setupLoop_comp 18 768 256 0 T0 T3 T4 srun3 sseg3
theorem srun5 : setupLoop ops 18 1280 0 T0 = T5 := setupLoop_comp 18 1024 256 0 T0 T4 T5 srun4 sseg4
theorem srun6 : setupLoop ops 18 1536 0 T0 = T6 := setupLoop_comp 18 1280 256 0 T0 T5 T6 srun5 sseg5
theorem srun7 : setupLoop ops 18 1792 0 T0 = T7 := setupLoop_comp 18 1536 256 0 T0 T6 T7 srun6 sseg6
theorem srun8 : setupLoop ops 18 2048 0 T0 = T8 := setupLoop_comp 18 1792 256 0 T0 T7 T8 srun7 sseg7
theorem srun9 : setupLoop ops 18 2304 0 T0 = T9 := setupLoop_comp 18 2048 256 0 T0 T8 T9 srun8 sseg8
theorem srun10 : setupLoop ops 18 2560 0 T0 = T10 := setupLoop_comp 18 2304 256 0 T0 T9 T10 srun9 sseg9
theorem srun11 : setupLoop ops 18 2816 0 T0 = T11 := setupLoop_comp 18 2560 256 0 T0 T10 T11 srun10 sseg10
theorem srun12 : setupLoop ops 18 3072 0 T0 = T12 := setupLoop_comp 18 2816 256 0 T0 T11 T12 srun11 sseg11
theorem srun13 : setupLoop ops 18 3328 0 T0 = T13 := setupLoop_comp 18 3072 256 0 T0 T12 T13 srun12 sseg12
theorem srun14 : setupLoop ops 18 3584 0 T0 = T14 := setupLoop_comp 18 3328 256 0 T0 T13 T14 srun13 sseg13
theorem srun15 : setupLoop ops 18 3840 0 T0 = T15 := setupLoop_comp 18 3584 256 0 T0 T14 T15 srun14 sseg14
theorem srun16 : setupLoop ops 18 4096 0 T0 = T16 := setupLoop_comp 18 3840 256 0 T0 T15 T16 srun15 sseg15
theorem srun17 : setupLoop ops 18 4352 0 T0 = T17 := setupLoop_comp 18 4096 256 0 T0 T16 T17 srun16 sseg16
theorem srun18 : setupLoop ops 18 4608 0 T0 = T18 := setupLoop_comp 18 4352 256 0 T0 T17 T18 srun17 sseg17
theorem srun19 : setupLoop ops 18 4864 0 T0 = T19 := setupLoop_comp 18 4608 256 0 T0 T18 T19 srun18 sseg18
theorem srun20 : setupLoop ops 18 5120 0 T0 = T20 := setupLoop_comp 18 4864 256 0 T0 T19 T20 srun19 sseg19
theorem srun21 : setupLoop ops 18 5376 0 T0 = T21 := setupLoop_comp 18 5120 256 0 T0 T20 T21 srun20 sseg20
theorem srun22 : setupLoop ops 18 5632 0 T0 = T22 := setupLoop_comp 18 5376 256 0 T0 T21 T22 srun21 sseg21
theorem srun23 : setupLoop ops 18 5888 0 T0 = T23 := setupLoop_comp 18 5632 256 0 T0 T22 T23 srun22 sseg22
theorem srun24 : setupLoop ops 18 6144 0 T0 = T24 := setupLoop_comp 18 5888 256 0 T0 T23 T24 srun23 sseg23
theorem srun25 : setupLoop ops 18 6400 0 T0 = T25 := setupLoop_comp 18 6144 256 0 T0 T24 T25 srun24 sseg24
theorem srun26 : setupLoop ops 18 6656 0 T0 = T26 := setupLoop_comp 18 6400 256 0 T0 T25 T26 srun25 sseg25
theorem srun27 : setupLoop ops 18 6912 0 T0 = T27 := setupLoop_comp 18 6656 256 0 T0 T26 T27 srun26 sseg26
theorem srun28 : setupLoop ops 18 7168 0 T0 = T28 := setupLoop_comp 18 6912 256 0 T0 T27 T28 srun27 sseg27
theorem srun29 : setupLoop ops 18 7424 0 T0 = T29 := setupLoop_comp 18 7168 256 0 T0 T28 T29 srun28 sseg28
theorem srun30 : setupLoop ops 18 7680 0 T0 = T30 := setupLoop_comp 18 7424 256 0 T0 T29 T30 srun29 sseg29
theorem srun31 : setupLoop ops 18 7936 0 T0 = T31 := setupLoop_comp 18 7680 256 0 T0 T30 T31 srun30 sseg30
theorem srun32 : setupLoop ops 18 8192 0 T0 = T32 := setupLoop_comp 18 7936 256 0 T0 T31 T32 srun31 sseg31
theorem srun33 : setupLoop ops 18 8448 0 T0 = T33 := setupLoop_comp 18 8192 256 0 T0 T32 T33 srun32 sseg32
theorem srun34 : setupLoop ops 18 8704 0 T0 = T34 := setupLoop_comp 18 8448 256 0 T0 T33 T34 srun33 sseg33
theorem srun35 : setupLoop ops 18 8960 0 T0 = T35 := setupLoop_comp 18 8704 256 0 T0 T34 T35 srun34 sseg34
theorem srun36 : setupLoop ops 18 9216 0 T0 = T36 := setupLoop_comp 18 8960 256 0 T0 T35 T36 srun35 sseg35
theorem srun37 : setupLoop ops 18 9472 0 T0 = T37 := setupLoop_comp 18 9216 256 0 T0 T36 T37 srun36 sseg36
theorem srun38 : setupLoop ops 18 9728 0 T0 = T38 := setupLoop_comp 18 9472 256 0 T0 T37 T38 srun37 sseg37
theorem srun39 : setupLoop ops 18 9984 0 T0 = T39 := setupLoop_comp 18 9728 256 0 T0 T38 T39 srun38 sseg38
theorem srun40 : setupLoop ops 18 10240 0 T0 = T40 := setupLoop_comp 18 9984 256 0 T0 T39 T40 srun39 sseg39
theorem srun41 : setupLoop ops 18 10496 0 T0 = T41 := setupLoop_comp 18 10240 256 0 T0 T40 T41 srun40 sseg40
theorem srun42 : setupLoop ops 18 10752 0 T0 = T42 := setupLoop_comp 18 10496 256 0 T0 T41 T42 srun41 sseg41
theorem srun43 : setupLoop ops 18 11008 0 T0 = T43 := setupLoop_comp 18 10752 256 0 T0 T42 T43 srun42 sseg42
theorem srun44 : setupLoop ops 18 11264 0 T0 = T44 := setupLoop_comp 18 11008 256 0 T0 T43 T44 srun43 sseg43
theorem srun45 : setupLoop ops 18 11520 0 T0 = T45 := setupLoop_comp 18 11264 256 0 T0 T44 T45 srun44 sseg44
theorem srun46 : setupLoop ops 18 11776 0 T0 = T46 := setupLoop_comp 18 11520 256 0 T0 T45 T46 srun45 sseg45
theorem srun47 : setupLoop ops 18 12032 0 T0 = T47 := setupLoop_comp 18 11776 256 0 T0 T46 T47 srun46 sseg46
theorem srun48 : setupLoop ops 18 12288 0 T0 = T48 := setupLoop_comp 18 12032 256 0 T0 T47 T48 srun47 sseg47
theorem srun49 : setupLoop ops 18 12544 0 T0 = T49 := setupLoop_comp 18 12288 256 0 T0 T48 T49 srun48 sseg48
theorem srun50 : setupLoop ops 18 12800 0 T0 = T50 := setupLoop_comp 18 12544 256 0 T0 T49 T50 srun49 sseg49
theorem srun51 : setupLoop ops 18 13056 0 T0 = T51 := setupLoop_comp 18 12800 256 0 T0 T50 T51 srun50 sseg50
theorem srun52 : setupLoop ops 18 13312 0 T0 = T52 := setupLoop_comp 18 13056 256 0 T0 T51 T52 srun51 sseg51
theorem srun53 : setupLoop ops 18 13568 0 T0 = T53 := setupLoop_comp 18 13312 256 0 T0 T52 T53 srun52 sseg52
theorem srun54 : setupLoop ops 18 13824 0 T0 = T54 := setupLoop_comp 18 13568 256 0 T0 T53 T54 srun53 sseg53
theorem srun55 : setupLoop ops 18 14080 0 T0 = T55 := setupLoop_comp 18 13824 256 0 T0 T54 T55 srun54 sseg54
theorem srun56 : setupLoop ops 18 14336 0 T0 = T56 := setupLoop_comp 18 14080 256 0 T0 T55 T56 srun55 sseg55
theorem srun57 : setupLoop ops 18 14592 0 T0 = T57 := setupLoop_comp 18 14336 256 0 T0 T56 T57 srun56 sseg56
theorem srun58 : setupLoop ops 18 14848 0 T0 = T58 := setupLoop_comp 18 14592 256 0 T0 T57 T58 srun57 sseg57
theorem srun59 : setupLoop ops 18 15104 0 T0 = T59 := setupLoop_comp 18 14848 256 0 T0 T58 T59 srun58 sseg58
theorem srun60 : setupLoop ops 18 15360 0 T0 = T60 := setupLoop_comp 18 15104 256 0 T0 T59 T60 srun59 sseg59
theorem srun61 : setupLoop ops 18 15616 0 T0 = T61 := setupLoop_comp 18 15360 256 0 T0 T60 T61 srun60 sseg60
theorem srun62 : setupLoop ops 18 15872 0 T0 = T62 := setupLoop_comp 18 15616 256 0 T0 T61 T62 srun61 sseg61
theorem srun63 : setupLoop ops 18 16128 0 T0 = T63 := setupLoop_comp 18 15872 256 0 T0 T62 T63 srun62 sseg62
theorem srun64 : setupLoop ops 18 16384 0 T0 = T64 := setupLoop_comp 18 16128 256 0 T0 T63 T64 srun63 sseg63
theorem srun65 : setupLoop ops 18 16640 0 T0 = T65 := setupLoop_comp 18 16384 256 0 T0 T64 T65 srun64 sseg64
theorem srun66 : setupLoop ops 18 16896 0 T0 = T66 := setupLoop_comp 18 16640 256 0 T0 T65 T66 srun65 sseg65
theorem srun67 : setupLoop ops 18 17152 0 T0 = T67 := setupLoop_comp 18 16896 256 0 T0 T66 T67 srun66 sseg66
theorem srun68 : setupLoop ops 18 17408 0 T0 = T68 := setupLoop_comp 18 17152 256 0 T0 T67 T68 srun67 sseg67
theorem srun69 : setupLoop ops 18 17664 0 T0 = T69 := setupLoop_comp 18 17408 256 0 T0 T68 T69 srun68 sseg68
theorem srun70 : setupLoop ops 18 17920 0 T0 = T70 := setupLoop_comp 18 17664 256 0 T0 T69 T70 srun69 sseg69
theorem srun71 : setupLoop ops 18 18176 0 T0 = T71 := setupLoop_comp 18 17920 256 0 T0 T70 T71 srun70 sseg70
theorem srun72 : setupLoop ops 18 18432 0 T0 = T72 := setupLoop_comp 18 18176 256 0 T0 T71 T72 srun71 sseg71
theorem srun73 : setupLoop ops 18 18688 0 T0 = T73 := setupLoop_comp 18 18432 256 0 T0 T72 T73 srun72 sseg72
theorem srun74 : setupLoop ops 18 18944 0 T0 = T74 := setupLoop_comp 18 18688 256 0 T0 T73 T74 srun73 sseg73
theorem srun75 : setupLoop ops 18 19200 0 T0 = T75 := setupLoop_comp 18 18944 256 0 T0 T74 T75 srun74 sseg74
theorem srun76 : setupLoop ops 18 19456 0 T0 = T76 := setupLoop_comp 18 19200 256 0 T0 T75 T76 srun75 sseg75
theorem srun77 : setupLoop ops 18 19712 0 T0 = T77 := setupLoop_comp 18 19456 256 0 T0 T76 T77 srun76 sseg76
theorem srun78 : setupLoop ops 18 19968 0 T0 = T78 := setupLoop_comp 18 19712 256 0 T0 T77 T78 srun77 sseg77
theorem srun79 : setupLoop ops 18 20224 0 T0 = T79 := setupLoop_comp 18 19968 256 0 T0 T78 T79 srun78 sseg78
theorem srun80 : setupLoop ops 18 20480 0 T0 = T80 := setupLoop_comp 18 20224 256 0 T0 T79 T80 srun79 sseg79
theorem srun81 : setupLoop ops 18 20736 0 T0 = T81 := setupLoop_comp 18 20480 256 0 T0 T80 T81 srun80 sseg80
theorem srun82 : setupLoop ops 18 20992 0 T0 = T82 := setupLoop_comp 18 20736 256 0 T0 T81 T82 srun81 sseg81
theorem srun83 : setupLoop ops 18 21248 0 T0 = T83 := setupLoop_comp 18 20992 256 0 T0 T82 T83 srun82 sseg82
theorem srun84 : setupLoop ops 18 21504 0 T0 = T84 := setupLoop_comp 18 21248 256 0 T0 T83 T84 srun83 sseg83
theorem srun85 : setupLoop ops 18 21760 0 T0 = T85 := setupLoop_comp 18 21504 256 0 T0 T84 T85 srun84 sseg84
theorem srun86 : setupLoop ops 18 22016 0 T0 = T86 := setupLoop_comp 18 21760 256 0 T0 T85 T86 srun85 sseg85
theorem srun87 : setupLoop ops 18 22272 0 T0 = T87 := setupLoop_comp 18 22016 256 0 T0 T86 T87 srun86 sseg86
theorem srun88 : setupLoop ops 18 22528 0 T0 = T88 := setupLoop_comp 18 22272 256 0 T0 T87 T88 srun87 sseg87
theorem srun89 : setupLoop ops 18 22784 0 T0 = T89 := setupLoop_comp 18 22528 256 0 T0 T88 T89 srun88 sseg88
theorem srun90 : setupLoop ops 18 23040 0 T0 = T90 := setupLoop_comp 18 22784 256 0 T0 T89 T90 srun89 sseg89
theorem srun91 : setupLoop ops 18 23296 0 T0 = T91 := setupLoop_comp 18 23040 256 0 T0 T90 T91 srun90 sseg90
theorem srun92 : setupLoop ops 18 23552 0 T0 = T92 := setupLoop_comp 18 23296 256 0 T0 T91 T92 srun91 sseg91
theorem srun93 : setupLoop ops 18 23808 0 T0 = T93 := setupLoop_comp 18 23552 256 0 T0 T92 T93 srun92 sseg92
theorem srun94 : setupLoop ops 18 24064 0 T0 = T94 := setupLoop_comp 18 23808 256 0 T0 T93 T94 srun93 sseg93
theorem srun95 : setupLoop ops 18 24320 0 T0 = T95 := setupLoop_comp 18 24064 256 0 T0 T94 T95 srun94 sseg94
theorem srun96 : setupLoop ops 18 24576 0 T0 = T96 := setupLoop_comp 18 24320 256 0 T0 T95 T96 srun95 sseg95
theorem srun97 : setupLoop ops 18 24832 0 T0 = T97 := setupLoop_comp 18 24576 256 0 T0 T96 T97 srun96 sseg96
theorem srun98 : setupLoop ops 18 25088 0 T0 = T98 := setupLoop_comp 18 24832 256 0 T0 T97 T98 srun97 sseg97
theorem srun99 : setupLoop ops 18 25344 0 T0 = T99 := setupLoop_comp 18 25088 256 0 T0 T98 T99 srun98 sseg98
theorem srun100 : setupLoop ops 18 25600 0 T0 = T100 := setupLoop_comp 18 25344 256 0 T0 T99 T100 srun99 sseg99
theorem srun101 : setupLoop ops 18 25856 0 T0 = T101 := setupLoop_comp 18 25600 256 0 T0 T100 T101 srun100 sseg100
theorem srun102 : setupLoop ops 18 26112 0 T0 = T102 := setupLoop_comp 18 25856 256 0 T0 T101 T102 srun101 sseg101
theorem srun103 : setupLoop ops 18 26368 0 T0 = T103 := setupLoop_comp 18 26112 256 0 T0 T102 T103 srun102 sseg102
theorem srun104 : setupLoop ops 18 26624 0 T0 = T104 := setupLoop_comp 18 26368 256 0 T0 T103 T104 srun103 sseg103
theorem srun105 : setupLoop ops 18 26880 0 T0 = T105 := setupLoop_comp 18 26624 256 0 T0 T104 T105 srun104 sseg104
theorem srun106 : setupLoop ops 18 27136 0 T0 = T106 := setupLoop_comp 18 26880 256 0 T0 T105 T106 srun105 sseg105
theorem srun107 : setupLoop ops 18 27392 0 T0 = T107 := setupLoop_comp 18 27136 256 0 T0 T106 T107 srun106 sseg106
theorem srun108 : setupLoop ops 18 27648 0 T0 = T108 := setupLoop_comp 18 27392 256 0 T0 T107 T108 srun107 sseg107
theorem srun109 : setupLoop ops 18 27904 0 T0 = T109 := setupLoop_comp 18 27648 256 0 T0 T108 T109 srun108 sseg108
theorem srun110 : setupLoop ops 18 28160 0 T0 = T110 := setupLoop_comp 18 27904 256 0 T0 T109 T110 srun109 sseg109
theorem srun111 : setupLoop ops 18 28416 0 T0 = T111 := setupLoop_comp 18 28160 256 0 T0 T110 T111 srun110 sseg110
theorem srun112 : setupLoop ops 18 28672 0 T0 = T112 := setupLoop_comp 18 28416 256 0 T0 T111 T112 srun111 sseg111
theorem srun113 : setupLoop ops 18 28928 0 T0 = T113 := setupLoop_comp 18 28672 256 0 T0 T112 T113 srun112 sseg112
theorem srun114 : setupLoop ops 18 29184 0 T0 = T114 := setupLoop_comp 18 28928 256 0 T0 T113 T114 srun113 sseg113
theorem srun115 : setupLoop ops 18 29440 0 T0 = T115 := setupLoop_comp 18 29184 256 0 T0 T114 T115 srun114 sseg114
theorem srun116 : setupLoop ops 18 29696 0 T0 = T116 := setupLoop_comp 18 29440 256 0 T0 T115 T116 srun115 sseg115
theorem srun117 : setupLoop ops 18 29952 0 T0 = T117 := setupLoop_comp 18 29696 256 0 T0 T116 T117 srun116 sseg116
theorem srun118 : setupLoop ops 18 30208 0 T0 = T118 := setupLoop_comp 18 29952 256 0 T0 T117 T118 srun117 sseg117
theorem srun119 : setupLoop ops 18 30464 0 T0 = T119 := setupLoop_comp 18 30208 256 0 T0 T118 T119 srun118 sseg118
theorem srun120 : setupLoop ops 18 30720 0 T0 = T120 := setupLoop_comp 18 30464 256 0 T0 T119 T120 srun119 sseg119
theorem srun121 : setupLoop ops 18 30976 0 T0 = T121 := setupLoop_comp 18 30720 256 0 T0 T120 T121 srun120 sseg120
theorem srun122 : setupLoop ops 18 31232 0 T0 = T122 := setupLoop_comp 18 30976 256 0 T0 T121 T122 srun121 sseg121
theorem srun123 : setupLoop ops 18 31488 0 T0 = T123 := setupLoop_comp 18 31232 256 0 T0 T122 T123 srun122 sseg122
theorem srun124 : setupLoop ops 18 31744 0 T0 = T124 := setupLoop_comp 18 31488 256 0 T0 T123 T124 srun123 sseg123
theorem srun125 : setupLoop ops 18 32000 0 T0 = T125 := setupLoop_comp 18 31744 256 0 T0 T124 T125 srun124 sseg124
theorem srun126 : setupLoop ops 18 32256 0 T0 = T126 := setupLoop_comp 18 32000 256 0 T0 T125 T126 srun125 sseg125
theorem srun127 : setupLoop ops 18 32512 0 T0 = T127 := setupLoop_comp 18 32256 256 0 T0 T126 T127 srun126 sseg126
theorem srun128 : setupLoop ops 18 32768 0 T0 = T128 := setupLoop_comp 18 32512 256 0 T0 T127 T128 srun127 sseg127
theorem srun129 : setupLoop ops 18 33024 0 T0 = T129 := setupLoop_comp 18 32768 256 0 T0 T128 T129 srun128 sseg128
theorem srun130 : setupLoop ops 18 33280 0 T0 = T130 := setupLoop_comp 18 33024 256 0 T0 T129 T130 srun129 sseg129
theorem srun131 : setupLoop ops 18 33536 0 T0 = T131 := setupLoop_comp 18 33280 256 0 T0 T130 T131 srun130 sseg130
theorem srun132 : setupLoop ops 18 33792 0 T0 = T132 := setupLoop_comp 18 33536 256 0 T0 T131 T132 srun131 sseg131
theorem srun133 : setupLoop ops 18 34048 0 T0 = T133 := setupLoop_comp 18 33792 256 0 T0 T132 T133 srun132 sseg132
theorem srun134 : setupLoop ops 18 34304 0 T0 = T134 := setupLoop_comp 18 34048 256 0 T0 T133 T134 srun133 sseg133
theorem srun135 : setupLoop ops 18 34560 0 T0 = T135 := setupLoop_comp 18 34304 256 0 T0 T134 T135 srun134 sseg134
theorem srun136 : setupLoop ops 18 34816 0 T0 = T136 := setupLoop_comp 18 34560 256 0 T0 T135 T136 srun135 sseg135
theorem srun137 : setupLoop ops 18 35072 0 T0 = T137 := setupLoop_comp 18 34816 256 0 T0 T136 T137 srun136 sseg136
theorem srun138 : setupLoop ops 18 35328 0 T0 = T138 := setupLoop_comp 18 35072 256 0 T0 T137 T138 srun137 sseg137
theorem srun139 : setupLoop ops 18 35584 0 T0 = T139 := setupLoop_comp 18 35328 256 0 T0 T138 T139 srun138 sseg138
theorem srun140 : setupLoop ops 18 35840 0 T0 = T140 := setupLoop_comp 18 35584 256 0 T0 T139 T140 srun139 sseg139
theorem srun141 : setupLoop ops 18 36096 0 T0 = T141 := setupLoop_comp 18 35840 256 0 T0 T140 T141 srun140 sseg140
theorem srun142 : setupLoop ops 18 36352 0 T0 = T142 := setupLoop_comp 18 36096 256 0 T0 T141 T142 srun141 sseg141
theorem srun143 : setupLoop ops 18 36608 0 T0 = T143 := setupLoop_comp 18 36352 256 0 T0 T142 T143 srun142 sseg142
theorem srun144 : setupLoop ops 18 36864 0 T0 = T144 := setupLoop_comp 18 36608 256 0 T0 T143 T144 srun143 sseg143
theorem srun145 : setupLoop ops 18 37120 0 T0 = T145 := setupLoop_comp 18 36864 256 0 T0 T144 T145 srun144 sseg144
theorem srun146 : setupLoop ops 18 37376 0 T0 = T146 := setupLoop_comp 18 37120 256 0 T0 T145 T146 srun145 sseg145
theorem srun147 : setupLoop ops 18 37632 0 T0 = T147 := setupLoop_comp 18 37376 256 0 T0 T146 T147 srun146 sseg146
theorem srun148 : setupLoop ops 18 37888 0 T0 = T148 := setupLoop_comp 18 37632 256 0 T0 T147 T148 srun147 sseg147
theorem srun149 : setupLoop ops 18 38144 0 T0 = T149 := setupLoop_comp 18 37888 256 0 T0 T148 T149 srun148 sseg148
theorem srun150 : setupLoop ops 18 38400 0 T0 = T150 := setupLoop_comp 18 38144 256 0 T0 T149 T150 srun149 sseg149
theorem srun151 : setupLoop ops 18 38656 0 T0 = T151 := setupLoop_comp 18 38400 256 0 T0 T150 T151 srun150 sseg150
theorem srun152 : setupLoop ops 18 38912 0 T0 = T152 := setupLoop_comp 18 38656 256 0 T0 T151 T152 srun151 sseg151
theorem srun153 : setupLoop ops 18 39168 0 T0 = T153 := setupLoop_comp 18 38912 256 0 T0 T152 T153 srun152 sseg152
theorem srun154 : setupLoop ops 18 39424 0 T0 = T154 := setupLoop_comp 18 39168 256 0 T0 T153 T154 srun153 sseg153
theorem srun155 : setupLoop ops 18 39680 0 T0 = T155 := setupLoop_comp 18 39424 256 0 T0 T154 T155 srun154 sseg154
theorem srun156 : setupLoop ops 18 39936 0 T0 = T156 := setupLoop_comp 18 39680 256 0 T0 T155 T156 srun155 sseg155
theorem srun157 : setupLoop ops 18 40192 0 T0 = T157 := setupLoop_comp 18 39936 256 0 T0 T156 T157 srun156 sseg156
theorem srun158 : setupLoop ops 18 40448 0 T0 = T158 := setupLoop_comp 18 40192 256 0 T0 T157 T158 srun157 sseg157
theorem srun159 : setupLoop ops 18 40704 0 T0 = T159 := setupLoop_comp 18 40448 256 0 T0 T158 T159 srun158 sseg158
theorem srun160 : setupLoop ops 18 40960 0 T0 = T160 := setupLoop_comp 18 40704 256 0 T0 T159 T160 srun159 sseg159
theorem srun161 : setupLoop ops 18 41216 0 T0 = T161 := setupLoop_comp 18 40960 256 0 T0 T160 T161 srun160 sseg160
theorem srun162 : setupLoop ops 18 41472 0 T0 = T162 := setupLoop_comp 18 41216 256 0 T0 T161 T162 srun161 sseg161
theorem srun163 : setupLoop ops 18 41728 0 T0 = T163 := setupLoop_comp 18 41472 256 0 T0 T162 T163 srun162 sseg162
theorem srun164 : setupLoop ops 18 41984 0 T0 = T164 := setupLoop_comp 18 41728 256 0 T0 T163 T164 srun163 sseg163
theorem srun165 : setupLoop ops 18 42240 0 T0 = T165 := setupLoop_comp 18 41984 256 0 T0 T164 T165 srun164 sseg164
theorem srun166 : setupLoop ops 18 42496 0 T0 = T166 := setupLoop_comp 18 42240 256 0 T0 T165 T166 srun165 sseg165
theorem srun167 : setupLoop ops 18 42752 0 T0 = T167 := setupLoop_comp 18 42496 256 0 T0 T166 T167 srun166 sseg166
theorem srun168 : setupLoop ops 18 43008 0 T0 = T168 := setupLoop_comp 18 42752 256 0 T0 T167 T168 srun167 sseg167
theorem srun169 : setupLoop ops 18 43264 0 T0 = T169 := setupLoop_comp 18 43008 256 0 T0 T168 T169 srun168 sseg168
theorem srun170 : setupLoop ops 18 43520 0 T0 = T170 := setupLoop_comp 18 43264 256 0 T0 T169 T170 srun169 sseg169
theorem srun171 : setupLoop ops 18 43776 0 T0 = T171 := setupLoop_comp 18 43520 256 0 T0 T170 T171 srun170 sseg170
theorem srun172 : setupLoop ops 18 44032 0 T0 = T172 := setupLoop_comp 18 43776 256 0 T0 T171 T172 srun171 sseg171
theorem srun173 : setupLoop ops 18 44288 0 T0 = T173 := setupLoop_comp 18 44032 256 0 T0 T172 T173 srun172 sseg172
theorem srun174 : setupLoop ops 18 44544 0 T0 = T174 := setupLoop_comp 18 44288 256 0 T0 T173 T174 srun173 sseg173
theorem srun175 : setupLoop ops 18 44800 0 T0 = T175 := setupLoop_comp 18 44544 256 0 T0 T174 T175 srun174 sseg174
theorem srun176 : setupLoop ops 18 45056 0 T0 = T176 := setupLoop_comp 18 44800 256 0 T0 T175 T176 srun175 sseg175
theorem srun177 : setupLoop ops 18 45312 0 T0 = T177 := setupLoop_comp 18 45056 256 0 T0 T176 T177 srun176 sseg176
theorem srun178 : setupLoop ops 18 45568 0 T0 = T178 := setupLoop_comp 18 45312 256 0 T0 T177 T178 srun177 sseg177
theorem srun179 : setupLoop ops 18 45824 0 T0 = T179 := setupLoop_comp 18 45568 256 0 T0 T178 T179 srun178 sseg178
theorem srun180 : setupLoop ops 18 46080 0 T0 = T180 := setupLoop_comp 18 45824 256 0 T0 T179 T180 srun179 sseg179
theorem srun181 : setupLoop ops 18 46336 0 T0 = T181 := setupLoop_comp 18 46080 256 0 T0 T180 T181 srun180 sseg180
theorem srun182 : setupLoop ops 18 46592 0 T0 = T182 := setupLoop_comp 18 46336 256 0 T0 T181 T182 srun181 sseg181
theorem srun183 : setupLoop ops 18 46848 0 T0 = T183 := setupLoop_comp 18 46592 256 0 T0 T182 T183 srun182 sseg182
theorem srun184 : setupLoop ops 18 47104 0 T0 = T184 := setupLoop_comp 18 46848 256 0 T0 T183 T184 srun183 sseg183
theorem srun185 : setupLoop ops 18 47360 0 T0 = T185 := setupLoop_comp 18 47104 256 0 T0 T184 T185 srun184 sseg184
theorem srun186 : setupLoop ops 18 47616 0 T0 = T186 := setupLoop_comp 18 47360 256 0 T0 T185 T186 srun185 sseg185
theorem srun187 : setupLoop ops 18 47872 0 T0 = T187 := setupLoop_comp 18 47616 256 0 T0 T186 T187 srun186 sseg186
theorem srun188 : setupLoop ops 18 48128 0 T0 = T188 := setupLoop_comp 18 47872 256 0 T0 T187 T188 srun187 sseg187
theorem srun189 : setupLoop ops 18 48384 0 T0 = T189 := setupLoop_comp 18 48128 256 0 T0 T188 T189 srun188 sseg188
theorem srun190 : setupLoop ops 18 48640 0 T0 = T190 := setupLoop_comp 18 48384 256 0 T0 T189 T190 srun189 sseg189
theorem srun191 : setupLoop ops 18 48896 0 T0 = T191 := setupLoop_comp 18 48640 256 0 T0 T190 T191 srun190 sseg190
theorem srun192 : setupLoop ops 18 49152 0 T0 = T192 := setupLoop_comp 18 48896 256 0 T0 T191 T192 srun191 sseg191
theorem srun193 : setupLoop ops 18 49408 0 T0 = T193 := setupLoop_comp 18 49152 256 0 T0 T192 T193 srun192 sseg192
theorem srun194 : setupLoop ops 18 49664 0 T0 = T194 := setupLoop_comp 18 49408 256 0 T0 T193 T194 srun193 sseg193
theorem srun195 : setupLoop ops 18 49920 0 T0 = T195 := setupLoop_comp 18 49664 256 0 T0 T194 T195 srun194 sseg194
theorem srun196 : setupLoop ops 18 50176 0 T0 = T196 := setupLoop_comp 18 49920 256 0 T0 T195 T196 srun195 sseg195
theorem srun197 : setupLoop ops 18 50432 0 T0 = T197 := setupLoop_comp 18 50176 256 0 T0 T196 T197 srun196 sseg196
theorem srun198 : setupLoop ops 18 50688 0 T0 = T198 := setupLoop_comp 18 50432 256 0 T0 T197 T198 srun197 sseg197
theorem srun199 : setupLoop ops 18 50944 0 T0 = T199 := setupLoop_comp 18 50688 256 0 T0 T198 T199 srun198 sseg198
theorem srun200 : setupLoop ops 18 51200 0 T0 = T200 := setupLoop_comp 18 50944 256 0 T0 T199 T200 srun199 sseg199
theorem srun201 : setupLoop ops 18 51456 0 T0 = T201 := setupLoop_comp 18 51200 256 0 T0 T200 T201 srun200 sseg200
theorem srun202 : setupLoop ops 18 51712 0 T0 = T202 := setupLoop_comp 18 51456 256 0 T0 T201 T202 srun201 sseg201
theorem srun203 : setupLoop ops 18 51968 0 T0 = T203 := setupLoop_comp 18 51712 256 0 T0 T202 T203 srun202 sseg202
theorem srun204 : setupLoop ops 18 52224 0 T0 = T204 := setupLoop_comp 18 51968 256 0 T0 T203 T204 srun203 sseg203
theorem srun205 : setupLoop ops 18 52480 0 T0 = T205 := setupLoop_comp 18 52224 256 0 T0 T204 T205 srun204 sseg204
theorem srun206 : setupLoop ops 18 52736 0 T0 = T206 := setupLoop_comp 18 52480 256 0 T0 T205 T206 srun205 sseg205
theorem srun207 : setupLoop ops 18 52992 0 T0 = T207 := setupLoop_comp 18 52736 256 0 T0 T206 T207 srun206 sseg206
theorem srun208 : setupLoop ops 18 53248 0 T0 = T208 := setupLoop_comp 18 52992 256 0 T0 T207 T208 srun207 sseg207
theorem srun209 : setupLoop ops 18 53504 0 T0 = T209 := setupLoop_comp 18 53248 256 0 T0 T208 T209 srun208 sseg208
theorem srun210 : setupLoop ops 18 53760 0 T0 = T210 := setupLoop_comp 18 53504 256 0 T0 T209 T210 srun209 sseg209
theorem srun211 : setupLoop ops 18 54016 0 T0 = T211 := setupLoop_comp 18 53760 256 0 T0 T210 T211 srun210 sseg210
theorem srun212 : setupLoop ops 18 54272 0 T0 = T212 := setupLoop_comp 18 54016 256 0 T0 T211 T212 srun211 sseg211
theorem srun213 : setupLoop ops 18 54528 0 T0 = T213 := setupLoop_comp 18 54272 256 0 T0 T212 T213 srun212 sseg212
theorem srun214 : setupLoop ops 18 54784 0 T0 = T214 := setupLoop_comp 18 54528 256 0 T0 T213 T214 srun213 sseg213
theorem srun215 : setupLoop ops 18 55040 0 T0 = T215 := setupLoop_comp 18 54784 256 0 T0 T214 T215 srun214 sseg214
theorem srun216 : setupLoop ops 18 55296 0 T0 = T216 := setupLoop_comp 18 55040 256 0 T0 T215 T216 srun215 sseg215
theorem srun217 : setupLoop ops 18 55552 0 T0 = T217 := setupLoop_comp 18 55296 256 0 T0 T216 T217 srun216 sseg216
theorem srun218 : setupLoop ops 18 55808 0 T0 = T218 := setupLoop_comp 18 55552 256 0 T0 T217 T218 srun217 sseg217
theorem srun219 : setupLoop ops 18 56064 0 T0 = T219 := setupLoop_comp 18 55808 256 0 T0 T218 T219 srun218 sseg218
theorem srun220 : setupLoop ops 18 56320 0 T0 = T220 := setupLoop_comp 18 56064 256 0 T0 T219 T220 srun219 sseg219
theorem srun221 : setupLoop ops 18 56576 0 T0 = T221 := setupLoop_comp 18 56320 256 0 T0 T220 T221 srun220 sseg220
theorem srun222 : setupLoop ops 18 56832 0 T0 = T222 := setupLoop_comp 18 56576 256 0 T0 T221 T222 srun221 sseg221
theorem srun223 : setupLoop ops 18 57088 0 T0 = T223 := setupLoop_comp 18 56832 256 0 T0 T222 T223 srun222 sseg222
theorem srun224 : setupLoop ops 18 57344 0 T0 = T224 := setupLoop_comp 18 57088 256 0 T0 T223 T224 srun223 sseg223
theorem srun225 : setupLoop ops 18 57600 0 T0 = T225 := setupLoop_comp 18 57344 256 0 T0 T224 T225 srun224 sseg224
theorem srun226 : setupLoop ops 18 57856 0 T0 = T226 := setupLoop_comp 18 57600 256 0 T0 T225 T226 srun225 sseg225
theorem srun227 : setupLoop ops 18 58112 0 T0 = T227 := setupLoop_comp 18 57856 256 0 T0 T226 T227 srun226 sseg226
theorem srun228 : setupLoop ops 18 58368 0 T0 = T228 := setupLoop_comp 18 58112 256 0 T0 T227 T228 srun227 sseg227
theorem srun229 : setupLoop ops 18 58624 0 T0 = T229 := setupLoop_comp 18 58368 256 0 T0 T228 T229 srun228 sseg228
theorem srun230 : setupLoop ops 18 58880 0 T0 = T230 := setupLoop_comp 18 58624 256 0 T0 T229 T230 srun229 sseg229
theorem srun231 : setupLoop ops 18 59136 0 T0 = T231 := setupLoop_comp 18 58880 256 0 T0 T230 T231 srun230 sseg230
theorem srun232 : setupLoop ops 18 59392 0 T0 = T232 := setupLoop_comp 18 59136 256 0 T0 T231 T232 srun231 sseg231
theorem srun233 : setupLoop ops 18 59648 0 T0 = T233 := setupLoop_comp 18 59392 256 0 T0 T232 T233 srun232 sseg232
theorem srun234 : setupLoop ops 18 59904 0 T0 = T234 := setupLoop_comp 18 59648 256 0 T0 T233 T234 srun233 sseg233
theorem srun235 : setupLoop ops 18 60160 0 T0 = T235 := setupLoop_comp 18 59904 256 0 T0 T234 T235 srun234 sseg234
theorem srun236 : setupLoop ops 18 60416 0 T0 = T236 := setupLoop_comp 18 60160 256 0 T0 T235 T236 srun235 sseg235
theorem srun237 : setupLoop ops 18 60672 0 T0 = T237 := setupLoop_comp 18 60416 256 0 T0 T236 T237 srun236 sseg236
theorem srun238 : setupLoop ops 18 60928 0 T0 = T238 := setupLoop_comp 18 60672 256 0 T0 T237 T238 srun237 sseg237
theorem srun239 : setupLoop ops 18 61184 0 T0 = T239 := setupLoop_comp 18 60928 256 0 T0 T238 T239 srun238 sseg238
theorem srun240 : setupLoop ops 18 61440 0 T0 = T240 := setupLoop_comp 18 61184 256 0 T0 T239 T240 srun239 sseg239
theorem srun241 : setupLoop ops 18 61696 0 T0 = T241 := setupLoop_comp 18 61440 256 0 T0 T240 T241 srun240 sseg240
theorem srun242 : setupLoop ops 18 61952 0 T0 = T242 := setupLoop_comp 18 61696 256 0 T0 T241 T242 srun241 sseg241
theorem srun243 : setupLoop ops 18 62208 0 T0 = T243 := setupLoop_comp 18 61952 256 0 T0 T242 T243 srun242 sseg242
theorem srun244 : setupLoop ops 18 62464 0 T0 = T244 := setupLoop_comp 18 62208 256 0 T0 T243 T244 srun243 sseg243
theorem srun245 : setupLoop ops 18 62720 0 T0 = T245 := setupLoop_comp 18 62464 256 0 T0 T244 T245 srun244 sseg244
theorem srun246 : setupLoop ops 18 62976 0 T0 = T246 := setupLoop_comp 18 62720 256 0 T0 T245 T246 srun245 sseg245
theorem srun247 : setupLoop ops 18 63232 0 T0 = T247 := setupLoop_comp 18 62976 256 0 T0 T246 T247 srun246 sseg246
theorem srun248 : setupLoop ops 18 63488 0 T0 = T248 := setupLoop_comp 18 63232 256 0 T0 T247 T248 srun247 sseg247
theorem srun249 : setupLoop ops 18 63744 0 T0 = T249 := setupLoop_comp 18 63488 256 0 T0 T248 T249 srun248 sseg248
theorem srun250 : setupLoop ops 18 64000 0 T0 = T250 := setupLoop_comp 18 63744 256 0 T0 T249 T250 srun249 sseg249
theorem srun251 : setupLoop ops 18 64256 0 T0 = T251 := setupLoop_comp 18 64000 256 0 T0 T250 T251 srun250 sseg250
theorem srun252 : setupLoop ops 18 64512 0 T0 = T252 := setupLoop_comp 18 64256 256 0 T0 T251 T252 srun251 sseg251
theorem srun253 : setupLoop ops 18 64768 0 T0 = T253 := setupLoop_comp 18 64512 256 0 T0 T252 T253 srun252 sseg252
theorem srun254 : setupLoop ops 18 65024 0 T0 = T254 := setupLoop_comp 18 64768 256 0 T0 T253 T254 srun253 sseg253
theorem srun255 : setupLoop ops 18 65280 0 T0 = T255 := setupLoop_comp 18 65024 256 0 T0 T254 T255 srun254 sseg254
theorem srun256 : setupLoop ops 18 65536 0 T0 = T256 := setupLoop_comp 18 65280 256 0 T0 T255 T256 srun255 sseg255
theorem srun257 : setupLoop ops 18 65792 0 T0 = T257 := setupLoop_comp 18 65536 256 0 T0 T256 T257 srun256 sseg256
theorem srun258 : setupLoop ops 18 66048 0 T0 = T258 := setupLoop_comp 18 65792 256 0 T0 T257 T258 srun257 sseg257
theorem srun259 : setupLoop ops 18 66304 0 T0 = T259 := setupLoop_comp 18 66048 256 0 T0 T258 T259 srun258 sseg258
theorem srun260 : setupLoop ops 18 66560 0 T0 = T260 := setupLoop_comp 18 66304 256 0 T0 T259 T260 srun259 sseg259
theorem srun261 : setupLoop ops 18 66816 0 T0 = T261 := setupLoop_comp 18 66560 256 0 T0 T260 T261 srun260 sseg260
theorem srun262 : setupLoop ops 18 67072 0 T0 = T262 := setupLoop_comp 18 66816 256 0 T0 T261 T262 srun261 sseg261
theorem srun263 : setupLoop ops 18 67328 0 T0 = T263 := setupLoop_comp 18 67072 256 0 T0 T262 T263 srun262 sseg262
theorem srun264 : setupLoop ops 18 67584 0 T0 = T264 := setupLoop_comp 18 67328 256 0 T0 T263 T264 srun263 sseg263
theorem srun265 : setupLoop ops 18 67840 0 T0 = T265 := setupLoop_comp 18 67584 256 0 T0 T264 T265 srun264 sseg264
theorem srun266 : setupLoop ops 18 68096 0 T0 = T266 := setupLoop_comp 18 67840 256 0 T0 T265 T266 srun265 sseg265
theorem srun267 : setupLoop ops 18 68352 0 T0 = T267 := setupLoop_comp 18 68096 256 0 T0 T266 T267 srun266 sseg266
theorem srun268 : setupLoop ops 18 68608 0 T0 = T268 := setupLoop_comp 18 68352 256 0 T0 T267 T268 srun267 sseg267
theorem srun269 : setupLoop ops 18 68864 0 T0 = T269 := setupLoop_comp 18 68608 256 0 T0 T268 T269 srun268 sseg268
theorem srun270 : setupLoop ops 18 69120 0 T0 = T270 := setupLoop_comp 18 68864 256 0 T0 T269 T270 srun269 sseg269
theorem srun271 : setupLoop ops 18 69376 0 T0 = T271 := setupLoop_comp 18 69120 256 0 T0 T270 T271 srun270 sseg270
theorem srun272 : setupLoop ops 18 69632 0 T0 = T272 := setupLoop_comp 18 69376 256 0 T0 T271 T272 srun271 sseg271
theorem srun273 : setupLoop ops 18 69888 0 T0 = T273 := setupLoop_comp 18 69632 256 0 T0 T272 T273 srun272 sseg272
theorem srun274 : setupLoop ops 18 70144 0 T0 = T274 := setupLoop_comp 18 69888 256 0 T0 T273 T274 srun273 sseg273
theorem srun275 : setupLoop ops 18 70400 0 T0 = T275 := setupLoop_comp 18 70144 256 0 T0 T274 T275 srun274 sseg274
theorem srun276 : setupLoop ops 18 70656 0 T0 = T276 := setupLoop_comp 18 70400 256 0 T0 T275 T276 srun275 sseg275
theorem srun277 : setupLoop ops 18 70912 0 T0 = T277 := setupLoop_comp 18 70656 256 0 T0 T276 T277 srun276 sseg276
theorem srun278 : setupLoop ops 18 71168 0 T0 = T278 := setupLoop_comp 18 70912 256 0 T0 T277 T278 srun277 sseg277
theorem srun279 : setupLoop ops 18 71424 0 T0 = T279 := setupLoop_comp 18 71168 256 0 T0 T278 T279 srun278 sseg278
theorem srun280 : setupLoop ops 18 71680 0 T0 = T280 := setupLoop_comp 18 71424 256 0 T0 T279 T280 srun279 sseg279
theorem srun281 : setupLoop ops 18 71936 0 T0 = T281 := setupLoop_comp 18 71680 256 0 T0 T280 T281 srun280 sseg280
theorem srun282 : setupLoop ops 18 72192 0 T0 = T282 := setupLoop_comp 18 71936 256 0 T0 T281 T282 srun281 sseg281
theorem srun283 : setupLoop ops 18 72448 0 T0 = T283 := setupLoop_comp 18 72192 256 0 T0 T282 T283 srun282 sseg282
theorem srun284 : setupLoop ops 18 72704 0 T0 = T284 := setupLoop_comp 18 72448 256 0 T0 T283 T284 srun283 sseg283
theorem srun285 : setupLoop ops 18 72960 0 T0 = T285 := setupLoop_comp 18 72704 256 0 T0 T284 T285 srun284 sseg284
theorem srun286 : setupLoop ops 18 73216 0 T0 = T286 := setupLoop_comp 18 72960 256 0 T0 T285 T286 srun285 sseg285
theorem srun287 : setupLoop ops 18 73472 0 T0 = T287 := setupLoop_comp 18 73216 256 0 T0 T286 T287 srun286 sseg286
theorem srun288 : setupLoop ops 18 73728 0 T0 = T288 := setupLoop_comp 18 73472 256 0 T0 T287 T288 srun287 sseg287
theorem srun289 : setupLoop ops 18 73984 0 T0 = T289 := setupLoop_comp 18 73728 256 0 T0 T288 T289 srun288 sseg288
theorem srun290 : setupLoop ops 18 74240 0 T0 = T290 := setupLoop_comp 18 73984 256 0 T0 T289 T290 srun289 sseg289
theorem srun291 : setupLoop ops 18 74496 0 T0 = T291 := setupLoop_comp 18 74240 256 0 T0 T290 T291 srun290 sseg290
theorem srun292 : setupLoop ops 18 74752 0 T0 = T292 := setupLoop_comp 18 74496 256 0 T0 T291 T292 srun291 sseg291
theorem srun293 : setupLoop ops 18 75008 0 T0 = T293 := setupLoop_comp 18 74752 256 0 T0 T292 T293 srun292 sseg292
theorem srun294 : setupLoop ops 18 75264 0 T0 = T294 := setupLoop_comp 18 75008 256 0 T0 T293 T294 srun293 sseg293
theorem srun295 : setupLoop ops 18 75520 0 T0 = T295 := setupLoop_comp 18 75264 256 0 T0 T294 T295 srun294 sseg294
theorem srun296 : setupLoop ops 18 75776 0 T0 = T296 := setupLoop_comp 18 75520 256 0 T0 T295 T296 srun295 sseg295
theorem srun297 : setupLoop ops 18 76032 0 T0 = T297 := setupLoop_comp 18 75776 256 0 T0 T296 T297 srun296 sseg296
theorem srun298 : setupLoop ops 18 76288 0 T0 = T298 := setupLoop_comp 18 76032 256 0 T0 T297 T298 srun297 sseg297
theorem srun299 : setupLoop ops 18 76544 0 T0 = T299 := setupLoop_comp 18 76288 256 0 T0 T298 T299 srun298 sseg298
theorem srun300 : setupLoop ops 18 76800 0 T0 = T300 := setupLoop_comp 18 76544 256 0 T0 T299 T300 srun299 sseg299
theorem srun301 : setupLoop ops 18 77056 0 T0 = T301 := setupLoop_comp 18 76800 256 0 T0 T300 T301 srun300 sseg300
theorem srun302 : setupLoop ops 18 77312 0 T0 = T302 := setupLoop_comp 18 77056 256 0 T0 T301 T302 srun301 sseg301
theorem srun303 : setupLoop ops 18 77568 0 T0 = T303 := setupLoop_comp 18 77312 256 0 T0 T302 T303 srun302 sseg302
theorem srun304 : setupLoop ops 18 77824 0 T0 = T304 := setupLoop_comp 18 77568 256 0 T0 T303 T304 srun303 sseg303
theorem srun305 : setupLoop ops 18 78080 0 T0 = T305 := setupLoop_comp 18 77824 256 0 T0 T304 T305 srun304 sseg304
theorem srun306 : setupLoop ops 18 78336 0 T0 = T306 := setupLoop_comp 18 78080 256 0 T0 T305 T306 srun305 sseg305
theorem srun307 : setupLoop ops 18 78592 0 T0 = T307 := setupLoop_comp 18 78336 256 0 T0 T306 T307 srun306 sseg306
theorem srun308 : setupLoop ops 18 78848 0 T0 = T308 := setupLoop_comp 18 78592 256 0 T0 T307 T308 srun307 sseg307
theorem srun309 : setupLoop ops 18 79104 0 T0 = T309 := setupLoop_comp 18 78848 256 0 T0 T308 T309 srun308 sseg308
theorem srun310 : setupLoop ops 18 79360 0 T0 = T310 := setupLoop_comp 18 79104 256 0 T0 T309 T310 srun309 sseg309
theorem srun311 : setupLoop ops 18 79616 0 T0 = T311 := setupLoop_comp 18 79360 256 0 T0 T310 T311 srun310 sseg310
theorem srun312 : setupLoop ops 18 79872 0 T0 = T312 := setupLoop_comp 18 79616 256 0 T0 T311 T312 srun311 sseg311
theorem srun313 : setupLoop ops 18 80128 0 T0 = T313 := setupLoop_comp 18 79872 256 0 T0 T312 T313 srun312 sseg312
theorem srun314 : setupLoop ops 18 80384 0 T0 = T314 := setupLoop_comp 18 80128 256 0 T0 T313 T314 srun313 sseg313
theorem srun315 : setupLoop ops 18 80640 0 T0 = T315 := setupLoop_comp 18 80384 256 0 T0 T314 T315 srun314 sseg314
theorem srun316 : setupLoop ops 18 80896 0 T0 = T316 := setupLoop_comp 18 80640 256 0 T0 T315 T316 srun315 sseg315
theorem srun317 : setupLoop ops 18 81152 0 T0 = T317 := setupLoop_comp 18 80896 256 0 T0 T316 T317 srun316 sseg316
theorem srun318 : setupLoop ops 18 81408 0 T0 = T318 := setupLoop_comp 18 81152 256 0 T0 T317 T318 srun317 sseg317
theorem srun319 : setupLoop ops 18 81664 0 T0 = T319 := setupLoop_comp 18 81408 256 0 T0 T318 T319 srun318 sseg318
theorem srun320 : setupLoop ops 18 81920 0 T0 = T320 := setupLoop_comp 18 81664 256 0 T0 T319 T320 srun319 sseg319
theorem srun321 : setupLoop ops 18 82176 0 T0 = T321 := setupLoop_comp 18 81920 256 0 T0 T320 T321 srun320 sseg320
theorem srun322 : setupLoop ops 18 82432 0 T0 = T322 := setupLoop_comp 18 82176 256 0 T0 T321 T322 srun321 sseg321
theorem srun323 : setupLoop ops 18 82688 0 T0 = T323 := setupLoop_comp 18 82432 256 0 T0 T322 T323 srun322 sseg322
theorem srun324 : setupLoop ops 18 82944 0 T0 = T324 := setupLoop_comp 18 82688 256 0 T0 T323 T324 srun323 sseg323
theorem srun325 : setupLoop ops 18 83200 0 T0 = T325 := setupLoop_comp 18 82944 256 0 T0 T324 T325 srun324 sseg324
theorem srun326 : setupLoop ops 18 83456 0 T0 = T326 := setupLoop_comp 18 83200 256 0 T0 T325 T326 srun325 sseg325
theorem srun327 : setupLoop ops 18 83712 0 T0 = T327 := setupLoop_comp 18 83456 256 0 T0 T326 T327 srun326 sseg326
theorem srun328 : setupLoop ops 18 83968 0 T0 = T328 := setupLoop_comp 18 83712 256 0 T0 T327 T328 srun327 sseg327
theorem srun329 : setupLoop ops 18 84224 0 T0 = T329 := setupLoop_comp 18 83968 256 0 T0 T328 T329 srun328 sseg328
theorem srun330 : setupLoop ops 18 84480 0 T0 = T330 := setupLoop_comp 18 84224 256 0 T0 T329 T330 srun329 sseg329
theorem srun331 : setupLoop ops 18 84736 0 T0 = T331 := setupLoop_comp 18 84480 256 0 T0 T330 T331 srun330 sseg330
theorem srun332 : setupLoop ops 18 84992 0 T0 = T332 := setupLoop_comp 18 84736 256 0 T0 T331 T332 srun331 sseg331
theorem srun333 : setupLoop ops 18 85248 0 T0 = T333 := setupLoop_comp 18 84992 256 0 T0 T332 T333 srun332 sseg332
theorem srun334 : setupLoop ops 18 85504 0 T0 = T334 := setupLoop_comp 18 85248 256 0 T0 T333 T334 srun333 sseg333
theorem srun335 : setupLoop ops 18 85760 0 T0 = T335 := setupLoop_comp 18 85504 256 0 T0 T334 T335 srun334 sseg334
theorem srun336 : setupLoop ops 18 86016 0 T0 = T336 := setupLoop_comp 18 85760 256 0 T0 T335 T336 srun335 sseg335
theorem srun337 : setupLoop ops 18 86272 0 T0 = T337 := setupLoop_comp 18 86016 256 0 T0 T336 T337 srun336 sseg336
theorem srun338 : setupLoop ops 18 86528 0 T0 = T338 := setupLoop_comp 18 86272 256 0 T0 T337 T338 srun337 sseg337
theorem srun339 : setupLoop ops 18 86784 0 T0 = T339 := setupLoop_comp 18 86528 256 0 T0 T338 T339 srun338 sseg338
theorem srun340 : setupLoop ops 18 87040 0 T0 = T340 := setupLoop_comp 18 86784 256 0 T0 T339 T340 srun339 sseg339
theorem srun341 : setupLoop ops 18 87296 0 T0 = T341 := setupLoop_comp 18 87040 256 0 T0 T340 T341 srun340 sseg340
theorem srun342 : setupLoop ops 18 87552 0 T0 = T342 := setupLoop_comp 18 87296 256 0 T0 T341 T342 srun341 sseg341
theorem srun343 : setupLoop ops 18 87808 0 T0 = T343 := setupLoop_comp 18 87552 256 0 T0 T342 T343 srun342 sseg342
theorem srun344 : setupLoop ops 18 88064 0 T0 = T344 := setupLoop_comp 18 87808 256 0 T0 T343 T344 srun343 sseg343
theorem srun345 : setupLoop ops 18 88320 0 T0 = T345 := setupLoop_comp 18 88064 256 0 T0 T344 T345 srun344 sseg344
theorem srun346 : setupLoop ops 18 88576 0 T0 = T346 := setupLoop_comp 18 88320 256 0 T0 T345 T346 srun345 sseg345
theorem srun347 : setupLoop ops 18 88832 0 T0 = T347 := setupLoop_comp 18 88576 256 0 T0 T346 T347 srun346 sseg346
theorem srun348 : setupLoop ops 18 89088 0 T0 = T348 := setupLoop_comp 18 88832 256 0 T0 T347 T348 srun347 sseg347
theorem srun349 : setupLoop ops 18 89344 0 T0 = T349 := setupLoop_comp 18 89088 256 0 T0 T348 T349 srun348 sseg348
theorem srun350 : setupLoop ops 18 89600 0 T0 = T350 := setupLoop_comp 18 89344 256 0 T0 T349 T350 srun349 sseg349
theorem srun351 : setupLoop ops 18 89856 0 T0 = T351 := setupLoop_comp 18 89600 256 0 T0 T350 T351 srun350 sseg350
theorem srun352 : setupLoop ops 18 90112 0 T0 = T352 := setupLoop_comp 18 89856 256 0 T0 T351 T352 srun351 sseg351
theorem srun353 : setupLoop ops 18 90368 0 T0 = T353 := setupLoop_comp 18 90112 256 0 T0 T352 T353 srun352 sseg352
theorem srun354 : setupLoop ops 18 90624 0 T0 = T354 := setupLoop_comp 18 90368 256 0 T0 T353 T354 srun353 sseg353
theorem srun355 : setupLoop ops 18 90880 0 T0 = T355 := setupLoop_comp 18 90624 256 0 T0 T354 T355 srun354 sseg354
theorem srun356 : setupLoop ops 18 91136 0 T0 = T356 := setupLoop_comp 18 90880 256 0 T0 T355 T356 srun355 sseg355
theorem srun357 : setupLoop ops 18 91392 0 T0 = T357 := setupLoop_comp 18 91136 256 0 T0 T356 T357 srun356 sseg356
theorem srun358 : setupLoop ops 18 91648 0 T0 = T358 := setupLoop_comp 18 91392 256 0 T0 T357 T358 srun357 sseg357
theorem srun359 : setupLoop ops 18 91904 0 T0 = T359 := setupLoop_comp 18 91648 256 0 T0 T358 T359 srun358 sseg358
theorem srun360 : setupLoop ops 18 92160 0 T0 = T360 := setupLoop_comp 18 91904 256 0 T0 T359 T360 srun359 sseg359
theorem srun361 : setupLoop ops 18 92416 0 T0 = T361 := setupLoop_comp 18 92160 256 0 T0 T360 T361 srun360 sseg360
theorem srun362 : setupLoop ops 18 92672 0 T0 = T362 := setupLoop_comp 18 92416 256 0 T0 T361 T362 srun361 sseg361
theorem srun363 : setupLoop ops 18 92928 0 T0 = T363 := setupLoop_comp 18 92672 256 0 T0 T362 T363 srun362 sseg362
theorem srun364 : setupLoop ops 18 93184 0 T0 = T364 := setupLoop_comp 18 92928 256 0 T0 T363 T364 srun363 sseg363
theorem srun365 : setupLoop ops 18 93440 0 T0 = T365 := setupLoop_comp 18 93184 256 0 T0 T364 T365 srun364 sseg364
theorem srun366 : setupLoop ops 18 93696 0 T0 = T366 := setupLoop_comp 18 93440 256 0 T0 T365 T366 srun365 sseg365
theorem srun367 : setupLoop ops 18 93952 0 T0 = T367 := setupLoop_comp 18 93696 256 0 T0 T366 T367 srun366 sseg366
theorem srun368 : setupLoop ops 18 94208 0 T0 = T368 := setupLoop_comp 18 93952 256 0 T0 T367 T368 srun367 sseg367
theorem srun369 : setupLoop ops 18 94464 0 T0 = T369 := setupLoop_comp 18 94208 256 0 T0 T368 T369 srun368 sseg368
theorem srun370 : setupLoop ops 18 94720 0 T0 = T370 := setupLoop_comp 18 94464 256 0 T0 T369 T370 srun369 sseg369
theorem srun371 : setupLoop ops 18 94976 0 T0 = T371 := setupLoop_comp 18 94720 256 0 T0 T370 T371 srun370 sseg370
theorem srun372 : setupLoop ops 18 95232 0 T0 = T372 := setupLoop_comp 18 94976 256 0 T0 T371 T372 srun371 sseg371
theorem srun373 : setupLoop ops 18 95488 0 T0 = T373 := setupLoop_comp 18 95232 256 0 T0 T372 T373 srun372 sseg372
theorem srun374 : setupLoop ops 18 95744 0 T0 = T374 := setupLoop_comp 18 95488 256 0 T0 T373 T374 srun373 sseg373
theorem srun375 : setupLoop ops 18 96000 0 T0 = T375 := setupLoop_comp 18 95744 256 0 T0 T374 T375 srun374 sseg374
theorem srun376 : setupLoop ops 18 96256 0 T0 = T376 := setupLoop_comp 18 96000 256 0 T0 T375 T376 srun375 sseg375
theorem srun377 : setupLoop ops 18 96512 0 T0 = T377 := setupLoop_comp 18 96256 256 0 T0 T376 T377 srun376 sseg376
theorem srun378 : setupLoop ops 18 96768 0 T0 = T378 := setupLoop_comp 18 96512 256 0 T0 T377 T378 srun377 sseg377
theorem srun379 : setupLoop ops 18 97024 0 T0 = T379 := setupLoop_comp 18 96768 256 0 T0 T378 T379 srun378 sseg378
theorem srun380 : setupLoop ops 18 97280 0 T0 = T380 := setupLoop_comp 18 97024 256 0 T0 T379 T380 srun379 sseg379
theorem srun381 : setupLoop ops 18 97536 0 T0 = T381 := setupLoop_comp 18 97280 256 0 T0 T380 T381 srun380 sseg380
theorem srun382 : setupLoop ops 18 97792 0 T0 = T382 := setupLoop_comp 18 97536 256 0 T0 T381 T382 srun381 sseg381
theorem srun383 : setupLoop ops 18 98048 0 T0 = T383 := setupLoop_comp 18 97792 256 0 T0 T382 T383 srun382 sseg382
theorem srun384 : setupLoop ops 18 98304 0 T0 = T384 := setupLoop_comp 18 98048 256 0 T0 T383 T384 srun383 sseg383
theorem srun385 : setupLoop ops 18 98560 0 T0 = T385 := setupLoop_comp 18 98304 256 0 T0 T384 T385 srun384 sseg384
theorem srun386 : setupLoop ops 18 98816 0 T0 = T386 := setupLoop_comp 18 98560 256 0 T0 T385 T386 srun385 sseg385
theorem srun387 : setupLoop ops 18 99072 0 T0 = T387 := setupLoop_comp 18 98816 256 0 T0 T386 T387 srun386 sseg386
theorem srun388 : setupLoop ops 18 99328 0 T0 = T388 := setupLoop_comp 18 99072 256 0 T0 T387 T388 srun387 sseg387
theorem srun389 : setupLoop ops 18 99584 0 T0 = T389 := setupLoop_comp 18 99328 256 0 T0 T388 T389 srun388 sseg388
theorem srun390 : setupLoop ops 18 99840 0 T0 = T390 := setupLoop_comp 18 99584 256 0 T0 T389 T390 srun389 sseg389
theorem srun391 : setupLoop ops 18 100096 0 T0 = T391 := setupLoop_comp 18 99840 256 0 T0 T390 T391 srun390 sseg390
theorem srun392 : setupLoop ops 18 100352 0 T0 = T392 := setupLoop_comp 18 100096 256 0 T0 T391 T392 srun391 sseg391
theorem srun393 : setupLoop ops 18 100608 0 T0 = T393 := setupLoop_comp 18 100352 256 0 T0 T392 T393 srun392 sseg392
theorem srun394 : setupLoop ops 18 100864 0 T0 = T394 := setupLoop_comp 18 100608 256 0 T0 T393 T394 srun393 sseg393
theorem srun395 : setupLoop ops 18 101120 0 T0 = T395 := setupLoop_comp 18 100864 256 0 T0 T394 T395 srun394 sseg394
theorem srun396 : setupLoop ops 18 101376 0 T0 = T396 := setupLoop_comp 18 101120 256 0 T0 T395 T396 srun395 sseg395
theorem srun397 : setupLoop ops 18 101632 0 T0 = T397 := setupLoop_comp 18 101376 256 0 T0 T396 T397 srun396 sseg396
theorem srun398 : setupLoop ops 18 101888 0 T0 = T398 := setupLoop_comp 18 101632 256 0 T0 T397 T398 srun397 sseg397
theorem srun399 : setupLoop ops 18 102144 0 T0 = T399 := setupLoop_comp 18 101888 256 0 T0 T398 T399 srun398 sseg398
theorem srun400 : setupLoop ops 18 102400 0 T0 = T400 := setupLoop_comp 18 102144 256 0 T0 T399 T400 srun399 sseg399
theorem srun401 : setupLoop ops 18 102656 0 T0 = T401 := setupLoop_comp 18 102400 256 0 T0 T400 T401 srun400 sseg400
theorem srun402 : setupLoop ops 18 102912 0 T0 = T402 := setupLoop_comp 18 102656 256 0 T0 T401 T402 srun401 sseg401
theorem srun403 : setupLoop ops 18 103168 0 T0 = T403 := setupLoop_comp 18 102912 256 0 T0 T402 T403 srun402 sseg402
theorem srun404 : setupLoop ops 18 103424 0 T0 = T404 := setupLoop_comp 18 103168 256 0 T0 T403 T404 srun403 sseg403
theorem srun405 : setupLoop ops 18 103680 0 T0 = T405 := setupLoop_comp 18 103424 256 0 T0 T404 T405 srun404 sseg404
theorem srun406 : setupLoop ops 18 103936 0 T0 = T406 := setupLoop_comp 18 103680 256 0 T0 T405 T406 srun405 sseg405
theorem srun407 : setupLoop ops 18 104192 0 T0 = T407 := setupLoop_comp 18 103936 256 0 T0 T406 T407 srun406 sseg406
theorem srun408 : setupLoop ops 18 104448 0 T0 = T408 := setupLoop_comp 18 104192 256 0 T0 T407 T408 srun407 sseg407
theorem srun409 : setupLoop ops 18 104704 0 T0 = T409 := setupLoop_comp 18 104448 256 0 T0 T408 T409 srun408 sseg408
theorem srun410 : setupLoop ops 18 104960 0 T0 = T410 := setupLoop_comp 18 104704 256 0 T0 T409 T410 srun409 sseg409
theorem srun411 : setupLoop ops 18 105216 0 T0 = T411 := setupLoop_comp 18 104960 256 0 T0 T410 T411 srun410 sseg410
theorem srun412 : setupLoop ops 18 105472 0 T0 = T412 := setupLoop_comp 18 105216 256 0 T0 T411 T412 srun411 sseg411
theorem srun413 : setupLoop ops 18 105728 0 T0 = T413 := setupLoop_comp 18 105472 256 0 T0 T412 T413 srun412 sseg412
theorem srun414 : setupLoop ops 18 105984 0 T0 = T414 := setupLoop_comp 18 105728 256 0 T0 T413 T414 srun413 sseg413
theorem srun415 : setupLoop ops 18 106240 0 T0 = T415 := setupLoop_comp 18 105984 256 0 T0 T414 T415 srun414 sseg414
theorem srun416 : setupLoop ops 18 106496 0 T0 = T416 := setupLoop_comp 18 106240 256 0 T0 T415 T416 srun415 sseg415
theorem srun417 : setupLoop ops 18 106752 0 T0 = T417 := setupLoop_comp 18 106496 256 0 T0 T416 T417 srun416 sseg416
theorem srun418 : setupLoop ops 18 107008 0 T0 = T418 := setupLoop_comp 18 106752 256 0 T0 T417 T418 srun417 sseg417
theorem srun419 : setupLoop ops 18 107264 0 T0 = T419 := setupLoop_comp 18 107008 256 0 T0 T418 T419 srun418 sseg418
theorem srun420 : setupLoop ops 18 107520 0 T0 = T420 := setupLoop_comp 18 107264 256 0 T0 T419 T420 srun419 sseg419
theorem srun421 : setupLoop ops 18 107776 0 T0 = T421 := setupLoop_comp 18 107520 256 0 T0 T420 T421 srun420 sseg420
theorem srun422 : setupLoop ops 18 108032 0 T0 = T422 := setupLoop_comp 18 107776 256 0 T0 T421 T422 srun421 sseg421
theorem srun423 : setupLoop ops 18 108288 0 T0 = T423 := setupLoop_comp 18 108032 256 0 T0 T422 T423 srun422 sseg422
theorem srun424 : setupLoop ops 18 108544 0 T0 = T424 := setupLoop_comp 18 108288 256 0 T0 T423 T424 srun423 sseg423
theorem srun425 : setupLoop ops 18 108800 0 T0 = T425 := setupLoop_comp 18 108544 256 0 T0 T424 T425 srun424 sseg424
theorem srun426 : setupLoop ops 18 109056 0 T0 = T426 := setupLoop_comp 18 108800 256 0 T0 T425 T426 srun425 sseg425
theorem srun427 : setupLoop ops 18 109312 0 T0 = T427 := setupLoop_comp 18 109056 256 0 T0 T426 T427 srun426 sseg426
theorem srun428 : setupLoop ops 18 109568 0 T0 = T428 := setupLoop_comp 18 109312 256 0 T0 T427 T428 srun427 sseg427
theorem srun429 : setupLoop ops 18 109824 0 T0 = T429 := setupLoop_comp 18 109568 256 0 T0 T428 T429 srun428 sseg428
theorem srun430 : setupLoop ops 18 110080 0 T0 = T430 := setupLoop_comp 18 109824 256 0 T0 T429 T430 srun429 sseg429
theorem srun431 : setupLoop ops 18 110336 0 T0 = T431 := setupLoop_comp 18 110080 256 0 T0 T430 T431 srun430 sseg430
theorem srun432 : setupLoop ops 18 110592 0 T0 = T432 := setupLoop_comp 18 110336 256 0 T0 T431 T432 srun431 sseg431
theorem srun433 : setupLoop ops 18 110848 0 T0 = T433 := setupLoop_comp 18 110592 256 0 T0 T432 T433 srun432 sseg432
theorem srun434 : setupLoop ops 18 111104 0 T0 = T434 := setupLoop_comp 18 110848 256 0 T0 T433 T434 srun433 sseg433
theorem srun435 : setupLoop ops 18 111360 0 T0 = T435 := setupLoop_comp 18 111104 256 0 T0 T434 T435 srun434 sseg434
theorem srun436 : setupLoop ops 18 111616 0 T0 = T436 := setupLoop_comp 18 111360 256 0 T0 T435 T436 srun435 sseg435
theorem srun437 : setupLoop ops 18 111872 0 T0 = T437 := setupLoop_comp 18 111616 256 0 T0 T436 T437 srun436 sseg436
theorem srun438 : setupLoop ops 18 112128 0 T0 = T438 := setupLoop_comp 18 111872 256 0 T0 T437 T438 srun437 sseg437
theorem srun439 : setupLoop ops 18 112384 0 T0 = T439 := setupLoop_comp 18 112128 256 0 T0 T438 T439 srun438 sseg438
theorem srun440 : setupLoop ops 18 112640 0 T0 = T440 := setupLoop_comp 18 112384 256 0 T0 T439 T440 srun439 sseg439
theorem srun441 : setupLoop ops 18 112896 0 T0 = T441 := setupLoop_comp 18 112640 256 0 T0 T440 T441 srun440 sseg440
theorem srun442 : setupLoop ops 18 113152 0 T0 = T442 := setupLoop_comp 18 112896 256 0 T0 T441 T442 srun441 sseg441
theorem srun443 : setupLoop ops 18 113408 0 T0 = T443 := setupLoop_comp 18 113152 256 0 T0 T442 T443 srun442 sseg442
theorem srun444 : setupLoop ops 18 113664 0 T0 = T444 := setupLoop_comp 18 113408 256 0 T0 T443 T444 srun443 sseg443
theorem srun445 : setupLoop ops 18 113920 0 T0 = T445 := setupLoop_comp 18 113664 256 0 T0 T444 T445 srun444 sseg444
theorem srun446 : setupLoop ops 18 114176 0 T0 = T446 := setupLoop_comp 18 113920 256 0 T0 T445 T446 srun445 sseg445
theorem srun447 : setupLoop ops 18 114432 0 T0 = T447 := setupLoop_comp 18 114176 256 0 T0 T446 T447 srun446 sseg446
theorem srun448 : setupLoop ops 18 114688 0 T0 = T448 := setupLoop_comp 18 114432 256 0 T0 T447 T448 srun447 sseg447
theorem srun449 : setupLoop ops 18 114944 0 T0 = T449 := setupLoop_comp 18 114688 256 0 T0 T448 T449 srun448 sseg448
theorem srun450 : setupLoop ops 18 115200 0 T0 = T450 := setupLoop_comp 18 114944 256 0 T0 T449 T450 srun449 sseg449
theorem srun451 : setupLoop ops 18 115456 0 T0 = T451 := setupLoop_comp 18 115200 256 0 T0 T450 T451 srun450 sseg450
theorem srun452 : setupLoop ops 18 115712 0 T0 = T452 := setupLoop_comp 18 115456 256 0 T0 T451 T452 srun451 sseg451
theorem srun453 : setupLoop ops 18 115968 0 T0 = T453 := setupLoop_comp 18 115712 256 0 T0 T452 T453 srun452 sseg452
theorem srun454 : setupLoop ops 18 116224 0 T0 = T454 := setupLoop_comp 18 115968 256 0 T0 T453 T454 srun453 sseg453
theorem srun455 : setupLoop ops 18 116480 0 T0 = T455 := setupLoop_comp 18 116224 256 0 T0 T454 T455 srun454 sseg454
theorem srun456 : setupLoop ops 18 116736 0 T0 = T456 := setupLoop_comp 18 116480 256 0 T0 T455 T456 srun455 sseg455
theorem srun457 : setupLoop ops 18 116992 0 T0 = T457 := setupLoop_comp 18 116736 256 0 T0 T456 T457 srun456 sseg456
theorem srun458 : setupLoop ops 18 117248 0 T0 = T458 := setupLoop_comp 18 116992 256 0 T0 T457 T458 srun457 sseg457
theorem srun459 : setupLoop ops 18 117504 0 T0 = T459 := setupLoop_comp 18 117248 256 0 T0 T458 T459 srun458 sseg458
theorem srun460 : setupLoop ops 18 117760 0 T0 = T460 := setupLoop_comp 18 117504 256 0 T0 T459 T460 srun459 sseg459
theorem srun461 : setupLoop ops 18 118016 0 T0 = T461 := setupLoop_comp 18 117760 256 0 T0 T460 T461 srun460 sseg460
theorem srun462 : setupLoop ops 18 118272 0 T0 = T462 := setupLoop_comp 18 118016 256 0 T0 T461 T462 srun461 sseg461
theorem srun463 : setupLoop ops 18 118528 0 T0 = T463 := setupLoop_comp 18 118272 256 0 T0 T462 T463 srun462 sseg462
theorem srun464 : setupLoop ops 18 118784 0 T0 = T464 := setupLoop_comp 18 118528 256 0 T0 T463 T464 srun463 sseg463
theorem srun465 : setupLoop ops 18 119040 0 T0 = T465 := setupLoop_comp 18 118784 256 0 T0 T464 T465 srun464 sseg464
theorem srun466 : setupLoop ops 18 119296 0 T0 = T466 := setupLoop_comp 18 119040 256 0 T0 T465 T466 srun465 sseg465
theorem srun467 : setupLoop ops 18 119552 0 T0 = T467 := setupLoop_comp 18 119296 256 0 T0 T466 T467 srun466 sseg466
theorem srun468 : setupLoop ops 18 119808 0 T0 = T468 := setupLoop_comp 18 119552 256 0 T0 T467 T468 srun467 sseg467
theorem srun469 : setupLoop ops 18 120064 0 T0 = T469 := setupLoop_comp 18 119808 256 0 T0 T468 T469 srun468 sseg468
theorem srun470 : setupLoop ops 18 120320 0 T0 = T470 := setupLoop_comp 18 120064 256 0 T0 T469 T470 srun469 sseg469
theorem srun471 : setupLoop ops 18 120576 0 T0 = T471 := setupLoop_comp 18 120320 256 0 T0 T470 T471 srun470 sseg470
theorem srun472 : setupLoop ops 18 120832 0 T0 = T472 := setupLoop_comp 18 120576 256 0 T0 T471 T472 srun471 sseg471
theorem srun473 : setupLoop ops 18 121088 0 T0 = T473 := setupLoop_comp 18 120832 256 0 T0 T472 T473 srun472 sseg472
theorem srun474 : setupLoop ops 18 121344 0 T0 = T474 := setupLoop_comp 18 121088 256 0 T0 T473 T474 srun473 sseg473
theorem srun475 : setupLoop ops 18 121600 0 T0 = T475 := setupLoop_comp 18 121344 256 0 T0 T474 T475 srun474 sseg474
theorem srun476 : setupLoop ops 18 121856 0 T0 = T476 := setupLoop_comp 18 121600 256 0 T0 T475 T476 srun475 sseg475
theorem srun477 : setupLoop ops 18 122112 0 T0 = T477 := setupLoop_comp 18 121856 256 0 T0 T476 T477 srun476 sseg476
theorem srun478 : setupLoop ops 18 122368 0 T0 = T478 := setupLoop_comp 18 122112 256 0 T0 T477 T478 srun477 sseg477
theorem srun479 : setupLoop ops 18 122624 0 T0 = T479 := setupLoop_comp 18 122368 256 0 T0 T478 T479 srun478 sseg478
theorem srun480 : setupLoop ops 18 122880 0 T0 = T480 := setupLoop_comp 18 122624 256 0 T0 T479 T480 srun479 sseg479
theorem srun481 : setupLoop ops 18 123136 0 T0 = T481 := setupLoop_comp 18 122880 256 0 T0 T480 T481 srun480 sseg480
theorem srun482 : setupLoop ops 18 123392 0 T0 = T482 := setupLoop_comp 18 123136 256 0 T0 T481 T482 srun481 sseg481
theorem srun483 : setupLoop ops 18 123648 0 T0 = T483 := setupLoop_comp 18 123392 256 0 T0 T482 T483 srun482 sseg482
theorem srun484 : setupLoop ops 18 123904 0 T0 = T484 := setupLoop_comp 18 123648 256 0 T0 T483 T484 srun483 sseg483
theorem srun485 : setupLoop ops 18 124160 0 T0 = T485 := setupLoop_comp 18 123904 256 0 T0 T484 T485 srun484 sseg484
theorem srun486 : setupLoop ops 18 124416 0 T0 = T486 := setupLoop_comp 18 124160 256 0 T0 T485 T486 srun485 sseg485
theorem srun487 : setupLoop ops 18 124672 0 T0 = T487 := setupLoop_comp 18 124416 256 0 T0 T486 T487 srun486 sseg486
theorem srun488 : setupLoop ops 18 124928 0 T0 = T488 := setupLoop_comp 18 124672 256 0 T0 T487 T488 srun487 sseg487
theorem srun489 : setupLoop ops 18 125184 0 T0 = T489 := setupLoop_comp 18 124928 256 0 T0 T488 T489 srun488 sseg488
theorem srun490 : setupLoop ops 18 125440 0 T0 = T490 := setupLoop_comp 18 125184 256 0 T0 T489 T490 srun489 sseg489
theorem srun491 : setupLoop ops 18 125696 0 T0 = T491 := setupLoop_comp 18 125440 256 0 T0 T490 T491 srun490 sseg490
theorem srun492 : setupLoop ops 18 125952 0 T0 = T492 := setupLoop_comp 18 125696 256 0 T0 T491 T492 srun491 sseg491
theorem srun493 : setupLoop ops 18 126208 0 T0 = T493 := setupLoop_comp 18 125952 256 0 T0 T492 T493 srun492 sseg492
theorem srun494 : setupLoop ops 18 126464 0 T0 = T494 := setupLoop_comp 18 126208 256 0 T0 T493 T494 srun493 sseg493
theorem srun495 : setupLoop ops 18 126720 0 T0 = T495 := setupLoop_comp 18 126464 256 0 T0 T494 T495 srun494 sseg494
theorem srun496 : setupLoop ops 18 126976 0 T0 = T496 := setupLoop_comp 18 126720 256 0 T0 T495 T496 srun495 sseg495
theorem srun497 : setupLoop ops 18 127232 0 T0 = T497 := setupLoop_comp 18 126976 256 0 T0 T496 T497 srun496 sseg496
theorem srun498 : setupLoop ops 18 127488 0 T0 = T498 := setupLoop_comp 18 127232 256 0 T0 T497 T498 srun497 sseg497
theorem srun499 : setupLoop ops 18 127744 0 T0 = T499 := setupLoop_comp 18 127488 256 0 T0 T498 T499 srun498 sseg498
theorem srun500 : setupLoop ops 18 128000 0 T0 = T500 := setupLoop_comp 18 127744 256 0 T0 T499 T500 srun499 sseg499
theorem srun501 : setupLoop ops 18 128256 0 T0 = T501 := setupLoop_comp 18 128000 256 0 T0 T500 T501 srun500 sseg500
theorem srun502 : setupLoop ops 18 128512 0 T0 = T502 := setupLoop_comp 18 128256 256 0 T0 T501 T502 srun501 sseg501
theorem srun503 : setupLoop ops 18 128768 0 T0 = T503 := setupLoop_comp 18 128512 256 0 T0 T502 T503 srun502 sseg502
theorem srun504 : setupLoop ops 18 129024 0 T0 = T504 := setupLoop_comp 18 128768 256 0 T0 T503 T504 srun503 sseg503
theorem srun505 : setupLoop ops 18 129280 0 T0 = T505 := setupLoop_comp 18 129024 256 0 T0 T504 T505 srun504 sseg504
theorem srun506 : setupLoop ops 18 129536 0 T0 = T506 := setupLoop_comp 18 129280 256 0 T0 T505 T506 srun505 sseg505
theorem srun507 : setupLoop ops 18 129792 0 T0 = T507 := setupLoop_comp 18 129536 256 0 T0 T506 T507 srun506 sseg506
theorem srun508 : setupLoop ops 18 130048 0 T0 = T508 := setupLoop_comp 18 129792 256 0 T0 T507 T508 srun507 sseg507
theorem srun509 : setupLoop ops 18 130304 0 T0 = T509 := setupLoop_comp 18 130048 256 0 T0 T508 T509 srun508 sseg508
theorem srun510 : setupLoop ops 18 130560 0 T0 = T510 := setupLoop_comp 18 130304 256 0 T0 T509 T510 srun509 sseg509
theorem srun511 : setupLoop ops 18 130816 0 T0 = T511 := setupLoop_comp 18 130560 256 0 T0 T510 T511 srun510 sseg510
theorem srun512 : setupLoop ops 18 131072 0 T0 = T512 := setupLoop_comp 18 130816 256 0 T0 T511 T512 srun511 sseg511
theorem srun513 : setupLoop ops 18 131328 0 T0 = T513 := setupLoop_comp 18 131072 256 0 T0 T512 T513 srun512 sseg512
theorem srun514 : setupLoop ops 18 131584 0 T0 = T514 := setupLoop_comp 18 131328 256 0 T0 T513 T514 srun513 sseg513
theorem srun515 : setupLoop ops 18 131840 0 T0 = T515 := setupLoop_comp 18 131584 256 0 T0 T514 T515 srun514 sseg514
theorem srun516 : setupLoop ops 18 132096 0 T0 = T516 := setupLoop_comp 18 131840 256 0 T0 T515 T516 srun515 sseg515
theorem srun517 : setupLoop ops 18 132352 0 T0 = T517 := setupLoop_comp 18 132096 256 0 T0 T516 T517 srun516 sseg516
theorem srun518 : setupLoop ops 18 132608 0 T0 = T518 := setupLoop_comp 18 132352 256 0 T0 T517 T518 srun517 sseg517
theorem srun519 : setupLoop ops 18 132864 0 T0 = T519 := setupLoop_comp 18 132608 256 0 T0 T518 T519 srun518 sseg518
theorem srun520 : setupLoop ops 18 133120 0 T0 = T520 := setupLoop_comp 18 132864 256 0 T0 T519 T520 srun519 sseg519
theorem srun521 : setupLoop ops 18 133376 0 T0 = T521 := setupLoop_comp 18 133120 256 0 T0 T520 T521 srun520 sseg520
theorem srun522 : setupLoop ops 18 133632 0 T0 = T522 := setupLoop_comp 18 133376 256 0 T0 T521 T522 srun521 sseg521
theorem srun523 : setupLoop ops 18 133888 0 T0 = T523 := setupLoop_comp 18 133632 256 0 T0 T522 T523 srun522 sseg522
theorem srun524 : setupLoop ops 18 134144 0 T0 = T524 := setupLoop_comp 18 133888 256 0 T0 T523 T524 srun523 sseg523
theorem srun525 : setupLoop ops 18 134400 0 T0 = T525 := setupLoop_comp 18 134144 256 0 T0 T524 T525 srun524 sseg524
theorem srun526 : setupLoop ops 18 134656 0 T0 = T526 := setupLoop_comp 18 134400 256 0 T0 T525 T526 srun525 sseg525
theorem srun527 : setupLoop ops 18 134912 0 T0 = T527 := setupLoop_comp 18 134656 256 0 T0 T526 T527 srun526 sseg526
theorem srun528 : setupLoop ops 18 135168 0 T0 = T528 := setupLoop_comp 18 134912 256 0 T0 T527 T528 srun527 sseg527
theorem srun529 : setupLoop ops 18 135424 0 T0 = T529 := setupLoop_comp 18 135168 256 0 T0 T528 T529 srun528 sseg528
theorem srun530 : setupLoop ops 18 135680 0 T0 = T530 := setupLoop_comp 18 135424 256 0 T0 T529 T530 srun529 sseg529
theorem srun531 : setupLoop ops 18 135936 0 T0 = T531 := setupLoop_comp 18 135680 256 0 T0 T530 T531 srun530 sseg530
theorem srun532 : setupLoop ops 18 136192 0 T0 = T532 := setupLoop_comp 18 135936 256 0 T0 T531 T532 srun531 sseg531
theorem srun533 : setupLoop ops 18 136448 0 T0 = T533 := setupLoop_comp 18 136192 256 0 T0 T532 T533 srun532 sseg532
theorem srun534 : setupLoop ops 18 136704 0 T0 = T534 := setupLoop_comp 18 136448 256 0 T0 T533 T534 srun533 sseg533
theorem srun535 : setupLoop ops 18 136960 0 T0 = T535 := setupLoop_comp 18 136704 256 0 T0 T534 T535 srun534 sseg534
theorem srun536 : setupLoop ops 18 137216 0 T0 = T536 := setupLoop_comp 18 136960 256 0 T0 T535 T536 srun535 sseg535
theorem srun537 : setupLoop ops 18 137472 0 T0 = T537 := setupLoop_comp 18 137216 256 0 T0 T536 T537 srun536 sseg536
theorem srun538 : setupLoop ops 18 137728 0 T0 = T538 := setupLoop_comp 18 137472 256 0 T0 T537 T538 srun537 sseg537
theorem srun539 : setupLoop ops 18 137984 0 T0 = T539 := setupLoop_comp 18 137728 256 0 T0 T538 T539 srun538 sseg538
theorem srun540 : setupLoop ops 18 138240 0 T0 = T540 := setupLoop_comp 18 137984 256 0 T0 T539 T540 srun539 sseg539
theorem srun541 : setupLoop ops 18 138496 0 T0 = T541 := setupLoop_comp 18 138240 256 0 T0 T540 T541 srun540 sseg540
theorem srun542 : setupLoop ops 18 138752 0 T0 = T542 := setupLoop_comp 18 138496 256 0 T0 T541 T542 srun541 sseg541
theorem srun543 : setupLoop ops 18 139008 0 T0 = T543 := setupLoop_comp 18 138752 256 0 T0 T542 T543 srun542 sseg542
theorem srun544 : setupLoop ops 18 139264 0 T0 = T544 := setupLoop_comp 18 139008 256 0 T0 T543 T544 srun543 sseg543
theorem srun545 : setupLoop ops 18 139520 0 T0 = T545 := setupLoop_comp 18 139264 256 0 T0 T544 T545 srun544 sseg544
theorem srun546 : setupLoop ops 18 139776 0 T0 = T546 := setupLoop_comp 18 139520 256 0 T0 T545 T546 srun545 sseg545
theorem srun547 : setupLoop ops 18 140032 0 T0 = T547 := setupLoop_comp 18 139776 256 0 T0 T546 T547 srun546 sseg546
theorem srun548 : setupLoop ops 18 140288 0 T0 = T548 := setupLoop_comp 18 140032 256 0 T0 T547 T548 srun547 sseg547
theorem srun549 : setupLoop ops 18 140544 0 T0 = T549 := setupLoop_comp 18 140288 256 0 T0 T548 T549 srun548 sseg548
theorem srun550 : setupLoop ops 18 140800 0 T0 = T550 := setupLoop_comp 18 140544 256 0 T0 T549 T550 srun549 sseg549
theorem srun551 : setupLoop ops 18 141056 0 T0 = T551 := setupLoop_comp 18 140800 256 0 T0 T550 T551 srun550 sseg550
theorem srun552 : setupLoop ops 18 141312 0 T0 = T552 := setupLoop_comp 18 141056 256 0 T0 T551 T552 srun551 sseg551
theorem srun553 : setupLoop ops 18 141568 0 T0 = T553 := setupLoop_comp 18 141312 256 0 T0 T552 T553 srun552 sseg552
theorem srun554 : setupLoop ops 18 141824 0 T0 = T554 := setupLoop_comp 18 141568 256 0 T0 T553 T554 srun553 sseg553
theorem srun555 : setupLoop ops 18 142080 0 T0 = T555 := setupLoop_comp 18 141824 256 0 T0 T554 T555 srun554 sseg554
theorem srun556 : setupLoop ops 18 142336 0 T0 = T556 := setupLoop_comp 18 142080 256 0 T0 T555 T556 srun555 sseg555
theorem srun557 : setupLoop ops 18 142592 0 T0 = T557 := setupLoop_comp 18 142336 256 0 T0 T556 T557 srun556 sseg556
theorem srun558 : setupLoop ops 18 142848 0 T0 = T558 := setupLoop_comp 18 142592 256 0 T0 T557 T558 srun557 sseg557
theorem srun559 : setupLoop ops 18 143104 0 T0 = T559 := setupLoop_comp 18 142848 256 0 T0 T558 T559 srun558 sseg558
theorem srun560 : setupLoop ops 18 143360 0 T0 = T560 := setupLoop_comp 18 143104 256 0 T0 T559 T560 srun559 sseg559
theorem srun561 : setupLoop ops 18 143616 0 T0 = T561 := setupLoop_comp 18 143360 256 0 T0 T560 T561 srun560 sseg560
theorem srun562 : setupLoop ops 18 143872 0 T0 = T562 := setupLoop_comp 18 143616 256 0 T0 T561 T562 srun561 sseg561
theorem srun563 : setupLoop ops 18 144128 0 T0 = T563 := setupLoop_comp 18 143872 256 0 T0 T562 T563 srun562 sseg562
theorem srun564 : setupLoop ops 18 144384 0 T0 = T564 := setupLoop_comp 18 144128 256 0 T0 T563 T564 srun563 sseg563
theorem srun565 : setupLoop ops 18 144640 0 T0 = T565 := setupLoop_comp 18 144384 256 0 T0 T564 T565 srun564 sseg564
theorem srun566 : setupLoop ops 18 144896 0 T0 = T566 := setupLoop_comp 18 144640 256 0 T0 T565 T566 srun565 sseg565
theorem srun567 : setupLoop ops 18 145152 0 T0 = T567 := setupLoop_comp 18 144896 256 0 T0 T566 T567 srun566 sseg566
theorem srun568 : setupLoop ops 18 145408 0 T0 = T568 := setupLoop_comp 18 145152 256 0 T0 T567 T568 srun567 sseg567
theorem srun569 : setupLoop ops 18 145664 0 T0 = T569 := setupLoop_comp 18 145408 256 0 T0 T568 T569 srun568 sseg568
theorem srun570 : setupLoop ops 18 145920 0 T0 = T570 := setupLoop_comp 18 145664 256 0 T0 T569 T570 srun569 sseg569
theorem srun571 : setupLoop ops 18 146176 0 T0 = T571 := setupLoop_comp 18 145920 256 0 T0 T570 T571 srun570 sseg570
theorem srun572 : setupLoop ops 18 146432 0 T0 = T572 := setupLoop_comp 18 146176 256 0 T0 T571 T572 srun571 sseg571
theorem srun573 : setupLoop ops 18 146688 0 T0 = T573 := setupLoop_comp 18 146432 256 0 T0 T572 T573 srun572 sseg572
theorem srun574 : setupLoop ops 18 146944 0 T0 = T574 := setupLoop_comp 18 146688 256 0 T0 T573 T574 srun573 sseg573
theorem srun575 : setupLoop ops 18 147200 0 T0 = T575 := setupLoop_comp 18 146944 256 0 T0 T574 T575 srun574 sseg574
theorem srun576 : setupLoop ops 18 147456 0 T0 = T576 := setupLoop_comp 18 147200 256 0 T0 T575 T576 srun575 sseg575
theorem srun577 : setupLoop ops 18 147712 0 T0 = T577 := setupLoop_comp 18 147456 256 0 T0 T576 T577 srun576 sseg576
theorem srun578 : setupLoop ops 18 147968 0 T0 = T578 := setupLoop_comp 18 147712 256 0 T0 T577 T578 srun577 sseg577
theorem srun579 : setupLoop ops 18 148224 0 T0 = T579 := setupLoop_comp 18 147968 256 0 T0 T578 T579 srun578 sseg578
theorem srun580 : setupLoop ops 18 148480 0 T0 = T580 := setupLoop_comp 18 148224 256 0 T0 T579 T580 srun579 sseg579
theorem srun581 : setupLoop ops 18 148736 0 T0 = T581 := setupLoop_comp 18 148480 256 0 T0 T580 T581 srun580 sseg580
theorem srun582 : setupLoop ops 18 148992 0 T0 = T582 := setupLoop_comp 18 148736 256 0 T0 T581 T582 srun581 sseg581
theorem srun583 : setupLoop ops 18 149248 0 T0 = T583 := setupLoop_comp 18 148992 256 0 T0 T582 T583 srun582 sseg582
theorem srun584 : setupLoop ops 18 149504 0 T0 = T584 := setupLoop_comp 18 149248 256 0 T0 T583 T584 srun583 sseg583
theorem srun585 : setupLoop ops 18 149760 0 T0 = T585 := setupLoop_comp 18 149504 256 0 T0 T584 T585 srun584 sseg584
theorem srun586 : setupLoop ops 18 150016 0 T0 = T586 := setupLoop_comp 18 149760 256 0 T0 T585 T586 srun585 sseg585
theorem srun587 : setupLoop ops 18 150272 0 T0 = T587 := setupLoop_comp 18 150016 256 0 T0 T586 T587 srun586 sseg586
theorem srun588 : setupLoop ops 18 150528 0 T0 = T588 := setupLoop_comp 18 150272 256 0 T0 T587 T588 srun587 sseg587
theorem srun589 : setupLoop ops 18 150784 0 T0 = T589 := setupLoop_comp 18 150528 256 0 T0 T588 T589 srun588 sseg588
theorem srun590 : setupLoop ops 18 151040 0 T0 = T590 := setupLoop_comp 18 150784 256 0 T0 T589 T590 srun589 sseg589
theorem srun591 : setupLoop ops 18 151296 0 T0 = T591 := setupLoop_comp 18 151040 256 0 T0 T590 T591 srun590 sseg590
theorem srun592 : setupLoop ops 18 151552 0 T0 = T592 := setupLoop_comp 18 151296 256 0 T0 T591 T592 srun591 sseg591
theorem srun593 : setupLoop ops 18 151808 0 T0 = T593 := setupLoop_comp 18 151552 256 0 T0 T592 T593 srun592 sseg592
theorem srun594 : setupLoop ops 18 152064 0 T0 = T594 := setupLoop_comp 18 151808 256 0 T0 T593 T594 srun593 sseg593
theorem srun595 : setupLoop ops 18 152320 0 T0 = T595 := setupLoop_comp 18 152064 256 0 T0 T594 T595 srun594 sseg594
theorem srun596 : setupLoop ops 18 152576 0 T0 = T596 := setupLoop_comp 18 152320 256 0 T0 T595 T596 srun595 sseg595
theorem srun597 : setupLoop ops 18 152832 0 T0 = T597 := setupLoop_comp 18 152576 256 0 T0 T596 T597 srun596 sseg596
theorem srun598 : setupLoop ops 18 153088 0 T0 = T598 := setupLoop_comp 18 152832 256 0 T0 T597 T598 srun597 sseg597
theorem srun599 : setupLoop ops 18 153344 0 T0 = T599 := setupLoop_comp 18 153088 256 0 T0 T598 T599 srun598 sseg598
theorem srun600 : setupLoop ops 18 153600 0 T0 = T600 := setupLoop_comp 18 153344 256 0 T0 T599 T600 srun599 sseg599
theorem srun601 : setupLoop ops 18 153856 0 T0 = T601 := setupLoop_comp 18 153600 256 0 T0 T600 T601 srun600 sseg600
theorem srun602 : setupLoop ops 18 154112 0 T0 = T602 := setupLoop_comp 18 153856 256 0 T0 T601 T602 srun601 sseg601
theorem srun603 : setupLoop ops 18 154368 0 T0 = T603 := setupLoop_comp 18 154112 256 0 T0 T602 T603 srun602 sseg602
theorem srun604 : setupLoop ops 18 154624 0 T0 = T604 := setupLoop_comp 18 154368 256 0 T0 T603 T604 srun603 sseg603
theorem srun605 : setupLoop ops 18 154880 0 T0 = T605 := setupLoop_comp 18 154624 256 0 T0 T604 T605 srun604 sseg604
theorem srun606 : setupLoop ops 18 155136 0 T0 = T606 := setupLoop_comp 18 154880 256 0 T0 T605 T606 srun605 sseg605
theorem srun607 : setupLoop ops 18 155392 0 T0 = T607 := setupLoop_comp 18 155136 256 0 T0 T606 T607 srun606 sseg606
theorem srun608 : setupLoop ops 18 155648 0 T0 = T608 := setupLoop_comp 18 155392 256 0 T0 T607 T608 srun607 sseg607
theorem srun609 : setupLoop ops 18 155904 0 T0 = T609 := setupLoop_comp 18 155648 256 0 T0 T608 T609 srun608 sseg608
theorem srun610 : setupLoop ops 18 156160 0 T0 = T610 := setupLoop_comp 18 155904 256 0 T0 T609 T610 srun609 sseg609
theorem srun611 : setupLoop ops 18 156416 0 T0 = T611 := setupLoop_comp 18 156160 256 0 T0 T610 T611 srun610 sseg610
theorem srun612 : setupLoop ops 18 156672 0 T0 = T612 := setupLoop_comp 18 156416 256 0 T0 T611 T612 srun611 sseg611
theorem srun613 : setupLoop ops 18 156928 0 T0 = T613 := setupLoop_comp 18 156672 256 0 T0 T612 T613 srun612 sseg612
theorem srun614 : setupLoop ops 18 157184 0 T0 = T614 := setupLoop_comp 18 156928 256 0 T0 T613 T614 srun613 sseg613
theorem srun615 : setupLoop ops 18 157440 0 T0 = T615 := setupLoop_comp 18 157184 256 0 T0 T614 T615 srun614 sseg614
theorem srun616 : setupLoop ops 18 157696 0 T0 = T616 := setupLoop_comp 18 157440 256 0 T0 T615 T616 srun615 sseg615
theorem srun617 : setupLoop ops 18 157952 0 T0 = T617 := setupLoop_comp 18 157696 256 0 T0 T616 T617 srun616 sseg616
theorem srun618 : setupLoop ops 18 158208 0 T0 = T618 := setupLoop_comp 18 157952 256 0 T0 T617 T618 srun617 sseg617
theorem srun619 : setupLoop ops 18 158464 0 T0 = T619 := setupLoop_comp 18 158208 256 0 T0 T618 T619 srun618 sseg618
theorem srun620 : setupLoop ops 18 158720 0 T0 = T620 := setupLoop_comp 18 158464 256 0 T0 T619 T620 srun619 sseg619
theorem srun621 : setupLoop ops 18 158976 0 T0 = T621 := setupLoop_comp 18 158720 256 0 T0 T620 T621 srun620 sseg620
theorem srun622 : setupLoop ops 18 159232 0 T0 = T622 := setupLoop_comp 18 158976 256 0 T0 T621 T622 srun621 sseg621
theorem srun623 : setupLoop ops 18 159488 0 T0 = T623 := setupLoop_comp 18 159232 256 0 T0 T622 T623 srun622 sseg622
theorem srun624 : setupLoop ops 18 159744 0 T0 = T624 := setupLoop_comp 18 159488 256 0 T0 T623 T624 srun623 sseg623
theorem srun625 : setupLoop ops 18 160000 0 T0 = T625 := setupLoop_comp 18 159744 256 0 T0 T624 T625 srun624 sseg624
theorem srun626 : setupLoop ops 18 160256 0 T0 = T626 := setupLoop_comp 18 160000 256 0 T0 T625 T626 srun625 sseg625
theorem srun627 : setupLoop ops 18 160512 0 T0 = T627 := setupLoop_comp 18 160256 256 0 T0 T626 T627 srun626 sseg626
theorem srun628 : setupLoop ops 18 160768 0 T0 = T628 := setupLoop_comp 18 160512 256 0 T0 T627 T628 srun627 sseg627
theorem srun629 : setupLoop ops 18 161024 0 T0 = T629 := setupLoop_comp 18 160768 256 0 T0 T628 T629 srun628 sseg628
theorem srun630 : setupLoop ops 18 161280 0 T0 = T630 := setupLoop_comp 18 161024 256 0 T0 T629 T630 srun629 sseg629
theorem srun631 : setupLoop ops 18 161536 0 T0 = T631 := setupLoop_comp 18 161280 256 0 T0 T630 T631 srun630 sseg630
theorem srun632 : setupLoop ops 18 161792 0 T0 = T632 := setupLoop_comp 18 161536 256 0 T0 T631 T632 srun631 sseg631
theorem srun633 : setupLoop ops 18 162048 0 T0 = T633 := setupLoop_comp 18 161792 256 0 T0 T632 T633 srun632 sseg632
theorem srun634 : setupLoop ops 18 162304 0 T0 = T634 := setupLoop_comp 18 162048 256 0 T0 T633 T634 srun633 sseg633
theorem srun635 : setupLoop ops 18 162560 0 T0 = T635 := setupLoop_comp 18 162304 256 0 T0 T634 T635 srun634 sseg634
theorem srun636 : setupLoop ops 18 162816 0 T0 = T636 := setupLoop_comp 18 162560 256 0 T0 T635 T636 srun635 sseg635
theorem srun637 : setupLoop ops 18 163072 0 T0 = T637 := setupLoop_comp 18 162816 256 0 T0 T636 T637 srun636 sseg636
theorem srun638 : setupLoop ops 18 163328 0 T0 = T638 := setupLoop_comp 18 163072 256 0 T0 T637 T638 srun637 sseg637
theorem srun639 : setupLoop ops 18 163584 0 T0 = T639 := setupLoop_comp 18 163328 256 0 T0 T638 T639 srun638 sseg638
theorem srun640 : setupLoop ops 18 163840 0 T0 = T640 := setupLoop_comp 18 163584 256 0 T0 T639 T640 srun639 sseg639
theorem srun641 : setupLoop ops 18 164096 0 T0 = T641 := setupLoop_comp 18 163840 256 0 T0 T640 T641 srun640 sseg640
theorem srun642 : setupLoop ops 18 164352 0 T0 = T642 := setupLoop_comp 18 164096 256 0 T0 T641 T642 srun641 sseg641
theorem srun643 : setupLoop ops 18 164608 0 T0 = T643 := setupLoop_comp 18 164352 256 0 T0 T642 T643 srun642 sseg642
theorem srun644 : setupLoop ops 18 164864 0 T0 = T644 := setupLoop_comp 18 164608 256 0 T0 T643 T644 srun643 sseg643
theorem srun645 : setupLoop ops 18 165120 0 T0 = T645 := setupLoop_comp 18 164864 256 0 T0 T644 T645 srun644 sseg644
theorem srun646 : setupLoop ops 18 165376 0 T0 = T646 := setupLoop_comp 18 165120 256 0 T0 T645 T646 srun645 sseg645
theorem srun647 : setupLoop ops 18 165632 0 T0 = T647 := setupLoop_comp 18 165376 256 0 T0 T646 T647 srun646 sseg646
theorem srun648 : setupLoop ops 18 165888 0 T0 = T648 := setupLoop_comp 18 165632 256 0 T0 T647 T648 srun647 sseg647
theorem srun649 : setupLoop ops 18 166144 0 T0 = T649 := setupLoop_comp 18 165888 256 0 T0 T648 T649 srun648 sseg648
theorem srun650 : setupLoop ops 18 166400 0 T0 = T650 := setupLoop_comp 18 166144 256 0 T0 T649 T650 srun649 sseg649
theorem srun651 : setupLoop ops 18 166656 0 T0 = T651 := setupLoop_comp 18 166400 256 0 T0 T650 T651 srun650 sseg650
theorem srun652 : setupLoop ops 18 166912 0 T0 = T652 := setupLoop_comp 18 166656 256 0 T0 T651 T652 srun651 sseg651
theorem srun653 : setupLoop ops 18 167168 0 T0 = T653 := setupLoop_comp 18 166912 256 0 T0 T652 T653 srun652 sseg652
theorem srun654 : setupLoop ops 18 167424 0 T0 = T654 := setupLoop_comp 18 167168 256 0 T0 T653 T654 srun653 sseg653
theorem srun655 : setupLoop ops 18 167680 0 T0 = T655 := setupLoop_comp 18 167424 256 0 T0 T654 T655 srun654 sseg654
theorem srun656 : setupLoop ops 18 167936 0 T0 = T656 := setupLoop_comp 18 167680 256 0 T0 T655 T656 srun655 sseg655
theorem srun657 : setupLoop ops 18 168192 0 T0 = T657 := setupLoop_comp 18 167936 256 0 T0 T656 T657 srun656 sseg656
theorem srun658 : setupLoop ops 18 168448 0 T0 = T658 := setupLoop_comp 18 168192 256 0 T0 T657 T658 srun657 sseg657
theorem srun659 : setupLoop ops 18 168704 0 T0 = T659 := setupLoop_comp 18 168448 256 0 T0 T658 T659 srun658 sseg658
theorem srun660 : setupLoop ops 18 168960 0 T0 = T660 := setupLoop_comp 18 168704 256 0 T0 T659 T660 srun659 sseg659
theorem srun661 : setupLoop ops 18 169216 0 T0 = T661 := setupLoop_comp 18 168960 256 0 T0 T660 T661 srun660 sseg660
theorem srun662 : setupLoop ops 18 169472 0 T0 = T662 := setupLoop_comp 18 169216 256 0 T0 T661 T662 srun661 sseg661
theorem srun663 : setupLoop ops 18 169728 0 T0 = T663 := setupLoop_comp 18 169472 256 0 T0 T662 T663 srun662 sseg662
theorem srun664 : setupLoop ops 18 169984 0 T0 = T664 := setupLoop_comp 18 169728 256 0 T0 T663 T664 srun663 sseg663
theorem srun665 : setupLoop ops 18 170240 0 T0 = T665 := setupLoop_comp 18 169984 256 0 T0 T664 T665 srun664 sseg664
theorem srun666 : setupLoop ops 18 170496 0 T0 = T666 := setupLoop_comp 18 170240 256 0 T0 T665 T666 srun665 sseg665
theorem srun667 : setupLoop ops 18 170752 0 T0 = T667 := setupLoop_comp 18 170496 256 0 T0 T666 T667 srun666 sseg666
theorem srun668 : setupLoop ops 18 171008 0 T0 = T668 := setupLoop_comp 18 170752 256 0 T0 T667 T668 srun667 sseg667
theorem srun669 : setupLoop ops 18 171264 0 T0 = T669 := setupLoop_comp 18 171008 256 0 T0 T668 T669 srun668 sseg668
theorem srun670 : setupLoop ops 18 171520 0 T0 = T670 := setupLoop_comp 18 171264 256 0 T0 T669 T670 srun669 sseg669
theorem srun671 : setupLoop ops 18 171776 0 T0 = T671 := setupLoop_comp 18 171520 256 0 T0 T670 T671 srun670 sseg670
theorem srun672 : setupLoop ops 18 172032 0 T0 = T672 := setupLoop_comp 18 171776 256 0 T0 T671 T672 srun671 sseg671
theorem srun673 : setupLoop ops 18 172288 0 T0 = T673 := setupLoop_comp 18 172032 256 0 T0 T672 T673 srun672 sseg672
theorem srun674 : setupLoop ops 18 172544 0 T0 = T674 := setupLoop_comp 18 172288 256 0 T0 T673 T674 srun673 sseg673
theorem srun675 : setupLoop ops 18 172800 0 T0 = T675 := setupLoop_comp 18 172544 256 0 T0 T674 T675 srun674 sseg674
theorem srun676 : setupLoop ops 18 173056 0 T0 = T676 := setupLoop_comp 18 172800 256 0 T0 T675 T676 srun675 sseg675
theorem srun677 : setupLoop ops 18 173312 0 T0 = T677 := setupLoop_comp 18 173056 256 0 T0 T676 T677 srun676 sseg676
theorem srun678 : setupLoop ops 18 173568 0 T0 = T678 := setupLoop_comp 18 173312 256 0 T0 T677 T678 srun677 sseg677
theorem srun679 : setupLoop ops 18 173824 0 T0 = T679 := setupLoop_comp 18 173568 256 0 T0 T678 T679 srun678 sseg678
theorem srun680 : setupLoop ops 18 174080 0 T0 = T680 := setupLoop_comp 18 173824 256 0 T0 T679 T680 srun679 sseg679
theorem srun681 : setupLoop ops 18 174336 0 T0 = T681 := setupLoop_comp 18 174080 256 0 T0 T680 T681 srun680 sseg680
theorem srun682 : setupLoop ops 18 174592 0 T0 = T682 := setupLoop_comp 18 174336 256 0 T0 T681 T682 srun681 sseg681
theorem srun683 : setupLoop ops 18 174848 0 T0 = T683 := setupLoop_comp 18 174592 256 0 T0 T682 T683 srun682 sseg682
theorem srun684 : setupLoop ops 18 175104 0 T0 = T684 := setupLoop_comp 18 174848 256 0 T0 T683 T684 srun683 sseg683
theorem srun685 : setupLoop ops 18 175360 0 T0 = T685 := setupLoop_comp 18 175104 256 0 T0 T684 T685 srun684 sseg684
theorem srun686 : setupLoop ops 18 175616 0 T0 = T686 := setupLoop_comp 18 175360 256 0 T0 T685 T686 srun685 sseg685
theorem srun687 : setupLoop ops 18 175872 0 T0 = T687 := setupLoop_comp 18 175616 256 0 T0 T686 T687 srun686 sseg686
theorem srun688 : setupLoop ops 18 176128 0 T0 = T688 := setupLoop_comp 18 175872 256 0 T0 T687 T688 srun687 sseg687
theorem srun689 : setupLoop ops 18 176384 0 T0 = T689 := setupLoop_comp 18 176128 256 0 T0 T688 T689 srun688 sseg688
theorem srun690 : setupLoop ops 18 176640 0 T0 = T690 := setupLoop_comp 18 176384 256 0 T0 T689 T690 srun689 sseg689
theorem srun691 : setupLoop ops 18 176896 0 T0 = T691 := setupLoop_comp 18 176640 256 0 T0 T690 T691 srun690 sseg690
theorem srun692 : setupLoop ops 18 177152 0 T0 = T692 := setupLoop_comp 18 176896 256 0 T0 T691 T692 srun691 sseg691
theorem srun693 : setupLoop ops 18 177408 0 T0 = T693 := setupLoop_comp 18 177152 256 0 T0 T692 T693 srun692 sseg692
theorem srun694 : setupLoop ops 18 177664 0 T0 = T694 := setupLoop_comp 18 177408 256 0 T0 T693 T694 srun693 sseg693
theorem srun695 : setupLoop ops 18 177920 0 T0 = T695 := setupLoop_comp 18 177664 256 0 T0 T694 T695 srun694 sseg694
theorem srun696 : setupLoop ops 18 178176 0 T0 = T696 := setupLoop_comp 18 177920 256 0 T0 T695 T696 srun695 sseg695
theorem srun697 : setupLoop ops 18 178432 0 T0 = T697 := setupLoop_comp 18 178176 256 0 T0 T696 T697 srun696 sseg696
theorem srun698 : setupLoop ops 18 178688 0 T0 = T698 := setupLoop_comp 18 178432 256 0 T0 T697 T698 srun697 sseg697
theorem srun699 : setupLoop ops 18 178944 0 T0 = T699 := setupLoop_comp 18 178688 256 0 T0 T698 T699 srun698 sseg698
theorem srun700 : setupLoop ops 18 179200 0 T0 = T700 := setupLoop_comp 18 178944 256 0 T0 T699 T700 srun699 sseg699
theorem srun701 : setupLoop ops 18 179456 0 T0 = T701 := setupLoop_comp 18 179200 256 0 T0 T700 T701 srun700 sseg700
theorem srun702 : setupLoop ops 18 179712 0 T0 = T702 := setupLoop_comp 18 179456 256 0 T0 T701 T702 srun701 sseg701
theorem srun703 : setupLoop ops 18 179968 0 T0 = T703 := setupLoop_comp 18 179712 256 0 T0 T702 T703 srun702 sseg702
theorem srun704 : setupLoop ops 18 180224 0 T0 = T704 := setupLoop_comp 18 179968 256 0 T0 T703 T704 srun703 sseg703
theorem srun705 : setupLoop ops 18 180480 0 T0 = T705 := setupLoop_comp 18 180224 256 0 T0 T704 T705 srun704 sseg704
theorem srun706 : setupLoop ops 18 180736 0 T0 = T706 := setupLoop_comp 18 180480 256 0 T0 T705 T706 srun705 sseg705
theorem srun707 : setupLoop ops 18 180992 0 T0 = T707 := setupLoop_comp 18 180736 256 0 T0 T706 T707 srun706 sseg706
theorem srun708 : setupLoop ops 18 181248 0 T0 = T708 := setupLoop_comp 18 180992 256 0 T0 T707 T708 srun707 sseg707
theorem srun709 : setupLoop ops 18 181504 0 T0 = T709 := setupLoop_comp 18 181248 256 0 T0 T708 T709 srun708 sseg708
theorem srun710 : setupLoop ops 18 181760 0 T0 = T710 := setupLoop_comp 18 181504 256 0 T0 T709 T710 srun709 sseg709
theorem srun711 : setupLoop ops 18 182016 0 T0 = T711 := setupLoop_comp 18 181760 256 0 T0 T710 T711 srun710 sseg710
theorem srun712 : setupLoop ops 18 182272 0 T0 = T712 := setupLoop_comp 18 182016 256 0 T0 T711 T712 srun711 sseg711
theorem srun713 : setupLoop ops 18 182528 0 T0 = T713 := setupLoop_comp 18 182272 256 0 T0 T712 T713 srun712 sseg712
theorem srun714 : setupLoop ops 18 182784 0 T0 = T714 := setupLoop_comp 18 182528 256 0 T0 T713 T714 srun713 sseg713
theorem srun715 : setupLoop ops 18 183040 0 T0 = T715 := setupLoop_comp 18 182784 256 0 T0 T714 T715 srun714 sseg714
theorem srun716 : setupLoop ops 18 183296 0 T0 = T716 := setupLoop_comp 18 183040 256 0 T0 T715 T716 srun715 sseg715
theorem srun717 : setupLoop ops 18 183552 0 T0 = T717 := setupLoop_comp 18 183296 256 0 T0 T716 T717 srun716 sseg716
theorem srun718 : setupLoop ops 18 183808 0 T0 = T718 := setupLoop_comp 18 183552 256 0 T0 T717 T718 srun717 sseg717
theorem srun719 : setupLoop ops 18 184064 0 T0 = T719 := setupLoop_comp 18 183808 256 0 T0 T718 T719 srun718 sseg718
theorem srun720 : setupLoop ops 18 184320 0 T0 = T720 := setupLoop_comp 18 184064 256 0 T0 T719 T720 srun719 sseg719
theorem srun721 : setupLoop ops 18 184576 0 T0 = T721 := setupLoop_comp 18 184320 256 0 T0 T720 T721 srun720 sseg720
theorem srun722 : setupLoop ops 18 184832 0 T0 = T722 := setupLoop_comp 18 184576 256 0 T0 T721 T722 srun721 sseg721
theorem srun723 : setupLoop ops 18 185088 0 T0 = T723 := setupLoop_comp 18 184832 256 0 T0 T722 T723 srun722 sseg722
theorem srun724 : setupLoop ops 18 185344 0 T0 = T724 := setupLoop_comp 18 185088 256 0 T0 T723 T724 srun723 sseg723
theorem srun725 : setupLoop ops 18 185600 0 T0 = T725 := setupLoop_comp 18 185344 256 0 T0 T724 T725 srun724 sseg724
theorem srun726 : setupLoop ops 18 185856 0 T0 = T726 := setupLoop_comp 18 185600 256 0 T0 T725 T726 srun725 sseg725
theorem srun727 : setupLoop ops 18 186112 0 T0 = T727 := setupLoop_comp 18 185856 256 0 T0 T726 T727 srun726 sseg726
theorem srun728 : setupLoop ops 18 186368 0 T0 = T728 := setupLoop_comp 18 186112 256 0 T0 T727 T728 srun727 sseg727
theorem srun729 : setupLoop ops 18 186624 0 T0 = T729 := setupLoop_comp 18 186368 256 0 T0 T728 T729 srun728 sseg728
theorem srun730 : setupLoop ops 18 186880 0 T0 = T730 := setupLoop_comp 18 186624 256 0 T0 T729 T730 srun729 sseg729
theorem srun731 : setupLoop ops 18 187136 0 T0 = T731 := setupLoop_comp 18 186880 256 0 T0 T730 T731 srun730 sseg730
theorem srun732 : setupLoop ops 18 187392 0 T0 = T732 := setupLoop_comp 18 187136 256 0 T0 T731 T732 srun731 sseg731
theorem srun733 : setupLoop ops 18 187648 0 T0 = T733 := setupLoop_comp 18 187392 256 0 T0 T732 T733 srun732 sseg732
theorem srun734 : setupLoop ops 18 187904 0 T0 = T734 := setupLoop_comp 18 187648 256 0 T0 T733 T734 srun733 sseg733
theorem srun735 : setupLoop ops 18 188160 0 T0 = T735 := setupLoop_comp 18 187904 256 0 T0 T734 T735 srun734 sseg734
theorem srun736 : setupLoop ops 18 188416 0 T0 = T736 := setupLoop_comp 18 188160 256 0 T0 T735 T736 srun735 sseg735
theorem srun737 : setupLoop ops 18 188672 0 T0 = T737 := setupLoop_comp 18 188416 256 0 T0 T736 T737 srun736 sseg736
theorem srun738 : setupLoop ops 18 188928 0 T0 = T738 := setupLoop_comp 18 188672 256 0 T0 T737 T738 srun737 sseg737
theorem srun739 : setupLoop ops 18 189184 0 T0 = T739 := setupLoop_comp 18 188928 256 0 T0 T738 T739 srun738 sseg738
theorem srun740 : setupLoop ops 18 189440 0 T0 = T740 := setupLoop_comp 18 189184 256 0 T0 T739 T740 srun739 sseg739
theorem srun741 : setupLoop ops 18 189696 0 T0 = T741 := setupLoop_comp 18 189440 256 0 T0 T740 T741 srun740 sseg740
theorem srun742 : setupLoop ops 18 189952 0 T0 = T742 := setupLoop_comp 18 189696 256 0 T0 T741 T742 srun741 sseg741
theorem srun743 : setupLoop ops 18 190208 0 T0 = T743 := setupLoop_comp 18 189952 256 0 T0 T742 T743 srun742 sseg742
theorem srun744 : setupLoop ops 18 190464 0 T0 = T744 := setupLoop_comp 18 190208 256 0 T0 T743 T744 srun743 sseg743
theorem srun745 : setupLoop ops 18 190720 0 T0 = T745 := setupLoop_comp 18 190464 256 0 T0 T744 T745 srun744 sseg744
theorem srun746 : setupLoop ops 18 190976 0 T0 = T746 := setupLoop_comp 18 190720 256 0 T0 T745 T746 srun745 sseg745
theorem srun747 : setupLoop ops 18 191232 0 T0 = T747 := setupLoop_comp 18 190976 256 0 T0 T746 T747 srun746 sseg746
theorem srun748 : setupLoop ops 18 191488 0 T0 = T748 := setupLoop_comp 18 191232 256 0 T0 T747 T748 srun747 sseg747
theorem srun749 : setupLoop ops 18 191744 0 T0 = T749 := setupLoop_comp 18 191488 256 0 T0 T748 T749 srun748 sseg748
theorem srun750 : setupLoop ops 18 192000 0 T0 = T750 := setupLoop_comp 18 191744 256 0 T0 T749 T750 srun749 sseg749
theorem srun751 : setupLoop ops 18 192256 0 T0 = T751 := setupLoop_comp 18 192000 256 0 T0 T750 T751 srun750 sseg750
theorem srun752 : setupLoop ops 18 192512 0 T0 = T752 := setupLoop_comp 18 192256 256 0 T0 T751 T752 srun751 sseg751
theorem srun753 : setupLoop ops 18 192768 0 T0 = T753 := setupLoop_comp 18 192512 256 0 T0 T752 T753 srun752 sseg752
theorem srun754 : setupLoop ops 18 193024 0 T0 = T754 := setupLoop_comp 18 192768 256 0 T0 T753 T754 srun753 sseg753
theorem srun755 : setupLoop ops 18 193280 0 T0 = T755 := setupLoop_comp 18 193024 256 0 T0 T754 T755 srun754 sseg754
theorem srun756 : setupLoop ops 18 193536 0 T0 = T756 := setupLoop_comp 18 193280 256 0 T0 T755 T756 srun755 sseg755
theorem srun757 : setupLoop ops 18 193792 0 T0 = T757 := setupLoop_comp 18 193536 256 0 T0 T756 T757 srun756 sseg756
theorem srun758 : setupLoop ops 18 194048 0 T0 = T758 := setupLoop_comp 18 193792 256 0 T0 T757 T758 srun757 sseg757
theorem srun759 : setupLoop ops 18 194304 0 T0 = T759 := setupLoop_comp 18 194048 256 0 T0 T758 T759 srun758 sseg758
theorem srun760 : setupLoop ops 18 194560 0 T0 = T760 := setupLoop_comp 18 194304 256 0 T0 T759 T760 srun759 sseg759
theorem srun761 : setupLoop ops 18 194816 0 T0 = T761 := setupLoop_comp 18 194560 256 0 T0 T760 T761 srun760 sseg760
theorem srun762 : setupLoop ops 18 195072 0 T0 = T762 := setupLoop_comp 18 194816 256 0 T0 T761 T762 srun761 sseg761
theorem srun763 : setupLoop ops 18 195328 0 T0 = T763 := setupLoop_comp 18 195072 256 0 T0 T762 T763 srun762 sseg762
theorem srun764 : setupLoop ops 18 195584 0 T0 = T764 := setupLoop_comp 18 195328 256 0 T0 T763 T764 srun763 sseg763
theorem srun765 : setupLoop ops 18 195840 0 T0 = T765 := setupLoop_comp 18 195584 256 0 T0 T764 T765 srun764 sseg764
theorem srun766 : setupLoop ops 18 196096 0 T0 = T766 := setupLoop_comp 18 195840 256 0 T0 T765 T766 srun765 sseg765
theorem srun767 : setupLoop ops 18 196352 0 T0 = T767 := setupLoop_comp 18 196096 256 0 T0 T766 T767 srun766 sseg766
theorem srun768 : setupLoop ops 18 196608 0 T0 = T768 := setupLoop_comp 18 196352 256 0 T0 T767 T768 srun767 sseg767
theorem srun769 : setupLoop ops 18 196864 0 T0 = T769 := setupLoop_comp 18 196608 256 0 T0 T768 T769 srun768 sseg768
theorem srun770 : setupLoop ops 18 197120 0 T0 = T770 := setupLoop_comp 18 196864 256 0 T0 T769 T770 srun769 sseg769
theorem srun771 : setupLoop ops 18 197376 0 T0 = T771 := setupLoop_comp 18 197120 256 0 T0 T770 T771 srun770 sseg770
theorem srun772 : setupLoop ops 18 197632 0 T0 = T772 := setupLoop_comp 18 197376 256 0 T0 T771 T772 srun771 sseg771
theorem srun773 : setupLoop ops 18 197888 0 T0 = T773 := setupLoop_comp 18 197632 256 0 T0 T772 T773 srun772 sseg772
theorem srun774 : setupLoop ops 18 198144 0 T0 = T774 := setupLoop_comp 18 197888 256 0 T0 T773 T774 srun773 sseg773
theorem srun775 : setupLoop ops 18 198400 0 T0 = T775 := setupLoop_comp 18 198144 256 0 T0 T774 T775 srun774 sseg774
theorem srun776 : setupLoop ops 18 198656 0 T0 = T776 := setupLoop_comp 18 198400 256 0 T0 T775 T776 srun775 sseg775
theorem srun777 : setupLoop ops 18 198912 0 T0 = T777 := setupLoop_comp 18 198656 256 0 T0 T776 T777 srun776 sseg776
theorem srun778 : setupLoop ops 18 199168 0 T0 = T778 := setupLoop_comp 18 198912 256 0 T0 T777 T778 srun777 sseg777
theorem srun779 : setupLoop ops 18 199424 0 T0 = T779 := setupLoop_comp 18 199168 256 0 T0 T778 T779 srun778 sseg778
theorem srun780 : setupLoop ops 18 199680 0 T0 = T780 := setupLoop_comp 18 199424 256 0 T0 T779 T780 srun779 sseg779
theorem srun781 : setupLoop ops 18 199936 0 T0 = T781 := setupLoop_comp 18 199680 256 0 T0 T780 T781 srun780 sseg780
theorem srun782 : setupLoop ops 18 200192 0 T0 = T782 := setupLoop_comp 18 199936 256 0 T0 T781 T782 srun781 sseg781
theorem srun783 : setupLoop ops 18 200448 0 T0 = T783 := setupLoop_comp 18 200192 256 0 T0 T782 T783 srun782 sseg782
theorem srun784 : setupLoop ops 18 200704 0 T0 = T784 := setupLoop_comp 18 200448 256 0 T0 T783 T784 srun783 sseg783
theorem srun785 : setupLoop ops 18 200960 0 T0 = T785 := setupLoop_comp 18 200704 256 0 T0 T784 T785 srun784 sseg784
theorem srun786 : setupLoop ops 18 201216 0 T0 = T786 := setupLoop_comp 18 200960 256 0 T0 T785 T786 srun785 sseg785
theorem srun787 : setupLoop ops 18 201472 0 T0 = T787 := setupLoop_comp 18 201216 256 0 T0 T786 T787 srun786 sseg786
theorem srun788 : setupLoop ops 18 201728 0 T0 = T788 := setupLoop_comp 18 201472 256 0 T0 T787 T788 srun787 sseg787
theorem srun789 : setupLoop ops 18 201984 0 T0 = T789 := setupLoop_comp 18 201728 256 0 T0 T788 T789 srun788 sseg788
theorem srun790 : setupLoop ops 18 202240 0 T0 = T790 := setupLoop_comp 18 201984 256 0 T0 T789 T790 srun789 sseg789
theorem srun791 : setupLoop ops 18 202496 0 T0 = T791 := setupLoop_comp 18 202240 256 0 T0 T790 T791 srun790 sseg790
theorem srun792 : setupLoop ops 18 202752 0 T0 = T792 := setupLoop_comp 18 202496 256 0 T0 T791 T792 srun791 sseg791
theorem srun793 : setupLoop ops 18 203008 0 T0 = T793 := setupLoop_comp 18 202752 256 0 T0 T792 T793 srun792 sseg792
theorem srun794 : setupLoop ops 18 203264 0 T0 = T794 := setupLoop_comp 18 203008 256 0 T0 T793 T794 srun793 sseg793
theorem srun795 : setupLoop ops 18 203520 0 T0 = T795 := setupLoop_comp 18 203264 256 0 T0 T794 T795 srun794 sseg794
theorem srun796 : setupLoop ops 18 203776 0 T0 = T796 := setupLoop_comp 18 203520 256 0 T0 T795 T796 srun795 sseg795
theorem srun797 : setupLoop ops 18 204032 0 T0 = T797 := setupLoop_comp 18 203776 256 0 T0 T796 T797 srun796 sseg796
theorem srun798 : setupLoop ops 18 204288 0 T0 = T798 := setupLoop_comp 18 204032 256 0 T0 T797 T798 srun797 sseg797
theorem srun799 : setupLoop ops 18 204544 0 T0 = T799 := setupLoop_comp 18 204288 256 0 T0 T798 T799 srun798 sseg798
theorem srun800 : setupLoop ops 18 204800 0 T0 = T800 := setupLoop_comp 18 204544 256 0 T0 T799 T800 srun799 sseg799
theorem srun801 : setupLoop ops 18 205056 0 T0 = T801 := setupLoop_comp 18 204800 256 0 T0 T800 T801 srun800 sseg800
theorem srun802 : setupLoop ops 18 205312 0 T0 = T802 := setupLoop_comp 18 205056 256 0 T0 T801 T802 srun801 sseg801
theorem srun803 : setupLoop ops 18 205568 0 T0 = T803 := setupLoop_comp 18 205312 256 0 T0 T802 T803 srun802 sseg802
theorem srun804 : setupLoop ops 18 205824 0 T0 = T804 := setupLoop_comp 18 205568 256 0 T0 T803 T804 srun803 sseg803
theorem srun805 : setupLoop ops 18 206080 0 T0 = T805 := setupLoop_comp 18 205824 256 0 T0 T804 T805 srun804 sseg804
theorem srun806 : setupLoop ops 18 206336 0 T0 = T806 := setupLoop_comp 18 206080 256 0 T0 T805 T806 srun805 sseg805
theorem srun807 : setupLoop ops 18 206592 0 T0 = T807 := setupLoop_comp 18 206336 256 0 T0 T806 T807 srun806 sseg806
theorem srun808 : setupLoop ops 18 206848 0 T0 = T808 := setupLoop_comp 18 206592 256 0 T0 T807 T808 srun807 sseg807
theorem srun809 : setupLoop ops 18 207104 0 T0 = T809 := setupLoop_comp 18 206848 256 0 T0 T808 T809 srun808 sseg808
theorem srun810 : setupLoop ops 18 207360 0 T0 = T810 := setupLoop_comp 18 207104 256 0 T0 T809 T810 srun809 sseg809
theorem srun811 : setupLoop ops 18 207616 0 T0 = T811 := setupLoop_comp 18 207360 256 0 T0 T810 T811 srun810 sseg810
theorem srun812 : setupLoop ops 18 207872 0 T0 = T812 := setupLoop_comp 18 207616 256 0 T0 T811 T812 srun811 sseg811
theorem srun813 : setupLoop ops 18 208128 0 T0 = T813 := setupLoop_comp 18 207872 256 0 T0 T812 T813 srun812 sseg812
theorem srun814 : setupLoop ops 18 208384 0 T0 = T814 := setupLoop_comp 18 208128 256 0 T0 T813 T814 srun813 sseg813
theorem srun815 : setupLoop ops 18 208640 0 T0 = T815 := setupLoop_comp 18 208384 256 0 T0 T814 T815 srun814 sseg814
theorem srun816 : setupLoop ops 18 208896 0 T0 = T816 := setupLoop_comp 18 208640 256 0 T0 T815 T816 srun815 sseg815
theorem srun817 : setupLoop ops 18 209152 0 T0 = T817 := setupLoop_comp 18 208896 256 0 T0 T816 T817 srun816 sseg816
theorem srun818 : setupLoop ops 18 209408 0 T0 = T818 := setupLoop_comp 18 209152 256 0 T0 T817 T818 srun817 sseg817
theorem srun819 : setupLoop ops 18 209664 0 T0 = T819 := setupLoop_comp 18 209408 256 0 T0 T818 T819 srun818 sseg818
theorem srun820 : setupLoop ops 18 209920 0 T0 = T820 := setupLoop_comp 18 209664 256 0 T0 T819 T820 srun819 sseg819
theorem srun821 : setupLoop ops 18 210176 0 T0 = T821 := setupLoop_comp 18 209920 256 0 T0 T820 T821 srun820 sseg820
theorem srun822 : setupLoop ops 18 210432 0 T0 = T822 := setupLoop_comp 18 210176 256 0 T0 T821 T822 srun821 sseg821
theorem srun823 : setupLoop ops 18 210688 0 T0 = T823 := setupLoop_comp 18 210432 256 0 T0 T822 T823 srun822 sseg822
theorem srun824 : setupLoop ops 18 210944 0 T0 = T824 := setupLoop_comp 18 210688 256 0 T0 T823 T824 srun823 sseg823
theorem srun825 : setupLoop ops 18 211200 0 T0 = T825 := setupLoop_comp 18 210944 256 0 T0 T824 T825 srun824 sseg824
theorem srun826 : setupLoop ops 18 211456 0 T0 = T826 := setupLoop_comp 18 211200 256 0 T0 T825 T826 srun825 sseg825
theorem srun827 : setupLoop ops 18 211712 0 T0 = T827 := setupLoop_comp 18 211456 256 0 T0 T826 T827 srun826 sseg826
theorem srun828 : setupLoop ops 18 211968 0 T0 = T828 := setupLoop_comp 18 211712 256 0 T0 T827 T828 srun827 sseg827
theorem srun829 : setupLoop ops 18 212224 0 T0 = T829 := setupLoop_comp 18 211968 256 0 T0 T828 T829 srun828 sseg828
theorem srun830 : setupLoop ops 18 212480 0 T0 = T830 := setupLoop_comp 18 212224 256 0 T0 T829 T830 srun829 sseg829
theorem srun831 : setupLoop ops 18 212736 0 T0 = T831 := setupLoop_comp 18 212480 256 0 T0 T830 T831 srun830 sseg830
theorem srun832 : setupLoop ops 18 212992 0 T0 = T832 := setupLoop_comp 18 212736 256 0 T0 T831 T832 srun831 sseg831
theorem srun833 : setupLoop ops 18 213248 0 T0 = T833 := setupLoop_comp 18 212992 256 0 T0 T832 T833 srun832 sseg832
theorem srun834 : setupLoop ops 18 213504 0 T0 = T834 := setupLoop_comp 18 213248 256 0 T0 T833 T834 srun833 sseg833
theorem srun835 : setupLoop ops 18 213760 0 T0 = T835 := setupLoop_comp 18 213504 256 0 T0 T834 T835 srun834 sseg834
theorem srun836 : setupLoop ops 18 214016 0 T0 = T836 := setupLoop_comp 18 213760 256 0 T0 T835 T836 srun835 sseg835
theorem srun837 : setupLoop ops 18 214272 0 T0 = T837 := setupLoop_comp 18 214016 256 0 T0 T836 T837 srun836 sseg836
theorem srun838 : setupLoop ops 18 214528 0 T0 = T838 := setupLoop_comp 18 214272 256 0 T0 T837 T838 srun837 sseg837
theorem srun839 : setupLoop ops 18 214784 0 T0 = T839 := setupLoop_comp 18 214528 256 0 T0 T838 T839 srun838 sseg838
theorem srun840 : setupLoop ops 18 215040 0 T0 = T840 := setupLoop_comp 18 214784 256 0 T0 T839 T840 srun839 sseg839
theorem srun841 : setupLoop ops 18 215296 0 T0 = T841 := setupLoop_comp 18 215040 256 0 T0 T840 T841 srun840 sseg840
theorem srun842 : setupLoop ops 18 215552 0 T0 = T842 := setupLoop_comp 18 215296 256 0 T0 T841 T842 srun841 sseg841
theorem srun843 : setupLoop ops 18 215808 0 T0 = T843 := setupLoop_comp 18 215552 256 0 T0 T842 T843 srun842 sseg842
theorem srun844 : setupLoop ops 18 216064 0 T0 = T844 := setupLoop_comp 18 215808 256 0 T0 T843 T844 srun843 sseg843
theorem srun845 : setupLoop ops 18 216320 0 T0 = T845 := setupLoop_comp 18 216064 256 0 T0 T844 T845 srun844 sseg844
theorem srun846 : setupLoop ops 18 216576 0 T0 = T846 := setupLoop_comp 18 216320 256 0 T0 T845 T846 srun845 sseg845
theorem srun847 : setupLoop ops 18 216832 0 T0 = T847 := setupLoop_comp 18 216576 256 0 T0 T846 T847 srun846 sseg846
theorem srun848 : setupLoop ops 18 217088 0 T0 = T848 := setupLoop_comp 18 216832 256 0 T0 T847 T848 srun847 sseg847
theorem srun849 : setupLoop ops 18 217344 0 T0 = T849 := setupLoop_comp 18 217088 256 0 T0 T848 T849 srun848 sseg848
theorem srun850 : setupLoop ops 18 217600 0 T0 = T850 := setupLoop_comp 18 217344 256 0 T0 T849 T850 srun849 sseg849
theorem srun851 : setupLoop ops 18 217856 0 T0 = T851 := setupLoop_comp 18 217600 256 0 T0 T850 T851 srun850 sseg850
theorem srun852 : setupLoop ops 18 218112 0 T0 = T852 := setupLoop_comp 18 217856 256 0 T0 T851 T852 srun851 sseg851
theorem srun853 : setupLoop ops 18 218368 0 T0 = T853 := setupLoop_comp 18 218112 256 0 T0 T852 T853 srun852 sseg852
theorem srun854 : setupLoop ops 18 218624 0 T0 = T854 := setupLoop_comp 18 218368 256 0 T0 T853 T854 srun853 sseg853
theorem srun855 : setupLoop ops 18 218880 0 T0 = T855 := setupLoop_comp 18 218624 256 0 T0 T854 T855 srun854 sseg854
theorem srun856 : setupLoop ops 18 219136 0 T0 = T856 := setupLoop_comp 18 218880 256 0 T0 T855 T856 srun855 sseg855
theorem srun857 : setupLoop ops 18 219392 0 T0 = T857 := setupLoop_comp 18 219136 256 0 T0 T856 T857 srun856 sseg856
theorem srun858 : setupLoop ops 18 219648 0 T0 = T858 := setupLoop_comp 18 219392 256 0 T0 T857 T858 srun857 sseg857
theorem srun859 : setupLoop ops 18 219904 0 T0 = T859 := setupLoop_comp 18 219648 256 0 T0 T858 T859 srun858 sseg858
theorem srun860 : setupLoop ops 18 220160 0 T0 = T860 := setupLoop_comp 18 219904 256 0 T0 T859 T860 srun859 sseg859
theorem srun861 : setupLoop ops 18 220416 0 T0 = T861 := setupLoop_comp 18 220160 256 0 T0 T860 T861 srun860 sseg860
theorem srun862 : setupLoop ops 18 220672 0 T0 = T862 := setupLoop_comp 18 220416 256 0 T0 T861 T862 srun861 sseg861
theorem srun863 : setupLoop ops 18 220928 0 T0 = T863 := setupLoop_comp 18 220672 256 0 T0 T862 T863 srun862 sseg862
theorem srun864 : setupLoop ops 18 221184 0 T0 = T864 := setupLoop_comp 18 220928 256 0 T0 T863 T864 srun863 sseg863
theorem srun865 : setupLoop ops 18 221440 0 T0 = T865 := setupLoop_comp 18 221184 256 0 T0 T864 T865 srun864 sseg864
theorem srun866 : setupLoop ops 18 221696 0 T0 = T866 := setupLoop_comp 18 221440 256 0 T0 T865 T866 srun865 sseg865
theorem srun867 : setupLoop ops 18 221952 0 T0 = T867 := setupLoop_comp 18 221696 256 0 T0 T866 T867 srun866 sseg866
theorem srun868 : setupLoop ops 18 222208 0 T0 = T868 := setupLoop_comp 18 221952 256 0 T0 T867 T868 srun867 sseg867
theorem srun869 : setupLoop ops 18 222464 0 T0 = T869 := setupLoop_comp 18 222208 256 0 T0 T868 T869 srun868 sseg868
theorem srun870 : setupLoop ops 18 222720 0 T0 = T870 := setupLoop_comp 18 222464 256 0 T0 T869 T870 srun869 sseg869
theorem srun871 : setupLoop ops 18 222976 0 T0 = T871 := setupLoop_comp 18 222720 256 0 T0 T870 T871 srun870 sseg870
theorem srun872 : setupLoop ops 18 223232 0 T0 = T872 := setupLoop_comp 18 222976 256 0 T0 T871 T872 srun871 sseg871
theorem srun873 : setupLoop ops 18 223488 0 T0 = T873 := setupLoop_comp 18 223232 256 0 T0 T872 T873 srun872 sseg872
theorem srun874 : setupLoop ops 18 223744 0 T0 = T874 := setupLoop_comp 18 223488 256 0 T0 T873 T874 srun873 sseg873
theorem srun875 : setupLoop ops 18 224000 0 T0 = T875 := setupLoop_comp 18 223744 256 0 T0 T874 T875 srun874 sseg874
theorem srun876 : setupLoop ops 18 224256 0 T0 = T876 := setupLoop_comp 18 224000 256 0 T0 T875 T876 srun875 sseg875
theorem srun877 : setupLoop ops 18 224512 0 T0 = T877 := setupLoop_comp 18 224256 256 0 T0 T876 T877 srun876 sseg876
theorem srun878 : setupLoop ops 18 224768 0 T0 = T878 := setupLoop_comp 18 224512 256 0 T0 T877 T878 srun877 sseg877
theorem srun879 : setupLoop ops 18 225024 0 T0 = T879 := setupLoop_comp 18 224768 256 0 T0 T878 T879 srun878 sseg878
theorem srun880 : setupLoop ops 18 225280 0 T0 = T880 := setupLoop_comp 18 225024 256 0 T0 T879 T880 srun879 sseg879
theorem srun881 : setupLoop ops 18 225536 0 T0 = T881 := setupLoop_comp 18 225280 256 0 T0 T880 T881 srun880 sseg880
theorem srun882 : setupLoop ops 18 225792 0 T0 = T882 := setupLoop_comp 18 225536 256 0 T0 T881 T882 srun881 sseg881
theorem srun883 : setupLoop ops 18 226048 0 T0 = T883 := setupLoop_comp 18 225792 256 0 T0 T882 T883 srun882 sseg882
theorem srun884 : setupLoop ops 18 226304 0 T0 = T884 := setupLoop_comp 18 226048 256 0 T0 T883 T884 srun883 sseg883
theorem srun885 : setupLoop ops 18 226560 0 T0 = T885 := setupLoop_comp 18 226304 256 0 T0 T884 T885 srun884 sseg884
theorem srun886 : setupLoop ops 18 226816 0 T0 = T886 := setupLoop_comp 18 226560 256 0 T0 T885 T886 srun885 sseg885
theorem srun887 : setupLoop ops 18 227072 0 T0 = T887 := setupLoop_comp 18 226816 256 0 T0 T886 T887 srun886 sseg886
theorem srun888 : setupLoop ops 18 227328 0 T0 = T888 := setupLoop_comp 18 227072 256 0 T0 T887 T888 srun887 sseg887
theorem srun889 : setupLoop ops 18 227584 0 T0 = T889 := setupLoop_comp 18 227328 256 0 T0 T888 T889 srun888 sseg888
theorem srun890 : setupLoop ops 18 227840 0 T0 = T890 := setupLoop_comp 18 227584 256 0 T0 T889 T890 srun889 sseg889
theorem srun891 : setupLoop ops 18 228096 0 T0 = T891 := setupLoop_comp 18 227840 256 0 T0 T890 T891 srun890 sseg890
theorem srun892 : setupLoop ops 18 228352 0 T0 = T892 := setupLoop_comp 18 228096 256 0 T0 T891 T892 srun891 sseg891
theorem srun893 : setupLoop ops 18 228608 0 T0 = T893 := setupLoop_comp 18 228352 256 0 T0 T892 T893 srun892 sseg892
theorem srun894 : setupLoop ops 18 228864 0 T0 = T894 := setupLoop_comp 18 228608 256 0 T0 T893 T894 srun893 sseg893
theorem srun895 : setupLoop ops 18 229120 0 T0 = T895 := setupLoop_comp 18 228864 256 0 T0 T894 T895 srun894 sseg894
theorem srun896 : setupLoop ops 18 229376 0 T0 = T896 := setupLoop_comp 18 229120 256 0 T0 T895 T896 srun895 sseg895
theorem srun897 : setupLoop ops 18 229632 0 T0 = T897 := setupLoop_comp 18 229376 256 0 T0 T896 T897 srun896 sseg896
theorem srun898 : setupLoop ops 18 229888 0 T0 = T898 := setupLoop_comp 18 229632 256 0 T0 T897 T898 srun897 sseg897
theorem srun899 : setupLoop ops 18 230144 0 T0 = T899 := setupLoop_comp 18 229888 256 0 T0 T898 T899 srun898 sseg898
theorem srun900 : setupLoop ops 18 230400 0 T0 = T900 := setupLoop_comp 18 230144 256 0 T0 T899 T900 srun899 sseg899
theorem srun901 : setupLoop ops 18 230656 0 T0 = T901 := setupLoop_comp 18 230400 256 0 T0 T900 T901 srun900 sseg900
theorem srun902 : setupLoop ops 18 230912 0 T0 = T902 := setupLoop_comp 18 230656 256 0 T0 T901 T902 srun901 sseg901
theorem srun903 : setupLoop ops 18 231168 0 T0 = T903 := setupLoop_comp 18 230912 256 0 T0 T902 T903 srun902 sseg902
theorem srun904 : setupLoop ops 18 231424 0 T0 = T904 := setupLoop_comp 18 231168 256 0 T0 T903 T904 srun903 sseg903
theorem srun905 : setupLoop ops 18 231680 0 T0 = T905 := setupLoop_comp 18 231424 256 0 T0 T904 T905 srun904 sseg904
theorem srun906 : setupLoop ops 18 231936 0 T0 = T906 := setupLoop_comp 18 231680 256 0 T0 T905 T906 srun905 sseg905
theorem srun907 : setupLoop ops 18 232192 0 T0 = T907 := setupLoop_comp 18 231936 256 0 T0 T906 T907 srun906 sseg906
theorem srun908 : setupLoop ops 18 232448 0 T0 = T908 := setupLoop_comp 18 232192 256 0 T0 T907 T908 srun907 sseg907
theorem srun909 : setupLoop ops 18 232704 0 T0 = T909 := setupLoop_comp 18 232448 256 0 T0 T908 T909 srun908 sseg908
theorem srun910 : setupLoop ops 18 232960 0 T0 = T910 := setupLoop_comp 18 232704 256 0 T0 T909 T910 srun909 sseg909
theorem srun911 : setupLoop ops 18 233216 0 T0 = T911 := setupLoop_comp 18 232960 256 0 T0 T910 T911 srun910 sseg910
theorem srun912 : setupLoop ops 18 233472 0 T0 = T912 := setupLoop_comp 18 233216 256 0 T0 T911 T912 srun911 sseg911
theorem srun913 : setupLoop ops 18 233728 0 T0 = T913 := setupLoop_comp 18 233472 256 0 T0 T912 T913 srun912 sseg912
theorem srun914 : setupLoop ops 18 233984 0 T0 = T914 := setupLoop_comp 18 233728 256 0 T0 T913 T914 srun913 sseg913
theorem srun915 : setupLoop ops 18 234240 0 T0 = T915 := setupLoop_comp 18 233984 256 0 T0 T914 T915 srun914 sseg914
theorem srun916 : setupLoop ops 18 234496 0 T0 = T916 := setupLoop_comp 18 234240 256 0 T0 T915 T916 srun915 sseg915
theorem srun917 : setupLoop ops 18 234752 0 T0 = T917 := setupLoop_comp 18 234496 256 0 T0 T916 T917 srun916 sseg916
theorem srun918 : setupLoop ops 18 235008 0 T0 = T918 := setupLoop_comp 18 234752 256 0 T0 T917 T918 srun917 sseg917
theorem srun919 : setupLoop ops 18 235264 0 T0 = T919 := setupLoop_comp 18 235008 256 0 T0 T918 T919 srun918 sseg918
theorem srun920 : setupLoop ops 18 235520 0 T0 = T920 := setupLoop_comp 18 235264 256 0 T0 T919 T920 srun919 sseg919
theorem srun921 : setupLoop ops 18 235776 0 T0 = T921 := setupLoop_comp 18 235520 256 0 T0 T920 T921 srun920 sseg920
theorem srun922 : setupLoop ops 18 236032 0 T0 = T922 := setupLoop_comp 18 235776 256 0 T0 T921 T922 srun921 sseg921
theorem srun923 : setupLoop ops 18 236288 0 T0 = T923 := setupLoop_comp 18 236032 256 0 T0 T922 T923 srun922 sseg922
theorem srun924 : setupLoop ops 18 236544 0 T0 = T924 := setupLoop_comp 18 236288 256 0 T0 T923 T924 srun923 sseg923
theorem srun925 : setupLoop ops 18 236800 0 T0 = T925 := setupLoop_comp 18 236544 256 0 T0 T924 T925 srun924 sseg924
theorem srun926 : setupLoop ops 18 237056 0 T0 = T926 := setupLoop_comp 18 236800 256 0 T0 T925 T926 srun925 sseg925
theorem srun927 : setupLoop ops 18 237312 0 T0 = T927 := setupLoop_comp 18 237056 256 0 T0 T926 T927 srun926 sseg926
theorem srun928 : setupLoop ops 18 237568 0 T0 = T928 := setupLoop_comp 18 237312 256 0 T0 T927 T928 srun927 sseg927
theorem srun929 : setupLoop ops 18 237824 0 T0 = T929 := setupLoop_comp 18 237568 256 0 T0 T928 T929 srun928 sseg928
theorem srun930 : setupLoop ops 18 238080 0 T0 = T930 := setupLoop_comp 18 237824 256 0 T0 T929 T930 srun929 sseg929
theorem srun931 : setupLoop ops 18 238336 0 T0 = T931 := setupLoop_comp 18 238080 256 0 T0 T930 T931 srun930 sseg930
theorem srun932 : setupLoop ops 18 238592 0 T0 = T932 := setupLoop_comp 18 238336 256 0 T0 T931 T932 srun931 sseg931
theorem srun933 : setupLoop ops 18 238848 0 T0 = T933 := setupLoop_comp 18 238592 256 0 T0 T932 T933 srun932 sseg932
theorem srun934 : setupLoop ops 18 239104 0 T0 = T934 := setupLoop_comp 18 238848 256 0 T0 T933 T934 srun933 sseg933
theorem srun935 : setupLoop ops 18 239360 0 T0 = T935 := setupLoop_comp 18 239104 256 0 T0 T934 T935 srun934 sseg934
theorem srun936 : setupLoop ops 18 239616 0 T0 = T936 := setupLoop_comp 18 239360 256 0 T0 T935 T936 srun935 sseg935
theorem srun937 : setupLoop ops 18 239872 0 T0 = T937 := setupLoop_comp 18 239616 256 0 T0 T936 T937 srun936 sseg936
theorem srun938 : setupLoop ops 18 240128 0 T0 = T938 := setupLoop_comp 18 239872 256 0 T0 T937 T938 srun937 sseg937
theorem srun939 : setupLoop ops 18 240384 0 T0 = T939 := setupLoop_comp 18 240128 256 0 T0 T938 T939 srun938 sseg938
theorem srun940 : setupLoop ops 18 240640 0 T0 = T940 := setupLoop_comp 18 240384 256 0 T0 T939 T940 srun939 sseg939
theorem srun941 : setupLoop ops 18 240896 0 T0 = T941 := setupLoop_comp 18 240640 256 0 T0 T940 T941 srun940 sseg940
theorem srun942 : setupLoop ops 18 241152 0 T0 = T942 := setupLoop_comp 18 240896 256 0 T0 T941 T942 srun941 sseg941
theorem srun943 : setupLoop ops 18 241408 0 T0 = T943 := setupLoop_comp 18 241152 256 0 T0 T942 T943 srun942 sseg942
theorem srun944 : setupLoop ops 18 241664 0 T0 = T944 := setupLoop_comp 18 241408 256 0 T0 T943 T944 srun943 sseg943
theorem srun945 : setupLoop ops 18 241920 0 T0 = T945 := setupLoop_comp 18 241664 256 0 T0 T944 T945 srun944 sseg944
theorem srun946 : setupLoop ops 18 242176 0 T0 = T946 := setupLoop_comp 18 241920 256 0 T0 T945 T946 srun945 sseg945
theorem srun947 : setupLoop ops 18 242432 0 T0 = T947 := setupLoop_comp 18 242176 256 0 T0 T946 T947 srun946 sseg946
theorem srun948 : setupLoop ops 18 242688 0 T0 = T948 := setupLoop_comp 18 242432 256 0 T0 T947 T948 srun947 sseg947
theorem srun949 : setupLoop ops 18 242944 0 T0 = T949 := setupLoop_comp 18 242688 256 0 T0 T948 T949 srun948 sseg948
theorem srun950 : setupLoop ops 18 243200 0 T0 = T950 := setupLoop_comp 18 242944 256 0 T0 T949 T950 srun949 sseg949
theorem srun951 : setupLoop ops 18 243456 0 T0 = T951 := setupLoop_comp 18 243200 256 0 T0 T950 T951 srun950 sseg950
theorem srun952 : setupLoop ops 18 243712 0 T0 = T952 := setupLoop_comp 18 243456 256 0 T0 T951 T952 srun951 sseg951
theorem srun953 : setupLoop ops 18 243968 0 T0 = T953 := setupLoop_comp 18 243712 256 0 T0 T952 T953 srun952 sseg952
theorem srun954 : setupLoop ops 18 244224 0 T0 = T954 := setupLoop_comp 18 243968 256 0 T0 T953 T954 srun953 sseg953
theorem srun955 : setupLoop ops 18 244480 0 T0 = T955 := setupLoop_comp 18 244224 256 0 T0 T954 T955 srun954 sseg954
theorem srun956 : setupLoop ops 18 244736 0 T0 = T956 := setupLoop_comp 18 244480 256 0 T0 T955 T956 srun955 sseg955
theorem srun957 : setupLoop ops 18 244992 0 T0 = T957 := setupLoop_comp 18 244736 256 0 T0 T956 T957 srun956 sseg956
theorem srun958 : setupLoop ops 18 245248 0 T0 = T958 := setupLoop_comp 18 244992 256 0 T0 T957 T958 srun957 sseg957
theorem srun959 : setupLoop ops 18 245504 0 T0 = T959 := setupLoop_comp 18 245248 256 0 T0 T958 T959 srun958 sseg958
theorem srun960 : setupLoop ops 18 245760 0 T0 = T960 := setupLoop_comp 18 245504 256 0 T0 T959 T960 srun959 sseg959
theorem srun961 : setupLoop ops 18 246016 0 T0 = T961 := setupLoop_comp 18 245760 256 0 T0 T960 T961 srun960 sseg960
theorem srun962 : setupLoop ops 18 246272 0 T0 = T962 := setupLoop_comp 18 246016 256 0 T0 T961 T962 srun961 sseg961
theorem srun963 : setupLoop ops 18 246528 0 T0 = T963 := setupLoop_comp 18 246272 256 0 T0 T962 T963 srun962 sseg962
theorem srun964 : setupLoop ops 18 246784 0 T0 = T964 := setupLoop_comp 18 246528 256 0 T0 T963 T964 srun963 sseg963
theorem srun965 : setupLoop ops 18 247040 0 T0 = T965 := setupLoop_comp 18 246784 256 0 T0 T964 T965 srun964 sseg964
theorem srun966 : setupLoop ops 18 247296 0 T0 = T966 := setupLoop_comp 18 247040 256 0 T0 T965 T966 srun965 sseg965
theorem srun967 : setupLoop ops 18 247552 0 T0 = T967 := setupLoop_comp 18 247296 256 0 T0 T966 T967 srun966 sseg966
theorem srun968 : setupLoop ops 18 247808 0 T0 = T968 := setupLoop_comp 18 247552 256 0 T0 T967 T968 srun967 sseg967
theorem srun969 : setupLoop ops 18 248064 0 T0 = T969 := setupLoop_comp 18 247808 256 0 T0 T968 T969 srun968 sseg968
theorem srun970 : setupLoop ops 18 248320 0 T0 = T970 := setupLoop_comp 18 248064 256 0 T0 T969 T970 srun969 sseg969
theorem srun971 : setupLoop ops 18 248576 0 T0 = T971 := setupLoop_comp 18 248320 256 0 T0 T970 T971 srun970 sseg970
theorem srun972 : setupLoop ops 18 248832 0 T0 = T972 := setupLoop_comp 18 248576 256 0 T0 T971 T972 srun971 sseg971
theorem srun973 : setupLoop ops 18 249088 0 T0 = T973 := setupLoop_comp 18 248832 256 0 T0 T972 T973 srun972 sseg972
theorem srun974 : setupLoop ops 18 249344 0 T0 = T974 := setupLoop_comp 18 249088 256 0 T0 T973 T974 srun973 sseg973
theorem srun975 : setupLoop ops 18 249600 0 T0 = T975 := setupLoop_comp 18 249344 256 0 T0 T974 T975 srun974 sseg974
theorem srun976 : setupLoop ops 18 249856 0 T0 = T976 := setupLoop_comp 18 249600 256 0 T0 T975 T976 srun975 sseg975
theorem srun977 : setupLoop ops 18 250112 0 T0 = T977 := setupLoop_comp 18 249856 256 0 T0 T976 T977 srun976 sseg976
theorem srun978 : setupLoop ops 18 250368 0 T0 = T978 := setupLoop_comp 18 250112 256 0 T0 T977 T978 srun977 sseg977
theorem srun979 : setupLoop ops 18 250624 0 T0 = T979 := setupLoop_comp 18 250368 256 0 T0 T978 T979 srun978 sseg978
theorem srun980 : setupLoop ops 18 250880 0 T0 = T980 := setupLoop_comp 18 250624 256 0 T0 T979 T980 srun979 sseg979
theorem srun981 : setupLoop ops 18 251136 0 T0 = T981 := setupLoop_comp 18 250880 256 0 T0 T980 T981 srun980 sseg980
theorem srun982 : setupLoop ops 18 251392 0 T0 = T982 := setupLoop_comp 18 251136 256 0 T0 T981 T982 srun981 sseg981
theorem srun983 : setupLoop ops 18 251648 0 T0 = T983 := setupLoop_comp 18 251392 256 0 T0 T982 T983 srun982 sseg982
theorem srun984 : setupLoop ops 18 251904 0 T0 = T984 := setupLoop_comp 18 251648 256 0 T0 T983 T984 srun983 sseg983
theorem srun985 : setupLoop ops 18 252160 0 T0 = T985 := setupLoop_comp 18 251904 256 0 T0 T984 T985 srun984 sseg984
theorem srun986 : setupLoop ops 18 252416 0 T0 = T986 := setupLoop_comp 18 252160 256 0 T0 T985 T986 srun985 sseg985
theorem srun987 : setupLoop ops 18 252672 0 T0 = T987 := setupLoop_comp 18 252416 256 0 T0 T986 T987 srun986 sseg986
theorem srun988 : setupLoop ops 18 252928 0 T0 = T988 := setupLoop_comp 18 252672 256 0 T0 T987 T988 srun987 sseg987
theorem srun989 : setupLoop ops 18 253184 0 T0 = T989 := setupLoop_comp 18 252928 256 0 T0 T988 T989 srun988 sseg988
theorem srun990 : setupLoop ops 18 253440 0 T0 = T990 := setupLoop_comp 18 253184 256 0 T0 T989 T990 srun989 sseg989
theorem srun991 : setupLoop ops 18 253696 0 T0 = T991 := setupLoop_comp 18 253440 256 0 T0 T990 T991 srun990 sseg990
theorem srun992 : setupLoop ops 18 253952 0 T0 = T992 := setupLoop_comp 18 253696 256 0 T0 T991 T992 srun991 sseg991
theorem srun993 : setupLoop ops 18 254208 0 T0 = T993 := setupLoop_comp 18 253952 256 0 T0 T992 T993 srun992 sseg992
theorem srun994 : setupLoop ops 18 254464 0 T0 = T994 := setupLoop_comp 18 254208 256 0 T0 T993 T994 srun993 sseg993
theorem srun995 : setupLoop ops 18 254720 0 T0 = T995 := setupLoop_comp 18 254464 256 0 T0 T994 T995 srun994 sseg994
theorem srun996 : setupLoop ops 18 254976 0 T0 = T996 := setupLoop_comp 18 254720 256 0 T0 T995 T996 srun995 sseg995
theorem srun997 : setupLoop ops 18 255232 0 T0 = T997 := setupLoop_comp 18 254976 256 0 T0 T996 T997 srun996 sseg996
theorem srun998 : setupLoop ops 18 255488 0 T0 = T998 := setupLoop_comp 18 255232 256 0 T0 T997 T998 srun997 sseg997
theorem srun999 : setupLoop ops 18 255744 0 T0 = T999 := setupLoop_comp 18 255488 256 0 T0 T998 T999 srun998 sseg998
theorem srun1000 : setupLoop ops 18 256000 0 T0 = T1000 := setupLoop_comp 18 255744 256 0 T0 T999 T1000 srun999 sseg999
theorem srun1001 : setupLoop ops 18 256256 0 T0 = T1001 := setupLoop_comp 18 256000 256 0 T0 T1000 T1001 srun1000 sseg1000
theorem srun1002 : setupLoop ops 18 256512 0 T0 = T1002 := setupLoop_comp 18 256256 256 0 T0 T1001 T1002 srun1001 sseg1001
theorem srun1003 : setupLoop ops 18 256768 0 T0 = T1003 := setupLoop_comp 18 256512 256 0 T0 T1002 T1003 srun1002 sseg1002
theorem srun1004 : setupLoop ops 18 257024 0 T0 = T1004 := setupLoop_comp 18 256768 256 0 T0 T1003 T1004 srun1003 sseg1003
theorem srun1005 : setupLoop ops 18 257280 0 T0 = T1005 := setupLoop_comp 18 257024 256 0 T0 T1004 T1005 srun1004 sseg1004
theorem srun1006 : setupLoop ops 18 257536 0 T0 = T1006 := setupLoop_comp 18 257280 256 0 T0 T1005 T1006 srun1005 sseg1005
theorem srun1007 : setupLoop ops 18 257792 0 T0 = T1007 := setupLoop_comp 18 257536 256 0 T0 T1006 T1007 srun1006 sseg1006
theorem srun1008 : setupLoop ops 18 258048 0 T0 = T1008 := setupLoop_comp 18 257792 256 0 T0 T1007 T1008 srun1007 sseg1007
theorem srun1009 : setupLoop ops 18 258304 0 T0 = T1009 := setupLoop_comp 18 258048 256 0 T0 T1008 T1009 srun1008 sseg1008
theorem srun1010 : setupLoop ops 18 258560 0 T0 = T1010 := setupLoop_comp 18 258304 256 0 T0 T1009 T1010 srun1009 sseg1009
theorem srun1011 : setupLoop ops 18 258816 0 T0 = T1011 := setupLoop_comp 18 258560 256 0 T0 T1010 T1011 srun1010 sseg1010
theorem srun1012 : setupLoop ops 18 259072 0 T0 = T1012 := setupLoop_comp 18 258816 256 0 T0 T1011 T1012 srun1011 sseg1011
theorem srun1013 : setupLoop ops 18 259328 0 T0 = T1013 := setupLoop_comp 18 259072 256 0 T0 T1012 T1013 srun1012 sseg1012
theorem srun1014 : setupLoop ops 18 259584 0 T0 = T1014 := setupLoop_comp 18 259328 256 0 T0 T1013 T1014 srun1013 sseg1013
theorem srun1015 : setupLoop ops 18 259840 0 T0 = T1015 := setupLoop_comp 18 259584 256 0 T0 T1014 T1015 srun1014 sseg1014
theorem srun1016 : setupLoop ops 18 260096 0 T0 = T1016 := setupLoop_comp 18 259840 256 0 T0 T1015 T1016 srun1015 sseg1015
theorem srun1017 : setupLoop ops 18 260352 0 T0 = T1017 := setupLoop_comp 18 260096 256 0 T0 T1016 T1017 srun1016 sseg1016
theorem srun1018 : setupLoop ops 18 260608 0 T0 = T1018 := setupLoop_comp 18 260352 256 0 T0 T1017 T1018 srun1017 sseg1017
theorem srun1019 : setupLoop ops 18 260864 0 T0 = T1019 := setupLoop_comp 18 260608 256 0 T0 T1018 T1019 srun1018 sseg1018
theorem srun1020 : setupLoop ops 18 261120 0 T0 = T1020 := setupLoop_comp 18 260864 256 0 T0 T1019 T1020 srun1019 sseg1019
theorem srun1021 : setupLoop ops 18 261376 0 T0 = T1021 := setupLoop_comp 18 261120 256 0 T0 T1020 T1021 srun1020 sseg1020
theorem srun1022 : setupLoop ops 18 261632 0 T0 = T1022 := setupLoop_comp 18 261376 256 0 T0 T1021 T1022 srun1021 sseg1021
theorem srun1023 : setupLoop ops 18 261888 0 T0 = T1023 := setupLoop_comp 18 261632 256 0 T0 T1022 T1023 srun1022 sseg1022
theorem srun1024 : setupLoop ops 18 262144 0 T0 = T1024 := setupLoop_comp 18 261888 256 0 T0 T1023 T1024 srun1023 sseg1023
set_option maxRecDepth 1000000 in
/-- key generation of height 18, assembled from 1024 kernel-checked pieces of 256 leaves -/
theorem setup : treeHashSetup ops 18 = (S0, .nd 18 0) :=
  setup_of_run 18 T0 T1024 t0 srun1024 S0 (.nd 18 0) (by decide +kernel)
end Qrl.BdsLabel.Seg18
