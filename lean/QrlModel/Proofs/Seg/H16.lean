import QrlModel.Proofs.Seg.H16Seg0
import QrlModel.Proofs.Seg.H16Seg1
import QrlModel.Proofs.Seg.H16Seg2
import QrlModel.Proofs.Seg.H16Seg3
import QrlModel.Proofs.Seg.H16Seg4
import QrlModel.Proofs.Seg.H16Seg5
import QrlModel.Proofs.Seg.H16Seg6
import QrlModel.Proofs.Seg.H16Seg7
import QrlModel.Proofs.Seg.H16Seg8
import QrlModel.Proofs.Seg.H16Seg9
import QrlModel.Proofs.Seg.H16Seg10
import QrlModel.Proofs.Seg.H16Seg11
import QrlModel.Proofs.Seg.H16Seg12
import QrlModel.Proofs.Seg.H16Seg13
import QrlModel.Proofs.Seg.H16Seg14
import QrlModel.Proofs.Seg.H16Seg15
import QrlModel.Proofs.Seg.H16Seg16
import QrlModel.Proofs.Seg.H16Seg17
import QrlModel.Proofs.Seg.H16Seg18
import QrlModel.Proofs.Seg.H16Seg19
import QrlModel.Proofs.Seg.H16Seg20
import QrlModel.Proofs.Seg.H16Seg21
import QrlModel.Proofs.Seg.H16Seg22
import QrlModel.Proofs.Seg.H16Seg23
import QrlModel.Proofs.Seg.H16Seg24
import QrlModel.Proofs.Seg.H16Seg25
import QrlModel.Proofs.Seg.H16Seg26
import QrlModel.Proofs.Seg.H16Seg27
import QrlModel.Proofs.Seg.H16Seg28
import QrlModel.Proofs.Seg.H16Seg29
import QrlModel.Proofs.Seg.H16Seg30
import QrlModel.Proofs.Seg.H16Seg31
import QrlModel.Proofs.Seg.H16Seg32
import QrlModel.Proofs.Seg.H16Seg33
import QrlModel.Proofs.Seg.H16Seg34
import QrlModel.Proofs.Seg.H16Seg35
import QrlModel.Proofs.Seg.H16Seg36
import QrlModel.Proofs.Seg.H16Seg37
import QrlModel.Proofs.Seg.H16Seg38
import QrlModel.Proofs.Seg.H16Seg39
import QrlModel.Proofs.Seg.H16Seg40
import QrlModel.Proofs.Seg.H16Seg41
import QrlModel.Proofs.Seg.H16Seg42
import QrlModel.Proofs.Seg.H16Seg43
import QrlModel.Proofs.Seg.H16Seg44
import QrlModel.Proofs.Seg.H16Seg45
import QrlModel.Proofs.Seg.H16Seg46
import QrlModel.Proofs.Seg.H16Seg47
import QrlModel.Proofs.Seg.H16Seg48
import QrlModel.Proofs.Seg.H16Seg49
import QrlModel.Proofs.Seg.H16Seg50
import QrlModel.Proofs.Seg.H16Seg51
import QrlModel.Proofs.Seg.H16Seg52
import QrlModel.Proofs.Seg.H16Seg53
import QrlModel.Proofs.Seg.H16Seg54
import QrlModel.Proofs.Seg.H16Seg55
import QrlModel.Proofs.Seg.H16Seg56
import QrlModel.Proofs.Seg.H16Seg57
import QrlModel.Proofs.Seg.H16Seg58
import QrlModel.Proofs.Seg.H16Seg59
import QrlModel.Proofs.Seg.H16Seg60
import QrlModel.Proofs.Seg.H16Seg61
import QrlModel.Proofs.Seg.H16Seg62
import QrlModel.Proofs.Seg.H16Seg63
import QrlModel.Proofs.Seg.H16Seg64
import QrlModel.Proofs.Seg.H16Seg65
import QrlModel.Proofs.Seg.H16Seg66
import QrlModel.Proofs.Seg.H16Seg67
import QrlModel.Proofs.Seg.H16Seg68
import QrlModel.Proofs.Seg.H16Seg69
import QrlModel.Proofs.Seg.H16Seg70
import QrlModel.Proofs.Seg.H16Seg71
import QrlModel.Proofs.Seg.H16Seg72
import QrlModel.Proofs.Seg.H16Seg73
import QrlModel.Proofs.Seg.H16Seg74
import QrlModel.Proofs.Seg.H16Seg75
import QrlModel.Proofs.Seg.H16Seg76
import QrlModel.Proofs.Seg.H16Seg77
import QrlModel.Proofs.Seg.H16Seg78
import QrlModel.Proofs.Seg.H16Seg79
import QrlModel.Proofs.Seg.H16Seg80
import QrlModel.Proofs.Seg.H16Seg81
import QrlModel.Proofs.Seg.H16Seg82
import QrlModel.Proofs.Seg.H16Seg83
import QrlModel.Proofs.Seg.H16Seg84
import QrlModel.Proofs.Seg.H16Seg85
import QrlModel.Proofs.Seg.H16Seg86
import QrlModel.Proofs.Seg.H16Seg87
import QrlModel.Proofs.Seg.H16Seg88
import QrlModel.Proofs.Seg.H16Seg89
import QrlModel.Proofs.Seg.H16Seg90
import QrlModel.Proofs.Seg.H16Seg91
import QrlModel.Proofs.Seg.H16Seg92
import QrlModel.Proofs.Seg.H16Seg93
import QrlModel.Proofs.Seg.H16Seg94
import QrlModel.Proofs.Seg.H16Seg95
import QrlModel.Proofs.Seg.H16Seg96
import QrlModel.Proofs.Seg.H16Seg97
import QrlModel.Proofs.Seg.H16Seg98
import QrlModel.Proofs.Seg.H16Seg99
import QrlModel.Proofs.Seg.H16Seg100
import QrlModel.Proofs.Seg.H16Seg101
import QrlModel.Proofs.Seg.H16Seg102
import QrlModel.Proofs.Seg.H16Seg103
import QrlModel.Proofs.Seg.H16Seg104
import QrlModel.Proofs.Seg.H16Seg105
import QrlModel.Proofs.Seg.H16Seg106
import QrlModel.Proofs.Seg.H16Seg107
import QrlModel.Proofs.Seg.H16Seg108
import QrlModel.Proofs.Seg.H16Seg109
import QrlModel.Proofs.Seg.H16Seg110
import QrlModel.Proofs.Seg.H16Seg111
import QrlModel.Proofs.Seg.H16Seg112
import QrlModel.Proofs.Seg.H16Seg113
import QrlModel.Proofs.Seg.H16Seg114
import QrlModel.Proofs.Seg.H16Seg115
import QrlModel.Proofs.Seg.H16Seg116
import QrlModel.Proofs.Seg.H16Seg117
import QrlModel.Proofs.Seg.H16Seg118
import QrlModel.Proofs.Seg.H16Seg119
import QrlModel.Proofs.Seg.H16Seg120
import QrlModel.Proofs.Seg.H16Seg121
import QrlModel.Proofs.Seg.H16Seg122
import QrlModel.Proofs.Seg.H16Seg123
import QrlModel.Proofs.Seg.H16Seg124
import QrlModel.Proofs.Seg.H16Seg125
import QrlModel.Proofs.Seg.H16Seg126
import QrlModel.Proofs.Seg.H16Seg127
import QrlModel.Proofs.Seg.H16Seg128
import QrlModel.Proofs.Seg.H16Seg129
import QrlModel.Proofs.Seg.H16Seg130
import QrlModel.Proofs.Seg.H16Seg131
import QrlModel.Proofs.Seg.H16Seg132
import QrlModel.Proofs.Seg.H16Seg133
import QrlModel.Proofs.Seg.H16Seg134
import QrlModel.Proofs.Seg.H16Seg135
import QrlModel.Proofs.Seg.H16Seg136
import QrlModel.Proofs.Seg.H16Seg137
import QrlModel.Proofs.Seg.H16Seg138
import QrlModel.Proofs.Seg.H16Seg139
import QrlModel.Proofs.Seg.H16Seg140
import QrlModel.Proofs.Seg.H16Seg141
import QrlModel.Proofs.Seg.H16Seg142
import QrlModel.Proofs.Seg.H16Seg143
import QrlModel.Proofs.Seg.H16Seg144
import QrlModel.Proofs.Seg.H16Seg145
import QrlModel.Proofs.Seg.H16Seg146
import QrlModel.Proofs.Seg.H16Seg147
import QrlModel.Proofs.Seg.H16Seg148
import QrlModel.Proofs.Seg.H16Seg149
import QrlModel.Proofs.Seg.H16Seg150
import QrlModel.Proofs.Seg.H16Seg151
import QrlModel.Proofs.Seg.H16Seg152
import QrlModel.Proofs.Seg.H16Seg153
import QrlModel.Proofs.Seg.H16Seg154
import QrlModel.Proofs.Seg.H16Seg155
import QrlModel.Proofs.Seg.H16Seg156
import QrlModel.Proofs.Seg.H16Seg157
import QrlModel.Proofs.Seg.H16Seg158
import QrlModel.Proofs.Seg.H16Seg159
import QrlModel.Proofs.Seg.H16Seg160
import QrlModel.Proofs.Seg.H16Seg161
import QrlModel.Proofs.Seg.H16Seg162
import QrlModel.Proofs.Seg.H16Seg163
import QrlModel.Proofs.Seg.H16Seg164
import QrlModel.Proofs.Seg.H16Seg165
import QrlModel.Proofs.Seg.H16Seg166
import QrlModel.Proofs.Seg.H16Seg167
import QrlModel.Proofs.Seg.H16Seg168
import QrlModel.Proofs.Seg.H16Seg169
import QrlModel.Proofs.Seg.H16Seg170
import QrlModel.Proofs.Seg.H16Seg171
import QrlModel.Proofs.Seg.H16Seg172
import QrlModel.Proofs.Seg.H16Seg173
import QrlModel.Proofs.Seg.H16Seg174
import QrlModel.Proofs.Seg.H16Seg175
import QrlModel.Proofs.Seg.H16Seg176
import QrlModel.Proofs.Seg.H16Seg177
import QrlModel.Proofs.Seg.H16Seg178
import QrlModel.Proofs.Seg.H16Seg179
import QrlModel.Proofs.Seg.H16Seg180
import QrlModel.Proofs.Seg.H16Seg181
import QrlModel.Proofs.Seg.H16Seg182
import QrlModel.Proofs.Seg.H16Seg183
import QrlModel.Proofs.Seg.H16Seg184
import QrlModel.Proofs.Seg.H16Seg185
import QrlModel.Proofs.Seg.H16Seg186
import QrlModel.Proofs.Seg.H16Seg187
import QrlModel.Proofs.Seg.H16Seg188
import QrlModel.Proofs.Seg.H16Seg189
import QrlModel.Proofs.Seg.H16Seg190
import QrlModel.Proofs.Seg.H16Seg191
import QrlModel.Proofs.Seg.H16Seg192
import QrlModel.Proofs.Seg.H16Seg193
import QrlModel.Proofs.Seg.H16Seg194
import QrlModel.Proofs.Seg.H16Seg195
import QrlModel.Proofs.Seg.H16Seg196
import QrlModel.Proofs.Seg.H16Seg197
import QrlModel.Proofs.Seg.H16Seg198
import QrlModel.Proofs.Seg.H16Seg199
import QrlModel.Proofs.Seg.H16Seg200
import QrlModel.Proofs.Seg.H16Seg201
import QrlModel.Proofs.Seg.H16Seg202
import QrlModel.Proofs.Seg.H16Seg203
import QrlModel.Proofs.Seg.H16Seg204
import QrlModel.Proofs.Seg.H16Seg205
import QrlModel.Proofs.Seg.H16Seg206
import QrlModel.Proofs.Seg.H16Seg207
import QrlModel.Proofs.Seg.H16Seg208
import QrlModel.Proofs.Seg.H16Seg209
import QrlModel.Proofs.Seg.H16Seg210
import QrlModel.Proofs.Seg.H16Seg211
import QrlModel.Proofs.Seg.H16Seg212
import QrlModel.Proofs.Seg.H16Seg213
import QrlModel.Proofs.Seg.H16Seg214
import QrlModel.Proofs.Seg.H16Seg215
import QrlModel.Proofs.Seg.H16Seg216
import QrlModel.Proofs.Seg.H16Seg217
import QrlModel.Proofs.Seg.H16Seg218
import QrlModel.Proofs.Seg.H16Seg219
import QrlModel.Proofs.Seg.H16Seg220
import QrlModel.Proofs.Seg.H16Seg221
import QrlModel.Proofs.Seg.H16Seg222
import QrlModel.Proofs.Seg.H16Seg223
import QrlModel.Proofs.Seg.H16Seg224
import QrlModel.Proofs.Seg.H16Seg225
import QrlModel.Proofs.Seg.H16Seg226
import QrlModel.Proofs.Seg.H16Seg227
import QrlModel.Proofs.Seg.H16Seg228
import QrlModel.Proofs.Seg.H16Seg229
import QrlModel.Proofs.Seg.H16Seg230
import QrlModel.Proofs.Seg.H16Seg231
import QrlModel.Proofs.Seg.H16Seg232
import QrlModel.Proofs.Seg.H16Seg233
import QrlModel.Proofs.Seg.H16Seg234
import QrlModel.Proofs.Seg.H16Seg235
import QrlModel.Proofs.Seg.H16Seg236
import QrlModel.Proofs.Seg.H16Seg237
import QrlModel.Proofs.Seg.H16Seg238
import QrlModel.Proofs.Seg.H16Seg239
import QrlModel.Proofs.Seg.H16Seg240
import QrlModel.Proofs.Seg.H16Seg241
import QrlModel.Proofs.Seg.H16Seg242
import QrlModel.Proofs.Seg.H16Seg243
import QrlModel.Proofs.Seg.H16Seg244
import QrlModel.Proofs.Seg.H16Seg245
import QrlModel.Proofs.Seg.H16Seg246
import QrlModel.Proofs.Seg.H16Seg247
import QrlModel.Proofs.Seg.H16Seg248
import QrlModel.Proofs.Seg.H16Seg249
import QrlModel.Proofs.Seg.H16Seg250
import QrlModel.Proofs.Seg.H16Seg251
import QrlModel.Proofs.Seg.H16Seg252
import QrlModel.Proofs.Seg.H16Seg253
import QrlModel.Proofs.Seg.H16Seg254
import QrlModel.Proofs.Seg.H16Seg255
import QrlModel.Proofs.Seg.H16Seg256
import QrlModel.Proofs.Seg.H16Seg257
import QrlModel.Proofs.Seg.H16Seg258
import QrlModel.Proofs.Seg.H16Seg259
import QrlModel.Proofs.Seg.H16Seg260
import QrlModel.Proofs.Seg.H16Seg261
import QrlModel.Proofs.Seg.H16Seg262
import QrlModel.Proofs.Seg.H16Seg263
import QrlModel.Proofs.Seg.H16Seg264
import QrlModel.Proofs.Seg.H16Seg265
import QrlModel.Proofs.Seg.H16Seg266
import QrlModel.Proofs.Seg.H16Seg267
import QrlModel.Proofs.Seg.H16Seg268
import QrlModel.Proofs.Seg.H16Seg269
import QrlModel.Proofs.Seg.H16Seg270
import QrlModel.Proofs.Seg.H16Seg271
import QrlModel.Proofs.Seg.H16Seg272
import QrlModel.Proofs.Seg.H16Seg273
import QrlModel.Proofs.Seg.H16Seg274
import QrlModel.Proofs.Seg.H16Seg275
import QrlModel.Proofs.Seg.H16Seg276
import QrlModel.Proofs.Seg.H16Seg277
import QrlModel.Proofs.Seg.H16Seg278
import QrlModel.Proofs.Seg.H16Seg279
import QrlModel.Proofs.Seg.H16Seg280
import QrlModel.Proofs.Seg.H16Seg281
import QrlModel.Proofs.Seg.H16Seg282
import QrlModel.Proofs.Seg.H16Seg283
import QrlModel.Proofs.Seg.H16Seg284
import QrlModel.Proofs.Seg.H16Seg285
import QrlModel.Proofs.Seg.H16Seg286
import QrlModel.Proofs.Seg.H16Seg287
import QrlModel.Proofs.Seg.H16Seg288
import QrlModel.Proofs.Seg.H16Seg289
import QrlModel.Proofs.Seg.H16Seg290
import QrlModel.Proofs.Seg.H16Seg291
import QrlModel.Proofs.Seg.H16Seg292
import QrlModel.Proofs.Seg.H16Seg293
import QrlModel.Proofs.Seg.H16Seg294
import QrlModel.Proofs.Seg.H16Seg295
import QrlModel.Proofs.Seg.H16Seg296
import QrlModel.Proofs.Seg.H16Seg297
import QrlModel.Proofs.Seg.H16Seg298
import QrlModel.Proofs.Seg.H16Seg299
import QrlModel.Proofs.Seg.H16Seg300
import QrlModel.Proofs.Seg.H16Seg301
import QrlModel.Proofs.Seg.H16Seg302
import QrlModel.Proofs.Seg.H16Seg303
import QrlModel.Proofs.Seg.H16Seg304
import QrlModel.Proofs.Seg.H16Seg305
import QrlModel.Proofs.Seg.H16Seg306
import QrlModel.Proofs.Seg.H16Seg307
import QrlModel.Proofs.Seg.H16Seg308
import QrlModel.Proofs.Seg.H16Seg309
import QrlModel.Proofs.Seg.H16Seg310
import QrlModel.Proofs.Seg.H16Seg311
import QrlModel.Proofs.Seg.H16Seg312
import QrlModel.Proofs.Seg.H16Seg313
import QrlModel.Proofs.Seg.H16Seg314
import QrlModel.Proofs.Seg.H16Seg315
import QrlModel.Proofs.Seg.H16Seg316
import QrlModel.Proofs.Seg.H16Seg317
import QrlModel.Proofs.Seg.H16Seg318
import QrlModel.Proofs.Seg.H16Seg319
import QrlModel.Proofs.Seg.H16Seg320
import QrlModel.Proofs.Seg.H16Seg321
import QrlModel.Proofs.Seg.H16Seg322
import QrlModel.Proofs.Seg.H16Seg323
import QrlModel.Proofs.Seg.H16Seg324
import QrlModel.Proofs.Seg.H16Seg325
import QrlModel.Proofs.Seg.H16Seg326
import QrlModel.Proofs.Seg.H16Seg327
import QrlModel.Proofs.Seg.H16Seg328
import QrlModel.Proofs.Seg.H16Seg329
import QrlModel.Proofs.Seg.H16Seg330
import QrlModel.Proofs.Seg.H16Seg331
import QrlModel.Proofs.Seg.H16Seg332
import QrlModel.Proofs.Seg.H16Seg333
import QrlModel.Proofs.Seg.H16Seg334
import QrlModel.Proofs.Seg.H16Seg335
import QrlModel.Proofs.Seg.H16Seg336
import QrlModel.Proofs.Seg.H16Seg337
import QrlModel.Proofs.Seg.H16Seg338
import QrlModel.Proofs.Seg.H16Seg339
import QrlModel.Proofs.Seg.H16Seg340
import QrlModel.Proofs.Seg.H16Seg341
import QrlModel.Proofs.Seg.H16Seg342
import QrlModel.Proofs.Seg.H16Seg343
import QrlModel.Proofs.Seg.H16Seg344
import QrlModel.Proofs.Seg.H16Seg345
import QrlModel.Proofs.Seg.H16Seg346
import QrlModel.Proofs.Seg.H16Seg347
import QrlModel.Proofs.Seg.H16Seg348
import QrlModel.Proofs.Seg.H16Seg349
import QrlModel.Proofs.Seg.H16Seg350
import QrlModel.Proofs.Seg.H16Seg351
import QrlModel.Proofs.Seg.H16Seg352
import QrlModel.Proofs.Seg.H16Seg353
import QrlModel.Proofs.Seg.H16Seg354
import QrlModel.Proofs.Seg.H16Seg355
import QrlModel.Proofs.Seg.H16Seg356
import QrlModel.Proofs.Seg.H16Seg357
import QrlModel.Proofs.Seg.H16Seg358
import QrlModel.Proofs.Seg.H16Seg359
import QrlModel.Proofs.Seg.H16Seg360
import QrlModel.Proofs.Seg.H16Seg361
import QrlModel.Proofs.Seg.H16Seg362
import QrlModel.Proofs.Seg.H16Seg363
import QrlModel.Proofs.Seg.H16Seg364
import QrlModel.Proofs.Seg.H16Seg365
import QrlModel.Proofs.Seg.H16Seg366
import QrlModel.Proofs.Seg.H16Seg367
import QrlModel.Proofs.Seg.H16Seg368
import QrlModel.Proofs.Seg.H16Seg369
import QrlModel.Proofs.Seg.H16Seg370
import QrlModel.Proofs.Seg.H16Seg371
import QrlModel.Proofs.Seg.H16Seg372
import QrlModel.Proofs.Seg.H16Seg373
import QrlModel.Proofs.Seg.H16Seg374
import QrlModel.Proofs.Seg.H16Seg375
import QrlModel.Proofs.Seg.H16Seg376
import QrlModel.Proofs.Seg.H16Seg377
import QrlModel.Proofs.Seg.H16Seg378
import QrlModel.Proofs.Seg.H16Seg379
import QrlModel.Proofs.Seg.H16Seg380
import QrlModel.Proofs.Seg.H16Seg381
import QrlModel.Proofs.Seg.H16Seg382
import QrlModel.Proofs.Seg.H16Seg383
import QrlModel.Proofs.Seg.H16Seg384
import QrlModel.Proofs.Seg.H16Seg385
import QrlModel.Proofs.Seg.H16Seg386
import QrlModel.Proofs.Seg.H16Seg387
import QrlModel.Proofs.Seg.H16Seg388
import QrlModel.Proofs.Seg.H16Seg389
import QrlModel.Proofs.Seg.H16Seg390
import QrlModel.Proofs.Seg.H16Seg391
import QrlModel.Proofs.Seg.H16Seg392
import QrlModel.Proofs.Seg.H16Seg393
import QrlModel.Proofs.Seg.H16Seg394
import QrlModel.Proofs.Seg.H16Seg395
import QrlModel.Proofs.Seg.H16Seg396
import QrlModel.Proofs.Seg.H16Seg397
import QrlModel.Proofs.Seg.H16Seg398
import QrlModel.Proofs.Seg.H16Seg399
import QrlModel.Proofs.Seg.H16Seg400
import QrlModel.Proofs.Seg.H16Seg401
import QrlModel.Proofs.Seg.H16Seg402
import QrlModel.Proofs.Seg.H16Seg403
import QrlModel.Proofs.Seg.H16Seg404
import QrlModel.Proofs.Seg.H16Seg405
import QrlModel.Proofs.Seg.H16Seg406
import QrlModel.Proofs.Seg.H16Seg407
import QrlModel.Proofs.Seg.H16Seg408
import QrlModel.Proofs.Seg.H16Seg409
import QrlModel.Proofs.Seg.H16Seg410
import QrlModel.Proofs.Seg.H16Seg411
import QrlModel.Proofs.Seg.H16Seg412
import QrlModel.Proofs.Seg.H16Seg413
import QrlModel.Proofs.Seg.H16Seg414
import QrlModel.Proofs.Seg.H16Seg415
import QrlModel.Proofs.Seg.H16Seg416
import QrlModel.Proofs.Seg.H16Seg417
import QrlModel.Proofs.Seg.H16Seg418
import QrlModel.Proofs.Seg.H16Seg419
import QrlModel.Proofs.Seg.H16Seg420
import QrlModel.Proofs.Seg.H16Seg421
import QrlModel.Proofs.Seg.H16Seg422
import QrlModel.Proofs.Seg.H16Seg423
import QrlModel.Proofs.Seg.H16Seg424
import QrlModel.Proofs.Seg.H16Seg425
import QrlModel.Proofs.Seg.H16Seg426
import QrlModel.Proofs.Seg.H16Seg427
import QrlModel.Proofs.Seg.H16Seg428
import QrlModel.Proofs.Seg.H16Seg429
import QrlModel.Proofs.Seg.H16Seg430
import QrlModel.Proofs.Seg.H16Seg431
import QrlModel.Proofs.Seg.H16Seg432
import QrlModel.Proofs.Seg.H16Seg433
import QrlModel.Proofs.Seg.H16Seg434
import QrlModel.Proofs.Seg.H16Seg435
import QrlModel.Proofs.Seg.H16Seg436
import QrlModel.Proofs.Seg.H16Seg437
import QrlModel.Proofs.Seg.H16Seg438
import QrlModel.Proofs.Seg.H16Seg439
import QrlModel.Proofs.Seg.H16Seg440
import QrlModel.Proofs.Seg.H16Seg441
import QrlModel.Proofs.Seg.H16Seg442
import QrlModel.Proofs.Seg.H16Seg443
import QrlModel.Proofs.Seg.H16Seg444
import QrlModel.Proofs.Seg.H16Seg445
import QrlModel.Proofs.Seg.H16Seg446
import QrlModel.Proofs.Seg.H16Seg447
import QrlModel.Proofs.Seg.H16Seg448
import QrlModel.Proofs.Seg.H16Seg449
import QrlModel.Proofs.Seg.H16Seg450
import QrlModel.Proofs.Seg.H16Seg451
import QrlModel.Proofs.Seg.H16Seg452
import QrlModel.Proofs.Seg.H16Seg453
import QrlModel.Proofs.Seg.H16Seg454
import QrlModel.Proofs.Seg.H16Seg455
import QrlModel.Proofs.Seg.H16Seg456
import QrlModel.Proofs.Seg.H16Seg457
import QrlModel.Proofs.Seg.H16Seg458
import QrlModel.Proofs.Seg.H16Seg459
import QrlModel.Proofs.Seg.H16Seg460
import QrlModel.Proofs.Seg.H16Seg461
import QrlModel.Proofs.Seg.H16Seg462
import QrlModel.Proofs.Seg.H16Seg463
import QrlModel.Proofs.Seg.H16Seg464
import QrlModel.Proofs.Seg.H16Seg465
import QrlModel.Proofs.Seg.H16Seg466
import QrlModel.Proofs.Seg.H16Seg467
import QrlModel.Proofs.Seg.H16Seg468
import QrlModel.Proofs.Seg.H16Seg469
import QrlModel.Proofs.Seg.H16Seg470
import QrlModel.Proofs.Seg.H16Seg471
import QrlModel.Proofs.Seg.H16Seg472
import QrlModel.Proofs.Seg.H16Seg473
import QrlModel.Proofs.Seg.H16Seg474
import QrlModel.Proofs.Seg.H16Seg475
import QrlModel.Proofs.Seg.H16Seg476
import QrlModel.Proofs.Seg.H16Seg477
import QrlModel.Proofs.Seg.H16Seg478
import QrlModel.Proofs.Seg.H16Seg479
import QrlModel.Proofs.Seg.H16Seg480
import QrlModel.Proofs.Seg.H16Seg481
import QrlModel.Proofs.Seg.H16Seg482
import QrlModel.Proofs.Seg.H16Seg483
import QrlModel.Proofs.Seg.H16Seg484
import QrlModel.Proofs.Seg.H16Seg485
import QrlModel.Proofs.Seg.H16Seg486
import QrlModel.Proofs.Seg.H16Seg487
import QrlModel.Proofs.Seg.H16Seg488
import QrlModel.Proofs.Seg.H16Seg489
import QrlModel.Proofs.Seg.H16Seg490
import QrlModel.Proofs.Seg.H16Seg491
import QrlModel.Proofs.Seg.H16Seg492
import QrlModel.Proofs.Seg.H16Seg493
import QrlModel.Proofs.Seg.H16Seg494
import QrlModel.Proofs.Seg.H16Seg495
import QrlModel.Proofs.Seg.H16Seg496
import QrlModel.Proofs.Seg.H16Seg497
import QrlModel.Proofs.Seg.H16Seg498
import QrlModel.Proofs.Seg.H16Seg499
import QrlModel.Proofs.Seg.H16Seg500
import QrlModel.Proofs.Seg.H16Seg501
import QrlModel.Proofs.Seg.H16Seg502
import QrlModel.Proofs.Seg.H16Seg503
import QrlModel.Proofs.Seg.H16Seg504
import QrlModel.Proofs.Seg.H16Seg505
import QrlModel.Proofs.Seg.H16Seg506
import QrlModel.Proofs.Seg.H16Seg507
import QrlModel.Proofs.Seg.H16Seg508
import QrlModel.Proofs.Seg.H16Seg509
import QrlModel.Proofs.Seg.H16Seg510
import QrlModel.Proofs.Seg.H16Seg511
import QrlModel.Proofs.Seg.H16Seg512
import QrlModel.Proofs.Seg.H16Seg513
import QrlModel.Proofs.Seg.H16Seg514
import QrlModel.Proofs.Seg.H16Seg515
import QrlModel.Proofs.Seg.H16Seg516
import QrlModel.Proofs.Seg.H16Seg517
import QrlModel.Proofs.Seg.H16Seg518
import QrlModel.Proofs.Seg.H16Seg519
import QrlModel.Proofs.Seg.H16Seg520
import QrlModel.Proofs.Seg.H16Seg521
import QrlModel.Proofs.Seg.H16Seg522
import QrlModel.Proofs.Seg.H16Seg523
import QrlModel.Proofs.Seg.H16Seg524
import QrlModel.Proofs.Seg.H16Seg525
import QrlModel.Proofs.Seg.H16Seg526
import QrlModel.Proofs.Seg.H16Seg527
import QrlModel.Proofs.Seg.H16Seg528
import QrlModel.Proofs.Seg.H16Seg529
import QrlModel.Proofs.Seg.H16Seg530
import QrlModel.Proofs.Seg.H16Seg531
import QrlModel.Proofs.Seg.H16Seg532
import QrlModel.Proofs.Seg.H16Seg533
import QrlModel.Proofs.Seg.H16Seg534
import QrlModel.Proofs.Seg.H16Seg535
import QrlModel.Proofs.Seg.H16Seg536
import QrlModel.Proofs.Seg.H16Seg537
import QrlModel.Proofs.Seg.H16Seg538
import QrlModel.Proofs.Seg.H16Seg539
import QrlModel.Proofs.Seg.H16Seg540
import QrlModel.Proofs.Seg.H16Seg541
import QrlModel.Proofs.Seg.H16Seg542
import QrlModel.Proofs.Seg.H16Seg543
import QrlModel.Proofs.Seg.H16Seg544
import QrlModel.Proofs.Seg.H16Seg545
import QrlModel.Proofs.Seg.H16Seg546
import QrlModel.Proofs.Seg.H16Seg547
import QrlModel.Proofs.Seg.H16Seg548
import QrlModel.Proofs.Seg.H16Seg549
import QrlModel.Proofs.Seg.H16Seg550
import QrlModel.Proofs.Seg.H16Seg551
import QrlModel.Proofs.Seg.H16Seg552
import QrlModel.Proofs.Seg.H16Seg553
import QrlModel.Proofs.Seg.H16Seg554
import QrlModel.Proofs.Seg.H16Seg555
import QrlModel.Proofs.Seg.H16Seg556
import QrlModel.Proofs.Seg.H16Seg557
import QrlModel.Proofs.Seg.H16Seg558
import QrlModel.Proofs.Seg.H16Seg559
import QrlModel.Proofs.Seg.H16Seg560
import QrlModel.Proofs.Seg.H16Seg561
import QrlModel.Proofs.Seg.H16Seg562
import QrlModel.Proofs.Seg.H16Seg563
import QrlModel.Proofs.Seg.H16Seg564
import QrlModel.Proofs.Seg.H16Seg565
import QrlModel.Proofs.Seg.H16Seg566
import QrlModel.Proofs.Seg.H16Seg567
import QrlModel.Proofs.Seg.H16Seg568
import QrlModel.Proofs.Seg.H16Seg569
import QrlModel.Proofs.Seg.H16Seg570
import QrlModel.Proofs.Seg.H16Seg571
import QrlModel.Proofs.Seg.H16Seg572
import QrlModel.Proofs.Seg.H16Seg573
import QrlModel.Proofs.Seg.H16Seg574
import QrlModel.Proofs.Seg.H16Seg575
import QrlModel.Proofs.Seg.H16Seg576
import QrlModel.Proofs.Seg.H16Seg577
import QrlModel.Proofs.Seg.H16Seg578
import QrlModel.Proofs.Seg.H16Seg579
import QrlModel.Proofs.Seg.H16Seg580
import QrlModel.Proofs.Seg.H16Seg581
import QrlModel.Proofs.Seg.H16Seg582
import QrlModel.Proofs.Seg.H16Seg583
import QrlModel.Proofs.Seg.H16Seg584
import QrlModel.Proofs.Seg.H16Seg585
import QrlModel.Proofs.Seg.H16Seg586
import QrlModel.Proofs.Seg.H16Seg587
import QrlModel.Proofs.Seg.H16Seg588
import QrlModel.Proofs.Seg.H16Seg589
import QrlModel.Proofs.Seg.H16Seg590
import QrlModel.Proofs.Seg.H16Seg591
import QrlModel.Proofs.Seg.H16Seg592
import QrlModel.Proofs.Seg.H16Seg593
import QrlModel.Proofs.Seg.H16Seg594
import QrlModel.Proofs.Seg.H16Seg595
import QrlModel.Proofs.Seg.H16Seg596
import QrlModel.Proofs.Seg.H16Seg597
import QrlModel.Proofs.Seg.H16Seg598
import QrlModel.Proofs.Seg.H16Seg599
import QrlModel.Proofs.Seg.H16Seg600
import QrlModel.Proofs.Seg.H16Seg601
import QrlModel.Proofs.Seg.H16Seg602
import QrlModel.Proofs.Seg.H16Seg603
import QrlModel.Proofs.Seg.H16Seg604
import QrlModel.Proofs.Seg.H16Seg605
import QrlModel.Proofs.Seg.H16Seg606
import QrlModel.Proofs.Seg.H16Seg607
import QrlModel.Proofs.Seg.H16Seg608
import QrlModel.Proofs.Seg.H16Seg609
import QrlModel.Proofs.Seg.H16Seg610
import QrlModel.Proofs.Seg.H16Seg611
import QrlModel.Proofs.Seg.H16Seg612
import QrlModel.Proofs.Seg.H16Seg613
import QrlModel.Proofs.Seg.H16Seg614
import QrlModel.Proofs.Seg.H16Seg615
import QrlModel.Proofs.Seg.H16Seg616
import QrlModel.Proofs.Seg.H16Seg617
import QrlModel.Proofs.Seg.H16Seg618
import QrlModel.Proofs.Seg.H16Seg619
import QrlModel.Proofs.Seg.H16Seg620
import QrlModel.Proofs.Seg.H16Seg621
import QrlModel.Proofs.Seg.H16Seg622
import QrlModel.Proofs.Seg.H16Seg623
import QrlModel.Proofs.Seg.H16Seg624
import QrlModel.Proofs.Seg.H16Seg625
import QrlModel.Proofs.Seg.H16Seg626
import QrlModel.Proofs.Seg.H16Seg627
import QrlModel.Proofs.Seg.H16Seg628
import QrlModel.Proofs.Seg.H16Seg629
import QrlModel.Proofs.Seg.H16Seg630
import QrlModel.Proofs.Seg.H16Seg631
import QrlModel.Proofs.Seg.H16Seg632
import QrlModel.Proofs.Seg.H16Seg633
import QrlModel.Proofs.Seg.H16Seg634
import QrlModel.Proofs.Seg.H16Seg635
import QrlModel.Proofs.Seg.H16Seg636
import QrlModel.Proofs.Seg.H16Seg637
import QrlModel.Proofs.Seg.H16Seg638
import QrlModel.Proofs.Seg.H16Seg639
import QrlModel.Proofs.Seg.H16Seg640
import QrlModel.Proofs.Seg.H16Seg641
import QrlModel.Proofs.Seg.H16Seg642
import QrlModel.Proofs.Seg.H16Seg643
import QrlModel.Proofs.Seg.H16Seg644
import QrlModel.Proofs.Seg.H16Seg645
import QrlModel.Proofs.Seg.H16Seg646
import QrlModel.Proofs.Seg.H16Seg647
import QrlModel.Proofs.Seg.H16Seg648
import QrlModel.Proofs.Seg.H16Seg649
import QrlModel.Proofs.Seg.H16Seg650
import QrlModel.Proofs.Seg.H16Seg651
import QrlModel.Proofs.Seg.H16Seg652
import QrlModel.Proofs.Seg.H16Seg653
import QrlModel.Proofs.Seg.H16Seg654
import QrlModel.Proofs.Seg.H16Seg655
import QrlModel.Proofs.Seg.H16Seg656
import QrlModel.Proofs.Seg.H16Seg657
import QrlModel.Proofs.Seg.H16Seg658
import QrlModel.Proofs.Seg.H16Seg659
import QrlModel.Proofs.Seg.H16Seg660
import QrlModel.Proofs.Seg.H16Seg661
import QrlModel.Proofs.Seg.H16Seg662
import QrlModel.Proofs.Seg.H16Seg663
import QrlModel.Proofs.Seg.H16Seg664
import QrlModel.Proofs.Seg.H16Seg665
import QrlModel.Proofs.Seg.H16Seg666
import QrlModel.Proofs.Seg.H16Seg667
import QrlModel.Proofs.Seg.H16Seg668
import QrlModel.Proofs.Seg.H16Seg669
import QrlModel.Proofs.Seg.H16Seg670
import QrlModel.Proofs.Seg.H16Seg671
import QrlModel.Proofs.Seg.H16Seg672
import QrlModel.Proofs.Seg.H16Seg673
import QrlModel.Proofs.Seg.H16Seg674
import QrlModel.Proofs.Seg.H16Seg675
import QrlModel.Proofs.Seg.H16Seg676
import QrlModel.Proofs.Seg.H16Seg677
import QrlModel.Proofs.Seg.H16Seg678
import QrlModel.Proofs.Seg.H16Seg679
import QrlModel.Proofs.Seg.H16Seg680
import QrlModel.Proofs.Seg.H16Seg681
import QrlModel.Proofs.Seg.H16Seg682
import QrlModel.Proofs.Seg.H16Seg683
import QrlModel.Proofs.Seg.H16Seg684
import QrlModel.Proofs.Seg.H16Seg685
import QrlModel.Proofs.Seg.H16Seg686
import QrlModel.Proofs.Seg.H16Seg687
import QrlModel.Proofs.Seg.H16Seg688
import QrlModel.Proofs.Seg.H16Seg689
import QrlModel.Proofs.Seg.H16Seg690
import QrlModel.Proofs.Seg.H16Seg691
import QrlModel.Proofs.Seg.H16Seg692
import QrlModel.Proofs.Seg.H16Seg693
import QrlModel.Proofs.Seg.H16Seg694
import QrlModel.Proofs.Seg.H16Seg695
import QrlModel.Proofs.Seg.H16Seg696
import QrlModel.Proofs.Seg.H16Seg697
import QrlModel.Proofs.Seg.H16Seg698
import QrlModel.Proofs.Seg.H16Seg699
import QrlModel.Proofs.Seg.H16Seg700
import QrlModel.Proofs.Seg.H16Seg701
import QrlModel.Proofs.Seg.H16Seg702
import QrlModel.Proofs.Seg.H16Seg703
import QrlModel.Proofs.Seg.H16Seg704
import QrlModel.Proofs.Seg.H16Seg705
import QrlModel.Proofs.Seg.H16Seg706
import QrlModel.Proofs.Seg.H16Seg707
import QrlModel.Proofs.Seg.H16Seg708
import QrlModel.Proofs.Seg.H16Seg709
import QrlModel.Proofs.Seg.H16Seg710
import QrlModel.Proofs.Seg.H16Seg711
import QrlModel.Proofs.Seg.H16Seg712
import QrlModel.Proofs.Seg.H16Seg713
import QrlModel.Proofs.Seg.H16Seg714
import QrlModel.Proofs.Seg.H16Seg715
import QrlModel.Proofs.Seg.H16Seg716
import QrlModel.Proofs.Seg.H16Seg717
import QrlModel.Proofs.Seg.H16Seg718
import QrlModel.Proofs.Seg.H16Seg719
import QrlModel.Proofs.Seg.H16Seg720
import QrlModel.Proofs.Seg.H16Seg721
import QrlModel.Proofs.Seg.H16Seg722
import QrlModel.Proofs.Seg.H16Seg723
import QrlModel.Proofs.Seg.H16Seg724
import QrlModel.Proofs.Seg.H16Seg725
import QrlModel.Proofs.Seg.H16Seg726
import QrlModel.Proofs.Seg.H16Seg727
import QrlModel.Proofs.Seg.H16Seg728
import QrlModel.Proofs.Seg.H16Seg729
import QrlModel.Proofs.Seg.H16Seg730
import QrlModel.Proofs.Seg.H16Seg731
import QrlModel.Proofs.Seg.H16Seg732
import QrlModel.Proofs.Seg.H16Seg733
import QrlModel.Proofs.Seg.H16Seg734
import QrlModel.Proofs.Seg.H16Seg735
import QrlModel.Proofs.Seg.H16Seg736
import QrlModel.Proofs.Seg.H16Seg737
import QrlModel.Proofs.Seg.H16Seg738
import QrlModel.Proofs.Seg.H16Seg739
import QrlModel.Proofs.Seg.H16Seg740
import QrlModel.Proofs.Seg.H16Seg741
import QrlModel.Proofs.Seg.H16Seg742
import QrlModel.Proofs.Seg.H16Seg743
import QrlModel.Proofs.Seg.H16Seg744
import QrlModel.Proofs.Seg.H16Seg745
import QrlModel.Proofs.Seg.H16Seg746
import QrlModel.Proofs.Seg.H16Seg747
import QrlModel.Proofs.Seg.H16Seg748
import QrlModel.Proofs.Seg.H16Seg749
import QrlModel.Proofs.Seg.H16Seg750
import QrlModel.Proofs.Seg.H16Seg751
import QrlModel.Proofs.Seg.H16Seg752
import QrlModel.Proofs.Seg.H16Seg753
import QrlModel.Proofs.Seg.H16Seg754
import QrlModel.Proofs.Seg.H16Seg755
import QrlModel.Proofs.Seg.H16Seg756
import QrlModel.Proofs.Seg.H16Seg757
import QrlModel.Proofs.Seg.H16Seg758
import QrlModel.Proofs.Seg.H16Seg759
import QrlModel.Proofs.Seg.H16Seg760
import QrlModel.Proofs.Seg.H16Seg761
import QrlModel.Proofs.Seg.H16Seg762
import QrlModel.Proofs.Seg.H16Seg763
import QrlModel.Proofs.Seg.H16Seg764
import QrlModel.Proofs.Seg.H16Seg765
import QrlModel.Proofs.Seg.H16Seg766
import QrlModel.Proofs.Seg.H16Seg767
import QrlModel.Proofs.Seg.H16Seg768
import QrlModel.Proofs.Seg.H16Seg769
import QrlModel.Proofs.Seg.H16Seg770
import QrlModel.Proofs.Seg.H16Seg771
import QrlModel.Proofs.Seg.H16Setup
-- GENERATED by tools/mk_segcert.py 16 85 771 (committed; every equation below is re-checked by the kernel)
namespace Qrl.BdsLabel.Seg16
open Qrl.Bds
def S : Nat → St Lbl
  | 0 => S0
  | 1 => S1
  | 2 => S2
  | 3 => S3
  | 4 => S4
  | 5 => S5
  | 6 => S6
  | 7 => S7
  | 8 => S8
  | 9 => S9
  | 10 => S10
  | 11 => S11
  | 12 => S12
  | 13 => S13
  | 14 => S14
  | 15 => S15
  | 16 => S16
  | 17 => S17
  | 18 => S18
  | 19 => S19
  | 20 => S20
  | 21 => S21
  | 22 => S22
  | 23 => S23
  | 24 => S24
  | 25 => S25
  | 26 => S26
  | 27 => S27
  | 28 => S28
  | 29 => S29
  | 30 => S30
  | 31 => S31
  | 32 => S32
  | 33 => S33
  | 34 => S34
  | 35 => S35
  | 36 => S36
  | 37 => S37
  | 38 => S38
  | 39 => S39
  | 40 => S40
  | 41 => S41
  | 42 => S42
  | 43 => S43
  | 44 => S44
  | 45 => S45
  | 46 => S46
  | 47 => S47
  | 48 => S48
  | 49 => S49
  | 50 => S50
  | 51 => S51
  | 52 => S52
  | 53 => S53
  | 54 => S54
  | 55 => S55
  | 56 => S56
  | 57 => S57
  | 58 => S58
  | 59 => S59
  | 60 => S60
  | 61 => S61
  | 62 => S62
  | 63 => S63
  | 64 => S64
  | 65 => S65
  | 66 => S66
  | 67 => S67
  | 68 => S68
  | 69 => S69
  | 70 => S70
  | 71 => S71
  | 72 => S72
  | 73 => S73
  | 74 => S74
  | 75 => S75
  | 76 => S76
  | 77 => S77
  | 78 => S78
  | 79 => S79
  | 80 => S80
  | 81 => S81
  | 82 => S82
  | 83 => S83
  | 84 => S84
  | 85 => S85
  | 86 => S86
  | 87 => S87
  | 88 => S88
  | 89 => S89
  | 90 => S90
  | 91 => S91
  | 92 => S92
  | 93 => S93
  | 94 => S94
  | 95 => S95
  | 96 => S96
  | 97 => S97
  | 98 => S98
  | 99 => S99
  | 100 => S100
  | 101 => S101
  | 102 => S102
  | 103 => S103
  | 104 => S104
  | 105 => S105
  | 106 => S106
  | 107 => S107
  | 108 => S108
  | 109 => S109
  | 110 => S110
  | 111 => S111
  | 112 => S112
  | 113 => S113
  | 114 => S114
  | 115 => S115
  | 116 => S116
  | 117 => S117
  | 118 => S118
  | 119 => S119
  | 120 => S120
  | 121 => S121
  | 122 => S122
  | 123 => S123
  | 124 => S124
  | 125 => S125
  | 126 => S126
  | 127 => S127
  | 128 => S128
  | 129 => S129
  | 130 => S130
  | 131 => S131
  | 132 => S132
  | 133 => S133
  | 134 => S134
  | 135 => S135
  | 136 => S136
  | 137 => S137
  | 138 => S138
  | 139 => S139
  | 140 => S140
  | 141 => S141
  | 142 => S142
  | 143 => S143
  | 144 => S144
  | 145 => S145
  | 146 => S146
  | 147 => S147
  | 148 => S148
  | 149 => S149
  | 150 => S150
  | 151 => S151
  | 152 => S152
  | 153 => S153
  | 154 => S154
  | 155 => S155
  | 156 => S156
  | 157 => S157
  | 158 => S158
  | 159 => S159
  | 160 => S160
  | 161 => S161
  | 162 => S162
  | 163 => S163
  | 164 => S164
  | 165 => S165
  | 166 => S166
  | 167 => S167
  | 168 => S168
  | 169 => S169
  | 170 => S170
  | 171 => S171
  | 172 => S172
  | 173 => S173
  | 174 => S174
  | 175 => S175
  | 176 => S176
  | 177 => S177
  | 178 => S178
  | 179 => S179
  | 180 => S180
  | 181 => S181
  | 182 => S182
  | 183 => S183
  | 184 => S184
  | 185 => S185
  | 186 => S186
  | 187 => S187
  | 188 => S188
  | 189 => S189
  | 190 => S190
  | 191 => S191
  | 192 => S192
  | 193 => S193
  | 194 => S194
  | 195 => S195
  | 196 => S196
  | 197 => S197
  | 198 => S198
  | 199 => S199
  | 200 => S200
  | 201 => S201
  | 202 => S202
  | 203 => S203
  | 204 => S204
  | 205 => S205
  | 206 => S206
  | 207 => S207
  | 208 => S208
  | 209 => S209
  | 210 => S210
  | 211 => S211
  | 212 => S212
  | 213 => S213
  | 214 => S214
  | 215 => S215
  | 216 => S216
  | 217 => S217
  | 218 => S218
  | 219 => S219
  | 220 => S220
  | 221 => S221
  | 222 => S222
  | 223 => S223
  | 224 => S224
  | 225 => S225
  | 226 => S226
  | 227 => S227
  | 228 => S228
  | 229 => S229
  | 230 => S230
  | 231 => S231
  | 232 => S232
  | 233 => S233
  | 234 => S234
  | 235 => S235
  | 236 => S236
  | 237 => S237
  | 238 => S238
  | 239 => S239
  | 240 => S240
  | 241 => S241
  | 242 => S242
  | 243 => S243
  | 244 => S244
  | 245 => S245
  | 246 => S246
  | 247 => S247
  | 248 => S248
  | 249 => S249
  | 250 => S250
  | 251 => S251
  | 252 => S252
  | 253 => S253
  | 254 => S254
  | 255 => S255
  | 256 => S256
  | 257 => S257
  | 258 => S258
  | 259 => S259
  | 260 => S260
  | 261 => S261
  | 262 => S262
  | 263 => S263
  | 264 => S264
  | 265 => S265
  | 266 => S266
  | 267 => S267
  | 268 => S268
  | 269 => S269
  | 270 => S270
  | 271 => S271
  | 272 => S272
  | 273 => S273
  | 274 => S274
  | 275 => S275
  | 276 => S276
  | 277 => S277
  | 278 => S278
  | 279 => S279
  | 280 => S280
  | 281 => S281
  | 282 => S282
  | 283 => S283
  | 284 => S284
  | 285 => S285
  | 286 => S286
  | 287 => S287
  | 288 => S288
  | 289 => S289
  | 290 => S290
  | 291 => S291
  | 292 => S292
  | 293 => S293
  | 294 => S294
  | 295 => S295
  | 296 => S296
  | 297 => S297
  | 298 => S298
  | 299 => S299
  | 300 => S300
  | 301 => S301
  | 302 => S302
  | 303 => S303
  | 304 => S304
  | 305 => S305
  | 306 => S306
  | 307 => S307
  | 308 => S308
  | 309 => S309
  | 310 => S310
  | 311 => S311
  | 312 => S312
  | 313 => S313
  | 314 => S314
  | 315 => S315
  | 316 => S316
  | 317 => S317
  | 318 => S318
  | 319 => S319
  | 320 => S320
  | 321 => S321
  | 322 => S322
  | 323 => S323
  | 324 => S324
  | 325 => S325
  | 326 => S326
  | 327 => S327
  | 328 => S328
  | 329 => S329
  | 330 => S330
  | 331 => S331
  | 332 => S332
  | 333 => S333
  | 334 => S334
  | 335 => S335
  | 336 => S336
  | 337 => S337
  | 338 => S338
  | 339 => S339
  | 340 => S340
  | 341 => S341
  | 342 => S342
  | 343 => S343
  | 344 => S344
  | 345 => S345
  | 346 => S346
  | 347 => S347
  | 348 => S348
  | 349 => S349
  | 350 => S350
  | 351 => S351
  | 352 => S352
  | 353 => S353
  | 354 => S354
  | 355 => S355
  | 356 => S356
  | 357 => S357
  | 358 => S358
  | 359 => S359
  | 360 => S360
  | 361 => S361
  | 362 => S362
  | 363 => S363
  | 364 => S364
  | 365 => S365
  | 366 => S366
  | 367 => S367
  | 368 => S368
  | 369 => S369
  | 370 => S370
  | 371 => S371
  | 372 => S372
  | 373 => S373
  | 374 => S374
  | 375 => S375
  | 376 => S376
  | 377 => S377
  | 378 => S378
  | 379 => S379
  | 380 => S380
  | 381 => S381
  | 382 => S382
  | 383 => S383
  | 384 => S384
  | 385 => S385
  | 386 => S386
  | 387 => S387
  | 388 => S388
  | 389 => S389
  | 390 => S390
  | 391 => S391
  | 392 => S392
  | 393 => S393
  | 394 => S394
  | 395 => S395
  | 396 => S396
  | 397 => S397
  | 398 => S398
  | 399 => S399
  | 400 => S400
  | 401 => S401
  | 402 => S402
  | 403 => S403
  | 404 => S404
  | 405 => S405
  | 406 => S406
  | 407 => S407
  | 408 => S408
  | 409 => S409
  | 410 => S410
  | 411 => S411
  | 412 => S412
  | 413 => S413
  | 414 => S414
  | 415 => S415
  | 416 => S416
  | 417 => S417
  | 418 => S418
  | 419 => S419
  | 420 => S420
  | 421 => S421
  | 422 => S422
  | 423 => S423
  | 424 => S424
  | 425 => S425
  | 426 => S426
  | 427 => S427
  | 428 => S428
  | 429 => S429
  | 430 => S430
  | 431 => S431
  | 432 => S432
  | 433 => S433
  | 434 => S434
  | 435 => S435
  | 436 => S436
  | 437 => S437
  | 438 => S438
  | 439 => S439
  | 440 => S440
  | 441 => S441
  | 442 => S442
  | 443 => S443
  | 444 => S444
  | 445 => S445
  | 446 => S446
  | 447 => S447
  | 448 => S448
  | 449 => S449
  | 450 => S450
  | 451 => S451
  | 452 => S452
  | 453 => S453
  | 454 => S454
  | 455 => S455
  | 456 => S456
  | 457 => S457
  | 458 => S458
  | 459 => S459
  | 460 => S460
  | 461 => S461
  | 462 => S462
  | 463 => S463
  | 464 => S464
  | 465 => S465
  | 466 => S466
  | 467 => S467
  | 468 => S468
  | 469 => S469
  | 470 => S470
  | 471 => S471
  | 472 => S472
  | 473 => S473
  | 474 => S474
  | 475 => S475
  | 476 => S476
  | 477 => S477
  | 478 => S478
  | 479 => S479
  | 480 => S480
  | 481 => S481
  | 482 => S482
  | 483 => S483
  | 484 => S484
  | 485 => S485
  | 486 => S486
  | 487 => S487
  | 488 => S488
  | 489 => S489
  | 490 => S490
  | 491 => S491
  | 492 => S492
  | 493 => S493
  | 494 => S494
  | 495 => S495
  | 496 => S496
  | 497 => S497
  | 498 => S498
  | 499 => S499
  | 500 => S500
  | 501 => S501
  | 502 => S502
  | 503 => S503
  | 504 => S504
  | 505 => S505
  | 506 => S506
  | 507 => S507
  | 508 => S508
  | 509 => S509
  | 510 => S510
  | 511 => S511
  | 512 => S512
  | 513 => S513
  | 514 => S514
  | 515 => S515
  | 516 => S516
  | 517 => S517
  | 518 => S518
  | 519 => S519
  | 520 => S520
  | 521 => S521
  | 522 => S522
  | 523 => S523
  | 524 => S524
  | 525 => S525
  | 526 => S526
  | 527 => S527
  | 528 => S528
  | 529 => S529
  | 530 => S530
  | 531 => S531
  | 532 => S532
  | 533 => S533
  | 534 => S534
  | 535 => S535
  | 536 => S536
  | 537 => S537
  | 538 => S538
  | 539 => S539
  | 540 => S540
  | 541 => S541
  | 542 => S542
  | 543 => S543
  | 544 => S544
  | 545 => S545
  | 546 => S546
  | 547 => S547
  | 548 => S548
  | 549 => S549
  | 550 => S550
  | 551 => S551
  | 552 => S552
  | 553 => S553
  | 554 => S554
  | 555 => S555
  | 556 => S556
  | 557 => S557
  | 558 => S558
  | 559 => S559
  | 560 => S560
  | 561 => S561
  | 562 => S562
  | 563 => S563
  | 564 => S564
  | 565 => S565
  | 566 => S566
  | 567 => S567
  | 568 => S568
  | 569 => S569
  | 570 => S570
  | 571 => S571
  | 572 => S572
  | 573 => S573
  | 574 => S574
  | 575 => S575
  | 576 => S576
  | 577 => S577
  | 578 => S578
  | 579 => S579
  | 580 => S580
  | 581 => S581
  | 582 => S582
  | 583 => S583
  | 584 => S584
  | 585 => S585
  | 586 => S586
  | 587 => S587
  | 588 => S588
  | 589 => S589
  | 590 => S590
  | 591 => S591
  | 592 => S592
  | 593 => S593
  | 594 => S594
  | 595 => S595
  | 596 => S596
  | 597 => S597
  | 598 => S598
  | 599 => S599
  | 600 => S600
  | 601 => S601
  | 602 => S602
  | 603 => S603
  | 604 => S604
  | 605 => S605
  | 606 => S606
  | 607 => S607
  | 608 => S608
  | 609 => S609
  | 610 => S610
  | 611 => S611
  | 612 => S612
  | 613 => S613
  | 614 => S614
  | 615 => S615
  | 616 => S616
  | 617 => S617
  | 618 => S618
  | 619 => S619
  | 620 => S620
  | 621 => S621
  | 622 => S622
  | 623 => S623
  | 624 => S624
  | 625 => S625
  | 626 => S626
  | 627 => S627
  | 628 => S628
  | 629 => S629
  | 630 => S630
  | 631 => S631
  | 632 => S632
  | 633 => S633
  | 634 => S634
  | 635 => S635
  | 636 => S636
  | 637 => S637
  | 638 => S638
  | 639 => S639
  | 640 => S640
  | 641 => S641
  | 642 => S642
  | 643 => S643
  | 644 => S644
  | 645 => S645
  | 646 => S646
  | 647 => S647
  | 648 => S648
  | 649 => S649
  | 650 => S650
  | 651 => S651
  | 652 => S652
  | 653 => S653
  | 654 => S654
  | 655 => S655
  | 656 => S656
  | 657 => S657
  | 658 => S658
  | 659 => S659
  | 660 => S660
  | 661 => S661
  | 662 => S662
  | 663 => S663
  | 664 => S664
  | 665 => S665
  | 666 => S666
  | 667 => S667
  | 668 => S668
  | 669 => S669
  | 670 => S670
  | 671 => S671
  | 672 => S672
  | 673 => S673
  | 674 => S674
  | 675 => S675
  | 676 => S676
  | 677 => S677
  | 678 => S678
  | 679 => S679
  | 680 => S680
  | 681 => S681
  | 682 => S682
  | 683 => S683
  | 684 => S684
  | 685 => S685
  | 686 => S686
  | 687 => S687
  | 688 => S688
  | 689 => S689
  | 690 => S690
  | 691 => S691
  | 692 => S692
  | 693 => S693
  | 694 => S694
  | 695 => S695
  | 696 => S696
  | 697 => S697
  | 698 => S698
  | 699 => S699
  | 700 => S700
  | 701 => S701
  | 702 => S702
  | 703 => S703
  | 704 => S704
  | 705 => S705
  | 706 => S706
  | 707 => S707
  | 708 => S708
  | 709 => S709
  | 710 => S710
  | 711 => S711
  | 712 => S712
  | 713 => S713
  | 714 => S714
  | 715 => S715
  | 716 => S716
  | 717 => S717
  | 718 => S718
  | 719 => S719
  | 720 => S720
  | 721 => S721
  | 722 => S722
  | 723 => S723
  | 724 => S724
  | 725 => S725
  | 726 => S726
  | 727 => S727
  | 728 => S728
  | 729 => S729
  | 730 => S730
  | 731 => S731
  | 732 => S732
  | 733 => S733
  | 734 => S734
  | 735 => S735
  | 736 => S736
  | 737 => S737
  | 738 => S738
  | 739 => S739
  | 740 => S740
  | 741 => S741
  | 742 => S742
  | 743 => S743
  | 744 => S744
  | 745 => S745
  | 746 => S746
  | 747 => S747
  | 748 => S748
  | 749 => S749
  | 750 => S750
  | 751 => S751
  | 752 => S752
  | 753 => S753
  | 754 => S754
  | 755 => S755
  | 756 => S756
  | 757 => S757
  | 758 => S758
  | 759 => S759
  | 760 => S760
  | 761 => S761
  | 762 => S762
  | 763 => S763
  | 764 => S764
  | 765 => S765
  | 766 => S766
  | 767 => S767
  | 768 => S768
  | 769 => S769
  | 770 => S770
  | 771 => S771
  | _ => S771

theorem segs : ∀ c, c < 771 → runSeg 16 85 (85 * c) (S c) = (S (c+1), true)
  | 0, _ => seg0
  | 1, _ => seg1
  | 2, _ => seg2
  | 3, _ => seg3
  | 4, _ => seg4
  | 5, _ => seg5
  | 6, _ => seg6
  | 7, _ => seg7
  | 8, _ => seg8
  | 9, _ => seg9
  | 10, _ => seg10
  | 11, _ => seg11
  | 12, _ => seg12
  | 13, _ => seg13
  | 14, _ => seg14
  | 15, _ => seg15
  | 16, _ => seg16
  | 17, _ => seg17
  | 18, _ => seg18
  | 19, _ => seg19
  | 20, _ => seg20
  | 21, _ => seg21
  | 22, _ => seg22
  | 23, _ => seg23
  | 24, _ => seg24
  | 25, _ => seg25
  | 26, _ => seg26
  | 27, _ => seg27
  | 28, _ => seg28
  | 29, _ => seg29
  | 30, _ => seg30
  | 31, _ => seg31
  | 32, _ => seg32
  | 33, _ => seg33
  | 34, _ => seg34
  | 35, _ => seg35
  | 36, _ => seg36
  | 37, _ => seg37
  | 38, _ => seg38
  | 39, _ => seg39
  | 40, _ => seg40
  | 41, _ => seg41
  | 42, _ => seg42
  | 43, _ => seg43
  | 44, _ => seg44
  | 45, _ => seg45
  | 46, _ => seg46
  | 47, _ => seg47
  | 48, _ => seg48
  | 49, _ => seg49
  | 50, _ => seg50
  | 51, _ => seg51
  | 52, _ => seg52
  | 53, _ => seg53
  | 54, _ => seg54
  | 55, _ => seg55
  | 56, _ => seg56
  | 57, _ => seg57
  | 58, _ => seg58
  | 59, _ => seg59
  | 60, _ => seg60
  | 61, _ => seg61
  | 62, _ => seg62
  | 63, _ => seg63
  | 64, _ => seg64
  | 65, _ => seg65
  | 66, _ => seg66
  | 67, _ => seg67
  | 68, _ => seg68
  | 69, _ => seg69
  | 70, _ => seg70
  | 71, _ => seg71
  | 72, _ => seg72
  | 73, _ => seg73
  | 74, _ => seg74
  | 75, _ => seg75
  | 76, _ => seg76
  | 77, _ => seg77
  | 78, _ => seg78
  | 79, _ => seg79
  | 80, _ => seg80
  | 81, _ => seg81
  | 82, _ => seg82
  | 83, _ => seg83
  | 84, _ => seg84
  | 85, _ => seg85
  | 86, _ => seg86
  | 87, _ => seg87
  | 88, _ => seg88
  | 89, _ => seg89
  | 90, _ => seg90
  | 91, _ => seg91
  | 92, _ => seg92
  | 93, _ => seg93
  | 94, _ => seg94
  | 95, _ => seg95
  | 96, _ => seg96
  | 97, _ => seg97
  | 98, _ => seg98
  | 99, _ => seg99
  | 100, _ => seg100
  | 101, _ => seg101
  | 102, _ => seg102
  | 103, _ => seg103
  | 104, _ => seg104
  | 105, _ => seg105
  | 106, _ => seg106
  | 107, _ => seg107
  | 108, _ => seg108
  | 109, _ => seg109
  | 110, _ => seg110
  | 111, _ => seg111
  | 112, _ => seg112
  | 113, _ => seg113
  | 114, _ => seg114
  | 115, _ => seg115
  | 116, _ => seg116
  | 117, _ => seg117
  | 118, _ => seg118
  | 119, _ => seg119
  | 120, _ => seg120
  | 121, _ => seg121
  | 122, _ => seg122
  | 123, _ => seg123
  | 124, _ => seg124
  | 125, _ => seg125
  | 126, _ => seg126
  | 127, _ => seg127
  | 128, _ => seg128
  | 129, _ => seg129
  | 130, _ => seg130
  | 131, _ => seg131
  | 132, _ => seg132
  | 133, _ => seg133
  | 134, _ => seg134
  | 135, _ => seg135
  | 136, _ => seg136
  | 137, _ => seg137
  | 138, _ => seg138
  | 139, _ => seg139
  | 140, _ => seg140
  | 141, _ => seg141
  | 142, _ => seg142
  | 143, _ => seg143
  | 144, _ => seg144
  | 145, _ => seg145
  | 146, _ => seg146
  | 147, _ => seg147
  | 148, _ => seg148
  | 149, _ => seg149
  | 150, _ => seg150
  | 151, _ => seg151
  | 152, _ => seg152
  | 153, _ => seg153
  | 154, _ => seg154
  | 155, _ => seg155
  | 156, _ => seg156
  | 157, _ => seg157
  | 158, _ => seg158
  | 159, _ => seg159
  | 160, _ => seg160
  | 161, _ => seg161
  | 162, _ => seg162
  | 163, _ => seg163
  | 164, _ => seg164
  | 165, _ => seg165
  | 166, _ => seg166
  | 167, _ => seg167
  | 168, _ => seg168
  | 169, _ => seg169
  | 170, _ => seg170
  | 171, _ => seg171
  | 172, _ => seg172
  | 173, _ => seg173
  | 174, _ => seg174
  | 175, _ => seg175
  | 176, _ => seg176
  | 177, _ => seg177
  | 178, _ => seg178
  | 179, _ => seg179
  | 180, _ => seg180
  | 181, _ => seg181
  | 182, _ => seg182
  | 183, _ => seg183
  | 184, _ => seg184
  | 185, _ => seg185
  | 186, _ => seg186
  | 187, _ => seg187
  | 188, _ => seg188
  | 189, _ => seg189
  | 190, _ => seg190
  | 191, _ => seg191
  | 192, _ => seg192
  | 193, _ => seg193
  | 194, _ => seg194
  | 195, _ => seg195
  | 196, _ => seg196
  | 197, _ => seg197
  | 198, _ => seg198
  | 199, _ => seg199
  | 200, _ => seg200
  | 201, _ => seg201
  | 202, _ => seg202
  | 203, _ => seg203
  | 204, _ => seg204
  | 205, _ => seg205
  | 206, _ => seg206
  | 207, _ => seg207
  | 208, _ => seg208
  | 209, _ => seg209
  | 210, _ => seg210
  | 211, _ => seg211
  | 212, _ => seg212
  | 213, _ => seg213
  | 214, _ => seg214
  | 215, _ => seg215
  | 216, _ => seg216
  | 217, _ => seg217
  | 218, _ => seg218
  | 219, _ => seg219
  | 220, _ => seg220
  | 221, _ => seg221
  | 222, _ => seg222
  | 223, _ => seg223
  | 224, _ => seg224
  | 225, _ => seg225
  | 226, _ => seg226
  | 227, _ => seg227
  | 228, _ => seg228
  | 229, _ => seg229
  | 230, _ => seg230
  | 231, _ => seg231
  | 232, _ => seg232
  | 233, _ => seg233
  | 234, _ => seg234
  | 235, _ => seg235
  | 236, _ => seg236
  | 237, _ => seg237
  | 238, _ => seg238
  | 239, _ => seg239
  | 240, _ => seg240
  | 241, _ => seg241
  | 242, _ => seg242
  | 243, _ => seg243
  | 244, _ => seg244
  | 245, _ => seg245
  | 246, _ => seg246
  | 247, _ => seg247
  | 248, _ => seg248
  | 249, _ => seg249
  | 250, _ => seg250
  | 251, _ => seg251
  | 252, _ => seg252
  | 253, _ => seg253
  | 254, _ => seg254
  | 255, _ => seg255
  | 256, _ => seg256
  | 257, _ => seg257
  | 258, _ => seg258
  | 259, _ => seg259
  | 260, _ => seg260
  | 261, _ => seg261
  | 262, _ => seg262
  | 263, _ => seg263
  | 264, _ => seg264
  | 265, _ => seg265
  | 266, _ => seg266
  | 267, _ => seg267
  | 268, _ => seg268
  | 269, _ => seg269
  | 270, _ => seg270
  | 271, _ => seg271
  | 272, _ => seg272
  | 273, _ => seg273
  | 274, _ => seg274
  | 275, _ => seg275
  | 276, _ => seg276
  | 277, _ => seg277
  | 278, _ => seg278
  | 279, _ => seg279
  | 280, _ => seg280
  | 281, _ => seg281
  | 282, _ => seg282
  | 283, _ => seg283
  | 284, _ => seg284
  | 285, _ => seg285
  | 286, _ => seg286
  | 287, _ => seg287
  | 288, _ => seg288
  | 289, _ => seg289
  | 290, _ => seg290
  | 291, _ => seg291
  | 292, _ => seg292
  | 293, _ => seg293
  | 294, _ => seg294
  | 295, _ => seg295
  | 296, _ => seg296
  | 297, _ => seg297
  | 298, _ => seg298
  | 299, _ => seg299
  | 300, _ => seg300
  | 301, _ => seg301
  | 302, _ => seg302
  | 303, _ => seg303
  | 304, _ => seg304
  | 305, _ => seg305
  | 306, _ => seg306
  | 307, _ => seg307
  | 308, _ => seg308
  | 309, _ => seg309
  | 310, _ => seg310
  | 311, _ => seg311
  | 312, _ => seg312
  | 313, _ => seg313
  | 314, _ => seg314
  | 315, _ => seg315
  | 316, _ => seg316
  | 317, _ => seg317
  | 318, _ => seg318
  | 319, _ => seg319
  | 320, _ => seg320
  | 321, _ => seg321
  | 322, _ => seg322
  | 323, _ => seg323
  | 324, _ => seg324
  | 325, _ => seg325
  | 326, _ => seg326
  | 327, _ => seg327
  | 328, _ => seg328
  | 329, _ => seg329
  | 330, _ => seg330
  | 331, _ => seg331
  | 332, _ => seg332
  | 333, _ => seg333
  | 334, _ => seg334
  | 335, _ => seg335
  | 336, _ => seg336
  | 337, _ => seg337
  | 338, _ => seg338
  | 339, _ => seg339
  | 340, _ => seg340
  | 341, _ => seg341
  | 342, _ => seg342
  | 343, _ => seg343
  | 344, _ => seg344
  | 345, _ => seg345
  | 346, _ => seg346
  | 347, _ => seg347
  | 348, _ => seg348
  | 349, _ => seg349
  | 350, _ => seg350
  | 351, _ => seg351
  | 352, _ => seg352
  | 353, _ => seg353
  | 354, _ => seg354
  | 355, _ => seg355
  | 356, _ => seg356
  | 357, _ => seg357
  | 358, _ => seg358
  | 359, _ => seg359
  | 360, _ => seg360
  | 361, _ => seg361
  | 362, _ => seg362
  | 363, _ => seg363
  | 364, _ => seg364
  | 365, _ => seg365
  | 366, _ => seg366
  | 367, _ => seg367
  | 368, _ => seg368
  | 369, _ => seg369
  | 370, _ => seg370
  | 371, _ => seg371
  | 372, _ => seg372
  | 373, _ => seg373
  | 374, _ => seg374
  | 375, _ => seg375
  | 376, _ => seg376
  | 377, _ => seg377
  | 378, _ => seg378
  | 379, _ => seg379
  | 380, _ => seg380
  | 381, _ => seg381
  | 382, _ => seg382
  | 383, _ => seg383
  | 384, _ => seg384
  | 385, _ => seg385
  | 386, _ => seg386
  | 387, _ => seg387
  | 388, _ => seg388
  | 389, _ => seg389
  | 390, _ => seg390
  | 391, _ => seg391
  | 392, _ => seg392
  | 393, _ => seg393
  | 394, _ => seg394
  | 395, _ => seg395
  | 396, _ => seg396
  | 397, _ => seg397
  | 398, _ => seg398
  | 399, _ => seg399
  | 400, _ => seg400
  | 401, _ => seg401
  | 402, _ => seg402
  | 403, _ => seg403
  | 404, _ => seg404
  | 405, _ => seg405
  | 406, _ => seg406
  | 407, _ => seg407
  | 408, _ => seg408
  | 409, _ => seg409
  | 410, _ => seg410
  | 411, _ => seg411
  | 412, _ => seg412
  | 413, _ => seg413
  | 414, _ => seg414
  | 415, _ => seg415
  | 416, _ => seg416
  | 417, _ => seg417
  | 418, _ => seg418
  | 419, _ => seg419
  | 420, _ => seg420
  | 421, _ => seg421
  | 422, _ => seg422
  | 423, _ => seg423
  | 424, _ => seg424
  | 425, _ => seg425
  | 426, _ => seg426
  | 427, _ => seg427
  | 428, _ => seg428
  | 429, _ => seg429
  | 430, _ => seg430
  | 431, _ => seg431
  | 432, _ => seg432
  | 433, _ => seg433
  | 434, _ => seg434
  | 435, _ => seg435
  | 436, _ => seg436
  | 437, _ => seg437
  | 438, _ => seg438
  | 439, _ => seg439
  | 440, _ => seg440
  | 441, _ => seg441
  | 442, _ => seg442
  | 443, _ => seg443
  | 444, _ => seg444
  | 445, _ => seg445
  | 446, _ => seg446
  | 447, _ => seg447
  | 448, _ => seg448
  | 449, _ => seg449
  | 450, _ => seg450
  | 451, _ => seg451
  | 452, _ => seg452
  | 453, _ => seg453
  | 454, _ => seg454
  | 455, _ => seg455
  | 456, _ => seg456
  | 457, _ => seg457
  | 458, _ => seg458
  | 459, _ => seg459
  | 460, _ => seg460
  | 461, _ => seg461
  | 462, _ => seg462
  | 463, _ => seg463
  | 464, _ => seg464
  | 465, _ => seg465
  | 466, _ => seg466
  | 467, _ => seg467
  | 468, _ => seg468
  | 469, _ => seg469
  | 470, _ => seg470
  | 471, _ => seg471
  | 472, _ => seg472
  | 473, _ => seg473
  | 474, _ => seg474
  | 475, _ => seg475
  | 476, _ => seg476
  | 477, _ => seg477
  | 478, _ => seg478
  | 479, _ => seg479
  | 480, _ => seg480
  | 481, _ => seg481
  | 482, _ => seg482
  | 483, _ => seg483
  | 484, _ => seg484
  | 485, _ => seg485
  | 486, _ => seg486
  | 487, _ => seg487
  | 488, _ => seg488
  | 489, _ => seg489
  | 490, _ => seg490
  | 491, _ => seg491
  | 492, _ => seg492
  | 493, _ => seg493
  | 494, _ => seg494
  | 495, _ => seg495
  | 496, _ => seg496
  | 497, _ => seg497
  | 498, _ => seg498
  | 499, _ => seg499
  | 500, _ => seg500
  | 501, _ => seg501
  | 502, _ => seg502
  | 503, _ => seg503
  | 504, _ => seg504
  | 505, _ => seg505
  | 506, _ => seg506
  | 507, _ => seg507
  | 508, _ => seg508
  | 509, _ => seg509
  | 510, _ => seg510
  | 511, _ => seg511
  | 512, _ => seg512
  | 513, _ => seg513
  | 514, _ => seg514
  | 515, _ => seg515
  | 516, _ => seg516
  | 517, _ => seg517
  | 518, _ => seg518
  | 519, _ => seg519
  | 520, _ => seg520
  | 521, _ => seg521
  | 522, _ => seg522
  | 523, _ => seg523
  | 524, _ => seg524
  | 525, _ => seg525
  | 526, _ => seg526
  | 527, _ => seg527
  | 528, _ => seg528
  | 529, _ => seg529
  | 530, _ => seg530
  | 531, _ => seg531
  | 532, _ => seg532
  | 533, _ => seg533
  | 534, _ => seg534
  | 535, _ => seg535
  | 536, _ => seg536
  | 537, _ => seg537
  | 538, _ => seg538
  | 539, _ => seg539
  | 540, _ => seg540
  | 541, _ => seg541
  | 542, _ => seg542
  | 543, _ => seg543
  | 544, _ => seg544
  | 545, _ => seg545
  | 546, _ => seg546
  | 547, _ => seg547
  | 548, _ => seg548
  | 549, _ => seg549
  | 550, _ => seg550
  | 551, _ => seg551
  | 552, _ => seg552
  | 553, _ => seg553
  | 554, _ => seg554
  | 555, _ => seg555
  | 556, _ => seg556
  | 557, _ => seg557
  | 558, _ => seg558
  | 559, _ => seg559
  | 560, _ => seg560
  | 561, _ => seg561
  | 562, _ => seg562
  | 563, _ => seg563
  | 564, _ => seg564
  | 565, _ => seg565
  | 566, _ => seg566
  | 567, _ => seg567
  | 568, _ => seg568
  | 569, _ => seg569
  | 570, _ => seg570
  | 571, _ => seg571
  | 572, _ => seg572
  | 573, _ => seg573
  | 574, _ => seg574
  | 575, _ => seg575
  | 576, _ => seg576
  | 577, _ => seg577
  | 578, _ => seg578
  | 579, _ => seg579
  | 580, _ => seg580
  | 581, _ => seg581
  | 582, _ => seg582
  | 583, _ => seg583
  | 584, _ => seg584
  | 585, _ => seg585
  | 586, _ => seg586
  | 587, _ => seg587
  | 588, _ => seg588
  | 589, _ => seg589
  | 590, _ => seg590
  | 591, _ => seg591
  | 592, _ => seg592
  | 593, _ => seg593
  | 594, _ => seg594
  | 595, _ => seg595
  | 596, _ => seg596
  | 597, _ => seg597
  | 598, _ => seg598
  | 599, _ => seg599
  | 600, _ => seg600
  | 601, _ => seg601
  | 602, _ => seg602
  | 603, _ => seg603
  | 604, _ => seg604
  | 605, _ => seg605
  | 606, _ => seg606
  | 607, _ => seg607
  | 608, _ => seg608
  | 609, _ => seg609
  | 610, _ => seg610
  | 611, _ => seg611
  | 612, _ => seg612
  | 613, _ => seg613
  | 614, _ => seg614
  | 615, _ => seg615
  | 616, _ => seg616
  | 617, _ => seg617
  | 618, _ => seg618
  | 619, _ => seg619
  | 620, _ => seg620
  | 621, _ => seg621
  | 622, _ => seg622
  | 623, _ => seg623
  | 624, _ => seg624
  | 625, _ => seg625
  | 626, _ => seg626
  | 627, _ => seg627
  | 628, _ => seg628
  | 629, _ => seg629
  | 630, _ => seg630
  | 631, _ => seg631
  | 632, _ => seg632
  | 633, _ => seg633
  | 634, _ => seg634
  | 635, _ => seg635
  | 636, _ => seg636
  | 637, _ => seg637
  | 638, _ => seg638
  | 639, _ => seg639
  | 640, _ => seg640
  | 641, _ => seg641
  | 642, _ => seg642
  | 643, _ => seg643
  | 644, _ => seg644
  | 645, _ => seg645
  | 646, _ => seg646
  | 647, _ => seg647
  | 648, _ => seg648
  | 649, _ => seg649
  | 650, _ => seg650
  | 651, _ => seg651
  | 652, _ => seg652
  | 653, _ => seg653
  | 654, _ => seg654
  | 655, _ => seg655
  | 656, _ => seg656
  | 657, _ => seg657
  | 658, _ => seg658
  | 659, _ => seg659
  | 660, _ => seg660
  | 661, _ => seg661
  | 662, _ => seg662
  | 663, _ => seg663
  | 664, _ => seg664
  | 665, _ => seg665
  | 666, _ => seg666
  | 667, _ => seg667
  | 668, _ => seg668
  | 669, _ => seg669
  | 670, _ => seg670
  | 671, _ => seg671
  | 672, _ => seg672
  | 673, _ => seg673
  | 674, _ => seg674
  | 675, _ => seg675
  | 676, _ => seg676
  | 677, _ => seg677
  | 678, _ => seg678
  | 679, _ => seg679
  | 680, _ => seg680
  | 681, _ => seg681
  | 682, _ => seg682
  | 683, _ => seg683
  | 684, _ => seg684
  | 685, _ => seg685
  | 686, _ => seg686
  | 687, _ => seg687
  | 688, _ => seg688
  | 689, _ => seg689
  | 690, _ => seg690
  | 691, _ => seg691
  | 692, _ => seg692
  | 693, _ => seg693
  | 694, _ => seg694
  | 695, _ => seg695
  | 696, _ => seg696
  | 697, _ => seg697
  | 698, _ => seg698
  | 699, _ => seg699
  | 700, _ => seg700
  | 701, _ => seg701
  | 702, _ => seg702
  | 703, _ => seg703
  | 704, _ => seg704
  | 705, _ => seg705
  | 706, _ => seg706
  | 707, _ => seg707
  | 708, _ => seg708
  | 709, _ => seg709
  | 710, _ => seg710
  | 711, _ => seg711
  | 712, _ => seg712
  | 713, _ => seg713
  | 714, _ => seg714
  | 715, _ => seg715
  | 716, _ => seg716
  | 717, _ => seg717
  | 718, _ => seg718
  | 719, _ => seg719
  | 720, _ => seg720
  | 721, _ => seg721
  | 722, _ => seg722
  | 723, _ => seg723
  | 724, _ => seg724
  | 725, _ => seg725
  | 726, _ => seg726
  | 727, _ => seg727
  | 728, _ => seg728
  | 729, _ => seg729
  | 730, _ => seg730
  | 731, _ => seg731
  | 732, _ => seg732
  | 733, _ => seg733
  | 734, _ => seg734
  | 735, _ => seg735
  | 736, _ => seg736
  | 737, _ => seg737
  | 738, _ => seg738
  | 739, _ => seg739
  | 740, _ => seg740
  | 741, _ => seg741
  | 742, _ => seg742
  | 743, _ => seg743
  | 744, _ => seg744
  | 745, _ => seg745
  | 746, _ => seg746
  | 747, _ => seg747
  | 748, _ => seg748
  | 749, _ => seg749
  | 750, _ => seg750
  | 751, _ => seg751
  | 752, _ => seg752
  | 753, _ => seg753
  | 754, _ => seg754
  | 755, _ => seg755
  | 756, _ => seg756
  | 757, _ => seg757
  | 758, _ => seg758
  | 759, _ => seg759
  | 760, _ => seg760
  | 761, _ => seg761
  | 762, _ => seg762
  | 763, _ => seg763
  | 764, _ => seg764
  | 765, _ => seg765
  | 766, _ => seg766
  | 767, _ => seg767
  | 768, _ => seg768
  | 769, _ => seg769
  | 770, _ => seg770
  | c+771, hc => by omega

/-- the traversal of height 16 keeps the true authentication path at all 65536 indices -/
theorem traversal : TraversalCorrect 16 :=
  traversal_of_segments 16 85 771 S (by decide) setup segs last
end Qrl.BdsLabel.Seg16
