import QrlModel.Proofs.Seg.H16Seg0
import QrlModel.Proofs.Seg.H16Seg1
import QrlModel.Proofs.Seg.H16Seg2
import QrlModel.Proofs.Seg.H16Seg3
import QrlModel.Proofs.Seg.H16Seg4
import QrlModel.Proofs.Seg.H16Seg5
import QrlModel.Proofs.Seg.H16Seg6
import QrlModel.Proofs.Seg.H16Seg7
import QrlModel.Proofs.Seg.H16Seg8
import QrlModel.Proofs.Seg.H16Seg9
import QrlModel.Proofs.Seg.H16Seg10
import QrlModel.Proofs.Seg.H16Seg11
import QrlModel.Proofs.Seg.H16Seg12
import QrlModel.Proofs.Seg.H16Seg13
import QrlModel.Proofs.Seg.H16Seg14
import QrlModel.Proofs.Seg.H16Seg15
import QrlModel.Proofs.Seg.H16Seg16
import QrlModel.Proofs.Seg.H16Seg17
import QrlModel.Proofs.Seg.H16Seg18
import QrlModel.Proofs.Seg.H16Seg19
import QrlModel.Proofs.Seg.H16Seg20
import QrlModel.Proofs.Seg.H16Seg21
import QrlModel.Proofs.Seg.H16Seg22
import QrlModel.Proofs.Seg.H16Seg23
import QrlModel.Proofs.Seg.H16Seg24
import QrlModel.Proofs.Seg.H16Seg25
import QrlModel.Proofs.Seg.H16Seg26
import QrlModel.Proofs.Seg.H16Seg27
import QrlModel.Proofs.Seg.H16Seg28
import QrlModel.Proofs.Seg.H16Seg29
import QrlModel.Proofs.Seg.H16Seg30
import QrlModel.Proofs.Seg.H16Seg31
import QrlModel.Proofs.Seg.H16Seg32
import QrlModel.Proofs.Seg.H16Seg33
import QrlModel.Proofs.Seg.H16Seg34
import QrlModel.Proofs.Seg.H16Seg35
import QrlModel.Proofs.Seg.H16Seg36
import QrlModel.Proofs.Seg.H16Seg37
import QrlModel.Proofs.Seg.H16Seg38
import QrlModel.Proofs.Seg.H16Seg39
import QrlModel.Proofs.Seg.H16Seg40
import QrlModel.Proofs.Seg.H16Seg41
import QrlModel.Proofs.Seg.H16Seg42
import QrlModel.Proofs.Seg.H16Seg43
import QrlModel.Proofs.Seg.H16Seg44
import QrlModel.Proofs.Seg.H16Seg45
import QrlModel.Proofs.Seg.H16Seg46
import QrlModel.Proofs.Seg.H16Seg47
import QrlModel.Proofs.Seg.H16Seg48
import QrlModel.Proofs.Seg.H16Seg49
import QrlModel.Proofs.Seg.H16Seg50
import QrlModel.Proofs.Seg.H16Seg51
import QrlModel.Proofs.Seg.H16Seg52
import QrlModel.Proofs.Seg.H16Seg53
import QrlModel.Proofs.Seg.H16Seg54
import QrlModel.Proofs.Seg.H16Seg55
import QrlModel.Proofs.Seg.H16Seg56
import QrlModel.Proofs.Seg.H16Seg57
import QrlModel.Proofs.Seg.H16Seg58
import QrlModel.Proofs.Seg.H16Seg59
import QrlModel.Proofs.Seg.H16Seg60
import QrlModel.Proofs.Seg.H16Seg61
import QrlModel.Proofs.Seg.H16Seg62
import QrlModel.Proofs.Seg.H16Seg63
import QrlModel.Proofs.Seg.H16Seg64
import QrlModel.Proofs.Seg.H16Seg65
import QrlModel.Proofs.Seg.H16Seg66
import QrlModel.Proofs.Seg.H16Seg67
import QrlModel.Proofs.Seg.H16Seg68
import QrlModel.Proofs.Seg.H16Seg69
import QrlModel.Proofs.Seg.H16Seg70
import QrlModel.Proofs.Seg.H16Seg71
import QrlModel.Proofs.Seg.H16Seg72
import QrlModel.Proofs.Seg.H16Seg73
import QrlModel.Proofs.Seg.H16Seg74
import QrlModel.Proofs.Seg.H16Seg75
import QrlModel.Proofs.Seg.H16Seg76
import QrlModel.Proofs.Seg.H16Seg77
import QrlModel.Proofs.Seg.H16Seg78
import QrlModel.Proofs.Seg.H16Seg79
import QrlModel.Proofs.Seg.H16Seg80
import QrlModel.Proofs.Seg.H16Seg81
import QrlModel.Proofs.Seg.H16Seg82
import QrlModel.Proofs.Seg.H16Seg83
import QrlModel.Proofs.Seg.H16Seg84
import QrlModel.Proofs.Seg.H16Seg85
import QrlModel.Proofs.Seg.H16Seg86
import QrlModel.Proofs.Seg.H16Seg87
import QrlModel.Proofs.Seg.H16Seg88
import QrlModel.Proofs.Seg.H16Seg89
import QrlModel.Proofs.Seg.H16Seg90
import QrlModel.Proofs.Seg.H16Seg91
import QrlModel.Proofs.Seg.H16Seg92
import QrlModel.Proofs.Seg.H16Seg93
import QrlModel.Proofs.Seg.H16Seg94
import QrlModel.Proofs.Seg.H16Seg95
import QrlModel.Proofs.Seg.H16Seg96
import QrlModel.Proofs.Seg.H16Seg97
import QrlModel.Proofs.Seg.H16Seg98
import QrlModel.Proofs.Seg.H16Seg99
import QrlModel.Proofs.Seg.H16Seg100
import QrlModel.Proofs.Seg.H16Seg101
import QrlModel.Proofs.Seg.H16Seg102
import QrlModel.Proofs.Seg.H16Seg103
import QrlModel.Proofs.Seg.H16Seg104
import QrlModel.Proofs.Seg.H16Seg105
import QrlModel.Proofs.Seg.H16Seg106
import QrlModel.Proofs.Seg.H16Seg107
import QrlModel.Proofs.Seg.H16Seg108
import QrlModel.Proofs.Seg.H16Seg109
import QrlModel.Proofs.Seg.H16Seg110
import QrlModel.Proofs.Seg.H16Seg111
import QrlModel.Proofs.Seg.H16Seg112
import QrlModel.Proofs.Seg.H16Seg113
import QrlModel.Proofs.Seg.H16Seg114
import QrlModel.Proofs.Seg.H16Seg115
import QrlModel.Proofs.Seg.H16Seg116
import QrlModel.Proofs.Seg.H16Seg117
import QrlModel.Proofs.Seg.H16Seg118
import QrlModel.Proofs.Seg.H16Seg119
import QrlModel.Proofs.Seg.H16Seg120
import QrlModel.Proofs.Seg.H16Seg121
import QrlModel.Proofs.Seg.H16Seg122
import QrlModel.Proofs.Seg.H16Seg123
import QrlModel.Proofs.Seg.H16Seg124
import QrlModel.Proofs.Seg.H16Seg125
import QrlModel.Proofs.Seg.H16Seg126
import QrlModel.Proofs.Seg.H16Seg127
import QrlModel.Proofs.Seg.H16Seg128
import QrlModel.Proofs.Seg.H16Seg129
import QrlModel.Proofs.Seg.H16Seg130
import QrlModel.Proofs.Seg.H16Seg131
import QrlModel.Proofs.Seg.H16Seg132
import QrlModel.Proofs.Seg.H16Seg133
import QrlModel.Proofs.Seg.H16Seg134
import QrlModel.Proofs.Seg.H16Seg135
import QrlModel.Proofs.Seg.H16Seg136
import QrlModel.Proofs.Seg.H16Seg137
import QrlModel.Proofs.Seg.H16Seg138
import QrlModel.Proofs.Seg.H16Seg139
import QrlModel.Proofs.Seg.H16Seg140
import QrlModel.Proofs.Seg.H16Seg141
import QrlModel.Proofs.Seg.H16Seg142
import QrlModel.Proofs.Seg.H16Seg143
import QrlModel.Proofs.Seg.H16Seg144
import QrlModel.Proofs.Seg.H16Seg145
import QrlModel.Proofs.Seg.H16Seg146
import QrlModel.Proofs.Seg.H16Seg147
import QrlModel.Proofs.Seg.H16Seg148
import QrlModel.Proofs.Seg.H16Seg149
import QrlModel.Proofs.Seg.H16Seg150
import QrlModel.Proofs.Seg.H16Seg151
import QrlModel.Proofs.Seg.H16Seg152
import QrlModel.Proofs.Seg.H16Seg153
import QrlModel.Proofs.Seg.H16Seg154
import QrlModel.Proofs.Seg.H16Seg155
import QrlModel.Proofs.Seg.H16Seg156
import QrlModel.Proofs.Seg.H16Seg157
import QrlModel.Proofs.Seg.H16Seg158
import QrlModel.Proofs.Seg.H16Seg159
import QrlModel.Proofs.Seg.H16Seg160
import QrlModel.Proofs.Seg.H16Seg161
import QrlModel.Proofs.Seg.H16Seg162
import QrlModel.Proofs.Seg.H16Seg163
import QrlModel.Proofs.Seg.H16Seg164
import QrlModel.Proofs.Seg.H16Seg165
import QrlModel.Proofs.Seg.H16Seg166
import QrlModel.Proofs.Seg.H16Seg167
import QrlModel.Proofs.Seg.H16Seg168
import QrlModel.Proofs.Seg.H16Seg169
import QrlModel.Proofs.Seg.H16Seg170
import QrlModel.Proofs.Seg.H16Seg171
import QrlModel.Proofs.Seg.H16Seg172
import QrlModel.Proofs.Seg.H16Seg173
import QrlModel.Proofs.Seg.H16Seg174
import QrlModel.Proofs.Seg.H16Seg175
import QrlModel.Proofs.Seg.H16Seg176
import QrlModel.Proofs.Seg.H16Seg177
import QrlModel.Proofs.Seg.H16Seg178
import QrlModel.Proofs.Seg.H16Seg179
import QrlModel.Proofs.Seg.H16Seg180
import QrlModel.Proofs.Seg.H16Seg181
import QrlModel.Proofs.Seg.H16Seg182
import QrlModel.Proofs.Seg.H16Seg183
import QrlModel.Proofs.Seg.H16Seg184
import QrlModel.Proofs.Seg.H16Seg185
import QrlModel.Proofs.Seg.H16Seg186
import QrlModel.Proofs.Seg.H16Seg187
import QrlModel.Proofs.Seg.H16Seg188
import QrlModel.Proofs.Seg.H16Seg189
import QrlModel.Proofs.Seg.H16Seg190
import QrlModel.Proofs.Seg.H16Seg191
import QrlModel.Proofs.Seg.H16Seg192
import QrlModel.Proofs.Seg.H16Seg193
import QrlModel.Proofs.Seg.H16Seg194
import QrlModel.Proofs.Seg.H16Seg195
import QrlModel.Proofs.Seg.H16Seg196
import QrlModel.Proofs.Seg.H16Seg197
import QrlModel.Proofs.Seg.H16Seg198
import QrlModel.Proofs.Seg.H16Seg199
import QrlModel.Proofs.Seg.H16Seg200
import QrlModel.Proofs.Seg.H16Seg201
import QrlModel.Proofs.Seg.H16Seg202
import QrlModel.Proofs.Seg.H16Seg203
import QrlModel.Proofs.Seg.H16Seg204
import QrlModel.Proofs.Seg.H16Seg205
import QrlModel.Proofs.Seg.H16Seg206
import QrlModel.Proofs.Seg.H16Seg207
import QrlModel.Proofs.Seg.H16Seg208
import QrlModel.Proofs.Seg.H16Seg209
import QrlModel.Proofs.Seg.H16Seg210
import QrlModel.Proofs.Seg.H16Seg211
import QrlModel.Proofs.Seg.H16Seg212
import QrlModel.Proofs.Seg.H16Seg213
import QrlModel.Proofs.Seg.H16Seg214
import QrlModel.Proofs.Seg.H16Seg215
import QrlModel.Proofs.Seg.H16Seg216
import QrlModel.Proofs.Seg.H16Seg217
import QrlModel.Proofs.Seg.H16Seg218
import QrlModel.Proofs.Seg.H16Seg219
import QrlModel.Proofs.Seg.H16Seg220
import QrlModel.Proofs.Seg.H16Seg221
import QrlModel.Proofs.Seg.H16Seg222
import QrlModel.Proofs.Seg.H16Seg223
import QrlModel.Proofs.Seg.H16Seg224
import QrlModel.Proofs.Seg.H16Seg225
import QrlModel.Proofs.Seg.H16Seg226
import QrlModel.Proofs.Seg.H16Seg227
import QrlModel.Proofs.Seg.H16Seg228
import QrlModel.Proofs.Seg.H16Seg229
import QrlModel.Proofs.Seg.H16Seg230
import QrlModel.Proofs.Seg.H16Seg231
import QrlModel.Proofs.Seg.H16Seg232
import QrlModel.Proofs.Seg.H16Seg233
import QrlModel.Proofs.Seg.H16Seg234
import QrlModel.Proofs.Seg.H16Seg235
import QrlModel.Proofs.Seg.H16Seg236
import QrlModel.Proofs.Seg.H16Seg237
import QrlModel.Proofs.Seg.H16Seg238
import QrlModel.Proofs.Seg.H16Seg239
import QrlModel.Proofs.Seg.H16Seg240
import QrlModel.Proofs.Seg.H16Seg241
import QrlModel.Proofs.Seg.H16Seg242
import QrlModel.Proofs.Seg.H16Seg243
import QrlModel.Proofs.Seg.H16Seg244
import QrlModel.Proofs.Seg.H16Seg245
import QrlModel.Proofs.Seg.H16Seg246
import QrlModel.Proofs.Seg.H16Seg247
import QrlModel.Proofs.Seg.H16Seg248
import QrlModel.Proofs.Seg.H16Seg249
import QrlModel.Proofs.Seg.H16Seg250
import QrlModel.Proofs.Seg.H16Seg251
import QrlModel.Proofs.Seg.H16Seg252
import QrlModel.Proofs.Seg.H16Seg253
import QrlModel.Proofs.Seg.H16Seg254
import QrlModel.Proofs.Seg.H16Seg255
import QrlModel.Proofs.Seg.H16Seg256
import QrlModel.Proofs.Seg.H16Seg257
import QrlModel.Proofs.Seg.H16Seg258
import QrlModel.Proofs.Seg.H16Seg259
import QrlModel.Proofs.Seg.H16Seg260
import QrlModel.Proofs.Seg.H16Seg261
import QrlModel.Proofs.Seg.H16Seg262
import QrlModel.Proofs.Seg.H16Seg263
import QrlModel.Proofs.Seg.H16Seg264
import QrlModel.Proofs.Seg.H16Seg265
import QrlModel.Proofs.Seg.H16Seg266
import QrlModel.Proofs.Seg.H16Seg267
import QrlModel.Proofs.Seg.H16Seg268
import QrlModel.Proofs.Seg.H16Seg269
import QrlModel.Proofs.Seg.H16Seg270
import QrlModel.Proofs.Seg.H16Seg271
import QrlModel.Proofs.Seg.H16Seg272
import QrlModel.Proofs.Seg.H16Seg273
import QrlModel.Proofs.Seg.H16Seg274
import QrlModel.Proofs.Seg.H16Seg275
import QrlModel.Proofs.Seg.H16Seg276
import QrlModel.Proofs.Seg.H16Seg277
import QrlModel.Proofs.Seg.H16Seg278
import QrlModel.Proofs.Seg.H16Seg279
import QrlModel.Proofs.Seg.H16Seg280
import QrlModel.Proofs.Seg.H16Seg281
import QrlModel.Proofs.Seg.H16Seg282
import QrlModel.Proofs.Seg.H16Seg283
import QrlModel.Proofs.Seg.H16Seg284
import QrlModel.Proofs.Seg.H16Seg285
import QrlModel.Proofs.Seg.H16Seg286
import QrlModel.Proofs.Seg.H16Seg287
import QrlModel.Proofs.Seg.H16Seg288
import QrlModel.Proofs.Seg.H16Seg289
import QrlModel.Proofs.Seg.H16Seg290
import QrlModel.Proofs.Seg.H16Seg291
import QrlModel.Proofs.Seg.H16Seg292
import QrlModel.Proofs.Seg.H16Seg293
import QrlModel.Proofs.Seg.H16Seg294
import QrlModel.Proofs.Seg.H16Seg295
import QrlModel.Proofs.Seg.H16Seg296
import QrlModel.Proofs.Seg.H16Seg297
import QrlModel.Proofs.Seg.H16Seg298
import QrlModel.Proofs.Seg.H16Seg299
import QrlModel.Proofs.Seg.H16Seg300
import QrlModel.Proofs.Seg.H16Seg301
import QrlModel.Proofs.Seg.H16Seg302
import QrlModel.Proofs.Seg.H16Seg303
import QrlModel.Proofs.Seg.H16Seg304
import QrlModel.Proofs.Seg.H16Seg305
import QrlModel.Proofs.Seg.H16Seg306
import QrlModel.Proofs.Seg.H16Seg307
import QrlModel.Proofs.Seg.H16Seg308
import QrlModel.Proofs.Seg.H16Seg309
import QrlModel.Proofs.Seg.H16Seg310
import QrlModel.Proofs.Seg.H16Seg311
import QrlModel.Proofs.Seg.H16Seg312
import QrlModel.Proofs.Seg.H16Seg313
import QrlModel.Proofs.Seg.H16Seg314
import QrlModel.Proofs.Seg.H16Seg315
import QrlModel.Proofs.Seg.H16Seg316
import QrlModel.Proofs.Seg.H16Seg317
import QrlModel.Proofs.Seg.H16Seg318
import QrlModel.Proofs.Seg.H16Seg319
import QrlModel.Proofs.Seg.H16Seg320
import QrlModel.Proofs.Seg.H16Seg321
import QrlModel.Proofs.Seg.H16Seg322
import QrlModel.Proofs.Seg.H16Seg323
import QrlModel.Proofs.Seg.H16Seg324
import QrlModel.Proofs.Seg.H16Seg325
import QrlModel.Proofs.Seg.H16Seg326
import QrlModel.Proofs.Seg.H16Seg327
import QrlModel.Proofs.Seg.H16Seg328
import QrlModel.Proofs.Seg.H16Seg329
import QrlModel.Proofs.Seg.H16Seg330
import QrlModel.Proofs.Seg.H16Seg331
import QrlModel.Proofs.Seg.H16Seg332
import QrlModel.Proofs.Seg.H16Seg333
import QrlModel.Proofs.Seg.H16Seg334
import QrlModel.Proofs.Seg.H16Seg335
import QrlModel.Proofs.Seg.H16Seg336
import QrlModel.Proofs.Seg.H16Seg337
import QrlModel.Proofs.Seg.H16Seg338
import QrlModel.Proofs.Seg.H16Seg339
import QrlModel.Proofs.Seg.H16Seg340
import QrlModel.Proofs.Seg.H16Seg341
import QrlModel.Proofs.Seg.H16Seg342
import QrlModel.Proofs.Seg.H16Seg343
import QrlModel.Proofs.Seg.H16Seg344
import QrlModel.Proofs.Seg.H16Seg345
import QrlModel.Proofs.Seg.H16Seg346
import QrlModel.Proofs.Seg.H16Seg347
import QrlModel.Proofs.Seg.H16Seg348
import QrlModel.Proofs.Seg.H16Seg349
import QrlModel.Proofs.Seg.H16Seg350
import QrlModel.Proofs.Seg.H16Seg351
import QrlModel.Proofs.Seg.H16Seg352
import QrlModel.Proofs.Seg.H16Seg353
import QrlModel.Proofs.Seg.H16Seg354
import QrlModel.Proofs.Seg.H16Seg355
import QrlModel.Proofs.Seg.H16Seg356
import QrlModel.Proofs.Seg.H16Seg357
import QrlModel.Proofs.Seg.H16Seg358
import QrlModel.Proofs.Seg.H16Seg359
import QrlModel.Proofs.Seg.H16Seg360
import QrlModel.Proofs.Seg.H16Seg361
import QrlModel.Proofs.Seg.H16Seg362
import QrlModel.Proofs.Seg.H16Seg363
import QrlModel.Proofs.Seg.H16Seg364
import QrlModel.Proofs.Seg.H16Seg365
import QrlModel.Proofs.Seg.H16Seg366
import QrlModel.Proofs.Seg.H16Seg367
import QrlModel.Proofs.Seg.H16Seg368
import QrlModel.Proofs.Seg.H16Seg369
import QrlModel.Proofs.Seg.H16Seg370
import QrlModel.Proofs.Seg.H16Seg371
import QrlModel.Proofs.Seg.H16Seg372
import QrlModel.Proofs.Seg.H16Seg373
import QrlModel.Proofs.Seg.H16Seg374
import QrlModel.Proofs.Seg.H16Seg375
import QrlModel.Proofs.Seg.H16Seg376
import QrlModel.Proofs.Seg.H16Seg377
import QrlModel.Proofs.Seg.H16Seg378
import QrlModel.Proofs.Seg.H16Seg379
import QrlModel.Proofs.Seg.H16Seg380
import QrlModel.Proofs.Seg.H16Seg381
import QrlModel.Proofs.Seg.H16Seg382
import QrlModel.Proofs.Seg.H16Seg383
import QrlModel.Proofs.Seg.H16Seg384
import QrlModel.Proofs.Seg.H16Seg385
import QrlModel.Proofs.Seg.H16Seg386
import QrlModel.Proofs.Seg.H16Seg387
import QrlModel.Proofs.Seg.H16Seg388
import QrlModel.Proofs.Seg.H16Seg389
import QrlModel.Proofs.Seg.H16Seg390
import QrlModel.Proofs.Seg.H16Seg391
import QrlModel.Proofs.Seg.H16Seg392
import QrlModel.Proofs.Seg.H16Seg393
import QrlModel.Proofs.Seg.H16Seg394
import QrlModel.Proofs.Seg.H16Seg395
import QrlModel.Proofs.Seg.H16Seg396
import QrlModel.Proofs.Seg.H16Seg397
import QrlModel.Proofs.Seg.H16Seg398
import QrlModel.Proofs.Seg.H16Seg399
import QrlModel.Proofs.Seg.H16Seg400
import QrlModel.Proofs.Seg.H16Seg401
import QrlModel.Proofs.Seg.H16Seg402
import QrlModel.Proofs.Seg.H16Seg403
import QrlModel.Proofs.Seg.H16Seg404
import QrlModel.Proofs.Seg.H16Seg405
import QrlModel.Proofs.Seg.H16Seg406
import QrlModel.Proofs.Seg.H16Seg407
import QrlModel.Proofs.Seg.H16Seg408
import QrlModel.Proofs.Seg.H16Seg409
import QrlModel.Proofs.Seg.H16Seg410
import QrlModel.Proofs.Seg.H16Seg411
import QrlModel.Proofs.Seg.H16Seg412
import QrlModel.Proofs.Seg.H16Seg413
import QrlModel.Proofs.Seg.H16Seg414
import QrlModel.Proofs.Seg.H16Seg415
import QrlModel.Proofs.Seg.H16Seg416
import QrlModel.Proofs.Seg.H16Seg417
import QrlModel.Proofs.Seg.H16Seg418
import QrlModel.Proofs.Seg.H16Seg419
import QrlModel.Proofs.Seg.H16Seg420
import QrlModel.Proofs.Seg.H16Seg421
import QrlModel.Proofs.Seg.H16Seg422
import QrlModel.Proofs.Seg.H16Seg423
import QrlModel.Proofs.Seg.H16Seg424
import QrlModel.Proofs.Seg.H16Seg425
import QrlModel.Proofs.Seg.H16Seg426
import QrlModel.Proofs.Seg.H16Seg427
import QrlModel.Proofs.Seg.H16Seg428
import QrlModel.Proofs.Seg.H16Seg429
import QrlModel.Proofs.Seg.H16Seg430
import QrlModel.Proofs.Seg.H16Seg431
import QrlModel.Proofs.Seg.H16Seg432
import QrlModel.Proofs.Seg.H16Seg433
import QrlModel.Proofs.Seg.H16Seg434
import QrlModel.Proofs.Seg.H16Seg435
import QrlModel.Proofs.Seg.H16Seg436
import QrlModel.Proofs.Seg.H16Seg437
import QrlModel.Proofs.Seg.H16Seg438
import QrlModel.Proofs.Seg.H16Seg439
import QrlModel.Proofs.Seg.H16Seg440
import QrlModel.Proofs.Seg.H16Seg441
import QrlModel.Proofs.Seg.H16Seg442
import QrlModel.Proofs.Seg.H16Seg443
import QrlModel.Proofs.Seg.H16Seg444
import QrlModel.Proofs.Seg.H16Seg445
import QrlModel.Proofs.Seg.H16Seg446
import QrlModel.Proofs.Seg.H16Seg447
import QrlModel.Proofs.Seg.H16Seg448
import QrlModel.Proofs.Seg.H16Seg449
import QrlModel.Proofs.Seg.H16Seg450
import QrlModel.Proofs.Seg.H16Seg451
import QrlModel.Proofs.Seg.H16Seg452
import QrlModel.Proofs.Seg.H16Seg453
import QrlModel.Proofs.Seg.H16Seg454
import QrlModel.Proofs.Seg.H16Seg455
import QrlModel.Proofs.Seg.H16Seg456
import QrlModel.Proofs.Seg.H16Seg457
import QrlModel.Proofs.Seg.H16Seg458
import QrlModel.Proofs.Seg.H16Seg459
import QrlModel.Proofs.Seg.H16Seg460
import QrlModel.Proofs.Seg.H16Seg461
import QrlModel.Proofs.Seg.H16Seg462
import QrlModel.Proofs.Seg.H16Seg463
import QrlModel.Proofs.Seg.H16Seg464
import QrlModel.Proofs.Seg.H16Seg465
import QrlModel.Proofs.Seg.H16Seg466
import QrlModel.Proofs.Seg.H16Seg467
import QrlModel.Proofs.Seg.H16Seg468
import QrlModel.Proofs.Seg.H16Seg469
import QrlModel.Proofs.Seg.H16Seg470
import QrlModel.Proofs.Seg.H16Seg471
import QrlModel.Proofs.Seg.H16Seg472
import QrlModel.Proofs.Seg.H16Seg473
import QrlModel.Proofs.Seg.H16Seg474
import QrlModel.Proofs.Seg.H16Seg475
import QrlModel.Proofs.Seg.H16Seg476
import QrlModel.Proofs.Seg.H16Seg477
import QrlModel.Proofs.Seg.H16Seg478
import QrlModel.Proofs.Seg.H16Seg479
import QrlModel.Proofs.Seg.H16Seg480
import QrlModel.Proofs.Seg.H16Seg481
import QrlModel.Proofs.Seg.H16Seg482
import QrlModel.Proofs.Seg.H16Seg483
import QrlModel.Proofs.Seg.H16Seg484
import QrlModel.Proofs.Seg.H16Seg485
import QrlModel.Proofs.Seg.H16Seg486
import QrlModel.Proofs.Seg.H16Seg487
import QrlModel.Proofs.Seg.H16Seg488
import QrlModel.Proofs.Seg.H16Seg489
import QrlModel.Proofs.Seg.H16Seg490
import QrlModel.Proofs.Seg.H16Seg491
import QrlModel.Proofs.Seg.H16Seg492
import QrlModel.Proofs.Seg.H16Seg493
import QrlModel.Proofs.Seg.H16Seg494
import QrlModel.Proofs.Seg.H16Seg495
import QrlModel.Proofs.Seg.H16Seg496
import QrlModel.Proofs.Seg.H16Seg497
import QrlModel.Proofs.Seg.H16Seg498
import QrlModel.Proofs.Seg.H16Seg499
import QrlModel.Proofs.Seg.H16Seg500
import QrlModel.Proofs.Seg.H16Seg501
import QrlModel.Proofs.Seg.H16Seg502
import QrlModel.Proofs.Seg.H16Seg503
import QrlModel.Proofs.Seg.H16Seg504
import QrlModel.Proofs.Seg.H16Seg505
import QrlModel.Proofs.Seg.H16Seg506
import QrlModel.Proofs.Seg.H16Seg507
import QrlModel.Proofs.Seg.H16Seg508
import QrlModel.Proofs.Seg.H16Seg509
import QrlModel.Proofs.Seg.H16Seg510
import QrlModel.Proofs.Seg.H16Seg511
import QrlModel.Proofs.Seg.H16Seg512
import QrlModel.Proofs.Seg.H16Seg513
import QrlModel.Proofs.Seg.H16Seg514
import QrlModel.Proofs.Seg.H16Seg515
import QrlModel.Proofs.Seg.H16Seg516
import QrlModel.Proofs.Seg.H16Seg517
import QrlModel.Proofs.Seg.H16Seg518
import QrlModel.Proofs.Seg.H16Seg519
import QrlModel.Proofs.Seg.H16Seg520
import QrlModel.Proofs.Seg.H16Seg521
import QrlModel.Proofs.Seg.H16Seg522
import QrlModel.Proofs.Seg.H16Seg523
import QrlModel.Proofs.Seg.H16Seg524
import QrlModel.Proofs.Seg.H16Seg525
import QrlModel.Proofs.Seg.H16Seg526
import QrlModel.Proofs.Seg.H16Seg527
import QrlModel.Proofs.Seg.H16Seg528
import QrlModel.Proofs.Seg.H16Seg529
import QrlModel.Proofs.Seg.H16Seg530
import QrlModel.Proofs.Seg.H16Seg531
import QrlModel.Proofs.Seg.H16Seg532
import QrlModel.Proofs.Seg.H16Seg533
import QrlModel.Proofs.Seg.H16Seg534
import QrlModel.Proofs.Seg.H16Seg535
import QrlModel.Proofs.Seg.H16Seg536
import QrlModel.Proofs.Seg.H16Seg537
import QrlModel.Proofs.Seg.H16Seg538
import QrlModel.Proofs.Seg.H16Seg539
import QrlModel.Proofs.Seg.H16Seg540
import QrlModel.Proofs.Seg.H16Seg541
import QrlModel.Proofs.Seg.H16Seg542
import QrlModel.Proofs.Seg.H16Seg543
import QrlModel.Proofs.Seg.H16Seg544
import QrlModel.Proofs.Seg.H16Seg545
import QrlModel.Proofs.Seg.H16Seg546
import QrlModel.Proofs.Seg.H16Seg547
import QrlModel.Proofs.Seg.H16Seg548
import QrlModel.Proofs.Seg.H16Seg549
import QrlModel.Proofs.Seg.H16Seg550
import QrlModel.Proofs.Seg.H16Seg551
import QrlModel.Proofs.Seg.H16Seg552
import QrlModel.Proofs.Seg.H16Seg553
import QrlModel.Proofs.Seg.H16Seg554
import QrlModel.Proofs.Seg.H16Seg555
import QrlModel.Proofs.Seg.H16Seg556
import QrlModel.Proofs.Seg.H16Seg557
import QrlModel.Proofs.Seg.H16Seg558
import QrlModel.Proofs.Seg.H16Seg559
import QrlModel.Proofs.Seg.H16Seg560
import QrlModel.Proofs.Seg.H16Seg561
import QrlModel.Proofs.Seg.H16Seg562
import QrlModel.Proofs.Seg.H16Seg563
import QrlModel.Proofs.Seg.H16Seg564
import QrlModel.Proofs.Seg.H16Seg565
import QrlModel.Proofs.Seg.H16Seg566
import QrlModel.Proofs.Seg.H16Seg567
import QrlModel.Proofs.Seg.H16Seg568
import QrlModel.Proofs.Seg.H16Seg569
import QrlModel.Proofs.Seg.H16Seg570
import QrlModel.Proofs.Seg.H16Seg571
import QrlModel.Proofs.Seg.H16Seg572
import QrlModel.Proofs.Seg.H16Seg573
import QrlModel.Proofs.Seg.H16Seg574
import QrlModel.Proofs.Seg.H16Seg575
import QrlModel.Proofs.Seg.H16Seg576
import QrlModel.Proofs.Seg.H16Seg577
import QrlModel.Proofs.Seg.H16Seg578
import QrlModel.Proofs.Seg.H16Seg579
import QrlModel.Proofs.Seg.H16Seg580
import QrlModel.Proofs.Seg.H16Seg581
import QrlModel.Proofs.Seg.H16Seg582
import QrlModel.Proofs.Seg.H16Seg583
import QrlModel.Proofs.Seg.H16Seg584
import QrlModel.Proofs.Seg.H16Seg585
import QrlModel.Proofs.Seg.H16Seg586
import QrlModel.Proofs.Seg.H16Seg587
import QrlModel.Proofs.Seg.H16Seg588
import QrlModel.Proofs.Seg.H16Seg589
import QrlModel.Proofs.Seg.H16Seg590
import QrlModel.Proofs.Seg.H16Seg591
import QrlModel.Proofs.Seg.H16Seg592
import QrlModel.Proofs.Seg.H16Seg593
import QrlModel.Proofs.Seg.H16Seg594
import QrlModel.Proofs.Seg.H16Seg595
import QrlModel.Proofs.Seg.H16Seg596
import QrlModel.Proofs.Seg.H16Seg597
import QrlModel.Proofs.Seg.H16Seg598
import QrlModel.Proofs.Seg.H16Seg599
import QrlModel.Proofs.Seg.H16Seg600
import QrlModel.Proofs.Seg.H16Seg601
import QrlModel.Proofs.Seg.H16Seg602
import QrlModel.Proofs.Seg.H16Seg603
import QrlModel.Proofs.Seg.H16Seg604
import QrlModel.Proofs.Seg.H16Seg605
import QrlModel.Proofs.Seg.H16Seg606
import QrlModel.Proofs.Seg.H16Seg607
import QrlModel.Proofs.Seg.H16Seg608
import QrlModel.Proofs.Seg.H16Seg609
import QrlModel.Proofs.Seg.H16Seg610
import QrlModel.Proofs.Seg.H16Seg611
import QrlModel.Proofs.Seg.H16Seg612
import QrlModel.Proofs.Seg.H16Seg613
import QrlModel.Proofs.Seg.H16Seg614
import QrlModel.Proofs.Seg.H16Seg615
import QrlModel.Proofs.Seg.H16Seg616
import QrlModel.Proofs.Seg.H16Seg617
import QrlModel.Proofs.Seg.H16Seg618
import QrlModel.Proofs.Seg.H16Seg619
import QrlModel.Proofs.Seg.H16Seg620
import QrlModel.Proofs.Seg.H16Seg621
import QrlModel.Proofs.Seg.H16Seg622
import QrlModel.Proofs.Seg.H16Seg623
import QrlModel.Proofs.Seg.H16Seg624
import QrlModel.Proofs.Seg.H16Seg625
import QrlModel.Proofs.Seg.H16Seg626
import QrlModel.Proofs.Seg.H16Seg627
import QrlModel.Proofs.Seg.H16Seg628
import QrlModel.Proofs.Seg.H16Seg629
import QrlModel.Proofs.Seg.H16Seg630
import QrlModel.Proofs.Seg.H16Seg631
import QrlModel.Proofs.Seg.H16Seg632
import QrlModel.Proofs.Seg.H16Seg633
import QrlModel.Proofs.Seg.H16Seg634
import QrlModel.Proofs.Seg.H16Seg635
import QrlModel.Proofs.Seg.H16Seg636
import QrlModel.Proofs.Seg.H16Seg637
import QrlModel.Proofs.Seg.H16Seg638
import QrlModel.Proofs.Seg.H16Seg639
import QrlModel.Proofs.Seg.H16Seg640
import QrlModel.Proofs.Seg.H16Seg641
import QrlModel.Proofs.Seg.H16Seg642
import QrlModel.Proofs.Seg.H16Seg643
import QrlModel.Proofs.Seg.H16Seg644
import QrlModel.Proofs.Seg.H16Seg645
import QrlModel.Proofs.Seg.H16Seg646
import QrlModel.Proofs.Seg.H16Seg647
import QrlModel.Proofs.Seg.H16Seg648
import QrlModel.Proofs.Seg.H16Seg649
import QrlModel.Proofs.Seg.H16Seg650
import QrlModel.Proofs.Seg.H16Seg651
import QrlModel.Proofs.Seg.H16Seg652
import QrlModel.Proofs.Seg.H16Seg653
import QrlModel.Proofs.Seg.H16Seg654
import QrlModel.Proofs.Seg.H16Seg655
import QrlModel.Proofs.Seg.H16Seg656
import QrlModel.Proofs.Seg.H16Seg657
import QrlModel.Proofs.Seg.H16Seg658
import QrlModel.Proofs.Seg.H16Seg659
import QrlModel.Proofs.Seg.H16Seg660
import QrlModel.Proofs.Seg.H16Seg661
import QrlModel.Proofs.Seg.H16Seg662
import QrlModel.Proofs.Seg.H16Seg663
import QrlModel.Proofs.Seg.H16Seg664
import QrlModel.Proofs.Seg.H16Seg665
import QrlModel.Proofs.Seg.H16Seg666
import QrlModel.Proofs.Seg.H16Seg667
import QrlModel.Proofs.Seg.H16Seg668
import QrlModel.Proofs.Seg.H16Seg669
import QrlModel.Proofs.Seg.H16Seg670
import QrlModel.Proofs.Seg.H16Seg671
import QrlModel.Proofs.Seg.H16Seg672
import QrlModel.Proofs.Seg.H16Seg673
import QrlModel.Proofs.Seg.H16Seg674
import QrlModel.Proofs.Seg.H16Seg675
import QrlModel.Proofs.Seg.H16Seg676
import QrlModel.Proofs.Seg.H16Seg677
import QrlModel.Proofs.Seg.H16Seg678
import QrlModel.Proofs.Seg.H16Seg679
import QrlModel.Proofs.Seg.H16Seg680
import QrlModel.Proofs.Seg.H16Seg681
import QrlModel.Proofs.Seg.H16Seg682
import QrlModel.Proofs.Seg.H16Seg683
import QrlModel.Proofs.Seg.H16Seg684
import QrlModel.Proofs.Seg.H16Seg685
import QrlModel.Proofs.Seg.H16Seg686
import QrlModel.Proofs.Seg.H16Seg687
import QrlModel.Proofs.Seg.H16Seg688
import QrlModel.Proofs.Seg.H16Seg689
import QrlModel.Proofs.Seg.H16Seg690
import QrlModel.Proofs.Seg.H16Seg691
import QrlModel.Proofs.Seg.H16Seg692
import QrlModel.Proofs.Seg.H16Seg693
import QrlModel.Proofs.Seg.H16Seg694
import QrlModel.Proofs.Seg.H16Seg695
import QrlModel.Proofs.Seg.H16Seg696
import QrlModel.Proofs.Seg.H16Seg697
import QrlModel.Proofs.Seg.H16Seg698
import QrlModel.Proofs.Seg.H16Seg699
import QrlModel.Proofs.Seg.H16Seg700
import QrlModel.Proofs.Seg.H16Seg701
import QrlModel.Proofs.Seg.H16Seg702
import QrlModel.Proofs.Seg.H16Seg703
import QrlModel.Proofs.Seg.H16Seg704
import QrlModel.Proofs.Seg.H16Seg705
import QrlModel.Proofs.Seg.H16Seg706
import QrlModel.Proofs.Seg.H16Seg707
import QrlModel.Proofs.Seg.H16Seg708
import QrlModel.Proofs.Seg.H16Seg709
import QrlModel.Proofs.Seg.H16Seg710
import QrlModel.Proofs.Seg.H16Seg711
import QrlModel.Proofs.Seg.H16Seg712
import QrlModel.Proofs.Seg.H16Seg713
import QrlModel.Proofs.Seg.H16Seg714
import QrlModel.Proofs.Seg.H16Seg715
import QrlModel.Proofs.Seg.H16Seg716
import QrlModel.Proofs.Seg.H16Seg717
import QrlModel.Proofs.Seg.H16Seg718
import QrlModel.Proofs.Seg.H16Seg719
import QrlModel.Proofs.Seg.H16Seg720
import QrlModel.Proofs.Seg.H16Seg721
import QrlModel.Proofs.Seg.H16Seg722
import QrlModel.Proofs.Seg.H16Seg723
import QrlModel.Proofs.Seg.H16Seg724
import QrlModel.Proofs.Seg.H16Seg725
import QrlModel.Proofs.Seg.H16Seg726
import QrlModel.Proofs.Seg.H16Seg727
import QrlModel.Proofs.Seg.H16Seg728
import QrlModel.Proofs.Seg.H16Seg729
import QrlModel.Proofs.Seg.H16Seg730
import QrlModel.Proofs.Seg.H16Seg731
import QrlModel.Proofs.Seg.H16Seg732
import QrlModel.Proofs.Seg.H16Seg733
import QrlModel.Proofs.Seg.H16Seg734
import QrlModel.Proofs.Seg.H16Seg735
import QrlModel.Proofs.Seg.H16Seg736
import QrlModel.Proofs.Seg.H16Seg737
import QrlModel.Proofs.Seg.H16Seg738
import QrlModel.Proofs.Seg.H16Seg739
import QrlModel.Proofs.Seg.H16Seg740
import QrlModel.Proofs.Seg.H16Seg741
import QrlModel.Proofs.Seg.H16Seg742
import QrlModel.Proofs.Seg.H16Seg743
import QrlModel.Proofs.Seg.H16Seg744
import QrlModel.Proofs.Seg.H16Seg745
import QrlModel.Proofs.Seg.H16Seg746
import QrlModel.Proofs.Seg.H16Seg747
import QrlModel.Proofs.Seg.H16Seg748
import QrlModel.Proofs.Seg.H16Seg749
import QrlModel.Proofs.Seg.H16Seg750
import QrlModel.Proofs.Seg.H16Seg751
import QrlModel.Proofs.Seg.H16Seg752
import QrlModel.Proofs.Seg.H16Seg753
import QrlModel.Proofs.Seg.H16Seg754
import QrlModel.Proofs.Seg.H16Seg755
import QrlModel.Proofs.Seg.H16Seg756
import QrlModel.Proofs.Seg.H16Seg757
import QrlModel.Proofs.Seg.H16Seg758
import QrlModel.Proofs.Seg.H16Seg759
import QrlModel.Proofs.Seg.H16Seg760
import QrlModel.Proofs.Seg.H16Seg761
import QrlModel.Proofs.Seg.H16Seg762
import QrlModel.Proofs.Seg.H16Seg763
import QrlModel.Proofs.Seg.H16Seg764
import QrlModel.Proofs.Seg.H16Seg765
import QrlModel.Proofs.Seg.H16Seg766
import QrlModel.Proofs.Seg.H16Seg767
import QrlModel.Proofs.Seg.H16Seg768
import QrlModel.Proofs.Seg.H16Seg769
import QrlModel.Proofs.Seg.H16Seg770
import QrlModel.Proofs.Seg.H16Seg771
import QrlModel.Proofs.Seg.H16Setup
-- GENERATED by tools/mk_segcert.py 16 85 771 (committed; every equation below is re-checked by the kernel)
namespace Qrl.BdsLabel.Seg16
open Qrl.Bds
theorem run1 : runSeg 16 85 0 S0 = (S1, true) := seg0
theorem run2 : runSeg 16 170 0 S0 = (S2, true) := runSeg_comp 16 85 85 0 S0 S1 S2 run1 seg1
theorem run3 : runSeg 16 255 0 S0 = (S3, true) := runSeg_comp 16 170 85 0 S0 S2 S3 run2 seg2
theorem run4 : runSeg 16 340 0 S0 = (S4, true) := runSeg_comp 16 255 85 0 S0 S3 S4 run3 seg3
theorem run5 : runSeg 16 425 0 S0 = (S5, true) := runSeg_comp 16 340 85 0 S0 S4 S5 run4 seg4
theorem run6 : runSeg 16 510 0 S0 = (S6, true) := runSeg_comp 16 425 85 0 S0 S5 S6 run5 seg5
theorem run7 : runSeg 16 595 0 S0 = (S7, true) := runSeg_comp 16 510 85 0 S0 S6 S7 run6 seg6
theorem run8 : runSeg 16 680 0 S0 = (S8, true) := runSeg_comp 16 595 85 0 S0 S7 S8 run7 seg7
theorem run9 : runSeg 16 765 0 S0 = (S9, true) := runSeg_comp 16 680 85 0 S0 S8 S9 run8 seg8
theorem run10 : runSeg 16 850 0 S0 = (S10, true) := runSeg_comp 16 765 85 0 S0 S9 S10 run9 seg9
theorem run11 : runSeg 16 935 0 S0 = (S11, true) := runSeg_comp 16 850 85 0 S0 S10 S11 run10 seg10
theorem run12 : runSeg 16 1020 0 S0 = (S12, true) := runSeg_comp 16 935 85 0 S0 S11 S12 run11 seg11
theorem run13 : runSeg 16 1105 0 S0 = (S13, true) := runSeg_comp 16 1020 85 0 S0 S12 S13 run12 seg12
theorem run14 : runSeg 16 1190 0 S0 = (S14, true) := runSeg_comp 16 1105 85 0 S0 S13 S14 run13 seg13
theorem run15 : runSeg 16 1275 0 S0 = (S15, true) := runSeg_comp 16 1190 85 0 S0 S14 S15 run14 seg14
theorem run16 : runSeg 16 1360 0 S0 = (S16, true) := runSeg_comp 16 1275 85 0 S0 S15 S16 run15 seg15
theorem run17 : runSeg 16 1445 0 S0 = (S17, true) := runSeg_comp 16 1360 85 0 S0 S16 S17 run16 seg16
theorem run18 : runSeg 16 1530 0 S0 = (S18, true) := runSeg_comp 16 1445 85 0 S0 S17 S18 run17 seg17
theorem run19 : runSeg 16 1615 0 S0 = (S19, true) := runSeg_comp 16 1530 85 0 S0 S18 S19 run18 seg18
theorem run20 : runSeg 16 1700 0 S0 = (S20, true) := runSeg_comp 16 1615 85 0 S0 S19 S20 run19 seg19
theorem run21 : runSeg 16 1785 0 S0 = (S21, true) := runSeg_comp 16 1700 85 0 S0 S20 S21 run20 seg20
theorem run22 : runSeg 16 1870 0 S0 = (S22, true) := runSeg_comp 16 1785 85 0 S0 S21 S22 run21 seg21
theorem run23 : runSeg 16 1955 0 S0 = (S23, true) := runSeg_comp 16 1870 85 0 S0 S22 S23 run22 seg22
theorem run24 : runSeg 16 2040 0 S0 = (S24, true) := runSeg_comp 16 1955 85 0 S0 S23 S24 run23 seg23
theorem run25 : runSeg 16 2125 0 S0 = (S25, true) := runSeg_comp 16 2040 85 0 S0 S24 S25 run24 seg24
theorem run26 : runSeg 16 2210 0 S0 = (S26, true) := runSeg_comp 16 2125 85 0 S0 S25 S26 run25 seg25
theorem run27 : runSeg 16 2295 0 S0 = (S27, true) := runSeg_comp 16 2210 85 0 S0 S26 S27 run26 seg26
theorem run28 : runSeg 16 2380 0 S0 = (S28, true) := runSeg_comp 16 2295 85 0 S0 S27 S28 run27 seg27
theorem run29 : runSeg 16 2465 0 S0 = (S29, true) := runSeg_comp 16 2380 85 0 S0 S28 S29 run28 seg28
theorem run30 : runSeg 16 2550 0 S0 = (S30, true) := runSeg_comp 16 2465 85 0 S0 S29 S30 run29 seg29
theorem run31 : runSeg 16 2635 0 S0 = (S31, true) := runSeg_comp 16 2550 85 0 S0 S30 S31 run30 seg30
theorem run32 : runSeg 16 2720 0 S0 = (S32, true) := runSeg_comp 16 2635 85 0 S0 S31 S32 run31 seg31
theorem run33 : runSeg 16 2805 0 S0 = (S33, true) := runSeg_comp 16 2720 85 0 S0 S32 S33 run32 seg32
theorem run34 : runSeg 16 2890 0 S0 = (S34, true) := runSeg_comp 16 2805 85 0 S0 S33 S34 run33 seg33
theorem run35 : runSeg 16 2975 0 S0 = (S35, true) := runSeg_comp 16 2890 85 0 S0 S34 S35 run34 seg34
theorem run36 : runSeg 16 3060 0 S0 = (S36, true) := runSeg_comp 16 2975 85 0 S0 S35 S36 run35 seg35
theorem run37 : runSeg 16 3145 0 S0 = (S37, true) := runSeg_comp 16 3060 85 0 S0 S36 S37 run36 seg36
theorem run38 : runSeg 16 3230 0 S0 = (S38, true) := runSeg_comp 16 3145 85 0 S0 S37 S38 run37 seg37
theorem run39 : runSeg 16 3315 0 S0 = (S39, true) := runSeg_comp 16 3230 85 0 S0 S38 S39 run38 seg38
theorem run40 : runSeg 16 3400 0 S0 = (S40, true) := runSeg_comp 16 3315 85 0 S0 S39 S40 run39 seg39
theorem run41 : runSeg 16 3485 0 S0 = (S41, true) := runSeg_comp 16 3400 85 0 S0 S40 S41 run40 seg40
theorem run42 : runSeg 16 3570 0 S0 = (S42, true) := runSeg_comp 16 3485 85 0 S0 S41 S42 run41 seg41
theorem run43 : runSeg 16 3655 0 S0 = (S43, true) := runSeg_comp 16 3570 85 0 S0 S42 S43 run42 seg42
theorem run44 : runSeg 16 3740 0 S0 = (S44, true) := runSeg_comp 16 3655 85 0 S0 S43 S44 run43 seg43
theorem run45 : runSeg 16 3825 0 S0 = (S45, true) := runSeg_comp 16 3740 85 0 S0 S44 S45 run44 seg44
theorem run46 : runSeg 16 3910 0 S0 = (S46, true) := runSeg_comp 16 3825 85 0 S0 S45 S46 run45 seg45
theorem run47 : runSeg 16 3995 0 S0 = (S47, true) := runSeg_comp 16 3910 85 0 S0 S46 S47 run46 seg46
theorem run48 : runSeg 16 4080 0 S0 = (S48, true) := runSeg_comp 16 3995 85 0 S0 S47 S48 run47 seg47
theorem run49 : runSeg 16 4165 0 S0 = (S49, true) := runSeg_comp 16 4080 85 0 S0 S48 S49 run48 seg48
theorem run50 : runSeg 16 4250 0 S0 = (S50, true) := runSeg_comp 16 4165 85 0 S0 S49 S50 run49 seg49
theorem run51 : runSeg 16 4335 0 S0 = (S51, true) := runSeg_comp 16 4250 85 0 S0 S50 S51 run50 seg50
theorem run52 : runSeg 16 4420 0 S0 = (S52, true) := runSeg_comp 16 4335 85 0 S0 S51 S52 run51 seg51
theorem run53 : runSeg 16 4505 0 S0 = (S53, true) := runSeg_comp 16 4420 85 0 S0 S52 S53 run52 seg52
theorem run54 : runSeg 16 4590 0 S0 = (S54, true) := runSeg_comp 16 4505 85 0 S0 S53 S54 run53 seg53
theorem run55 : runSeg 16 4675 0 S0 = (S55, true) := runSeg_comp 16 4590 85 0 S0 S54 S55 run54 seg54
theorem run56 : runSeg 16 4760 0 S0 = (S56, true) := runSeg_comp 16 4675 85 0 S0 S55 S56 run55 seg55
theorem run57 : runSeg 16 4845 0 S0 = (S57, true) := runSeg_comp 16 4760 85 0 S0 S56 S57 run56 seg56
theorem run58 : runSeg 16 4930 0 S0 = (S58, true) := runSeg_comp 16 4845 85 0 S0 S57 S58 run57 seg57
theorem run59 : runSeg 16 5015 0 S0 = (S59, true) := runSeg_comp 16 4930 85 0 S0 S58 S59 run58 seg58
theorem run60 : runSeg 16 5100 0 S0 = (S60, true) := runSeg_comp 16 5015 85 0 S0 S59 S60 run59 seg59
theorem run61 : runSeg 16 5185 0 S0 = (S61, true) := runSeg_comp 16 5100 85 0 S0 S60 S61 run60 seg60
theorem run62 : runSeg 16 5270 0 S0 = (S62, true) := runSeg_comp 16 5185 85 0 S0 S61 S62 run61 seg61
theorem run63 : runSeg 16 5355 0 S0 = (S63, true) := runSeg_comp 16 5270 85 0 S0 S62 S63 run62 seg62
theorem run64 : runSeg 16 5440 0 S0 = (S64, true) := runSeg_comp 16 5355 85 0 S0 S63 S64 run63 seg63
theorem run65 : runSeg 16 5525 0 S0 = (S65, true) := runSeg_comp 16 5440 85 0 S0 S64 S65 run64 seg64
theorem run66 : runSeg 16 5610 0 S0 = (S66, true) := runSeg_comp 16 5525 85 0 S0 S65 S66 run65 seg65
theorem run67 : runSeg 16 5695 0 S0 = (S67, true) := runSeg_comp 16 5610 85 0 S0 S66 S67 run66 seg66
theorem run68 : runSeg 16 5780 0 S0 = (S68, true) := runSeg_comp 16 5695 85 0 S0 S67 S68 run67 seg67
theorem run69 : runSeg 16 5865 0 S0 = (S69, true) := runSeg_comp 16 5780 85 0 S0 S68 S69 run68 seg68
theorem run70 : runSeg 16 5950 0 S0 = (S70, true) := runSeg_comp 16 5865 85 0 S0 S69 S70 run69 seg69
theorem run71 : runSeg 16 6035 0 S0 = (S71, true) := runSeg_comp 16 5950 85 0 S0 S70 S71 run70 seg70
theorem run72 : runSeg 16 6120 0 S0 = (S72, true) := runSeg_comp 16 6035 85 0 S0 S71 S72 run71 seg71
theorem run73 : runSeg 16 6205 0 S0 = (S73, true) := runSeg_comp 16 6120 85 0 S0 S72 S73 run72 seg72
theorem run74 : runSeg 16 6290 0 S0 = (S74, true) := runSeg_comp 16 6205 85 0 S0 S73 S74 run73 seg73
theorem run75 : runSeg 16 6375 0 S0 = (S75, true) := runSeg_comp 16 6290 85 0 S0 S74 S75 run74 seg74
theorem run76 : runSeg 16 6460 0 S0 = (S76, true) := runSeg_comp 16 6375 85 0 S0 S75 S76 run75 seg75
theorem run77 : runSeg 16 6545 0 S0 = (S77, true) := runSeg_comp 16 6460 85 0 S0 S76 S77 run76 seg76
theorem run78 : runSeg 16 6630 0 S0 = (S78, true) := runSeg_comp 16 6545 85 0 S0 S77 S78 run77 seg77
theorem run79 : runSeg 16 6715 0 S0 = (S79, true) := runSeg_comp 16 6630 85 0 S0 S78 S79 run78 seg78
theorem run80 : runSeg 16 6800 0 S0 = (S80, true) := runSeg_comp 16 6715 85 0 S0 S79 S80 run79 seg79
theorem run81 : runSeg 16 6885 0 S0 = (S81, true) := runSeg_comp 16 6800 85 0 S0 S80 S81 run80 seg80
theorem run82 : runSeg 16 6970 0 S0 = (S82, true) := runSeg_comp 16 6885 85 0 S0 S81 S82 run81 seg81
theorem run83 : runSeg 16 7055 0 S0 = (S83, true) := runSeg_comp 16 6970 85 0 S0 S82 S83 run82 seg82
theorem run84 : runSeg 16 7140 0 S0 = (S84, true) := runSeg_comp 16 7055 85 0 S0 S83 S84 run83 seg83
theorem run85 : runSeg 16 7225 0 S0 = (S85, true) := runSeg_comp 16 7140 85 0 S0 S84 S85 run84 seg84
theorem run86 : runSeg 16 7310 0 S0 = (S86, true) := runSeg_comp 16 7225 85 0 S0 S85 S86 run85 seg85
theorem run87 : runSeg 16 7395 0 S0 = (S87, true) := runSeg_comp 16 7310 85 0 S0 S86 S87 run86 seg86
theorem run88 : runSeg 16 7480 0 S0 = (S88, true) := runSeg_comp 16 7395 85 0 S0 S87 S88 run87 seg87
theorem run89 : runSeg 16 7565 0 S0 = (S89, true) := runSeg_comp 16 7480 85 0 S0 S88 S89 run88 seg88
theorem run90 : runSeg 16 7650 0 S0 = (S90, true) := runSeg_comp 16 7565 85 0 S0 S89 S90 run89 seg89
theorem run91 : runSeg 16 7735 0 S0 = (S91, true) := runSeg_comp 16 7650 85 0 S0 S90 S91 run90 seg90
theorem run92 : runSeg 16 7820 0 S0 = (S92, true) := runSeg_comp 16 7735 85 0 S0 S91 S92 run91 seg91
theorem run93 : runSeg 16 7905 0 S0 = (S93, true) := runSeg_comp 16 7820 85 0 S0 S92 S93 run92 seg92
theorem run94 : runSeg 16 7990 0 S0 = (S94, true) := runSeg_comp 16 7905 85 0 S0 S93 S94 run93 seg93
theorem run95 : runSeg 16 8075 0 S0 = (S95, true) := runSeg_comp 16 7990 85 0 S0 S94 S95 run94 seg94
theorem run96 : runSeg 16 8160 0 S0 = (S96, true) := runSeg_comp 16 8075 85 0 S0 S95 S96 run95 seg95
theorem run97 : runSeg 16 8245 0 S0 = (S97, true) := runSeg_comp 16 8160 85 0 S0 S96 S97 run96 seg96
theorem run98 : runSeg 16 8330 0 S0 = (S98, true) := runSeg_comp 16 8245 85 0 S0 S97 S98 run97 seg97
theorem run99 : runSeg 16 8415 0 S0 = (S99, true) := runSeg_comp 16 8330 85 0 S0 S98 S99 run98 seg98
theorem run100 : runSeg 16 8500 0 S0 = (S100, true) := runSeg_comp 16 8415 85 0 S0 S99 S100 run99 seg99
theorem run101 : runSeg 16 8585 0 S0 = (S101, true) := runSeg_comp 16 8500 85 0 S0 S100 S101 run100 seg100
theorem run102 : runSeg 16 8670 0 S0 = (S102, true) := runSeg_comp 16 8585 85 0 S0 S101 S102 run101 seg101
theorem run103 : runSeg 16 8755 0 S0 = (S103, true) := runSeg_comp 16 8670 85 0 S0 S102 S103 run102 seg102
theorem run104 : runSeg 16 8840 0 S0 = (S104, true) := runSeg_comp 16 8755 85 0 S0 S103 S104 run103 seg103
theorem run105 : runSeg 16 8925 0 S0 = (S105, true) := runSeg_comp 16 8840 85 0 S0 S104 S105 run104 seg104
theorem run106 : runSeg 16 9010 0 S0 = (S106, true) := runSeg_comp 16 8925 85 0 S0 S105 S106 run105 seg105
theorem run107 : runSeg 16 9095 0 S0 = (S107, true) := runSeg_comp 16 9010 85 0 S0 S106 S107 run106 seg106
theorem run108 : runSeg 16 9180 0 S0 = (S108, true) := runSeg_comp 16 9095 85 0 S0 S107 S108 run107 seg107
theorem run109 : runSeg 16 9265 0 S0 = (S109, true) := runSeg_comp 16 9180 85 0 S0 S108 S109 run108 seg108
theorem run110 : runSeg 16 9350 0 S0 = (S110, true) := runSeg_comp 16 9265 85 0 S0 S109 S110 run109 seg109
theorem run111 : runSeg 16 9435 0 S0 = (S111, true) := runSeg_comp 16 9350 85 0 S0 S110 S111 run110 seg110
theorem run112 : runSeg 16 9520 0 S0 = (S112, true) := runSeg_comp 16 9435 85 0 S0 S111 S112 run111 seg111
theorem run113 : runSeg 16 9605 0 S0 = (S113, true) := runSeg_comp 16 9520 85 0 S0 S112 S113 run112 seg112
theorem run114 : runSeg 16 9690 0 S0 = (S114, true) := runSeg_comp 16 9605 85 0 S0 S113 S114 run113 seg113
theorem run115 : runSeg 16 9775 0 S0 = (S115, true) := runSeg_comp 16 9690 85 0 S0 S114 S115 run114 seg114
theorem run116 : runSeg 16 9860 0 S0 = (S116, true) := runSeg_comp 16 9775 85 0 S0 S115 S116 run115 seg115
theorem run117 : runSeg 16 9945 0 S0 = (S117, true) := runSeg_comp 16 9860 85 0 S0 S116 S117 run116 seg116
theorem run118 : runSeg 16 10030 0 S0 = (S118, true) := runSeg_comp 16 9945 85 0 S0 S117 S118 run117 seg117
theorem run119 : runSeg 16 10115 0 S0 = (S119, true) := runSeg_comp 16 10030 85 0 S0 S118 S119 run118 seg118
theorem run120 : runSeg 16 10200 0 S0 = (S120, true) := runSeg_comp 16 10115 85 0 S0 S119 S120 run119 seg119
theorem run121 : runSeg 16 10285 0 S0 = (S121, true) := runSeg_comp 16 10200 85 0 S0 S120 S121 run120 seg120
theorem run122 : runSeg 16 10370 0 S0 = (S122, true) := runSeg_comp 16 10285 85 0 S0 S121 S122 run121 seg121
theorem run123 : runSeg 16 10455 0 S0 = (S123, true) := runSeg_comp 16 10370 85 0 S0 S122 S123 run122 seg122
theorem run124 : runSeg 16 10540 0 S0 = (S124, true) := runSeg_comp 16 10455 85 0 S0 S123 S124 run123 seg123
theorem run125 : runSeg 16 10625 0 S0 = (S125, true) := runSeg_comp 16 10540 85 0 S0 S124 S125 run124 seg124
theorem run126 : runSeg 16 10710 0 S0 = (S126, true) := runSeg_comp 16 10625 85 0 S0 S125 S126 run125 seg125
theorem run127 : runSeg 16 10795 0 S0 = (S127, true) := runSeg_comp 16 10710 85 0 S0 S126 S127 run126 seg126
theorem run128 : runSeg 16 10880 0 S0 = (S128, true) := runSeg_comp 16 10795 85 0 S0 S127 S128 run127 seg127
theorem run129 : runSeg 16 10965 0 S0 = (S129, true) := runSeg_comp 16 10880 85 0 S0 S128 S129 run128 seg128
theorem run130 : runSeg 16 11050 0 S0 = (S130, true) := runSeg_comp 16 10965 85 0 S0 S129 S130 run129 seg129
theorem run131 : runSeg 16 11135 0 S0 = (S131, true) := runSeg_comp 16 11050 85 0 S0 S130 S131 run130 seg130
theorem run132 : runSeg 16 11220 0 S0 = (S132, true) := runSeg_comp 16 11135 85 0 S0 S131 S132 run131 seg131
theorem run133 : runSeg 16 11305 0 S0 = (S133, true) := runSeg_comp 16 11220 85 0 S0 S132 S133 run132 seg132
theorem run134 : runSeg 16 11390 0 S0 = (S134, true) := runSeg_comp 16 11305 85 0 S0 S133 S134 run133 seg133
theorem run135 : runSeg 16 11475 0 S0 = (S135, true) := runSeg_comp 16 11390 85 0 S0 S134 S135 run134 seg134
theorem run136 : runSeg 16 11560 0 S0 = (S136, true) := runSeg_comp 16 11475 85 0 S0 S135 S136 run135 seg135
theorem run137 : runSeg 16 11645 0 S0 = (S137, true) := runSeg_comp 16 11560 85 0 S0 S136 S137 run136 seg136
theorem run138 : runSeg 16 11730 0 S0 = (S138, true) := runSeg_comp 16 11645 85 0 S0 S137 S138 run137 seg137
theorem run139 : runSeg 16 11815 0 S0 = (S139, true) := runSeg_comp 16 11730 85 0 S0 S138 S139 run138 seg138
theorem run140 : runSeg 16 11900 0 S0 = (S140, true) := runSeg_comp 16 11815 85 0 S0 S139 S140 run139 seg139
theorem run141 : runSeg 16 11985 0 S0 = (S141, true) := runSeg_comp 16 11900 85 0 S0 S140 S141 run140 seg140
theorem run142 : runSeg 16 12070 0 S0 = (S142, true) := runSeg_comp 16 11985 85 0 S0 S141 S142 run141 seg141
theorem run143 : runSeg 16 12155 0 S0 = (S143, true) := runSeg_comp 16 12070 85 0 S0 S142 S143 run142 seg142
theorem run144 : runSeg 16 12240 0 S0 = (S144, true) := runSeg_comp 16 12155 85 0 S0 S143 S144 run143 seg143
theorem run145 : runSeg 16 12325 0 S0 = (S145, true) := runSeg_comp 16 12240 85 0 S0 S144 S145 run144 seg144
theorem run146 : runSeg 16 12410 0 S0 = (S146, true) := runSeg_comp 16 12325 85 0 S0 S145 S146 run145 seg145
theorem run147 : runSeg 16 12495 0 S0 = (S147, true) := runSeg_comp 16 12410 85 0 S0 S146 S147 run146 seg146
theorem run148 : runSeg 16 12580 0 S0 = (S148, true) := runSeg_comp 16 12495 85 0 S0 S147 S148 run147 seg147
theorem run149 : runSeg 16 12665 0 S0 = (S149, true) := runSeg_comp 16 12580 85 0 S0 S148 S149 run148 seg148
theorem run150 : runSeg 16 12750 0 S0 = (S150, true) := runSeg_comp 16 12665 85 0 S0 S149 S150 run149 seg149
theorem run151 : runSeg 16 12835 0 S0 = (S151, true) := runSeg_comp 16 12750 85 0 S0 S150 S151 run150 seg150
theorem run152 : runSeg 16 12920 0 S0 = (S152, true) := runSeg_comp 16 12835 85 0 S0 S151 S152 run151 seg151
theorem run153 : runSeg 16 13005 0 S0 = (S153, true) := runSeg_comp 16 12920 85 0 S0 S152 S153 run152 seg152
theorem run154 : runSeg 16 13090 0 S0 = (S154, true) := runSeg_comp 16 13005 85 0 S0 S153 S154 run153 seg153
theorem run155 : runSeg 16 13175 0 S0 = (S155, true) := runSeg_comp 16 13090 85 0 S0 S154 S155 run154 seg154
theorem run156 : runSeg 16 13260 0 S0 = (S156, true) := runSeg_comp 16 13175 85 0 S0 S155 S156 run155 seg155
theorem run157 : runSeg 16 13345 0 S0 = (S157, true) := runSeg_comp 16 13260 85 0 S0 S156 S157 run156 seg156
theorem run158 : runSeg 16 13430 0 S0 = (S158, true) := runSeg_comp 16 13345 85 0 S0 S157 S158 run157 seg157
theorem run159 : runSeg 16 13515 0 S0 = (S159, true) := runSeg_comp 16 13430 85 0 S0 S158 S159 run158 seg158
theorem run160 : runSeg 16 13600 0 S0 = (S160, true) := runSeg_comp 16 13515 85 0 S0 S159 S160 run159 seg159
theorem run161 : runSeg 16 13685 0 S0 = (S161, true) := runSeg_comp 16 13600 85 0 S0 S160 S161 run160 seg160
theorem run162 : runSeg 16 13770 0 S0 = (S162, true) := runSeg_comp 16 13685 85 0 S0 S161 S162 run161 seg161
theorem run163 : runSeg 16 13855 0 S0 = (S163, true) := runSeg_comp 16 13770 85 0 S0 S162 S163 run162 seg162
theorem run164 : runSeg 16 13940 0 S0 = (S164, true) := runSeg_comp 16 13855 85 0 S0 S163 S164 run163 seg163
theorem run165 : runSeg 16 14025 0 S0 = (S165, true) := runSeg_comp 16 13940 85 0 S0 S164 S165 run164 seg164
theorem run166 : runSeg 16 14110 0 S0 = (S166, true) := runSeg_comp 16 14025 85 0 S0 S165 S166 run165 seg165
theorem run167 : runSeg 16 14195 0 S0 = (S167, true) := runSeg_comp 16 14110 85 0 S0 S166 S167 run166 seg166
theorem run168 : runSeg 16 14280 0 S0 = (S168, true) := runSeg_comp 16 14195 85 0 S0 S167 S168 run167 seg167
theorem run169 : runSeg 16 14365 0 S0 = (S169, true) := runSeg_comp 16 14280 85 0 S0 S168 S169 run168 seg168
theorem run170 : runSeg 16 14450 0 S0 = (S170, true) := runSeg_comp 16 14365 85 0 S0 S169 S170 run169 seg169
theorem run171 : runSeg 16 14535 0 S0 = (S171, true) := runSeg_comp 16 14450 85 0 S0 S170 S171 run170 seg170
theorem run172 : runSeg 16 14620 0 S0 = (S172, true) := runSeg_comp 16 14535 85 0 S0 S171 S172 run171 seg171
theorem run173 : runSeg 16 14705 0 S0 = (S173, true) := runSeg_comp 16 14620 85 0 S0 S172 S173 run172 seg172
theorem run174 : runSeg 16 14790 0 S0 = (S174, true) := runSeg_comp 16 14705 85 0 S0 S173 S174 run173 seg173
theorem run175 : runSeg 16 14875 0 S0 = (S175, true) := runSeg_comp 16 14790 85 0 S0 S174 S175 run174 seg174
theorem run176 : runSeg 16 14960 0 S0 = (S176, true) := runSeg_comp 16 14875 85 0 S0 S175 S176 run175 seg175
theorem run177 : runSeg 16 15045 0 S0 = (S177, true) := runSeg_comp 16 14960 85 0 S0 S176 S177 run176 seg176
theorem run178 : runSeg 16 15130 0 S0 = (S178, true) := runSeg_comp 16 15045 85 0 S0 S177 S178 run177 seg177
theorem run179 : runSeg 16 15215 0 S0 = (S179, true) := runSeg_comp 16 15130 85 0 S0 S178 S179 run178 seg178
theorem run180 : runSeg 16 15300 0 S0 = (S180, true) := runSeg_comp 16 15215 85 0 S0 S179 S180 run179 seg179
theorem run181 : runSeg 16 15385 0 S0 = (S181, true) := runSeg_comp 16 15300 85 0 S0 S180 S181 run180 seg180
theorem run182 : runSeg 16 15470 0 S0 = (S182, true) := runSeg_comp 16 15385 85 0 S0 S181 S182 run181 seg181
theorem run183 : runSeg 16 15555 0 S0 = (S183, true) := runSeg_comp 16 15470 85 0 S0 S182 S183 run182 seg182
theorem run184 : runSeg 16 15640 0 S0 = (S184, true) := runSeg_comp 16 15555 85 0 S0 S183 S184 run183 seg183
theorem run185 : runSeg 16 15725 0 S0 = (S185, true) := runSeg_comp 16 15640 85 0 S0 S184 S185 run184 seg184
theorem run186 : runSeg 16 15810 0 S0 = (S186, true) := runSeg_comp 16 15725 85 0 S0 S185 S186 run185 seg185
theorem run187 : runSeg 16 15895 0 S0 = (S187, true) := runSeg_comp 16 15810 85 0 S0 S186 S187 run186 seg186
theorem run188 : runSeg 16 15980 0 S0 = (S188, true) := runSeg_comp 16 15895 85 0 S0 S187 S188 run187 seg187
theorem run189 : runSeg 16 16065 0 S0 = (S189, true) := runSeg_comp 16 15980 85 0 S0 S188 S189 run188 seg188
theorem run190 : runSeg 16 16150 0 S0 = (S190, true) := runSeg_comp 16 16065 85 0 S0 S189 S190 run189 seg189
theorem run191 : runSeg 16 16235 0 S0 = (S191, true) := runSeg_comp 16 16150 85 0 S0 S190 S191 run190 seg190
theorem run192 : runSeg 16 16320 0 S0 = (S192, true) := runSeg_comp 16 16235 85 0 S0 S191 S192 run191 seg191
theorem run193 : runSeg 16 16405 0 S0 = (S193, true) := runSeg_comp 16 16320 85 0 S0 S192 S193 run192 seg192
theorem run194 : runSeg 16 16490 0 S0 = (S194, true) := runSeg_comp 16 16405 85 0 S0 S193 S194 run193 seg193
theorem run195 : runSeg 16 16575 0 S0 = (S195, true) := runSeg_comp 16 16490 85 0 S0 S194 S195 run194 seg194
theorem run196 : runSeg 16 16660 0 S0 = (S196, true) := runSeg_comp 16 16575 85 0 S0 S195 S196 run195 seg195
theorem run197 : runSeg 16 16745 0 S0 = (S197, true) := runSeg_comp 16 16660 85 0 S0 S196 S197 run196 seg196
theorem run198 : runSeg 16 16830 0 S0 = (S198, true) := runSeg_comp 16 16745 85 0 S0 S197 S198 run197 seg197
theorem run199 : runSeg 16 16915 0 S0 = (S199, true) := runSeg_comp 16 16830 85 0 S0 S198 S199 run198 seg198
theorem run200 : runSeg 16 17000 0 S0 = (S200, true) := runSeg_comp 16 16915 85 0 S0 S199 S200 run199 seg199
theorem run201 : runSeg 16 17085 0 S0 = (S201, true) := runSeg_comp 16 17000 85 0 S0 S200 S201 run200 seg200
theorem run202 : runSeg 16 17170 0 S0 = (S202, true) := runSeg_comp 16 17085 85 0 S0 S201 S202 run201 seg201
theorem run203 : runSeg 16 17255 0 S0 = (S203, true) := runSeg_comp 16 17170 85 0 S0 S202 S203 run202 seg202
theorem run204 : runSeg 16 17340 0 S0 = (S204, true) := runSeg_comp 16 17255 85 0 S0 S203 S204 run203 seg203
theorem run205 : runSeg 16 17425 0 S0 = (S205, true) := runSeg_comp 16 17340 85 0 S0 S204 S205 run204 seg204
theorem run206 : runSeg 16 17510 0 S0 = (S206, true) := runSeg_comp 16 17425 85 0 S0 S205 S206 run205 seg205
theorem run207 : runSeg 16 17595 0 S0 = (S207, true) := runSeg_comp 16 17510 85 0 S0 S206 S207 run206 seg206
theorem run208 : runSeg 16 17680 0 S0 = (S208, true) := runSeg_comp 16 17595 85 0 S0 S207 S208 run207 seg207
theorem run209 : runSeg 16 17765 0 S0 = (S209, true) := runSeg_comp 16 17680 85 0 S0 S208 S209 run208 seg208
theorem run210 : runSeg 16 17850 0 S0 = (S210, true) := runSeg_comp 16 17765 85 0 S0 S209 S210 run209 seg209
theorem run211 : runSeg 16 17935 0 S0 = (S211, true) := runSeg_comp 16 17850 85 0 S0 S210 S211 run210 seg210
theorem run212 : runSeg 16 18020 0 S0 = (S212, true) := runSeg_comp 16 17935 85 0 S0 S211 S212 run211 seg211
theorem run213 : runSeg 16 18105 0 S0 = (S213, true) := runSeg_comp 16 18020 85 0 S0 S212 S213 run212 seg212
theorem run214 : runSeg 16 18190 0 S0 = (S214, true) := runSeg_comp 16 18105 85 0 S0 S213 S214 run213 seg213
theorem run215 : runSeg 16 18275 0 S0 = (S215, true) := runSeg_comp 16 18190 85 0 S0 S214 S215 run214 seg214
theorem run216 : runSeg 16 18360 0 S0 = (S216, true) := runSeg_comp 16 18275 85 0 S0 S215 S216 run215 seg215
theorem run217 : runSeg 16 18445 0 S0 = (S217, true) := runSeg_comp 16 18360 85 0 S0 S216 S217 run216 seg216
theorem run218 : runSeg 16 18530 0 S0 = (S218, true) := runSeg_comp 16 18445 85 0 S0 S217 S218 run217 seg217
theorem run219 : runSeg 16 18615 0 S0 = (S219, true) := runSeg_comp 16 18530 85 0 S0 S218 S219 run218 seg218
theorem run220 : runSeg 16 18700 0 S0 = (S220, true) := runSeg_comp 16 18615 85 0 S0 S219 S220 run219 seg219
theorem run221 : runSeg 16 18785 0 S0 = (S221, true) := runSeg_comp 16 18700 85 0 S0 S220 S221 run220 seg220
theorem run222 : runSeg 16 18870 0 S0 = (S222, true) := runSeg_comp 16 18785 85 0 S0 S221 S222 run221 seg221
theorem run223 : runSeg 16 18955 0 S0 = (S223, true) := runSeg_comp 16 18870 85 0 S0 S222 S223 run222 seg222
theorem run224 : runSeg 16 19040 0 S0 = (S224, true) := runSeg_comp 16 18955 85 0 S0 S223 S224 run223 seg223
theorem run225 : runSeg 16 19125 0 S0 = (S225, true) := runSeg_comp 16 19040 85 0 S0 S224 S225 run224 seg224
theorem run226 : runSeg 16 19210 0 S0 = (S226, true) := runSeg_comp 16 19125 85 0 S0 S225 S226 run225 seg225
theorem run227 : runSeg 16 19295 0 S0 = (S227, true) := runSeg_comp 16 19210 85 0 S0 S226 S227 run226 seg226
theorem run228 : runSeg 16 19380 0 S0 = (S228, true) := runSeg_comp 16 19295 85 0 S0 S227 S228 run227 seg227
theorem run229 : runSeg 16 19465 0 S0 = (S229, true) := runSeg_comp 16 19380 85 0 S0 S228 S229 run228 seg228
theorem run230 : runSeg 16 19550 0 S0 = (S230, true) := runSeg_comp 16 19465 85 0 S0 S229 S230 run229 seg229
theorem run231 : runSeg 16 19635 0 S0 = (S231, true) := runSeg_comp 16 19550 85 0 S0 S230 S231 run230 seg230
theorem run232 : runSeg 16 19720 0 S0 = (S232, true) := runSeg_comp 16 19635 85 0 S0 S231 S232 run231 seg231
theorem run233 : runSeg 16 19805 0 S0 = (S233, true) := runSeg_comp 16 19720 85 0 S0 S232 S233 run232 seg232
theorem run234 : runSeg 16 19890 0 S0 = (S234, true) := runSeg_comp 16 19805 85 0 S0 S233 S234 run233 seg233
theorem run235 : runSeg 16 19975 0 S0 = (S235, true) := runSeg_comp 16 19890 85 0 S0 S234 S235 run234 seg234
theorem run236 : runSeg 16 20060 0 S0 = (S236, true) := runSeg_comp 16 19975 85 0 S0 S235 S236 run235 seg235
theorem run237 : runSeg 16 20145 0 S0 = (S237, true) := runSeg_comp 16 20060 85 0 S0 S236 S237 run236 seg236
theorem run238 : runSeg 16 20230 0 S0 = (S238, true) := runSeg_comp 16 20145 85 0 S0 S237 S238 run237 seg237
theorem run239 : runSeg 16 20315 0 S0 = (S239, true) := runSeg_comp 16 20230 85 0 S0 S238 S239 run238 seg238
theorem run240 : runSeg 16 20400 0 S0 = (S240, true) := runSeg_comp 16 20315 85 0 S0 S239 S240 run239 seg239
theorem run241 : runSeg 16 20485 0 S0 = (S241, true) := runSeg_comp 16 20400 85 0 S0 S240 S241 run240 seg240
theorem run242 : runSeg 16 20570 0 S0 = (S242, true) := runSeg_comp 16 20485 85 0 S0 S241 S242 run241 seg241
theorem run243 : runSeg 16 20655 0 S0 = (S243, true) := runSeg_comp 16 20570 85 0 S0 S242 S243 run242 seg242
theorem run244 : runSeg 16 20740 0 S0 = (S244, true) := runSeg_comp 16 20655 85 0 S0 S243 S244 run243 seg243
theorem run245 : runSeg 16 20825 0 S0 = (S245, true) := runSeg_comp 16 20740 85 0 S0 S244 S245 run244 seg244
theorem run246 : runSeg 16 20910 0 S0 = (S246, true) := runSeg_comp 16 20825 85 0 S0 S245 S246 run245 seg245
theorem run247 : runSeg 16 20995 0 S0 = (S247, true) := runSeg_comp 16 20910 85 0 S0 S246 S247 run246 seg246
theorem run248 : runSeg 16 21080 0 S0 = (S248, true) := runSeg_comp 16 20995 85 0 S0 S247 S248 run247 seg247
theorem run249 : runSeg 16 21165 0 S0 = (S249, true) := runSeg_comp 16 21080 85 0 S0 S248 S249 run248 seg248
theorem run250 : runSeg 16 21250 0 S0 = (S250, true) := runSeg_comp 16 21165 85 0 S0 S249 S250 run249 seg249
theorem run251 : runSeg 16 21335 0 S0 = (S251, true) := runSeg_comp 16 21250 85 0 S0 S250 S251 run250 seg250
theorem run252 : runSeg 16 21420 0 S0 = (S252, true) := runSeg_comp 16 21335 85 0 S0 S251 S252 run251 seg251
theorem run253 : runSeg 16 21505 0 S0 = (S253, true) := runSeg_comp 16 21420 85 0 S0 S252 S253 run252 seg252
theorem run254 : runSeg 16 21590 0 S0 = (S254, true) := runSeg_comp 16 21505 85 0 S0 S253 S254 run253 seg253
theorem run255 : runSeg 16 21675 0 S0 = (S255, true) := runSeg_comp 16 21590 85 0 S0 S254 S255 run254 seg254
theorem run256 : runSeg 16 21760 0 S0 = (S256, true) := runSeg_comp 16 21675 85 0 S0 S255 S256 run255 seg255
theorem run257 : runSeg 16 21845 0 S0 = (S257, true) := runSeg_comp 16 21760 85 0 S0 S256 S257 run256 seg256
theorem run258 : runSeg 16 21930 0 S0 = (S258, true) := runSeg_comp 16 21845 85 0 S0 S257 S258 run257 seg257
theorem run259 : runSeg 16 22015 0 S0 = (S259, true) := runSeg_comp 16 21930 85 0 S0 S258 S259 run258 seg258
theorem run260 : runSeg 16 22100 0 S0 = (S260, true) := runSeg_comp 16 22015 85 0 S0 S259 S260 run259 seg259
theorem run261 : runSeg 16 22185 0 S0 = (S261, true) := runSeg_comp 16 22100 85 0 S0 S260 S261 run260 seg260
theorem run262 : runSeg 16 22270 0 S0 = (S262, true) := runSeg_comp 16 22185 85 0 S0 S261 S262 run261 seg261
theorem run263 : runSeg 16 22355 0 S0 = (S263, true) := runSeg_comp 16 22270 85 0 S0 S262 S263 run262 seg262
theorem run264 : runSeg 16 22440 0 S0 = (S264, true) := runSeg_comp 16 22355 85 0 S0 S263 S264 run263 seg263
theorem run265 : runSeg 16 22525 0 S0 = (S265, true) := runSeg_comp 16 22440 85 0 S0 S264 S265 run264 seg264
theorem run266 : runSeg 16 22610 0 S0 = (S266, true) := runSeg_comp 16 22525 85 0 S0 S265 S266 run265 seg265
theorem run267 : runSeg 16 22695 0 S0 = (S267, true) := runSeg_comp 16 22610 85 0 S0 S266 S267 run266 seg266
theorem run268 : runSeg 16 22780 0 S0 = (S268, true) := runSeg_comp 16 22695 85 0 S0 S267 S268 run267 seg267
theorem run269 : runSeg 16 22865 0 S0 = (S269, true) := runSeg_comp 16 22780 85 0 S0 S268 S269 run268 seg268
theorem run270 : runSeg 16 22950 0 S0 = (S270, true) := runSeg_comp 16 22865 85 0 S0 S269 S270 run269 seg269
theorem run271 : runSeg 16 23035 0 S0 = (S271, true) := runSeg_comp 16 22950 85 0 S0 S270 S271 run270 seg270
theorem run272 : runSeg 16 23120 0 S0 = (S272, true) := runSeg_comp 16 23035 85 0 S0 S271 S272 run271 seg271
theorem run273 : runSeg 16 23205 0 S0 = (S273, true) := runSeg_comp 16 23120 85 0 S0 S272 S273 run272 seg272
theorem run274 : runSeg 16 23290 0 S0 = (S274, true) := runSeg_comp 16 23205 85 0 S0 S273 S274 run273 seg273
theorem run275 : runSeg 16 23375 0 S0 = (S275, true) := runSeg_comp 16 23290 85 0 S0 S274 S275 run274 seg274
theorem run276 : runSeg 16 23460 0 S0 = (S276, true) := runSeg_comp 16 23375 85 0 S0 S275 S276 run275 seg275
theorem run277 : runSeg 16 23545 0 S0 = (S277, true) := runSeg_comp 16 23460 85 0 S0 S276 S277 run276 seg276
theorem run278 : runSeg 16 23630 0 S0 = (S278, true) := runSeg_comp 16 23545 85 0 S0 S277 S278 run277 seg277
theorem run279 : runSeg 16 23715 0 S0 = (S279, true) := runSeg_comp 16 23630 85 0 S0 S278 S279 run278 seg278
theorem run280 : runSeg 16 23800 0 S0 = (S280, true) := runSeg_comp 16 23715 85 0 S0 S279 S280 run279 seg279
theorem run281 : runSeg 16 23885 0 S0 = (S281, true) := runSeg_comp 16 23800 85 0 S0 S280 S281 run280 seg280
theorem run282 : runSeg 16 23970 0 S0 = (S282, true) := runSeg_comp 16 23885 85 0 S0 S281 S282 run281 seg281
theorem run283 : runSeg 16 24055 0 S0 = (S283, true) := runSeg_comp 16 23970 85 0 S0 S282 S283 run282 seg282
theorem run284 : runSeg 16 24140 0 S0 = (S284, true) := runSeg_comp 16 24055 85 0 S0 S283 S284 run283 seg283
theorem run285 : runSeg 16 24225 0 S0 = (S285, true) := runSeg_comp 16 24140 85 0 S0 S284 S285 run284 seg284
theorem run286 : runSeg 16 24310 0 S0 = (S286, true) := runSeg_comp 16 24225 85 0 S0 S285 S286 run285 seg285
theorem run287 : runSeg 16 24395 0 S0 = (S287, true) := runSeg_comp 16 24310 85 0 S0 S286 S287 run286 seg286
theorem run288 : runSeg 16 24480 0 S0 = (S288, true) := runSeg_comp 16 24395 85 0 S0 S287 S288 run287 seg287
theorem run289 : runSeg 16 24565 0 S0 = (S289, true) := runSeg_comp 16 24480 85 0 S0 S288 S289 run288 seg288
theorem run290 : runSeg 16 24650 0 S0 = (S290, true) := runSeg_comp 16 24565 85 0 S0 S289 S290 run289 seg289
theorem run291 : runSeg 16 24735 0 S0 = (S291, true) := runSeg_comp 16 24650 85 0 S0 S290 S291 run290 seg290
theorem run292 : runSeg 16 24820 0 S0 = (S292, true) := runSeg_comp 16 24735 85 0 S0 S291 S292 run291 seg291
theorem run293 : runSeg 16 24905 0 S0 = (S293, true) := runSeg_comp 16 24820 85 0 S0 S292 S293 run292 seg292
theorem run294 : runSeg 16 24990 0 S0 = (S294, true) := runSeg_comp 16 24905 85 0 S0 S293 S294 run293 seg293
theorem run295 : runSeg 16 25075 0 S0 = (S295, true) := runSeg_comp 16 24990 85 0 S0 S294 S295 run294 seg294
theorem run296 : runSeg 16 25160 0 S0 = (S296, true) := runSeg_comp 16 25075 85 0 S0 S295 S296 run295 seg295
theorem run297 : runSeg 16 25245 0 S0 = (S297, true) := runSeg_comp 16 25160 85 0 S0 S296 S297 run296 seg296
theorem run298 : runSeg 16 25330 0 S0 = (S298, true) := runSeg_comp 16 25245 85 0 S0 S297 S298 run297 seg297
theorem run299 : runSeg 16 25415 0 S0 = (S299, true) := runSeg_comp 16 25330 85 0 S0 S298 S299 run298 seg298
theorem run300 : runSeg 16 25500 0 S0 = (S300, true) := runSeg_comp 16 25415 85 0 S0 S299 S300 run299 seg299
theorem run301 : runSeg 16 25585 0 S0 = (S301, true) := runSeg_comp 16 25500 85 0 S0 S300 S301 run300 seg300
theorem run302 : runSeg 16 25670 0 S0 = (S302, true) := runSeg_comp 16 25585 85 0 S0 S301 S302 run301 seg301
theorem run303 : runSeg 16 25755 0 S0 = (S303, true) := runSeg_comp 16 25670 85 0 S0 S302 S303 run302 seg302
theorem run304 : runSeg 16 25840 0 S0 = (S304, true) := runSeg_comp 16 25755 85 0 S0 S303 S304 run303 seg303
theorem run305 : runSeg 16 25925 0 S0 = (S305, true) := runSeg_comp 16 25840 85 0 S0 S304 S305 run304 seg304
theorem run306 : runSeg 16 26010 0 S0 = (S306, true) := runSeg_comp 16 25925 85 0 S0 S305 S306 run305 seg305
theorem run307 : runSeg 16 26095 0 S0 = (S307, true) := runSeg_comp 16 26010 85 0 S0 S306 S307 run306 seg306
theorem run308 : runSeg 16 26180 0 S0 = (S308, true) := runSeg_comp 16 26095 85 0 S0 S307 S308 run307 seg307
theorem run309 : runSeg 16 26265 0 S0 = (S309, true) := runSeg_comp 16 26180 85 0 S0 S308 S309 run308 seg308
theorem run310 : runSeg 16 26350 0 S0 = (S310, true) := runSeg_comp 16 26265 85 0 S0 S309 S310 run309 seg309
theorem run311 : runSeg 16 26435 0 S0 = (S311, true) := runSeg_comp 16 26350 85 0 S0 S310 S311 run310 seg310
theorem run312 : runSeg 16 26520 0 S0 = (S312, true) := runSeg_comp 16 26435 85 0 S0 S311 S312 run311 seg311
theorem run313 : runSeg 16 26605 0 S0 = (S313, true) := runSeg_comp 16 26520 85 0 S0 S312 S313 run312 seg312
theorem run314 : runSeg 16 26690 0 S0 = (S314, true) := runSeg_comp 16 26605 85 0 S0 S313 S314 run313 seg313
theorem run315 : runSeg 16 26775 0 S0 = (S315, true) := runSeg_comp 16 26690 85 0 S0 S314 S315 run314 seg314
theorem run316 : runSeg 16 26860 0 S0 = (S316, true) := runSeg_comp 16 26775 85 0 S0 S315 S316 run315 seg315
theorem run317 : runSeg 16 26945 0 S0 = (S317, true) := runSeg_comp 16 26860 85 0 S0 S316 S317 run316 seg316
theorem run318 : runSeg 16 27030 0 S0 = (S318, true) := runSeg_comp 16 26945 85 0 S0 S317 S318 run317 seg317
theorem run319 : runSeg 16 27115 0 S0 = (S319, true) := runSeg_comp 16 27030 85 0 S0 S318 S319 run318 seg318
theorem run320 : runSeg 16 27200 0 S0 = (S320, true) := runSeg_comp 16 27115 85 0 S0 S319 S320 run319 seg319
theorem run321 : runSeg 16 27285 0 S0 = (S321, true) := runSeg_comp 16 27200 85 0 S0 S320 S321 run320 seg320
theorem run322 : runSeg 16 27370 0 S0 = (S322, true) := runSeg_comp 16 27285 85 0 S0 S321 S322 run321 seg321
theorem run323 : runSeg 16 27455 0 S0 = (S323, true) := runSeg_comp 16 27370 85 0 S0 S322 S323 run322 seg322
theorem run324 : runSeg 16 27540 0 S0 = (S324, true) := runSeg_comp 16 27455 85 0 S0 S323 S324 run323 seg323
theorem run325 : runSeg 16 27625 0 S0 = (S325, true) := runSeg_comp 16 27540 85 0 S0 S324 S325 run324 seg324
theorem run326 : runSeg 16 27710 0 S0 = (S326, true) := runSeg_comp 16 27625 85 0 S0 S325 S326 run325 seg325
theorem run327 : runSeg 16 27795 0 S0 = (S327, true) := runSeg_comp 16 27710 85 0 S0 S326 S327 run326 seg326
theorem run328 : runSeg 16 27880 0 S0 = (S328, true) := runSeg_comp 16 27795 85 0 S0 S327 S328 run327 seg327
theorem run329 : runSeg 16 27965 0 S0 = (S329, true) := runSeg_comp 16 27880 85 0 S0 S328 S329 run328 seg328
theorem run330 : runSeg 16 28050 0 S0 = (S330, true) := runSeg_comp 16 27965 85 0 S0 S329 S330 run329 seg329
theorem run331 : runSeg 16 28135 0 S0 = (S331, true) := runSeg_comp 16 28050 85 0 S0 S330 S331 run330 seg330
theorem run332 : runSeg 16 28220 0 S0 = (S332, true) := runSeg_comp 16 28135 85 0 S0 S331 S332 run331 seg331
theorem run333 : runSeg 16 28305 0 S0 = (S333, true) := runSeg_comp 16 28220 85 0 S0 S332 S333 run332 seg332
theorem run334 : runSeg 16 28390 0 S0 = (S334, true) := runSeg_comp 16 28305 85 0 S0 S333 S334 run333 seg333
theorem run335 : runSeg 16 28475 0 S0 = (S335, true) := runSeg_comp 16 28390 85 0 S0 S334 S335 run334 seg334
theorem run336 : runSeg 16 28560 0 S0 = (S336, true) := runSeg_comp 16 28475 85 0 S0 S335 S336 run335 seg335
theorem run337 : runSeg 16 28645 0 S0 = (S337, true) := runSeg_comp 16 28560 85 0 S0 S336 S337 run336 seg336
theorem run338 : runSeg 16 28730 0 S0 = (S338, true) := runSeg_comp 16 28645 85 0 S0 S337 S338 run337 seg337
theorem run339 : runSeg 16 28815 0 S0 = (S339, true) := runSeg_comp 16 28730 85 0 S0 S338 S339 run338 seg338
theorem run340 : runSeg 16 28900 0 S0 = (S340, true) := runSeg_comp 16 28815 85 0 S0 S339 S340 run339 seg339
theorem run341 : runSeg 16 28985 0 S0 = (S341, true) := runSeg_comp 16 28900 85 0 S0 S340 S341 run340 seg340
theorem run342 : runSeg 16 29070 0 S0 = (S342, true) := runSeg_comp 16 28985 85 0 S0 S341 S342 run341 seg341
theorem run343 : runSeg 16 29155 0 S0 = (S343, true) := runSeg_comp 16 29070 85 0 S0 S342 S343 run342 seg342
theorem run344 : runSeg 16 29240 0 S0 = (S344, true) := runSeg_comp 16 29155 85 0 S0 S343 S344 run343 seg343
theorem run345 : runSeg 16 29325 0 S0 = (S345, true) := runSeg_comp 16 29240 85 0 S0 S344 S345 run344 seg344
theorem run346 : runSeg 16 29410 0 S0 = (S346, true) := runSeg_comp 16 29325 85 0 S0 S345 S346 run345 seg345
theorem run347 : runSeg 16 29495 0 S0 = (S347, true) := runSeg_comp 16 29410 85 0 S0 S346 S347 run346 seg346
theorem run348 : runSeg 16 29580 0 S0 = (S348, true) := runSeg_comp 16 29495 85 0 S0 S347 S348 run347 seg347
theorem run349 : runSeg 16 29665 0 S0 = (S349, true) := runSeg_comp 16 29580 85 0 S0 S348 S349 run348 seg348
theorem run350 : runSeg 16 29750 0 S0 = (S350, true) := runSeg_comp 16 29665 85 0 S0 S349 S350 run349 seg349
theorem run351 : runSeg 16 29835 0 S0 = (S351, true) := runSeg_comp 16 29750 85 0 S0 S350 S351 run350 seg350
theorem run352 : runSeg 16 29920 0 S0 = (S352, true) := runSeg_comp 16 29835 85 0 S0 S351 S352 run351 seg351
theorem run353 : runSeg 16 30005 0 S0 = (S353, true) := runSeg_comp 16 29920 85 0 S0 S352 S353 run352 seg352
theorem run354 : runSeg 16 30090 0 S0 = (S354, true) := runSeg_comp 16 30005 85 0 S0 S353 S354 run353 seg353
theorem run355 : runSeg 16 30175 0 S0 = (S355, true) := runSeg_comp 16 30090 85 0 S0 S354 S355 run354 seg354
theorem run356 : runSeg 16 30260 0 S0 = (S356, true) := runSeg_comp 16 30175 85 0 S0 S355 S356 run355 seg355
theorem run357 : runSeg 16 30345 0 S0 = (S357, true) := runSeg_comp 16 30260 85 0 S0 S356 S357 run356 seg356
theorem run358 : runSeg 16 30430 0 S0 = (S358, true) := runSeg_comp 16 30345 85 0 S0 S357 S358 run357 seg357
theorem run359 : runSeg 16 30515 0 S0 = (S359, true) := runSeg_comp 16 30430 85 0 S0 S358 S359 run358 seg358
theorem run360 : runSeg 16 30600 0 S0 = (S360, true) := runSeg_comp 16 30515 85 0 S0 S359 S360 run359 seg359
theorem run361 : runSeg 16 30685 0 S0 = (S361, true) := runSeg_comp 16 30600 85 0 S0 S360 S361 run360 seg360
theorem run362 : runSeg 16 30770 0 S0 = (S362, true) := runSeg_comp 16 30685 85 0 S0 S361 S362 run361 seg361
theorem run363 : runSeg 16 30855 0 S0 = (S363, true) := runSeg_comp 16 30770 85 0 S0 S362 S363 run362 seg362
theorem run364 : runSeg 16 30940 0 S0 = (S364, true) := runSeg_comp 16 30855 85 0 S0 S363 S364 run363 seg363
theorem run365 : runSeg 16 31025 0 S0 = (S365, true) := runSeg_comp 16 30940 85 0 S0 S364 S365 run364 seg364
theorem run366 : runSeg 16 31110 0 S0 = (S366, true) := runSeg_comp 16 31025 85 0 S0 S365 S366 run365 seg365
theorem run367 : runSeg 16 31195 0 S0 = (S367, true) := runSeg_comp 16 31110 85 0 S0 S366 S367 run366 seg366
theorem run368 : runSeg 16 31280 0 S0 = (S368, true) := runSeg_comp 16 31195 85 0 S0 S367 S368 run367 seg367
theorem run369 : runSeg 16 31365 0 S0 = (S369, true) := runSeg_comp 16 31280 85 0 S0 S368 S369 run368 seg368
theorem run370 : runSeg 16 31450 0 S0 = (S370, true) := runSeg_comp 16 31365 85 0 S0 S369 S370 run369 seg369
theorem run371 : runSeg 16 31535 0 S0 = (S371, true) := runSeg_comp 16 31450 85 0 S0 S370 S371 run370 seg370
theorem run372 : runSeg 16 31620 0 S0 = (S372, true) := runSeg_comp 16 31535 85 0 S0 S371 S372 run371 seg371
theorem run373 : runSeg 16 31705 0 S0 = (S373, true) := runSeg_comp 16 31620 85 0 S0 S372 S373 run372 seg372
theorem run374 : runSeg 16 31790 0 S0 = (S374, true) := runSeg_comp 16 31705 85 0 S0 S373 S374 run373 seg373
theorem run375 : runSeg 16 31875 0 S0 = (S375, true) := runSeg_comp 16 31790 85 0 S0 S374 S375 run374 seg374
theorem run376 : runSeg 16 31960 0 S0 = (S376, true) := runSeg_comp 16 31875 85 0 S0 S375 S376 run375 seg375
theorem run377 : runSeg 16 32045 0 S0 = (S377, true) := runSeg_comp 16 31960 85 0 S0 S376 S377 run376 seg376
theorem run378 : runSeg 16 32130 0 S0 = (S378, true) := runSeg_comp 16 32045 85 0 S0 S377 S378 run377 seg377
theorem run379 : runSeg 16 32215 0 S0 = (S379, true) := runSeg_comp 16 32130 85 0 S0 S378 S379 run378 seg378
theorem run380 : runSeg 16 32300 0 S0 = (S380, true) := runSeg_comp 16 32215 85 0 S0 S379 S380 run379 seg379
theorem run381 : runSeg 16 32385 0 S0 = (S381, true) := runSeg_comp 16 32300 85 0 S0 S380 S381 run380 seg380
theorem run382 : runSeg 16 32470 0 S0 = (S382, true) := runSeg_comp 16 32385 85 0 S0 S381 S382 run381 seg381
theorem run383 : runSeg 16 32555 0 S0 = (S383, true) := runSeg_comp 16 32470 85 0 S0 S382 S383 run382 seg382
theorem run384 : runSeg 16 32640 0 S0 = (S384, true) := runSeg_comp 16 32555 85 0 S0 S383 S384 run383 seg383
theorem run385 : runSeg 16 32725 0 S0 = (S385, true) := runSeg_comp 16 32640 85 0 S0 S384 S385 run384 seg384
theorem run386 : runSeg 16 32810 0 S0 = (S386, true) := runSeg_comp 16 32725 85 0 S0 S385 S386 run385 seg385
theorem run387 : runSeg 16 32895 0 S0 = (S387, true) := runSeg_comp 16 32810 85 0 S0 S386 S387 run386 seg386
theorem run388 : runSeg 16 32980 0 S0 = (S388, true) := runSeg_comp 16 32895 85 0 S0 S387 S388 run387 seg387
theorem run389 : runSeg 16 33065 0 S0 = (S389, true) := runSeg_comp 16 32980 85 0 S0 S388 S389 run388 seg388
theorem run390 : runSeg 16 33150 0 S0 = (S390, true) := runSeg_comp 16 33065 85 0 S0 S389 S390 run389 seg389
theorem run391 : runSeg 16 33235 0 S0 = (S391, true) := runSeg_comp 16 33150 85 0 S0 S390 S391 run390 seg390
theorem run392 : runSeg 16 33320 0 S0 = (S392, true) := runSeg_comp 16 33235 85 0 S0 S391 S392 run391 seg391
theorem run393 : runSeg 16 33405 0 S0 = (S393, true) := runSeg_comp 16 33320 85 0 S0 S392 S393 run392 seg392
theorem run394 : runSeg 16 33490 0 S0 = (S394, true) := runSeg_comp 16 33405 85 0 S0 S393 S394 run393 seg393
theorem run395 : runSeg 16 33575 0 S0 = (S395, true) := runSeg_comp 16 33490 85 0 S0 S394 S395 run394 seg394
theorem run396 : runSeg 16 33660 0 S0 = (S396, true) := runSeg_comp 16 33575 85 0 S0 S395 S396 run395 seg395
theorem run397 : runSeg 16 33745 0 S0 = (S397, true) := runSeg_comp 16 33660 85 0 S0 S396 S397 run396 seg396
theorem run398 : runSeg 16 33830 0 S0 = (S398, true) := runSeg_comp 16 33745 85 0 S0 S397 S398 run397 seg397
theorem run399 : runSeg 16 33915 0 S0 = (S399, true) := runSeg_comp 16 33830 85 0 S0 S398 S399 run398 seg398
theorem run400 : runSeg 16 34000 0 S0 = (S400, true) := runSeg_comp 16 33915 85 0 S0 S399 S400 run399 seg399
theorem run401 : runSeg 16 34085 0 S0 = (S401, true) := runSeg_comp 16 34000 85 0 S0 S400 S401 run400 seg400
theorem run402 : runSeg 16 34170 0 S0 = (S402, true) := runSeg_comp 16 34085 85 0 S0 S401 S402 run401 seg401
theorem run403 : runSeg 16 34255 0 S0 = (S403, true) := runSeg_comp 16 34170 85 0 S0 S402 S403 run402 seg402
theorem run404 : runSeg 16 34340 0 S0 = (S404, true) := runSeg_comp 16 34255 85 0 S0 S403 S404 run403 seg403
theorem run405 : runSeg 16 34425 0 S0 = (S405, true) := runSeg_comp 16 34340 85 0 S0 S404 S405 run404 seg404
theorem run406 : runSeg 16 34510 0 S0 = (S406, true) := runSeg_comp 16 34425 85 0 S0 S405 S406 run405 seg405
theorem run407 : runSeg 16 34595 0 S0 = (S407, true) := runSeg_comp 16 34510 85 0 S0 S406 S407 run406 seg406
theorem run408 : runSeg 16 34680 0 S0 = (S408, true) := runSeg_comp 16 34595 85 0 S0 S407 S408 run407 seg407
theorem run409 : runSeg 16 34765 0 S0 = (S409, true) := runSeg_comp 16 34680 85 0 S0 S408 S409 run408 seg408
theorem run410 : runSeg 16 34850 0 S0 = (S410, true) := runSeg_comp 16 34765 85 0 S0 S409 S410 run409 seg409
theorem run411 : runSeg 16 34935 0 S0 = (S411, true) := runSeg_comp 16 34850 85 0 S0 S410 S411 run410 seg410
theorem run412 : runSeg 16 35020 0 S0 = (S412, true) := runSeg_comp 16 34935 85 0 S0 S411 S412 run411 seg411
theorem run413 : runSeg 16 35105 0 S0 = (S413, true) := runSeg_comp 16 35020 85 0 S0 S412 S413 run412 seg412
theorem run414 : runSeg 16 35190 0 S0 = (S414, true) := runSeg_comp 16 35105 85 0 S0 S413 S414 run413 seg413
theorem run415 : runSeg 16 35275 0 S0 = (S415, true) := runSeg_comp 16 35190 85 0 S0 S414 S415 run414 seg414
theorem run416 : runSeg 16 35360 0 S0 = (S416, true) := runSeg_comp 16 35275 85 0 S0 S415 S416 run415 seg415
theorem run417 : runSeg 16 35445 0 S0 = (S417, true) := runSeg_comp 16 35360 85 0 S0 S416 S417 run416 seg416
theorem run418 : runSeg 16 35530 0 S0 = (S418, true) := runSeg_comp 16 35445 85 0 S0 S417 S418 run417 seg417
theorem run419 : runSeg 16 35615 0 S0 = (S419, true) := runSeg_comp 16 35530 85 0 S0 S418 S419 run418 seg418
theorem run420 : runSeg 16 35700 0 S0 = (S420, true) := runSeg_comp 16 35615 85 0 S0 S419 S420 run419 seg419
theorem run421 : runSeg 16 35785 0 S0 = (S421, true) := runSeg_comp 16 35700 85 0 S0 S420 S421 run420 seg420
theorem run422 : runSeg 16 35870 0 S0 = (S422, true) := runSeg_comp 16 35785 85 0 S0 S421 S422 run421 seg421
theorem run423 : runSeg 16 35955 0 S0 = (S423, true) := runSeg_comp 16 35870 85 0 S0 S422 S423 run422 seg422
theorem run424 : runSeg 16 36040 0 S0 = (S424, true) := runSeg_comp 16 35955 85 0 S0 S423 S424 run423 seg423
theorem run425 : runSeg 16 36125 0 S0 = (S425, true) := runSeg_comp 16 36040 85 0 S0 S424 S425 run424 seg424
theorem run426 : runSeg 16 36210 0 S0 = (S426, true) := runSeg_comp 16 36125 85 0 S0 S425 S426 run425 seg425
theorem run427 : runSeg 16 36295 0 S0 = (S427, true) := runSeg_comp 16 36210 85 0 S0 S426 S427 run426 seg426
theorem run428 : runSeg 16 36380 0 S0 = (S428, true) := runSeg_comp 16 36295 85 0 S0 S427 S428 run427 seg427
theorem run429 : runSeg 16 36465 0 S0 = (S429, true) := runSeg_comp 16 36380 85 0 S0 S428 S429 run428 seg428
theorem run430 : runSeg 16 36550 0 S0 = (S430, true) := runSeg_comp 16 36465 85 0 S0 S429 S430 run429 seg429
theorem run431 : runSeg 16 36635 0 S0 = (S431, true) := runSeg_comp 16 36550 85 0 S0 S430 S431 run430 seg430
theorem run432 : runSeg 16 36720 0 S0 = (S432, true) := runSeg_comp 16 36635 85 0 S0 S431 S432 run431 seg431
theorem run433 : runSeg 16 36805 0 S0 = (S433, true) := runSeg_comp 16 36720 85 0 S0 S432 S433 run432 seg432
theorem run434 : runSeg 16 36890 0 S0 = (S434, true) := runSeg_comp 16 36805 85 0 S0 S433 S434 run433 seg433
theorem run435 : runSeg 16 36975 0 S0 = (S435, true) := runSeg_comp 16 36890 85 0 S0 S434 S435 run434 seg434
theorem run436 : runSeg 16 37060 0 S0 = (S436, true) := runSeg_comp 16 36975 85 0 S0 S435 S436 run435 seg435
theorem run437 : runSeg 16 37145 0 S0 = (S437, true) := runSeg_comp 16 37060 85 0 S0 S436 S437 run436 seg436
theorem run438 : runSeg 16 37230 0 S0 = (S438, true) := runSeg_comp 16 37145 85 0 S0 S437 S438 run437 seg437
theorem run439 : runSeg 16 37315 0 S0 = (S439, true) := runSeg_comp 16 37230 85 0 S0 S438 S439 run438 seg438
theorem run440 : runSeg 16 37400 0 S0 = (S440, true) := runSeg_comp 16 37315 85 0 S0 S439 S440 run439 seg439
theorem run441 : runSeg 16 37485 0 S0 = (S441, true) := runSeg_comp 16 37400 85 0 S0 S440 S441 run440 seg440
theorem run442 : runSeg 16 37570 0 S0 = (S442, true) := runSeg_comp 16 37485 85 0 S0 S441 S442 run441 seg441
theorem run443 : runSeg 16 37655 0 S0 = (S443, true) := runSeg_comp 16 37570 85 0 S0 S442 S443 run442 seg442
theorem run444 : runSeg 16 37740 0 S0 = (S444, true) := runSeg_comp 16 37655 85 0 S0 S443 S444 run443 seg443
theorem run445 : runSeg 16 37825 0 S0 = (S445, true) := runSeg_comp 16 37740 85 0 S0 S444 S445 run444 seg444
theorem run446 : runSeg 16 37910 0 S0 = (S446, true) := runSeg_comp 16 37825 85 0 S0 S445 S446 run445 seg445
theorem run447 : runSeg 16 37995 0 S0 = (S447, true) := runSeg_comp 16 37910 85 0 S0 S446 S447 run446 seg446
theorem run448 : runSeg 16 38080 0 S0 = (S448, true) := runSeg_comp 16 37995 85 0 S0 S447 S448 run447 seg447
theorem run449 : runSeg 16 38165 0 S0 = (S449, true) := runSeg_comp 16 38080 85 0 S0 S448 S449 run448 seg448
theorem run450 : runSeg 16 38250 0 S0 = (S450, true) := runSeg_comp 16 38165 85 0 S0 S449 S450 run449 seg449
theorem run451 : runSeg 16 38335 0 S0 = (S451, true) := runSeg_comp 16 38250 85 0 S0 S450 S451 run450 seg450
theorem run452 : runSeg 16 38420 0 S0 = (S452, true) := runSeg_comp 16 38335 85 0 S0 S451 S452 run451 seg451
theorem run453 : runSeg 16 38505 0 S0 = (S453, true) := runSeg_comp 16 38420 85 0 S0 S452 S453 run452 seg452
theorem run454 : runSeg 16 38590 0 S0 = (S454, true) := runSeg_comp 16 38505 85 0 S0 S453 S454 run453 seg453
theorem run455 : runSeg 16 38675 0 S0 = (S455, true) := runSeg_comp 16 38590 85 0 S0 S454 S455 run454 seg454
theorem run456 : runSeg 16 38760 0 S0 = (S456, true) := runSeg_comp 16 38675 85 0 S0 S455 S456 run455 seg455
theorem run457 : runSeg 16 38845 0 S0 = (S457, true) := runSeg_comp 16 38760 85 0 S0 S456 S457 run456 seg456
theorem run458 : runSeg 16 38930 0 S0 = (S458, true) := runSeg_comp 16 38845 85 0 S0 S457 S458 run457 seg457
theorem run459 : runSeg 16 39015 0 S0 = (S459, true) := runSeg_comp 16 38930 85 0 S0 S458 S459 run458 seg458
theorem run460 : runSeg 16 39100 0 S0 = (S460, true) := runSeg_comp 16 39015 85 0 S0 S459 S460 run459 seg459
theorem run461 : runSeg 16 39185 0 S0 = (S461, true) := runSeg_comp 16 39100 85 0 S0 S460 S461 run460 seg460
theorem run462 : runSeg 16 39270 0 S0 = (S462, true) := runSeg_comp 16 39185 85 0 S0 S461 S462 run461 seg461
theorem run463 : runSeg 16 39355 0 S0 = (S463, true) := runSeg_comp 16 39270 85 0 S0 S462 S463 run462 seg462
theorem run464 : runSeg 16 39440 0 S0 = (S464, true) := runSeg_comp 16 39355 85 0 S0 S463 S464 run463 seg463
theorem run465 : runSeg 16 39525 0 S0 = (S465, true) := runSeg_comp 16 39440 85 0 S0 S464 S465 run464 seg464
theorem run466 : runSeg 16 39610 0 S0 = (S466, true) := runSeg_comp 16 39525 85 0 S0 S465 S466 run465 seg465
theorem run467 : runSeg 16 39695 0 S0 = (S467, true) := runSeg_comp 16 39610 85 0 S0 S466 S467 run466 seg466
theorem run468 : runSeg 16 39780 0 S0 = (S468, true) := runSeg_comp 16 39695 85 0 S0 S467 S468 run467 seg467
theorem run469 : runSeg 16 39865 0 S0 = (S469, true) := runSeg_comp 16 39780 85 0 S0 S468 S469 run468 seg468
theorem run470 : runSeg 16 39950 0 S0 = (S470, true) := runSeg_comp 16 39865 85 0 S0 S469 S470 run469 seg469
theorem run471 : runSeg 16 40035 0 S0 = (S471, true) := runSeg_comp 16 39950 85 0 S0 S470 S471 run470 seg470
theorem run472 : runSeg 16 40120 0 S0 = (S472, true) := runSeg_comp 16 40035 85 0 S0 S471 S472 run471 seg471
theorem run473 : runSeg 16 40205 0 S0 = (S473, true) := runSeg_comp 16 40120 85 0 S0 S472 S473 run472 seg472
theorem run474 : runSeg 16 40290 0 S0 = (S474, true) := runSeg_comp 16 40205 85 0 S0 S473 S474 run473 seg473
theorem run475 : runSeg 16 40375 0 S0 = (S475, true) := runSeg_comp 16 40290 85 0 S0 S474 S475 run474 seg474
theorem run476 : runSeg 16 40460 0 S0 = (S476, true) := runSeg_comp 16 40375 85 0 S0 S475 S476 run475 seg475
theorem run477 : runSeg 16 40545 0 S0 = (S477, true) := runSeg_comp 16 40460 85 0 S0 S476 S477 run476 seg476
theorem run478 : runSeg 16 40630 0 S0 = (S478, true) := runSeg_comp 16 40545 85 0 S0 S477 S478 run477 seg477
theorem run479 : runSeg 16 40715 0 S0 = (S479, true) := runSeg_comp 16 40630 85 0 S0 S478 S479 run478 seg478
theorem run480 : runSeg 16 40800 0 S0 = (S480, true) := runSeg_comp 16 40715 85 0 S0 S479 S480 run479 seg479
theorem run481 : runSeg 16 40885 0 S0 = (S481, true) := runSeg_comp 16 40800 85 0 S0 S480 S481 run480 seg480
theorem run482 : runSeg 16 40970 0 S0 = (S482, true) := runSeg_comp 16 40885 85 0 S0 S481 S482 run481 seg481
theorem run483 : runSeg 16 41055 0 S0 = (S483, true) := runSeg_comp 16 40970 85 0 S0 S482 S483 run482 seg482
theorem run484 : runSeg 16 41140 0 S0 = (S484, true) := runSeg_comp 16 41055 85 0 S0 S483 S484 run483 seg483
theorem run485 : runSeg 16 41225 0 S0 = (S485, true) := runSeg_comp 16 41140 85 0 S0 S484 S485 run484 seg484
theorem run486 : runSeg 16 41310 0 S0 = (S486, true) := runSeg_comp 16 41225 85 0 S0 S485 S486 run485 seg485
theorem run487 : runSeg 16 41395 0 S0 = (S487, true) := runSeg_comp 16 41310 85 0 S0 S486 S487 run486 seg486
theorem run488 : runSeg 16 41480 0 S0 = (S488, true) := runSeg_comp 16 41395 85 0 S0 S487 S488 run487 seg487
theorem run489 : runSeg 16 41565 0 S0 = (S489, true) := runSeg_comp 16 41480 85 0 S0 S488 S489 run488 seg488
theorem run490 : runSeg 16 41650 0 S0 = (S490, true) := runSeg_comp 16 41565 85 0 S0 S489 S490 run489 seg489
theorem run491 : runSeg 16 41735 0 S0 = (S491, true) := runSeg_comp 16 41650 85 0 S0 S490 S491 run490 seg490
theorem run492 : runSeg 16 41820 0 S0 = (S492, true) := runSeg_comp 16 41735 85 0 S0 S491 S492 run491 seg491
theorem run493 : runSeg 16 41905 0 S0 = (S493, true) := runSeg_comp 16 41820 85 0 S0 S492 S493 run492 seg492
theorem run494 : runSeg 16 41990 0 S0 = (S494, true) := runSeg_comp 16 41905 85 0 S0 S493 S494 run493 seg493
theorem run495 : runSeg 16 42075 0 S0 = (S495, true) := runSeg_comp 16 41990 85 0 S0 S494 S495 run494 seg494
theorem run496 : runSeg 16 42160 0 S0 = (S496, true) := runSeg_comp 16 42075 85 0 S0 S495 S496 run495 seg495
theorem run497 : runSeg 16 42245 0 S0 = (S497, true) := runSeg_comp 16 42160 85 0 S0 S496 S497 run496 seg496
theorem run498 : runSeg 16 42330 0 S0 = (S498, true) := runSeg_comp 16 42245 85 0 S0 S497 S498 run497 seg497
theorem run499 : runSeg 16 42415 0 S0 = (S499, true) := runSeg_comp 16 42330 85 0 S0 S498 S499 run498 seg498
theorem run500 : runSeg 16 42500 0 S0 = (S500, true) := runSeg_comp 16 42415 85 0 S0 S499 S500 run499 seg499
theorem run501 : runSeg 16 42585 0 S0 = (S501, true) := runSeg_comp 16 42500 85 0 S0 S500 S501 run500 seg500
theorem run502 : runSeg 16 42670 0 S0 = (S502, true) := runSeg_comp 16 42585 85 0 S0 S501 S502 run501 seg501
theorem run503 : runSeg 16 42755 0 S0 = (S503, true) := runSeg_comp 16 42670 85 0 S0 S502 S503 run502 seg502
theorem run504 : runSeg 16 42840 0 S0 = (S504, true) := runSeg_comp 16 42755 85 0 S0 S503 S504 run503 seg503
theorem run505 : runSeg 16 42925 0 S0 = (S505, true) := runSeg_comp 16 42840 85 0 S0 S504 S505 run504 seg504
theorem run506 : runSeg 16 43010 0 S0 = (S506, true) := runSeg_comp 16 42925 85 0 S0 S505 S506 run505 seg505
theorem run507 : runSeg 16 43095 0 S0 = (S507, true) := runSeg_comp 16 43010 85 0 S0 S506 S507 run506 seg506
theorem run508 : runSeg 16 43180 0 S0 = (S508, true) := runSeg_comp 16 43095 85 0 S0 S507 S508 run507 seg507
theorem run509 : runSeg 16 43265 0 S0 = (S509, true) := runSeg_comp 16 43180 85 0 S0 S508 S509 run508 seg508
theorem run510 : runSeg 16 43350 0 S0 = (S510, true) := runSeg_comp 16 43265 85 0 S0 S509 S510 run509 seg509
theorem run511 : runSeg 16 43435 0 S0 = (S511, true) := runSeg_comp 16 43350 85 0 S0 S510 S511 run510 seg510
theorem run512 : runSeg 16 43520 0 S0 = (S512, true) := runSeg_comp 16 43435 85 0 S0 S511 S512 run511 seg511
theorem run513 : runSeg 16 43605 0 S0 = (S513, true) := runSeg_comp 16 43520 85 0 S0 S512 S513 run512 seg512
theorem run514 : runSeg 16 43690 0 S0 = (S514, true) := runSeg_comp 16 43605 85 0 S0 S513 S514 run513 seg513
theorem run515 : runSeg 16 43775 0 S0 = (S515, true) := runSeg_comp 16 43690 85 0 S0 S514 S515 run514 seg514
theorem run516 : runSeg 16 43860 0 S0 = (S516, true) := runSeg_comp 16 43775 85 0 S0 S515 S516 run515 seg515
theorem run517 : runSeg 16 43945 0 S0 = (S517, true) := runSeg_comp 16 43860 85 0 S0 S516 S517 run516 seg516
theorem run518 : runSeg 16 44030 0 S0 = (S518, true) := runSeg_comp 16 43945 85 0 S0 S517 S518 run517 seg517
theorem run519 : runSeg 16 44115 0 S0 = (S519, true) := runSeg_comp 16 44030 85 0 S0 S518 S519 run518 seg518
theorem run520 : runSeg 16 44200 0 S0 = (S520, true) := runSeg_comp 16 44115 85 0 S0 S519 S520 run519 seg519
theorem run521 : runSeg 16 44285 0 S0 = (S521, true) := runSeg_comp 16 44200 85 0 S0 S520 S521 run520 seg520
theorem run522 : runSeg 16 44370 0 S0 = (S522, true) := runSeg_comp 16 44285 85 0 S0 S521 S522 run521 seg521
theorem run523 : runSeg 16 44455 0 S0 = (S523, true) := runSeg_comp 16 44370 85 0 S0 S522 S523 run522 seg522
theorem run524 : runSeg 16 44540 0 S0 = (S524, true) := runSeg_comp 16 44455 85 0 S0 S523 S524 run523 seg523
theorem run525 : runSeg 16 44625 0 S0 = (S525, true) := runSeg_comp 16 44540 85 0 S0 S524 S525 run524 seg524
theorem run526 : runSeg 16 44710 0 S0 = (S526, true) := runSeg_comp 16 44625 85 0 S0 S525 S526 run525 seg525
theorem run527 : runSeg 16 44795 0 S0 = (S527, true) := runSeg_comp 16 44710 85 0 S0 S526 S527 run526 seg526
theorem run528 : runSeg 16 44880 0 S0 = (S528, true) := runSeg_comp 16 44795 85 0 S0 S527 S528 run527 seg527
theorem run529 : runSeg 16 44965 0 S0 = (S529, true) := runSeg_comp 16 44880 85 0 S0 S528 S529 run528 seg528
theorem run530 : runSeg 16 45050 0 S0 = (S530, true) := runSeg_comp 16 44965 85 0 S0 S529 S530 run529 seg529
theorem run531 : runSeg 16 45135 0 S0 = (S531, true) := runSeg_comp 16 45050 85 0 S0 S530 S531 run530 seg530
theorem run532 : runSeg 16 45220 0 S0 = (S532, true) := runSeg_comp 16 45135 85 0 S0 S531 S532 run531 seg531
theorem run533 : runSeg 16 45305 0 S0 = (S533, true) := runSeg_comp 16 45220 85 0 S0 S532 S533 run532 seg532
theorem run534 : runSeg 16 45390 0 S0 = (S534, true) := runSeg_comp 16 45305 85 0 S0 S533 S534 run533 seg533
theorem run535 : runSeg 16 45475 0 S0 = (S535, true) := runSeg_comp 16 45390 85 0 S0 S534 S535 run534 seg534
theorem run536 : runSeg 16 45560 0 S0 = (S536, true) := runSeg_comp 16 45475 85 0 S0 S535 S536 run535 seg535
theorem run537 : runSeg 16 45645 0 S0 = (S537, true) := runSeg_comp 16 45560 85 0 S0 S536 S537 run536 seg536
theorem run538 : runSeg 16 45730 0 S0 = (S538, true) := runSeg_comp 16 45645 85 0 S0 S537 S538 run537 seg537
theorem run539 : runSeg 16 45815 0 S0 = (S539, true) := runSeg_comp 16 45730 85 0 S0 S538 S539 run538 seg538
theorem run540 : runSeg 16 45900 0 S0 = (S540, true) := runSeg_comp 16 45815 85 0 S0 S539 S540 run539 seg539
theorem run541 : runSeg 16 45985 0 S0 = (S541, true) := runSeg_comp 16 45900 85 0 S0 S540 S541 run540 seg540
theorem run542 : runSeg 16 46070 0 S0 = (S542, true) := runSeg_comp 16 45985 85 0 S0 S541 S542 run541 seg541
theorem run543 : runSeg 16 46155 0 S0 = (S543, true) := runSeg_comp 16 46070 85 0 S0 S542 S543 run542 seg542
theorem run544 : runSeg 16 46240 0 S0 = (S544, true) := runSeg_comp 16 46155 85 0 S0 S543 S544 run543 seg543
theorem run545 : runSeg 16 46325 0 S0 = (S545, true) := runSeg_comp 16 46240 85 0 S0 S544 S545 run544 seg544
theorem run546 : runSeg 16 46410 0 S0 = (S546, true) := runSeg_comp 16 46325 85 0 S0 S545 S546 run545 seg545
theorem run547 : runSeg 16 46495 0 S0 = (S547, true) := runSeg_comp 16 46410 85 0 S0 S546 S547 run546 seg546
theorem run548 : runSeg 16 46580 0 S0 = (S548, true) := runSeg_comp 16 46495 85 0 S0 S547 S548 run547 seg547
theorem run549 : runSeg 16 46665 0 S0 = (S549, true) := runSeg_comp 16 46580 85 0 S0 S548 S549 run548 seg548
theorem run550 : runSeg 16 46750 0 S0 = (S550, true) := runSeg_comp 16 46665 85 0 S0 S549 S550 run549 seg549
theorem run551 : runSeg 16 46835 0 S0 = (S551, true) := runSeg_comp 16 46750 85 0 S0 S550 S551 run550 seg550
theorem run552 : runSeg 16 46920 0 S0 = (S552, true) := runSeg_comp 16 46835 85 0 S0 S551 S552 run551 seg551
theorem run553 : runSeg 16 47005 0 S0 = (S553, true) := runSeg_comp 16 46920 85 0 S0 S552 S553 run552 seg552
theorem run554 : runSeg 16 47090 0 S0 = (S554, true) := runSeg_comp 16 47005 85 0 S0 S553 S554 run553 seg553
theorem run555 : runSeg 16 47175 0 S0 = (S555, true) := runSeg_comp 16 47090 85 0 S0 S554 S555 run554 seg554
theorem run556 : runSeg 16 47260 0 S0 = (S556, true) := runSeg_comp 16 47175 85 0 S0 S555 S556 run555 seg555
theorem run557 : runSeg 16 47345 0 S0 = (S557, true) := runSeg_comp 16 47260 85 0 S0 S556 S557 run556 seg556
theorem run558 : runSeg 16 47430 0 S0 = (S558, true) := runSeg_comp 16 47345 85 0 S0 S557 S558 run557 seg557
theorem run559 : runSeg 16 47515 0 S0 = (S559, true) := runSeg_comp 16 47430 85 0 S0 S558 S559 run558 seg558
theorem run560 : runSeg 16 47600 0 S0 = (S560, true) := runSeg_comp 16 47515 85 0 S0 S559 S560 run559 seg559
theorem run561 : runSeg 16 47685 0 S0 = (S561, true) := runSeg_comp 16 47600 85 0 S0 S560 S561 run560 seg560
theorem run562 : runSeg 16 47770 0 S0 = (S562, true) := runSeg_comp 16 47685 85 0 S0 S561 S562 run561 seg561
theorem run563 : runSeg 16 47855 0 S0 = (S563, true) := runSeg_comp 16 47770 85 0 S0 S562 S563 run562 seg562
theorem run564 : runSeg 16 47940 0 S0 = (S564, true) := runSeg_comp 16 47855 85 0 S0 S563 S564 run563 seg563
theorem run565 : runSeg 16 48025 0 S0 = (S565, true) := runSeg_comp 16 47940 85 0 S0 S564 S565 run564 seg564
theorem run566 : runSeg 16 48110 0 S0 = (S566, true) := runSeg_comp 16 48025 85 0 S0 S565 S566 run565 seg565
theorem run567 : runSeg 16 48195 0 S0 = (S567, true) := runSeg_comp 16 48110 85 0 S0 S566 S567 run566 seg566
theorem run568 : runSeg 16 48280 0 S0 = (S568, true) := runSeg_comp 16 48195 85 0 S0 S567 S568 run567 seg567
theorem run569 : runSeg 16 48365 0 S0 = (S569, true) := runSeg_comp 16 48280 85 0 S0 S568 S569 run568 seg568
theorem run570 : runSeg 16 48450 0 S0 = (S570, true) := runSeg_comp 16 48365 85 0 S0 S569 S570 run569 seg569
theorem run571 : runSeg 16 48535 0 S0 = (S571, true) := runSeg_comp 16 48450 85 0 S0 S570 S571 run570 seg570
theorem run572 : runSeg 16 48620 0 S0 = (S572, true) := runSeg_comp 16 48535 85 0 S0 S571 S572 run571 seg571
theorem run573 : runSeg 16 48705 0 S0 = (S573, true) := runSeg_comp 16 48620 85 0 S0 S572 S573 run572 seg572
theorem run574 : runSeg 16 48790 0 S0 = (S574, true) := runSeg_comp 16 48705 85 0 S0 S573 S574 run573 seg573
theorem run575 : runSeg 16 48875 0 S0 = (S575, true) := runSeg_comp 16 48790 85 0 S0 S574 S575 run574 seg574
theorem run576 : runSeg 16 48960 0 S0 = (S576, true) := runSeg_comp 16 48875 85 0 S0 S575 S576 run575 seg575
theorem run577 : runSeg 16 49045 0 S0 = (S577, true) := runSeg_comp 16 48960 85 0 S0 S576 S577 run576 seg576
theorem run578 : runSeg 16 49130 0 S0 = (S578, true) := runSeg_comp 16 49045 85 0 S0 S577 S578 run577 seg577
theorem run579 : runSeg 16 49215 0 S0 = (S579, true) := runSeg_comp 16 49130 85 0 S0 S578 S579 run578 seg578
theorem run580 : runSeg 16 49300 0 S0 = (S580, true) := runSeg_comp 16 49215 85 0 S0 S579 S580 run579 seg579
theorem run581 : runSeg 16 49385 0 S0 = (S581, true) := runSeg_comp 16 49300 85 0 S0 S580 S581 run580 seg580
theorem run582 : runSeg 16 49470 0 S0 = (S582, true) := runSeg_comp 16 49385 85 0 S0 S581 S582 run581 seg581
theorem run583 : runSeg 16 49555 0 S0 = (S583, true) := runSeg_comp 16 49470 85 0 S0 S582 S583 run582 seg582
theorem run584 : runSeg 16 49640 0 S0 = (S584, true) := runSeg_comp 16 49555 85 0 S0 S583 S584 run583 seg583
theorem run585 : runSeg 16 49725 0 S0 = (S585, true) := runSeg_comp 16 49640 85 0 S0 S584 S585 run584 seg584
theorem run586 : runSeg 16 49810 0 S0 = (S586, true) := runSeg_comp 16 49725 85 0 S0 S585 S586 run585 seg585
theorem run587 : runSeg 16 49895 0 S0 = (S587, true) := runSeg_comp 16 49810 85 0 S0 S586 S587 run586 seg586
theorem run588 : runSeg 16 49980 0 S0 = (S588, true) := runSeg_comp 16 49895 85 0 S0 S587 S588 run587 seg587
theorem run589 : runSeg 16 50065 0 S0 = (S589, true) := runSeg_comp 16 49980 85 0 S0 S588 S589 run588 seg588
theorem run590 : runSeg 16 50150 0 S0 = (S590, true) := runSeg_comp 16 50065 85 0 S0 S589 S590 run589 seg589
theorem run591 : runSeg 16 50235 0 S0 = (S591, true) := runSeg_comp 16 50150 85 0 S0 S590 S591 run590 seg590
theorem run592 : runSeg 16 50320 0 S0 = (S592, true) := runSeg_comp 16 50235 85 0 S0 S591 S592 run591 seg591
theorem run593 : runSeg 16 50405 0 S0 = (S593, true) := runSeg_comp 16 50320 85 0 S0 S592 S593 run592 seg592
theorem run594 : runSeg 16 50490 0 S0 = (S594, true) := runSeg_comp 16 50405 85 0 S0 S593 S594 run593 seg593
theorem run595 : runSeg 16 50575 0 S0 = (S595, true) := runSeg_comp 16 50490 85 0 S0 S594 S595 run594 seg594
theorem run596 : runSeg 16 50660 0 S0 = (S596, true) := runSeg_comp 16 50575 85 0 S0 S595 S596 run595 seg595
theorem run597 : runSeg 16 50745 0 S0 = (S597, true) := runSeg_comp 16 50660 85 0 S0 S596 S597 run596 seg596
theorem run598 : runSeg 16 50830 0 S0 = (S598, true) := runSeg_comp 16 50745 85 0 S0 S597 S598 run597 seg597
theorem run599 : runSeg 16 50915 0 S0 = (S599, true) := runSeg_comp 16 50830 85 0 S0 S598 S599 run598 seg598
theorem run600 : runSeg 16 51000 0 S0 = (S600, true) := runSeg_comp 16 50915 85 0 S0 S599 S600 run599 seg599
theorem run601 : runSeg 16 51085 0 S0 = (S601, true) := runSeg_comp 16 51000 85 0 S0 S600 S601 run600 seg600
theorem run602 : runSeg 16 51170 0 S0 = (S602, true) := runSeg_comp 16 51085 85 0 S0 S601 S602 run601 seg601
theorem run603 : runSeg 16 51255 0 S0 = (S603, true) := runSeg_comp 16 51170 85 0 S0 S602 S603 run602 seg602
theorem run604 : runSeg 16 51340 0 S0 = (S604, true) := runSeg_comp 16 51255 85 0 S0 S603 S604 run603 seg603
theorem run605 : runSeg 16 51425 0 S0 = (S605, true) := runSeg_comp 16 51340 85 0 S0 S604 S605 run604 seg604
theorem run606 : runSeg 16 51510 0 S0 = (S606, true) := runSeg_comp 16 51425 85 0 S0 S605 S606 run605 seg605
theorem run607 : runSeg 16 51595 0 S0 = (S607, true) := runSeg_comp 16 51510 85 0 S0 S606 S607 run606 seg606
theorem run608 : runSeg 16 51680 0 S0 = (S608, true) := runSeg_comp 16 51595 85 0 S0 S607 S608 run607 seg607
theorem run609 : runSeg 16 51765 0 S0 = (S609, true) := runSeg_comp 16 51680 85 0 S0 S608 S609 run608 seg608
theorem run610 : runSeg 16 51850 0 S0 = (S610, true) := runSeg_comp 16 51765 85 0 S0 S609 S610 run609 seg609
theorem run611 : runSeg 16 51935 0 S0 = (S611, true) := runSeg_comp 16 51850 85 0 S0 S610 S611 run610 seg610
theorem run612 : runSeg 16 52020 0 S0 = (S612, true) := runSeg_comp 16 51935 85 0 S0 S611 S612 run611 seg611
theorem run613 : runSeg 16 52105 0 S0 = (S613, true) := runSeg_comp 16 52020 85 0 S0 S612 S613 run612 seg612
theorem run614 : runSeg 16 52190 0 S0 = (S614, true) := runSeg_comp 16 52105 85 0 S0 S613 S614 run613 seg613
theorem run615 : runSeg 16 52275 0 S0 = (S615, true) := runSeg_comp 16 52190 85 0 S0 S614 S615 run614 seg614
theorem run616 : runSeg 16 52360 0 S0 = (S616, true) := runSeg_comp 16 52275 85 0 S0 S615 S616 run615 seg615
theorem run617 : runSeg 16 52445 0 S0 = (S617, true) := runSeg_comp 16 52360 85 0 S0 S616 S617 run616 seg616
theorem run618 : runSeg 16 52530 0 S0 = (S618, true) := runSeg_comp 16 52445 85 0 S0 S617 S618 run617 seg617
theorem run619 : runSeg 16 52615 0 S0 = (S619, true) := runSeg_comp 16 52530 85 0 S0 S618 S619 run618 seg618
theorem run620 : runSeg 16 52700 0 S0 = (S620, true) := runSeg_comp 16 52615 85 0 S0 S619 S620 run619 seg619
theorem run621 : runSeg 16 52785 0 S0 = (S621, true) := runSeg_comp 16 52700 85 0 S0 S620 S621 run620 seg620
theorem run622 : runSeg 16 52870 0 S0 = (S622, true) := runSeg_comp 16 52785 85 0 S0 S621 S622 run621 seg621
theorem run623 : runSeg 16 52955 0 S0 = (S623, true) := runSeg_comp 16 52870 85 0 S0 S622 S623 run622 seg622
theorem run624 : runSeg 16 53040 0 S0 = (S624, true) := runSeg_comp 16 52955 85 0 S0 S623 S624 run623 seg623
theorem run625 : runSeg 16 53125 0 S0 = (S625, true) := runSeg_comp 16 53040 85 0 S0 S624 S625 run624 seg624
theorem run626 : runSeg 16 53210 0 S0 = (S626, true) := runSeg_comp 16 53125 85 0 S0 S625 S626 run625 seg625
theorem run627 : runSeg 16 53295 0 S0 = (S627, true) := runSeg_comp 16 53210 85 0 S0 S626 S627 run626 seg626
theorem run628 : runSeg 16 53380 0 S0 = (S628, true) := runSeg_comp 16 53295 85 0 S0 S627 S628 run627 seg627
theorem run629 : runSeg 16 53465 0 S0 = (S629, true) := runSeg_comp 16 53380 85 0 S0 S628 S629 run628 seg628
theorem run630 : runSeg 16 53550 0 S0 = (S630, true) := runSeg_comp 16 53465 85 0 S0 S629 S630 run629 seg629
theorem run631 : runSeg 16 53635 0 S0 = (S631, true) := runSeg_comp 16 53550 85 0 S0 S630 S631 run630 seg630
theorem run632 : runSeg 16 53720 0 S0 = (S632, true) := runSeg_comp 16 53635 85 0 S0 S631 S632 run631 seg631
theorem run633 : runSeg 16 53805 0 S0 = (S633, true) := runSeg_comp 16 53720 85 0 S0 S632 S633 run632 seg632
theorem run634 : runSeg 16 53890 0 S0 = (S634, true) := runSeg_comp 16 53805 85 0 S0 S633 S634 run633 seg633
theorem run635 : runSeg 16 53975 0 S0 = (S635, true) := runSeg_comp 16 53890 85 0 S0 S634 S635 run634 seg634
theorem run636 : runSeg 16 54060 0 S0 = (S636, true) := runSeg_comp 16 53975 85 0 S0 S635 S636 run635 seg635
theorem run637 : runSeg 16 54145 0 S0 = (S637, true) := runSeg_comp 16 54060 85 0 S0 S636 S637 run636 seg636
theorem run638 : runSeg 16 54230 0 S0 = (S638, true) := runSeg_comp 16 54145 85 0 S0 S637 S638 run637 seg637
theorem run639 : runSeg 16 54315 0 S0 = (S639, true) := runSeg_comp 16 54230 85 0 S0 S638 S639 run638 seg638
theorem run640 : runSeg 16 54400 0 S0 = (S640, true) := runSeg_comp 16 54315 85 0 S0 S639 S640 run639 seg639
theorem run641 : runSeg 16 54485 0 S0 = (S641, true) := runSeg_comp 16 54400 85 0 S0 S640 S641 run640 seg640
theorem run642 : runSeg 16 54570 0 S0 = (S642, true) := runSeg_comp 16 54485 85 0 S0 S641 S642 run641 seg641
theorem run643 : runSeg 16 54655 0 S0 = (S643, true) := runSeg_comp 16 54570 85 0 S0 S642 S643 run642 seg642
theorem run644 : runSeg 16 54740 0 S0 = (S644, true) := runSeg_comp 16 54655 85 0 S0 S643 S644 run643 seg643
theorem run645 : runSeg 16 54825 0 S0 = (S645, true) := runSeg_comp 16 54740 85 0 S0 S644 S645 run644 seg644
theorem run646 : runSeg 16 54910 0 S0 = (S646, true) := runSeg_comp 16 54825 85 0 S0 S645 S646 run645 seg645
theorem run647 : runSeg 16 54995 0 S0 = (S647, true) := runSeg_comp 16 54910 85 0 S0 S646 S647 run646 seg646
theorem run648 : runSeg 16 55080 0 S0 = (S648, true) := runSeg_comp 16 54995 85 0 S0 S647 S648 run647 seg647
theorem run649 : runSeg 16 55165 0 S0 = (S649, true) := runSeg_comp 16 55080 85 0 S0 S648 S649 run648 seg648
theorem run650 : runSeg 16 55250 0 S0 = (S650, true) := runSeg_comp 16 55165 85 0 S0 S649 S650 run649 seg649
theorem run651 : runSeg 16 55335 0 S0 = (S651, true) := runSeg_comp 16 55250 85 0 S0 S650 S651 run650 seg650
theorem run652 : runSeg 16 55420 0 S0 = (S652, true) := runSeg_comp 16 55335 85 0 S0 S651 S652 run651 seg651
theorem run653 : runSeg 16 55505 0 S0 = (S653, true) := runSeg_comp 16 55420 85 0 S0 S652 S653 run652 seg652
theorem run654 : runSeg 16 55590 0 S0 = (S654, true) := runSeg_comp 16 55505 85 0 S0 S653 S654 run653 seg653
theorem run655 : runSeg 16 55675 0 S0 = (S655, true) := runSeg_comp 16 55590 85 0 S0 S654 S655 run654 seg654
theorem run656 : runSeg 16 55760 0 S0 = (S656, true) := runSeg_comp 16 55675 85 0 S0 S655 S656 run655 seg655
theorem run657 : runSeg 16 55845 0 S0 = (S657, true) := runSeg_comp 16 55760 85 0 S0 S656 S657 run656 seg656
theorem run658 : runSeg 16 55930 0 S0 = (S658, true) := runSeg_comp 16 55845 85 0 S0 S657 S658 run657 seg657
theorem run659 : runSeg 16 56015 0 S0 = (S659, true) := runSeg_comp 16 55930 85 0 S0 S658 S659 run658 seg658
theorem run660 : runSeg 16 56100 0 S0 = (S660, true) := runSeg_comp 16 56015 85 0 S0 S659 S660 run659 seg659
theorem run661 : runSeg 16 56185 0 S0 = (S661, true) := runSeg_comp 16 56100 85 0 S0 S660 S661 run660 seg660
theorem run662 : runSeg 16 56270 0 S0 = (S662, true) := runSeg_comp 16 56185 85 0 S0 S661 S662 run661 seg661
theorem run663 : runSeg 16 56355 0 S0 = (S663, true) := runSeg_comp 16 56270 85 0 S0 S662 S663 run662 seg662
theorem run664 : runSeg 16 56440 0 S0 = (S664, true) := runSeg_comp 16 56355 85 0 S0 S663 S664 run663 seg663
theorem run665 : runSeg 16 56525 0 S0 = (S665, true) := runSeg_comp 16 56440 85 0 S0 S664 S665 run664 seg664
theorem run666 : runSeg 16 56610 0 S0 = (S666, true) := runSeg_comp 16 56525 85 0 S0 S665 S666 run665 seg665
theorem run667 : runSeg 16 56695 0 S0 = (S667, true) := runSeg_comp 16 56610 85 0 S0 S666 S667 run666 seg666
theorem run668 : runSeg 16 56780 0 S0 = (S668, true) := runSeg_comp 16 56695 85 0 S0 S667 S668 run667 seg667
theorem run669 : runSeg 16 56865 0 S0 = (S669, true) := runSeg_comp 16 56780 85 0 S0 S668 S669 run668 seg668
theorem run670 : runSeg 16 56950 0 S0 = (S670, true) := runSeg_comp 16 56865 85 0 S0 S669 S670 run669 seg669
theorem run671 : runSeg 16 57035 0 S0 = (S671, true) := runSeg_comp 16 56950 85 0 S0 S670 S671 run670 seg670
theorem run672 : runSeg 16 57120 0 S0 = (S672, true) := runSeg_comp 16 57035 85 0 S0 S671 S672 run671 seg671
theorem run673 : runSeg 16 57205 0 S0 = (S673, true) := runSeg_comp 16 57120 85 0 S0 S672 S673 run672 seg672
theorem run674 : runSeg 16 57290 0 S0 = (S674, true) := runSeg_comp 16 57205 85 0 S0 S673 S674 run673 seg673
theorem run675 : runSeg 16 57375 0 S0 = (S675, true) := runSeg_comp 16 57290 85 0 S0 S674 S675 run674 seg674
theorem run676 : runSeg 16 57460 0 S0 = (S676, true) := runSeg_comp 16 57375 85 0 S0 S675 S676 run675 seg675
theorem run677 : runSeg 16 57545 0 S0 = (S677, true) := runSeg_comp 16 57460 85 0 S0 S676 S677 run676 seg676
theorem run678 : runSeg 16 57630 0 S0 = (S678, true) := runSeg_comp 16 57545 85 0 S0 S677 S678 run677 seg677
theorem run679 : runSeg 16 57715 0 S0 = (S679, true) := runSeg_comp 16 57630 85 0 S0 S678 S679 run678 seg678
theorem run680 : runSeg 16 57800 0 S0 = (S680, true) := runSeg_comp 16 57715 85 0 S0 S679 S680 run679 seg679
theorem run681 : runSeg 16 57885 0 S0 = (S681, true) := runSeg_comp 16 57800 85 0 S0 S680 S681 run680 seg680
theorem run682 : runSeg 16 57970 0 S0 = (S682, true) := runSeg_comp 16 57885 85 0 S0 S681 S682 run681 seg681
theorem run683 : runSeg 16 58055 0 S0 = (S683, true) := runSeg_comp 16 57970 85 0 S0 S682 S683 run682 seg682
theorem run684 : runSeg 16 58140 0 S0 = (S684, true) := runSeg_comp 16 58055 85 0 S0 S683 S684 run683 seg683
theorem run685 : runSeg 16 58225 0 S0 = (S685, true) := runSeg_comp 16 58140 85 0 S0 S684 S685 run684 seg684
theorem run686 : runSeg 16 58310 0 S0 = (S686, true) := runSeg_comp 16 58225 85 0 S0 S685 S686 run685 seg685
theorem run687 : runSeg 16 58395 0 S0 = (S687, true) := runSeg_comp 16 58310 85 0 S0 S686 S687 run686 seg686
theorem run688 : runSeg 16 58480 0 S0 = (S688, true) := runSeg_comp 16 58395 85 0 S0 S687 S688 run687 seg687
theorem run689 : runSeg 16 58565 0 S0 = (S689, true) := runSeg_comp 16 58480 85 0 S0 S688 S689 run688 seg688
theorem run690 : runSeg 16 58650 0 S0 = (S690, true) := runSeg_comp 16 58565 85 0 S0 S689 S690 run689 seg689
theorem run691 : runSeg 16 58735 0 S0 = (S691, true) := runSeg_comp 16 58650 85 0 S0 S690 S691 run690 seg690
theorem run692 : runSeg 16 58820 0 S0 = (S692, true) := runSeg_comp 16 58735 85 0 S0 S691 S692 run691 seg691
theorem run693 : runSeg 16 58905 0 S0 = (S693, true) := runSeg_comp 16 58820 85 0 S0 S692 S693 run692 seg692
theorem run694 : runSeg 16 58990 0 S0 = (S694, true) := runSeg_comp 16 58905 85 0 S0 S693 S694 run693 seg693
theorem run695 : runSeg 16 59075 0 S0 = (S695, true) := runSeg_comp 16 58990 85 0 S0 S694 S695 run694 seg694
theorem run696 : runSeg 16 59160 0 S0 = (S696, true) := runSeg_comp 16 59075 85 0 S0 S695 S696 run695 seg695
theorem run697 : runSeg 16 59245 0 S0 = (S697, true) := runSeg_comp 16 59160 85 0 S0 S696 S697 run696 seg696
theorem run698 : runSeg 16 59330 0 S0 = (S698, true) := runSeg_comp 16 59245 85 0 S0 S697 S698 run697 seg697
theorem run699 : runSeg 16 59415 0 S0 = (S699, true) := runSeg_comp 16 59330 85 0 S0 S698 S699 run698 seg698
theorem run700 : runSeg 16 59500 0 S0 = (S700, true) := runSeg_comp 16 59415 85 0 S0 S699 S700 run699 seg699
theorem run701 : runSeg 16 59585 0 S0 = (S701, true) := runSeg_comp 16 59500 85 0 S0 S700 S701 run700 seg700
theorem run702 : runSeg 16 59670 0 S0 = (S702, true) := runSeg_comp 16 59585 85 0 S0 S701 S702 run701 seg701
theorem run703 : runSeg 16 59755 0 S0 = (S703, true) := runSeg_comp 16 59670 85 0 S0 S702 S703 run702 seg702
theorem run704 : runSeg 16 59840 0 S0 = (S704, true) := runSeg_comp 16 59755 85 0 S0 S703 S704 run703 seg703
theorem run705 : runSeg 16 59925 0 S0 = (S705, true) := runSeg_comp 16 59840 85 0 S0 S704 S705 run704 seg704
theorem run706 : runSeg 16 60010 0 S0 = (S706, true) := runSeg_comp 16 59925 85 0 S0 S705 S706 run705 seg705
theorem run707 : runSeg 16 60095 0 S0 = (S707, true) := runSeg_comp 16 60010 85 0 S0 S706 S707 run706 seg706
theorem run708 : runSeg 16 60180 0 S0 = (S708, true) := runSeg_comp 16 60095 85 0 S0 S707 S708 run707 seg707
theorem run709 : runSeg 16 60265 0 S0 = (S709, true) := runSeg_comp 16 60180 85 0 S0 S708 S709 run708 seg708
theorem run710 : runSeg 16 60350 0 S0 = (S710, true) := runSeg_comp 16 60265 85 0 S0 S709 S710 run709 seg709
theorem run711 : runSeg 16 60435 0 S0 = (S711, true) := runSeg_comp 16 60350 85 0 S0 S710 S711 run710 seg710
theorem run712 : runSeg 16 60520 0 S0 = (S712, true) := runSeg_comp 16 60435 85 0 S0 S711 S712 run711 seg711
theorem run713 : runSeg 16 60605 0 S0 = (S713, true) := runSeg_comp 16 60520 85 0 S0 S712 S713 run712 seg712
theorem run714 : runSeg 16 60690 0 S0 = (S714, true) := runSeg_comp 16 60605 85 0 S0 S713 S714 run713 seg713
theorem run715 : runSeg 16 60775 0 S0 = (S715, true) := runSeg_comp 16 60690 85 0 S0 S714 S715 run714 seg714
theorem run716 : runSeg 16 60860 0 S0 = (S716, true) := runSeg_comp 16 60775 85 0 S0 S715 S716 run715 seg715
theorem run717 : runSeg 16 60945 0 S0 = (S717, true) := runSeg_comp 16 60860 85 0 S0 S716 S717 run716 seg716
theorem run718 : runSeg 16 61030 0 S0 = (S718, true) := runSeg_comp 16 60945 85 0 S0 S717 S718 run717 seg717
theorem run719 : runSeg 16 61115 0 S0 = (S719, true) := runSeg_comp 16 61030 85 0 S0 S718 S719 run718 seg718
theorem run720 : runSeg 16 61200 0 S0 = (S720, true) := runSeg_comp 16 61115 85 0 S0 S719 S720 run719 seg719
theorem run721 : runSeg 16 61285 0 S0 = (S721, true) := runSeg_comp 16 61200 85 0 S0 S720 S721 run720 seg720
theorem run722 : runSeg 16 61370 0 S0 = (S722, true) := runSeg_comp 16 61285 85 0 S0 S721 S722 run721 seg721
theorem run723 : runSeg 16 61455 0 S0 = (S723, true) := runSeg_comp 16 61370 85 0 S0 S722 S723 run722 seg722
theorem run724 : runSeg 16 61540 0 S0 = (S724, true) := runSeg_comp 16 61455 85 0 S0 S723 S724 run723 seg723
theorem run725 : runSeg 16 61625 0 S0 = (S725, true) := runSeg_comp 16 61540 85 0 S0 S724 S725 run724 seg724
theorem run726 : runSeg 16 61710 0 S0 = (S726, true) := runSeg_comp 16 61625 85 0 S0 S725 S726 run725 seg725
theorem run727 : runSeg 16 61795 0 S0 = (S727, true) := runSeg_comp 16 61710 85 0 S0 S726 S727 run726 seg726
theorem run728 : runSeg 16 61880 0 S0 = (S728, true) := runSeg_comp 16 61795 85 0 S0 S727 S728 run727 seg727
theorem run729 : runSeg 16 61965 0 S0 = (S729, true) := runSeg_comp 16 61880 85 0 S0 S728 S729 run728 seg728
theorem run730 : runSeg 16 62050 0 S0 = (S730, true) := runSeg_comp 16 61965 85 0 S0 S729 S730 run729 seg729
theorem run731 : runSeg 16 62135 0 S0 = (S731, true) := runSeg_comp 16 62050 85 0 S0 S730 S731 run730 seg730
theorem run732 : runSeg 16 62220 0 S0 = (S732, true) := runSeg_comp 16 62135 85 0 S0 S731 S732 run731 seg731
theorem run733 : runSeg 16 62305 0 S0 = (S733, true) := runSeg_comp 16 62220 85 0 S0 S732 S733 run732 seg732
theorem run734 : runSeg 16 62390 0 S0 = (S734, true) := runSeg_comp 16 62305 85 0 S0 S733 S734 run733 seg733
theorem run735 : runSeg 16 62475 0 S0 = (S735, true) := runSeg_comp 16 62390 85 0 S0 S734 S735 run734 seg734
theorem run736 : runSeg 16 62560 0 S0 = (S736, true) := runSeg_comp 16 62475 85 0 S0 S735 S736 run735 seg735
theorem run737 : runSeg 16 62645 0 S0 = (S737, true) := runSeg_comp 16 62560 85 0 S0 S736 S737 run736 seg736
theorem run738 : runSeg 16 62730 0 S0 = (S738, true) := runSeg_comp 16 62645 85 0 S0 S737 S738 run737 seg737
theorem run739 : runSeg 16 62815 0 S0 = (S739, true) := runSeg_comp 16 62730 85 0 S0 S738 S739 run738 seg738
theorem run740 : runSeg 16 62900 0 S0 = (S740, true) := runSeg_comp 16 62815 85 0 S0 S739 S740 run739 seg739
theorem run741 : runSeg 16 62985 0 S0 = (S741, true) := runSeg_comp 16 62900 85 0 S0 S740 S741 run740 seg740
theorem run742 : runSeg 16 63070 0 S0 = (S742, true) := runSeg_comp 16 62985 85 0 S0 S741 S742 run741 seg741
theorem run743 : runSeg 16 63155 0 S0 = (S743, true) := runSeg_comp 16 63070 85 0 S0 S742 S743 run742 seg742
theorem run744 : runSeg 16 63240 0 S0 = (S744, true) := runSeg_comp 16 63155 85 0 S0 S743 S744 run743 seg743
theorem run745 : runSeg 16 63325 0 S0 = (S745, true) := runSeg_comp 16 63240 85 0 S0 S744 S745 run744 seg744
theorem run746 : runSeg 16 63410 0 S0 = (S746, true) := runSeg_comp 16 63325 85 0 S0 S745 S746 run745 seg745
theorem run747 : runSeg 16 63495 0 S0 = (S747, true) := runSeg_comp 16 63410 85 0 S0 S746 S747 run746 seg746
theorem run748 : runSeg 16 63580 0 S0 = (S748, true) := runSeg_comp 16 63495 85 0 S0 S747 S748 run747 seg747
theorem run749 : runSeg 16 63665 0 S0 = (S749, true) := runSeg_comp 16 63580 85 0 S0 S748 S749 run748 seg748
theorem run750 : runSeg 16 63750 0 S0 = (S750, true) := runSeg_comp 16 63665 85 0 S0 S749 S750 run749 seg749
theorem run751 : runSeg 16 63835 0 S0 = (S751, true) := runSeg_comp 16 63750 85 0 S0 S750 S751 run750 seg750
theorem run752 : runSeg 16 63920 0 S0 = (S752, true) := runSeg_comp 16 63835 85 0 S0 S751 S752 run751 seg751
theorem run753 : runSeg 16 64005 0 S0 = (S753, true) := runSeg_comp 16 63920 85 0 S0 S752 S753 run752 seg752
theorem run754 : runSeg 16 64090 0 S0 = (S754, true) := runSeg_comp 16 64005 85 0 S0 S753 S754 run753 seg753
theorem run755 : runSeg 16 64175 0 S0 = (S755, true) := runSeg_comp 16 64090 85 0 S0 S754 S755 run754 seg754
theorem run756 : runSeg 16 64260 0 S0 = (S756, true) := runSeg_comp 16 64175 85 0 S0 S755 S756 run755 seg755
theorem run757 : runSeg 16 64345 0 S0 = (S757, true) := runSeg_comp 16 64260 85 0 S0 S756 S757 run756 seg756
theorem run758 : runSeg 16 64430 0 S0 = (S758, true) := runSeg_comp 16 64345 85 0 S0 S757 S758 run757 seg757
theorem run759 : runSeg 16 64515 0 S0 = (S759, true) := runSeg_comp 16 64430 85 0 S0 S758 S759 run758 seg758
theorem run760 : runSeg 16 64600 0 S0 = (S760, true) := runSeg_comp 16 64515 85 0 S0 S759 S760 run759 seg759
theorem run761 : runSeg 16 64685 0 S0 = (S761, true) := runSeg_comp 16 64600 85 0 S0 S760 S761 run760 seg760
theorem run762 : runSeg 16 64770 0 S0 = (S762, true) := runSeg_comp 16 64685 85 0 S0 S761 S762 run761 seg761
theorem run763 : runSeg 16 64855 0 S0 = (S763, true) := runSeg_comp 16 64770 85 0 S0 S762 S763 run762 seg762
theorem run764 : runSeg 16 64940 0 S0 = (S764, true) := runSeg_comp 16 64855 85 0 S0 S763 S764 run763 seg763
theorem run765 : runSeg 16 65025 0 S0 = (S765, true) := runSeg_comp 16 64940 85 0 S0 S764 S765 run764 seg764
theorem run766 : runSeg 16 65110 0 S0 = (S766, true) := runSeg_comp 16 65025 85 0 S0 S765 S766 run765 seg765
theorem run767 : runSeg 16 65195 0 S0 = (S767, true) := runSeg_comp 16 65110 85 0 S0 S766 S767 run766 seg766
theorem run768 : runSeg 16 65280 0 S0 = (S768, true) := runSeg_comp 16 65195 85 0 S0 S767 S768 run767 seg767
theorem run769 : runSeg 16 65365 0 S0 = (S769, true) := runSeg_comp 16 65280 85 0 S0 S768 S769 run768 seg768
theorem run770 : runSeg 16 65450 0 S0 = (S770, true) := runSeg_comp 16 65365 85 0 S0 S769 S770 run769 seg769
theorem run771 : runSeg 16 65535 0 S0 = (S771, true) := runSeg_comp 16 65450 85 0 S0 S770 S771 run770 seg770

/-- the traversal of height 16 keeps the true authentication path at all 65536 indices -/
theorem traversal : TraversalCorrect 16 :=
  traversal_of_run 16 65535 S0 S771 (by decide) setup run771 last
end Qrl.BdsLabel.Seg16
