import QrlModel.Proofs.XmssE2E
/-! `Xmss.craft` produces triples the verifier accepts: for every Winternitz parameter in {4, 16, 256}, every hash
function id 0..2, every even height 4..30, every index below 2^32, every message and every choice of the random parts.
This is what entitles the harness to treat crafted triples as *valid by the scheme's definition* at heights where no
key can be generated. -/
namespace Qrl.Xmss

section
variable (hash : Bytes → Bytes) (pubSeed : Bytes)

theorem foldl_authStep_len (hl : ∀ x, (hash x).length = 32) : ∀ (xs : List (Bytes × Nat)) (acc : Bytes × Nat),
    acc.1.length = 32 → (xs.foldl (authStep hash pubSeed) acc).1.length = 32
  | [], _, h => h
  | x :: xs, acc, _ => by
    rw [List.foldl_cons]
    apply foldl_authStep_len hl xs
    obtain ⟨node, idx⟩ := acc
    obtain ⟨a, i⟩ := x
    simp only [authStep]
    split <;> exact nodeH_len hash hl _ _ _ _ _
end

section
variable (hashOf : Nat → Bytes → Bytes)

theorem craft_valid (hlen : ∀ hf x, (hashOf hf x).length = 32) (w : Nat) (p : WParams) (hw : wparams? w = some p)
    (hf h idx : Nat) (hhf : hf ≤ 2) (h4 : 4 ≤ h) (h30 : h ≤ 30) (hev : h % 2 = 0) (hidx : idx < 4294967296)
    (msg otsSeed pubSeed r : Bytes) (auth : List Bytes) (hps : pubSeed.length = 32) (hr : r.length = 32)
    (hal : h ≤ auth.length) (ha32 : ∀ x ∈ auth, x.length = 32) :
    ∃ sig pk, craft hashOf p hf h idx msg otsSeed pubSeed r auth = .ok (sig, pk) ∧ verifyW hashOf msg sig pk w = .ok true := by
  have hp := wparams_good hw
  set hash := hashOf hf with hhash
  have hl : ∀ x, (hash x).length = 32 := fun x => hlen hf x
  set A := auth.take h with hA
  have hAl : A.length = h := by rw [hA, List.length_take]; omega
  have hA32 : ∀ x ∈ A, x.length = 32 := fun x hx => ha32 x (List.mem_of_mem_take hx)
  set root := validateAuthPath hash pubSeed (lTree hash pubSeed idx p.len 0 (wotsPKGen hash p otsSeed pubSeed idx)) idx A with hroot
  obtain ⟨ws, hws, hwl, hwpk⟩ := wots_pk_from_sig hash p hp (hMsg hash msg (r ++ root ++ toBytesBE idx 32)) otsSeed pubSeed idx (hl _)
  have hW32 : ∀ x ∈ ws, x.length = 32 := by
    intro x hx
    simp only [wotsSign, bind, Outcome.bind] at hws
    split at hws
    · injection hws with hws
      subst hws
      simp only [List.mem_map] at hx
      obtain ⟨⟨⟨sk, dd⟩, j⟩, hm, rfl⟩ := hx
      apply genChain_len hash hl
      have := List.fst_mem_of_mem_zipIdx hm
      exact expandSeed_len hash hl _ _ sk (List.of_mem_zip this).1
    · cases hws
    · cases hws
  refine ⟨toBytesBE idx 4 ++ r ++ ws.flatten ++ A.flatten, Desc.bytes ⟨hf, 0, h, 0⟩ ++ root ++ pubSeed, ?_, ?_⟩
  · unfold craft
    simp only [bind, Outcome.bind, pure, ← hhash, ← hA, ← hroot, hws]
  · rw [C04.accept_iff]
    have hdesc : Desc.ofPrefix (Desc.bytes ⟨hf, 0, h, 0⟩ ++ root ++ pubSeed) = ⟨hf, 0, h, 0⟩ := by
      rw [List.append_assoc, C11.ofPrefix_append]
      exact C11.desc_roundtrip ⟨hf, 0, h, 0⟩ (by simp; omega) (by simp) (by simp) (by simpa using hev) (by simpa using h30)
    have hrootl : root.length = 32 := by
      rw [hroot, validateAuthPath_eq]
      apply foldl_authStep_len hash pubSeed hl
      exact lTree_len hash hl pubSeed idx _ _ _ (wotsPKGen_len hash hl p otsSeed pubSeed idx)
    have hWf := flatten_len32 ws hW32
    have hAf := flatten_len32 A hA32
    refine ⟨p, ⟨hw, by rw [hdesc], by rw [hdesc]; simp [supportedHash]; omega, ?_, by rw [hdesc]; exact hev, by rw [hdesc]; exact h4, by rw [hdesc]; exact h30⟩, ?_⟩
    · rw [hdesc]
      simp only [List.length_append, toBytesBE_length, hr, hWf, hAf, hwl, hAl, WParams.keySize]
      omega
    · rw [hdesc]
      have hpk : (Desc.bytes ⟨hf, 0, h, 0⟩ ++ root ++ pubSeed).drop 3 = root ++ pubSeed := by
        rw [List.append_assoc, List.drop_left' (by simp [Desc.bytes])]
      rw [hpk]
      show verifySig hashOf hf p msg _ _ h = _
      rw [verifySig_explicit hashOf hf p msg r root pubSeed ws A idx h hidx hr hrootl hps hwl hW32 hAl hA32]
      rw [← hhash, hwpk]
      simp only [← hroot, beq_self_eq_true]

end
end Qrl.Xmss
