import QrlModel.Proofs.DilHints
import QrlModel.Proofs.DilPack
/-! Whole-signature canonicity (accepted ⇒ re-encodes to the same bytes) and the hint-vector round trip. -/
namespace Qrl.DilHints
open Qrl.Dil Gen.Dil

/-- **accepted signatures are canonical**: whenever `unpackSig` accepts a 4595-byte string, `packSig` of the
decoded (c̃, z, h) reproduces exactly those bytes -/
theorem sig_canonical (sig : Bytes) (hl : sig.length = CryptoBytes) (parts : SigParts) (h : unpackSig sig = some parts) :
    packSig parts.c parts.z parts.h = sig := by
  unfold unpackSig at h
  simp only at h
  split at h; · cases h
  rename_i hh hu
  injection h with h; subst h
  have hCB : CryptoBytes = 4595 := rfl
  have hL : L = 7 := rfl
  have hOM : OMEGA = 75 := rfl
  have hK : K = 8 := rfl
  simp only [packSig]
  have hhint := hints_canonical (sig.drop (32 + L * 640)) (by simp [hl, hCB, hL, hOM, hK]) hh hu
  rw [hhint]
  have hz : ((chunks 640 ((sig.drop 32).take (L * 640))).map polyZUnpack).flatMap polyZPack = (sig.drop 32).take (L * 640) := by
    rw [List.flatMap_map]
    exact (flatMap_chunks_id 640 (by decide) (fun c => polyZPack (polyZUnpack c)) (fun c hc => DilPack.z_canonical c hc) L _
      (by simp [hl, hCB, hL])).1
  rw [hz]
  have e : sig.drop (32 + L * 640) = (sig.drop 32).drop (L * 640) := by rw [List.drop_drop]
  rw [e, List.append_assoc, List.take_append_drop, List.take_append_drop]

-- ---------------------------------------------------------------- pack then unpack

theorem strictInc_filter_range' (pr : Nat → Bool) : ∀ (n lo : Nat), StrictInc ((List.range' lo n).filter pr) ∧
    ∀ x ∈ (List.range' lo n).filter pr, lo ≤ x ∧ x < lo + n
  | 0, lo => by simp [StrictInc]
  | n+1, lo => by
    obtain ⟨ih1, ih2⟩ := strictInc_filter_range' pr n (lo+1)
    rw [List.range'_succ, List.filter_cons]
    split
    · refine ⟨?_, ?_⟩
      · cases hf : (List.range' (lo+1) n).filter pr with
        | nil => trivial
        | cons b t =>
          rw [hf] at ih1 ih2
          exact ⟨by have := (ih2 b (by simp)).1; omega, ih1⟩
      · intro x hx
        rcases List.mem_cons.mp hx with rfl | hx
        · omega
        · have := ih2 x hx; omega
    · exact ⟨ih1, fun x hx => by have := ih2 x hx; omega⟩

theorem rowPositions_strictInc (row : Poly) : StrictInc (rowPositions row) ∧ ∀ x ∈ rowPositions row, x < 256 := by
  unfold rowPositions
  rw [List.range_eq_range']
  obtain ⟨h1, h2⟩ := strictInc_filter_range' (fun j => row.getD j 0#32 != 0#32) Dil.N 0
  exact ⟨h1, fun x hx => by have := (h2 x hx).2; simpa [Dil.N] using this⟩

/-- a 0/1 row of length 256 is the indicator of its positions -/
theorem mark_rowPositions (row : Poly) (hl : row.length = 256) (h01 : ∀ c ∈ row, c = 0#32 ∨ c = 1#32) :
    mark zeroPoly (rowPositions row) = row := by
  apply List.ext_getElem
  · rw [mark_length, zeroPoly_length, hl]
  · intro j h1 h2
    have hj : j < 256 := by rw [mark_length, zeroPoly_length] at h1; exact h1
    have := mark_getD (rowPositions row) zeroPoly j (by rw [zeroPoly_length]; exact hj)
    simp only [List.getD_eq_getElem?_getD, List.getElem?_eq_getElem h1, Option.getD_some] at this
    rw [this]
    have hmem : j ∈ rowPositions row ↔ row[j] ≠ 0#32 := by
      unfold rowPositions
      simp [List.mem_filter, Dil.N, hj, List.getD_eq_getElem?_getD, List.getElem?_eq_getElem h2]
    by_cases hz : row[j] = 0#32
    · have : j ∉ rowPositions row := fun hm => (hmem.mp hm) hz
      rw [if_neg this, hz]
      have := zeroPoly_getD j
      simpa [List.getD_eq_getElem?_getD] using this
    · have hm : j ∈ rowPositions row := hmem.mpr hz
      rw [if_pos hm]
      rcases h01 row[j] (List.getElem_mem h2) with h | h
      · exact absurd h hz
      · exact h.symm

/-- `decodeRow` succeeds on a strictly increasing run of position bytes -/
theorem decodeRow_ok (hs : Bytes) (k : Nat) : ∀ (n j : Nat) (p : Poly), k ≤ j →
    StrictInc (if j > k then byteAt hs (j-1) :: (List.range' j n).map (byteAt hs) else (List.range' j n).map (byteAt hs)) →
    decodeRow hs k n j p = some (mark p ((List.range' j n).map (byteAt hs)))
  | 0, j, p, _, _ => by simp [decodeRow, mark]
  | n+1, j, p, hkj, hsi => by
    rw [List.range'_succ, List.map_cons] at hsi
    simp only [decodeRow]
    have hcond : ¬ (j > k ∧ (hs.getD j 0).toNat ≤ (hs.getD (j-1) 0).toNat) := by
      intro ⟨hjk, hle⟩
      simp only [hjk, if_true] at hsi
      have := hsi.1
      simp only [byteAt] at this
      omega
    rw [if_neg hcond]
    have hnext : StrictInc (if j + 1 > k then byteAt hs (j + 1 - 1) :: (List.range' (j+1) n).map (byteAt hs) else (List.range' (j+1) n).map (byteAt hs)) := by
      have : j + 1 > k := by omega
      simp only [this, if_true, Nat.add_sub_cancel]
      split at hsi
      · exact hsi.2
      · exact hsi
    rw [decodeRow_ok hs k n (j+1) _ (by omega) hnext]
    simp [mark, List.range'_succ, byteAt]

def ValidRow (row : Poly) : Prop := row.length = 256 ∧ ∀ c ∈ row, c = 0#32 ∨ c = 1#32

/-- the row loop succeeds on bytes that list the rows' positions consecutively from `k` with matching counts -/
theorem unpackRows_ok (hs : Bytes) : ∀ (rest : List Poly) (i k : Nat), (∀ r ∈ rest, ValidRow r) →
    (∀ t, t < ((rest.map rowPositions).flatten).length → byteAt hs (k + t) = ((rest.map rowPositions).flatten).getD t 0) →
    cumCounts k (rest.map rowPositions) = (List.range' i rest.length).map (fun r => byteAt hs (OMEGA + r)) →
    k + ((rest.map rowPositions).flatten).length ≤ OMEGA →
    unpackRows hs rest.length i k = some (rest, k + ((rest.map rowPositions).flatten).length)
  | [], i, k, _, _, _, _ => by simp [unpackRows]
  | r :: rest, i, k, hv, hflat, hcnt, hle => by
    simp only [List.map_cons, List.flatten_cons, List.length_append, List.length_cons] at hflat hcnt hle ⊢
    rw [List.range'_succ, List.map_cons] at hcnt
    simp only [cumCounts, List.cons.injEq] at hcnt
    obtain ⟨hc0, hcr⟩ := hcnt
    simp only [unpackRows]
    have hb : (hs.getD (OMEGA + i) 0).toNat = k + (rowPositions r).length := hc0.symm
    rw [hb]
    have hnot : ¬ (k + (rowPositions r).length < k ∨ k + (rowPositions r).length > OMEGA) := by omega
    rw [if_neg hnot]
    have hm : k + (rowPositions r).length - k = (rowPositions r).length := by omega
    rw [hm]
    -- the bytes of this segment are the positions of the row
    have hseg : (List.range' k (rowPositions r).length).map (byteAt hs) = rowPositions r := by
      apply List.ext_getElem
      · simp
      · intro t h1 h2
        simp only [List.getElem_map, List.getElem_range', Nat.one_mul]
        have := hflat t (by omega)
        rw [this, List.getD_eq_getElem?_getD, List.getElem?_append_left h2, List.getElem?_eq_getElem h2]; rfl
    have hsi : StrictInc (if k > k then byteAt hs (k-1) :: (List.range' k (rowPositions r).length).map (byteAt hs)
        else (List.range' k (rowPositions r).length).map (byteAt hs)) := by
      rw [if_neg (Nat.lt_irrefl k), hseg]; exact (rowPositions_strictInc r).1
    rw [decodeRow_ok hs k _ k zeroPoly (Nat.le_refl _) hsi, hseg,
        mark_rowPositions r (hv r (by simp)).1 (hv r (by simp)).2]
    simp only
    have ih := unpackRows_ok hs rest (i+1) (k + (rowPositions r).length) (fun q hq => hv q (by simp [hq]))
      (by
        intro t ht
        have := hflat ((rowPositions r).length + t) (by omega)
        rw [Nat.add_assoc, this, List.getD_eq_getElem?_getD, List.getD_eq_getElem?_getD,
            List.getElem?_append_right (by omega)]
        congr 2; omega)
      hcr (by omega)
    rw [ih]
    simp [Nat.add_assoc]

theorem cumCounts_le : ∀ (pos : List (List Nat)) (k : Nat), ∀ c ∈ cumCounts k pos, c ≤ k + pos.flatten.length
  | [], _, c, hc => by simp [cumCounts] at hc
  | r :: rest, k, c, hc => by
    simp only [cumCounts, List.mem_cons] at hc
    simp only [List.flatten_cons, List.length_append]
    rcases hc with rfl | hc
    · omega
    · have := cumCounts_le rest (k + r.length) c hc; omega

theorem cumCounts_length : ∀ (pos : List (List Nat)) (k : Nat), (cumCounts k pos).length = pos.length
  | [], _ => rfl
  | r :: rest, k => by simp [cumCounts, cumCounts_length rest]

theorem u8_toNat_ofNat_lt (n : Nat) (h : n < 256) : (UInt8.ofNat n).toNat = n := by
  simp [UInt8.ofNat, UInt8.toNat, Nat.mod_eq_of_lt h]

/-- **hint vectors of every admissible weight round-trip**: K rows of 256 coefficients in {0,1} with total
weight ≤ ω (empty rows and weight exactly ω included) decode back from their encoding -/
theorem hints_roundtrip (h : List Poly) (hK : h.length = K) (hv : ∀ r ∈ h, ValidRow r)
    (hw : ((h.map rowPositions).flatten).length ≤ OMEGA) : unpackHints (packHints h) = some h := by
  have hOM : OMEGA = 75 := rfl
  have hK8 : K = 8 := rfl
  generalize hpos : h.map rowPositions = pos at *
  have hposl : pos.length = 8 := by rw [← hpos]; simp [hK, hK8]
  let n := pos.flatten.length
  have hlt : ∀ x ∈ pos.flatten, x < 256 := by
    intro x hx
    obtain ⟨l, hl, hxl⟩ := List.mem_flatten.mp hx
    rw [← hpos] at hl
    obtain ⟨r, _, rfl⟩ := List.mem_map.mp hl
    exact (rowPositions_strictInc r).2 x hxl
  have hF : (pos.flatten.map UInt8.ofNat).length = n := by rw [List.length_map]
  have hbyte : ∀ t, t < n → byteAt (packHints h) (0 + t) = pos.flatten.getD t 0 := by
    intro t ht
    unfold packHints
    simp only [hpos, byteAt, Nat.zero_add]
    rw [List.append_assoc, List.getD_eq_getElem?_getD, List.getElem?_append_left (by rw [hF]; exact ht)]
    rw [List.getElem?_map, List.getD_eq_getElem?_getD, List.getElem?_eq_getElem ht]
    simp only [Option.map_some, Option.getD_some]
    exact u8_toNat_ofNat_lt _ (hlt _ (List.getElem_mem ht))
  have hcnt : cumCounts 0 pos = (List.range' 0 h.length).map (fun r => byteAt (packHints h) (OMEGA + r)) := by
    apply List.ext_getElem
    · rw [cumCounts_length, List.length_map, List.length_range', hposl, hK, hK8]
    · intro r h1 h2
      simp only [List.getElem_map, List.getElem_range', Nat.one_mul, Nat.zero_add]
      unfold packHints
      simp only [hpos, byteAt]
      have hpre : (pos.flatten.map UInt8.ofNat ++ zeros (OMEGA - pos.flatten.length)).length = OMEGA := by
        rw [List.length_append, List.length_map]; unfold zeros; rw [List.length_replicate]; omega
      rw [List.getD_eq_getElem?_getD, List.getElem?_append_right (by rw [hpre]; omega), hpre]
      have : OMEGA + r - OMEGA = r := by omega
      rw [this, List.getElem?_map, List.getElem?_eq_getElem h1]
      simp only [Option.map_some, Option.getD_some]
      have := cumCounts_le pos 0 _ (List.getElem_mem h1)
      rw [u8_toNat_ofNat_lt _ (by omega)]
  have key := unpackRows_ok (packHints h) h 0 0 hv (by rw [hpos]; exact hbyte) (by rw [hpos]; exact hcnt) (by rw [hpos]; omega)
  rw [hK, hpos, Nat.zero_add] at key
  unfold unpackHints
  rw [key]
  simp only
  have hpad : ¬ ((List.range (OMEGA - n)).any (fun d => (packHints h).getD (n + d) 0 != 0) = true) := by
    simp only [List.any_eq_true, List.mem_range, bne_iff_ne, ne_eq, not_exists, not_and, Decidable.not_not]
    intro d hd
    unfold packHints
    simp only [hpos]
    rw [List.append_assoc, List.getD_eq_getElem?_getD, List.getElem?_append_right (by rw [hF]; omega), hF]
    have : n + d - n = d := by omega
    rw [this, List.getElem?_append_left (by unfold zeros; rw [List.length_replicate]; exact hd)]
    unfold zeros
    rw [List.getElem?_replicate, if_pos hd]; rfl
  rw [if_neg hpad]

end Qrl.DilHints
