import QrlModel.Proofs.NttField
/-! Linearity of the field-level transforms and the second inversion identity `nttF ∘ invF = 2^levels`. -/
namespace Qrl.NttF

variable {F : Type} [CommRing F]

theorem zipWith_map_lin' (op : F → F → F) (s : F) (h : ∀ x y, op (x * s) (y * s) = op x y * s) (l r : List F) :
    List.zipWith op (l.map (· * s)) (r.map (· * s)) = (List.zipWith op l r).map (· * s) := by
  rw [List.zipWith_map, List.map_zipWith]
  congr 1; funext x y; exact h x y

theorem nttF_smul (z : Nat → F) (s : F) : ∀ (lvl k : Nat) (a : List F),
    nttF z lvl k (a.map (· * s)) = (nttF z lvl k a).map (· * s)
  | 0, _, _ => rfl
  | lvl+1, k, a => by
    simp only [nttF, List.length_map]
    rw [← List.map_take, ← List.map_drop, zipWith_map_lin' _ s (fun x y => by ring), zipWith_map_lin' _ s (fun x y => by ring),
      nttF_smul z s lvl, nttF_smul z s lvl, List.map_append]

theorem invF_smul' (z : Nat → F) (s : F) : ∀ (lvl k : Nat) (a : List F),
    invF z lvl k (a.map (· * s)) = (invF z lvl k a).map (· * s)
  | 0, _, _ => rfl
  | lvl+1, k, a => by
    simp only [invF, List.length_map]
    rw [← List.map_take, ← List.map_drop, invF_smul' z s lvl, invF_smul' z s lvl, List.map_append,
      zipWith_map_lin' _ s (fun x y => by ring), zipWith_map_lin' _ s (fun x y => by ring), List.map_map, List.map_map]
    congr 1
    apply List.map_congr_left; intro x _; simp only [Function.comp]; ring

/-- a binary operation that commutes with the butterflies -/
theorem zipWith_zipWith_comm (f g : F → F → F) (h : ∀ a b c d, f (g a b) (g c d) = g (f a c) (f b d)) :
    ∀ (a b c d : List F), List.zipWith f (List.zipWith g a b) (List.zipWith g c d) = List.zipWith g (List.zipWith f a c) (List.zipWith f b d)
  | [], _, _, _ => by simp
  | _ :: _, [], _, _ => by simp
  | _ :: _, _ :: _, [], _ => by simp
  | _ :: _, _ :: _, _ :: _, [] => by simp
  | a :: as, b :: bs, c :: cs, d :: ds => by
    simp only [List.zipWith_cons_cons, h, zipWith_zipWith_comm f g h as bs cs ds]

theorem zipWith_length_eq {α β γ} (f : α → β → γ) (a : List α) (b : List β) (h : a.length = b.length) : (List.zipWith f a b).length = a.length := by
  rw [List.length_zipWith, h, Nat.min_self]

/-- additivity of the forward transform (any operation `g` with `g (x + t·y) (x' + t·y') = g x x' + t · g y y'`, i.e. + or −) -/
theorem nttF_lin (z : Nat → F) (g : F → F → F) (hg : ∀ t a b c d : F, g (a + t * b) (c + t * d) = g a c + t * g b d) :
    ∀ (lvl k : Nat) (a b : List F), a.length = 2 ^ lvl → b.length = 2 ^ lvl →
    nttF z lvl k (List.zipWith g a b) = List.zipWith g (nttF z lvl k a) (nttF z lvl k b)
  | 0, _, _, _, _, _ => rfl
  | lvl+1, k, a, b, ha, hb => by
    have hl : a.length = b.length := by rw [ha, hb]
    simp only [nttF]
    have hlen : (List.zipWith g a b).length = a.length := zipWith_length_eq g a b hl
    rw [hlen, ← hl, List.take_zipWith, List.drop_zipWith]
    have e1 : ∀ t : F, List.zipWith (fun x y => x + t * y) (List.zipWith g (a.take (a.length/2)) (b.take (a.length/2))) (List.zipWith g (a.drop (a.length/2)) (b.drop (a.length/2))) =
        List.zipWith g (List.zipWith (fun x y => x + t * y) (a.take (a.length/2)) (a.drop (a.length/2))) (List.zipWith (fun x y => x + t * y) (b.take (a.length/2)) (b.drop (a.length/2))) := by
      intro t
      rw [zipWith_zipWith_comm (fun x y => x + t * y) g]
      intro p q r s; exact (hg t p r q s).symm
    rw [e1, e1]
    have hhalf : a.length / 2 = 2 ^ lvl := by rw [ha, pow_succ]; omega
    have la : ∀ t : F, (List.zipWith (fun x y => x + t * y) (a.take (a.length/2)) (a.drop (a.length/2))).length = 2 ^ lvl := by
      intro t; simp only [List.length_zipWith, List.length_take, List.length_drop, hhalf, ha, pow_succ]; omega
    have lb : ∀ t : F, (List.zipWith (fun x y => x + t * y) (b.take (a.length/2)) (b.drop (a.length/2))).length = 2 ^ lvl := by
      intro t; simp only [List.length_zipWith, List.length_take, List.length_drop, hhalf, hb, pow_succ]; omega
    rw [nttF_lin z g hg lvl _ _ _ (la _) (lb _), nttF_lin z g hg lvl _ _ _ (la _) (lb _)]
    rw [List.zipWith_append]
    rw [nttF_length z lvl _ _ (la _), nttF_length z lvl _ _ (lb _)]

theorem nttF_add (z : Nat → F) (lvl k : Nat) (a b : List F) (ha : a.length = 2 ^ lvl) (hb : b.length = 2 ^ lvl) :
    nttF z lvl k (List.zipWith (· + ·) a b) = List.zipWith (· + ·) (nttF z lvl k a) (nttF z lvl k b) :=
  nttF_lin z (· + ·) (fun t a b c d => by ring) lvl k a b ha hb

theorem nttF_sub (z : Nat → F) (lvl k : Nat) (a b : List F) (ha : a.length = 2 ^ lvl) (hb : b.length = 2 ^ lvl) :
    nttF z lvl k (List.zipWith (· - ·) a b) = List.zipWith (· - ·) (nttF z lvl k a) (nttF z lvl k b) :=
  nttF_lin z (· - ·) (fun t a b c d => by ring) lvl k a b ha hb

/-- additivity of the inverse transform -/
theorem invF_lin (z : Nat → F) (g : F → F → F) (hadd : ∀ a b c d : F, g a b + g c d = g (a + c) (b + d)) (hsub : ∀ a b c d : F, g a b - g c d = g (a - c) (b - d))
    (hmul : ∀ a b t : F, g a b * t = g (a * t) (b * t)) :
    ∀ (lvl k : Nat) (a b : List F), a.length = 2 ^ lvl → b.length = 2 ^ lvl →
    invF z lvl k (List.zipWith g a b) = List.zipWith g (invF z lvl k a) (invF z lvl k b)
  | 0, _, _, _, _, _ => rfl
  | lvl+1, k, a, b, ha, hb => by
    have hl : a.length = b.length := by rw [ha, hb]
    simp only [invF]
    have hlen : (List.zipWith g a b).length = a.length := zipWith_length_eq g a b hl
    rw [hlen, ← hl, List.take_zipWith, List.drop_zipWith]
    have hhalf : a.length / 2 = 2 ^ lvl := by rw [ha, pow_succ]; omega
    have l1 : (a.take (a.length/2)).length = 2 ^ lvl := by rw [List.length_take, hhalf, ha, pow_succ]; omega
    have l2 : (b.take (a.length/2)).length = 2 ^ lvl := by rw [List.length_take, hhalf, hb, pow_succ]; omega
    have l3 : (a.drop (a.length/2)).length = 2 ^ lvl := by rw [List.length_drop, hhalf, ha, pow_succ]; omega
    have l4 : (b.drop (a.length/2)).length = 2 ^ lvl := by rw [List.length_drop, hhalf, hb, pow_succ]; omega
    rw [invF_lin z g hadd hsub hmul lvl _ _ _ l1 l2, invF_lin z g hadd hsub hmul lvl _ _ _ l3 l4]
    have m1 := invF_length z lvl (2*k+1) _ l1
    have m2 := invF_length z lvl (2*k+1) _ l2
    have m3 := invF_length z lvl (2*k) _ l3
    have m4 := invF_length z lvl (2*k) _ l4
    generalize invF z lvl (2*k+1) (a.take (a.length/2)) = A1 at *
    generalize invF z lvl (2*k+1) (b.take (a.length/2)) = B1 at *
    generalize invF z lvl (2*k) (a.drop (a.length/2)) = A2 at *
    generalize invF z lvl (2*k) (b.drop (a.length/2)) = B2 at *
    rw [List.zipWith_append (by simp only [List.length_zipWith, m1, m2, m3, m4])]
    rw [zipWith_zipWith_comm (fun x y => x + y) g (fun a b c d => hadd a b c d),
        zipWith_zipWith_comm (fun x y => x - y) g (fun a b c d => hsub a b c d)]
    congr 1
    rw [List.zipWith_map, List.map_zipWith]
    congr 1; funext x y; exact hmul x y _

theorem invF_add (z : Nat → F) (lvl k : Nat) (a b : List F) (ha : a.length = 2 ^ lvl) (hb : b.length = 2 ^ lvl) :
    invF z lvl k (List.zipWith (· + ·) a b) = List.zipWith (· + ·) (invF z lvl k a) (invF z lvl k b) :=
  invF_lin z (· + ·) (fun a b c d => by ring) (fun a b c d => by ring) (fun a b t => by ring) lvl k a b ha hb

theorem invF_sub (z : Nat → F) (lvl k : Nat) (a b : List F) (ha : a.length = 2 ^ lvl) (hb : b.length = 2 ^ lvl) :
    invF z lvl k (List.zipWith (· - ·) a b) = List.zipWith (· - ·) (invF z lvl k a) (invF z lvl k b) :=
  invF_lin z (· - ·) (fun a b c d => by ring) (fun a b c d => by ring) (fun a b t => by ring) lvl k a b ha hb

/-- Cooley–Tukey undoes Gentleman–Sande up to a factor 2, when the two twiddles multiply to −1 -/
theorem ct_gs (zf zi : F) (h : zf * zi = -1) : ∀ (L H : List F), H.length = L.length →
    List.zipWith (fun x y => x + zf * y) (List.zipWith (fun x y => x + y) L H) ((List.zipWith (fun x y => x - y) L H).map (fun x => x * (-zi))) = L.map (· * 2) ∧
    List.zipWith (fun x y => x + (-zf) * y) (List.zipWith (fun x y => x + y) L H) ((List.zipWith (fun x y => x - y) L H).map (fun x => x * (-zi))) = H.map (· * 2)
  | [], [], _ => by simp
  | [], _ :: _, h => by simp at h
  | _ :: _, [], h => by simp at h
  | x :: L, y :: H, hl => by
    simp only [List.length_cons, Nat.add_right_cancel_iff] at hl
    obtain ⟨ih1, ih2⟩ := ct_gs zf zi h L H hl
    simp only [List.zipWith_cons_cons, List.map_cons, List.cons.injEq]
    refine ⟨⟨?_, ih1⟩, ⟨?_, ih2⟩⟩
    · linear_combination (-(x - y)) * h
    · linear_combination (x - y) * h

/-- **the forward transform undoes the inverse transform up to the factor 2^levels** -/
theorem nttF_invF (z : Nat → F) (hp : PairOK z) : ∀ (lvl ℓ c : Nat) (a : List F), ℓ + lvl < 8 → c < 2 ^ ℓ →
    a.length = 2 ^ (lvl+1) →
    nttF z (lvl+1) (2 ^ ℓ + c) (invF z (lvl+1) (2 ^ (ℓ+1) - 1 - c) a) = a.map (· * 2 ^ (lvl+1))
  | 0, ℓ, c, a, hℓ, hc, hl => by
    match a, hl with
    | [a0, a1], _ =>
      have h := hp ℓ c (by omega) hc
      simp only [nttF, invF]
      simp
      constructor
      · linear_combination (-(a0 - a1)) * h
      · linear_combination (a0 - a1) * h
  | lvl+1, ℓ, c, a, hℓ, hc, hl => by
    have hhalf : a.length / 2 = 2 ^ (lvl+1) := by rw [hl, pow_succ 2 (lvl+1)]; omega
    have hlo : (a.take (a.length / 2)).length = 2 ^ (lvl+1) := by rw [List.length_take, hhalf, hl, pow_succ 2 (lvl+1)]; omega
    have hhi : (a.drop (a.length / 2)).length = 2 ^ (lvl+1) := by rw [List.length_drop, hhalf, hl, pow_succ 2 (lvl+1)]; omega
    have hsplit : a.take (a.length / 2) ++ a.drop (a.length / 2) = a := List.take_append_drop _ a
    have h := hp ℓ c (by omega) hc
    have ef1 : 2 * (2 ^ ℓ + c) = 2 ^ (ℓ+1) + 2*c := by rw [pow_succ]; ring
    have ef2 : 2 * (2 ^ ℓ + c) + 1 = 2 ^ (ℓ+1) + (2*c+1) := by rw [pow_succ]; ring
    have hpow : 2 * c + 2 ≤ 2 ^ (ℓ+1) := by rw [pow_succ]; omega
    have hpow2 : 2 ^ (ℓ+1) * 2 = 2 ^ (ℓ+1+1) := (pow_succ 2 (ℓ+1)).symm
    have ei1 : 2 * (2 ^ (ℓ+1) - 1 - c) + 1 = 2 ^ (ℓ+1+1) - 1 - 2*c := by omega
    have ei2 : 2 * (2 ^ (ℓ+1) - 1 - c) = 2 ^ (ℓ+1+1) - 1 - (2*c+1) := by omega
    have ih1 := nttF_invF z hp lvl (ℓ+1) (2*c) (a.take (a.length / 2)) (by omega) (by omega) hlo
    have ih2 := nttF_invF z hp lvl (ℓ+1) (2*c+1) (a.drop (a.length / 2)) (by omega) (by omega) hhi
    rw [← ef1, ← ei1] at ih1
    rw [← ef2, ← ei2] at ih2
    generalize hL : invF z (lvl+1) (2 * (2 ^ (ℓ+1) - 1 - c) + 1) (a.take (a.length / 2)) = L at ih1
    generalize hH : invF z (lvl+1) (2 * (2 ^ (ℓ+1) - 1 - c)) (a.drop (a.length / 2)) = H at ih2
    have hLl : L.length = 2 ^ (lvl+1) := by rw [← hL]; exact invF_length z _ _ _ hlo
    have hHl : H.length = 2 ^ (lvl+1) := by rw [← hH]; exact invF_length z _ _ _ hhi
    have hinv : invF z (lvl+1+1) (2 ^ (ℓ+1) - 1 - c) a =
        List.zipWith (fun x y => x + y) L H ++ (List.zipWith (fun x y => x - y) L H).map (fun x => x * (-(z (2 ^ (ℓ+1) - 1 - c)))) := by
      rw [← hL, ← hH]; rfl
    rw [hinv]
    have hl1 : (List.zipWith (fun x y => x + y) L H).length = 2 ^ (lvl+1) := by rw [List.length_zipWith, hLl, hHl]; simp
    have hl2 : ((List.zipWith (fun x y => x - y) L H).map (fun x => x * (-(z (2 ^ (ℓ+1) - 1 - c))))).length = 2 ^ (lvl+1) := by
      rw [List.length_map, List.length_zipWith, hLl, hHl]; simp
    generalize hX : List.zipWith (fun x y => x + y) L H = X at *
    generalize hY : (List.zipWith (fun x y => x - y) L H).map (fun x => x * (-(z (2 ^ (ℓ+1) - 1 - c)))) = Y at *
    have hh2 : (X ++ Y).length / 2 = X.length := by rw [List.length_append, hl1, hl2]; omega
    show nttF z (lvl+1) (2 * (2 ^ ℓ + c)) (List.zipWith (fun x y => x + z (2 ^ ℓ + c) * y) ((X ++ Y).take ((X ++ Y).length / 2)) ((X ++ Y).drop ((X ++ Y).length / 2))) ++
        nttF z (lvl+1) (2 * (2 ^ ℓ + c) + 1) (List.zipWith (fun x y => x + (-(z (2 ^ ℓ + c))) * y) ((X ++ Y).take ((X ++ Y).length / 2)) ((X ++ Y).drop ((X ++ Y).length / 2))) = _
    rw [hh2, List.take_left, List.drop_left, ← hX, ← hY]
    obtain ⟨g1, g2⟩ := ct_gs (z (2 ^ ℓ + c)) (z (2 ^ (ℓ+1) - 1 - c)) h L H (by rw [hLl, hHl])
    rw [g1, g2, nttF_smul, nttF_smul, ih1, ih2, ← List.map_append, ← List.map_append, hsplit, List.map_map]
    apply List.map_congr_left
    intro x _
    simp only [Function.comp]
    rw [pow_succ 2 (lvl+1)]; ring

end Qrl.NttF
