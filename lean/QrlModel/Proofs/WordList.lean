import QrlModel.Model.Mnemonic
/-! Facts about the *generated* word list (`qrl.WordList` as regenerated from /repo on every run),
by kernel evaluation over the whole 4096-entry table. -/
namespace Qrl.Mnemonic

/-- order-preserving numeric key of a word of at most 6 letters -/
def key (w : Bytes) : Nat := (w.foldl (fun a c => a * 256 + c.toNat) 0) * 256 ^ (6 - w.length)

def strictIncr : List Nat → Bool
  | a :: b :: t => decide (a < b) && strictIncr (b :: t)
  | _ => true

def lowerWord (w : Bytes) : Bool := !w.isEmpty && w.length ≤ 6 && w.all (fun c => 97 ≤ c.toNat && c.toNat ≤ 122)

set_option maxRecDepth 1000000 in
theorem words_length : wordsB.length = 4096 := by decide +kernel

set_option maxRecDepth 1000000 in
theorem words_lower_all : wordsB.all lowerWord = true := by decide +kernel

set_option maxRecDepth 1000000 in
theorem words_keys_sorted : strictIncr (wordsB.map key) = true := by decide +kernel

theorem strictIncr_pairwise : ∀ (l : List Nat), strictIncr l = true → l.Pairwise (· < ·)
  | [], _ => List.Pairwise.nil
  | [_], _ => List.pairwise_singleton _ _
  | a :: b :: t, h => by
    simp only [strictIncr, Bool.and_eq_true, decide_eq_true_eq] at h
    have ih := strictIncr_pairwise (b :: t) h.2
    refine List.Pairwise.cons ?_ ih
    intro x hx
    rcases List.mem_cons.mp hx with rfl | hx
    · exact h.1
    · exact Nat.lt_trans h.1 ((List.pairwise_cons.mp ih).1 x hx)

theorem words_nodup : wordsB.Nodup := by
  have h := strictIncr_pairwise _ words_keys_sorted
  rw [List.pairwise_map] at h
  exact h.imp (fun hlt heq => by rw [heq] at hlt; exact Nat.lt_irrefl _ hlt)

theorem words_lower {w : Bytes} (h : w ∈ wordsB) : lowerWord w = true :=
  List.all_eq_true.mp words_lower_all w h

theorem word_no_space {w : Bytes} (h : w ∈ wordsB) : space ∉ w := by
  have hl := words_lower h
  simp only [lowerWord, Bool.and_eq_true, List.all_eq_true, decide_eq_true_eq] at hl
  intro hs
  have := (hl.2 space hs).1
  simp [space] at this

theorem word_ne_nil {w : Bytes} (h : w ∈ wordsB) : w ≠ [] := by
  have hl := words_lower h
  simp only [lowerWord, Bool.and_eq_true, Bool.not_eq_true', List.isEmpty_eq_false_iff] at hl
  exact hl.1.1

end Qrl.Mnemonic
