import QrlModel.Proofs.DilSigCanon
/-! The signer's hint count (`polyMakeHint`'s return value, summed) is the number of positions the packer writes. -/
namespace Qrl.DilHints
open Qrl.Dil Gen.Dil

theorem foldl_weight : ∀ (l : Poly) (a : Nat), (∀ c ∈ l, c = 0#32 ∨ c = 1#32) →
    l.foldl (fun s x => s + (BitVec.signExtend 64 x).toNat) a = a + l.countP (fun c => c != 0#32)
  | [], a, _ => by simp
  | x :: l, a, h => by
    rw [List.foldl_cons, foldl_weight l _ (fun c hc => h c (by simp [hc])), List.countP_cons]
    rcases h x (by simp) with rfl | rfl
    · simp
    · have : (BitVec.signExtend 64 (1#32)).toNat = 1 := by decide
      rw [this]; simp; omega

theorem filter_range'_count : ∀ (l pre : Poly),
    ((List.range' pre.length l.length).filter (fun j => (pre ++ l).getD j 0#32 != 0#32)).length = l.countP (fun c => c != 0#32)
  | [], _ => by simp
  | x :: l, pre => by
    have ih := filter_range'_count l (pre ++ [x])
    have e : pre ++ [x] ++ l = pre ++ x :: l := by simp
    have el : (pre ++ [x]).length = pre.length + 1 := by simp
    rw [e, el] at ih
    have hx : (pre ++ x :: l).getD pre.length 0#32 = x := by simp [List.getD_eq_getElem?_getD]
    simp only [List.length_cons, List.range'_succ, List.filter_cons, hx, List.countP_cons]
    split <;> simp_all

theorem filter_range_count (l : Poly) :
    ((List.range l.length).filter (fun j => l.getD j 0#32 != 0#32)).length = l.countP (fun c => c != 0#32) := by
  have := filter_range'_count l []
  simpa [List.range_eq_range'] using this

theorem hintWeight_eq (r : Poly) (h : ValidRow r) : hintWeight r = (rowPositions r).length := by
  unfold hintWeight rowPositions
  rw [foldl_weight r 0 h.2, Nat.zero_add, ← filter_range_count r, h.1]
  rfl

theorem total_weight : ∀ (h : List Poly) (a : Nat), (∀ r ∈ h, ValidRow r) →
    (h.map hintWeight).foldl (· + ·) a = a + ((h.map rowPositions).flatten).length
  | [], a, _ => by simp
  | r :: h, a, hv => by
    simp only [List.map_cons, List.foldl_cons, List.flatten_cons, List.length_append]
    rw [total_weight h _ (fun x hx => hv x (by simp [hx])), hintWeight_eq r (hv r (by simp))]
    omega

theorem zipWith_all {α β γ} (f : α → β → γ) (P : γ → Prop) (hf : ∀ x y, P (f x y)) : ∀ (a : List α) (b : List β), ∀ c ∈ List.zipWith f a b, P c
  | [], _, c, h => by simp at h
  | _ :: _, [], c, h => by simp at h
  | x :: a, y :: b, c, h => by
    simp only [List.zipWith_cons_cons, List.mem_cons] at h
    rcases h with rfl | h
    · exact hf x y
    · exact zipWith_all f P hf a b c h

/-- rows produced by `polyMakeHint` on 256-coefficient inputs are 0/1 rows -/
theorem makeHint_valid (a0 a1 : Poly) (h0 : a0.length = 256) (h1 : a1.length = 256) : ValidRow (polyMakeHint a0 a1) := by
  constructor
  · simp [polyMakeHint, h0, h1]
  · apply zipWith_all
    intro x y
    unfold makeHint
    split
    · right; decide
    · left; decide

end Qrl.DilHints
