import QrlModel.Model.XmssKey
/-! Basic lemmas about the XMSS model: index bytes, base-w digits never read out of range. -/
namespace Qrl.Xmss

theorem u8_toNat_ofNat (n : Nat) : (UInt8.ofNat n).toNat = n % 256 := by simp [UInt8.ofNat, UInt8.toNat]

theorem toBytesBE_4 (i : Nat) : toBytesBE i 4 =
    [UInt8.ofNat ((i % 4294967296) >>> 24), UInt8.ofNat ((i % 4294967296) >>> 16),
     UInt8.ofNat ((i % 4294967296) >>> 8), UInt8.ofNat ((i % 4294967296) >>> 0)] := by
  simp [toBytesBE, List.range, List.range.loop]

theorem toBytesBE_length (v n : Nat) : (toBytesBE v n).length = n := by simp [toBytesBE]

/-- the index decoded from `sk[0..3]` after writing `i` there is `i` (uint32 range) -/
theorem indexOf_setIdxBytes (sk : Bytes) (i : Nat) (h : i < 4294967296) : indexOf (setIdxBytes sk i) = i := by
  simp only [indexOf, setIdxBytes, toBytesBE_4, List.cons_append, List.nil_append, List.getD_cons_zero, List.getD_cons_succ,
    u8_toNat_ofNat, Nat.shiftRight_eq_div_pow]
  omega

theorem setIdxBytes_drop (sk : Bytes) (i : Nat) : (setIdxBytes sk i).drop 4 = sk.drop 4 := by
  simp [setIdxBytes, toBytesBE_4]

theorem drop_setIdxBytes (sk : Bytes) (i n : Nat) : (setIdxBytes sk i).drop (4 + n) = sk.drop (4 + n) := by
  rw [← List.drop_drop, setIdxBytes_drop, List.drop_drop]

theorem indexOf_lt (sk : Bytes) : indexOf sk < 4294967296 := by
  have := (sk.getD 0 0).toNat_lt; have := (sk.getD 1 0).toNat_lt
  have := (sk.getD 2 0).toNat_lt; have := (sk.getD 3 0).toNat_lt
  simp only [indexOf]; omega

/-- the digit loop never indexes past its input as long as the remaining digits fit in the remaining bits -/
theorem baseWGo_ok (p : WParams) (input : Bytes) (hlw : p.logW = 2 ∨ p.logW = 4 ∨ p.logW = 8) (hpos : 0 < p.w) :
    ∀ (n inp total bits : Nat) (acc : List Nat), bits % p.logW = 0 → bits ≤ 8 → inp ≤ input.length →
      n * p.logW ≤ bits + 8 * (input.length - inp) →
      ∃ r, baseWGo p input n inp total bits acc = .ok r ∧ r.length = acc.length + n ∧
           (∀ x ∈ r, x ∈ acc ∨ x < p.w) := by
  intro n
  induction n with
  | zero =>
    intro inp total bits acc _ _ _ _
    exact ⟨acc.reverse, rfl, by simp, fun x hx => Or.inl (List.mem_reverse.mp hx)⟩
  | succ n ih =>
    intro inp total bits acc hmod hle hinp hfit
    unfold baseWGo
    by_cases hb : bits = 0
    · rw [if_pos hb]
      have hlt : inp < input.length := by
        subst hb
        rcases hlw with h | h | h <;> rw [h] at hfit <;> omega
      have hget : input[inp]? = some input[inp] := List.getElem?_eq_getElem hlt
      rw [hget]
      simp only
      obtain ⟨r, hr, hl, hm⟩ := ih (inp+1) (input[inp]).toNat (8 - p.logW) (((input[inp]).toNat >>> (8 - p.logW)) % p.w :: acc)
        (by rcases hlw with h | h | h <;> rw [h]) (by omega) (by omega)
        (by subst hb; rcases hlw with h | h | h <;> rw [h] at hfit ⊢ <;> omega)
      refine ⟨r, hr, by simp [hl]; omega, fun x hx => ?_⟩
      rcases hm x hx with h | h
      · rcases List.mem_cons.mp h with rfl | h
        · exact Or.inr (Nat.mod_lt _ hpos)
        · exact Or.inl h
      · exact Or.inr h
    · rw [if_neg hb]
      simp only
      have hge : p.logW ≤ bits := by
        rcases hlw with h | h | h <;> rw [h] at hmod ⊢ <;> omega
      obtain ⟨r, hr, hl, hm⟩ := ih inp total (bits - p.logW) ((total >>> (bits - p.logW)) % p.w :: acc)
        (by rcases hlw with h | h | h <;> rw [h] at hmod hge ⊢ <;> omega) (by omega) hinp
        (by rcases hlw with h | h | h <;> rw [h] at hfit hge ⊢ <;> omega)
      refine ⟨r, hr, by simp [hl]; omega, fun x hx => ?_⟩
      rcases hm x hx with h | h
      · rcases List.mem_cons.mp h with rfl | h
        · exact Or.inr (Nat.mod_lt _ hpos)
        · exact Or.inl h
      · exact Or.inr h

def GoodParams (p : WParams) : Prop := p = ⟨16, 4, 64, 3⟩ ∨ p = ⟨4, 2, 128, 5⟩ ∨ p = ⟨256, 8, 32, 2⟩

theorem wparams_good {w : Nat} {p : WParams} (h : wparams? w = some p) : GoodParams p := by
  unfold wparams? at h
  split at h
  · injection h with h; exact Or.inl h.symm
  · split at h
    · injection h with h; exact Or.inr (Or.inl h.symm)
    · split at h
      · injection h with h; exact Or.inr (Or.inr h.symm)
      · cases h

/-- for the three supported parameter sets and a 32-byte message digest, the digit computation (message
digits and checksum digits) succeeds, yields `len` digits, each below `w` -/
theorem wotsDigits_ok (p : WParams) (hp : GoodParams p) (msgHash : Bytes) (hlen : msgHash.length = 32) :
    ∃ ds, wotsDigits p msgHash = .ok ds ∧ ds.length = p.len ∧ ∀ d ∈ ds, d < p.w := by
  have hlw : p.logW = 2 ∨ p.logW = 4 ∨ p.logW = 8 := by rcases hp with rfl | rfl | rfl <;> simp
  have hpos : 0 < p.w := by rcases hp with rfl | rfl | rfl <;> simp
  obtain ⟨d, hd, hdl, hdm⟩ := baseWGo_ok p msgHash hlw hpos p.len1 0 0 0 [] (by simp) (by omega) (by omega)
    (by rcases hp with rfl | rfl | rfl <;> simp [hlen])
  let csum := ((d.foldl (fun c x => (c + (p.w - 1 - x)) % 4294967296) 0) <<< (8 - ((p.len2 * p.logW) % 8))) % 4294967296
  let nb := (p.len2 * p.logW + 7) / 8
  obtain ⟨c, hc, hcl, hcm⟩ := baseWGo_ok p (toBytesBE csum nb) hlw hpos p.len2 0 0 0 [] (by simp) (by omega) (by omega)
    (by rw [toBytesBE_length]; rcases hp with rfl | rfl | rfl <;> simp [nb])
  refine ⟨d ++ c, ?_, by simp [hdl, hcl, WParams.len], fun x hx => ?_⟩
  · unfold wotsDigits calcBaseW
    show (baseWGo p msgHash p.len1 0 0 0 []).bind _ = _
    rw [hd]; simp only [Outcome.bind]
    show (baseWGo p (toBytesBE csum nb) p.len2 0 0 0 []).bind _ = _
    rw [hc]; rfl
  · rcases List.mem_append.mp hx with h | h
    · rcases hdm x h with h' | h'; · cases h'
      exact h'
    · rcases hcm x h with h' | h'; · cases h'
      exact h'

section
variable (hashOf : Nat → Bytes → Bytes)

theorem pow_le30 (h : Nat) (h30 : h ≤ 30) : 2 ^ h ≤ 1073741824 := by
  calc 2 ^ h ≤ 2 ^ 30 := Nat.pow_le_pow_right (by decide) h30
    _ = 1073741824 := by decide

theorem setIndex_ok (k : Key) (j : Nat) (h1 : j < 2 ^ k.h) (h2 : k.index ≤ j) :
    setIndex hashOf k j = .ok { k with bds := Bds.fastForward (k.ops hashOf) k.h (j - k.index) k.index k.bds, sk := setIdxBytes k.sk j } := by
  have a : ¬ (j ≥ 2 ^ k.h) := by omega
  have b : ¬ (j < k.index) := by omega
  simp [setIndex, a, b]

/-- the traversal step `Sign` performs after emitting the signature for index `idx` -/
def afterSign (k : Key) : Bds.St Bytes :=
  if k.index < 2 ^ k.h - 1 then Bds.step (k.ops hashOf) k.h k.bds k.index else k.bds

theorem ops_setIdx (k : Key) (j : Nat) (b : Bds.St Bytes) :
    Key.ops hashOf { k with bds := b, sk := setIdxBytes k.sk j } = Key.ops hashOf k := by
  simp [Key.ops, Key.skSeed, Key.pubSeed, setIdxBytes_drop, drop_setIdxBytes k.sk j 64]

theorem sign_ok (hlen : ∀ hf x, (hashOf hf x).length = 32) (k : Key) (m : Bytes) (h30 : k.h ≤ 30) (h1 : k.index < 2 ^ k.h) :
    ∃ body, sign hashOf k m = .ok ({ k with sk := setIdxBytes (setIdxBytes k.sk k.index) (k.index + 1), bds := afterSign hashOf k },
                                   toBytesBE k.index 4 ++ body) := by
  have hp := pow_le30 k.h h30
  have hlt : k.index < 4294967296 := by omega
  have hidx : indexOf (setIdxBytes k.sk k.index) = k.index := indexOf_setIdxBytes _ _ hlt
  have hset := setIndex_ok hashOf k k.index h1 (Nat.le_refl _)
  rw [Nat.sub_self] at hset
  generalize hk1 : ({ k with bds := Bds.fastForward (k.ops hashOf) k.h 0 k.index k.bds, sk := setIdxBytes k.sk k.index } : Key) = k1 at hset
  have hi1 : k1.index = k.index := by subst hk1; exact hidx
  have hh1 : k1.h = k.h := by subst hk1; rfl
  have hb1 : k1.bds = k.bds := by subst hk1; rfl
  have ho1 : Key.ops hashOf k1 = Key.ops hashOf k := by subst hk1; exact ops_setIdx hashOf k _ _
  obtain ⟨ds, hds, hdl, hdm⟩ := wotsDigits_ok wp16 (Or.inl rfl)
      (hMsg (hashOf k1.hf) m (prf (hashOf k1.hf) (toBytesBE k1.index 32) k1.skPRF ++ k1.root ++ toBytesBE k1.index 32)) (hlen _ _)
  unfold sign
  simp only [hset, bind, Outcome.bind, wotsSign, hds, pure]
  rw [hi1, hh1, hb1, ho1, Nat.mod_eq_of_lt (by omega : k.index + 1 < 4294967296)]
  simp only [List.append_assoc]
  refine ⟨?b, ?_⟩
  case b => exact prf (hashOf k1.hf) (toBytesBE k.index 32) k1.skPRF ++
                ((List.map
                    (fun x => genChain (hashOf k1.hf) k1.pubSeed (otsAddr k.index x.snd) wp16.w x.1.snd 0 x.1.fst)
                    ((expandSeed (hashOf k1.hf) (getSeed (hashOf k1.hf) k1.skSeed k.index) wp16.len).zip
                        ds).zipIdx).flatten ++
              (List.take k.h k.bds.auth).flatten)
  subst hk1
  rfl

theorem indexOf_toBytesBE_append (i : Nat) (rest : Bytes) (h : i < 4294967296) : indexOf (toBytesBE i 4 ++ rest) = i := by
  simp only [indexOf, toBytesBE_4, List.cons_append, List.nil_append, List.getD_cons_zero, List.getD_cons_succ,
    u8_toNat_ofNat, Nat.shiftRight_eq_div_pow]
  omega

theorem pk_setIdx (k : Key) (j : Nat) (b : Bds.St Bytes) : Key.pk { k with bds := b, sk := setIdxBytes k.sk j } = k.pk := by
  simp [Key.pk, Key.root, Key.pubSeed, drop_setIdxBytes k.sk j 96, drop_setIdxBytes k.sk j 64]

theorem setIdx_setIdx (sk : Bytes) (i j : Nat) : setIdxBytes (setIdxBytes sk i) j = setIdxBytes sk j := by
  simp [setIdxBytes, toBytesBE_4]

end

end Qrl.Xmss
