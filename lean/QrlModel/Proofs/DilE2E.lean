import QrlModel.Proofs.DilRows
/-! Assembly of `Verify(Sign(m)) = true` for the Dilithium model: key layout, the accepted iteration of the
signing loop, the verifier's recomputation. XOFs are arbitrary functions with the right output lengths. -/
namespace Qrl.NttBridge
open Gen.Dil Qrl.Dil Qrl.NttTable Qrl.DilProofs Qrl.VecF

section
variable (shake128 shake256 : Bytes → Nat → Bytes)

-- ---------------------------------------------------------------- the key pair, component by component
def kRho (seed : Bytes) : Bytes := (shake256 seed 128).take 32
def kRhoPrime (seed : Bytes) : Bytes := ((shake256 seed 128).drop 32).take 64
def kKey (seed : Bytes) : Bytes := ((shake256 seed 128).drop 96).take 32
def kS1 (seed : Bytes) : List Poly := (List.range L).map fun i => polyUniformEta shake256 (kRhoPrime shake256 seed) i
def kS2 (seed : Bytes) : List Poly := (List.range K).map fun i => polyUniformEta shake256 (kRhoPrime shake256 seed) (L + i)
def kMat (seed : Bytes) : List (List Poly) := matrixExpand shake128 (kRho shake256 seed)
def kT (seed : Bytes) : List Poly :=
  List.zipWith (fun row s2i => keyT row (kS1 shake256 seed) s2i) (kMat shake128 shake256 seed) (kS2 shake256 seed)
def kT1 (seed : Bytes) : List Poly := (kT shake128 shake256 seed).map fun p => (polyPower2Round p).1
def kT0 (seed : Bytes) : List Poly := (kT shake128 shake256 seed).map fun p => (polyPower2Round p).2
def kPk (seed : Bytes) : Bytes := kRho shake256 seed ++ (kT1 shake128 shake256 seed).flatMap polyT1Pack
def kTr (seed : Bytes) : Bytes := shake256 (kPk shake128 shake256 seed) 32

theorem keypair_eq (seed : Bytes) :
    keypair shake128 shake256 seed =
      ⟨kPk shake128 shake256 seed,
       kRho shake256 seed ++ kKey shake256 seed ++ kTr shake128 shake256 seed ++ (kS1 shake256 seed).flatMap polyEtaPack ++
         (kS2 shake256 seed).flatMap polyEtaPack ++ (kT0 shake128 shake256 seed).flatMap polyT0Pack⟩ := by
  have ht : (List.zipWith polyAdd ((matVec (kMat shake128 shake256 seed) ((kS1 shake256 seed).map ntt)).map fun p => invNTTToMont (polyReduce p))
      (kS2 shake256 seed)).map polyCAddQ = kT shake128 shake256 seed := by
    unfold matVec kT keyT
    rw [List.map_map, List.zipWith_map_left, List.map_zipWith]
    rfl
  unfold keypair
  dsimp only
  simp only [kPk, kTr, kT1, kT0, ← ht]
  rfl

-- ---------------------------------------------------------------- the signing loop returns an accepted attempt
theorem signLoop_some (cfg : SignCfg) (mat : List (List Poly)) (mu rp : Bytes) (s1h s2h t0h : List Poly) (sig : Bytes) (ex : List Exit) (viol : List String) :
    ∀ (fuel nonce : Nat) (exits : List Exit), signLoop shake256 cfg mat mu rp s1h s2h t0h fuel nonce exits = some (sig, ex, viol) →
    ∃ n, signAttempt shake256 cfg mat mu rp s1h s2h t0h n = (.accept, sig, viol)
  | 0, _, _, h => by simp [signLoop] at h
  | fuel+1, nonce, exits, h => by
    unfold signLoop at h
    split at h
    · rename_i sig' viol' heq
      simp only [Option.some.injEq, Prod.mk.injEq] at h
      exact ⟨nonce, by rw [heq, h.1, h.2.2]⟩
    · exact signLoop_some cfg mat mu rp s1h s2h t0h sig ex viol fuel (nonce+1) _ h

theorem vecChk_false {v : List Poly} {B : Coeff} (h : vecChkNorm v B = false) : ∀ p ∈ v, polyChkNorm p B = false := by
  unfold vecChkNorm at h
  rw [List.any_eq_false] at h
  intro p hp; simpa using h p hp

/-- what an accepted attempt of the library's own signer (no check skipped) satisfies -/
theorem signAttempt_accept (mat : List (List Poly)) (mu rp : Bytes) (s1h s2h t0h : List Poly) (n : Nat) (sig : Bytes) (viol : List String)
    (h : signAttempt shake256 {} mat mu rp s1h s2h t0h n = (.accept, sig, viol)) :
    let y := (List.range L).map fun i => polyUniformGamma1 shake256 rp ((L * n + i) % 65536)
    let w := (matVec mat (y.map ntt)).map fun p => polyCAddQ (invNTTToMont (polyReduce p))
    let w1 := w.map fun p => (polyDecompose p).1
    let w0 := w.map fun p => (polyDecompose p).2
    let ctil := shake256 (mu ++ w1.flatMap polyW1Pack) 32
    let cp := ntt (polyChallenge shake256 ctil)
    let z := (List.zipWith polyAdd (s1h.map fun p => invNTTToMont (polyPointwise cp p)) y).map polyReduce
    let w0r := (List.zipWith polySub w0 (s2h.map fun p => invNTTToMont (polyPointwise cp p))).map polyReduce
    let ct0r := t0h.map fun p => polyReduce (invNTTToMont (polyPointwise cp p))
    let hint := List.zipWith polyMakeHint (List.zipWith polyAdd w0r ct0r) w1
    vecChkNorm z (BitVec.ofNat 32 (GAMMA1 - BETA)) = false ∧ vecChkNorm w0r (BitVec.ofNat 32 (GAMMA2 - BETA)) = false ∧
    vecChkNorm ct0r (BitVec.ofNat 32 GAMMA2) = false ∧ (hint.map hintWeight).foldl (· + ·) 0 ≤ OMEGA ∧
    sig = packSig ctil z hint := by
  intro y w w1 w0 ctil cp z w0r ct0r hint
  unfold signAttempt at h
  simp only [Bool.not_false, Bool.true_and] at h
  by_cases hz : vecChkNorm z (BitVec.ofNat 32 (GAMMA1 - BETA)) = true
  · rw [if_pos hz] at h; simp at h
  rw [if_neg hz] at h
  by_cases hw : vecChkNorm w0r (BitVec.ofNat 32 (GAMMA2 - BETA)) = true
  · rw [if_pos hw] at h; simp at h
  rw [if_neg hw] at h
  by_cases hct : vecChkNorm ct0r (BitVec.ofNat 32 GAMMA2) = true
  · rw [if_pos hct] at h; simp at h
  rw [if_neg hct] at h
  by_cases hh : decide ((hint.map hintWeight).foldl (· + ·) 0 > OMEGA) = true
  · rw [if_pos hh] at h; simp at h
  rw [if_neg hh] at h
  simp only [Prod.mk.injEq, true_and] at h
  refine ⟨by simpa using hz, by simpa using hw, by simpa using hct, by simpa using hh, h.1.symm⟩

-- ---------------------------------------------------------------- layout of the secret and public key
theorem sk_unpack (rho key tr : Bytes) (s1 s2 t0 : List Poly) (hr : rho.length = 32) (hk : key.length = 32) (ht : tr.length = 32)
    (l1 : s1.length = L) (l2 : s2.length = K) (l3 : t0.length = K)
    (g1 : ∀ p ∈ s1, Good (-2) 2 p) (g2 : ∀ p ∈ s2, Good (-2) 2 p) (g3 : ∀ p ∈ t0, Good (-4095) 4096 p) :
    let sk := rho ++ key ++ tr ++ s1.flatMap polyEtaPack ++ s2.flatMap polyEtaPack ++ t0.flatMap polyT0Pack
    sk.take 32 = rho ∧ (sk.drop 32).take 32 = key ∧ (sk.drop 64).take 32 = tr ∧
    (chunks 96 ((sk.drop 96).take (L*96))).map polyEtaUnpack = s1 ∧
    (chunks 96 (((sk.drop 96).drop (L*96)).take (K*96))).map polyEtaUnpack = s2 ∧
    (chunks 416 ((((sk.drop 96).drop (L*96)).drop (K*96)).take (K*416))).map polyT0Unpack = t0 := by
  intro sk
  have e : sk = rho ++ (key ++ (tr ++ (s1.flatMap polyEtaPack ++ (s2.flatMap polyEtaPack ++ (t0.flatMap polyT0Pack ++ []))))) := by
    simp only [sk, List.append_assoc, List.append_nil]
  have d32 : sk.drop 32 = key ++ (tr ++ (s1.flatMap polyEtaPack ++ (s2.flatMap polyEtaPack ++ (t0.flatMap polyT0Pack ++ [])))) := by
    rw [e]; exact drop_append_len _ _ _ hr
  have d64 : sk.drop 64 = tr ++ (s1.flatMap polyEtaPack ++ (s2.flatMap polyEtaPack ++ (t0.flatMap polyT0Pack ++ []))) := by
    have : sk.drop 64 = (sk.drop 32).drop 32 := by rw [List.drop_drop]
    rw [this, d32]; exact drop_append_len _ _ _ hk
  have d96 : sk.drop 96 = s1.flatMap polyEtaPack ++ (s2.flatMap polyEtaPack ++ (t0.flatMap polyT0Pack ++ [])) := by
    have : sk.drop 96 = (sk.drop 64).drop 32 := by rw [List.drop_drop]
    rw [this, d64]; exact drop_append_len _ _ _ ht
  obtain ⟨r1, q1⟩ := vec_roundtrip 96 (by decide) polyEtaPack polyEtaUnpack s1 (s2.flatMap polyEtaPack ++ (t0.flatMap polyT0Pack ++ []))
    (fun p hp => polyEtaPack_length p (g1 p hp).1) (fun p hp => eta_rt p (g1 p hp).1 (g1 p hp).2)
  obtain ⟨r2, q2⟩ := vec_roundtrip 96 (by decide) polyEtaPack polyEtaUnpack s2 (t0.flatMap polyT0Pack ++ [])
    (fun p hp => polyEtaPack_length p (g2 p hp).1) (fun p hp => eta_rt p (g2 p hp).1 (g2 p hp).2)
  obtain ⟨r3, _⟩ := vec_roundtrip 416 (by decide) polyT0Pack polyT0Unpack t0 []
    (fun p hp => polyT0Pack_length p (g3 p hp).1) (fun p hp => t0_rt p (g3 p hp).1 (g3 p hp).2)
  rw [l1] at r1 q1; rw [l2] at r2 q2; rw [l3] at r3
  refine ⟨by rw [e]; exact take_append_len _ _ _ hr, by rw [d32]; exact take_append_len _ _ _ hk,
    by rw [d64]; exact take_append_len _ _ _ ht, by rw [d96]; exact r1, by rw [d96, q1]; exact r2, by rw [d96, q1, q2]; exact r3⟩

theorem pk_unpack (rho : Bytes) (t1 : List Poly) (hr : rho.length = 32) (l1 : t1.length = K) (g1 : ∀ p ∈ t1, Good 0 1023 p) :
    (rho ++ t1.flatMap polyT1Pack).take 32 = rho ∧
    (chunks 320 (((rho ++ t1.flatMap polyT1Pack).drop 32).take (K*320))).map polyT1Unpack = t1 := by
  obtain ⟨r1, _⟩ := vec_roundtrip 320 (by decide) polyT1Pack polyT1Unpack t1 []
    (fun p hp => polyT1Pack_length p (g1 p hp).1) (fun p hp => t1_rt p (g1 p hp).1 (g1 p hp).2)
  rw [l1, List.append_nil] at r1
  exact ⟨take_append_len _ _ _ hr, by rw [drop_append_len _ _ _ hr]; exact r1⟩

-- ---------------------------------------------------------------- facts about the key components
structure XofLen : Prop where
  h128 : ∀ x n, (shake128 x n).length = n
  h256 : ∀ x n, (shake256 x n).length = n

/-- the sampling loops of key generation filled all 256 coefficients of every polynomial (in the library they run
until they do; in the model they have 64 blocks of fuel) -/
def Expanded (seed : Bytes) : Prop :=
  (∀ row ∈ kMat shake128 shake256 seed, ∀ p ∈ row, p.length = 256) ∧ (∀ p ∈ kS1 shake256 seed, p.length = 256) ∧
  (∀ p ∈ kS2 shake256 seed, p.length = 256)

theorem key_facts (hx : XofLen shake128 shake256) (seed : Bytes) (hE : Expanded shake128 shake256 seed) :
    (kRho shake256 seed).length = 32 ∧ (kKey shake256 seed).length = 32 ∧ (kTr shake128 shake256 seed).length = 32 ∧
    (kS1 shake256 seed).length = L ∧ (∀ p ∈ kS1 shake256 seed, Good (-2) 2 p) ∧
    (kS2 shake256 seed).length = K ∧ (∀ p ∈ kS2 shake256 seed, Good (-2) 2 p) ∧
    (kMat shake128 shake256 seed).length = K ∧ (∀ row ∈ kMat shake128 shake256 seed, (∀ p ∈ row, Good 0 8380416 p) ∧ row.length ≤ 8) := by
  obtain ⟨eM, e1, e2⟩ := hE
  refine ⟨by simp [kRho, hx.h256], by simp [kKey, hx.h256], by simp [kTr, hx.h256], by simp [kS1], ?_, by simp [kS2], ?_, by simp [kMat, matrixExpand], ?_⟩
  · intro p hp
    refine ⟨e1 p hp, ?_⟩
    simp only [kS1, List.mem_map] at hp
    obtain ⟨i, _, rfl⟩ := hp
    exact polyUniformEta_range _ _ _
  · intro p hp
    refine ⟨e2 p hp, ?_⟩
    simp only [kS2, List.mem_map] at hp
    obtain ⟨i, _, rfl⟩ := hp
    exact polyUniformEta_range _ _ _
  · intro row hrow
    constructor
    · intro p hp
      refine ⟨eM row hrow p hp, ?_⟩
      simp only [kMat, matrixExpand, List.mem_map] at hrow
      obtain ⟨i, _, rfl⟩ := hrow
      simp only [List.mem_map] at hp
      obtain ⟨j, _, rfl⟩ := hp
      exact polyUniform_range _ _ _
    · simp only [kMat, matrixExpand, List.mem_map] at hrow
      obtain ⟨i, _, rfl⟩ := hrow
      simp [L]

theorem zipWith_all_mem {α β γ} (f : α → β → γ) (P : γ → Prop) : ∀ (a : List α) (b : List β), (∀ x ∈ a, ∀ y ∈ b, P (f x y)) →
    ∀ c ∈ List.zipWith f a b, P c
  | [], _, _, c, h => by simp at h
  | _ :: _, [], _, c, h => by simp at h
  | x :: a, y :: b, hf, c, h => by
    simp only [List.zipWith_cons_cons, List.mem_cons] at h
    rcases h with rfl | h
    · exact hf x (by simp) y (by simp)
    · exact zipWith_all_mem f P a b (fun x hx y hy => hf x (by simp [hx]) y (by simp [hy])) c h

theorem kT_facts (hx : XofLen shake128 shake256) (seed : Bytes) (hE : Expanded shake128 shake256 seed) :
    (kT1 shake128 shake256 seed).length = K ∧ (∀ p ∈ kT1 shake128 shake256 seed, Good 0 1023 p) ∧
    (kT0 shake128 shake256 seed).length = K ∧ (∀ p ∈ kT0 shake128 shake256 seed, Good (-4095) 4096 p) := by
  obtain ⟨_, _, _, _, g1, l2, g2, lM, gM⟩ := key_facts shake128 shake256 hx seed hE
  have gT : ∀ p ∈ kT shake128 shake256 seed, Good 0 8380416 p := by
    unfold kT
    apply zipWith_all_mem
    intro row hrow s2i hs2i
    exact (keyT_facts row _ s2i (gM row hrow).1 (gM row hrow).2 g1 (g2 s2i hs2i)).2
  have lT : (kT shake128 shake256 seed).length = K := by
    unfold kT; rw [List.length_zipWith, lM, l2, Nat.min_self]
  refine ⟨by simp [kT1, lT], ?_, by simp [kT0, lT], ?_⟩
  · intro p hp
    simp only [kT1, List.mem_map] at hp
    obtain ⟨t, ht, rfl⟩ := hp
    exact (p2r_facts t (gT t ht)).2.1
  · intro p hp
    simp only [kT0, List.mem_map] at hp
    obtain ⟨t, ht, rfl⟩ := hp
    exact (p2r_facts t (gT t ht)).2.2

end
end Qrl.NttBridge
