import QrlModel.Model.Dilithium
import QrlModel.Proofs.Chunks
import Std.Tactic.BVDecide
/-! C13: every bit lane of every packer round-trips (lane identities by `bv_decide` on the *generated*
lane functions; lifted over all 256 positions by `roundtrip_lift`). The `bv_decide` axioms are listed by
`#print axioms` in the evidence. -/
namespace Qrl.DilPack
open Gen.Dil Qrl.Dil

theorem bv8_u8 (x : BitVec 8) : bv8 (u8 x) = x := rfl
theorem u8_bv8 (x : UInt8) : u8 (bv8 x) = x := rfl
theorem map_u8_bv8 (l : List UInt8) : (l.map bv8).map u8 = l := by
  induction l with
  | nil => rfl
  | cons x t ih => simp only [List.map_cons, ih, u8_bv8]

-- ---------------------------------------------------------------- t1
theorem t1_lane_rt (c0 c1 c2 c3 : BitVec 32) (h0 : c0 < 1024#32) (h1 : c1 < 1024#32) (h2 : c2 < 1024#32) (h3 : c3 < 1024#32) :
    (match polyT1Pack_lane c0 c1 c2 c3 with
     | [r0, r1, r2, r3, r4] => polyT1Unpack_lane r0 r1 r2 r3 r4 = [c0, c1, c2, c3]
     | _ => False) := by
  simp only [polyT1Pack_lane, polyT1Unpack_lane, List.cons.injEq, and_true]
  refine ⟨?_, ?_, ?_, ?_⟩ <;> bv_decide

def t1P (c : List Coeff) : Bytes := (match c with | [c0,c1,c2,c3] => polyT1Pack_lane c0 c1 c2 c3 | _ => []).map u8
def t1U (c : Bytes) : List Coeff := match c.map bv8 with | [r0,r1,r2,r3,r4] => polyT1Unpack_lane r0 r1 r2 r3 r4 | _ => []

theorem polyT1Pack_eq (a : Poly) : polyT1Pack a = (chunks 4 a).flatMap t1P := by
  simp only [polyT1Pack, List.map_flatMap]; rfl
theorem polyT1Unpack_eq (b : Bytes) : polyT1Unpack b = (chunks 5 (b.take 320)).flatMap t1U := rfl

/-- **t1 packing is lossless** for every array of 256 in-range coefficients, at every position and lane -/
theorem t1_roundtrip (a : Poly) (hl : a.length = 256) (hr : ∀ x ∈ a, x < 1024#32) : polyT1Unpack (polyT1Pack a) = a := by
  rw [polyT1Pack_eq, polyT1Unpack_eq]
  have key := roundtrip_lift 4 5 (by decide) (by decide) (fun c => ∀ x ∈ c, x < 1024#32) t1P t1U
    (by
      intro c hc
      match c, hc with
      | [c0,c1,c2,c3], _ => simp [t1P, polyT1Pack_lane])
    (by
      intro c hc hP
      match c, hc with
      | [c0,c1,c2,c3], _ =>
        have := t1_lane_rt c0 c1 c2 c3 (hP c0 (by simp)) (hP c1 (by simp)) (hP c2 (by simp)) (hP c3 (by simp))
        simp only [polyT1Pack_lane] at this
        simp only [t1P, t1U, polyT1Pack_lane, List.map_cons, List.map_nil, bv8_u8]
        exact this)
    64 a (by omega) (fun c hc x hx => hr x (mem_chunks 4 a c hc x hx))
  rw [List.take_of_length_le (by rw [key.2]; decide)]
  exact key.1

theorem t1_lane_canon (a0 a1 a2 a3 a4 : BitVec 8) :
    (match polyT1Unpack_lane a0 a1 a2 a3 a4 with
     | [c0, c1, c2, c3] => polyT1Pack_lane c0 c1 c2 c3 = [a0, a1, a2, a3, a4]
     | _ => False) := by
  simp only [polyT1Pack_lane, polyT1Unpack_lane, List.cons.injEq, and_true]
  refine ⟨?_, ?_, ?_, ?_, ?_⟩ <;> bv_decide

/-- **t1 encoding is canonical**: every 320-byte string is the encoding of what it decodes to -/
theorem t1_canonical (b : Bytes) (hl : b.length = 320) : polyT1Pack (polyT1Unpack b) = b := by
  rw [polyT1Pack_eq, polyT1Unpack_eq, List.take_of_length_le (by omega)]
  have key := roundtrip_lift 5 4 (by decide) (by decide) (fun _ => True) t1U t1P
    (by
      intro c hc
      match c, hc with
      | [a0,a1,a2,a3,a4], _ => simp [t1U, polyT1Unpack_lane])
    (by
      intro c hc _
      match c, hc with
      | [a0,a1,a2,a3,a4], _ =>
        have := t1_lane_canon (bv8 a0) (bv8 a1) (bv8 a2) (bv8 a3) (bv8 a4)
        simp only [polyT1Unpack_lane] at this
        simp only [t1P, t1U, polyT1Unpack_lane, List.map_cons, List.map_nil]
        rw [this]
        simp only [List.map_cons, List.map_nil, u8_bv8])
    64 b (by omega) (fun _ _ => trivial)
  exact key.1

-- ---------------------------------------------------------------- z
theorem z_lane_rt (c0 c1 : BitVec 32) (h0 : BitVec.slt (BitVec.ofInt 32 (-524288)) c0 = true ∧ BitVec.sle c0 524288#32 = true) (h1 : BitVec.slt (BitVec.ofInt 32 (-524288)) c1 = true ∧ BitVec.sle c1 524288#32 = true) :
    (match polyZPack_lane c0 c1 with
     | [r0, r1, r2, r3, r4] => polyZUnpack_lane r0 r1 r2 r3 r4 = [c0, c1]
     | _ => False) := by
  simp only [polyZPack_lane, polyZUnpack_lane, List.cons.injEq, and_true]
  refine ⟨?_, ?_⟩ <;> bv_decide

def zP (c : List Coeff) : Bytes := (match c with | [c0,c1] => polyZPack_lane c0 c1 | _ => []).map u8
def zU (c : Bytes) : List Coeff := match c.map bv8 with | [r0,r1,r2,r3,r4] => polyZUnpack_lane r0 r1 r2 r3 r4 | _ => []

theorem polyZPack_eq (a : Poly) : polyZPack a = (chunks 2 a).flatMap zP := by
  simp only [polyZPack, List.map_flatMap]; rfl
theorem polyZUnpack_eq (b : Bytes) : polyZUnpack b = (chunks 5 (b.take 640)).flatMap zU := rfl

/-- **z packing is lossless** for every array of 256 in-range coefficients, at every position and lane -/
theorem z_roundtrip (a : Poly) (hl : a.length = 256) (hr : ∀ x ∈ a, BitVec.slt (BitVec.ofInt 32 (-524288)) x = true ∧ BitVec.sle x 524288#32 = true) : polyZUnpack (polyZPack a) = a := by
  rw [polyZPack_eq, polyZUnpack_eq]
  have key := roundtrip_lift 2 5 (by decide) (by decide) (fun c => ∀ x ∈ c, BitVec.slt (BitVec.ofInt 32 (-524288)) x = true ∧ BitVec.sle x 524288#32 = true) zP zU
    (by
      intro c hc
      match c, hc with
      | [c0,c1], _ => simp [zP, polyZPack_lane])
    (by
      intro c hc hP
      match c, hc with
      | [c0,c1], _ =>
        have := z_lane_rt c0 c1 (hP c0 (by simp)) (hP c1 (by simp))
        simp only [polyZPack_lane] at this
        simp only [zP, zU, polyZPack_lane, List.map_cons, List.map_nil, bv8_u8]
        exact this)
    128 a (by omega) (fun c hc x hx => hr x (mem_chunks 2 a c hc x hx))
  rw [List.take_of_length_le (by rw [key.2]; decide)]
  exact key.1

theorem z_lane_canon (a0 a1 a2 a3 a4 : BitVec 8) :
    (match polyZUnpack_lane a0 a1 a2 a3 a4 with
     | [c0, c1] => polyZPack_lane c0 c1 = [a0, a1, a2, a3, a4]
     | _ => False) := by
  simp only [polyZPack_lane, polyZUnpack_lane, List.cons.injEq, and_true]
  refine ⟨?_, ?_, ?_, ?_, ?_⟩ <;> bv_decide

/-- **z encoding is canonical**: every 640-byte string is the encoding of what it decodes to -/
theorem z_canonical (b : Bytes) (hl : b.length = 640) : polyZPack (polyZUnpack b) = b := by
  rw [polyZPack_eq, polyZUnpack_eq, List.take_of_length_le (by omega)]
  have key := roundtrip_lift 5 2 (by decide) (by decide) (fun _ => True) zU zP
    (by
      intro c hc
      match c, hc with
      | [a0,a1,a2,a3,a4], _ => simp [zU, polyZUnpack_lane])
    (by
      intro c hc _
      match c, hc with
      | [a0,a1,a2,a3,a4], _ =>
        have := z_lane_canon (bv8 a0) (bv8 a1) (bv8 a2) (bv8 a3) (bv8 a4)
        simp only [polyZUnpack_lane] at this
        simp only [zP, zU, polyZUnpack_lane, List.map_cons, List.map_nil]
        rw [this]
        simp only [List.map_cons, List.map_nil, u8_bv8])
    128 b (by omega) (fun _ _ => trivial)
  exact key.1

-- ---------------------------------------------------------------- eta
theorem eta_lane_rt (c0 c1 c2 c3 c4 c5 c6 c7 : BitVec 32) (h0 : BitVec.sle (BitVec.ofInt 32 (-2)) c0 = true ∧ BitVec.sle c0 2#32 = true) (h1 : BitVec.sle (BitVec.ofInt 32 (-2)) c1 = true ∧ BitVec.sle c1 2#32 = true) (h2 : BitVec.sle (BitVec.ofInt 32 (-2)) c2 = true ∧ BitVec.sle c2 2#32 = true) (h3 : BitVec.sle (BitVec.ofInt 32 (-2)) c3 = true ∧ BitVec.sle c3 2#32 = true) (h4 : BitVec.sle (BitVec.ofInt 32 (-2)) c4 = true ∧ BitVec.sle c4 2#32 = true) (h5 : BitVec.sle (BitVec.ofInt 32 (-2)) c5 = true ∧ BitVec.sle c5 2#32 = true) (h6 : BitVec.sle (BitVec.ofInt 32 (-2)) c6 = true ∧ BitVec.sle c6 2#32 = true) (h7 : BitVec.sle (BitVec.ofInt 32 (-2)) c7 = true ∧ BitVec.sle c7 2#32 = true) :
    (match polyEtaPack_lane c0 c1 c2 c3 c4 c5 c6 c7 with
     | [r0, r1, r2] => polyEtaUnpack_lane r0 r1 r2 = [c0, c1, c2, c3, c4, c5, c6, c7]
     | _ => False) := by
  simp only [polyEtaPack_lane, polyEtaUnpack_lane, List.cons.injEq, and_true]
  refine ⟨?_, ?_, ?_, ?_, ?_, ?_, ?_, ?_⟩ <;> bv_decide

def etaP (c : List Coeff) : Bytes := (match c with | [c0,c1,c2,c3,c4,c5,c6,c7] => polyEtaPack_lane c0 c1 c2 c3 c4 c5 c6 c7 | _ => []).map u8
def etaU (c : Bytes) : List Coeff := match c.map bv8 with | [r0,r1,r2] => polyEtaUnpack_lane r0 r1 r2 | _ => []

theorem polyEtaPack_eq (a : Poly) : polyEtaPack a = (chunks 8 a).flatMap etaP := by
  simp only [polyEtaPack, List.map_flatMap]; rfl
theorem polyEtaUnpack_eq (b : Bytes) : polyEtaUnpack b = (chunks 3 (b.take 96)).flatMap etaU := rfl

/-- **eta packing is lossless** for every array of 256 in-range coefficients, at every position and lane -/
theorem eta_roundtrip (a : Poly) (hl : a.length = 256) (hr : ∀ x ∈ a, BitVec.sle (BitVec.ofInt 32 (-2)) x = true ∧ BitVec.sle x 2#32 = true) : polyEtaUnpack (polyEtaPack a) = a := by
  rw [polyEtaPack_eq, polyEtaUnpack_eq]
  have key := roundtrip_lift 8 3 (by decide) (by decide) (fun c => ∀ x ∈ c, BitVec.sle (BitVec.ofInt 32 (-2)) x = true ∧ BitVec.sle x 2#32 = true) etaP etaU
    (by
      intro c hc
      match c, hc with
      | [c0,c1,c2,c3,c4,c5,c6,c7], _ => simp [etaP, polyEtaPack_lane])
    (by
      intro c hc hP
      match c, hc with
      | [c0,c1,c2,c3,c4,c5,c6,c7], _ =>
        have := eta_lane_rt c0 c1 c2 c3 c4 c5 c6 c7 (hP c0 (by simp)) (hP c1 (by simp)) (hP c2 (by simp)) (hP c3 (by simp)) (hP c4 (by simp)) (hP c5 (by simp)) (hP c6 (by simp)) (hP c7 (by simp))
        simp only [polyEtaPack_lane] at this
        simp only [etaP, etaU, polyEtaPack_lane, List.map_cons, List.map_nil, bv8_u8]
        exact this)
    32 a (by omega) (fun c hc x hx => hr x (mem_chunks 8 a c hc x hx))
  rw [List.take_of_length_le (by rw [key.2]; decide)]
  exact key.1

-- ---------------------------------------------------------------- t0
theorem t0_lane_rt (c0 c1 c2 c3 c4 c5 c6 c7 : BitVec 32) (h0 : BitVec.slt (BitVec.ofInt 32 (-4096)) c0 = true ∧ BitVec.sle c0 4096#32 = true) (h1 : BitVec.slt (BitVec.ofInt 32 (-4096)) c1 = true ∧ BitVec.sle c1 4096#32 = true) (h2 : BitVec.slt (BitVec.ofInt 32 (-4096)) c2 = true ∧ BitVec.sle c2 4096#32 = true) (h3 : BitVec.slt (BitVec.ofInt 32 (-4096)) c3 = true ∧ BitVec.sle c3 4096#32 = true) (h4 : BitVec.slt (BitVec.ofInt 32 (-4096)) c4 = true ∧ BitVec.sle c4 4096#32 = true) (h5 : BitVec.slt (BitVec.ofInt 32 (-4096)) c5 = true ∧ BitVec.sle c5 4096#32 = true) (h6 : BitVec.slt (BitVec.ofInt 32 (-4096)) c6 = true ∧ BitVec.sle c6 4096#32 = true) (h7 : BitVec.slt (BitVec.ofInt 32 (-4096)) c7 = true ∧ BitVec.sle c7 4096#32 = true) :
    (match polyT0Pack_lane c0 c1 c2 c3 c4 c5 c6 c7 with
     | [r0, r1, r2, r3, r4, r5, r6, r7, r8, r9, r10, r11, r12] => polyT0Unpack_lane r0 r1 r2 r3 r4 r5 r6 r7 r8 r9 r10 r11 r12 = [c0, c1, c2, c3, c4, c5, c6, c7]
     | _ => False) := by
  simp only [polyT0Pack_lane, polyT0Unpack_lane, List.cons.injEq, and_true]
  refine ⟨?_, ?_, ?_, ?_, ?_, ?_, ?_, ?_⟩ <;> bv_decide

def t0P (c : List Coeff) : Bytes := (match c with | [c0,c1,c2,c3,c4,c5,c6,c7] => polyT0Pack_lane c0 c1 c2 c3 c4 c5 c6 c7 | _ => []).map u8
def t0U (c : Bytes) : List Coeff := match c.map bv8 with | [r0,r1,r2,r3,r4,r5,r6,r7,r8,r9,r10,r11,r12] => polyT0Unpack_lane r0 r1 r2 r3 r4 r5 r6 r7 r8 r9 r10 r11 r12 | _ => []

theorem polyT0Pack_eq (a : Poly) : polyT0Pack a = (chunks 8 a).flatMap t0P := by
  simp only [polyT0Pack, List.map_flatMap]; rfl
theorem polyT0Unpack_eq (b : Bytes) : polyT0Unpack b = (chunks 13 (b.take 416)).flatMap t0U := rfl

/-- **t0 packing is lossless** for every array of 256 in-range coefficients, at every position and lane -/
theorem t0_roundtrip (a : Poly) (hl : a.length = 256) (hr : ∀ x ∈ a, BitVec.slt (BitVec.ofInt 32 (-4096)) x = true ∧ BitVec.sle x 4096#32 = true) : polyT0Unpack (polyT0Pack a) = a := by
  rw [polyT0Pack_eq, polyT0Unpack_eq]
  have key := roundtrip_lift 8 13 (by decide) (by decide) (fun c => ∀ x ∈ c, BitVec.slt (BitVec.ofInt 32 (-4096)) x = true ∧ BitVec.sle x 4096#32 = true) t0P t0U
    (by
      intro c hc
      match c, hc with
      | [c0,c1,c2,c3,c4,c5,c6,c7], _ => simp [t0P, polyT0Pack_lane])
    (by
      intro c hc hP
      match c, hc with
      | [c0,c1,c2,c3,c4,c5,c6,c7], _ =>
        have := t0_lane_rt c0 c1 c2 c3 c4 c5 c6 c7 (hP c0 (by simp)) (hP c1 (by simp)) (hP c2 (by simp)) (hP c3 (by simp)) (hP c4 (by simp)) (hP c5 (by simp)) (hP c6 (by simp)) (hP c7 (by simp))
        simp only [polyT0Pack_lane] at this
        simp only [t0P, t0U, polyT0Pack_lane, List.map_cons, List.map_nil, bv8_u8]
        exact this)
    32 a (by omega) (fun c hc x hx => hr x (mem_chunks 8 a c hc x hx))
  rw [List.take_of_length_le (by rw [key.2]; decide)]
  exact key.1

-- ---------------------------------------------------------------- w1 (4 bits per coefficient, no decoder in the library)
def w1Inv (r : BitVec 8) : List Coeff := [BitVec.setWidth 32 (r &&& 15#8), BitVec.setWidth 32 (r >>> 4)]

theorem w1_lane_inv (c0 c1 : BitVec 32) (h0 : c0 < 16#32) (h1 : c1 < 16#32) :
    (match polyW1Pack_lane c0 c1 with
     | [r] => w1Inv r = [c0, c1]
     | _ => False) := by
  simp only [polyW1Pack_lane, w1Inv, List.cons.injEq, and_true]
  refine ⟨?_, ?_⟩ <;> bv_decide

def w1P (c : List Coeff) : Bytes := (match c with | [c0,c1] => polyW1Pack_lane c0 c1 | _ => []).map u8
def w1U (c : Bytes) : List Coeff := match c.map bv8 with | [r] => w1Inv r | _ => []

theorem polyW1Pack_eq (a : Poly) : polyW1Pack a = (chunks 2 a).flatMap w1P := by
  simp only [polyW1Pack, List.map_flatMap]; rfl

/-- **w1 packing is lossless** (injective): the 4-bit coefficients can be read back from the 128 bytes -/
theorem w1_invertible (a : Poly) (hl : a.length = 256) (hr : ∀ x ∈ a, x < 16#32) :
    (chunks 1 (polyW1Pack a)).flatMap w1U = a := by
  rw [polyW1Pack_eq]
  exact (roundtrip_lift 2 1 (by decide) (by decide) (fun c => ∀ x ∈ c, x < 16#32) w1P w1U
    (by
      intro c hc
      match c, hc with
      | [c0,c1], _ => simp [w1P, polyW1Pack_lane])
    (by
      intro c hc hP
      match c, hc with
      | [c0,c1], _ =>
        have := w1_lane_inv c0 c1 (hP c0 (by simp)) (hP c1 (by simp))
        simp only [polyW1Pack_lane] at this
        simp only [w1P, w1U, polyW1Pack_lane, List.map_cons, List.map_nil, bv8_u8]
        exact this)
    128 a (by omega) (fun c hc x hx => hr x (mem_chunks 2 a c hc x hx))).1

theorem w1_injective (a b : Poly) (ha : a.length = 256) (hb : b.length = 256) (hra : ∀ x ∈ a, x < 16#32) (hrb : ∀ x ∈ b, x < 16#32)
    (h : polyW1Pack a = polyW1Pack b) : a = b := by
  rw [← w1_invertible a ha hra, ← w1_invertible b hb hrb, h]

end Qrl.DilPack
