import QrlModel.Model.Basic
/-! Generic lemmas: splitting into fixed-size chunks, and lifting a per-lane round trip to whole arrays. -/
namespace Qrl

theorem chunksAux_fuel {α} (n : Nat) (hn : 0 < n) : ∀ (f : Nat) (l : List α), l.length ≤ f → chunksAux n f l = chunksAux n l.length l
  | 0, l, h => by
    have : l = [] := List.eq_nil_of_length_eq_zero (by omega)
    subst this; rfl
  | f+1, l, h => by
    cases l with
    | nil => rfl
    | cons x t =>
      have hl : (x :: t).length = t.length + 1 := rfl
      rw [hl]
      simp only [chunksAux, List.isEmpty_cons, Bool.false_eq_true, if_false]
      have hd : ((x :: t).drop n).length ≤ t.length := by simp only [List.length_drop, List.length_cons]; omega
      rw [chunksAux_fuel n hn f _ (by omega), chunksAux_fuel n hn t.length _ hd]

theorem chunks_append {α} (n : Nat) (hn : 0 < n) (c rest : List α) (hc : c.length = n) :
    chunks n (c ++ rest) = c :: chunks n rest := by
  unfold chunks
  have hne : (c ++ rest).length = (n - 1 + rest.length) + 1 := by simp [hc]; omega
  rw [hne]
  have hce : (c ++ rest).isEmpty = false := by
    cases c with
    | nil => simp at hc; omega
    | cons => rfl
  simp only [chunksAux, hce, Bool.false_eq_true, if_false]
  have ht : (c ++ rest).take n = c := by rw [← hc]; simp
  have hd : (c ++ rest).drop n = rest := by rw [← hc]; simp
  rw [ht, hd, chunksAux_fuel n hn _ rest (by omega)]

theorem chunks_nil {α} (n : Nat) : chunks n ([] : List α) = [] := rfl

/-- lifting a lane round trip: if `laneU (laneP c) = c` on every good `n`-chunk and `laneP` always yields
`m` elements, then unpacking the packing of a whole array of `k` good chunks returns the array -/
theorem roundtrip_lift {α β} (n m : Nat) (hn : 0 < n) (hm : 0 < m) (P : List α → Prop)
    (laneP : List α → List β) (laneU : List β → List α)
    (hlen : ∀ c, c.length = n → (laneP c).length = m)
    (hrt : ∀ c, c.length = n → P c → laneU (laneP c) = c) :
    ∀ (k : Nat) (l : List α), l.length = n * k → (∀ c ∈ chunks n l, P c) →
      (chunks m ((chunks n l).flatMap laneP)).flatMap laneU = l ∧ ((chunks n l).flatMap laneP).length = m * k
  | 0, l, hl, _ => by
    have : l = [] := List.eq_nil_of_length_eq_zero (by omega)
    subst this; simp [chunks_nil]
  | k+1, l, hl, hP => by
    have hk : n * (k+1) = n * k + n := Nat.mul_succ n k
    obtain ⟨c, rest, hlc, hc, hr⟩ : ∃ c rest, l = c ++ rest ∧ c.length = n ∧ rest.length = n * k :=
      ⟨l.take n, l.drop n, (List.take_append_drop n l).symm, by rw [List.length_take]; omega, by rw [List.length_drop]; omega⟩
    subst hlc
    rw [chunks_append n hn _ _ hc] at hP ⊢
    simp only [List.flatMap_cons]
    have hPc := hP c (by simp)
    obtain ⟨ih1, ih2⟩ := roundtrip_lift n m hn hm P laneP laneU hlen hrt k rest hr (fun c' hcm => hP c' (by simp [hcm]))
    rw [chunks_append m hm _ _ (hlen _ hc)]
    simp only [List.flatMap_cons, hrt _ hc hPc, ih1, List.length_append, hlen _ hc, ih2, true_and]
    rw [Nat.mul_succ]; omega

theorem mem_chunksAux {α} (n : Nat) : ∀ (f : Nat) (l c : List α), c ∈ chunksAux n f l → ∀ x ∈ c, x ∈ l
  | 0, _, _, h, _, _ => by simp [chunksAux] at h
  | f+1, l, c, h, x, hx => by
    simp only [chunksAux] at h
    split at h
    · simp at h
    · rcases List.mem_cons.mp h with rfl | h
      · exact List.mem_of_mem_take hx
      · exact List.mem_of_mem_drop (mem_chunksAux n f _ c h x hx)

theorem mem_chunks {α} (n : Nat) (l c : List α) (h : c ∈ chunks n l) : ∀ x ∈ c, x ∈ l := mem_chunksAux n _ l c h

/-- splitting a list of length `n * k` into `n`-chunks and mapping each chunk by a function that is the
identity on `n`-chunks gives the list back -/
theorem flatMap_chunks_id {α} (n : Nat) (hn : 0 < n) (f : List α → List α) (hf : ∀ c, c.length = n → f c = c) :
    ∀ (k : Nat) (l : List α), l.length = n * k → (chunks n l).flatMap f = l ∧ (chunks n l).length = k
  | 0, l, hl => by
    have : l = [] := List.eq_nil_of_length_eq_zero (by omega)
    subst this; simp [chunks_nil]
  | k+1, l, hl => by
    have hk : n * (k+1) = n * k + n := Nat.mul_succ n k
    obtain ⟨c, rest, hlc, hc, hr⟩ : ∃ c rest, l = c ++ rest ∧ c.length = n ∧ rest.length = n * k :=
      ⟨l.take n, l.drop n, (List.take_append_drop n l).symm, by rw [List.length_take]; omega, by rw [List.length_drop]; omega⟩
    subst hlc
    obtain ⟨ih1, ih2⟩ := flatMap_chunks_id n hn f hf k rest hr
    rw [chunks_append n hn _ _ hc]
    simp [List.flatMap_cons, hf c hc, ih1, ih2]

/-- all chunks of a list whose length is a multiple of `n` have length `n`; their images under a function that
yields `m` elements per `n`-chunk add up to `m * k` elements -/
theorem flatMap_chunks_length {α β} (n m : Nat) (hn : 0 < n) (f : List α → List β) (hf : ∀ c, c.length = n → (f c).length = m) :
    ∀ (k : Nat) (l : List α), l.length = n * k → ((chunks n l).flatMap f).length = m * k ∧ ∀ c ∈ chunks n l, c.length = n
  | 0, l, hl => by
    have : l = [] := List.eq_nil_of_length_eq_zero (by omega)
    subst this; simp [chunks_nil]
  | k+1, l, hl => by
    have hk : n * (k+1) = n * k + n := Nat.mul_succ n k
    obtain ⟨c, rest, hlc, hc, hr⟩ : ∃ c rest, l = c ++ rest ∧ c.length = n ∧ rest.length = n * k :=
      ⟨l.take n, l.drop n, (List.take_append_drop n l).symm, by rw [List.length_take]; omega, by rw [List.length_drop]; omega⟩
    subst hlc
    obtain ⟨ih1, ih2⟩ := flatMap_chunks_length n m hn f hf k rest hr
    rw [chunks_append n hn _ _ hc]
    constructor
    · simp only [List.flatMap_cons, List.length_append, hf c hc, ih1]; rw [Nat.mul_succ]; omega
    · intro c' hc'
      rcases List.mem_cons.mp hc' with rfl | h
      · exact hc
      · exact ih2 c' h

/-- chunking a concatenation of `m`-element blocks gives the blocks back -/
theorem chunks_flatMap_map {α β} (m : Nat) (hm : 0 < m) (f : α → List β) : ∀ (l : List α), (∀ x ∈ l, (f x).length = m) →
    chunks m (l.flatMap f) = l.map f
  | [], _ => by simp [chunks_nil]
  | x :: l, h => by
    simp only [List.flatMap_cons, List.map_cons]
    rw [chunks_append m hm _ _ (h x (by simp)), chunks_flatMap_map m hm f l (fun y hy => h y (by simp [hy]))]

theorem flatMap_length_const {α β} (m : Nat) (f : α → List β) : ∀ (l : List α), (∀ x ∈ l, (f x).length = m) →
    (l.flatMap f).length = m * l.length
  | [], _ => by simp
  | x :: l, h => by
    simp only [List.flatMap_cons, List.length_append, List.length_cons, h x (by simp),
      flatMap_length_const m f l (fun y hy => h y (by simp [hy]))]
    rw [Nat.mul_succ]; omega

end Qrl
