import QrlModel.Proofs.DilVS
/-! Specification-level readings of key generation and of the signing components: the equations of the Dilithium
specification in the NTT domain over `ZMod q`, with canonical representatives. -/
namespace Qrl.NttBridge
open Gen.Dil Qrl.Dil Qrl.NttTable Qrl.DilProofs Qrl.VecF

theorem sumF_scale (r c : Fq) : ∀ (A S : List (List Fq)), sumF r A S * (fun _ => c) = sumF (r * c) A S
  | [], _ => by simp [sumF_nil_left]
  | _ :: _, [] => by simp [sumF_nil_right]
  | a :: A, s :: S => by
    rw [sumF_cons, sumF_cons, ← sumF_scale r c A S]
    funext n; simp only [Pi.add_apply, Pi.mul_apply]; ring

theorem accF_scale (r c : Fq) (A S : List (List Fq)) (hA : ∀ x ∈ A, x.length = 256) (hS : ∀ x ∈ S, x.length = 256) :
    (accF r A S).map (· * c) = accF (r * c) A S := by
  obtain ⟨l1, f1⟩ := accF_toFun r A S hA hS
  obtain ⟨l2, f2⟩ := accF_toFun (r * c) A S hA hS
  apply eq_of_toFun
  · rw [List.length_map, l1, l2]
  · rw [toFun_map_mul, f1, f2, sumF_scale]

/-- **key generation, one row, NTT domain**: `t̂ = Â·ŝ1 + ŝ2`, and `t` is the canonical representative in `[0, q)` -/
theorem keyT_spec (row s1 : List Poly) (s2i : Poly) (hrow : ∀ p ∈ row, Good 0 8380416 p) (hrl : row.length ≤ 8)
    (hs1 : ∀ p ∈ s1, Good (-2) 2 p) (hs2 : Good (-2) 2 s2i) :
    NTT (V (keyT row s1 s2i)) = List.zipWith (· + ·) (accF 1 (row.map V) ((s1.map V).map NTT)) (NTT (V s2i)) ∧
    Good 0 8380416 (keyT row s1 s2i) := by
  obtain ⟨et, gt⟩ := keyT_facts row s1 s2i hrow hrl hs1 hs2
  obtain ⟨eS, gS⟩ := ntt_all s1 2 hs1 (by norm_num) (by norm_num)
  have hA : ∀ x ∈ row.map V, x.length = 256 := by
    intro x hx; obtain ⟨p, hp, rfl⟩ := List.mem_map.mp hx; rw [V_length]; exact (hrow p hp).1
  have hS : ∀ x ∈ (s1.map ntt).map V, x.length = 256 := by
    intro x hx; obtain ⟨p, hp, rfl⟩ := List.mem_map.mp hx; rw [V_length]; exact (gS p hp).1
  have lS := (accF_toFun ρ _ _ hA hS).1
  refine ⟨?_, gt⟩
  rw [et, NTT_add _ _ (by rw [List.length_map, INV_length _ lS]) (by rw [V_length]; exact hs2.1), NTT_INV_κ _ lS,
    accF_scale ρ (256 * κ) _ _ hA hS, hκ', eS]

/-- **signing, NTT domain**: `ẑ_j = ĉ·ŝ1_j + ŷ_j` and `ŵ_i = Σ_j Â_ij·ŷ_j`, `w` canonical in `[0, q)` -/
theorem sigW_spec (row y : List Poly) (hrow : ∀ p ∈ row, Good 0 8380416 p) (hrl : row.length ≤ 8)
    (hy : ∀ p ∈ y, Good (-524287) 524288 p) :
    NTT (V (sigW row y)) = accF 1 (row.map V) ((y.map V).map NTT) ∧ Good 0 8380416 (sigW row y) := by
  obtain ⟨ew, gw⟩ := sigW_facts row y hrow hrl hy
  obtain ⟨eY, gY⟩ := ntt_all y 524288 (fun p hp => (hy p hp).mono (by norm_num) (by norm_num)) (by norm_num) (by norm_num)
  have hA : ∀ x ∈ row.map V, x.length = 256 := by
    intro x hx; obtain ⟨p, hp, rfl⟩ := List.mem_map.mp hx; rw [V_length]; exact (hrow p hp).1
  have hY : ∀ x ∈ (y.map ntt).map V, x.length = 256 := by
    intro x hx; obtain ⟨p, hp, rfl⟩ := List.mem_map.mp hx; rw [V_length]; exact (gY p hp).1
  have lY := (accF_toFun ρ _ _ hA hY).1
  refine ⟨?_, gw⟩
  rw [ew, NTT_INV_κ _ lY, accF_scale ρ (256 * κ) _ _ hA hY, hκ', eY]

theorem sigZ_spec (c : Poly) (hc : Good (-1) 1 c) (s1 y : List Poly) (hs1 : ∀ p ∈ s1, Good (-2) 2 p) (hy : ∀ p ∈ y, Good (-524287) 524288 p) :
    ((sigZ (ntt c) s1 y).map V).map NTT =
      List.zipWith (fun s y => List.zipWith (· + ·) (List.zipWith (· * ·) (NTT (V c)) s) y) ((s1.map V).map NTT) ((y.map V).map NTT) := by
  obtain ⟨ecp, gcp⟩ := G_ntt c 1 hc (by norm_num) (by norm_num)
  have gcp' : Good (-(1 + 8 * 8380417)) (1 + 8 * 8380417) (ntt c) := gcp
  obtain ⟨ez, gz, _⟩ := sigZ_facts (ntt c) gcp' s1 y hs1 hy
  obtain ⟨eS, _⟩ := ntt_all s1 2 hs1 (by norm_num) (by norm_num)
  obtain ⟨eY, _⟩ := ntt_all y 524288 (fun p hp => (hy p hp).mono (by norm_num) (by norm_num)) (by norm_num) (by norm_num)
  obtain ⟨eZ, _⟩ := ntt_all (sigZ (ntt c) s1 y) 6283009 (fun p hp => (gz p hp).mono (by norm_num) (by norm_num)) (by norm_num) (by norm_num)
  rw [← eZ, ez, ecp, eS, eY]

theorem rowsT_spec (s1 : List Poly) (hs1 : ∀ p ∈ s1, Good (-2) 2 p) : ∀ (mat : List (List Poly)) (s2 : List Poly),
    (∀ row ∈ mat, (∀ p ∈ row, Good 0 8380416 p) ∧ row.length ≤ 8) → (∀ p ∈ s2, Good (-2) 2 p) →
    (List.zipWith (fun row s2i => keyT row s1 s2i) mat s2).map (fun t => NTT (V t)) =
      List.zipWith (fun row s2i => List.zipWith (· + ·) (accF 1 (row.map V) ((s1.map V).map NTT)) (NTT (V s2i))) mat s2
  | [], _, _, _ => by simp
  | _ :: _, [], _, _ => by simp
  | row :: mat, s2i :: s2, hm, hs2 => by
    simp only [List.zipWith_cons_cons, List.map_cons]
    rw [rowsT_spec s1 hs1 mat s2 (fun r hr => hm r (by simp [hr])) (fun p hp => hs2 p (by simp [hp])),
      (keyT_spec row s1 s2i (hm row (by simp)).1 (hm row (by simp)).2 hs1 (hs2 s2i (by simp))).1]

section
variable (shake128 shake256 : Bytes → Nat → Bytes)

/-- **key generation equals the specification**: with ρ, ρ′, K = H(seed), Â = ExpandA(ρ) (entries in [0, q)),
(s1, s2) = ExpandS(ρ′) (entries in [−η, η]): `t̂ = Â·ŝ1 + ŝ2` in the NTT domain over `ZMod q`, every coefficient of `t` is the
canonical representative in [0, q), `t = t1·2^13 + t0` with `t1 ∈ [0, 2^10)`, `t0 ∈ (−2^12, 2^12]`, and the keys are
`pk = ρ ‖ pack(t1)`, `sk = ρ ‖ K ‖ H(pk) ‖ pack(s1) ‖ pack(s2) ‖ pack(t0)` -/
theorem keygen_spec (hx : XofLen shake128 shake256) (seed : Bytes) (hE : Expanded shake128 shake256 seed) :
    (keypair shake128 shake256 seed).pk = kRho shake256 seed ++ (kT1 shake128 shake256 seed).flatMap polyT1Pack ∧
    (keypair shake128 shake256 seed).sk = kRho shake256 seed ++ kKey shake256 seed ++ shake256 (keypair shake128 shake256 seed).pk 32 ++
      (kS1 shake256 seed).flatMap polyEtaPack ++ (kS2 shake256 seed).flatMap polyEtaPack ++ (kT0 shake128 shake256 seed).flatMap polyT0Pack ∧
    (kT shake128 shake256 seed).map (fun t => NTT (V t)) =
      List.zipWith (fun row s2i => List.zipWith (· + ·) (accF 1 (row.map V) (((kS1 shake256 seed).map V).map NTT)) (NTT (V s2i)))
        (kMat shake128 shake256 seed) (kS2 shake256 seed) ∧
    (∀ t ∈ kT shake128 shake256 seed, Good 0 8380416 t ∧ ∀ x ∈ t,
      x.toInt = (power2Round x).1.toInt * 8192 + (power2Round x).2.toInt ∧ 0 ≤ (power2Round x).1.toInt ∧ (power2Round x).1.toInt ≤ 1023 ∧
      -4095 ≤ (power2Round x).2.toInt ∧ (power2Round x).2.toInt ≤ 4096) ∧
    (∀ row ∈ kMat shake128 shake256 seed, ∀ p ∈ row, Good 0 8380416 p) ∧
    (∀ p ∈ kS1 shake256 seed, Good (-2) 2 p) ∧ (∀ p ∈ kS2 shake256 seed, Good (-2) 2 p) := by
  obtain ⟨_, _, _, _, g1, l2, g2, lM, gM⟩ := key_facts shake128 shake256 hx seed hE
  have gT : ∀ p ∈ kT shake128 shake256 seed, Good 0 8380416 p := by
    unfold kT
    apply zipWith_all_mem
    intro row hrow s2i hs2i
    exact (keyT_facts row _ s2i (gM row hrow).1 (gM row hrow).2 g1 (g2 s2i hs2i)).2
  refine ⟨by rw [keypair_eq]; rfl, by rw [keypair_eq]; rfl, rowsT_spec _ g1 _ _ gM g2, ?_, fun row hr => (gM row hr).1, g1, g2⟩
  intro t ht
  refine ⟨gT t ht, ?_⟩
  intro x hx
  exact power2Round_coeff x ((gT t ht).2 x hx).1 ((gT t ht).2 x hx).2

end
end Qrl.NttBridge
