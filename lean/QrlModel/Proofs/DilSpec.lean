import QrlModel.Proofs.DilVS
import Std.Tactic.BVDecide
/-! Specification-level readings of key generation and of the signing components: the equations of the Dilithium
specification in the NTT domain over `ZMod q`, with canonical representatives. -/
namespace Qrl.NttBridge
open Gen.Dil Qrl.Dil Qrl.NttTable Qrl.DilProofs Qrl.VecF

theorem sumF_scale (r c : Fq) : ∀ (A S : List (List Fq)), sumF r A S * (fun _ => c) = sumF (r * c) A S
  | [], _ => by simp [sumF_nil_left]
  | _ :: _, [] => by simp [sumF_nil_right]
  | a :: A, s :: S => by
    rw [sumF_cons, sumF_cons, ← sumF_scale r c A S]
    funext n; simp only [Pi.add_apply, Pi.mul_apply]; ring

theorem accF_scale (r c : Fq) (A S : List (List Fq)) (hA : ∀ x ∈ A, x.length = 256) (hS : ∀ x ∈ S, x.length = 256) :
    (accF r A S).map (· * c) = accF (r * c) A S := by
  obtain ⟨l1, f1⟩ := accF_toFun r A S hA hS
  obtain ⟨l2, f2⟩ := accF_toFun (r * c) A S hA hS
  apply eq_of_toFun
  · rw [List.length_map, l1, l2]
  · rw [toFun_map_mul, f1, f2, sumF_scale]

/-- **key generation, one row, NTT domain**: `t̂ = Â·ŝ1 + ŝ2`, and `t` is the canonical representative in `[0, q)` -/
theorem keyT_spec (row s1 : List Poly) (s2i : Poly) (hrow : ∀ p ∈ row, Good 0 8380416 p) (hrl : row.length ≤ 8)
    (hs1 : ∀ p ∈ s1, Good (-2) 2 p) (hs2 : Good (-2) 2 s2i) :
    NTT (V (keyT row s1 s2i)) = List.zipWith (· + ·) (accF 1 (row.map V) ((s1.map V).map NTT)) (NTT (V s2i)) ∧
    Good 0 8380416 (keyT row s1 s2i) := by
  obtain ⟨et, gt⟩ := keyT_facts row s1 s2i hrow hrl hs1 hs2
  obtain ⟨eS, gS⟩ := ntt_all s1 2 hs1 (by norm_num) (by norm_num)
  have hA : ∀ x ∈ row.map V, x.length = 256 := by
    intro x hx; obtain ⟨p, hp, rfl⟩ := List.mem_map.mp hx; rw [V_length]; exact (hrow p hp).1
  have hS : ∀ x ∈ (s1.map ntt).map V, x.length = 256 := by
    intro x hx; obtain ⟨p, hp, rfl⟩ := List.mem_map.mp hx; rw [V_length]; exact (gS p hp).1
  have lS := (accF_toFun ρ _ _ hA hS).1
  refine ⟨?_, gt⟩
  rw [et, NTT_add _ _ (by rw [List.length_map, INV_length _ lS]) (by rw [V_length]; exact hs2.1), NTT_INV_κ _ lS,
    accF_scale ρ (256 * κ) _ _ hA hS, hκ', eS]

/-- **signing, NTT domain**: `ẑ_j = ĉ·ŝ1_j + ŷ_j` and `ŵ_i = Σ_j Â_ij·ŷ_j`, `w` canonical in `[0, q)` -/
theorem sigW_spec (row y : List Poly) (hrow : ∀ p ∈ row, Good 0 8380416 p) (hrl : row.length ≤ 8)
    (hy : ∀ p ∈ y, Good (-524287) 524288 p) :
    NTT (V (sigW row y)) = accF 1 (row.map V) ((y.map V).map NTT) ∧ Good 0 8380416 (sigW row y) := by
  obtain ⟨ew, gw⟩ := sigW_facts row y hrow hrl hy
  obtain ⟨eY, gY⟩ := ntt_all y 524288 (fun p hp => (hy p hp).mono (by norm_num) (by norm_num)) (by norm_num) (by norm_num)
  have hA : ∀ x ∈ row.map V, x.length = 256 := by
    intro x hx; obtain ⟨p, hp, rfl⟩ := List.mem_map.mp hx; rw [V_length]; exact (hrow p hp).1
  have hY : ∀ x ∈ (y.map ntt).map V, x.length = 256 := by
    intro x hx; obtain ⟨p, hp, rfl⟩ := List.mem_map.mp hx; rw [V_length]; exact (gY p hp).1
  have lY := (accF_toFun ρ _ _ hA hY).1
  refine ⟨?_, gw⟩
  rw [ew, NTT_INV_κ _ lY, accF_scale ρ (256 * κ) _ _ hA hY, hκ', eY]

theorem sigZ_spec (c : Poly) (hc : Good (-1) 1 c) (s1 y : List Poly) (hs1 : ∀ p ∈ s1, Good (-2) 2 p) (hy : ∀ p ∈ y, Good (-524287) 524288 p) :
    ((sigZ (ntt c) s1 y).map V).map NTT =
      List.zipWith (fun s y => List.zipWith (· + ·) (List.zipWith (· * ·) (NTT (V c)) s) y) ((s1.map V).map NTT) ((y.map V).map NTT) := by
  obtain ⟨ecp, gcp⟩ := G_ntt c 1 hc (by norm_num) (by norm_num)
  have gcp' : Good (-(1 + 8 * 8380417)) (1 + 8 * 8380417) (ntt c) := gcp
  obtain ⟨ez, gz, _⟩ := sigZ_facts (ntt c) gcp' s1 y hs1 hy
  obtain ⟨eS, _⟩ := ntt_all s1 2 hs1 (by norm_num) (by norm_num)
  obtain ⟨eY, _⟩ := ntt_all y 524288 (fun p hp => (hy p hp).mono (by norm_num) (by norm_num)) (by norm_num) (by norm_num)
  obtain ⟨eZ, _⟩ := ntt_all (sigZ (ntt c) s1 y) 6283009 (fun p hp => (gz p hp).mono (by norm_num) (by norm_num)) (by norm_num) (by norm_num)
  rw [← eZ, ez, ecp, eS, eY]

/-- **verification, NTT domain**: the verifier's `w′ = A·z − c·t1·2^d` over `ZMod q`, canonical in `[0, q)` — for every response `z`
with coefficients in (−γ1, γ1] (as every decoded `z` has), every decoded `t1` and every challenge -/
theorem verV_spec (row : List Poly) (c : Poly) (z : List Poly) (t1i : Poly) (hrow : ∀ p ∈ row, Good 0 8380416 p) (hrl : row.length ≤ 8)
    (hc : Good (-1) 1 c) (hz : ∀ p ∈ z, Good (-524287) 524288 p) (ht1 : Good 0 1023 t1i) :
    NTT (V (verV row (ntt c) z t1i)) =
      List.zipWith (· - ·) (accF 1 (row.map V) ((z.map V).map NTT))
        (List.zipWith (· * ·) (NTT (V c)) (NTT ((V t1i).map (· * (8192 : Fq))))) ∧
    Good 0 8380416 (verV row (ntt c) z t1i) := by
  obtain ⟨ecp, gcp⟩ := G_ntt c 1 hc (by norm_num) (by norm_num)
  have gcp' : Good (-(1 + 8 * 8380417)) (1 + 8 * 8380417) (ntt c) := gcp
  obtain ⟨eZ, gZ⟩ := ntt_all z 524288 (fun p hp => (hz p hp).mono (by norm_num) (by norm_num)) (by norm_num) (by norm_num)
  obtain ⟨ev, gv⟩ := verV_facts row (ntt c) z t1i hrow hrl gcp' (fun p hp => (gZ p hp).1) ht1
  have hA : ∀ x ∈ row.map V, x.length = 256 := by
    intro x hx; obtain ⟨p, hp, rfl⟩ := List.mem_map.mp hx; rw [V_length]; exact (hrow p hp).1
  have hZ : ∀ x ∈ (z.map ntt).map V, x.length = 256 := by
    intro x hx; obtain ⟨p, hp, rfl⟩ := List.mem_map.mp hx; rw [V_length]; exact (gZ p hp).1
  have lZ := (accF_toFun ρ _ _ hA hZ).1
  have hC : (V (ntt c)).length = 256 := by rw [V_length]; exact gcp.1
  have hT : (NTT ((V t1i).map (· * (8192 : Fq)))).length = 256 := NTT_length _ (by rw [List.length_map, V_length]; exact ht1.1)
  have lX : (List.zipWith (· - ·) (accF ρ (row.map V) ((z.map ntt).map V))
      ((List.zipWith (· * ·) (V (ntt c)) (NTT ((V t1i).map (· * (8192 : Fq))))).map (· * ρ))).length = 256 := by
    simp only [List.length_zipWith, List.length_map, lZ, hC, hT]; rfl
  refine ⟨?_, gv⟩
  rw [ev, NTT_INV_κ _ lX, map_zipWith_sub_smul, accF_scale ρ (256 * κ) _ _ hA hZ, map_smul_smul, hκ', map_mul_one, eZ, ecp]

theorem t1Unpack_lane_range (a0 a1 a2 a3 a4 : BitVec 8) : ∀ x ∈ polyT1Unpack_lane a0 a1 a2 a3 a4, x < 1024#32 := by
  intro x hx
  simp only [polyT1Unpack_lane, List.mem_cons, List.mem_nil_iff, or_false] at hx
  rcases hx with rfl | rfl | rfl | rfl <;> bv_decide

/-- every decoded `t1` polynomial has 256 coefficients in [0, 2^10) -/
theorem polyT1Unpack_facts (b : Bytes) (hl : 320 ≤ b.length) : Good 0 1023 (polyT1Unpack b) := by
  constructor
  · rw [DilPack.polyT1Unpack_eq]
    have h5 : (b.take 320).length = 5 * 64 := by rw [List.length_take]; omega
    have := (flatMap_chunks_length 5 4 (by decide) DilPack.t1U (by
      intro c hc
      match c, hc with
      | [c0,c1,c2,c3,c4], _ => rfl) 64 (b.take 320) h5).1
    simpa using this
  · intro x hx
    rw [DilPack.polyT1Unpack_eq] at hx
    obtain ⟨c, _, hxc⟩ := List.mem_flatMap.mp hx
    unfold DilPack.t1U at hxc
    split at hxc
    · have h := t1Unpack_lane_range _ _ _ _ _ x hxc
      rw [BitVec.lt_def] at h
      have hn : (1024#32 : BitVec 32).toNat = 1024 := by rfl
      rw [hn] at h
      have : x.toInt = x.toNat := by
        rw [BitVec.toInt_eq_toNat_cond]; split <;> omega
      omega
    · simp at hxc

/-- every decoded `z` polynomial has 256 coefficients in (−γ1, γ1] -/
theorem polyZUnpack_facts (b : Bytes) (hl : 640 ≤ b.length) : Good (-524287) 524288 (polyZUnpack b) := by
  refine ⟨polyZUnpack_length b hl, ?_⟩
  intro x hx
  have := polyZUnpack_range b x hx
  have h := slt_sle_toInt x (-524288) 524288 (by omega) (by omega) (by simpa using this)
  omega

/-- the `z` and `t1` vectors the verifier works with are in these ranges for every signature / public key of the right size -/
theorem decoded_ranges (sig pk : Bytes) (hs : sig.length = CryptoBytes) (hp : pk.length = CryptoPublicKeyBytes) :
    (∀ p ∈ (chunks 640 ((sig.drop 32).take (L * 640))).map polyZUnpack, Good (-524287) 524288 p) ∧
    (∀ p ∈ (chunks 320 ((pk.drop 32).take (K * 320))).map polyT1Unpack, Good 0 1023 p) := by
  have hC : CryptoBytes = 4595 := rfl
  have hP : CryptoPublicKeyBytes = 2592 := rfl
  have hL : L = 7 := rfl
  have hK : K = 8 := rfl
  constructor
  · intro p hpm
    obtain ⟨c, hc, rfl⟩ := List.mem_map.mp hpm
    have hl : ((sig.drop 32).take (L * 640)).length = 640 * L := by rw [List.length_take, List.length_drop]; omega
    have := (flatMap_chunks_length 640 0 (by decide) (fun _ => ([] : List Nat)) (fun _ _ => rfl) L _ hl).2 c hc
    exact polyZUnpack_facts c (by omega)
  · intro p hpm
    obtain ⟨c, hc, rfl⟩ := List.mem_map.mp hpm
    have hl : ((pk.drop 32).take (K * 320)).length = 320 * K := by rw [List.length_take, List.length_drop]; omega
    have := (flatMap_chunks_length 320 0 (by decide) (fun _ => ([] : List Nat)) (fun _ _ => rfl) K _ hl).2 c hc
    exact polyT1Unpack_facts c (by omega)

theorem rowsT_spec (s1 : List Poly) (hs1 : ∀ p ∈ s1, Good (-2) 2 p) : ∀ (mat : List (List Poly)) (s2 : List Poly),
    (∀ row ∈ mat, (∀ p ∈ row, Good 0 8380416 p) ∧ row.length ≤ 8) → (∀ p ∈ s2, Good (-2) 2 p) →
    (List.zipWith (fun row s2i => keyT row s1 s2i) mat s2).map (fun t => NTT (V t)) =
      List.zipWith (fun row s2i => List.zipWith (· + ·) (accF 1 (row.map V) ((s1.map V).map NTT)) (NTT (V s2i))) mat s2
  | [], _, _, _ => by simp
  | _ :: _, [], _, _ => by simp
  | row :: mat, s2i :: s2, hm, hs2 => by
    simp only [List.zipWith_cons_cons, List.map_cons]
    rw [rowsT_spec s1 hs1 mat s2 (fun r hr => hm r (by simp [hr])) (fun p hp => hs2 p (by simp [hp])),
      (keyT_spec row s1 s2i (hm row (by simp)).1 (hm row (by simp)).2 hs1 (hs2 s2i (by simp))).1]

section
variable (shake128 shake256 : Bytes → Nat → Bytes)

/-- **key generation equals the specification**: with ρ, ρ′, K = H(seed), Â = ExpandA(ρ) (entries in [0, q)),
(s1, s2) = ExpandS(ρ′) (entries in [−η, η]): `t̂ = Â·ŝ1 + ŝ2` in the NTT domain over `ZMod q`, every coefficient of `t` is the
canonical representative in [0, q), `t = t1·2^13 + t0` with `t1 ∈ [0, 2^10)`, `t0 ∈ (−2^12, 2^12]`, and the keys are
`pk = ρ ‖ pack(t1)`, `sk = ρ ‖ K ‖ H(pk) ‖ pack(s1) ‖ pack(s2) ‖ pack(t0)` -/
theorem keygen_spec (hx : XofLen shake128 shake256) (seed : Bytes) (hE : Expanded shake128 shake256 seed) :
    (keypair shake128 shake256 seed).pk = kRho shake256 seed ++ (kT1 shake128 shake256 seed).flatMap polyT1Pack ∧
    (keypair shake128 shake256 seed).sk = kRho shake256 seed ++ kKey shake256 seed ++ shake256 (keypair shake128 shake256 seed).pk 32 ++
      (kS1 shake256 seed).flatMap polyEtaPack ++ (kS2 shake256 seed).flatMap polyEtaPack ++ (kT0 shake128 shake256 seed).flatMap polyT0Pack ∧
    (kT shake128 shake256 seed).map (fun t => NTT (V t)) =
      List.zipWith (fun row s2i => List.zipWith (· + ·) (accF 1 (row.map V) (((kS1 shake256 seed).map V).map NTT)) (NTT (V s2i)))
        (kMat shake128 shake256 seed) (kS2 shake256 seed) ∧
    (∀ t ∈ kT shake128 shake256 seed, Good 0 8380416 t ∧ ∀ x ∈ t,
      x.toInt = (power2Round x).1.toInt * 8192 + (power2Round x).2.toInt ∧ 0 ≤ (power2Round x).1.toInt ∧ (power2Round x).1.toInt ≤ 1023 ∧
      -4095 ≤ (power2Round x).2.toInt ∧ (power2Round x).2.toInt ≤ 4096) ∧
    (∀ row ∈ kMat shake128 shake256 seed, ∀ p ∈ row, Good 0 8380416 p) ∧
    (∀ p ∈ kS1 shake256 seed, Good (-2) 2 p) ∧ (∀ p ∈ kS2 shake256 seed, Good (-2) 2 p) := by
  obtain ⟨_, _, _, _, g1, l2, g2, lM, gM⟩ := key_facts shake128 shake256 hx seed hE
  have gT : ∀ p ∈ kT shake128 shake256 seed, Good 0 8380416 p := by
    unfold kT
    apply zipWith_all_mem
    intro row hrow s2i hs2i
    exact (keyT_facts row _ s2i (gM row hrow).1 (gM row hrow).2 g1 (g2 s2i hs2i)).2
  refine ⟨by rw [keypair_eq]; rfl, by rw [keypair_eq]; rfl, rowsT_spec _ g1 _ _ gM g2, ?_, fun row hr => (gM row hr).1, g1, g2⟩
  intro t ht
  refine ⟨gT t ht, ?_⟩
  intro x hx
  exact power2Round_coeff x ((gT t ht).2 x hx).1 ((gT t ht).2 x hx).2

end
end Qrl.NttBridge
