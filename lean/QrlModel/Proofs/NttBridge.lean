import QrlModel.Proofs.NttTable
import QrlModel.Proofs.DilScalar
import QrlModel.Model.Dilithium
import Mathlib.Tactic.Linarith
namespace Qrl.NttBridge
open Gen.Dil Qrl.Dil Qrl.NttTable Qrl.DilProofs

/-- a coefficient as a residue mod q -/
def phi (x : Coeff) : Fq := ((x.toInt : Int) : Fq)

theorem toInt_add_exact (x y : Coeff) (h1 : -2147483648 ≤ x.toInt + y.toInt) (h2 : x.toInt + y.toInt < 2147483648) :
    (x + y).toInt = x.toInt + y.toInt := by
  rw [BitVec.toInt_add]; exact bmod32_id _ h1 h2

theorem toInt_sub_exact (x y : Coeff) (h1 : -2147483648 ≤ x.toInt - y.toInt) (h2 : x.toInt - y.toInt < 2147483648) :
    (x - y).toInt = x.toInt - y.toInt := by
  rw [BitVec.toInt_sub]; exact bmod32_id _ h1 h2

theorem phi_add (x y : Coeff) (h1 : -2147483648 ≤ x.toInt + y.toInt) (h2 : x.toInt + y.toInt < 2147483648) :
    phi (x + y) = phi x + phi y := by
  simp only [phi, toInt_add_exact x y h1 h2, Int.cast_add]

theorem phi_sub (x y : Coeff) (h1 : -2147483648 ≤ x.toInt - y.toInt) (h2 : x.toInt - y.toInt < 2147483648) :
    phi (x - y) = phi x - phi y := by
  simp only [phi, toInt_sub_exact x y h1 h2, Int.cast_sub]

theorem rinv_mul : ((4294967296 : Int) : Fq) * ((rinv : Nat) : Fq) = 1 := by
  have := cast_eq_of_mod (a := 4294967296 * rinv) (b := 1) (by rw [rinv_ok]; rfl)
  push_cast at this
  exact_mod_cast this

theorem int_cast_eq_of_emod {a b : Int} (h : a % 8380417 = b % 8380417) : (a : Fq) = (b : Fq) :=
  (ZMod.intCast_eq_intCast_iff' a b 8380417).mpr h

/-- Montgomery multiplication in the field: `montMul a b = a · b · R⁻¹`, result strictly between −q and q -/
theorem phi_montMul (a b : Coeff) (h1 : -(2147483648 * 8380417) ≤ a.toInt * b.toInt) (h2 : a.toInt * b.toInt < 2147483648 * 8380417) :
    phi (montMul a b) = phi a * phi b * ((rinv : Nat) : Fq) ∧ -8380417 < (montMul a b).toInt ∧ (montMul a b).toInt < 8380417 := by
  unfold montMul
  have hprod : (BitVec.signExtend 64 a * BitVec.signExtend 64 b).toInt = a.toInt * b.toInt := by
    rw [BitVec.toInt_mul, toInt_sext64, toInt_sext64]
    have n64 : (2:Nat)^64 = 18446744073709551616 := by rfl
    rw [n64]
    exact bmod64_id _ (by omega) (by omega)
  obtain ⟨hc, hlo, hhi⟩ := montgomeryReduce_spec (BitVec.signExtend 64 a * BitVec.signExtend 64 b) (by rw [hprod]; exact h1) (by rw [hprod]; exact h2)
  rw [hprod] at hc
  refine ⟨?_, hlo, hhi⟩
  have := int_cast_eq_of_emod hc
  simp only [phi]
  push_cast at this
  have hr := rinv_mul
  calc ((montgomeryReduce (BitVec.signExtend 64 a * BitVec.signExtend 64 b)).toInt : Fq)
      = ((montgomeryReduce (BitVec.signExtend 64 a * BitVec.signExtend 64 b)).toInt : Fq) * (((4294967296 : Int) : Fq) * ((rinv : Nat) : Fq)) := by rw [hr, mul_one]
    _ = (a.toInt : Fq) * (b.toInt : Fq) * ((rinv : Nat) : Fq) := by
        push_cast
        linear_combination ((rinv : Nat) : Fq) * this

def Bnd (B : Int) (a : Poly) : Prop := ∀ x ∈ a, -B ≤ x.toInt ∧ x.toInt ≤ B

theorem Bnd_take {B : Int} {a : Poly} (h : Bnd B a) (n : Nat) : Bnd B (a.take n) := fun x hx => h x (List.mem_of_mem_take hx)
theorem Bnd_drop {B : Int} {a : Poly} (h : Bnd B a) (n : Nat) : Bnd B (a.drop n) := fun x hx => h x (List.mem_of_mem_drop hx)

/-- pointwise bridge for `zipWith` -/
theorem zipWith_bridge (f : Coeff → Coeff → Coeff) (g : Fq → Fq → Fq) (P Q Bout : Coeff → Prop)
    (hfg : ∀ x y, P x → Q y → phi (f x y) = g (phi x) (phi y) ∧ Bout (f x y)) :
    ∀ (lo hi : Poly), (∀ x ∈ lo, P x) → (∀ y ∈ hi, Q y) →
      (List.zipWith f lo hi).map phi = List.zipWith g (lo.map phi) (hi.map phi) ∧ ∀ w ∈ List.zipWith f lo hi, Bout w
  | [], _, _, _ => by simp
  | _ :: _, [], _, _ => by simp
  | x :: lo, y :: hi, hP, hQ => by
    obtain ⟨e, hb⟩ := hfg x y (hP x (by simp)) (hQ y (by simp))
    obtain ⟨ih1, ih2⟩ := zipWith_bridge f g P Q Bout hfg lo hi (fun a ha => hP a (by simp [ha])) (fun a ha => hQ a (by simp [ha]))
    refine ⟨by simp only [List.zipWith_cons_cons, List.map_cons, e, ih1], ?_⟩
    intro w hw
    simp only [List.zipWith_cons_cons, List.mem_cons] at hw
    rcases hw with rfl | hw
    · exact hb
    · exact ih2 w hw

theorem zetas_getD_small (k : Nat) : -4190208 ≤ zetas.getD k 0 ∧ zetas.getD k 0 ≤ 4190208 := by
  rw [List.getD_eq_getElem?_getD]
  cases h : zetas[k]? with
  | none => simp
  | some v =>
    have hm : v ∈ zetas := List.mem_of_getElem? h
    have := List.all_eq_true.mp zetas_small v hm
    simpa using this

theorem zeta_toInt (k : Nat) : (zeta k).toInt = zetas.getD k 0 := by
  obtain ⟨h1, h2⟩ := zetas_getD_small k
  unfold zeta
  rw [BitVec.toInt_ofInt]
  have n32 : (2:Nat)^32 = 4294967296 := by rfl
  rw [n32]
  exact bmod32_id _ (by omega) (by omega)

theorem phi_zeta (k : Nat) : phi (zeta k) * ((rinv : Nat) : Fq) = z k := by
  simp only [phi, zeta_toInt, z, zN]
  have h1 : (((zetas.getD k 0 % 8380417).toNat : Nat) : Fq) = ((zetas.getD k 0 : Int) : Fq) := by
    have hnn : 0 ≤ zetas.getD k 0 % 8380417 := Int.emod_nonneg _ (by decide)
    have : (((zetas.getD k 0 % 8380417).toNat : Nat) : Int) = zetas.getD k 0 % 8380417 := Int.toNat_of_nonneg hnn
    have e : (((zetas.getD k 0 % 8380417).toNat : Nat) : Fq) = (((zetas.getD k 0 % 8380417 : Int)) : Fq) := by
      rw [← this]; simp
    rw [e]
    exact int_cast_eq_of_emod (by simp)
  have h2 : ((((zetas.getD k 0 % 8380417).toNat * rinv) % q : Nat) : Fq) = (((zetas.getD k 0 % 8380417).toNat * rinv : Nat) : Fq) :=
    cast_eq_of_mod (by simp [q])
  rw [h2]
  push_cast
  rw [h1]

/-- the butterfly product `zeta_k · y` in the field, for |y| < 2^31 -/
theorem phi_zeta_mul (k : Nat) (y : Coeff) :
    phi (montMul (zeta k) y) = z k * phi y ∧ -8380417 < (montMul (zeta k) y).toInt ∧ (montMul (zeta k) y).toInt < 8380417 := by
  have hy1 := BitVec.le_toInt (x := y); have hy2 := BitVec.toInt_lt (x := y)
  obtain ⟨h1, h2⟩ := zetas_getD_small k
  have hz := zeta_toInt k
  simp at hy1 hy2
  have hb : -(2147483648 * 8380417) ≤ (zeta k).toInt * y.toInt ∧ (zeta k).toInt * y.toInt < 2147483648 * 8380417 := by
    rw [hz]
    generalize zetas.getD k 0 = c at *
    generalize y.toInt = v at *
    constructor
    · nlinarith [mul_nonneg (sub_nonneg.mpr h1) (sub_nonneg.mpr hy1), mul_nonneg (sub_nonneg.mpr h2) (sub_nonneg.mpr (le_of_lt hy2)),
        mul_nonneg (sub_nonneg.mpr h1) (sub_nonneg.mpr (le_of_lt hy2)), mul_nonneg (sub_nonneg.mpr h2) (sub_nonneg.mpr hy1)]
    · nlinarith [mul_nonneg (sub_nonneg.mpr h1) (sub_nonneg.mpr hy1), mul_nonneg (sub_nonneg.mpr h2) (sub_nonneg.mpr (le_of_lt hy2)),
        mul_nonneg (sub_nonneg.mpr h1) (sub_nonneg.mpr (le_of_lt hy2)), mul_nonneg (sub_nonneg.mpr h2) (sub_nonneg.mpr hy1)]
  obtain ⟨e, lo, hi⟩ := phi_montMul (zeta k) y hb.1 hb.2
  refine ⟨?_, lo, hi⟩
  rw [e, ← phi_zeta k]; ring

/-- **forward NTT bridge**: with inputs bounded by `B` (B + levels·q within int32) the model's transform is the
field transform of the residues, and the outputs are bounded by `B + levels·q` -/
theorem ntt_bridge : ∀ (lvl k : Nat) (a : Poly) (B : Int), Bnd B a → 0 ≤ B → B + lvl * 8380417 ≤ 2147483647 →
    (nttRec lvl k a).map phi = NttF.nttF z lvl k (a.map phi) ∧ Bnd (B + lvl * 8380417) (nttRec lvl k a)
  | 0, k, a, B, hB, _, _ => by simp [nttRec, NttF.nttF]; simpa using hB
  | lvl+1, k, a, B, hB, hB0, hfit => by
    simp only [nttRec, NttF.nttF, List.length_map]
    rw [← List.map_take, ← List.map_drop]
    have hcast : ((lvl + 1 : Nat) : Int) = (lvl : Int) + 1 := by push_cast; ring
    rw [hcast] at hfit ⊢
    -- the two butterfly outputs
    have hadd := zipWith_bridge (fun x t => x + t) (fun x t => x + t) (fun x => -B ≤ x.toInt ∧ x.toInt ≤ B)
      (fun t => -8380417 < t.toInt ∧ t.toInt < 8380417) (fun w => -(B + 8380417) ≤ w.toInt ∧ w.toInt ≤ B + 8380417)
      (by
        intro x t hx ht
        have e := toInt_add_exact x t (by omega) (by omega)
        exact ⟨phi_add x t (by omega) (by omega), by rw [e]; omega, by rw [e]; omega⟩)
    have hsub := zipWith_bridge (fun x t => x - t) (fun x t => x - t) (fun x => -B ≤ x.toInt ∧ x.toInt ≤ B)
      (fun t => -8380417 < t.toInt ∧ t.toInt < 8380417) (fun w => -(B + 8380417) ≤ w.toInt ∧ w.toInt ≤ B + 8380417)
      (by
        intro x t hx ht
        have e := toInt_sub_exact x t (by omega) (by omega)
        exact ⟨phi_sub x t (by omega) (by omega), by rw [e]; omega, by rw [e]; omega⟩)
    have hlo : Bnd B (a.take (a.length / 2)) := Bnd_take hB _
    have hhi : Bnd B (a.drop (a.length / 2)) := Bnd_drop hB _
    generalize a.take (a.length / 2) = lo at *
    generalize a.drop (a.length / 2) = hi at *
    -- t = zeta_k · hi
    have ht : ∀ y ∈ hi.map (montMul (zeta k)), -8380417 < y.toInt ∧ y.toInt < 8380417 := by
      intro y hy
      obtain ⟨y0, _, rfl⟩ := List.mem_map.mp hy
      exact (phi_zeta_mul k y0).2
    have htphi : (hi.map (montMul (zeta k))).map phi = (hi.map phi).map (fun y => z k * y) := by
      rw [List.map_map, List.map_map]
      apply List.map_congr_left
      intro y _
      exact (phi_zeta_mul k y).1
    obtain ⟨ea, ba⟩ := hadd lo (hi.map (montMul (zeta k))) hlo ht
    obtain ⟨es, bs⟩ := hsub lo (hi.map (montMul (zeta k))) hlo ht
    conv at ea => rhs; rw [htphi, List.zipWith_map_right]
    conv at es => rhs; rw [htphi, List.zipWith_map_right]
    obtain ⟨i1, b1⟩ := ntt_bridge lvl (2*k) _ (B + 8380417) ba (by omega) (by omega)
    obtain ⟨i2, b2⟩ := ntt_bridge lvl (2*k+1) _ (B + 8380417) bs (by omega) (by omega)
    refine ⟨?_, ?_⟩
    · rw [List.map_append, i1, i2, ea, es]
      congr 2
      apply congrFun (congrFun (congrArg List.zipWith ?_) _) _
      funext x y
      ring
    · intro x hx
      rcases List.mem_append.mp hx with h | h
      · have := b1 x h; constructor <;> omega
      · have := b2 x h; constructor <;> omega

theorem negzeta_toInt (k : Nat) : (-(zeta k)).toInt = -(zetas.getD k 0) := by
  obtain ⟨h1, h2⟩ := zetas_getD_small k
  rw [BitVec.toInt_neg, zeta_toInt]
  have n32 : (2:Nat)^32 = 4294967296 := by rfl
  rw [n32]
  exact bmod32_id _ (by omega) (by omega)

theorem phi_negzeta_mul (k : Nat) (y : Coeff) :
    phi (montMul (-(zeta k)) y) = phi y * (-(z k)) ∧ -8380417 < (montMul (-(zeta k)) y).toInt ∧ (montMul (-(zeta k)) y).toInt < 8380417 := by
  have hy1 := BitVec.le_toInt (x := y); have hy2 := BitVec.toInt_lt (x := y)
  obtain ⟨h1, h2⟩ := zetas_getD_small k
  have hz := negzeta_toInt k
  simp at hy1 hy2
  have hb : -(2147483648 * 8380417) ≤ (-(zeta k)).toInt * y.toInt ∧ (-(zeta k)).toInt * y.toInt < 2147483648 * 8380417 := by
    rw [hz]
    generalize zetas.getD k 0 = c at *
    generalize y.toInt = v at *
    constructor
    · nlinarith [mul_nonneg (sub_nonneg.mpr h1) (sub_nonneg.mpr hy1), mul_nonneg (sub_nonneg.mpr h2) (sub_nonneg.mpr (le_of_lt hy2)),
        mul_nonneg (sub_nonneg.mpr h1) (sub_nonneg.mpr (le_of_lt hy2)), mul_nonneg (sub_nonneg.mpr h2) (sub_nonneg.mpr hy1)]
    · nlinarith [mul_nonneg (sub_nonneg.mpr h1) (sub_nonneg.mpr hy1), mul_nonneg (sub_nonneg.mpr h2) (sub_nonneg.mpr (le_of_lt hy2)),
        mul_nonneg (sub_nonneg.mpr h1) (sub_nonneg.mpr (le_of_lt hy2)), mul_nonneg (sub_nonneg.mpr h2) (sub_nonneg.mpr hy1)]
  obtain ⟨e, lo, hi⟩ := phi_montMul (-(zeta k)) y hb.1 hb.2
  refine ⟨?_, lo, hi⟩
  have hneg : phi (-(zeta k)) = -phi (zeta k) := by
    simp only [phi, negzeta_toInt, zeta_toInt, Int.cast_neg]
  rw [e, hneg, ← phi_zeta k]; ring

/-- **inverse NTT bridge**: with inputs bounded by `B ≥ q` and `2^levels · B` within int32, the model's
Gentleman–Sande transform is the field one, outputs bounded by `2^levels · B` -/
theorem inv_bridge : ∀ (lvl k : Nat) (a : Poly) (B : Int), Bnd B a → 8380417 ≤ B → 2 ^ lvl * B ≤ 2147483647 →
    (invRec lvl k a).map phi = NttF.invF z lvl k (a.map phi) ∧ Bnd (2 ^ lvl * B) (invRec lvl k a)
  | 0, k, a, B, hB, _, _ => by simp [invRec, NttF.invF]; simpa using hB
  | lvl+1, k, a, B, hB, hBq, hfit => by
    simp only [invRec, NttF.invF, List.length_map]
    rw [← List.map_take, ← List.map_drop]
    have hpow : (2:Int) ^ (lvl+1) * B = 2 * (2 ^ lvl * B) := by rw [pow_succ]; ring
    rw [hpow] at hfit ⊢
    have hpos : (0:Int) < 2 ^ lvl := by positivity
    obtain ⟨i1, b1⟩ := inv_bridge lvl (2*k+1) (a.take (a.length / 2)) B (Bnd_take hB _) hBq (by nlinarith)
    obtain ⟨i2, b2⟩ := inv_bridge lvl (2*k) (a.drop (a.length / 2)) B (Bnd_drop hB _) hBq (by nlinarith)
    generalize invRec lvl (2*k+1) (a.take (a.length / 2)) = lo at *
    generalize invRec lvl (2*k) (a.drop (a.length / 2)) = hi at *
    generalize hC : (2:Int) ^ lvl * B = C at *
    have hCq : 8380417 ≤ C := by rw [← hC]; nlinarith
    have hadd := zipWith_bridge (fun x t => x + t) (fun x t => x + t) (fun x => -C ≤ x.toInt ∧ x.toInt ≤ C)
      (fun t => -C ≤ t.toInt ∧ t.toInt ≤ C) (fun w => -(2*C) ≤ w.toInt ∧ w.toInt ≤ 2*C)
      (by
        intro x t hx ht
        have e := toInt_add_exact x t (by omega) (by omega)
        exact ⟨phi_add x t (by omega) (by omega), by rw [e]; omega, by rw [e]; omega⟩) lo hi b1 b2
    have hsub := zipWith_bridge (fun x t => x - t) (fun x t => x - t) (fun x => -C ≤ x.toInt ∧ x.toInt ≤ C)
      (fun t => -C ≤ t.toInt ∧ t.toInt ≤ C) (fun w => -(2*C) ≤ w.toInt ∧ w.toInt ≤ 2*C)
      (by
        intro x t hx ht
        have e := toInt_sub_exact x t (by omega) (by omega)
        exact ⟨phi_sub x t (by omega) (by omega), by rw [e]; omega, by rw [e]; omega⟩) lo hi b1 b2
    obtain ⟨ea, ba⟩ := hadd
    obtain ⟨es, bs⟩ := hsub
    refine ⟨?_, ?_⟩
    · rw [List.map_append, ea, List.map_map, ← i1, ← i2]
      congr 1
      have : (List.zipWith (fun x t => x - t) lo hi).map (phi ∘ montMul (-(zeta k))) =
          ((List.zipWith (fun x t => x - t) lo hi).map phi).map (fun x => x * (-(z k))) := by
        rw [List.map_map]
        apply List.map_congr_left
        intro y _
        exact (phi_negzeta_mul k y).1
      rw [this, es]
    · intro x hx
      rcases List.mem_append.mp hx with h | h
      · exact ba x h
      · obtain ⟨y, _, rfl⟩ := List.mem_map.mp h
        have := (phi_negzeta_mul k y).2
        constructor <;> omega

theorem zipWith_map_lin (op : Fq → Fq → Fq) (s : Fq) (h : ∀ x y, op (x * s) (y * s) = op x y * s) (l r : List Fq) :
    List.zipWith op (l.map (· * s)) (r.map (· * s)) = (List.zipWith op l r).map (· * s) := by
  rw [List.zipWith_map, List.map_zipWith]
  congr 1; funext x y; exact h x y

/-- the inverse transform is linear: a common scalar factor passes through -/
theorem invF_smul (s : Fq) : ∀ (lvl k : Nat) (a : List Fq),
    NttF.invF z lvl k (a.map (· * s)) = (NttF.invF z lvl k a).map (· * s)
  | 0, _, _ => rfl
  | lvl+1, k, a => by
    simp only [NttF.invF, List.length_map]
    rw [← List.map_take, ← List.map_drop, invF_smul s lvl, invF_smul s lvl, List.map_append,
      zipWith_map_lin _ s (fun x y => by ring), zipWith_map_lin _ s (fun x y => by ring), List.map_map, List.map_map]
    congr 1
    apply List.map_congr_left; intro x _; simp only [Function.comp]; ring

theorem phi_f : phi (41978#32) = ((41978 : Nat) : Fq) := by
  have : (41978#32).toInt = 41978 := by decide
  simp [phi, this]

/-- `invNTTToMont` = unnormalised field inverse transform times `f · R⁻¹` -/
theorem invNTTToMont_bridge (c : Poly) (hc : Bnd 8380417 c) :
    (invNTTToMont c).map phi = (NttF.invF z 8 1 (c.map phi)).map (· * (((41978 : Nat) : Fq) * ((rinv : Nat) : Fq))) ∧
    Bnd 8380417 (invNTTToMont c) := by
  obtain ⟨e, b⟩ := inv_bridge 8 1 c 8380417 hc (le_refl _) (by norm_num)
  have hm : ∀ x : Coeff, phi (montMul (41978#32) x) = phi x * (((41978 : Nat) : Fq) * ((rinv : Nat) : Fq)) ∧
      -8380417 < (montMul (41978#32) x).toInt ∧ (montMul (41978#32) x).toInt < 8380417 := by
    intro x
    have hx1 := BitVec.le_toInt (x := x); have hx2 := BitVec.toInt_lt (x := x)
    simp at hx1 hx2
    have h41 : (41978#32).toInt = 41978 := by decide
    obtain ⟨e, lo, hi⟩ := phi_montMul (41978#32) x (by rw [h41]; omega) (by rw [h41]; omega)
    refine ⟨?_, lo, hi⟩
    rw [e, phi_f]; ring
  constructor
  · unfold invNTTToMont
    rw [List.map_map, ← e, List.map_map]
    apply List.map_congr_left; intro x _; exact (hm x).1
  · intro x hx
    unfold invNTTToMont at hx
    obtain ⟨y, _, rfl⟩ := List.mem_map.mp hx
    have := (hm y).2
    constructor <;> omega

/-- pointwise Montgomery product of two transforms of `q`-bounded inputs -/
theorem pointwise_bridge (u v : Poly) (hu : Bnd (9 * 8380417) u) (hv : Bnd (9 * 8380417) v) :
    (polyPointwise u v).map phi = (List.zipWith (· * ·) (u.map phi) (v.map phi)).map (· * ((rinv : Nat) : Fq)) ∧
    Bnd 8380417 (polyPointwise u v) := by
  have := zipWith_bridge montMul (fun x y => x * y * ((rinv : Nat) : Fq)) (fun x => -(9 * 8380417) ≤ x.toInt ∧ x.toInt ≤ 9 * 8380417)
    (fun x => -(9 * 8380417) ≤ x.toInt ∧ x.toInt ≤ 9 * 8380417) (fun w => -8380417 ≤ w.toInt ∧ w.toInt ≤ 8380417)
    (by
      intro x y hx hy
      have hb : -(2147483648 * 8380417) ≤ x.toInt * y.toInt ∧ x.toInt * y.toInt < 2147483648 * 8380417 := by
        generalize x.toInt = p at *
        generalize y.toInt = r at *
        constructor
        · nlinarith [mul_nonneg (sub_nonneg.mpr hx.1) (sub_nonneg.mpr hy.2), mul_nonneg (sub_nonneg.mpr hx.2) (sub_nonneg.mpr hy.1)]
        · nlinarith [mul_nonneg (sub_nonneg.mpr hx.1) (sub_nonneg.mpr hy.1), mul_nonneg (sub_nonneg.mpr hx.2) (sub_nonneg.mpr hy.2)]
      obtain ⟨e, lo, hi⟩ := phi_montMul x y hb.1 hb.2
      exact ⟨e, by omega, by omega⟩) u v hu hv
  obtain ⟨e, b⟩ := this
  refine ⟨?_, b⟩
  unfold polyPointwise
  rw [e, List.map_zipWith]

/-- **the NTT-domain product is the negacyclic product**: for `q`-bounded polynomials of degree < 256,
`invNTTToMont (ntt a ∘ ntt b)` is exactly `a · b mod (X^256 + 1)` over `Z_q`, with coefficients in `(−q, q)` -/
theorem ntt_mul_eq_negacyclic (a b : Poly) (ha : a.length = 256) (hb : b.length = 256)
    (Ba : Bnd 8380417 a) (Bb : Bnd 8380417 b) :
    (invNTTToMont (polyPointwise (ntt a) (ntt b))).map phi = NttF.mulNega 256 (a.map phi) (b.map phi) ∧
    Bnd 8380417 (invNTTToMont (polyPointwise (ntt a) (ntt b))) := by
  obtain ⟨ea, ba⟩ := ntt_bridge 8 1 a 8380417 Ba (by norm_num) (by norm_num)
  obtain ⟨eb, bb⟩ := ntt_bridge 8 1 b 8380417 Bb (by norm_num) (by norm_num)
  have e9 : (8380417 : Int) + ((8 : Nat) : Int) * 8380417 = 9 * 8380417 := by norm_num
  rw [e9] at ba bb
  obtain ⟨ep, bp⟩ := pointwise_bridge (ntt a) (ntt b) ba bb
  obtain ⟨ei, bi⟩ := invNTTToMont_bridge _ bp
  refine ⟨?_, bi⟩
  rw [ei, ep, invF_smul, List.map_map]
  unfold ntt
  rw [ea, eb, NttF.ntt_mul z treeOK pairOK top _ _ (by simpa using ha) (by simpa using hb), List.map_map]
  have hf : ((256 : Fq)) * (((rinv : Nat) : Fq)) * ((((41978 : Nat) : Fq)) * ((rinv : Nat) : Fq)) = 1 := by
    have := cast_eq_of_mod (a := 256 * 41978 % q * rinv % q * rinv) (b := 1) (by rw [f_fact]; rfl)
    have h2 : ((256 * 41978 % q * rinv % q * rinv : Nat) : Fq) = (256 * 41978 * rinv * rinv : Nat) := by
      apply cast_eq_of_mod
      simp [Nat.mul_mod]
    rw [h2] at this
    push_cast at this
    linear_combination this
  conv => rhs; rw [← List.map_id (NttF.mulNega 256 _ _)]
  apply List.map_congr_left
  intro x _
  simp only [Function.comp, id]
  linear_combination x * hf

end Qrl.NttBridge
