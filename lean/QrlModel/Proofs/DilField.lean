import QrlModel.Proofs.DilBridge
/-! Field-level identity behind `Verify(Sign(m))`: in the NTT domain, with t = A·s1 + s2 = 2^d·t1 + t0 and z = c·s1 + y,
`A·z − c·2^d·t1 = A·y − c·s2 + c·t0`. Lists of length 256 over `ZMod q` are handled as functions `Nat → ZMod q`. -/
namespace Qrl.NttBridge
open Qrl.NttTable Qrl.VecF

abbrev ρ : Fq := ((rinv : Nat) : Fq)
abbrev κ : Fq := ((41978 : Nat) : Fq) * ((rinv : Nat) : Fq)
abbrev NTT (a : List Fq) : List Fq := NttF.nttF z 8 1 a
abbrev INV (a : List Fq) : List Fq := NttF.invF z 8 1 a

theorem hκ : (256 : Fq) * ρ * κ = 1 := by
  have := cast_eq_of_mod (a := 256 * 41978 % q * rinv % q * rinv) (b := 1) (by rw [f_fact]; rfl)
  have h2 : ((256 * 41978 % q * rinv % q * rinv : Nat) : Fq) = (256 * 41978 * rinv * rinv : Nat) := by
    apply cast_eq_of_mod
    simp [Nat.mul_mod]
  rw [h2] at this
  push_cast at this
  simp only [ρ, κ]
  linear_combination this

theorem NTT_INV (a : List Fq) (hl : a.length = 256) : NTT (INV a) = a.map (· * 256) := by
  have := NttF.nttF_invF z pairOK 7 0 0 a (by norm_num) (by norm_num) (by rw [hl]; norm_num)
  have e : ((2:Fq) ^ (7+1)) = 256 := by norm_num
  simp only [e] at this
  simpa using this

theorem INV_NTT (a : List Fq) (hl : a.length = 256) : INV (NTT a) = a.map (· * 256) := by
  have := NttF.invF_nttF z pairOK 7 0 0 a (by norm_num) (by norm_num) (by rw [hl]; norm_num)
  have e : ((2:Fq) ^ (7+1)) = 256 := by norm_num
  simp only [e] at this
  simpa using this

theorem NTT_length (a : List Fq) (hl : a.length = 256) : (NTT a).length = 256 := by
  have := NttF.nttF_length z 8 1 a (by rw [hl]; norm_num); simpa using this
theorem INV_length (a : List Fq) (hl : a.length = 256) : (INV a).length = 256 := by
  have := NttF.invF_length z 8 1 a (by rw [hl]; norm_num); simpa using this

theorem NTT_add (a b : List Fq) (ha : a.length = 256) (hb : b.length = 256) : NTT (List.zipWith (· + ·) a b) = List.zipWith (· + ·) (NTT a) (NTT b) :=
  NttF.nttF_add z 8 1 a b (by rw [ha]; norm_num) (by rw [hb]; norm_num)
theorem NTT_sub (a b : List Fq) (ha : a.length = 256) (hb : b.length = 256) : NTT (List.zipWith (· - ·) a b) = List.zipWith (· - ·) (NTT a) (NTT b) :=
  NttF.nttF_sub z 8 1 a b (by rw [ha]; norm_num) (by rw [hb]; norm_num)
theorem NTT_smul (a : List Fq) (s : Fq) : NTT (a.map (· * s)) = (NTT a).map (· * s) := NttF.nttF_smul z s 8 1 a
theorem INV_add (a b : List Fq) (ha : a.length = 256) (hb : b.length = 256) : INV (List.zipWith (· + ·) a b) = List.zipWith (· + ·) (INV a) (INV b) :=
  NttF.invF_add z 8 1 a b (by rw [ha]; norm_num) (by rw [hb]; norm_num)
theorem INV_sub (a b : List Fq) (ha : a.length = 256) (hb : b.length = 256) : INV (List.zipWith (· - ·) a b) = List.zipWith (· - ·) (INV a) (INV b) :=
  NttF.invF_sub z 8 1 a b (by rw [ha]; norm_num) (by rw [hb]; norm_num)
theorem INV_smul (a : List Fq) (s : Fq) : INV (a.map (· * s)) = (INV a).map (· * s) := NttF.invF_smul' z s 8 1 a

/-- the sum over a row is linear in the vector: Σ a_j (c s_j + y_j) = c Σ a_j s_j + Σ a_j y_j -/
theorem sumF_linear (r : Fq) (C : List Fq) (hC : C.length = 256) : ∀ (A S Y : List (List Fq)), S.length = Y.length →
    (∀ x ∈ S, x.length = 256) → (∀ x ∈ Y, x.length = 256) →
    sumF r A (List.zipWith (fun s y => List.zipWith (· + ·) (List.zipWith (· * ·) C s) y) S Y) = toFun C * sumF r A S + sumF r A Y
  | [], S, Y, _, _, _ => by simp [sumF_nil_left]
  | a :: A, [], Y, h, _, _ => by
    have : Y = [] := List.eq_nil_of_length_eq_zero (by simpa using h.symm)
    subst this; simp [sumF_nil_right]
  | a :: A, s :: S, [], h, _, _ => by simp at h
  | a :: A, s :: S, y :: Y, h, hS, hY => by
    have hs := hS s (by simp); have hy := hY y (by simp)
    simp only [List.zipWith_cons_cons, sumF_cons]
    rw [sumF_linear r C hC A S Y (by simpa using h) (fun x hx => hS x (by simp [hx])) (fun x hx => hY x (by simp [hx])),
      toFun_zipWith_add _ _ (by rw [List.length_zipWith, hC, hs, hy]; rfl), toFun_zipWith_mul _ _ (by rw [hC, hs])]
    ring

/-- **the row identity in the NTT domain** -/
theorem row_field (A S Y : List (List Fq)) (C S2 T0 : List Fq) (hSY : S.length = Y.length)
    (hA : ∀ x ∈ A, x.length = 256) (hS : ∀ x ∈ S, x.length = 256) (hY : ∀ x ∈ Y, x.length = 256)
    (hC : C.length = 256) (hS2 : S2.length = 256) (hT0 : T0.length = 256) :
    List.zipWith (· - ·) (accF ρ A (List.zipWith (fun s y => List.zipWith (· + ·) (List.zipWith (· * ·) C s) y) S Y))
      ((List.zipWith (· * ·) C (List.zipWith (· - ·) (List.zipWith (· + ·) ((accF ρ A S).map (· * (256 * κ))) S2) T0)).map (· * ρ)) =
    List.zipWith (· + ·) (List.zipWith (· - ·) (accF ρ A Y) ((List.zipWith (· * ·) C S2).map (· * ρ))) ((List.zipWith (· * ·) C T0).map (· * ρ)) := by
  have hZ : ∀ x ∈ List.zipWith (fun s y => List.zipWith (· + ·) (List.zipWith (· * ·) C s) y) S Y, x.length = 256 := by
    intro x hx
    obtain ⟨i, hi, rfl⟩ := List.mem_iff_getElem.mp hx
    simp only [List.getElem_zipWith, List.length_zipWith]
    rw [hC, hS _ (List.getElem_mem _), hY _ (List.getElem_mem _)]; rfl
  obtain ⟨l1, f1⟩ := accF_toFun ρ A _ hA hZ
  obtain ⟨l2, f2⟩ := accF_toFun ρ A S hA hS
  obtain ⟨l3, f3⟩ := accF_toFun ρ A Y hA hY
  have lT : (List.zipWith (· - ·) (List.zipWith (· + ·) ((accF ρ A S).map (· * (256 * κ))) S2) T0).length = 256 := by
    simp only [List.length_zipWith, List.length_map, l2, hS2, hT0]; rfl
  apply eq_of_toFun
  · simp only [List.length_zipWith, List.length_map, l1, l3, hC, hS2, hT0, lT]; rfl
  · rw [toFun_zipWith_sub _ _ (by simp only [List.length_zipWith, List.length_map, l1, hC, lT]; rfl),
        toFun_map_mul, toFun_zipWith_mul _ _ (by rw [hC, lT]),
        toFun_zipWith_sub _ _ (by simp only [List.length_zipWith, List.length_map, l2, hS2, hT0]; rfl),
        toFun_zipWith_add _ _ (by simp only [List.length_map, l2, hS2]),
        toFun_map_mul, f1, f2,
        sumF_linear ρ C hC A S Y hSY hS hY,
        toFun_zipWith_add _ _ (by simp only [List.length_zipWith, List.length_map, l3, hC, hS2, hT0]; rfl),
        toFun_zipWith_sub _ _ (by simp only [List.length_zipWith, List.length_map, l3, hC, hS2]; rfl),
        toFun_map_mul, toFun_map_mul, toFun_zipWith_mul _ _ (by rw [hC, hS2]), toFun_zipWith_mul _ _ (by rw [hC, hT0]), f3]
    funext n
    simp only [Pi.add_apply, Pi.sub_apply, Pi.mul_apply]
    linear_combination (- toFun C n * sumF ρ A S n) * hκ

end Qrl.NttBridge
