import QrlModel.Proofs.NttLinear
import Mathlib.Algebra.Ring.Pi
/-! Lists over a commutative ring seen as functions `Nat → F` (zero outside), so that identities between
pointwise combinations of equal-length lists are identities in the commutative ring `Nat → F`. -/
namespace Qrl.VecF

variable {F : Type} [CommRing F]

def toFun (l : List F) : Nat → F := fun n => l.getD n 0

theorem toFun_zipWith_add (a b : List F) (h : a.length = b.length) : toFun (List.zipWith (· + ·) a b) = toFun a + toFun b := by
  funext n
  simp only [toFun, Pi.add_apply, List.getD_eq_getElem?_getD, List.getElem?_zipWith]
  by_cases hn : n < a.length
  · have hb : n < b.length := h ▸ hn
    simp [List.getElem?_eq_getElem hn, List.getElem?_eq_getElem hb]
  · have hb : ¬ n < b.length := h ▸ hn
    simp [List.getElem?_eq_none (Nat.le_of_not_lt hn), List.getElem?_eq_none (Nat.le_of_not_lt hb)]

theorem toFun_zipWith_sub (a b : List F) (h : a.length = b.length) : toFun (List.zipWith (· - ·) a b) = toFun a - toFun b := by
  funext n
  simp only [toFun, Pi.sub_apply, List.getD_eq_getElem?_getD, List.getElem?_zipWith]
  by_cases hn : n < a.length
  · have hb : n < b.length := h ▸ hn
    simp [List.getElem?_eq_getElem hn, List.getElem?_eq_getElem hb]
  · have hb : ¬ n < b.length := h ▸ hn
    simp [List.getElem?_eq_none (Nat.le_of_not_lt hn), List.getElem?_eq_none (Nat.le_of_not_lt hb)]

theorem toFun_zipWith_mul (a b : List F) (h : a.length = b.length) : toFun (List.zipWith (· * ·) a b) = toFun a * toFun b := by
  funext n
  simp only [toFun, Pi.mul_apply, List.getD_eq_getElem?_getD, List.getElem?_zipWith]
  by_cases hn : n < a.length
  · have hb : n < b.length := h ▸ hn
    simp [List.getElem?_eq_getElem hn, List.getElem?_eq_getElem hb]
  · have hb : ¬ n < b.length := h ▸ hn
    simp [List.getElem?_eq_none (Nat.le_of_not_lt hn), List.getElem?_eq_none (Nat.le_of_not_lt hb)]

theorem toFun_map_mul (a : List F) (s : F) : toFun (a.map (· * s)) = toFun a * (fun _ => s) := by
  funext n
  simp only [toFun, Pi.mul_apply, List.getD_eq_getElem?_getD, List.getElem?_map]
  cases a[n]? <;> simp

theorem toFun_replicate_zero (n : Nat) : toFun (List.replicate n (0 : F)) = 0 := by
  funext k
  simp only [toFun, List.getD_eq_getElem?_getD, List.getElem?_replicate, Pi.zero_apply]
  split <;> rfl

theorem eq_of_toFun (a b : List F) (hl : a.length = b.length) (h : toFun a = toFun b) : a = b := by
  apply List.ext_getElem hl
  intro n h1 h2
  have := congrFun h n
  simpa [toFun, List.getD_eq_getElem?_getD, List.getElem?_eq_getElem h1, List.getElem?_eq_getElem h2] using this

/-- field-side mirror of `polyVecLPointWiseAccMontgomery`: Σ_j u_j ∘ v_j · ρ -/
def accF (ρ : F) (u v : List (List F)) : List F :=
  match List.zipWith (fun a b => (List.zipWith (· * ·) a b).map (· * ρ)) u v with
  | [] => List.replicate 256 0
  | p :: ps => ps.foldl (fun x y => List.zipWith (· + ·) x y) p

/-- the sum as a function -/
def sumF (ρ : F) : List (List F) → List (List F) → Nat → F
  | u :: us, v :: vs, n => toFun u n * toFun v n * ρ + sumF ρ us vs n
  | _, _, _ => 0

theorem sumF_cons (ρ : F) (u v : List F) (us vs : List (List F)) :
    sumF ρ (u :: us) (v :: vs) = toFun u * toFun v * (fun _ => ρ) + sumF ρ us vs := by
  funext n; simp [sumF]
theorem sumF_nil_left (ρ : F) (vs : List (List F)) : sumF ρ [] vs = 0 := by funext n; simp [sumF]
theorem sumF_nil_right (ρ : F) (us : List (List F)) : sumF ρ us [] = 0 := by funext n; cases us <;> simp [sumF]

theorem foldl_add_toFun (n : Nat) : ∀ (ps : List (List F)) (p : List F), p.length = n → (∀ x ∈ ps, x.length = n) →
    (ps.foldl (fun x y => List.zipWith (· + ·) x y) p).length = n ∧
    toFun (ps.foldl (fun x y => List.zipWith (· + ·) x y) p) = toFun p + (ps.map toFun).sum
  | [], p, hp, _ => by simp [hp]
  | x :: ps, p, hp, h => by
    have hx := h x (by simp)
    have hl : (List.zipWith (· + ·) p x).length = n := by rw [List.length_zipWith, hp, hx, Nat.min_self]
    obtain ⟨l, e⟩ := foldl_add_toFun n ps (List.zipWith (· + ·) p x) hl (fun y hy => h y (by simp [hy]))
    refine ⟨l, ?_⟩
    simp only [List.foldl_cons, List.map_cons, List.sum_cons]
    rw [e, toFun_zipWith_add p x (by rw [hp, hx])]; ring

theorem accF_toFun (ρ : F) : ∀ (u v : List (List F)), (∀ x ∈ u, x.length = 256) → (∀ x ∈ v, x.length = 256) →
    (accF ρ u v).length = 256 ∧ toFun (accF ρ u v) = sumF ρ u v := by
  intro u v hu hv
  have key : ∀ (u v : List (List F)), (∀ x ∈ u, x.length = 256) → (∀ x ∈ v, x.length = 256) →
      (∀ x ∈ List.zipWith (fun a b => (List.zipWith (· * ·) a b).map (· * ρ)) u v, x.length = 256) ∧
      ((List.zipWith (fun a b => (List.zipWith (· * ·) a b).map (· * ρ)) u v).map toFun).sum = sumF ρ u v := by
    intro u
    induction u with
    | nil => intro v _ _; simp [sumF_nil_left]
    | cons a u ih =>
      intro v hu hv
      cases v with
      | nil => simp [sumF_nil_right]
      | cons b v =>
        have ha := hu a (by simp); have hb := hv b (by simp)
        obtain ⟨l, e⟩ := ih v (fun x hx => hu x (by simp [hx])) (fun x hx => hv x (by simp [hx]))
        constructor
        · intro x hx
          simp only [List.zipWith_cons_cons, List.mem_cons] at hx
          rcases hx with rfl | hx
          · rw [List.length_map, List.length_zipWith, ha, hb, Nat.min_self]
          · exact l x hx
        · simp only [List.zipWith_cons_cons, List.map_cons, List.sum_cons, sumF_cons, e]
          rw [toFun_map_mul, toFun_zipWith_mul a b (by rw [ha, hb])]
  obtain ⟨l, e⟩ := key u v hu hv
  unfold accF
  generalize List.zipWith (fun a b => (List.zipWith (· * ·) a b).map (· * ρ)) u v = ps at *
  cases ps with
  | nil =>
    simp only [List.map_nil, List.sum_nil] at e
    exact ⟨List.length_replicate, by rw [toFun_replicate_zero, ← e]⟩
  | cons p ps =>
    obtain ⟨l2, e2⟩ := foldl_add_toFun 256 ps p (l p (by simp)) (fun x hx => l x (by simp [hx]))
    refine ⟨l2, ?_⟩
    rw [e2, ← e]; simp

end Qrl.VecF
