import QrlModel.Proofs.NttBridge
import QrlModel.Proofs.VecF
/-! Bridges from the int32 polynomial operations of the model to pointwise arithmetic in `ZMod q`, with the
ranges that rule out wrap-around. `V a` is the residue image of a polynomial. -/
namespace Qrl.NttBridge
open Gen.Dil Qrl.Dil Qrl.NttTable Qrl.DilProofs

/-- residue image of a polynomial -/
abbrev V (a : Poly) : List Fq := a.map phi

def Rng (lo hi : Int) (a : Poly) : Prop := ∀ x ∈ a, lo ≤ x.toInt ∧ x.toInt ≤ hi

theorem Rng_mono {lo hi lo' hi' : Int} {a : Poly} (h : Rng lo hi a) (h1 : lo' ≤ lo) (h2 : hi ≤ hi') : Rng lo' hi' a :=
  fun x hx => ⟨le_trans h1 (h x hx).1, le_trans (h x hx).2 h2⟩

theorem Bnd_iff_Rng (B : Int) (a : Poly) : Bnd B a ↔ Rng (-B) B a := Iff.rfl

theorem phi_eq_of_emod {x y : Coeff} (h : x.toInt % 8380417 = y.toInt % 8380417) : phi x = phi y := int_cast_eq_of_emod h

theorem polyAdd_bridge (a b : Poly) (l1 h1 l2 h2 : Int) (ha : Rng l1 h1 a) (hb : Rng l2 h2 b)
    (hlo : -2147483648 ≤ l1 + l2) (hhi : h1 + h2 ≤ 2147483647) :
    V (polyAdd a b) = List.zipWith (· + ·) (V a) (V b) ∧ Rng (l1 + l2) (h1 + h2) (polyAdd a b) := by
  exact zipWith_bridge (· + ·) (· + ·) (fun x => l1 ≤ x.toInt ∧ x.toInt ≤ h1) (fun x => l2 ≤ x.toInt ∧ x.toInt ≤ h2)
    (fun w => l1 + l2 ≤ w.toInt ∧ w.toInt ≤ h1 + h2)
    (by
      intro x y hx hy
      have e := toInt_add_exact x y (by omega) (by omega)
      exact ⟨phi_add x y (by omega) (by omega), by show _ ≤ (x + y).toInt; rw [e]; omega, by show (x + y).toInt ≤ _; rw [e]; omega⟩) a b ha hb

theorem polySub_bridge (a b : Poly) (l1 h1 l2 h2 : Int) (ha : Rng l1 h1 a) (hb : Rng l2 h2 b)
    (hlo : -2147483648 ≤ l1 - h2) (hhi : h1 - l2 ≤ 2147483647) :
    V (polySub a b) = List.zipWith (· - ·) (V a) (V b) ∧ Rng (l1 - h2) (h1 - l2) (polySub a b) := by
  exact zipWith_bridge (· - ·) (· - ·) (fun x => l1 ≤ x.toInt ∧ x.toInt ≤ h1) (fun x => l2 ≤ x.toInt ∧ x.toInt ≤ h2)
    (fun w => l1 - h2 ≤ w.toInt ∧ w.toInt ≤ h1 - l2)
    (by
      intro x y hx hy
      have e := toInt_sub_exact x y (by omega) (by omega)
      exact ⟨phi_sub x y (by omega) (by omega), by show _ ≤ (x - y).toInt; rw [e]; omega, by show (x - y).toInt ≤ _; rw [e]; omega⟩) a b ha hb

theorem map_bridge (f : Coeff → Coeff) (P Bout : Coeff → Prop) (hf : ∀ x, P x → phi (f x) = phi x ∧ Bout (f x)) :
    ∀ (a : Poly), (∀ x ∈ a, P x) → V (a.map f) = V a ∧ ∀ w ∈ a.map f, Bout w := by
  intro a ha
  constructor
  · show (a.map f).map phi = a.map phi
    rw [List.map_map]; apply List.map_congr_left; intro x hx; exact (hf x (ha x hx)).1
  · intro w hw
    obtain ⟨x, hx, rfl⟩ := List.mem_map.mp hw
    exact (hf x (ha x hx)).2

theorem polyReduce_bridge (a : Poly) (h : ∀ x ∈ a, x.toInt ≤ 2143289343) :
    V (polyReduce a) = V a ∧ Rng (-6283009) 6283008 (polyReduce a) :=
  map_bridge reduce32 (fun x => x.toInt ≤ 2143289343) (fun w => -6283009 ≤ w.toInt ∧ w.toInt ≤ 6283008)
    (fun x hx => by
      obtain ⟨e, b1, b2⟩ := reduce32_spec x hx
      exact ⟨phi_eq_of_emod e, b1, b2⟩) a h

theorem polyCAddQ_bridge (a : Poly) (h : Rng (-8380416) 8380416 a) :
    V (polyCAddQ a) = V a ∧ Rng 0 8380416 (polyCAddQ a) :=
  map_bridge cAddQ (fun x => -8380416 ≤ x.toInt ∧ x.toInt ≤ 8380416) (fun w => 0 ≤ w.toInt ∧ w.toInt ≤ 8380416)
    (fun x hx => by
      obtain ⟨b1, b2, e⟩ := cAddQ_spec x (by omega) (by omega)
      exact ⟨phi_eq_of_emod e, b1, by omega⟩) a h

theorem shl13_toInt (x : Coeff) (h0 : 0 ≤ x.toInt) (h1 : x.toInt ≤ 1023) : (x <<< 13).toInt = x.toInt * 8192 := by
  rw [shl_eq_mul, BitVec.toInt_mul]
  have c3 : (BitVec.twoPow 32 13).toInt = 8192 := by rfl
  have n32 : (2:Nat)^32 = 4294967296 := by rfl
  rw [c3, n32]
  exact bmod32_id _ (by omega) (by omega)

theorem polyShiftL_bridge (a : Poly) (h : Rng 0 1023 a) :
    V (polyShiftL a) = (V a).map (· * (8192 : Fq)) ∧ Rng 0 8380416 (polyShiftL a) := by
  constructor
  · simp only [V, polyShiftL, List.map_map]
    apply List.map_congr_left
    intro x hx
    simp only [Function.comp, phi, shl13_toInt x (h x hx).1 (h x hx).2]
    push_cast; ring
  · intro w hw
    obtain ⟨x, hx, rfl⟩ := List.mem_map.mp hw
    rw [shl13_toInt x (h x hx).1 (h x hx).2]
    have := h x hx
    omega

/-- pointwise Montgomery product under a product bound -/
theorem pointwise_bridge' (u v : Poly) (Bu Bv : Int) (hu : Bnd Bu u) (hv : Bnd Bv v)
    (hprod : Bu * Bv < 2147483648 * 8380417) :
    V (polyPointwise u v) = (List.zipWith (· * ·) (V u) (V v)).map (· * ((rinv : Nat) : Fq)) ∧
    Rng (-8380416) 8380416 (polyPointwise u v) := by
  have := zipWith_bridge montMul (fun x y => x * y * ((rinv : Nat) : Fq)) (fun x => -Bu ≤ x.toInt ∧ x.toInt ≤ Bu)
    (fun x => -Bv ≤ x.toInt ∧ x.toInt ≤ Bv) (fun w => -8380416 ≤ w.toInt ∧ w.toInt ≤ 8380416)
    (by
      intro x y hx hy
      have hb : -(2147483648 * 8380417) ≤ x.toInt * y.toInt ∧ x.toInt * y.toInt < 2147483648 * 8380417 := by
        generalize x.toInt = p at *
        generalize y.toInt = r at *
        constructor
        · nlinarith [mul_nonneg (sub_nonneg.mpr hx.1) (sub_nonneg.mpr hy.2), mul_nonneg (sub_nonneg.mpr hx.2) (sub_nonneg.mpr hy.1)]
        · nlinarith [mul_nonneg (sub_nonneg.mpr hx.1) (sub_nonneg.mpr hy.1), mul_nonneg (sub_nonneg.mpr hx.2) (sub_nonneg.mpr hy.2)]
      obtain ⟨e, lo, hi⟩ := phi_montMul x y hb.1 hb.2
      exact ⟨e, by omega, by omega⟩) u v hu hv
  obtain ⟨e, b⟩ := this
  refine ⟨?_, b⟩
  show (List.zipWith montMul u v).map phi = _
  rw [e, List.map_zipWith]

theorem Bnd_top (a : Poly) : Bnd 2147483648 a := by
  intro x _
  have h1 := BitVec.le_toInt (x := x); have h2 := BitVec.toInt_lt (x := x)
  simp at h1 h2
  constructor <;> omega

theorem V_zeroPoly : V zeroPoly = List.replicate 256 (0 : Fq) := by
  show (List.replicate 256 (0#32)).map phi = _
  rw [List.map_replicate]
  simp [phi]

theorem foldl_polyAdd_bridge (Q1 : Int) (hQ : 0 ≤ Q1) : ∀ (ps : List Poly) (p : Poly) (B : Int), Rng (-B) B p → (∀ x ∈ ps, Rng (-Q1) Q1 x) →
    0 ≤ B → B + ps.length * Q1 ≤ 2147483647 →
    V (ps.foldl polyAdd p) = (ps.map V).foldl (fun x y => List.zipWith (· + ·) x y) (V p) ∧
    Rng (-(B + ps.length * Q1)) (B + ps.length * Q1) (ps.foldl polyAdd p)
  | [], p, B, hp, _, _, _ => by simpa using hp
  | x :: ps, p, B, hp, hps, hB, hfit => by
    simp only [List.length_cons, Nat.cast_add, Nat.cast_one] at hfit ⊢
    have hx := hps x (by simp)
    have hn : (0:Int) ≤ (ps.length : Int) * Q1 := mul_nonneg (by positivity) hQ
    obtain ⟨e1, b1⟩ := polyAdd_bridge p x (-B) B (-Q1) Q1 hp hx (by nlinarith) (by nlinarith)
    have b1' : Rng (-(B + Q1)) (B + Q1) (polyAdd p x) := Rng_mono b1 (by omega) (by omega)
    obtain ⟨e2, b2⟩ := foldl_polyAdd_bridge Q1 hQ ps (polyAdd p x) (B + Q1) b1' (fun y hy => hps y (by simp [hy])) (by omega) (by nlinarith)
    simp only [List.foldl_cons, List.map_cons]
    rw [e2, e1]
    refine ⟨rfl, Rng_mono b2 (by nlinarith) (by nlinarith)⟩

/-- `polyVecLPointWiseAccMontgomery` on a row with entries bounded by `Bu` and any int32 vector entries bounded by `Bv` -/
theorem pointwiseAcc_bridge (row v : List Poly) (Bu Bv : Int) (hu : ∀ p ∈ row, Bnd Bu p) (hv : ∀ p ∈ v, Bnd Bv p)
    (hprod : Bu * Bv < 2147483648 * 8380417) (hlen : row.length ≤ 8) :
    V (pointwiseAcc row v) = VecF.accF ((rinv : Nat) : Fq) (row.map V) (v.map V) ∧
    Rng (-(8 * 8380416)) (8 * 8380416) (pointwiseAcc row v) := by
  have key : ∀ (row v : List Poly), (∀ p ∈ row, Bnd Bu p) → (∀ p ∈ v, Bnd Bv p) →
      (List.zipWith polyPointwise row v).map V =
        List.zipWith (fun a b => (List.zipWith (· * ·) a b).map (· * ((rinv : Nat) : Fq))) (row.map V) (v.map V) ∧
      (∀ x ∈ List.zipWith polyPointwise row v, Rng (-8380416) 8380416 x) := by
    intro row
    induction row with
    | nil => intro v _ _; simp
    | cons a row ih =>
      intro v hu hv
      cases v with
      | nil => simp
      | cons b v =>
        obtain ⟨e, r⟩ := pointwise_bridge' a b Bu Bv (hu a (by simp)) (hv b (by simp)) hprod
        obtain ⟨e2, r2⟩ := ih v (fun p hp => hu p (by simp [hp])) (fun p hp => hv p (by simp [hp]))
        constructor
        · simp only [List.zipWith_cons_cons, List.map_cons, e2, e]
        · intro x hx
          simp only [List.zipWith_cons_cons, List.mem_cons] at hx
          rcases hx with rfl | hx
          · exact r
          · exact r2 x hx
  obtain ⟨e, r⟩ := key row v hu hv
  have hl : (List.zipWith polyPointwise row v).length ≤ 8 := by rw [List.length_zipWith]; omega
  unfold pointwiseAcc VecF.accF
  rw [← e]
  generalize List.zipWith polyPointwise row v = ps at *
  cases ps with
  | nil =>
    simp only [List.map_nil]
    refine ⟨V_zeroPoly, ?_⟩
    intro x hx
    have : x = 0#32 := List.eq_of_mem_replicate hx
    subst this
    have : (0#32 : BitVec 32).toInt = 0 := by rfl
    rw [this]; omega
  | cons p ps =>
    simp only [List.map_cons, List.length_cons] at hl ⊢
    obtain ⟨e2, r2⟩ := foldl_polyAdd_bridge 8380416 (by norm_num) ps p 8380416 (r p (by simp)) (fun x hx => r x (by simp [hx])) (by norm_num)
      (by have : (ps.length : Int) ≤ 7 := by exact_mod_cast (by omega : ps.length ≤ 7)
          nlinarith)
    refine ⟨e2, Rng_mono r2 ?_ ?_⟩
    · have : (ps.length : Int) ≤ 7 := by exact_mod_cast (by omega : ps.length ≤ 7)
      nlinarith
    · have : (ps.length : Int) ≤ 7 := by exact_mod_cast (by omega : ps.length ≤ 7)
      nlinarith

/-- forward transform: field image and growth -/
theorem ntt_V (a : Poly) (B : Int) (ha : Bnd B a) (h0 : 0 ≤ B) (hfit : B + 8 * 8380417 ≤ 2147483647) :
    V (ntt a) = NttF.nttF z 8 1 (V a) ∧ Bnd (B + 8 * 8380417) (ntt a) := by
  obtain ⟨e, b⟩ := ntt_bridge 8 1 a B ha h0 (by push_cast; omega)
  have e8 : B + ((8 : Nat) : Int) * 8380417 = B + 8 * 8380417 := by norm_num
  rw [e8] at b
  exact ⟨e, b⟩

theorem ntt_length (a : Poly) (hl : a.length = 256) (B : Int) (ha : Bnd B a) (h0 : 0 ≤ B) (hfit : B + 8 * 8380417 ≤ 2147483647) :
    (ntt a).length = 256 := by
  have := congrArg List.length (ntt_V a B ha h0 hfit).1
  rw [List.length_map, NttF.nttF_length z 8 1 _ (by rw [List.length_map, hl]; norm_num)] at this
  simpa using this

/-- `invNTTToMont`: field image (unnormalised inverse transform times `f·R⁻¹`) and the tight output range
`|r| ≤ (41978·2^31 + 2^31·q)/2^32` -/
theorem invNTT_V (c : Poly) (hc : Bnd 8380417 c) :
    V (invNTTToMont c) = (NttF.invF z 8 1 (V c)).map (· * (((41978 : Nat) : Fq) * ((rinv : Nat) : Fq))) ∧
    Rng (-4211198) 4211198 (invNTTToMont c) := by
  obtain ⟨e, _⟩ := invNTTToMont_bridge c hc
  refine ⟨e, ?_⟩
  intro w hw
  unfold invNTTToMont at hw
  obtain ⟨x, _, rfl⟩ := List.mem_map.mp hw
  have hx1 := BitVec.le_toInt (x := x); have hx2 := BitVec.toInt_lt (x := x)
  simp at hx1 hx2
  have h41 : (41978#32).toInt = 41978 := by decide
  have hprod : (BitVec.signExtend 64 (41978#32) * BitVec.signExtend 64 x).toInt = 41978 * x.toInt := by
    rw [BitVec.toInt_mul, toInt_sext64, toInt_sext64, h41]
    have n64 : (2:Nat)^64 = 18446744073709551616 := by rfl
    rw [n64]
    exact bmod64_id _ (by omega) (by omega)
  have := montgomeryReduce_tight (BitVec.signExtend 64 (41978#32) * BitVec.signExtend 64 x) (by rw [hprod]; omega) (by rw [hprod]; omega)
  rw [hprod] at this
  unfold montMul
  omega

theorem invNTT_length (c : Poly) (hl : c.length = 256) : (invNTTToMont c).length = 256 := by
  unfold invNTTToMont
  rw [List.length_map]
  have : ∀ (lvl k : Nat) (a : Poly), a.length = 2 ^ lvl → (invRec lvl k a).length = 2 ^ lvl := by
    intro lvl
    induction lvl with
    | zero => intro k a h; exact h
    | succ lvl ih =>
      intro k a h
      have hhalf : a.length / 2 = 2 ^ lvl := by rw [h, pow_succ]; omega
      have h1 : (a.take (a.length / 2)).length = 2 ^ lvl := by rw [List.length_take, hhalf, h, pow_succ]; omega
      have h2 : (a.drop (a.length / 2)).length = 2 ^ lvl := by rw [List.length_drop, hhalf, h, pow_succ]; omega
      simp only [invRec, List.length_append, List.length_zipWith, List.length_map, ih _ _ h1, ih _ _ h2]
      rw [pow_succ]; omega
  exact this 8 1 c (by rw [hl]; norm_num)

end Qrl.NttBridge
