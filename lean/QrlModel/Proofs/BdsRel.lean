import QrlModel.Model.BdsLabel
/-! Logical relation between the label instance of the generic BDS traversal and any other instance `o : Ops α`:
a label `nd t i` is related to the true tree node `tree o t i`, `zero` to the zero buffer, `bad` to anything.
Every function of the traversal preserves the relation (its control flow never looks at node values), so a
statement proved about labels by kernel evaluation transfers to every seed and hash function. -/
namespace Qrl.BdsRel
open Qrl.Bds Qrl.BdsLabel

variable {α : Type} (o : Ops α)

/-- the true Merkle-tree node at (height, index): leaves from `o.leaf`, inner nodes from `o.H` -/
def tree : Nat → Nat → α
  | 0, i => o.leaf i
  | t+1, i => o.H t i (tree t (2*i)) (tree t (2*i+1))

/-- a label names a value: `nd t i` names the true node, `zero` the zero buffer, `bad` anything -/
def R (l : Lbl) (a : α) : Prop :=
  match l with
  | .bad => True
  | .zero => a = o.zero
  | .nd t i => a = tree o t i

theorem R_zero : R o .zero o.zero := rfl
theorem R_leaf (i : Nat) : R o (.nd 0 i) (o.leaf i) := rfl

theorem R_H (t i : Nat) (l r : Lbl) (a b : α) (hl : R o l a) (hr : R o r b) : R o (hashH t i l r) (o.H t i a b) := by
  unfold hashH
  cases l with
  | zero => trivial
  | bad => trivial
  | nd hl' il =>
    cases r with
    | zero => trivial
    | bad => trivial
    | nd hr' ir =>
      simp only
      split
      · rename_i hc
        obtain ⟨rfl, rfl, rfl, rfl⟩ := hc
        simp only [R] at hl hr ⊢
        rw [hl, hr]; rfl
      · trivial

/-- pointwise relation between two lists with default elements (indexing by `getD`) -/
def GR {A B : Type} (Rel : A → B → Prop) (da : A) (db : B) (la : List A) (lb : List B) : Prop :=
  la.length = lb.length ∧ ∀ i, Rel (la.getD i da) (lb.getD i db)

theorem GR_getD {A B : Type} {Rel : A → B → Prop} {da : A} {db : B} {la : List A} {lb : List B}
    (h : GR Rel da db la lb) (i : Nat) : Rel (la.getD i da) (lb.getD i db) := h.2 i

theorem GR_set {A B : Type} {Rel : A → B → Prop} {da : A} {db : B} {la : List A} {lb : List B}
    (h : GR Rel da db la lb) (hd : Rel da db) (i : Nat) {x : A} {y : B} (hr : Rel x y) :
    GR Rel da db (la.set i x) (lb.set i y) := by
  refine ⟨by simp [h.1], fun j => ?_⟩
  simp only [List.getD_eq_getElem?_getD, List.getElem?_set]
  by_cases hij : i = j
  · subst hij
    by_cases hlt : i < la.length
    · have hlt' : i < lb.length := h.1 ▸ hlt
      simp [hlt, hlt', hr]
    · have hlt' : ¬ i < lb.length := h.1 ▸ hlt
      simp only [hlt, hlt', if_false, if_true, Option.getD_none]
      exact hd
  · simp only [hij, if_false]
    have := h.2 j
    simpa [List.getD_eq_getElem?_getD] using this

theorem GR_replicate {A B : Type} {Rel : A → B → Prop} {da : A} {db : B} (hd : Rel da db) (n : Nat) :
    GR Rel da db (List.replicate n da) (List.replicate n db) := by
  refine ⟨by simp, fun i => ?_⟩
  simp only [List.getD_eq_getElem?_getD, List.getElem?_replicate]
  split <;> exact hd

abbrev LR := GR (R o) Lbl.zero o.zero

structure TR (tl : TH Lbl) (ta : TH α) : Prop where
  h : tl.h = ta.h
  nextIdx : tl.nextIdx = ta.nextIdx
  stackUsage : tl.stackUsage = ta.stackUsage
  completed : tl.completed = ta.completed
  node : R o tl.node ta.node

theorem TR_zero : TR o (thZero ops) (thZero o) := ⟨rfl, rfl, rfl, rfl, rfl⟩

abbrev LTR := GR (TR o) (thZero ops) (thZero o)

theorem LTR_modTH {tls : List (TH Lbl)} {tas : List (TH α)} (h : LTR o tls tas) (i : Nat)
    {fl : TH Lbl → TH Lbl} {fa : TH α → TH α} (hf : ∀ tl ta, TR o tl ta → TR o (fl tl) (fa ta)) :
    LTR o (modTH ops tls i fl) (modTH o tas i fa) :=
  GR_set h (TR_zero o) i (hf _ _ (GR_getD h i))

structure SR (sl : St Lbl) (sa : St α) : Prop where
  stack : LR o sl.stack sa.stack
  off : sl.stackOffset = sa.stackOffset
  lv : sl.stackLevels = sa.stackLevels
  auth : LR o sl.auth sa.auth
  keep : LR o sl.keep sa.keep
  th : LTR o sl.treeHash sa.treeHash
  retain : LR o sl.retain sa.retain

theorem SR_new (h : Nat) : SR o (newState ops h) (newState o h) :=
  ⟨GR_replicate (R_zero o) _, rfl, rfl, GR_replicate (R_zero o) _, GR_replicate (R_zero o) _, GR_replicate (TR_zero o) _,
   GR_replicate (R_zero o) _⟩

/-- folding related step functions over the same index list preserves the state relation -/
theorem SR_foldl {fl : St Lbl → Nat → St Lbl} {fa : St α → Nat → St α}
    (hf : ∀ sl sa i, SR o sl sa → SR o (fl sl i) (fa sa i)) :
    ∀ (xs : List Nat) (sl : St Lbl) (sa : St α), SR o sl sa → SR o (xs.foldl fl sl) (xs.foldl fa sa)
  | [], _, _, h => h
  | x :: xs, sl, sa, h => SR_foldl hf xs _ _ (hf sl sa x h)

-- ---------------------------------------------------------------- treeHashSetup

def TupR (x : List Lbl × List Nat × Nat × St Lbl) (y : List α × List Nat × Nat × St α) : Prop :=
  LR o x.1 y.1 ∧ x.2.1 = y.2.1 ∧ x.2.2.1 = y.2.2.1 ∧ SR o x.2.2.2 y.2.2.2

theorem setupMerge_rel (h i index : Nat) : ∀ (fuel : Nat) x y, TupR o x y →
    TupR o (setupMerge ops h i index fuel x) (setupMerge o h i index fuel y)
  | 0, _, _, hxy => hxy
  | fuel+1, (stack, lv, off, s), (stack', lv', off', s'), hxy => by
    obtain ⟨hst, hlv, hoff, hs⟩ := hxy
    simp only at hst hlv hoff hs
    subst hlv hoff
    simp only [setupMerge]
    split
    · apply setupMerge_rel h i index fuel
      refine ⟨GR_set hst (R_zero o) _ (R_H o _ _ _ _ _ _ (GR_getD hst _) (GR_getD hst _)), rfl, rfl, ?_⟩
      simp only
      split
      · exact { hs with auth := GR_set hs.auth (R_zero o) _ (GR_getD hst _) }
      · split
        · refine { hs with th := ?_ }
          dsimp only
          exact LTR_modTH o hs.th _ (fun tl ta ht => ⟨ht.h, ht.nextIdx, ht.stackUsage, ht.completed, GR_getD hst _⟩)
        · split
          · exact { hs with retain := GR_set hs.retain (R_zero o) _ (GR_getD hst _) }
          · exact hs
    · exact ⟨hst, rfl, rfl, hs⟩

theorem setupLoop_rel (h : Nat) : ∀ (n idx : Nat) x y, TupR o x y →
    TupR o (setupLoop ops h n idx x) (setupLoop o h n idx y)
  | 0, _, _, _, hxy => hxy
  | n+1, idx, (stack, lv, off, s), (stack', lv', off', s'), hxy => by
    obtain ⟨hst, hlv, hoff, hs⟩ := hxy
    simp only at hst hlv hoff hs
    subst hlv hoff
    simp only [setupLoop]
    apply setupLoop_rel h n (idx+1)
    apply setupMerge_rel
    have hst' : LR o (stack.set off (ops.leaf idx)) (stack'.set off (o.leaf idx)) := GR_set hst (R_zero o) _ (R_leaf o idx)
    refine ⟨hst', rfl, rfl, ?_⟩
    simp only
    split
    · refine { hs with th := ?_ }
      dsimp only
      exact LTR_modTH o hs.th _ (fun tl ta ht => ⟨ht.h, ht.nextIdx, ht.stackUsage, ht.completed, GR_getD hst' _⟩)
    · exact hs

theorem treeHashSetup_rel (h : Nat) :
    SR o (treeHashSetup ops h).1 (treeHashSetup o h).1 ∧ R o (treeHashSetup ops h).2 (treeHashSetup o h).2 := by
  unfold treeHashSetup
  have h0 : SR o ((List.range (h - K)).foldl (fun s i =>
      { s with treeHash := modTH ops s.treeHash i (fun t => { t with h := i, completed := 1, stackUsage := 0 }) }) (newState ops h))
      ((List.range (h - K)).foldl (fun s i =>
      { s with treeHash := modTH o s.treeHash i (fun t => { t with h := i, completed := 1, stackUsage := 0 }) }) (newState o h)) := by
    apply SR_foldl o _ _ _ _ (SR_new o h)
    intro sl sa i hs
    refine { hs with th := ?_ }
    dsimp only
    exact LTR_modTH o hs.th _ (fun tl ta ht => ⟨rfl, ht.nextIdx, rfl, rfl, ht.node⟩)
  have key := setupLoop_rel o h (2^h) 0 (List.replicate (h+1) ops.zero, List.replicate (h+1) 0, 0, _)
      (List.replicate (h+1) o.zero, List.replicate (h+1) 0, 0, _) ⟨GR_replicate (R_zero o) _, rfl, rfl, h0⟩
  simp only
  generalize setupLoop ops h (2^h) 0 _ = rl at key ⊢
  generalize setupLoop o h (2^h) 0 _ = ra at key ⊢
  obtain ⟨sl, lvl, offl, stl⟩ := rl
  obtain ⟨sa, lva, offa, sta⟩ := ra
  exact ⟨key.2.2.2, GR_getD key.1 0⟩

-- ---------------------------------------------------------------- bdsRound

theorem bdsRound_rel (h : Nat) (sl : St Lbl) (sa : St α) (leafIdx : Nat) (hs : SR o sl sa) :
    SR o (bdsRound ops h sl leafIdx) (bdsRound o h sa leafIdx) := by
  unfold bdsRound
  simp only
  -- state after the optional keep update
  have hk : SR o (if (leafIdx >>> (tauOf h leafIdx h 0 + 1)) % 2 = 0 ∧ tauOf h leafIdx h 0 < h - 1 then
        { sl with keep := sl.keep.set (tauOf h leafIdx h 0 >>> 1) (sl.auth.getD (tauOf h leafIdx h 0) ops.zero) } else sl)
      (if (leafIdx >>> (tauOf h leafIdx h 0 + 1)) % 2 = 0 ∧ tauOf h leafIdx h 0 < h - 1 then
        { sa with keep := sa.keep.set (tauOf h leafIdx h 0 >>> 1) (sa.auth.getD (tauOf h leafIdx h 0) o.zero) } else sa) := by
    split
    · exact { hs with keep := GR_set hs.keep (R_zero o) _ (GR_getD hs.auth _) }
    · exact hs
  generalize (if (leafIdx >>> (tauOf h leafIdx h 0 + 1)) % 2 = 0 ∧ tauOf h leafIdx h 0 < h - 1 then
        { sl with keep := sl.keep.set (tauOf h leafIdx h 0 >>> 1) (sl.auth.getD (tauOf h leafIdx h 0) ops.zero) } else sl) = sl1 at hk ⊢
  generalize (if (leafIdx >>> (tauOf h leafIdx h 0 + 1)) % 2 = 0 ∧ tauOf h leafIdx h 0 < h - 1 then
        { sa with keep := sa.keep.set (tauOf h leafIdx h 0 >>> 1) (sa.auth.getD (tauOf h leafIdx h 0) o.zero) } else sa) = sa1 at hk ⊢
  split
  · exact { hk with auth := GR_set hk.auth (R_zero o) _ (R_leaf o leafIdx) }
  · rename_i htau
    have hpos : tauOf h leafIdx h 0 > 0 := by omega
    simp only [hpos, if_true]
    apply SR_foldl o
    · intro s s' i hss
      split
      · refine { hss with th := ?_ }
        dsimp only
        exact LTR_modTH o hss.th _ (fun tl ta ht => ⟨rfl, rfl, rfl, rfl, ht.node⟩)
      · exact hss
    · apply SR_foldl o
      · intro s s' i hss
        split
        · exact { hss with auth := GR_set hss.auth (R_zero o) _ (GR_getD hss.th i).node }
        · exact { hss with auth := GR_set hss.auth (R_zero o) _ (GR_getD hss.retain _) }
      · exact { hk with auth := GR_set hk.auth (R_zero o) _ (R_H o _ _ _ _ _ _ (GR_getD hs.auth _) (GR_getD hs.keep _)) }

-- ---------------------------------------------------------------- treehash updates

theorem minHeight_eq (h : Nat) (sl : St Lbl) (sa : St α) (tl : TH Lbl) (ta : TH α) (hs : SR o sl sa) (ht : TR o tl ta) :
    minHeightOnStack h sl tl = minHeightOnStack h sa ta := by
  unfold minHeightOnStack
  rw [ht.stackUsage, hs.lv, hs.off]

def MergeR (x : Lbl × Nat × Nat × Nat) (y : α × Nat × Nat × Nat) : Prop := R o x.1 y.1 ∧ x.2 = y.2

theorem thMerge_rel (sl : St Lbl) (sa : St α) (hs : SR o sl sa) (nextIdx : Nat) : ∀ (f : Nat) x y, MergeR o x y →
    MergeR o (thMerge ops sl nextIdx f x) (thMerge o sa nextIdx f y)
  | 0, _, _, h => h
  | f+1, (node, nh, usage, off), (node', nh', usage', off'), hxy => by
    obtain ⟨hn, he⟩ := hxy
    simp only at hn he
    injection he with e1 e2
    injection e2 with e2 e3
    subst e1 e2 e3
    simp only [thMerge]
    rw [hs.lv]
    split
    · exact thMerge_rel sl sa hs nextIdx f _ _ ⟨R_H o _ _ _ _ _ _ (GR_getD hs.stack _) hn, rfl⟩
    · exact ⟨hn, rfl⟩

theorem treeHashUpdate_rel (h : Nat) (sl : St Lbl) (sa : St α) (level : Nat) (hs : SR o sl sa) :
    SR o (treeHashUpdate ops h sl level) (treeHashUpdate o h sa level) := by
  unfold treeHashUpdate
  have ht := GR_getD hs.th level
  simp only
  generalize sl.treeHash.getD level (thZero ops) = tl at ht ⊢
  generalize sa.treeHash.getD level (thZero o) = ta at ht ⊢
  have hm := thMerge_rel o sl sa hs tl.nextIdx (h+1) (ops.leaf tl.nextIdx, 0, tl.stackUsage, sl.stackOffset)
    (o.leaf tl.nextIdx, 0, tl.stackUsage, sl.stackOffset) ⟨R_leaf o _, rfl⟩
  rw [← ht.nextIdx, ← ht.stackUsage, ← hs.off, ← ht.h]
  generalize thMerge ops sl tl.nextIdx (h+1) _ = ml at hm ⊢
  generalize thMerge o sa tl.nextIdx (h+1) _ = ma at hm ⊢
  obtain ⟨nl, nhl, ul, ol⟩ := ml
  obtain ⟨na, nha, ua, oa⟩ := ma
  obtain ⟨hn, he⟩ := hm
  simp only at hn he
  injection he with e1 e2
  injection e2 with e2 e3
  subst e1 e2 e3
  simp only
  split
  · refine { hs with off := rfl, th := ?_ }
    dsimp only
    exact GR_set hs.th (TR_zero o) _ ⟨rfl, rfl, rfl, rfl, hn⟩
  · refine { hs with stack := GR_set hs.stack (R_zero o) _ hn, lv := by dsimp only; rw [hs.lv], off := rfl, th := ?_ }
    dsimp only
    exact GR_set hs.th (TR_zero o) _ ⟨rfl, rfl, rfl, ht.completed, ht.node⟩

theorem foldl_congr' {β γ : Type} (f g : β → γ → β) : ∀ (l : List γ) (a : β), (∀ acc x, f acc x = g acc x) →
    l.foldl f a = l.foldl g a
  | [], _, _ => rfl
  | x :: t, a, h => by simp only [List.foldl_cons, h a x]; exact foldl_congr' f g t _ h

theorem pickLevel_eq (h : Nat) (sl : St Lbl) (sa : St α) (hs : SR o sl sa) : pickLevel ops h sl = pickLevel o h sa := by
  unfold pickLevel
  simp only
  congr 1
  apply foldl_congr'
  intro acc i
  have ht := GR_getD hs.th i
  rw [ht.completed, ht.stackUsage, minHeight_eq o h sl sa _ _ hs ht]

theorem bdsTreeHashUpdate_rel (h : Nat) : ∀ (u : Nat) (sl : St Lbl) (sa : St α), SR o sl sa →
    SR o (bdsTreeHashUpdate ops h u sl) (bdsTreeHashUpdate o h u sa)
  | 0, _, _, hs => hs
  | u+1, sl, sa, hs => by
    simp only [bdsTreeHashUpdate]
    rw [pickLevel_eq o h sl sa hs]
    split
    · exact hs
    · exact bdsTreeHashUpdate_rel h u _ _ (treeHashUpdate_rel o h sl sa _ hs)

theorem step_rel (h : Nat) (sl : St Lbl) (sa : St α) (idx : Nat) (hs : SR o sl sa) : SR o (step ops h sl idx) (step o h sa idx) :=
  bdsTreeHashUpdate_rel o h _ _ _ (bdsRound_rel o h sl sa idx hs)

theorem fastForward_rel (h : Nat) : ∀ (n j : Nat) (sl : St Lbl) (sa : St α), SR o sl sa →
    SR o (fastForward ops h n j sl) (fastForward o h n j sa)
  | 0, _, _, _, hs => hs
  | n+1, j, sl, sa, hs => fastForward_rel h n (j+1) _ _ (step_rel o h sl sa j hs)

end Qrl.BdsRel
