import QrlModel.Proofs.AuthPath
import QrlModel.Proofs.Wots
import QrlModel.Props.C08
import QrlModel.Props.C11
import QrlModel.Props.C14
namespace Qrl.Xmss
open Qrl.BdsRel Qrl.BdsLabel

section
variable (hash : Bytes → Bytes) (hlen : ∀ x, (hash x).length = 32)
include hlen

theorem coreHash_len (ty : Nat) (key inp : Bytes) : (coreHash hash ty key inp).length = 32 := hlen _
theorem prf_len (inp key : Bytes) : (prf hash inp key).length = 32 := hlen _
theorem hashF_len (ps : Bytes) (a : Addr) (x : Bytes) : (hashF hash ps a x).length = 32 := hlen _
theorem nodeH_len (ps : Bytes) (t i : Nat) (l r : Bytes) : (nodeH hash ps t i l r).length = 32 := hlen _
theorem hashH_len (ps : Bytes) (a : Addr) (l r : Bytes) : (hashH hash ps a l r).length = 32 := hlen _

theorem genChain_len (ps : Bytes) (a : Addr) (w : Nat) : ∀ (steps start : Nat) (x : Bytes), x.length = 32 →
    (genChain hash ps a w steps start x).length = 32
  | 0, _, _, h => h
  | s+1, start, x, h => by
    simp only [genChain]
    split
    · exact genChain_len ps a w s (start+1) _ (hashF_len hash hlen _ _ _)
    · exact h

theorem lTreeLevel_len (ps : Bytes) (idx height : Nat) : ∀ (n i : Nat) (nodes : List Bytes), nodes.length ≤ n →
    (∀ x ∈ nodes, x.length = 32) → ∀ x ∈ lTreeLevel hash ps idx height i nodes, x.length = 32
  | 0, _, nodes, hn, _ => by
    have : nodes = [] := List.eq_nil_of_length_eq_zero (by omega)
    subst this; simp [lTreeLevel]
  | n+1, i, [], _, _ => by simp [lTreeLevel]
  | n+1, i, [a], _, h => by simpa [lTreeLevel] using h
  | n+1, i, l :: r :: rest, hn, h => by
    intro x hx
    simp only [lTreeLevel, List.mem_cons] at hx
    rcases hx with rfl | hx
    · exact hashH_len hash hlen _ _ _ _
    · exact lTreeLevel_len ps idx height n (i+1) rest (by simp at hn; omega) (fun y hy => h y (by simp [hy])) x hx

theorem lTree_len (ps : Bytes) (idx : Nat) : ∀ (fuel height : Nat) (nodes : List Bytes), (∀ x ∈ nodes, x.length = 32) →
    (lTree hash ps idx fuel height nodes).length = 32
  | 0, _, nodes, h => by
    cases nodes with
    | nil => simp [lTree, zeros]
    | cons a t => simpa [lTree] using h a (by simp)
  | f+1, height, nodes, h => by
    simp only [lTree]
    split
    · exact lTree_len ps idx f (height+1) _ (lTreeLevel_len hash hlen ps idx height nodes.length 0 nodes (Nat.le_refl _) h)
    · cases nodes with
      | nil => simp [zeros]
      | cons a t => simpa using h a (by simp)

theorem expandSeed_len (seed : Bytes) (n : Nat) : ∀ x ∈ expandSeed hash seed n, x.length = 32 := by
  intro x hx
  simp only [expandSeed, List.mem_map] at hx
  obtain ⟨i, _, rfl⟩ := hx
  exact prf_len hash hlen _ _

theorem wotsPKGen_len (p : WParams) (seed ps : Bytes) (idx : Nat) : ∀ x ∈ wotsPKGen hash p seed ps idx, x.length = 32 := by
  intro x hx
  simp only [wotsPKGen, List.mem_map] at hx
  obtain ⟨⟨sk, i⟩, hm, rfl⟩ := hx
  apply genChain_len hash hlen
  exact expandSeed_len hash hlen seed p.len sk (List.fst_mem_of_mem_zipIdx hm)

theorem genLeafWOTS_len (p : WParams) (skSeed ps : Bytes) (idx : Nat) : (genLeafWOTS hash p skSeed ps idx).length = 32 :=
  lTree_len hash hlen _ _ _ _ _ (wotsPKGen_len hash hlen p _ ps idx)

theorem tree_len (ps : Bytes) (leafF : Nat → Bytes) (hleaf : ∀ i, (leafF i).length = 32) :
    ∀ (t i : Nat), (tree (treeOps hash ps leafF) t i).length = 32
  | 0, i => hleaf i
  | t+1, i => nodeH_len hash hlen _ _ _ _ _

end

/-- reading back `n` consecutive 32-byte slices from a concatenation of 32-byte strings -/
theorem slicesO_flatten (w : String) : ∀ (cs : List Bytes) (pre rest : Bytes), (∀ c ∈ cs, c.length = 32) →
    slicesO (pre ++ cs.flatten ++ rest) w cs.length pre.length = .ok cs
  | [], _, _, _ => rfl
  | c :: cs, pre, rest, h => by
    have hc := h c (by simp)
    simp only [List.length_cons, slicesO, List.flatten_cons]
    have hs : sliceO (pre ++ (c ++ cs.flatten) ++ rest) pre.length (pre.length + 32) w = .ok c := by
      rw [C14.sliceO_ok _ _ _ _ (by omega) (by simp [hc])]
      simp [← hc]
    rw [hs]
    have := slicesO_flatten w cs (pre ++ c) rest (fun x hx => h x (by simp [hx]))
    have e : pre ++ (c ++ cs.flatten) ++ rest = pre ++ c ++ cs.flatten ++ rest := by simp
    have e2 : (pre ++ c).length = pre.length + 32 := by simp [hc]
    rw [e, ← e2, this]

end Qrl.Xmss
