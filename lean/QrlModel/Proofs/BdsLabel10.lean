import QrlModel.Proofs.BdsLabel
namespace Qrl.BdsLabel
set_option maxRecDepth 100000 in
theorem bds_h10 : checkAll 10 = true := by decide +kernel
end Qrl.BdsLabel
