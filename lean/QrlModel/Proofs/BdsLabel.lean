import QrlModel.Model.BdsLabel
/-! The label-level traversal theorem: for a given height, after `i` traversal steps from key generation
the stored authentication path is exactly the sibling path of leaf `i`, the setup root is the tree root,
and no `bad` label (a hash call on anything but the two children its address names) is ever stored in it.
Per height this is one kernel evaluation of the label model (`decide +kernel`); the control flow of the
traversal does not depend on node values, so it covers every seed and hash function (`Proofs/BdsRel`). -/
namespace Qrl.BdsLabel
open Qrl.Bds

/-- true authentication path of leaf `i`: at each height the sibling of the ancestor -/
def sib (n : Nat) : Nat := if n % 2 = 0 then n + 1 else n - 1

def trueAuth (h i : Nat) : List Lbl := (List.range h).map (fun j => .nd j (sib (i >>> j)))

/-- check indices `i, i+1, …, i+n-1` starting from state `s` (the state belonging to index `i`) -/
def checkFrom (h : Nat) : Nat → Nat → St Lbl → Bool
  | 0, _, _ => true
  | n+1, i, s => (s.auth == trueAuth h i) && checkFrom h n (i+1) (step ops h s i)

def checkAll (h : Nat) : Bool :=
  ((treeHashSetup ops h).2 == .nd h 0) && checkFrom h (2 ^ h) 0 (treeHashSetup ops h).1

theorem checkFrom_sound (h : Nat) : ∀ (n i : Nat) (s : St Lbl), checkFrom h n i s = true →
    ∀ d, d < n → (fastForward ops h d i s).auth = trueAuth h (i + d)
  | 0, _, _, _, d, hd => by omega
  | n+1, i, s, hc, d, hd => by
    simp only [checkFrom, Bool.and_eq_true, beq_iff_eq] at hc
    cases d with
    | zero => simpa [fastForward] using hc.1
    | succ d =>
      have := checkFrom_sound h n (i+1) _ hc.2 d (by omega)
      simp only [fastForward]
      rw [this]; congr 1; omega

/-- what a successful whole-life check of height `h` means -/
theorem checkAll_sound (h : Nat) (hc : checkAll h = true) :
    (treeHashSetup ops h).2 = .nd h 0 ∧
    ∀ i, i < 2 ^ h → (fastForward ops h i 0 (treeHashSetup ops h).1).auth = trueAuth h i := by
  simp only [checkAll, Bool.and_eq_true, beq_iff_eq] at hc
  refine ⟨hc.1, fun i hi => ?_⟩
  have := checkFrom_sound h (2 ^ h) 0 _ hc.2 i hi
  simpa using this

set_option maxRecDepth 100000 in
theorem bds_h4 : checkAll 4 = true := by decide +kernel
set_option maxRecDepth 100000 in
theorem bds_h6 : checkAll 6 = true := by decide +kernel
set_option maxRecDepth 100000 in
theorem bds_h8 : checkAll 8 = true := by decide +kernel

end Qrl.BdsLabel
