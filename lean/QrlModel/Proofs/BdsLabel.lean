import QrlModel.Model.BdsLabel
/-! The label-level traversal theorem: for a given height, after `i` traversal steps from key generation
the stored authentication path is exactly the sibling path of leaf `i`, the setup root is the tree root,
and no `bad` label (a hash call on anything but the two children its address names) is ever stored in it.
Per height this is one kernel evaluation of the label model (`decide +kernel`); the control flow of the
traversal does not depend on node values, so it covers every seed and hash function (`Proofs/BdsRel`). -/
namespace Qrl.BdsLabel
open Qrl.Bds

/-- true authentication path of leaf `i`: at each height the sibling of the ancestor -/
def trueAuth (h i : Nat) : List Lbl := (List.range h).map (fun j => .nd j (sib (i >>> j)))

/-- check indices `i, i+1, …, i+n-1` starting from state `s` (the state belonging to index `i`) -/
def checkFrom (h : Nat) : Nat → Nat → St Lbl → Bool
  | 0, _, _ => true
  | n+1, i, s => (s.auth == trueAuth h i) && checkFrom h n (i+1) (step ops h s i)

def checkAll (h : Nat) : Bool :=
  ((treeHashSetup ops h).2 == .nd h 0) && checkFrom h (2 ^ h) 0 (treeHashSetup ops h).1

theorem checkFrom_sound (h : Nat) : ∀ (n i : Nat) (s : St Lbl), checkFrom h n i s = true →
    ∀ d, d < n → (fastForward ops h d i s).auth = trueAuth h (i + d)
  | 0, _, _, _, d, hd => by omega
  | n+1, i, s, hc, d, hd => by
    simp only [checkFrom, Bool.and_eq_true, beq_iff_eq] at hc
    cases d with
    | zero => simpa [fastForward] using hc.1
    | succ d =>
      have := checkFrom_sound h n (i+1) _ hc.2 d (by omega)
      simp only [fastForward]
      rw [this]; congr 1; omega

theorem fastForward_add' (h : Nat) : ∀ (a b i : Nat) (s : St Lbl),
    fastForward ops h (a + b) i s = fastForward ops h b (i + a) (fastForward ops h a i s)
  | 0, b, i, s => by simp [fastForward]
  | a+1, b, i, s => by
    have : a + 1 + b = (a + b) + 1 := by omega
    rw [this]
    simp only [fastForward]
    rw [fastForward_add' h a b (i+1)]
    congr 1; omega

/-- what a successful whole-life check of height `h` means -/
theorem checkAll_sound (h : Nat) (hc : checkAll h = true) :
    (treeHashSetup ops h).2 = .nd h 0 ∧
    ∀ i, i < 2 ^ h → (fastForward ops h i 0 (treeHashSetup ops h).1).auth = trueAuth h i := by
  simp only [checkAll, Bool.and_eq_true, beq_iff_eq] at hc
  refine ⟨hc.1, fun i hi => ?_⟩
  have := checkFrom_sound h (2 ^ h) 0 _ hc.2 i hi
  simpa using this

/-- for height `h`: key generation returns the root label, and at every index `i < 2^h`, after `i` traversal
steps from key generation, the stored authentication path is the sibling path of leaf `i` -/
def TraversalCorrect (h : Nat) : Prop :=
  (treeHashSetup ops h).2 = .nd h 0 ∧
  ∀ i, i < 2 ^ h → (fastForward ops h i 0 (treeHashSetup ops h).1).auth = trueAuth h i

theorem traversal_of_checkAll (h : Nat) (hc : checkAll h = true) : TraversalCorrect h := checkAll_sound h hc

-- ---- segment certificates: the same statement for a taller tree, checked in pieces ----

/-- `n` times (check the path of index `i`, then step), returning the final state and whether all checks held -/
def runSeg (h : Nat) : Nat → Nat → St Lbl → St Lbl × Bool
  | 0, _, s => (s, true)
  | n+1, i, s =>
    let r := runSeg h n (i+1) (step ops h s i)
    (r.1, (s.auth == trueAuth h i) && r.2)

theorem runSeg_sound (h : Nat) : ∀ (n i : Nat) (s s' : St Lbl), runSeg h n i s = (s', true) →
    fastForward ops h n i s = s' ∧ ∀ d, d < n → (fastForward ops h d i s).auth = trueAuth h (i + d)
  | 0, _, s, s', hr => by
    simp only [runSeg, Prod.mk.injEq, and_true] at hr
    exact ⟨hr, fun d hd => by omega⟩
  | n+1, i, s, s', hr => by
    simp only [runSeg, Prod.mk.injEq, Bool.and_eq_true, beq_iff_eq] at hr
    obtain ⟨h1, h2, h3⟩ := hr
    have ih := runSeg_sound h n (i+1) (step ops h s i) s' (Prod.ext h1 h3)
    refine ⟨ih.1, fun d hd => ?_⟩
    cases d with
    | zero => simpa [fastForward] using h2
    | succ d =>
      have := ih.2 d (by omega)
      simp only [fastForward]
      rw [this]; congr 1; omega

/-- a chain of segment certificates: states `S 0, S 1, …, S m` with `S 0` the key-generation state, each
segment of `len` steps leading from `S c` to `S (c+1)` with all paths correct, and the last path correct -/
theorem traversal_of_segments (h len m : Nat) (S : Nat → St Lbl) (hlen : len * m + 1 = 2 ^ h)
    (hsetup : treeHashSetup ops h = (S 0, .nd h 0))
    (hseg : ∀ c, c < m → runSeg h len (len * c) (S c) = (S (c+1), true))
    (hlast : (S m).auth = trueAuth h (len * m)) : TraversalCorrect h := by
  have hS : ∀ c, c ≤ m → fastForward ops h (len * c) 0 (S 0) = S c := by
    intro c
    induction c with
    | zero => intro _; simp [fastForward]
    | succ c ih =>
      intro hc
      have e : len * (c+1) = len * c + len := Nat.mul_succ len c
      rw [e, show ∀ a b, fastForward ops h (a + b) 0 (S 0) = fastForward ops h b (0 + a) (fastForward ops h a 0 (S 0)) from
        fun a b => fastForward_add' h a b 0 (S 0), ih (by omega), Nat.zero_add]
      exact (runSeg_sound h len (len * c) (S c) (S (c+1)) (hseg c (by omega))).1
  refine ⟨by rw [hsetup], fun i hi => ?_⟩
  rw [hsetup]
  simp only
  by_cases hil : i = len * m
  · rw [hil, hS m (Nat.le_refl _)]; exact hlast
  · have hlenpos : 0 < len := by
      rcases Nat.eq_zero_or_pos len with h0 | h0
      · subst h0; simp at hlen hil; omega
      · exact h0
    have hc : i / len < m := by
      apply Nat.div_lt_of_lt_mul
      have : i < len * m := by omega
      exact this
    have hi' : i = len * (i / len) + i % len := (Nat.div_add_mod i len).symm
    rw [hi', show ∀ a b, fastForward ops h (a + b) 0 (S 0) = fastForward ops h b (0 + a) (fastForward ops h a 0 (S 0)) from
        fun a b => fastForward_add' h a b 0 (S 0), hS _ (by omega), Nat.zero_add]
    exact (runSeg_sound h len (len * (i / len)) (S (i / len)) _ (hseg _ hc)).2 _ (Nat.mod_lt _ hlenpos)

set_option maxRecDepth 100000 in
theorem bds_h4 : checkAll 4 = true := by decide +kernel
set_option maxRecDepth 100000 in
theorem bds_h6 : checkAll 6 = true := by decide +kernel
set_option maxRecDepth 100000 in
theorem bds_h8 : checkAll 8 = true := by decide +kernel

end Qrl.BdsLabel
