import QrlModel.Proofs.NttField
import QrlModel.Gen.DilConst
import Mathlib.Data.ZMod.Basic
/-! The zetas table regenerated from the source satisfies the tree and pairing facts (kernel evaluation over the
whole table), cast into ZMod q. -/
namespace Qrl.NttTable
open Gen.Dil

def q : Nat := 8380417
def rinv : Nat := 8265825   -- (2^32)^{-1} mod q

/-- twiddle of node k as a residue: table entry (Montgomery form) times R^{-1} -/
def zN (k : Nat) : Nat := ((zetas.getD k 0 % 8380417).toNat * rinv) % q

theorem rinv_ok : (4294967296 * rinv) % q = 1 := by decide

set_option maxRecDepth 100000 in
theorem tree_facts : (List.range 127).all (fun i =>
    let k := i + 1
    (zN (2*k) * zN (2*k) % q == zN k) && ((zN (2*k+1) * zN (2*k+1) + zN k) % q == 0)) = true := by decide +kernel

set_option maxRecDepth 100000 in
theorem pair_facts : (List.range 8).all (fun l => (List.range (2 ^ l)).all (fun c =>
    (zN (2 ^ l + c) * zN (2 ^ (l+1) - 1 - c) + 1) % q == 0)) = true := by decide +kernel

theorem top_fact : (zN 1 * zN 1 + 1) % q = 0 := by decide +kernel

set_option maxRecDepth 100000 in
theorem zetas_small : zetas.all (fun z => decide (-4190208 ≤ z ∧ z ≤ 4190208)) = true := by decide +kernel

theorem f_fact : (256 * 41978 % q * rinv % q * rinv) % q = 1 := by decide

abbrev Fq := ZMod 8380417

def z (k : Nat) : Fq := (zN k : Fq)

theorem zN_lt (k : Nat) : zN k < q := Nat.mod_lt _ (by decide)

theorem cast_eq_of_mod {a b : Nat} (h : a % q = b % q) : (a : Fq) = (b : Fq) :=
  (ZMod.natCast_eq_natCast_iff' a b 8380417).mpr h

theorem cast_zero_of_mod {a : Nat} (h : a % q = 0) : (a : Fq) = 0 := by
  have := cast_eq_of_mod (a := a) (b := 0) (by simpa using h)
  simpa using this

theorem treeOK : NttF.TreeOK z := by
  intro k h1 h2
  have hall := List.all_eq_true.mp tree_facts (k - 1) (List.mem_range.mpr (by omega))
  have hk : k - 1 + 1 = k := by omega
  simp only [hk, Bool.and_eq_true, beq_iff_eq] at hall
  obtain ⟨ha, hb⟩ := hall
  constructor
  · have := cast_eq_of_mod (a := zN (2*k) * zN (2*k)) (b := zN k) (by rw [ha, Nat.mod_eq_of_lt (zN_lt k)])
    simp only [z, pow_two]
    push_cast at this
    exact this
  · have := cast_zero_of_mod hb
    simp only [z, pow_two]
    push_cast at this
    linear_combination this

theorem pairOK : NttF.PairOK z := by
  intro l c hl hc
  have h1 := List.all_eq_true.mp pair_facts l (List.mem_range.mpr hl)
  have h2 := List.all_eq_true.mp h1 c (List.mem_range.mpr hc)
  simp only [beq_iff_eq] at h2
  have := cast_zero_of_mod h2
  simp only [z]
  push_cast at this
  linear_combination this

theorem top : z 1 ^ 2 = -1 := by
  have := cast_zero_of_mod top_fact
  simp only [z, pow_two]
  push_cast at this
  linear_combination this

end Qrl.NttTable
