import QrlModel.Proofs.BdsRel
import QrlModel.Proofs.BdsLabel
import QrlModel.Model.Xmss
/-! Transfer of the label-level traversal theorem to every node type, and the authentication-path lemma:
climbing the true sibling path from the true leaf reaches the true root. -/
namespace Qrl.BdsRel
open Qrl.Bds Qrl.BdsLabel
variable {α : Type} (o : Ops α)

theorem trueAuth_getD (h i j : Nat) (hj : j < h) : (trueAuth h i).getD j .zero = .nd j (sib (i >>> j)) := by
  simp [trueAuth, List.getD_eq_getElem?_getD, hj]

/-- **transfer**: if the label-level whole-life check of height `h` succeeds, then for *every* instance of the
node operations (every seed, every hash function) key generation returns the true root and after `i` steps
the stored authentication path consists of the true sibling nodes of leaf `i` -/
theorem traversal_transfer (h : Nat) (hc : TraversalCorrect h) :
    (treeHashSetup o h).2 = tree o h 0 ∧
    ∀ i, i < 2 ^ h →
      (fastForward o h i 0 (treeHashSetup o h).1).auth.length = h ∧
      ∀ j, j < h → (fastForward o h i 0 (treeHashSetup o h).1).auth.getD j o.zero = tree o j (sib (i >>> j)) := by
  obtain ⟨hroot, hauth⟩ := hc
  obtain ⟨hs, hr⟩ := treeHashSetup_rel o h
  refine ⟨?_, fun i hi => ?_⟩
  · rw [hroot] at hr; exact hr
  · have hf := fastForward_rel o h i 0 _ _ hs
    have ha := hf.auth
    rw [hauth i hi] at ha
    refine ⟨?_, fun j hj => ?_⟩
    · rw [← ha.1]; simp [trueAuth]
    · have := ha.2 j
      rw [trueAuth_getD h i j hj] at this
      exact this

end Qrl.BdsRel

namespace Qrl.Xmss
open Qrl.BdsRel Qrl.BdsLabel Qrl.Bds

section
variable (hash : Bytes → Bytes) (pubSeed : Bytes)

/-- node operations of a concrete tree: leaves given, inner nodes by the keyed hash with node addresses -/
def treeOps (leaf : Nat → Bytes) : Bds.Ops Bytes := { zero := zeros 32, leaf := leaf, H := fun t i l r => nodeH hash pubSeed t i l r }

def authStep (acc : Bytes × Nat) (x : Bytes × Nat) : Bytes × Nat :=
  let (node, idx) := acc
  let (a, i) := x
  if idx % 2 = 1 then (nodeH hash pubSeed i (idx / 2) a node, idx / 2) else (nodeH hash pubSeed i (idx / 2) node a, idx / 2)

theorem validateAuthPath_eq (leaf : Bytes) (leafIdx : Nat) (auth : List Bytes) :
    validateAuthPath hash pubSeed leaf leafIdx auth = (auth.zipIdx.foldl (authStep hash pubSeed) (leaf, leafIdx)).1 := rfl

theorem shr_succ (idx j : Nat) : idx >>> (j + 1) = (idx / 2) >>> j := by
  rw [Nat.shiftRight_succ_inside]

theorem sib_odd (p : Nat) : sib (2 * p + 1) = 2 * p := by simp [sib]
theorem sib_even (p : Nat) : sib (2 * p) = 2 * p + 1 := by simp [sib]

/-- one level: a true node and its true sibling hash to the true parent -/
theorem authStep_true (leafF : Nat → Bytes) (k idx : Nat) :
    authStep hash pubSeed (tree (treeOps hash pubSeed leafF) k idx, idx) (tree (treeOps hash pubSeed leafF) k (sib idx), k) =
      (tree (treeOps hash pubSeed leafF) (k+1) (idx / 2), idx / 2) := by
  simp only [authStep]
  by_cases hodd : idx % 2 = 1
  · rw [if_pos hodd]
    obtain ⟨p, rfl⟩ : ∃ p, idx = 2 * p + 1 := ⟨idx / 2, by omega⟩
    have : (2 * p + 1) / 2 = p := by omega
    rw [sib_odd, this]; rfl
  · rw [if_neg hodd]
    obtain ⟨p, rfl⟩ : ∃ p, idx = 2 * p := ⟨idx / 2, by omega⟩
    have : (2 * p) / 2 = p := by omega
    rw [sib_even, this]; rfl

/-- climbing the true sibling path from a true node reaches the true ancestor -/
theorem climb (leafF : Nat → Bytes) : ∀ (auth : List Bytes) (k idx : Nat),
    (∀ j, j < auth.length → auth.getD j (zeros 32) = tree (treeOps hash pubSeed leafF) (k + j) (sib (idx >>> j))) →
    (auth.zipIdx k).foldl (authStep hash pubSeed) (tree (treeOps hash pubSeed leafF) k idx, idx) =
      (tree (treeOps hash pubSeed leafF) (k + auth.length) (idx >>> auth.length), idx >>> auth.length)
  | [], k, idx, _ => by simp
  | a :: rest, k, idx, h => by
    have ha : a = tree (treeOps hash pubSeed leafF) k (sib idx) := by simpa using h 0 (by simp)
    have hrest : ∀ j, j < rest.length → rest.getD j (zeros 32) = tree (treeOps hash pubSeed leafF) (k + 1 + j) (sib ((idx / 2) >>> j)) := by
      intro j hj
      have := h (j+1) (by simp; omega)
      simp only [List.getD_cons_succ] at this
      rw [this, shr_succ]
      have : k + (j + 1) = k + 1 + j := by omega
      rw [this]
    simp only [List.zipIdx_cons, List.foldl_cons, List.length_cons]
    rw [ha, authStep_true, climb leafF rest (k+1) (idx / 2) hrest, shr_succ]
    have : k + 1 + rest.length = k + (rest.length + 1) := by omega
    rw [this]

/-- **validateAuthPath** applied to the true leaf and its true sibling path returns the root -/
theorem validateAuthPath_true (leafF : Nat → Bytes) (h idx : Nat) (hi : idx < 2 ^ h) (auth : List Bytes) (hl : auth.length = h)
    (ha : ∀ j, j < h → auth.getD j (zeros 32) = tree (treeOps hash pubSeed leafF) j (sib (idx >>> j))) :
    validateAuthPath hash pubSeed (leafF idx) idx auth = tree (treeOps hash pubSeed leafF) h 0 := by
  rw [validateAuthPath_eq]
  have := climb hash pubSeed leafF auth 0 idx (by intro j hj; rw [Nat.zero_add]; exact ha j (hl ▸ hj))
  have h0 : tree (treeOps hash pubSeed leafF) 0 idx = leafF idx := rfl
  rw [h0] at this
  rw [this, hl, Nat.zero_add, Nat.shiftRight_eq_div_pow, Nat.div_eq_of_lt hi]
end
end Qrl.Xmss
