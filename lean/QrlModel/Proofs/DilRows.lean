import QrlModel.Proofs.DilRowOk
import QrlModel.Proofs.DilWeight
namespace Qrl.NttBridge
open Gen.Dil Qrl.Dil Qrl.NttTable Qrl.DilProofs Qrl.VecF

/-- the K rows together: the verifier's `UseHint(A·z − c·t1·2^d, h)` is the signer's `w1`, row by row -/
theorem rows_ok (s1 y : List Poly) (c : Poly)
    (hs1 : ∀ p ∈ s1, Good (-2) 2 p) (hy : ∀ p ∈ y, Good (-524287) 524288 p) (hly : s1.length = y.length) (hc : Good (-1) 1 c) :
    ∀ (mat : List (List Poly)) (s2 : List Poly), mat.length = s2.length →
    (∀ row ∈ mat, (∀ p ∈ row, Good 0 8380416 p) ∧ row.length ≤ 8) → (∀ p ∈ s2, Good (-2) 2 p) →
    (∀ p ∈ (List.zipWith polySub ((mat.map fun row => sigW row y).map fun p => (polyDecompose p).2)
              ((s2.map ntt).map fun p => invNTTToMont (polyPointwise (ntt c) p))).map polyReduce,
        polyChkNorm p (BitVec.ofNat 32 (GAMMA2 - BETA)) = false) →
    (∀ p ∈ (((List.zipWith (fun row s2i => keyT row s1 s2i) mat s2).map fun p => (polyPower2Round p).2).map ntt).map
              fun p => polyReduce (invNTTToMont (polyPointwise (ntt c) p)),
        polyChkNorm p (BitVec.ofNat 32 GAMMA2) = false) →
    List.zipWith polyUseHint
      ((List.zipWith polySub (mat.map fun row => pointwiseAcc row ((sigZ (ntt c) s1 y).map ntt))
          (((List.zipWith (fun row s2i => keyT row s1 s2i) mat s2).map fun p => (polyPower2Round p).1).map
            fun p => polyPointwise (ntt c) (ntt (polyShiftL p)))).map fun p => polyCAddQ (invNTTToMont (polyReduce p)))
      (List.zipWith polyMakeHint
        (List.zipWith polyAdd
          ((List.zipWith polySub ((mat.map fun row => sigW row y).map fun p => (polyDecompose p).2)
              ((s2.map ntt).map fun p => invNTTToMont (polyPointwise (ntt c) p))).map polyReduce)
          ((((List.zipWith (fun row s2i => keyT row s1 s2i) mat s2).map fun p => (polyPower2Round p).2).map ntt).map
              fun p => polyReduce (invNTTToMont (polyPointwise (ntt c) p))))
        ((mat.map fun row => sigW row y).map fun p => (polyDecompose p).1))
    = (mat.map fun row => sigW row y).map fun p => (polyDecompose p).1
  | [], _, _, _, _, _, _ => by simp
  | _ :: _, [], h, _, _, _, _ => by simp at h
  | row :: mat, s2i :: s2, hl, hm, hs2, hn1, hn2 => by
    simp only [List.length_cons, Nat.add_right_cancel_iff] at hl
    simp only [List.map_cons, List.zipWith_cons_cons, List.mem_cons, forall_eq_or_imp] at hn1 hn2
    have ih := rows_ok s1 y c hs1 hy hly hc mat s2 hl (fun r hr => hm r (by simp [hr])) (fun p hp => hs2 p (by simp [hp])) hn1.2 hn2.2
    have hr := hm row (by simp)
    have h0 := row_ok row s1 y s2i c hr.1 hr.2 hs1 hy hly (hs2 s2i (by simp)) hc hn1.1 hn2.1
    simp only [List.map_cons, List.zipWith_cons_cons, List.cons.injEq]
    exact ⟨h0, ih⟩

/-- the hint vector the signer packs: K rows of 256 coefficients in {0,1} -/
theorem rows_hint_valid (s1 y : List Poly) (c : Poly)
    (hs1 : ∀ p ∈ s1, Good (-2) 2 p) (hy : ∀ p ∈ y, Good (-524287) 524288 p) (hc : Good (-1) 1 c) :
    ∀ (mat : List (List Poly)) (s2 : List Poly), mat.length = s2.length →
    (∀ row ∈ mat, (∀ p ∈ row, Good 0 8380416 p) ∧ row.length ≤ 8) → (∀ p ∈ s2, Good (-2) 2 p) →
    (List.zipWith polyMakeHint
        (List.zipWith polyAdd
          ((List.zipWith polySub ((mat.map fun row => sigW row y).map fun p => (polyDecompose p).2)
              ((s2.map ntt).map fun p => invNTTToMont (polyPointwise (ntt c) p))).map polyReduce)
          ((((List.zipWith (fun row s2i => keyT row s1 s2i) mat s2).map fun p => (polyPower2Round p).2).map ntt).map
              fun p => polyReduce (invNTTToMont (polyPointwise (ntt c) p))))
        ((mat.map fun row => sigW row y).map fun p => (polyDecompose p).1)).length = mat.length ∧
    ∀ r ∈ (List.zipWith polyMakeHint
        (List.zipWith polyAdd
          ((List.zipWith polySub ((mat.map fun row => sigW row y).map fun p => (polyDecompose p).2)
              ((s2.map ntt).map fun p => invNTTToMont (polyPointwise (ntt c) p))).map polyReduce)
          ((((List.zipWith (fun row s2i => keyT row s1 s2i) mat s2).map fun p => (polyPower2Round p).2).map ntt).map
              fun p => polyReduce (invNTTToMont (polyPointwise (ntt c) p))))
        ((mat.map fun row => sigW row y).map fun p => (polyDecompose p).1)), DilHints.ValidRow r
  | [], _, _, _, _ => by simp
  | _ :: _, [], h, _, _ => by simp at h
  | row :: mat, s2i :: s2, hl, hm, hs2 => by
    simp only [List.length_cons, Nat.add_right_cancel_iff] at hl
    obtain ⟨il, iv⟩ := rows_hint_valid s1 y c hs1 hy hc mat s2 hl (fun r hr => hm r (by simp [hr])) (fun p hp => hs2 p (by simp [hp]))
    have hr := hm row (by simp)
    obtain ⟨_, gcp⟩ := G_ntt c 1 hc (by norm_num) (by norm_num)
    have gcp' : Good (-(1 + 8 * 8380417)) (1 + 8 * 8380417) (ntt c) := gcp
    obtain ⟨_, gt⟩ := keyT_facts row s1 s2i hr.1 hr.2 hs1 (hs2 s2i (by simp))
    obtain ⟨_, _, g0⟩ := p2r_facts _ gt
    obtain ⟨_, gw⟩ := sigW_facts row y hr.1 hr.2 hy
    obtain ⟨_, gcs⟩ := cmul_facts (ntt c) s2i 2 gcp' (hs2 s2i (by simp)) (by norm_num) (by norm_num)
    obtain ⟨_, gct⟩ := cmul_facts (ntt c) _ 4096 gcp' (g0.mono (by norm_num) (by norm_num)) (by norm_num) (by norm_num)
    simp only [List.map_cons, List.zipWith_cons_cons, List.length_cons, il, List.mem_cons, forall_eq_or_imp, true_and]
    refine ⟨?_, iv⟩
    apply DilHints.makeHint_valid
    · simp [polyAdd, polyReduce, polySub, polyDecompose, gw.1, gcs.1, gct.1]
    · simp [polyDecompose, gw.1]

end Qrl.NttBridge
