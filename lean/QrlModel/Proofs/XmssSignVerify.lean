import QrlModel.Proofs.XmssLen
namespace Qrl.Xmss
open Qrl.BdsRel Qrl.BdsLabel Qrl.Xmss.C02 Qrl.Xmss.C08

section
variable (hashOf : Nat → Bytes → Bytes)

/-- explicit form of a successful `Sign` (for index < 2^h) -/
theorem sign_explicit (hlen : ∀ hf x, (hashOf hf x).length = 32) (k : Key) (m : Bytes) (h30 : k.h ≤ 30) (h1 : k.index < 2 ^ k.h) :
    ∃ wsig k', sign hashOf k m = .ok (k',
        toBytesBE k.index 4 ++ prf (hashOf k.hf) (toBytesBE k.index 32) k.skPRF ++ wsig.flatten ++ (k.bds.auth.take k.h).flatten) ∧
      wotsSign (hashOf k.hf) wp16
        (hMsg (hashOf k.hf) m (prf (hashOf k.hf) (toBytesBE k.index 32) k.skPRF ++ k.root ++ toBytesBE k.index 32))
        (getSeed (hashOf k.hf) k.skSeed k.index) k.pubSeed k.index = .ok wsig := by
  have hp := pow_le30 k.h h30
  have hlt : k.index < 4294967296 := by omega
  have hidx : indexOf (setIdxBytes k.sk k.index) = k.index := indexOf_setIdxBytes _ _ hlt
  have hset := setIndex_ok hashOf k k.index h1 (Nat.le_refl _)
  rw [Nat.sub_self] at hset
  -- the key after SetIndex(current) has the same index, seeds, root and traversal state
  have e1 : Key.skPRF ({ k with bds := Bds.fastForward (k.ops hashOf) k.h 0 k.index k.bds, sk := setIdxBytes k.sk k.index } : Key) = k.skPRF := by
    simp [Key.skPRF, drop_setIdxBytes k.sk k.index 32]
  have e2 : Key.root ({ k with bds := Bds.fastForward (k.ops hashOf) k.h 0 k.index k.bds, sk := setIdxBytes k.sk k.index } : Key) = k.root := by
    simp [Key.root, drop_setIdxBytes k.sk k.index 96]
  have e3 : Key.skSeed ({ k with bds := Bds.fastForward (k.ops hashOf) k.h 0 k.index k.bds, sk := setIdxBytes k.sk k.index } : Key) = k.skSeed := by
    simp [Key.skSeed, setIdxBytes_drop]
  have e4 : Key.pubSeed ({ k with bds := Bds.fastForward (k.ops hashOf) k.h 0 k.index k.bds, sk := setIdxBytes k.sk k.index } : Key) = k.pubSeed := by
    simp [Key.pubSeed, drop_setIdxBytes k.sk k.index 64]
  have e5 : Key.index ({ k with bds := Bds.fastForward (k.ops hashOf) k.h 0 k.index k.bds, sk := setIdxBytes k.sk k.index } : Key) = k.index := hidx
  obtain ⟨ds, hds, _, _⟩ := wotsDigits_ok wp16 (Or.inl rfl)
      (hMsg (hashOf k.hf) m (prf (hashOf k.hf) (toBytesBE k.index 32) k.skPRF ++ k.root ++ toBytesBE k.index 32)) (hlen _ _)
  unfold sign
  simp only [hset, bind, Outcome.bind, e1, e2, e3, e4, e5, wotsSign, hds, pure]
  exact ⟨_, _, rfl, rfl⟩


theorem flatten_len32 : ∀ (l : List Bytes), (∀ x ∈ l, x.length = 32) → l.flatten.length = 32 * l.length
  | [], _ => rfl
  | a :: t, h => by
    simp only [List.flatten_cons, List.length_append, List.length_cons, h a (by simp),
      flatten_len32 t (fun x hx => h x (by simp [hx]))]
    omega

/-- `xmssVerifySig` on a signature of the shape Sign produces: every slice is what was concatenated -/
theorem verifySig_explicit (hf : Nat) (p : WParams) (msg r root pubSeed : Bytes) (W A : List Bytes) (idx h : Nat)
    (hidx : idx < 4294967296) (hr : r.length = 32) (hroot : root.length = 32) (hps : pubSeed.length = 32)
    (hW : W.length = p.len) (hW32 : ∀ x ∈ W, x.length = 32) (hA : A.length = h) (hA32 : ∀ x ∈ A, x.length = 32) :
    verifySig hashOf hf p msg (toBytesBE idx 4 ++ r ++ W.flatten ++ A.flatten) (root ++ pubSeed) h =
      (match wotsPKFromSig (hashOf hf) p W (hMsg (hashOf hf) msg (r ++ root ++ toBytesBE idx 32)) pubSeed idx with
       | .ok wpk => .ok (validateAuthPath (hashOf hf) pubSeed (lTree (hashOf hf) pubSeed idx p.len 0 wpk) idx A == root)
       | .refuse c => .refuse c
       | .fault w => .fault w) := by
  have hWf := flatten_len32 W hW32
  have hAf := flatten_len32 A hA32
  have hks : p.keySize = 32 * p.len := by simp [WParams.keySize]; omega
  generalize hsig : toBytesBE idx 4 ++ r ++ W.flatten ++ A.flatten = sig
  have hsl : sig.length = 36 + 32 * p.len + 32 * h := by
    rw [← hsig]; simp [toBytesBE_length, hr, hWf, hAf, hW, hA]; omega
  have hpkl : (root ++ pubSeed).length = 64 := by simp [hroot, hps]
  have b4 : toBytesBE idx 4 = [UInt8.ofNat ((idx % 4294967296) >>> 24), UInt8.ofNat ((idx % 4294967296) >>> 16),
     UInt8.ofNat ((idx % 4294967296) >>> 8), UInt8.ofNat ((idx % 4294967296) >>> 0)] := toBytesBE_4 idx
  unfold verifySig
  simp only [bind, Outcome.bind, pure]
  rw [C14.sliceO_ok (root ++ pubSeed) 32 64 _ (by omega) (by omega)]; simp only
  rw [C14.getO_ok sig 0 _ (by omega)]; simp only
  rw [C14.getO_ok sig 1 _ (by omega)]; simp only
  rw [C14.getO_ok sig 2 _ (by omega)]; simp only
  rw [C14.getO_ok sig 3 _ (by omega)]; simp only
  rw [C14.sliceO_ok sig 4 36 _ (by omega) (by omega)]; simp only
  rw [C14.sliceO_ok (root ++ pubSeed) 0 32 _ (by omega) (by omega)]; simp only
  rw [C14.sliceO_ok sig 36 sig.length _ (by omega) (by omega)]; simp only
  have hidxv : sig[0].toNat * 16777216 + sig[1].toNat * 65536 + sig[2].toNat * 256 + sig[3].toNat = idx := by
    have := indexOf_toBytesBE_append idx (r ++ W.flatten ++ A.flatten) hidx
    simp only [indexOf, ← List.append_assoc, hsig] at this
    simpa [List.getD_eq_getElem?_getD, List.getElem?_eq_getElem (show 0 < sig.length by omega),
      List.getElem?_eq_getElem (show 1 < sig.length by omega), List.getElem?_eq_getElem (show 2 < sig.length by omega),
      List.getElem?_eq_getElem (show 3 < sig.length by omega)] using this
  rw [hidxv]
  have hps' : ((root ++ pubSeed).drop 32).take (64 - 32) = pubSeed := by
    rw [List.drop_left' hroot, List.take_of_length_le (by omega)]
  have hroot' : ((root ++ pubSeed).drop 0).take (32 - 0) = root := by
    rw [List.drop_zero, Nat.sub_zero, List.take_left' hroot]
  have hr' : (sig.drop 4).take (36 - 4) = r := by
    rw [← hsig, b4]; simp [← hr]
  rw [hps', hroot', hr']
  have hw : (sig.drop 36).take (sig.length - 36) = W.flatten ++ A.flatten := by
    rw [List.take_of_length_le (by simp)]
    rw [← hsig, b4]
    have : ([UInt8.ofNat ((idx % 4294967296) >>> 24), UInt8.ofNat ((idx % 4294967296) >>> 16),
      UInt8.ofNat ((idx % 4294967296) >>> 8), UInt8.ofNat ((idx % 4294967296) >>> 0)] ++ r ++ W.flatten ++ A.flatten) =
      ([UInt8.ofNat ((idx % 4294967296) >>> 24), UInt8.ofNat ((idx % 4294967296) >>> 16),
      UInt8.ofNat ((idx % 4294967296) >>> 8), UInt8.ofNat ((idx % 4294967296) >>> 0)] ++ r) ++ (W.flatten ++ A.flatten) := by simp
    rw [this, List.drop_left' (by simp [hr])]
  rw [hw]
  have hch := slicesO_flatten "wots sig chain" W [] A.flatten hW32
  simp only [List.nil_append, List.length_nil] at hch
  rw [← hW, hch]; simp only
  cases hwp : wotsPKFromSig (hashOf hf) p W (hMsg (hashOf hf) msg (r ++ root ++ toBytesBE idx 32)) pubSeed idx with
  | refuse c => rfl
  | fault w => rfl
  | ok wpk =>
    simp only
    have hab : (sig.drop (36 + p.keySize)).take (sig.length - (36 + p.keySize)) = A.flatten := by
      rw [List.take_of_length_le (by simp)]
      rw [← hsig]
      have : toBytesBE idx 4 ++ r ++ W.flatten ++ A.flatten = (toBytesBE idx 4 ++ r ++ W.flatten) ++ A.flatten := by simp
      rw [this, List.drop_left' (by simp [toBytesBE_length, hr, hWf, hW, hks]; omega)]
    rw [C14.sliceO_ok sig (36 + p.keySize) sig.length _ (by omega) (by omega)]; simp only
    rw [hab]
    have hau := slicesO_flatten "authpath" A [] [] hA32
    simp only [List.nil_append, List.length_nil, List.append_nil] at hau
    rw [← hA, hau]

end
end Qrl.Xmss
