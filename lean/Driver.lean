import QrlModel.Exec.Hash
import QrlModel.Model.Basic
import QrlModel.Model.Mnemonic
import QrlModel.Model.Address
import QrlModel.Model.Hex
import QrlModel.Model.XmssKey
import QrlModel.Model.Dilithium
import QrlModel.Model.Ctor
import QrlModel.Model.BdsLabel
import QrlModel.Spec.XmssRef
/-! Line-protocol driver: one operation per input line, one canonical result line per operation.
The Go harness executes the same lines on the real library; the two output streams are diffed. -/
open Qrl

def unhexNib (c : Char) : Nat :=
  if '0' ≤ c ∧ c ≤ '9' then c.toNat - 48 else if 'a' ≤ c ∧ c ≤ 'f' then c.toNat - 87
  else if 'A' ≤ c ∧ c ≤ 'F' then c.toNat - 55 else 0

/-- hex argument; "-" is the empty string -/
def unhex (s : String) : Bytes :=
  if s == "-" then [] else
  let rec go : List Char → Bytes
    | a :: b :: rest => UInt8.ofNat (unhexNib a * 16 + unhexNib b) :: go rest
    | _ => []
  go s.toList

def hx (b : Bytes) : String := if b.isEmpty then "-" else hexOf b

def shake128 : Bytes → Nat → Bytes := Hash.shake128L
def shake256 : Bytes → Nat → Bytes := Hash.shake256L
def sha256 : Bytes → Bytes := Hash.sha256L

/-- `coreHash`'s switch: unsupported ids leave the zero-initialised output untouched. -/
def hashOf (hf : Nat) (b : Bytes) : Bytes :=
  if hf = 0 then sha256 b else if hf = 1 then shake128 b 32 else if hf = 2 then shake256 b 32 else zeros 32

def showO {α} (f : α → String) : Outcome α → String
  | .ok a => "ok " ++ f a
  | .refuse c => "refuse:" ++ c
  | .fault w => "fault:" ++ w

def showC {α} (f : α → String) : Outcome α → String
  | .ok a => "ok:" ++ f a
  | .refuse c => "refuse:" ++ c
  | .fault w => "fault:" ++ w

def showBool (b : Bool) : String := if b then "true" else "false"

def coeffStr (c : Dil.Coeff) : String := toString c.toInt
def polyStr (p : Dil.Poly) : String := ",".intercalate (p.map coeffStr)
def parseInt (s : String) : Int := s.toInt?.getD 0
def parsePoly (s : String) : Dil.Poly := (s.splitOn ",").map (fun x => BitVec.ofInt 32 (parseInt x))
def parsePolys (s : String) : List Dil.Poly := (s.splitOn ";").map parsePoly
def bv32 (s : String) : BitVec 32 := BitVec.ofInt 32 (parseInt s)
def bv64 (s : String) : BitVec 64 := BitVec.ofInt 64 (parseInt s)

structure DState where
  xkeys : List (String × Xmss.Key) := []
  dkeys : List (String × Dil.KeyPair × Bytes) := []
  lbl : Option (Nat × Nat × Bds.St BdsLabel.Lbl) := none
  refKeys : List (String × XmssRef.RefKey) := []

def lookupK {α} (l : List (String × α)) (k : String) : Option α := (l.find? (·.1 == k)).map (·.2)
def putK {α} (l : List (String × α)) (k : String) (v : α) : List (String × α) := (k, v) :: l.filter (·.1 != k)

def exitStr : Dil.Exit → String
  | .zNorm => "z" | .w0Norm => "w0" | .ct0Norm => "ct0" | .hintCount => "hint" | .accept => "accept"

def snapStr (k : Xmss.Key) : String :=
  let b := k.bds
  let th := b.treeHash.map fun t => s!"{t.h}/{t.nextIdx}/{t.stackUsage}/{t.completed}/{hx t.node}"
  s!"sk={hx k.sk} off={b.stackOffset} lv={b.stackLevels} stack={hx b.stack.flatten} auth={hx b.auth.flatten} keep={hx b.keep.flatten} th={th} retain={hx b.retain.flatten}"

def xverifyCore (msg sig pk : Bytes) : Outcome Bool := Xmss.verify hashOf msg sig pk
def dverifyCore (msg sig pk : Bytes) : Outcome Bool := .ok (Dil.verify shake128 shake256 sig msg pk)

def step (st : DState) (line : String) : DState × String :=
  match line.trimAscii.toString.splitOn " " with
  -- ---- mnemonic ----
  | ["m.enc", b] => (st, showO hx (Mnemonic.binToMnemonic (unhex b)))
  | ["m.dec", p] => (st, showO hx (Mnemonic.mnemonicToBin (unhex p)))
  | ["m.dec48", p] => (st, showO hx (Mnemonic.mnemonicToSeedBin (unhex p)))
  | ["m.dec51", p] => (st, showO hx (Mnemonic.mnemonicToExtendedSeedBin (unhex p)))
  -- ---- descriptors and addresses ----
  | ["d.frombytes", b] =>
    let d := Desc.ofPrefix (unhex b)
    (st, s!"ok {d.hashFn} {d.sigType} {d.height} {d.addrFmt} {hx d.bytes}")
  | ["d.new", h, hf, sg, af] =>
    let d : Desc := ⟨hf.toNat!, sg.toNat!, h.toNat!, af.toNat!⟩
    let d' := Desc.ofPrefix d.bytes
    (st, s!"ok {hx d.bytes} {d'.hashFn} {d'.sigType} {d'.height} {d'.addrFmt}")
  | ["a.xmss", pk] => (st, showO hx (xmssAddressFromPK shake256 (unhex pk)))
  | ["a.xmssvalid", a] => (st, "ok " ++ showBool (isValidXmssAddress (unhex a)))
  | ["a.legacy", pk] => (st, showO hx (legacyAddressFromPK sha256 (unhex pk)))
  | ["a.legacyvalid", a] => (st, "ok " ++ showBool (isValidLegacyAddress sha256 (unhex a)))
  | ["a.dil", pk] => (st, "ok " ++ hx (dilAddressFromPK shake256 (unhex pk)))
  | ["a.dilvalid", a] => (st, "ok " ++ showBool (isValidDilAddress (unhex a)))
  -- ---- string wrappers ----
  | ["js.xverify", m, s, p] => (st, showO showBool (Hex.verifyJS true xverifyCore 67 none (unhex m) (unhex s) (unhex p)))
  | ["js.xaddr", p] => (st, showO hx (Hex.addressFromPKJS true (xmssAddressFromPK shake256) 67 false (unhex p)))
  | ["js.xvalid", a] => (st, "ok " ++ showBool (Hex.isValidAddressJS true isValidXmssAddress (unhex a)))
  | ["js.dverify", m, s, p] => (st, showO showBool (Hex.verifyJS true dverifyCore 2592 (some 4595) (unhex m) (unhex s) (unhex p)))
  | ["js.daddr", p] => (st, showO hx (Hex.addressFromPKJS true (fun pk => .ok (dilAddressFromPK shake256 pk)) 2592 true (unhex p)))
  | ["js.dvalid", a] => (st, "ok " ++ showBool (Hex.isValidAddressJS true isValidDilAddress (unhex a)))
  -- ---- XMSS objects ----
  | ["x.new", id, seed, h, hf, af] =>
    match Xmss.newFromSeed hashOf shake256 (unhex seed) h.toNat! hf.toNat! af.toNat! with
    | .ok k => ({ st with xkeys := putK st.xkeys id k }, "ok " ++ hx k.pk)
    | .refuse c => (st, "refuse:" ++ c)
    | .fault w => (st, "fault:" ++ w)
  | ["x.newext", id, es] =>
    match Xmss.newFromExtendedSeed hashOf shake256 (unhex es) with
    | .ok k => ({ st with xkeys := putK st.xkeys id k }, "ok " ++ hx k.pk)
    | .refuse c => (st, "refuse:" ++ c)
    | .fault w => (st, "fault:" ++ w)
  | ["x.sign", id, m] =>
    match lookupK st.xkeys id with
    | none => (st, "bad-op")
    | some k =>
      match Xmss.sign hashOf k (unhex m) with
      | .ok (k', sig) => ({ st with xkeys := putK st.xkeys id k' }, "ok " ++ hx sig)
      | .refuse c => (st, "refuse:" ++ c)
      | .fault w => (st, "fault:" ++ w)
  | ["x.setidx", id, j] =>
    match lookupK st.xkeys id with
    | none => (st, "bad-op")
    | some k =>
      match Xmss.setIndex hashOf k j.toNat! with
      | .ok k' => ({ st with xkeys := putK st.xkeys id k' }, "ok")
      | .refuse c => (st, "refuse:" ++ c)
      | .fault w => (st, "fault:" ++ w)
  | ["x.info", id] =>
    match lookupK st.xkeys id with
    | none => (st, "bad-op")
    | some k =>
      (st, s!"ok idx={k.index} h={k.h} pk={hx k.pk} seed={hx k.seed} ext={hx k.extendedSeed} addr={showC hx (xmssAddressFromPK shake256 k.pk)} mn={showC hx (Mnemonic.binToMnemonic k.extendedSeed)}")
  | ["x.snap", id] =>
    match lookupK st.xkeys id with
    | none => (st, "bad-op")
    | some k => (st, "ok " ++ snapStr k)
  | ["x.verify", w, m, s, p] => (st, showO showBool (Xmss.verifyW hashOf (unhex m) (unhex s) (unhex p) w.toNat!))
  | ["x.craft", w, hf, h, idx, m, rnd] =>   -- model-only: a valid triple at a height where no key can be generated
    match Xmss.wparams? w.toNat! with
    | none => (st, "refuse:logW")
    | some p =>
      let mat := shake256 (unhex rnd) (96 + 32 * 30)
      let auth := (List.range 30).map fun i => (mat.drop (96 + 32 * i)).take 32
      (st, showO (fun (q : Bytes × Bytes) => s!"{hx q.1} {hx q.2}")
        (Xmss.craft hashOf p hf.toNat! h.toNat! idx.toNat! (unhex m) (mat.take 32) ((mat.drop 32).take 32) ((mat.drop 64).take 32) auth))
  | ["x.wparams", w] =>
    match Xmss.wparams? w.toNat! with
    | some p => (st, s!"ok {p.len1} {p.len2} {p.len} {p.logW} {p.keySize}")
    | none => (st, "refuse:logW")
  -- ---- reference XMSS (full Merkle tree) ----
  | ["xs.pk", seed, h, hf] =>
    let key := seed ++ " " ++ h ++ " " ++ hf
    let k := match lookupK st.refKeys key with
      | some k => k
      | none => XmssRef.refKey hashOf shake256 (unhex seed) h.toNat! hf.toNat!
    ({ st with refKeys := putK st.refKeys key k }, "ok " ++ hx k.pk)
  | ["xs.sign", seed, h, hf, idx, m] =>
    let key := seed ++ " " ++ h ++ " " ++ hf
    let k := match lookupK st.refKeys key with
      | some k => k
      | none => XmssRef.refKey hashOf shake256 (unhex seed) h.toNat! hf.toNat!
    ({ st with refKeys := putK st.refKeys key k }, showO hx (XmssRef.refSign hashOf k idx.toNat! (unhex m)))
  -- ---- BDS label mode ----
  | ["bds.init", h] =>
    let hh := h.toNat!
    let (s, root) := Bds.treeHashSetup BdsLabel.ops hh
    ({ st with lbl := some (hh, 0, s) }, s!"ok root={BdsLabel.lblStr root} {BdsLabel.showSt s}")
  | ["bds.states", h, len, m] =>   -- states after key generation and after each of m segments of len steps (Lean source)
    let hh := h.toNat!
    let (s0, _) := Bds.treeHashSetup BdsLabel.ops hh
    let r := (List.range m.toNat!).foldl (fun (acc : List String × Bds.St BdsLabel.Lbl) c =>
      let s' := Bds.fastForward BdsLabel.ops hh len.toNat! (len.toNat! * c) acc.2
      (BdsLabel.stSrc s' :: acc.1, s')) ([BdsLabel.stSrc s0], s0)
    (st, "\n".intercalate r.1.reverse)
  | ["bds.setupstates", h, len, m] =>   -- tuples of the key-generation leaf loop after every len leaves (Lean source)
    let hh := h.toNat!
    let s0 := Bds.newState BdsLabel.ops hh
    let s0 := (List.range (hh - Bds.K)).foldl (fun s i =>
      { s with treeHash := Bds.modTH BdsLabel.ops s.treeHash i (fun t => { t with h := i, completed := 1, stackUsage := 0 }) }) s0
    let init : List BdsLabel.Lbl × List Nat × Nat × Bds.St BdsLabel.Lbl := (List.replicate (hh+1) BdsLabel.Lbl.zero, List.replicate (hh+1) 0, 0, s0)
    let src (x : List BdsLabel.Lbl × List Nat × Nat × Bds.St BdsLabel.Lbl) : String :=
      "([" ++ ", ".intercalate (x.1.map BdsLabel.lblSrc) ++ s!"], {x.2.1}, {x.2.2.1}, " ++ BdsLabel.stSrc x.2.2.2 ++ ")"
    let r := (List.range m.toNat!).foldl (fun (acc : List String × (List BdsLabel.Lbl × List Nat × Nat × Bds.St BdsLabel.Lbl)) c =>
      let x' := Bds.setupLoop BdsLabel.ops hh len.toNat! (len.toNat! * c) acc.2
      (src x' :: acc.1, x')) ([src init], init)
    (st, "\n".intercalate r.1.reverse)
  | ["bds.step"] =>
    match st.lbl with
    | none => (st, "bad-op")
    | some (h, i, s) =>
      let s' := Bds.step BdsLabel.ops h s i
      ({ st with lbl := some (h, i+1, s') }, s!"ok {BdsLabel.showSt s'}")
  -- ---- Dilithium scalars ----
  | ["dl.mont", a] => (st, "ok " ++ toString (Gen.Dil.montgomeryReduce (bv64 a)).toInt)
  | ["dl.red", a] => (st, "ok " ++ toString (Gen.Dil.reduce32 (bv32 a)).toInt)
  | ["dl.caddq", a] => (st, "ok " ++ toString (Gen.Dil.cAddQ (bv32 a)).toInt)
  | ["dl.p2r", a] => let r := Gen.Dil.power2Round (bv32 a); (st, s!"ok {r.1.toInt} {r.2.toInt}")
  | ["dl.decomp", a] => let r := Gen.Dil.decompose (bv32 a); (st, s!"ok {r.1.toInt} {r.2.toInt}")
  | ["dl.mkhint", a0, a1] => (st, "ok " ++ toString (Gen.Dil.makeHint (bv32 a0) (bv32 a1)).toNat)
  | ["dl.usehint", a, h] => (st, "ok " ++ toString (Gen.Dil.useHint (bv32 a) (bv64 h)).toInt)
  | ["dl.ntt", p] => (st, "ok " ++ polyStr (Dil.ntt (parsePoly p)))
  | ["dl.invntt", p] => (st, "ok " ++ polyStr (Dil.invNTTToMont (parsePoly p)))
  | ["dl.pw", a, b] => (st, "ok " ++ polyStr (Dil.polyPointwise (parsePoly a) (parsePoly b)))
  | ["dl.chknorm", b, p] => (st, "ok " ++ (if Dil.polyChkNorm (parsePoly p) (bv32 b) then "1" else "0"))
  | ["dl.pack", kind, p] =>
    let a := parsePoly p
    let r := match kind with
      | "eta" => Dil.polyEtaPack a | "t1" => Dil.polyT1Pack a | "t0" => Dil.polyT0Pack a
      | "z" => Dil.polyZPack a | _ => Dil.polyW1Pack a
    (st, "ok " ++ hx r)
  | ["dl.unpack", kind, b] =>
    let a := unhex b
    let r := match kind with
      | "eta" => Dil.polyEtaUnpack a | "t1" => Dil.polyT1Unpack a | "t0" => Dil.polyT0Unpack a
      | _ => Dil.polyZUnpack a
    (st, "ok " ++ polyStr r)
  | ["dl.packsig", c, z, h] => (st, "ok " ++ hx (Dil.packSig (unhex c) (parsePolys z) (parsePolys h)))
  | ["dl.unpacksig", s] =>
    match Dil.unpackSig (unhex s) with
    | none => (st, "ok rc=1")
    | some r => (st, s!"ok rc=0 c={hx r.c} z={";".intercalate (r.z.map polyStr)} h={";".intercalate (r.h.map polyStr)}")
  | ["dl.rejuniform", n, b] => let r := Dil.rejUniform n.toNat! (unhex b); (st, s!"ok {r.length} {polyStr r}")
  | ["dl.rejeta", n, b] => let r := Dil.rejEta n.toNat! (unhex b); (st, s!"ok {r.length} {polyStr r}")
  | ["dl.uniform", s, n] => (st, "ok " ++ polyStr (Dil.polyUniform shake128 (unhex s) n.toNat!))
  | ["dl.eta", s, n] => (st, "ok " ++ polyStr (Dil.polyUniformEta shake256 (unhex s) n.toNat!))
  | ["dl.gamma1", s, n] => (st, "ok " ++ polyStr (Dil.polyUniformGamma1 shake256 (unhex s) n.toNat!))
  | ["dl.challenge", s] => (st, "ok " ++ polyStr (Dil.polyChallenge shake256 (unhex s)))
  | ["dl.keypair", s] => let kp := Dil.keypair shake128 shake256 (unhex s); (st, s!"ok pk={hx kp.pk} sk={hx kp.sk}")
  | ["dl.new", id, seed] =>
    let sd := unhex seed
    let kp := Dil.keypair shake128 shake256 (shake256 sd 32)
    ({ st with dkeys := putK st.dkeys id (kp, sd) }, s!"ok pk={hx kp.pk} sk={hx kp.sk}")
  | ["dl.unpacksk", sk] =>
    let (rho, key, tr, s1, s2, t0) := Dil.unpackSk (unhex sk)
    (st, s!"ok rho={hx rho} key={hx key} tr={hx tr} s1={" | ".intercalate (s1.map polyStr)} s2={" | ".intercalate (s2.map polyStr)} t0={" | ".intercalate (t0.map polyStr)}")
  | ["dl.unpackpk", pk] =>
    let (rho, t1) := Dil.unpackPk (unhex pk)
    (st, s!"ok rho={hx rho} t1={" | ".intercalate (t1.map polyStr)}")
  | ["dl.filled", seed] =>   -- hypothesis `Expanded` of C03.verify_sign, evaluated on this seed
    (st, s!"ok {Dil.keygenFilled shake128 shake256 (shake256 (unhex seed) 32)}")
  | ["dl.newhex", hs] =>
    (st, showO (fun (kp : Dil.KeyPair) => s!"pk={hx kp.pk} sk={hx kp.sk}") (Dil.fromHexSeed shake128 shake256 (unhex hs)))
  | ["dl.newmn", m] =>
    (st, showO (fun (kp : Dil.KeyPair) => s!"pk={hx kp.pk} sk={hx kp.sk}") (Dil.fromMnemonic shake128 shake256 (unhex m)))
  | ["dl.sign", id, m] =>
    match lookupK st.dkeys id with
    | none => (st, "bad-op")
    | some (kp, _) =>
      match Dil.signDetached shake128 shake256 {} kp.sk (unhex m) with
      | none => (st, "fault:sign-fuel")
      | some (sig, _, _) => (st, "ok " ++ hx sig)
  | ["dl.seal", id, m] =>
    match lookupK st.dkeys id with
    | none => (st, "bad-op")
    | some (kp, _) =>
      match Dil.sealMsg shake128 shake256 kp.sk (unhex m) with
      | none => (st, "fault:sign-fuel")
      | some sm => (st, "ok " ++ hx sm)
  | ["dl.signsk", sk, m] =>
    match Dil.signDetached shake128 shake256 {} (unhex sk) (unhex m) with
    | none => (st, "fault:sign-fuel")
    | some (sig, _, _) => (st, "ok " ++ hx sig)
  | ["dl.exits", sk, m] =>   -- model-only: the rejection-loop exits taken
    match Dil.signDetached shake128 shake256 {} (unhex sk) (unhex m) with
    | none => (st, "fault:sign-fuel")
    | some (_, ex, _) => (st, "ok " ++ ",".intercalate (ex.map exitStr))
  | ["dl.malsign", cfg, sk, m] =>   -- model-only: signer that skips one signing-side check
    let c : Dil.SignCfg := { skipZ := cfg == "z", skipW0 := cfg == "w0", skipCt0 := cfg == "ct0", skipHint := cfg == "hint" }
    match Dil.signDetached shake128 shake256 c (unhex sk) (unhex m) with
    | none => (st, "fault:sign-fuel")
    | some (sig, _, viol) => (st, s!"ok {hx sig} {if viol.isEmpty then "none" else ",".intercalate viol}")
  | ["dl.verify", m, s, p] => (st, "ok " ++ showBool (Dil.verify shake128 shake256 (unhex s) (unhex m) (unhex p)))
  | ["dl.open", sm, p] =>
    match Dil.openSealed shake128 shake256 (unhex sm) (unhex p) with
    | none => (st, "ok nil")
    | some m => (st, "ok " ++ hx m)
  | ["h.sha256", b] => (st, "ok " ++ hx (sha256 (unhex b)))
  | ["h.shake128", b, n] => (st, "ok " ++ hx (shake128 (unhex b) n.toNat!))
  | ["h.shake256", b, n] => (st, "ok " ++ hx (shake256 (unhex b) n.toNat!))
  | [""] => (st, "")
  | _ => (st, "bad-op")

partial def loop (h : IO.FS.Stream) (out : IO.FS.Stream) (st : DState) : IO Unit := do
  let line ← h.getLine
  if line.isEmpty then return ()
  if line.startsWith "#" then
    out.putStrLn line.trimAscii.toString
    loop h out st
  else
    let (st', o) := step st line
    out.putStrLn o
    out.flush
    loop h out st'

def main : IO Unit := do
  loop (← IO.getStdin) (← IO.getStdout) {}
